/-
Helper lemmas for the Gell-Mann model (C16; reused by C01/C02 for the placements that go through
`gellmann_basis_to_matrix`).
-/
import Mathlib.Tactic
import Mathlib.Data.Matrix.Basis
import Mathlib.LinearAlgebra.Matrix.Trace
import Mathlib.Data.Matrix.Mul
import Mathlib.Algebra.BigOperators.Fin
import Mathlib.Algebra.Star.Basic
import Mathlib.Data.Fintype.Fin
import NumqiModel.Gellmann

namespace Numqi.Gellmann
open Matrix

/-! ### the index lists -/
section lists
variable {d : Nat}
theorem mem_pairs {p : Fin d × Fin d} : p ∈ pairs d ↔ p.1 < p.2 := by
  simp only [pairs, List.mem_flatMap, List.mem_finRange, true_and, List.mem_map, List.mem_filter, decide_eq_true_eq]
  constructor
  · rintro ⟨i, j, hij, rfl⟩; exact hij
  · intro h; exact ⟨p.1, p.2, h, rfl⟩
theorem nodup_pairs : (pairs d).Nodup := by
  unfold pairs
  rw [List.nodup_flatMap]
  refine ⟨fun i _ => ?_, ?_⟩
  · exact ((List.nodup_finRange d).filter _).map (fun a b h => by simpa using h)
  · refine List.Pairwise.imp ?_ (List.nodup_finRange d)
    intro a b hab
    simp only [Function.onFun, List.disjoint_left, List.mem_map, List.mem_filter]
    rintro x ⟨j, _, rfl⟩ ⟨j', _, h⟩
    exact hab (by simpa using (congrArg Prod.fst h).symm)

theorem length_pairs : (pairs d).length * 2 = d * (d - 1) := by
  have h1 : (pairs d).length = (Finset.univ.filter (fun p : Fin d × Fin d => p.1 < p.2)).card := by
    rw [← List.toFinset_card_of_nodup nodup_pairs]
    congr 1; ext p; simp [mem_pairs]
  have h2 : (Finset.univ.filter (fun p : Fin d × Fin d => p.1 < p.2)).card
      = (Finset.univ.filter (fun p : Fin d × Fin d => p.2 < p.1)).card := by
    apply Finset.card_bij (fun p _ => (p.2, p.1))
    · intro p hp; simpa using hp
    · intro p _ q _ h; simp only [Prod.mk.injEq] at h; exact Prod.ext h.2 h.1
    · intro q hq; exact ⟨(q.2, q.1), by simpa using hq, rfl⟩
  have h3 : (Finset.univ.filter (fun p : Fin d × Fin d => p.1 = p.2)).card = d := by
    have : (Finset.univ.filter (fun p : Fin d × Fin d => p.1 = p.2)) = Finset.univ.image (fun i : Fin d => (i, i)) := by
      ext p; simp only [Finset.mem_filter, Finset.mem_univ, true_and, Finset.mem_image]
      constructor
      · intro h; exact ⟨p.1, Prod.ext rfl h⟩
      · rintro ⟨i, rfl⟩; rfl
    rw [this, Finset.card_image_of_injective _ (fun a b h => by simpa using h)]; simp
  have h4 : (Finset.univ.filter (fun p : Fin d × Fin d => p.1 < p.2)).card
      + (Finset.univ.filter (fun p : Fin d × Fin d => p.2 < p.1)).card
      + (Finset.univ.filter (fun p : Fin d × Fin d => p.1 = p.2)).card = d * d := by
    rw [← Finset.card_union_of_disjoint, ← Finset.card_union_of_disjoint]
    · have : (Finset.univ.filter (fun p : Fin d × Fin d => p.1 < p.2)) ∪ (Finset.univ.filter (fun p : Fin d × Fin d => p.2 < p.1))
          ∪ (Finset.univ.filter (fun p : Fin d × Fin d => p.1 = p.2)) = Finset.univ := by
        ext p; simp only [Finset.mem_union, Finset.mem_filter, Finset.mem_univ, true_and, iff_true]
        rcases lt_trichotomy p.1 p.2 with h | h | h
        · exact Or.inl (Or.inl h)
        · exact Or.inr h
        · exact Or.inl (Or.inr h)
      rw [this]; simp
    · rw [Finset.disjoint_left]; intro p hp hq
      simp only [Finset.mem_union, Finset.mem_filter, Finset.mem_univ, true_and] at hp hq
      rcases hp with hp | hp <;> omega
    · rw [Finset.disjoint_left]; intro p hp hq
      simp only [Finset.mem_filter, Finset.mem_univ, true_and] at hp hq
      exact absurd hp (not_lt_of_gt hq)
  rw [h1]
  rw [← h2, h3] at h4
  cases d with
  | zero => simp at h4 ⊢
  | succ n =>
    simp only [Nat.add_sub_cancel]
    have : (n+1) * (n+1) = (n+1) * n + (n+1) := by ring
    omega

theorem mem_diagIdx {k : Fin d} : k ∈ diagIdx d ↔ 0 < k.val := by
  simp [diagIdx]

theorem nodup_diagIdx : (diagIdx d).Nodup := (List.nodup_finRange d).filter _

/-- `diagIdx (d+1) = [1, …, d]` -/
theorem diagIdx_eq : (diagIdx (d+1)) = (List.finRange d).map Fin.succ := by
  unfold diagIdx
  rw [List.finRange_succ]
  simp [List.filter_map, Function.comp_def]

theorem length_diagIdx : (diagIdx d).length = d - 1 := by
  cases d with
  | zero => simp [diagIdx]
  | succ n => simp [diagIdx_eq]

end lists

variable {R : Type} [CommRing R] {d : Nat}

/-- basis element as a Mathlib matrix -/
def G (S : Scalars R) (d i j : Nat) : Matrix (Fin d) (Fin d) R := Matrix.of (gm S d i j)

theorem G_sym (S : Scalars R) {i j : Fin d} (h : i < j) :
    G S d i.val j.val = single i j 1 + single j i 1 := by
  ext r c
  have h' : i.val < j.val := h
  have hne : i ≠ j := ne_of_lt h
  rw [Matrix.add_apply, Matrix.single_apply, Matrix.single_apply]
  simp only [G, Matrix.of_apply, gm, not_lt_of_gt h', if_false, h', if_true, ← Fin.ext_iff]
  by_cases h1 : r = i <;> by_cases h2 : c = j <;> by_cases h3 : r = j <;> by_cases h4 : c = i <;>
    simp_all [eq_comm]

theorem G_asym (S : Scalars R) {i j : Fin d} (h : i < j) :
    G S d j.val i.val = single j i S.I + single i j (-S.I) := by
  ext r c
  have h' : i.val < j.val := h
  have hne : i ≠ j := ne_of_lt h
  rw [Matrix.add_apply, Matrix.single_apply, Matrix.single_apply]
  simp only [G, Matrix.of_apply, gm, h', if_true, ← Fin.ext_iff]
  by_cases h1 : r = i <;> by_cases h2 : c = j <;> by_cases h3 : r = j <;> by_cases h4 : c = i <;>
    simp_all [eq_comm]

/-- diagonal weights of the Pauli-Z like element `k` -/
def wD (S : Scalars R) (k : Nat) (r : Fin d) : R :=
  if r.val < k then S.cD k else if r.val = k then S.cD k * -(k : R) else 0

theorem G_diag (S : Scalars R) {k : Nat} (h : 0 < k) :
    G S d k k = diagonal (wD S k) := by
  ext r c
  simp only [G, Matrix.of_apply, gm, lt_irrefl, if_false, Nat.ne_of_gt h, diagonal_apply, wD]

theorem G_ident (S : Scalars R) : G S d 0 0 = diagonal (fun _ => S.cI) := by
  ext r c
  simp only [G, Matrix.of_apply, gm, lt_irrefl, if_false, if_true, diagonal_apply]

/-! ### inner products `tr (G_a X)` -/

theorem tr_sym_mul (S : Scalars R) {i j : Fin d} (h : i < j) (X : Matrix (Fin d) (Fin d) R) :
    trace (G S d i.val j.val * X) = X j i + X i j := by
  rw [G_sym S h, add_mul, trace_add, trace_single_mul, trace_single_mul]; simp

theorem tr_asym_mul (S : Scalars R) {i j : Fin d} (h : i < j) (X : Matrix (Fin d) (Fin d) R) :
    trace (G S d j.val i.val * X) = S.I * X i j - S.I * X j i := by
  rw [G_asym S h, add_mul, trace_add, trace_single_mul, trace_single_mul]; simp [sub_eq_add_neg]

theorem tr_diagonal_mul (w : Fin d → R) (X : Matrix (Fin d) (Fin d) R) :
    trace (diagonal w * X) = ∑ r, w r * X r r := by
  simp [trace, diagonal_mul]

theorem sum_lt_const (k : Fin d) (c : R) : ∑ r : Fin d, (if r.val < k.val then c else 0) = (k.val : R) * c := by
  rw [← Finset.sum_filter, Finset.sum_const, Fin.card_filter_val_lt, min_eq_right (le_of_lt k.isLt)]
  simp

theorem sum_wD (S : Scalars R) (k : Fin d) : ∑ r : Fin d, wD S k.val r = 0 := by
  have : ∀ r : Fin d, wD S k.val r = (if r.val < k.val then S.cD k else 0) + (if r = k then S.cD k * -(k.val : R) else 0) := by
    intro r; unfold wD
    by_cases h1 : r.val < k.val
    · have : r ≠ k := fun e => by rw [e] at h1; exact lt_irrefl _ h1
      simp [h1, this]
    · by_cases h2 : r = k
      · subst h2; simp
      · have : r.val ≠ k.val := fun e => h2 (Fin.ext e)
        simp [h1, h2, this]
  simp only [this, Finset.sum_add_distrib, sum_lt_const, Finset.sum_ite_eq', Finset.mem_univ, if_true]
  ring

theorem sum_wD_sq (S : Scalars R) (k : Fin d) :
    ∑ r : Fin d, wD S k.val r * wD S k.val r = S.cD k * S.cD k * ((k.val : R) * ((k.val : R) + 1)) := by
  have : ∀ r : Fin d, wD S k.val r * wD S k.val r = (if r.val < k.val then S.cD k * S.cD k else 0)
      + (if r = k then S.cD k * -(k.val : R) * (S.cD k * -(k.val : R)) else 0) := by
    intro r; unfold wD
    by_cases h1 : r.val < k.val
    · have : r ≠ k := fun e => by rw [e] at h1; exact lt_irrefl _ h1
      simp [h1, this]
    · by_cases h2 : r = k
      · subst h2; simp
      · have : r.val ≠ k.val := fun e => h2 (Fin.ext e)
        simp [h1, h2, this]
  simp only [this, Finset.sum_add_distrib, sum_lt_const, Finset.sum_ite_eq', Finset.mem_univ, if_true]
  ring

theorem sum_wD_mul_lt (S : Scalars R) {k k' : Fin d} (h : k < k') :
    ∑ r : Fin d, wD S k.val r * wD S k'.val r = 0 := by
  have h' : k.val < k'.val := h
  have : ∀ r : Fin d, wD S k.val r * wD S k'.val r = wD S k.val r * S.cD k' := by
    intro r; unfold wD
    by_cases h1 : r.val < k.val
    · simp [h1, lt_trans h1 h']
    · by_cases h2 : r.val = k.val
      · simp [h2, h']
      · simp [h1, h2]
  simp only [this, ← Finset.sum_mul, sum_wD, zero_mul]

variable [StarRing R]

/-- the algebraic relations satisfied by the exact square roots -/
structure Scalars.Valid (S : Scalars R) (d : Nat) : Prop where
  half_two : S.half * 2 = 1
  I_sq : S.I * S.I = -1
  star_I : star S.I = -S.I
  star_half : star S.half = S.half
  cD_sq : ∀ k, 1 ≤ k → k < d → S.cD k * S.cD k * ((k : R) * ((k : R) + 1)) = 2
  star_cD : ∀ k, star (S.cD k) = S.cD k
  cI_sq : S.cI * S.cI * (d : R) = 2
  star_cI : star S.cI = S.cI
  aD_eq : ∀ k, S.aD k = S.half * S.cD k
  aI_eq : S.aI = S.half * S.cI
  invD_mul : S.invD * (d : R) = 1


/-! ### the basis as a list of tagged indices -/

inductive Kind (d : Nat) where
  | sym (p : Fin d × Fin d)
  | asym (p : Fin d × Fin d)
  | diag (k : Fin d)
  | ident
  deriving DecidableEq

/-- the documented order `sym ++ antisym ++ diag ++ [I]` -/
def kinds (d : Nat) : List (Kind d) :=
  (pairs d).map Kind.sym ++ (pairs d).map Kind.asym ++ (diagIdx d).map Kind.diag ++ [Kind.ident]

def Kind.mat (S : Scalars R) : Kind d → Matrix (Fin d) (Fin d) R
  | .sym p => G S d p.1.val p.2.val
  | .asym p => G S d p.2.val p.1.val
  | .diag k => G S d k.val k.val
  | .ident => G S d 0 0

def Kind.WF : Kind d → Prop
  | .sym p => p.1 < p.2
  | .asym p => p.1 < p.2
  | .diag k => 0 < k.val
  | .ident => True

omit [StarRing R] in
theorem allGellmann_eq (S : Scalars R) : (allGellmann S d).map Matrix.of = (kinds d).map (Kind.mat S) := by
  simp [allGellmann, kinds, List.map_append, List.map_map, Function.comp_def, Kind.mat, G]

theorem kinds_wf {k : Kind d} (h : k ∈ kinds d) : k.WF := by
  simp only [kinds, List.mem_append, List.mem_map, List.mem_singleton] at h
  rcases h with ((⟨p, hp, rfl⟩ | ⟨p, hp, rfl⟩) | ⟨k, hk, rfl⟩) | rfl
  · exact mem_pairs.1 hp
  · exact mem_pairs.1 hp
  · exact mem_diagIdx.1 hk
  · trivial

theorem kinds_nodup : (kinds d).Nodup := by
  unfold kinds
  refine List.Nodup.append (List.Nodup.append (List.Nodup.append ?_ ?_ ?_) ?_ ?_) (List.nodup_singleton _) ?_
  · exact nodup_pairs.map (fun a b h => by injection h)
  · exact nodup_pairs.map (fun a b h => by injection h)
  · simp only [List.disjoint_left, List.mem_map]
    rintro a ⟨p, _, rfl⟩ ⟨q, _, h⟩; cases h
  · exact nodup_diagIdx.map (fun a b h => by injection h)
  · simp only [List.disjoint_left, List.mem_map, List.mem_append]
    rintro a (⟨p, _, rfl⟩ | ⟨p, _, rfl⟩) ⟨q, _, h⟩ <;> cases h
  · simp only [List.disjoint_left, List.mem_map, List.mem_append, List.mem_singleton]
    rintro a ((⟨p, _, rfl⟩ | ⟨p, _, rfl⟩) | ⟨p, _, rfl⟩) h <;> cases h

theorem length_kinds (hd : 1 ≤ d) : (kinds d).length = d * d := by
  simp only [kinds, List.length_append, List.length_map, List.length_singleton, length_diagIdx]
  have := length_pairs (d := d)
  obtain ⟨n, rfl⟩ : ∃ n, d = n + 1 := ⟨d - 1, by omega⟩
  simp only [Nat.add_sub_cancel] at this ⊢
  have : (n+1) * (n+1) = (n+1) * n + (n+1) := by ring
  omega

theorem orth (S : Scalars R) (hS : S.Valid d) {k k' : Kind d} (hk : k.WF) (hk' : k'.WF) :
    trace (k.mat S * k'.mat S) = if k = k' then 2 else 0 := by
  cases k with
  | sym p =>
    obtain ⟨i, j⟩ := p
    simp only [Kind.WF] at hk
    simp only [Kind.mat]
    rw [tr_sym_mul S hk]
    cases k' with
    | sym q =>
      obtain ⟨a, b⟩ := q
      simp only [Kind.WF] at hk'
      simp only [Kind.mat, G_sym S hk', Matrix.add_apply, Matrix.single_apply, Kind.sym.injEq, Prod.mk.injEq]
      rw [Fin.lt_def] at hk hk'
      simp only [Fin.ext_iff]
      split_ifs <;> first | omega | norm_num
    | asym q =>
      obtain ⟨a, b⟩ := q
      simp only [Kind.WF] at hk'
      simp only [Kind.mat, G_asym S hk', Matrix.add_apply, Matrix.single_apply]
      rw [Fin.lt_def] at hk hk'
      simp only [Fin.ext_iff, reduceCtorEq, if_false]
      split_ifs <;> first | omega | simp
    | diag k =>
      simp only [Kind.WF] at hk'
      have : i ≠ j := ne_of_lt hk
      simp [Kind.mat, G_diag S hk', diagonal_apply, this, this.symm]
    | ident =>
      have : i ≠ j := ne_of_lt hk
      simp [Kind.mat, G_ident, diagonal_apply, this, this.symm]
  | asym p =>
    obtain ⟨i, j⟩ := p
    simp only [Kind.WF] at hk
    simp only [Kind.mat]
    rw [tr_asym_mul S hk]
    cases k' with
    | sym q =>
      obtain ⟨a, b⟩ := q
      simp only [Kind.WF] at hk'
      simp only [Kind.mat, G_sym S hk', Matrix.add_apply, Matrix.single_apply]
      rw [Fin.lt_def] at hk hk'
      simp only [Fin.ext_iff, reduceCtorEq, if_false]
      split_ifs <;> first | omega | simp
    | asym q =>
      obtain ⟨a, b⟩ := q
      simp only [Kind.WF] at hk'
      simp only [Kind.mat, G_asym S hk', Matrix.add_apply, Matrix.single_apply, Kind.asym.injEq, Prod.mk.injEq]
      rw [Fin.lt_def] at hk hk'
      simp only [Fin.ext_iff]
      have hI := hS.I_sq
      split_ifs <;> first | omega | (simp; try linear_combination (-2 : R) * hI)
    | diag k =>
      simp only [Kind.WF] at hk'
      have : i ≠ j := ne_of_lt hk
      simp [Kind.mat, G_diag S hk', diagonal_apply, this, this.symm]
    | ident =>
      have : i ≠ j := ne_of_lt hk
      simp [Kind.mat, G_ident, diagonal_apply, this, this.symm]
  | diag k =>
    simp only [Kind.WF] at hk
    simp only [Kind.mat]
    rw [G_diag S hk, tr_diagonal_mul]
    cases k' with
    | sym q =>
      obtain ⟨a, b⟩ := q
      simp only [Kind.WF] at hk'
      have : a ≠ b := ne_of_lt hk'
      have h2 : ∀ x : Fin d, ¬ (a = x ∧ b = x) := fun x h => this (h.1.trans h.2.symm)
      have h3 : ∀ x : Fin d, ¬ (b = x ∧ a = x) := fun x h => this (h.2.trans h.1.symm)
      simp [Kind.mat, G_sym S hk', Matrix.single_apply, h2, h3]
    | asym q =>
      obtain ⟨a, b⟩ := q
      simp only [Kind.WF] at hk'
      have : a ≠ b := ne_of_lt hk'
      have h2 : ∀ x : Fin d, ¬ (a = x ∧ b = x) := fun x h => this (h.1.trans h.2.symm)
      have h3 : ∀ x : Fin d, ¬ (b = x ∧ a = x) := fun x h => this (h.2.trans h.1.symm)
      simp [Kind.mat, G_asym S hk', Matrix.single_apply, h2, h3]
    | diag k' =>
      simp only [Kind.WF] at hk'
      simp only [Kind.mat, G_diag S hk', diagonal_apply_eq, Kind.diag.injEq]
      rcases lt_trichotomy k k' with h | h | h
      · rw [sum_wD_mul_lt S h, if_neg (ne_of_lt h)]
      · subst h
        rw [sum_wD_sq, if_pos rfl]
        exact hS.cD_sq _ hk k.isLt
      · rw [if_neg (ne_of_gt h)]
        rw [← sum_wD_mul_lt S h]
        exact Finset.sum_congr rfl (fun r _ => mul_comm _ _)
    | ident =>
      simp only [Kind.mat, G_ident, diagonal_apply_eq, reduceCtorEq, if_false, ← Finset.sum_mul, sum_wD, zero_mul]
  | ident =>
    simp only [Kind.mat]
    rw [G_ident, tr_diagonal_mul]
    cases k' with
    | sym q =>
      obtain ⟨a, b⟩ := q
      simp only [Kind.WF] at hk'
      have : a ≠ b := ne_of_lt hk'
      have h2 : ∀ x : Fin d, ¬ (a = x ∧ b = x) := fun x h => this (h.1.trans h.2.symm)
      have h3 : ∀ x : Fin d, ¬ (b = x ∧ a = x) := fun x h => this (h.2.trans h.1.symm)
      simp [Kind.mat, G_sym S hk', Matrix.single_apply, h2, h3]
    | asym q =>
      obtain ⟨a, b⟩ := q
      simp only [Kind.WF] at hk'
      have : a ≠ b := ne_of_lt hk'
      have h2 : ∀ x : Fin d, ¬ (a = x ∧ b = x) := fun x h => this (h.1.trans h.2.symm)
      have h3 : ∀ x : Fin d, ¬ (b = x ∧ a = x) := fun x h => this (h.2.trans h.1.symm)
      simp [Kind.mat, G_asym S hk', Matrix.single_apply, h2, h3]
    | diag k' =>
      simp only [Kind.WF] at hk'
      simp only [Kind.mat, G_diag S hk', diagonal_apply_eq, reduceCtorEq, if_false, ← Finset.mul_sum, sum_wD, mul_zero]
    | ident =>
      simp only [Kind.mat, G_ident, diagonal_apply_eq, if_true, Finset.sum_const, Finset.card_univ, Fintype.card_fin, nsmul_eq_mul]
      rw [← hS.cI_sq]; ring

end Numqi.Gellmann
