import Mathlib.Tactic
import Mathlib.Data.Matrix.Basis
import Mathlib.LinearAlgebra.Matrix.Trace
import Mathlib.Data.Matrix.Mul
import Mathlib.Algebra.BigOperators.Fin
import Mathlib.Algebra.Star.Basic
import NumqiModel.Gellmann

namespace Numqi.Gellmann
open Matrix

variable {R : Type} [CommRing R] {d : Nat}

/-- basis element as a Mathlib matrix -/
def G (S : Scalars R) (d i j : Nat) : Matrix (Fin d) (Fin d) R := Matrix.of (gm S d i j)

theorem G_sym (S : Scalars R) {i j : Fin d} (h : i < j) :
    G S d i.val j.val = single i j 1 + single j i 1 := by
  ext r c
  have h' : i.val < j.val := h
  have hne : i ≠ j := ne_of_lt h
  rw [Matrix.add_apply, Matrix.single_apply, Matrix.single_apply]
  simp only [G, Matrix.of_apply, gm, not_lt_of_gt h', if_false, h', if_true, ← Fin.ext_iff]
  by_cases h1 : r = i <;> by_cases h2 : c = j <;> by_cases h3 : r = j <;> by_cases h4 : c = i <;>
    simp_all [eq_comm]

theorem G_asym (S : Scalars R) {i j : Fin d} (h : i < j) :
    G S d j.val i.val = single j i S.I + single i j (-S.I) := by
  ext r c
  have h' : i.val < j.val := h
  have hne : i ≠ j := ne_of_lt h
  rw [Matrix.add_apply, Matrix.single_apply, Matrix.single_apply]
  simp only [G, Matrix.of_apply, gm, h', if_true, ← Fin.ext_iff]
  by_cases h1 : r = i <;> by_cases h2 : c = j <;> by_cases h3 : r = j <;> by_cases h4 : c = i <;>
    simp_all [eq_comm]

/-- diagonal weights of the Pauli-Z like element `k` -/
def wD (S : Scalars R) (k : Nat) (r : Fin d) : R :=
  if r.val < k then S.cD k else if r.val = k then S.cD k * -(k : R) else 0

theorem G_diag (S : Scalars R) {k : Nat} (h : 0 < k) :
    G S d k k = diagonal (wD S k) := by
  ext r c
  simp only [G, Matrix.of_apply, gm, lt_irrefl, if_false, Nat.ne_of_gt h, diagonal_apply, wD]

theorem G_ident (S : Scalars R) : G S d 0 0 = diagonal (fun _ => S.cI) := by
  ext r c
  simp only [G, Matrix.of_apply, gm, lt_irrefl, if_false, if_true, diagonal_apply]
