/- line-protocol handlers for C03 (state-vector simulator = embedded operator) -/
import Driver.Loop
import NumqiModel.Sim
import NumqiModel.Measure
import NumqiModel.Gates

namespace Numqi.Driver.C03
open Numqi

/-- how scalars cross the protocol for one carrier -/
structure Carrier (α : Type) where
  parse : String → Option α
  str : α → String
  /-- the imaginary unit of the carrier -/
  I : α

/-- `Z`: Gaussian integers `a,b` -/
def carZ : Carrier GInt := ⟨parseGInt?, GInt.toStr, GInt.I⟩

/-- `Q`: every scalar comes in as two binary64 bit patterns `reBits,imBits` and is decoded exactly;
results go out as exact rationals `p/q,p/q` -/
def carQ : Carrier QI :=
  ⟨fun s => match s.splitOn "," with
      | [a, b] => do
          let x ← a.toNat?; let y ← b.toNat?
          if x / 2 ^ 52 % 2048 = 2047 || y / 2 ^ 52 % 2048 = 2047 then none   -- inf / nan
          else pure ⟨ratOfFloatBits x, ratOfFloatBits y⟩
      | _ => none,
   QI.toStr, ⟨0, 1⟩⟩

section
variable {α : Type} [Add α] [Sub α] [Neg α] [Mul α] [Zero α] [One α] [Conj α]

def parseArr (car : Carrier α) (s : String) : Option (Array α) :=
  if s = "-" || s = "" then some #[] else ((s.splitOn ";").mapM car.parse).map List.toArray

def strArr (car : Carrier α) (a : Array α) : String := ";".intercalate (a.toList.map car.str)

def parseIdx? (s : String) : Option (List Int) := parseIntList? s

/-- `c~s` -/
def parsePair (car : Carrier α) (s : String) : Option (CS α) :=
  match s.splitOn "~" with
  | [a, b] => do let c ← car.parse a; let s ← car.parse b; pure ⟨c, s⟩
  | _ => none

def parsePairs (car : Carrier α) (s : String) : Option (List (CS α)) :=
  if s = "-" || s = "" then some [] else (s.splitOn ";").mapM (parsePair car)

/-- a call of a `Circuit` gate method: name, qubits, angle pairs -/
def parseVocab (name : String) (q : List Int) (p : List (CS α)) : Option (Vocab α) :=
  match name, q, p with
  | "X", [a], [] => some (.X a) | "Y", [a], [] => some (.Y a) | "Z", [a], [] => some (.Z a) | "S", [a], [] => some (.S a)
  | "H", [a], [x] => some (.H a x) | "T", [a], [x] => some (.T a x)
  | "Swap", [a, b], [] => some (.Swap a b)
  | "cnot", [a, b], [] => some (.cnot a b) | "cx", [a, b], [] => some (.cnot a b)
  | "cy", [a, b], [] => some (.cy a b) | "cz", [a, b], [] => some (.cz a b)
  | "toffoli", [a, b, c], [] => some (.toffoli a b c)
  | "rx", [a], [x] => some (.rx a x) | "ry", [a], [x] => some (.ry a x) | "rz", [a], [x] => some (.rz a x)
  | "u3", [a], [x, y, z] => some (.u3 a x y z)
  | "rzz", [a, b], [x] => some (.rzz a b x)
  | "crx", a :: b :: r, [x] => some (.crx (a :: b :: r).dropLast ((a :: b :: r).getLast?.getD 0) x)
  | "cry", a :: b :: r, [x] => some (.cry (a :: b :: r).dropLast ((a :: b :: r).getLast?.getD 0) x)
  | "crz", a :: b :: r, [x] => some (.crz (a :: b :: r).dropLast ((a :: b :: r).getLast?.getD 0) x)
  | "cu3", a :: b :: r, [x, y, z] => some (.cu3 (a :: b :: r).dropLast ((a :: b :: r).getLast?.getD 0) x y z)
  | _, _, _ => none

/-- the constants / constructors of `numqi.gate` by name -/
def gateArray (car : Carrier α) (name : String) (p : List (CS α)) : Option (Array α) :=
  match name, p with
  | "I", [] => some Gates.I2 | "X", [] => some Gates.X | "Y", [] => some (Gates.Y car.I) | "Z", [] => some Gates.Z
  | "S", [] => some (Gates.S car.I) | "Swap", [] => some Gates.Swap | "CNOT", [] => some Gates.CNOT | "CZ", [] => some Gates.CZ
  | "H", [x] => some (Gates.H x) | "T", [x] => some (Gates.T car.I x)
  | "rx", [x] => some (Gates.rx car.I x) | "ry", [x] => some (Gates.ry x) | "rz", [x] => some (Gates.rz car.I x)
  | "rzz", [x] => some (Gates.rzz car.I x) | "u3", [x, y, z] => some (Gates.u3 car.I x y z)
  | _, _ => none

/-- the derivative arrays of the parametrised constructors (`Gates.drx …`), `κ` the chain factor of the first pair -/
def dgateArray (car : Carrier α) (name : String) (κ : α) (p : List (CS α)) : Option (Array α) :=
  match name, p with
  | "rx", [x] => some (Gates.drx car.I κ x) | "ry", [x] => some (Gates.dry κ x) | "rz", [x] => some (Gates.drz car.I κ x)
  | "rzz", [x] => some (Gates.drzz car.I κ x)
  | "u3t", [x, y, z] => some (Gates.du3Theta car.I κ x y z)
  | "u3p", [x, y, z] => some (Gates.du3Phi car.I x y z)
  | "u3l", [x, y, z] => some (Gates.du3Lambda car.I x y z)
  | _, _ => none

/-- a gate-list entry carrying `∂gate/∂θ` in place of the gate (`c…` names: inside a control entry, qubits = control, target) -/
def dgateRaw (car : Carrier α) (name : String) (q : List Int) (κ : α) (p : List (CS α)) : Option (RawOp α) :=
  if name.startsWith "c" then
    match q with
    | a :: b :: r => (dgateArray car (name.drop 1).toString κ p).map fun arr =>
        .control arr (a :: b :: r).dropLast [(a :: b :: r).getLast?.getD 0]
    | _ => none
  else (dgateArray car name κ p).map fun a => .unitary a q

/-- one basic program step: `u:<t>:<U>`, `c:<c>:<t>:<U>`, `m:<s>:<bits>`, `x:<U>` (entries appended as they are),
`v:<name>:<qubits>:<pairs>` (a named gate method, read through `Vocab.toRaw`), `dv:…` (derivative entry), `s:<delta>`
(`shift_qubit_index_`), `n:p:<t>` / `n:k` (an entry `apply_state` refuses: never-set placeholder at its index / Kraus entry) -/
def parseStep0 (car : Carrier α) (s : String) : Option (Stmt0 α) :=
  match s.splitOn ":" with
  | ["u", t, u] => do let t ← parseIdx? t; let u ← parseArr car u; pure (.gate (.unitary u t))
  | ["c", c, t, u] => do
      let c ← parseIdx? c; let t ← parseIdx? t; let u ← parseArr car u; pure (.gate (.control u c t))
  | ["m", sq, b] => do let sq ← parseIdx? sq; let b ← parseBits? b; pure (.gate (.measure sq b))
  | ["x", u] => do let u ← parseArr car u; pure (.gate (.custom u))
  | ["s", d] => do let d ← d.toInt?; pure (.shift d)
  | ["n", "k"] => some (.refused .nonCanonical)
  | ["n", "p", t] => do let t ← parseIdx? t; pure (.refused (.placeholder t))
  | ["dv", name, q, k, p] => do
      let q ← parseIdx? q; let k ← car.parse k; let p ← parsePairs car p; let g ← dgateRaw car name q k p; pure (.gate g)
  | ["v", name, q, p] => do
      let q ← parseIdx? q; let p ← parsePairs car p; let v ← parseVocab name q p; pure (.call v)
  | _ => none

/-- a program step: a basic one, or `e:<step>!<step>!…` = `extend_circuit` of the circuit built by those basic steps -/
def parseStep (car : Carrier α) (s : String) : Option (Stmt α) :=
  if s.startsWith "e:" then
    let body := (s.drop 2).toString
    if body = "" then some (.extend []) else ((body.splitOn "!").mapM (parseStep0 car)).map .extend
  else (parseStep0 car s).map .base

/-- parse the program text and run it with the model's `runProg`: the content of `gate_index_list`; `none` = malformed text.
A refused entry is in the list with its real index and an empty array: `width`/`indices` see it, every consumer that applies the
circuit answers `error` (`C03.refused_not_compiled`). -/
def parseProg (car : Carrier α) (s : String) : Option (List (RawOp α)) :=
  if s = "-" then some [] else do
    let steps ← (s.splitOn "|").mapM (parseStep car)
    pure (runProg car.I steps)

def log2? (len : Nat) : Option Nat := (List.range 16).find? fun n => 2 ^ n == len

def handleR (car : Carrier α) (args : List String) : String :=
  match args with
  | ["gate", n, t, u, psi] => Id.run do
      let some n := n.toNat? | return "bad-op"
      let some t := parseIdx? t | return "bad-op"
      let some u := parseArr car u | return "bad-op"
      let some psi := parseArr car psi | return "bad-op"
      if psi.size ≠ 2 ^ n then return "bad-op"
      let some g := (RawOp.unitary u t).compile n | return "error"
      return strArr car (g.applyA psi)
  | ["ctrl", n, c, t, u, psi] => Id.run do
      let some n := n.toNat? | return "bad-op"
      let some c := parseIdx? c | return "bad-op"
      let some t := parseIdx? t | return "bad-op"
      let some u := parseArr car u | return "bad-op"
      let some psi := parseArr car psi | return "bad-op"
      if psi.size ≠ 2 ^ n then return "bad-op"
      let some g := (RawOp.control u c t).compile n | return "error"
      return strArr car (g.applyA psi)
  | ["embed", n, t, u] => Id.run do
      let some n := n.toNat? | return "bad-op"
      let some t := parseIdx? t | return "bad-op"
      let some u := parseArr car u | return "bad-op"
      match (RawOp.unitary u t).compile n with
      | some (.unitary U t) => return strArr car (tabulateMat (embed U t))
      | _ => return "error"
  | ["cembed", n, c, t, u] => Id.run do
      let some n := n.toNat? | return "bad-op"
      let some c := parseIdx? c | return "bad-op"
      let some t := parseIdx? t | return "bad-op"
      let some u := parseArr car u | return "bad-op"
      match (RawOp.control u c t).compile n with
      | some (.control U isCtrl rest tNew) =>
          return strArr car (tabulateMat (ctrlEmbed U isCtrl (fun j => rest (tNew j))))
      | _ => return "error"
  | ["dm", n, t, u, rho] => Id.run do
      let some n := n.toNat? | return "bad-op"
      let some t := parseIdx? t | return "bad-op"
      let some u := parseArr car u | return "bad-op"
      let some rho := parseArr car rho | return "bad-op"
      if rho.size ≠ 2 ^ n * 2 ^ n then return "bad-op"
      match (RawOp.unitary u t).compile n with
      | some (.unitary U t) => return strArr car (tabulateMat (dmApply U t (lookupMat rho)))
      | _ => return "error"
  | ["expect", n, t, u, rho] => Id.run do
      let some n := n.toNat? | return "bad-op"
      let some t := parseIdx? t | return "bad-op"
      let some u := parseArr car u | return "bad-op"
      let some rho := parseArr car rho | return "bad-op"
      if rho.size ≠ 2 ^ n * 2 ^ n then return "bad-op"
      match (RawOp.unitary u t).compile n with
      | some (.unitary U t) => return car.str (expectation U t (lookupMat rho))
      | _ => return "error"
  | ["inner", n, psi0, psi1, term] => Id.run do
      let some n := n.toNat? | return "bad-op"
      let some psi0 := parseArr car psi0 | return "bad-op"
      let some psi1 := parseArr car psi1 | return "bad-op"
      let some term := parseProg car term | return "bad-op"
      if psi0.size ≠ 2 ^ n || psi1.size ≠ 2 ^ n then return "bad-op"
      let some c := compileCircuit n term | return "error"
      return car.str (innerProductOp (n := n) (lookup psi0) (lookup psi1) c)
  | ["prob", n, keep, psi] => Id.run do
      let some n := n.toNat? | return "bad-op"
      let some keep := parseIdx? keep | return "bad-op"
      let some psi := parseArr car psi | return "bad-op"
      if psi.size ≠ 2 ^ n then return "bad-op"
      -- `sorted(keep_index_set)`: the harness sends the set sorted; the assertion of state.py:245 is the range check
      match (RawOp.measure (α := α) keep (keep.map fun _ => false)).compile n with
      | some (.measure s _) => return strArr car (tabulate (reduceToProbability s (lookup (n := n) psi)))
      | _ => return "error"
  | ["circ", n, prog, psi] => Id.run do
      let some n := n.toNat? | return "bad-op"
      let some prog := parseProg car prog | return "bad-op"
      let some psi := parseArr car psi | return "bad-op"
      if psi.size ≠ 2 ^ n then return "bad-op"
      let some c := compileCircuit n prog | return "error"
      let recs := measureRecords c psi
      return strArr car (applyStateA c psi) ++ String.join (recs.map fun r => " M " ++ strArr car r)
  | ["gatemat", name, p] => Id.run do
      let some p := parsePairs car p | return "bad-op"
      let some a := gateArray car name p | return "bad-op"
      return strArr car a
  | ["dgate", name, k, p] => Id.run do
      let some k := car.parse k | return "bad-op"
      let some p := parsePairs car p | return "bad-op"
      let some a := dgateArray car name k p | return "bad-op"
      return strArr car a
  | ["vocab", name, q, p] => Id.run do
      let some q := parseIdx? q | return "bad-op"
      let some p := parsePairs car p | return "bad-op"
      let some v := parseVocab name q p | return "bad-op"
      -- the entry the method call leaves in `gate_index_list` (the statement, i.e. with the control set canonicalised)
      match runProg car.I [.base (.call v)] with
      | [.unitary u t] => return s!"u {intListStr t} {strArr car u}"
      | [.control u c t] => return s!"c {intListStr c} {intListStr t} {strArr car u}"
      | _ => return "bad-op"
  | ["indices", prog] => Id.run do
      -- the index part of `gate_index_list` after all appends and in-place shifts of the program
      let some prog := parseProg car prog | return "bad-op"
      let f := fun (l : List Int) => if l.isEmpty then "-" else intListStr l
      return "|".intercalate (prog.map fun g => match g with
        | .unitary _ t => s!"u:{f t}"
        | .control _ c t => s!"c:{f c}:{f t}"
        | .measure sq _ => s!"m:{f sq}"
        | .custom _ => "x")
  | ["width", prog] => Id.run do
      -- `Circuit.num_qubit` of the program (measure entries count, custom entries do not)
      let some prog := parseProg car prog | return "bad-op"
      if prog.isEmpty then return "error"
      return toString (numQubit prog)
  | ["unitary", prog] => Id.run do
      let some prog := parseProg car prog | return "bad-op"
      if prog.isEmpty || prog.any RawOp.isMeasure then return "error"
      let n := numQubit prog
      let some c := compileCircuit n prog | return "error"
      return s!"{n} " ++ strArr car (toUnitaryA c)
  | _ => "bad-op"
end

def parseOptNat? (s : String) : Option (Option Nat) := if s = "N" then some none else s.toNat?.map some

def handle (args : List String) : String :=
  match args with
  | ["rsi", shape, index] => Id.run do
      let some shape := parseNatList? shape | return "bad-op"
      let some index := (index.splitOn ";").mapM parseOptNat? | return "bad-op"
      if shape.length ≠ index.length || shape.isEmpty || shape.any (· ≤ 1) then return "error"
      if (shape.zip index).any (fun p => match p.2 with | some v => v > p.1 | none => false) then return "error"
      let (rs, ri) := reduceShapeIndex shape index
      return natListStr rs ++ " " ++ ";".intercalate (ri.map fun o => match o with | some v => toString v | none => "N")
  | ["slicepos", n, c] => Id.run do
      let some n := n.toNat? | return "bad-op"
      let some c := parseNatList? c | return "bad-op"
      return natListStr (controlPositions n c) ++ " " ++ (if controlPositions n c == controlPositionsBitwise n c then "slice=bitwise" else "MODEL-MISMATCH")
  | op :: "Z" :: rest => handleR carZ (op :: rest)
  | op :: "Q" :: rest => handleR carQ (op :: rest)
  | _ => "bad-op"

end Numqi.Driver.C03
