/- line-protocol handlers for C03 (stub: not built yet) -/
import Driver.Loop

namespace Numqi.Driver.C03

def handle (_args : List String) : String := "bad-op"

end Numqi.Driver.C03
