/- line-protocol handlers for C17 (partial traces, Dicke reduction) -/
import Driver.Loop
import NumqiModel.PartialTrace
import NumqiModel.Dicke

namespace Numqi.Driver.C17
open Numqi Numqi.PT Numqi.Dicke

def matOfList (cols : Nat) (l : Array GInt) : Nat → Nat → GInt :=
  fun x y => l.getD (x * cols + y) 0

def parseGIntArray? (s : String) : Option (Array GInt) := (parseGIntList? s).map List.toArray

/-- `"x:y:re,im"` -/
def parseTriple? (s : String) : Option (Nat × Nat × GInt) :=
  match s.splitOn ":" with
  | [x, y, v] => do
    let x ← x.toNat?; let y ← y.toNat?; let v ← parseGInt? v
    pure (x, y, v)
  | _ => none

def parseTriples? (s : String) : Option (List (Nat × Nat × GInt)) :=
  if s = "" || s = "-" then some [] else (s.splitOn ";").mapM parseTriple?

def tripleStr (e : Nat × Nat × GInt) : String := s!"{e.1}:{e.2.1}:{e.2.2.toStr}"

def insertSorted (p : Nat × Nat) : List (Nat × Nat) → List (Nat × Nat)
  | [] => [p]
  | q :: qs =>
    if p = q then q :: qs
    else if p.1 < q.1 || (p.1 = q.1 && p.2 < q.2) then p :: q :: qs
    else q :: insertSorted p qs

def ratTripleStr (e : Nat × Nat × Rat) : String := s!"{e.1}:{e.2.1}:{QI.ratStr e.2.2}"

def handle (args : List String) : String :=
  match args with
  | ["pt", dims, keep, entries] => Id.run do
      let some dims := parseNatList? dims | return "bad-op"
      let some keep := parseIntList? keep | return "bad-op"
      let some l := parseGIntArray? entries | return "bad-op"
      let D := prodDims dims
      if l.size ≠ D * D then return "bad-op"
      if keep.any (· < 0) then return "error:assert"
      match partialTraceCode dims (keep.map Int.toNat) (matOfList D l) with
      | none => return "error:assert"
      | some (n1, f) =>
        return gintListStr ((List.range n1).flatMap fun a => (List.range n1).map fun b => f a b)
  | ["pts", dims, keep, entries] => Id.run do
      let some dims := parseNatList? dims | return "bad-op"
      let some keep := parseIntList? keep | return "bad-op"
      let some es := parseTriples? entries | return "bad-op"
      let D := prodDims dims
      if es.any (fun e => e.1 ≥ D || e.2.1 ≥ D) then return "bad-op"
      if keep.any (· < 0) then return "error:assert"
      let keepIdx := keep.map Int.toNat
      if !(keepIdx.all (· < dims.length)) then return "error:assert"
      let m := maskOf dims.length keepIdx
      let cands := es.foldl (fun acc e =>
        if part false dims m e.1 = part false dims m e.2.1
        then insertSorted (part true dims m e.1, part true dims m e.2.1) acc else acc) []
      let out := cands.filterMap fun p =>
        let v : GInt := partialTraceSparse dims m es p.1 p.2
        if v = 0 then none else some (tripleStr (p.1, p.2, v))
      return s!"{prodSel true dims m} " ++ ";".intercalate out
  | ["klist", n, d] => Id.run do
      let some n := n.toNat? | return "bad-op"
      let some d := d.toNat? | return "bad-op"
      if d < 2 || n < 1 then return "error:assert"
      return "|".intercalate ((klist d n).map natListStr)
  | ["number", n, d] => Id.run do
      let some n := n.toNat? | return "bad-op"
      let some d := d.toNat? | return "bad-op"
      return toString (dickeNumber n d)
  | ["basis", n, d] => Id.run do
      let some n := n.toNat? | return "bad-op"
      let some d := d.toNat? | return "bad-op"
      if d < 2 || n < 1 then return "error:assert"
      let N := d ^ n
      return "|".intercalate ((klist d n).map fun a =>
        let supp := (List.range N).filter fun x => dickeSq d n a x ≠ 0
        let v : Rat := match supp with
          | [] => 0
          | x :: _ => dickeSq d n a x
        let uniform := supp.all fun x => dickeSq d n a x = v
        s!"{natListStr supp}={QI.ratStr v}={if uniform then 1 else 0}")
  | ["bij", n, d] => Id.run do
      let some n := n.toNat? | return "bad-op"
      let some d := d.toNat? | return "bad-op"
      if d < 2 || n < 1 then return "error:assert"
      return "|".intercalate ((List.range (d * d)).map fun q =>
        ";".intercalate ((bijTable n d (q / d) (q % d)).map ratTripleStr))
  | ["asm", dimA, dimB, len, table, psi] => Id.run do
      let some dimA := dimA.toNat? | return "bad-op"
      let some dimB := dimB.toNat? | return "bad-op"
      let some len := len.toNat? | return "bad-op"
      let some tabs := (table.splitOn "|").mapM parseTriples? | return "bad-op"
      let some psi := parseGIntArray? psi | return "bad-op"
      if tabs.length ≠ dimB * dimB || psi.size ≠ dimA * len then return "bad-op"
      if tabs.any (fun t => t.any fun e => e.1 ≥ len || e.2.1 ≥ len) then return "bad-op"
      let tabA := tabs.toArray
      let f := assembleAB dimB (fun q => tabA.getD q []) (matOfList len psi)
      let N := dimA * dimB
      return gintListStr ((List.range N).flatMap fun x => (List.range N).map fun y => f x y)
  | _ => "bad-op"

end Numqi.Driver.C17
