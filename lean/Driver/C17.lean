/- line-protocol handlers for C17 (partial traces, Dicke reduction) -/
import Driver.Loop
import NumqiModel.PartialTrace
import NumqiModel.Dicke

namespace Numqi.Driver.C17
open Numqi Numqi.PT Numqi.Dicke

def matOfList (cols : Nat) (l : Array GInt) : Nat → Nat → GInt :=
  fun x y => l.getD (x * cols + y) 0

def parseGIntArray? (s : String) : Option (Array GInt) := (parseGIntList? s).map List.toArray

/-- `"x:y:re,im"` -/
def parseTriple? (s : String) : Option (Nat × Nat × GInt) :=
  match s.splitOn ":" with
  | [x, y, v] => do
    let x ← x.toNat?; let y ← y.toNat?; let v ← parseGInt? v
    pure (x, y, v)
  | _ => none

def parseTriples? (s : String) : Option (List (Nat × Nat × GInt)) :=
  if s = "" || s = "-" then some [] else (s.splitOn ";").mapM parseTriple?

def tripleStr (e : Nat × Nat × GInt) : String := s!"{e.1}:{e.2.1}:{e.2.2.toStr}"

def insertSorted (p : Nat × Nat) : List (Nat × Nat) → List (Nat × Nat)
  | [] => [p]
  | q :: qs =>
    if p = q then q :: qs
    else if p.1 < q.1 || (p.1 = q.1 && p.2 < q.2) then p :: q :: qs
    else q :: insertSorted p qs

def ratTripleStr (e : Nat × Nat × Rat) : String := s!"{e.1}:{e.2.1}:{QI.ratStr e.2.2}"


/-- single-qubit Pauli `I,X,Y,Z` (index 0..3), entry `(r,c)` -/
def pauli1 (k r c : Nat) : GInt :=
  match k, r, c with
  | 0, 0, 0 => 1 | 0, 1, 1 => 1
  | 1, 0, 1 => 1 | 1, 1, 0 => 1
  | 2, 0, 1 => ⟨0, -1⟩ | 2, 1, 0 => ⟨0, 1⟩
  | 3, 0, 0 => 1 | 3, 1, 1 => ⟨-1, 0⟩
  | _, _, _ => 0

/-- `np.kron(P_a, P_b)`, the `j`-th element (`j = 4a+b`) of `pauli2_list` before dropping `II` -/
def pauli2 (j r c : Nat) : GInt := pauli1 (j / 4) (r / 2) (c / 2) * pauli1 (j % 4) (r % 2) (c % 2)

def handleUsers (args : List String) : Option String :=
  match args with
  | ["pureb", dimA, dimB, len, table, v] => some <| Id.run do
      let some dimA := dimA.toNat? | return "bad-op"
      let some dimB := dimB.toNat? | return "bad-op"
      let some len := len.toNat? | return "bad-op"
      let some tabs := (table.splitOn "|").mapM parseTriples? | return "bad-op"
      let some v := parseGIntArray? v | return "bad-op"
      if tabs.length ≠ dimB * dimB || v.size ≠ dimA * len then return "bad-op"
      if tabs.any (fun t => t.any fun e => e.1 ≥ len || e.2.1 ≥ len) then return "bad-op"
      let tabA := tabs.toArray
      let f := purebReduce dimB len (fun q => tabA.getD q []) (fun i => v.getD i 0)
      let N := dimA * dimB
      return gintListStr ((List.range N).flatMap fun x => (List.range N).map fun y => f x y)
  | ["purebm", dimA, dimB, k, vals, v, op] => some <| Id.run do
      -- PureBosonicExt(dimA, dimB, k): the table is the model's `bijTable k dimB` (index lists NOT taken from the object) with the
      -- integer values `vals` substituted position by position; answer: reduced matrix | Re of the expectation loss
      let some dimA := dimA.toNat? | return "bad-op"
      let some dimB := dimB.toNat? | return "bad-op"
      let some k := k.toNat? | return "bad-op"
      if dimB < 2 || k < 1 then return "error:assert"
      let some ws := (vals.splitOn "|").mapM (fun t => (parseGIntList? t)) | return "bad-op"
      let some v := parseGIntArray? v | return "bad-op"
      let some op := parseGIntArray? op | return "bad-op"
      let L := dickeNumber k dimB
      let N := dimA * dimB
      if ws.length ≠ dimB * dimB || v.size ≠ dimA * L || op.size ≠ N * N then return "bad-op"
      let tabs := (List.range (dimB * dimB)).map fun q => bijTable k dimB (q / dimB) (q % dimB)
      if (tabs.zip ws).any (fun p => p.1.length ≠ p.2.length) then return "table-length-mismatch"
      let tabA := ((tabs.zip ws).map fun p => tableWith p.1 p.2).toArray
      let f := purebReduce dimB L (fun q => tabA.getD q []) (fun i => v.getD i 0)
      let dm := gintListStr ((List.range N).flatMap fun x => (List.range N).map fun y => f x y)
      let loss := expectLoss N (matOfList N op) f
      return s!"{dm}|{loss.re}"
  | ["tensor", n, d] => some <| Id.run do
      let some n := n.toNat? | return "bad-op"
      let some d := d.toNat? | return "bad-op"
      if d < 2 || n < 1 then return "error:assert"
      let L := (klist d n).length
      let tabA := ((List.range (d * d)).map fun q => bijTable n d (q / d) (q % d)).toArray
      let T := tensorOfTable d (fun q => tabA.getD q [])
      return ";".intercalate ((List.range d).flatMap fun r => (List.range d).flatMap fun s =>
        (List.range L).flatMap fun i => (List.range L).map fun j => QI.ratStr (T r s i j))
  | ["preb", dimA, dimB, len, g, b] => some <| Id.run do
      -- one operator G (dimA*dimB square) and the tensor B (dimB,dimB,L,L)
      let some dimA := dimA.toNat? | return "bad-op"
      let some dimB := dimB.toNat? | return "bad-op"
      let some len := len.toNat? | return "bad-op"
      let some g := parseGIntArray? g | return "bad-op"
      let some b := parseGIntArray? b | return "bad-op"
      let dab := dimA * dimB
      if g.size ≠ dab * dab || b.size ≠ dimB * dimB * len * len then return "bad-op"
      let G := matOfList dab g
      let B : Nat → Nat → Nat → Nat → GInt := fun r s i j => b.getD (((r * dimB + s) * len + i) * len + j) 0
      let N := dimA * len
      let f := preimageBoson dimB len G B
      return gintListStr ((List.range N).flatMap fun x => (List.range N).map fun y => f x y)
  | ["pres", dimA, dimB, k, g] => some <| Id.run do
      let some dimA := dimA.toNat? | return "bad-op"
      let some dimB := dimB.toNat? | return "bad-op"
      let some k := k.toNat? | return "bad-op"
      let some g := parseGIntArray? g | return "bad-op"
      let dab := dimA * dimB
      if g.size ≠ dab * dab then return "bad-op"
      let N := dimA * dimB ^ k
      let f := preimageSymSum dimA dimB k (matOfList dab g)
      return gintListStr ((List.range N).flatMap fun x => (List.range N).map fun y => f x y)
  | ["rdm2", n, x] => some <| Id.run do
      -- sdp_2local_rdm_solve: real parts of Tr(P_j · rdm_{ind0,ind0+1}) for the 15 two-qubit Paulis, every ind0
      let some n := n.toNat? | return "bad-op"
      let some x := parseGIntArray? x | return "bad-op"
      if n < 2 || x.size ≠ 2 ^ n * 2 ^ n then return "bad-op"
      let X := matOfList (2 ^ n) x
      let vals := (List.range (n - 1)).flatMap fun ind0 =>
        let rdm := rdmTwoStep (2 ^ ind0) (2 ^ (n - 2 - ind0)) X
        let R : Array GInt := ((List.range 16).map fun q => rdm (q / 4) (q % 4)).toArray
        (List.range 15).map fun jm1 =>
          let j := jm1 + 1
          ((List.range 16).foldl (fun (acc : GInt) q => acc + pauli2 j (q % 4) (q / 4) * R.getD q 0) 0).re
      return intListStr vals
  | _ => none

def handle (args : List String) : String :=
  match handleUsers args with
  | some r => r
  | none =>
  match args with
  | ["pt", dims, keep, entries] => Id.run do
      let some dims := parseNatList? dims | return "bad-op"
      let some keep := parseIntList? keep | return "bad-op"
      let some l := parseGIntArray? entries | return "bad-op"
      let D := prodDims dims
      if l.size ≠ D * D then return "bad-op"
      if keep.any (· < 0) then return "error:assert"
      match partialTraceCode dims (keep.map Int.toNat) (matOfList D l) with
      | none => return "error:assert"
      | some (n1, f) =>
        return gintListStr ((List.range n1).flatMap fun a => (List.range n1).map fun b => f a b)
  | ["pts", dims, keep, entries] => Id.run do
      let some dims := parseNatList? dims | return "bad-op"
      let some keep := parseIntList? keep | return "bad-op"
      let some es := parseTriples? entries | return "bad-op"
      let D := prodDims dims
      if es.any (fun e => e.1 ≥ D || e.2.1 ≥ D) then return "bad-op"
      if keep.any (· < 0) then return "error:assert"
      let keepIdx := keep.map Int.toNat
      if !(keepIdx.all (· < dims.length)) then return "error:assert"
      let m := maskOf dims.length keepIdx
      let cands := es.foldl (fun acc e =>
        if part false dims m e.1 = part false dims m e.2.1
        then insertSorted (part true dims m e.1, part true dims m e.2.1) acc else acc) []
      let out := cands.filterMap fun p =>
        let v : GInt := partialTraceSparse dims m es p.1 p.2
        if v = 0 then none else some (tripleStr (p.1, p.2, v))
      return s!"{prodSel true dims m} " ++ ";".intercalate out
  | ["klist", n, d] => Id.run do
      let some n := n.toNat? | return "bad-op"
      let some d := d.toNat? | return "bad-op"
      if d < 2 || n < 1 then return "error:assert"
      return "|".intercalate ((klist d n).map natListStr)
  | ["number", n, d] => Id.run do
      let some n := n.toNat? | return "bad-op"
      let some d := d.toNat? | return "bad-op"
      return toString (dickeNumber n d)
  | ["basis", n, d] => Id.run do
      let some n := n.toNat? | return "bad-op"
      let some d := d.toNat? | return "bad-op"
      if d < 2 || n < 1 then return "error:assert"
      let N := d ^ n
      -- every non-zero squared amplitude of every basis vector, `index:value`
      return "|".intercalate ((klist d n).map fun a =>
        ";".intercalate (((List.range N).filter fun x => dickeSq d n a x ≠ 0).map fun x => s!"{x}:{QI.ratStr (dickeSq d n a x)}"))
  | ["bij", n, d] => Id.run do
      let some n := n.toNat? | return "bad-op"
      let some d := d.toNat? | return "bad-op"
      if d < 2 || n < 1 then return "error:assert"
      return "|".intercalate ((List.range (d * d)).map fun q =>
        ";".intercalate ((bijTable n d (q / d) (q % d)).map ratTripleStr))
  | ["asm", dimA, dimB, len, table, psi] => Id.run do
      let some dimA := dimA.toNat? | return "bad-op"
      let some dimB := dimB.toNat? | return "bad-op"
      let some len := len.toNat? | return "bad-op"
      let some tabs := (table.splitOn "|").mapM parseTriples? | return "bad-op"
      let some psi := parseGIntArray? psi | return "bad-op"
      if tabs.length ≠ dimB * dimB || psi.size ≠ dimA * len then return "bad-op"
      if tabs.any (fun t => t.any fun e => e.1 ≥ len || e.2.1 ≥ len) then return "bad-op"
      let tabA := tabs.toArray
      let f := assembleAB dimB (fun q => tabA.getD q []) (matOfList len psi)
      let N := dimA * dimB
      return gintListStr ((List.range N).flatMap fun x => (List.range N).map fun y => f x y)
  | _ => "bad-op"

end Numqi.Driver.C17
