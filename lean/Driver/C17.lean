/- line-protocol handlers for C17 (stub: not built yet) -/
import Driver.Loop

namespace Numqi.Driver.C17

def handle (_args : List String) : String := "bad-op"

end Numqi.Driver.C17
