/- line-protocol handlers for C18 (catalogue constructors).

Exact rationals cross the protocol as `p/q`, floats as binary64 bit patterns, signed-square amplitudes as `sgn:p/q`. -/
import Driver.Loop
import NumqiModel.Catalogue

namespace Numqi.Driver.C18
open Numqi Numqi.Catalogue

instance : NatCast Float := ⟨Nat.toFloat⟩

def fOfBits? (s : String) : Option Float := s.toNat?.bind fun n =>
  if n < 2^64 then some (Float.ofBits (UInt64.ofNat n)) else none
def bitsOfF (x : Float) : String := toString x.toBits.toNat
def fListStr (l : List Float) : String := ";".intercalate (l.map bitsOfF)

def rat? (s : String) : Option Rat :=
  match s.splitOn "/" with
  | [p, q] => do
      let p ← p.toInt?; let q ← q.toNat?
      if q = 0 then none else some ((p : Rat) / (q : Rat))
  | [p] => do let p ← p.toInt?; pure (p : Rat)
  | _ => none
def ratStr (r : Rat) : String := s!"{r.num}/{r.den}"
def ratListStr (l : List Rat) : String := ";".intercalate (l.map ratStr)
def sampStr (a : SAmp) : String := s!"{a.sgn}:{ratStr (if a.sgn = 0 then 0 else a.sq)}"
def sampListStr (l : List SAmp) : String := ";".intercalate (l.map sampStr)

def qi? (s : String) : Option QI :=
  match s.splitOn "," with
  | [a, b] => do let x ← rat? a; let y ← rat? b; pure ⟨x, y⟩
  | [a] => do let x ← rat? a; pure ⟨x, 0⟩
  | _ => none

/-- all `(i,j,k,l)` in row-major order of the flat `(d²)×(d²)` matrix -/
def bipartiteEntries (d : Nat) (f : Nat → Nat → Nat → Nat → Rat) : List Rat :=
  (List.range d).flatMap fun i => (List.range d).flatMap fun j =>
    (List.range d).flatMap fun k => (List.range d).map fun l => f i j k l

def flatEntries {β : Type} (n : Nat) (f : Nat → Nat → β) : List β :=
  (List.range n).flatMap fun r => (List.range n).map fun c => f r c

/-- split a list into consecutive chunks of the given sizes -/
def chunks {β : Type} : List Nat → List β → List (List β)
  | [], _ => []
  | n :: ns, l => l.take n :: chunks ns (l.drop n)

def tableOf? : String → Option UPBTable
  | "tiles" => some upbTiles
  | "feng4x4" => some upbFeng4x4
  | "feng2x2x2x2" => some upbFeng2x2x2x2
  | _ => none

def handle (args : List String) : String :=
  match args with
  | ["werner", d, a] => Id.run do
      -- `a`: binary64 bit pattern; the range assertion is evaluated on the float, the matrix on its exact rational value
      let some d := d.toNat? | return "bad-op"
      let some af := fOfBits? a | return "bad-op"
      let some ab := a.toNat? | return "bad-op"
      if d < 2 then return "error:assert"
      if d > 6 then return "bad-op"
      if !(wernerInRange d af) then return "error:assert"
      return ratListStr (bipartiteEntries d (werner d (ratOfFloatBits ab)))
  | ["isotropic", d, a] => Id.run do
      let some d := d.toNat? | return "bad-op"
      let some af := fOfBits? a | return "bad-op"
      let some ab := a.toNat? | return "bad-op"
      if d < 2 then return "error:assert"
      if d > 6 then return "bad-op"
      if !(isotropicInRange d af) then return "error:assert"
      return ratListStr (bipartiteEntries d (isotropic d (ratOfFloatBits ab)))
  | ["maxmixed", d] => Id.run do
      let some d := d.toNat? | return "bad-op"
      if d < 1 then return "error:assert"
      if d > 6 then return "bad-op"
      return ratListStr (flatEntries (d * d) (maxMixed (α := Rat) d))
  | ["antoine", q] => Id.run do
      let some qf := fOfBits? q | return "bad-op"
      let some qb := q.toNat? | return "bad-op"
      if !(antoineInRange (2.5 : Float) qf) then return "error:assert"
      return ratListStr (flatEntries 9 (antoine (5/2 : Rat) 21 2 (ratOfFloatBits qb)))
  | ["horo24", b] => Id.run do
      let some b := fOfBits? b | return "bad-op"
      if !(unitInRange b) then return "error:assert"
      return fListStr (flatEntries 8 (horodecki2x4 (7 : Float) 14 2 b (Float.sqrt (1 - b * b))))
  | ["horo33", a] => Id.run do
      let some a := fOfBits? a | return "bad-op"
      if !(unitInRange a) then return "error:assert"
      return fListStr (flatEntries 9 (horodecki3x3 (8 : Float) 16 2 a (Float.sqrt (1 - a * a))))
  | ["ketw", n] => Id.run do
      let some n := n.toNat? | return "bad-op"
      if n < 1 || n > 12 then return "bad-op"
      return sampListStr ((List.range (2 ^ n)).map (ketW n))
  | ["ghz", n] => Id.run do
      let some n := n.toNat? | return "bad-op"
      if n < 1 then return "error:assert"
      if n > 12 then return "bad-op"
      return sampListStr ((List.range (2 ^ n)).map (ketGHZ n))
  | ["bell", i] => Id.run do
      let some i := i.toNat? | return "bad-op"
      if i > 3 then return "error:assert"
      return sampListStr ((List.range 4).map (ketBell i))
  | ["maxent", d] => Id.run do
      let some d := d.toNat? | return "bad-op"
      if d < 2 then return "error:assert"
      if d > 40 then return "bad-op"
      return sampListStr (flatEntries d (ketMaxEnt d))
  | ["maxcoh", d] => Id.run do
      let some d := d.toNat? | return "bad-op"
      if d < 1 then return "error:assert"
      if d > 200 then return "bad-op"
      return sampListStr ((List.range d).map (ketMaxCoh d))
  | ["maxcohdm", d] => Id.run do
      let some d := d.toNat? | return "bad-op"
      if d < 1 then return "error:assert"
      if d > 40 then return "bad-op"
      return ratListStr (flatEntries d (dmMaxCoh d))
  | ["dicke", ks] => Id.run do
      let some ks := parseNatList? ks | return "bad-op"
      if ks.length < 2 then return "error:assert"
      if ks.length ^ ks.sum > 5000 then return "bad-op"
      return sampListStr ((List.range (ks.length ^ ks.sum)).map (ketDicke ks))
  | ["wtype", cs] => Id.run do
      let some cs := (cs.splitOn ";").mapM fOfBits? | return "bad-op"
      if cs.length > 12 then return "bad-op"
      let nrm := Float.sqrt (cs.foldl (fun acc c => acc + c * c) 0)
      return fListStr ((List.range (2 ^ cs.length)).map (ketWtype cs nrm))
  | ["wgme", d, a] => Id.run do
      let some d := d.toNat? | return "bad-op"
      let some a := fOfBits? a | return "bad-op"
      if d < 2 then return "error:assert"
      return bitsOfF (wernerGME Float.sqrt 2 d a)
  | ["igme", d, a] => Id.run do
      let some d := d.toNat? | return "bad-op"
      let some a := fOfBits? a | return "bad-op"
      if d < 2 then return "error:assert"
      return bitsOfF (isotropicGME Float.sqrt d a)
  | ["weof", d, a] => Id.run do
      let some d := d.toNat? | return "bad-op"
      let some a := fOfBits? a | return "bad-op"
      return bitsOfF (wernerEofFull Float.sqrt Float.log 2 d a)
  | ["ieof", d, a] => Id.run do
      let some d := d.toNat? | return "bad-op"
      let some a := fOfBits? a | return "bad-op"
      return bitsOfF (isotropicEofFull Float.sqrt Float.log 2 4 d a)
  | ["wree", d, a] => Id.run do
      -- value of the closed form (separable branch 0; entangled branch = relative entropy to Werner(d,1/d), nats)
      let some d := d.toNat? | return "bad-op"
      let some a := fOfBits? a | return "bad-op"
      return s!"{if wernerRee d a (1 : Float) == 0 then "zero" else "generic"} {bitsOfF (wernerReeFull Float.log 2 d a)}"
  | ["iree", d, a] => Id.run do
      let some d := d.toNat? | return "bad-op"
      let some a := fOfBits? a | return "bad-op"
      return s!"{if isotropicRee d a (1 : Float) == 0 then "zero" else "generic"} {bitsOfF (isotropicReeFull Float.log d a)}"
  | ["dgme", n, k] => Id.run do
      let some n := n.toNat? | return "bad-op"
      let some k := k.toNat? | return "bad-op"
      if n = 0 then return "error:ZeroDivisionError"
      if k > n || n > 400 then return "bad-op"
      return ratStr (dickeGME n k)
  | ["wtgme", a, b, c] => Id.run do
      let some a := fOfBits? a | return "bad-op"
      let some b := fOfBits? b | return "bad-op"
      let some c := fOfBits? c | return "bad-op"
      if !(Float.abs (a * a + b * b + c * c - 1) < 1e-10) then return "error:assert"
      return bitsOfF (wtypeGME (16 : Float) 2 0.75 4 a b c)
  | ["eprobe", kind, dim] => Id.run do
      let some dim := dim.toNat? | return "bad-op"
      if dim > 48 then return "bad-op"
      if kind = "eq8" then
        if dim < 2 then return "error:assert"
        let ent := (List.range (2 * dim)).flatMap fun m => flatEntries dim (eprobe8 dim m)
        return gintListStr ent
      else if kind = "eq9" then
        if dim < 4 || dim % 2 ≠ 0 then return "error:assert"
        let ent := (List.range 4).flatMap fun b => flatEntries dim (eprobe9 b dim)
        return s!"{if (List.range 4).all (fun b => eprobe9Unitary b dim) then "1" else "0"} {gintListStr ent}"
      else return "error:assert"
  | ["upbtable", name] => Id.run do
      let some t := tableOf? name | return "bad-op"
      return " ".intercalate (t.map fun party => "|".intercalate (party.map sampListStr))
  | ["upbcheck", name] => Id.run do
      let some t := tableOf? name | return "bad-op"
      return if upbTableOrthonormal t then "1" else "0"
  | ["upbbes", m, dims, vals] => Id.run do
      -- `vals`: all parties concatenated; party p holds m vectors of length dims[p]
      let some m := m.toNat? | return "bad-op"
      let some dims := parseNatList? dims | return "bad-op"
      let some vals := (vals.splitOn ";").mapM qi? | return "bad-op"
      if vals.length ≠ m * dims.sum then return "bad-op"
      let D := dims.foldl (· * ·) 1
      if D > 40 then return "bad-op"
      let parties := chunks (dims.map (· * m)) vals
      let partyVecs : List (List (List QI)) := (parties.zip dims).map fun (p, d) => chunks (List.replicate m d) p
      let prod : List (List QI) := (List.range m).map fun a => upbProductRow (partyVecs.map fun pv => pv.getD a [])
      let ent := flatEntries D (upbComplement prod)
      return ";".intercalate (ent.map QI.toStr)
  | ["genshifts", k] => Id.run do
      -- per party, per product vector: (cos, sin) of gsAngle·π/2k
      let some k := k.toNat? | return "bad-op"
      if k < 1 || k > 8 then return "bad-op"
      let c : Nat → Float := fun a => Float.cos (a.toFloat * (piF / (2 * k).toFloat))
      let s : Nat → Float := fun a => Float.sin (a.toFloat * (piF / (2 * k).toFloat))
      let ent := (List.range (2 * k - 1)).flatMap fun x => (List.range (2 * k)).flatMap fun i =>
        let v := gsVec c s k x i; [v.1, v.2]
      return fListStr ent
  | ["sixparam", gA, tA, pA, gB, tB, pB] => Id.run do
      let some l := [gA, tA, pA, gB, tB, pB].mapM fOfBits? | return "bad-op"
      match l with
      | [gA, tA, pA, gB, tB, pB] =>
        let mk (g t ph : Float) (f : Float → Float → Float → Float → Float → Numqi.Lie.Cx Float → List (List (Numqi.Lie.Cx Float))) :=
          let cg := Float.cos g; let sg := Float.sin g; let ct := Float.cos t; let st := Float.sin t
          let n0 := Float.sqrt (cg ^ 2 + sg ^ 2 * ct ^ 2)
          let nrm := if n0 < 1e-12 then 1e-12 else n0
          f cg sg ct st nrm ⟨Float.cos ph, Float.sin ph⟩
        let rows := mk gA tA pA sixparamA ++ mk gB tB pB sixparamB
        return ";".intercalate (rows.flatMap fun r => r.map fun z => s!"{bitsOfF z.re},{bitsOfF z.im}")
      | _ => return "bad-op"
  | ["pyramid"] => Id.run do
      let c : Nat → Float := fun x => Float.cos (2 * piF * x.toFloat / 5)
      let s : Nat → Float := fun x => Float.sin (2 * piF * x.toFloat / 5)
      let h : Float := Float.sqrt (1 + Float.sqrt 5) / 2
      let scale : Float := 2 / Float.sqrt (5 + Float.sqrt 5)
      let ent := (List.range 2).flatMap fun p => (List.range 5).flatMap fun a => pyramidVec c s h scale (pyramidIdx p a)
      return fListStr ent
  | ["min4x4"] => Id.run do
      let row (r : Z2Row) : List Float := r.entries.map fun e => e.toFloat / Float.sqrt r.normSq.toFloat
      return s!"{if min4x4Orthonormal then "1" else "0"} {fListStr ((min4x4A ++ min4x4B).flatMap row)}"
  | ["tetra", n] => Id.run do
      let some n := n.toNat? | return "bad-op"
      if n < 1 || n > 3 then return "bad-op"
      let a : Float := Float.sqrt 2 / 3
      let b : Float := Float.sqrt (2 / 3)
      let third : Float := 1 / 3
      let ent := (List.range (4 ^ n)).flatMap fun k => flatEntries (2 ^ n) (tetraN a b third 0.25 2 n k)
      return ";".intercalate (ent.map fun z => s!"{bitsOfF z.1},{bitsOfF z.2}")
  | ["cheb0", d] => Id.run do
      let some d := d.toNat? | return "bad-op"
      if d < 2 || d > 40 then return "bad-op"
      return fListStr (flatEntries d (chebBasis0 (Float.sqrt 2) (Float.sqrt d.toFloat)
        (fun k => Float.cos (piF * (k.toFloat + 0.5) / d.toFloat))))
  | ["cheb1", d] => Id.run do
      let some d := d.toNat? | return "bad-op"
      if d < 2 || d > 40 then return "bad-op"
      return fListStr (flatEntries d (chebBasis1 (Float.sqrt 2) (Float.sqrt (d - 1).toFloat)
        (fun k => Float.cos (piF * (k.toFloat + 0.5) / (d - 1).toFloat)) d))
  | _ => "bad-op"

end Numqi.Driver.C18
