/- line-protocol handlers for C18 (stub: not built yet) -/
import Driver.Loop

namespace Numqi.Driver.C18

def handle (_args : List String) : String := "bad-op"

end Numqi.Driver.C18
