import Driver.Loop
import Driver.C06

def main : IO Unit := Numqi.Driver.run Numqi.Driver.C06.handle
