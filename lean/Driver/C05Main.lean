import Driver.Loop
import Driver.C05

def main : IO Unit := Numqi.Driver.run Numqi.Driver.C05.handle
