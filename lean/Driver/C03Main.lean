import Driver.Loop
import Driver.C03

def main : IO Unit := Numqi.Driver.run Numqi.Driver.C03.handle
