import Driver.Loop
import Driver.C13

def main : IO Unit := Numqi.Driver.run Numqi.Driver.C13.handle
