/- line-protocol handlers for C13 (two-qubit measures: spin flip and ensemble contractions exactly, closed forms on Float) -/
import Driver.Loop
import NumqiModel.Entangle
import NumqiModel.Decision

namespace Numqi.Driver.C13
open Numqi Numqi.Ent

def ratOfInt (n : Int) : Rat := n

/-- `"reBits,imBits"` (binary64 bit patterns) ↦ exact Gaussian rational; `none` for inf/nan -/
def parseQIBits? (s : String) : Option QI :=
  match s.splitOn "," with
  | [a, b] => do
      let x ← a.toNat?
      let y ← b.toNat?
      if x / 2^52 % 2048 = 2047 || y / 2^52 % 2048 = 2047 then none
      else pure ⟨ratOfFloatBits x, ratOfFloatBits y⟩
  | _ => none

def parseQIBitsList? (s : String) : Option (List QI) := (s.splitOn ";").mapM parseQIBits?

def qiListStr (l : List QI) : String := ";".intercalate (l.map QI.toStr)

def getQ (a : Array QI) (i : Nat) : QI := a.getD i 0
def getG (a : Array GInt) (i : Nat) : GInt := a.getD i 0

def parseFloats? (s : String) : Option (List Float) :=
  if s = "-" then some [] else
  (s.splitOn ";").mapM fun t => do
    let b ← t.toNat?
    if b ≥ 2^64 then none else pure (Float.ofBits b.toUInt64)

def pairs : List Float → List (Float × Float)
  | a :: b :: rest => (a, b) :: pairs rest
  | _ => []

def fbits (x : Float) : String := toString x.toBits

def handle (args : List String) : String :=
  match args with
  | ["wread", ev] => Id.run do
      let some l := parseFloats? ev | return "bad-op"
      if l.length ≠ 4 then return "bad-op"
      return fbits (woottersReadout l)
  | ["sqrtrho", n, rank, evl, evc] => Id.run do
      -- evc: N·N entries, re and im bits interleaved (2·N·N floats); output: N·rank entries `reBits,imBits`
      let some n := n.toNat? | return "bad-op"
      let some rank := rank.toNat? | return "bad-op"
      let some l := parseFloats? evl | return "bad-op"
      let some v := parseFloats? evc | return "bad-op"
      if n = 0 || rank = 0 || rank > n || l.length ≠ n || v.length ≠ 2 * n * n then return "bad-op"
      let va := v.toArray
      let ent := fun (k j part : Nat) => sqrtRhoEntry l n rank j (va.getD (2 * (k * n + (n - rank + j)) + part) 0)
      return ";".intercalate ((List.range n).flatMap fun k => (List.range rank).map fun j => fbits (ent k j 0) ++ "," ++ fbits (ent k j 1))
  | ["cpnorm", dims, num, cp, coeff, psis] => Id.run do
      let some dims := parseNatList? dims | return "bad-op"
      let some num := num.toNat? | return "bad-op"
      let some cp := cp.toNat? | return "bad-op"
      let some co := parseGIntList? coeff | return "bad-op"
      let some ps := (psis.splitOn "|").mapM parseGIntList? | return "bad-op"
      if dims.length < 2 || dims.any (· < 2) || cp = 0 || co.length ≠ num * cp || ps.length ≠ dims.length then return "bad-op"
      if (List.range dims.length).any (fun i => (ps.getD i []).length ≠ num * cp * dims.getD i 0) then return "bad-op"
      let ca := co.toArray
      let pa := (ps.map fun l => l.toArray).toArray
      let psi : Nat → Nat → GInt := fun i k => (pa.getD i #[]).getD k 0
      let psic : Nat → Nat → GInt := fun i k => conj ((pa.getD i #[]).getD k 0)
      return gintListStr ((List.range num).map fun al => cpNormSq dims cp (fun t => ca.getD t 0) psi psic al)
  | ["gmeovcp", dims, num, rank, cp, sq, xs, coeff, psis] => Id.run do
      let some dims := parseNatList? dims | return "bad-op"
      let some num := num.toNat? | return "bad-op"
      let some rank := rank.toNat? | return "bad-op"
      let some cp := cp.toNat? | return "bad-op"
      let some s := parseQIBitsList? sq | return "bad-op"
      let some x := parseGIntList? xs | return "bad-op"
      let some co := parseGIntList? coeff | return "bad-op"
      let some ps := (psis.splitOn "|").mapM parseGIntList? | return "bad-op"
      if dims.length < 2 || dims.any (· < 2) || cp = 0 || s.length ≠ prodL dims * rank || x.length ≠ num * rank
          || co.length ≠ num * cp || ps.length ≠ dims.length then return "bad-op"
      if (List.range dims.length).any (fun i => (ps.getD i []).length ≠ num * cp * dims.getD i 0) then return "bad-op"
      let sa := s.toArray
      let xa := (x.map QI.ofGInt).toArray
      let ca := (co.map QI.ofGInt).toArray
      let pa := (ps.map fun l => (l.map QI.ofGInt).toArray).toArray
      let psi : Nat → Nat → QI := fun i k => getQ (pa.getD i #[]) k
      return qiListStr ((List.range num).map fun al => gmeOverlapCP dims rank cp (getQ sa) (getQ xa) (getQ ca) psi al)
  | ["negread", ev] => Id.run do
      let some l := parseFloats? ev | return "bad-op"
      if l.length = 0 then return "bad-op"
      return fbits (negativityReadout l)
  | ["eofspec", ev] => Id.run do
      -- the composition get_eof_2qubit ∘ get_concurrence_2qubit on a prescribed `eigvalsh` spectrum
      let some l := parseFloats? ev | return "bad-op"
      if l.length ≠ 4 then return "bad-op"
      return fbits (eof2qubit (woottersReadout l))
  | ["gmespec", ev] => Id.run do
      let some l := parseFloats? ev | return "bad-op"
      if l.length ≠ 4 then return "bad-op"
      return fbits (gme2qubit (woottersReadout l))
  | ["eofpure", eps, ev] => Id.run do
      let some e := parseFloats? eps | return "bad-op"
      let some l := parseFloats? ev | return "bad-op"
      if e.length ≠ 1 then return "bad-op"
      return fbits (eofPureFromWeights (e.getD 0 0) l)
  | ["loss-eof", eps, probs, evs] => Id.run do
      -- `evs`: all eigenvalues, `k` per member, members in order
      let some e := parseFloats? eps | return "bad-op"
      let some ps := parseFloats? probs | return "bad-op"
      let some es := parseFloats? evs | return "bad-op"
      if e.length ≠ 1 || ps.length = 0 || es.length % ps.length ≠ 0 then return "bad-op"
      let k := es.length / ps.length
      let members := (List.range ps.length).map fun i => (ps.getD i 0, (es.drop (i * k)).take k)
      return fbits (eofLoss (e.getD 0 0) members)
  | ["loss-conc", eps, pp] => Id.run do
      let some e := parseFloats? eps | return "bad-op"
      let some l := parseFloats? pp | return "bad-op"
      if e.length ≠ 1 || l.length % 2 ≠ 0 then return "bad-op"
      return fbits (concLoss (e.getD 0 0) (pairs l))
  | ["loss-linent", eps, sign, pp] => Id.run do
      let some e := parseFloats? eps | return "bad-op"
      let some sg := parseFloats? sign | return "bad-op"
      let some l := parseFloats? pp | return "bad-op"
      if e.length ≠ 1 || sg.length ≠ 1 || l.length % 2 ≠ 0 then return "bad-op"
      return fbits (linentLoss (e.getD 0 0) (sg.getD 0 0) (pairs l))
  | ["loss-gme", ov] => Id.run do
      let some l := parseFloats? ov | return "bad-op"
      if l.length % 2 ≠ 0 then return "bad-op"
      return fbits (gmeLoss (pairs l))
  | ["belldiag", ps] => Id.run do
      -- integer weights (numerators over a common denominator): entries of 2·Σ p_i Bell_i Bell_iᴴ and of its spin flip
      let some l := parseIntList? ps | return "bad-op"
      if l.length ≠ 4 then return "bad-op"
      let p : Nat → GInt := fun i => GInt.ofInt (l.getD i 0)
      let m := (List.range 4).flatMap fun i => (List.range 4).map fun j => bellDiag2 p i j
      let f := (List.range 4).flatMap fun i => (List.range 4).map fun j => spinFlip (bellDiag2 p) i j
      let t := (List.range 4).flatMap fun i => (List.range 4).map fun j => ptB 2 2 (bellDiag2 p) i j
      return gintListStr m ++ "|" ++ gintListStr f ++ "|" ++ gintListStr t
  | ["eof", bits] => Id.run do
      let some b := bits.toNat? | return "bad-op"
      if b ≥ 2^64 then return "bad-op"
      return toString (eof2qubit (Float.ofBits b.toUInt64)).toBits
  | ["gme", bits] => Id.run do
      let some b := bits.toNat? | return "bad-op"
      if b ≥ 2^64 then return "bad-op"
      return toString (gme2qubit (Float.ofBits b.toUInt64)).toBits
  | ["spinflip", rho] => Id.run do
      let some r := parseGIntList? rho | return "bad-op"
      if r.length ≠ 16 then return "bad-op"
      let ra := r.toArray
      let ρ : Nat → Nat → GInt := fun i j => getG ra (i * 4 + j)
      return gintListStr ((List.range 4).flatMap fun i => (List.range 4).map fun j => spinFlip ρ i j)
  | ["concarg", sq, rho] => Id.run do
      let some s := parseGIntList? sq | return "bad-op"
      let some r := parseGIntList? rho | return "bad-op"
      if s.length ≠ 16 || r.length ≠ 16 then return "bad-op"
      let sa := s.toArray
      let ra := r.toArray
      let S : Nat → Nat → GInt := fun i j => getG sa (i * 4 + j)
      let ρ : Nat → Nat → GInt := fun i j => getG ra (i * 4 + j)
      return gintListStr ((List.range 4).flatMap fun i => (List.range 4).map fun j => concurrenceArg S ρ i j)
  | ["concpure", dA, dB, k, ents] => Id.run do
      let some dA := dA.toNat? | return "bad-op"
      let some dB := dB.toNat? | return "bad-op"
      let some k := k.toNat? | return "bad-op"
      let some e := parseGIntList? ents | return "bad-op"
      if dA < 2 || dB < 2 || e.length ≠ dA * dB || k > 60 then return "bad-op"
      let den : Rat := ratOfInt (2^k : Nat)
      let ea := (e.map fun g => (⟨ratOfInt g.re / den, ratOfInt g.im / den⟩ : QI)).toArray
      let ψ : Nat → Nat → QI := fun a b => getQ ea (a * dB + b)
      let x := concPureRadicand dA dB ψ
      -- `tmp2 = np.vdot(..).real`: the radicand is real; the (possibly clamped) argument of `np.sqrt` is printed
      return QI.ratStr (concPureSqrtArg x.re) ++ "," ++ QI.ratStr x.im
  | ["pur", m, num, ents] => Id.run do
      let some m := m.toNat? | return "bad-op"
      let some num := num.toNat? | return "bad-op"
      let some e := parseGIntList? ents | return "bad-op"
      if e.length ≠ num * m * m || m = 0 then return "bad-op"
      let ea := e.toArray
      let T : Nat → Nat → Nat → GInt := fun al a b => getG ea ((al * m + a) * m + b)
      return gintListStr ((List.range num).map fun al => ensemblePurity m T al)
  | ["ens", dimA, dimB, num, rank, sq, xs] => Id.run do
      let some dimA := dimA.toNat? | return "bad-op"
      let some dimB := dimB.toNat? | return "bad-op"
      let some num := num.toNat? | return "bad-op"
      let some rank := rank.toNat? | return "bad-op"
      let some s := parseQIBitsList? sq | return "bad-op"
      let some x := parseGIntList? xs | return "bad-op"
      if dimA < 2 || dimB < 2 || s.length ≠ dimA * dimB * rank || x.length ≠ num * rank then return "bad-op"
      let sa := s.toArray
      let xa := (x.map QI.ofGInt).toArray
      let m := if dimA ≤ dimB then dimA else dimB
      return qiListStr ((List.range num).flatMap fun al => (List.range m).flatMap fun p => (List.range m).map fun q =>
        ensembleRdm dimA dimB rank (getQ sa) (getQ xa) al p q)
  | ["gmeov", dims, num, rank, sq, xs, psis] => Id.run do
      let some dims := parseNatList? dims | return "bad-op"
      let some num := num.toNat? | return "bad-op"
      let some rank := rank.toNat? | return "bad-op"
      let some s := parseQIBitsList? sq | return "bad-op"
      let some x := parseGIntList? xs | return "bad-op"
      let some ps := (psis.splitOn "|").mapM parseGIntList? | return "bad-op"
      if dims.length < 2 || dims.any (· < 2) || s.length ≠ prodL dims * rank || x.length ≠ num * rank then return "bad-op"
      if ps.length ≠ dims.length then return "bad-op"
      if (List.range dims.length).any (fun i => (ps.getD i []).length ≠ num * dims.getD i 0) then return "bad-op"
      let sa := s.toArray
      let xa := (x.map QI.ofGInt).toArray
      let pa := (ps.map fun l => (l.map QI.ofGInt).toArray).toArray
      let psi : Nat → Nat → QI := fun i k => getQ (pa.getD i #[]) k
      return qiListStr ((List.range num).map fun al => gmeOverlap dims rank (getQ sa) (getQ xa) psi al)
  | _ => "bad-op"

end Numqi.Driver.C13
