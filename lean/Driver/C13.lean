/- line-protocol handlers for C13 (stub: not built yet) -/
import Driver.Loop

namespace Numqi.Driver.C13

def handle (_args : List String) : String := "bad-op"

end Numqi.Driver.C13
