/- line-protocol handlers for the roots-of-unity UPB tables of C18 (`NumqiModel/CatalogueRoots.lean`).

Grammar (arguments after the property id):
  `rootsupb gentiles1 <d>`        d even, d ≥ 4
  `rootsupb gentiles2 <m> <n>`    m ≥ 3, n ≥ 4, n ≥ m
  `rootsupb quadres <dim>`        dim odd, p = 2·dim − 1 (primality is not checked here)
Answer: `<count> <dimA> <dimB> <partyA> <partyB>`; a party is its vectors joined by `;`, a vector its components joined by `,`,
a component is `.` (zero) or `<cls><+|-><e>` (scale class, sign, exponent of the root of unity).  Anything else: `bad-op`. -/
import Driver.Loop
import NumqiModel.CatalogueRoots

namespace Numqi.Driver.C18Roots
open Numqi Numqi.Catalogue

def entStr (x : RootEnt) : String :=
  if x.cls = 0 then "." else s!"{x.cls}{if x.neg then "-" else "+"}{x.e}"

def partyStr (count dim : Nat) (f : Nat → Nat → RootEnt) : String :=
  ";".intercalate ((List.range count).map fun a => ",".intercalate ((List.range dim).map fun i => entStr (f a i)))

def handle (args : List String) : String :=
  match args with
  | ["rootsupb", "gentiles1", d] => Id.run do
      let some d := d.toNat? | return "bad-op"
      if d % 2 ≠ 0 || d < 4 then return "bad-op"
      return s!"{gt1Count d} {d} {d} {partyStr (gt1Count d) d (gt1A d)} {partyStr (gt1Count d) d (gt1B d)}"
  | ["rootsupb", "gentiles2", m, n] => Id.run do
      let some m := m.toNat? | return "bad-op"
      let some n := n.toNat? | return "bad-op"
      if m < 3 || n < 4 || n < m then return "bad-op"
      return s!"{gt2Count m n} {m} {n} {partyStr (gt2Count m n) m (gt2A m n)} {partyStr (gt2Count m n) n (gt2B m n)}"
  | ["rootsupb", "quadres", dim] => Id.run do
      let some dim := dim.toNat? | return "bad-op"
      if dim % 2 ≠ 1 || dim < 3 then return "bad-op"
      let p := 2 * dim - 1
      return s!"{p} {dim} {dim} {partyStr p dim (qrA p)} {partyStr p dim (qrB p)}"
  | _ => "bad-op"

end Numqi.Driver.C18Roots
