import Driver.Loop
import Driver.C07

def main : IO Unit := Numqi.Driver.run Numqi.Driver.C07.handle
