/- line-protocol handlers for C14 (stub: not built yet) -/
import Driver.Loop

namespace Numqi.Driver.C14

def handle (_args : List String) : String := "bad-op"

end Numqi.Driver.C14
