/- line-protocol handlers for C14 (finite-group tables, partitions, tableaux) -/
import Driver.Loop
import NumqiModel.FinGroup
import NumqiModel.Young

namespace Numqi.Driver.C14
open Numqi Numqi.FinGroup Numqi.Young

/-- `"3,2,1"` ↦ `[3,2,1]` -/
def parseShape? (s : String) : Option (List Nat) :=
  if s = "" then none else (s.splitOn ",").mapM String.toNat?

/-- the constructor named `kind` at size `n`, with the code's `assert` guards -/
def tableFor (kind : String) (n : Nat) : Option (Except String Table) :=
  match kind with
  | "sym" => some (if n ≥ 2 then .ok (symTable n) else .error "error:assert")
  | "alt" => some (if n ≥ 2 then .ok (altTable n) else .error "error:assert")
  | "dih" => some (if n > 2 then .ok (dihTable n) else .error "error:assert")
  | "cyc" => some (if n ≥ 2 then .ok (cycTable n) else .error "error:assert")
  | "mul" => some (if n ≥ 3 then .ok (mulTable n) else .error "error:assert")
  | "klein" => some (.ok kleinTable)
  | "quat" => some (.ok quatTable)
  | _ => none

def tabStr (t : List (List Nat)) : String := "|".intercalate (t.map Young.rowStr)

def handle (args : List String) : String :=
  match args with
  | ["table", kind, n] => Id.run do
      let some n := n.toNat? | return "bad-op"
      match tableFor kind n with
      | none => return "bad-op"
      | some (.error e) => return e
      | some (.ok T) => return tableStr T
  | ["isgroup", kind, n] => Id.run do
      let some n := n.toNat? | return "bad-op"
      match tableFor kind n with
      | none => return "bad-op"
      | some (.error e) => return e
      | some (.ok T) => return s!"{T.length} {if isGroupTableB T T.length then 1 else 0}"
  | ["leftreg", kind, n] => Id.run do
      let some n := n.toNat? | return "bad-op"
      match tableFor kind n with
      | none => return "bad-op"
      | some (.error e) => return e
      | some (.ok T) =>
        let ones := leftRegOnes T
        if ones.all fun g => g.all fun rs => rs.length == 1 then
          return tableStr (ones.map fun g => g.map fun rs => rs.headD 0)
        else return "not-permutation-matrices"
  | ["leftregfull", kind, n] => Id.run do
      -- every entry of the (N,N,N) array: blocks `g` separated by `|`, rows by `;`
      let some n := n.toNat? | return "bad-op"
      match tableFor kind n with
      | none => return "bad-op"
      | some (.error e) => return e
      | some (.ok T) =>
        let N := T.length
        return "|".intercalate ((List.range N).map fun g => ";".intercalate ((List.range N).map fun r =>
          String.join ((List.range N).map fun c => toString (leftRegEntry T g r c))))
  | ["totient", n] => Id.run do
      let some n := n.toNat? | return "bad-op"
      return toString (eulerTotient n)
  | ["dummypart", len, bits] => Id.run do
      -- `bits`: the predicate as a row-major `len × (len+1)` 0/1 table, `p s e = bits[s*(len+1)+e]`
      let some len := len.toNat? | return "bad-op"
      let b := bits.toList
      if bits ≠ "-" && b.length ≠ len * (len + 1) then return "bad-op"
      let p := fun s e => b.getD (s * (len + 1) + e) '0' == '1'
      return ";".intercalate ((dummyPartition len p).map fun (s, e) => s!"{s}:{e}")
  | ["dedup", dims, mats] => Id.run do
      -- `dims`: block dimensions in discovery order; `mats`: for every dimension with more than one block (ascending), `d=rows` with rows `/`-separated bit strings, entries `+`-separated
      let some dims := parseShape? dims | return "bad-op"
      let tbl : List (Nat × List (List Bool)) := if mats = "-" then [] else
        (mats.splitOn "+").filterMap fun item =>
          match item.splitOn "=" with
          | [d, rows] => d.toNat?.map fun d => (d, (rows.splitOn "/").map fun r => r.toList.map (· == '1'))
          | _ => none
      let E := fun d => ((tbl.find? fun x => x.1 == d).map (·.2)).getD []
      return ";".intercalate ((dedupAll dims E).map fun (d, i) => s!"{d}:{i}")
  | ["numirrep", n] => Id.run do
      let some n := n.toNat? | return "bad-op"
      if n < 1 then return "error:assert"
      return toString (numIrrep n)
  | ["numirrepfull", n] => Id.run do
      let some n := n.toNat? | return "bad-op"
      if n < 1 then return "error:assert"
      return rowsStr (numIrrepFull n)
  | ["young", n] => Id.run do
      let some n := n.toNat? | return "bad-op"
      if n < 1 then return "error:assert"
      return rowsStr (youngDiagram n)
  | ["hook", s] => Id.run do
      let some s := parseShape? s | return "bad-op"
      if !checkShape s then return "error:assert"
      return toString (hookLength s)
  | ["transpose", s] => Id.run do
      let some s := parseShape? s | return "bad-op"
      if !checkShape s then return "error:assert"
      return Young.rowStr (transpose s)
  | ["mask", s] => Id.run do
      let some s := parseShape? s | return "bad-op"
      if !checkShape s then return "error:assert"
      return rowsStr (mask s)
  | ["tableaux", s] => Id.run do
      let some s := parseShape? s | return "bad-op"
      if !checkShape s then return "error:assert"
      return ";".intercalate ((allTableaux s).map tabStr)
  | ["tabok", s] => Id.run do
      let some s := parseShape? s | return "bad-op"
      if !checkShape s then return "error:assert"
      return if tableauxOK s then "1" else "0"
  | ["sytcount", s] => Id.run do
      let some s := parseShape? s | return "bad-op"
      if !checkShape s then return "error:assert"
      return toString (sytCount s.sum s)
  | _ => "bad-op"

end Numqi.Driver.C14
