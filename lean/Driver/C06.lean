/- line-protocol handlers for C06 (stub: not built yet) -/
import Driver.Loop

namespace Numqi.Driver.C06

def handle (_args : List String) : String := "bad-op"

end Numqi.Driver.C06
