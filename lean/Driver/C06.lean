/- line-protocol handlers for C06 (closed-form boundaries, partial transpose, interpolation, CHA data) -/
import Driver.Loop
import NumqiModel.Boundary
import NumqiModel.Dicke
import NumqiModel.Gellmann
import Driver.SymExtOps

namespace Numqi.Driver.C06
open Numqi Numqi.Boundary

/-- `"x:y:re,im"` -/
def parseTriple? (s : String) : Option (Nat × Nat × GInt) :=
  match s.splitOn ":" with
  | [x, y, v] => do
    let x ← x.toNat?; let y ← y.toNat?; let v ← parseGInt? v
    pure (x, y, v)
  | _ => none

def parseTriples? (s : String) : Option (List (Nat × Nat × GInt)) :=
  if s = "" || s = "-" then some [] else (s.splitOn ";").mapM parseTriple?

def ratTripleStr (e : Nat × Nat × Rat) : String := s!"{e.1}:{e.2.1}:{QI.ratStr e.2.2}"

def fbits? (s : String) : Option Float := do
  let b ← s.toNat?
  if b ≥ 2^64 then none else some (Float.ofBits b.toUInt64)

def fstr (x : Float) : String := toString x.toBits.toNat

def ratStr (r : Rat) : String := s!"{r.num}/{r.den}"
def qiStr (a : QI) : String := s!"{ratStr a.re},{ratStr a.im}"

def ratBits? (s : String) : Option Rat := do
  let b ← s.toNat?
  if b / 2^52 % 2048 = 2047 then none else some (ratOfFloatBits b)

/-- `"a,b"` with binary64 bit patterns ↦ exact Gaussian rational -/
def qiBits? (s : String) : Option QI :=
  match s.splitOn "," with
  | [a, b] => do let x ← ratBits? a; let y ← ratBits? b; pure ⟨x, y⟩
  | _ => none

def qiBitsList? (s : String) : Option (List QI) :=
  if s = "-" || s = "" then some [] else (s.splitOn ";").mapM qiBits?

def vecOf {α : Type} [Zero α] (n : Nat) (l : List α) : Fin n → α :=
  let a := l.toArray
  fun i => a.getD i.val 0

def matOf {α : Type} [Zero α] (n : Nat) (l : List α) : Fin n → Fin n → α :=
  let a := l.toArray
  fun r c => a.getD (r.val * n + c.val) 0

def matFlat {α : Type} (n : Nat) (M : Fin n → Fin n → α) : List α :=
  (List.finRange n).flatMap fun r => (List.finRange n).map fun c => M r c

/-- division of Gaussian rationals, `a/b = a·conj b / |b|²` (the model's `interpBeta` divides `beta / dm_norm`) -/
instance : Div QI := ⟨fun a b =>
  let n := b.re * b.re + b.im * b.im
  ⟨(a.re * b.re + a.im * b.im) / n, (a.im * b.re - a.re * b.im) / n⟩⟩

def qiOfNatInv (n : Nat) : QI := ⟨(1 : Rat) / (n : Int), 0⟩
def qiHalf : QI := ⟨(1 : Rat) / 2, 0⟩

def handleOwn (args : List String) : String :=
  match args with
  | ["dmb", n, emin, emax, norm] => Id.run do
      let some n := fbits? n | return "bad-op"
      let some emin := fbits? emin | return "bad-op"
      let some emax := fbits? emax | return "bad-op"
      let some norm := fbits? norm | return "bad-op"
      let r := dmBoundary n emin emax norm
      return fstr r.1 ++ " " ++ fstr r.2
  | ["pptb", w, a, b, c, d] => Id.run do
      let some a := fbits? a | return "bad-op"
      let some b := fbits? b | return "bad-op"
      let some c := fbits? c | return "bad-op"
      let some d := fbits? d | return "bad-op"
      if w ≠ "0" && w ≠ "1" then return "bad-op"
      let r := pptBoundary (w = "1") (a, b) (c, d)
      return fstr r.1 ++ " " ++ fstr r.2
  | ["pt", dA, dB, l] => Id.run do
      let some dA := dA.toNat? | return "bad-op"
      let some dB := dB.toNat? | return "bad-op"
      let some l := parseGIntList? l | return "bad-op"
      if l.length ≠ dA * dB * (dA * dB) then return "bad-op"
      return gintListStr (toFlat dA dB (ptB (ofFlat dA dB l)))
  | ["gmnorm2", n, l] => Id.run do
      let some n := n.toNat? | return "bad-op"
      let some l := parseGIntList? l | return "bad-op"
      if n = 0 || l.length ≠ n * n then return "bad-op"
      let r := gmNorm2 (qiOfNatInv n) qiHalf (matOf n (l.map QI.ofGInt))
      return qiStr r
  | ["interp", n, alpha, l] => Id.run do
      let some n := n.toNat? | return "bad-op"
      let some alpha := ratBits? alpha | return "bad-op"
      let some l := parseGIntList? l | return "bad-op"
      if n = 0 || l.length ≠ n * n then return "bad-op"
      let M := interp (qiOfNatInv n) (⟨alpha, 0⟩ : QI) (matOf n (l.map QI.ofGInt))
      return ";".intercalate ((matFlat n M).map qiStr)
  | ["interpb", n, beta, norm, l] => Id.run do
      let some n := n.toNat? | return "bad-op"
      let some beta := ratBits? beta | return "bad-op"
      let some norm := ratBits? norm | return "bad-op"
      let some l := parseGIntList? l | return "bad-op"
      if n = 0 || l.length ≠ n * n || norm = 0 then return "bad-op"
      -- the proved constant `interpBeta` (`alpha = beta / dm_norm`, exact here; the implementation rounds once)
      let M := interpBeta (qiOfNatInv n) (⟨beta, 0⟩ : QI) (⟨norm, 0⟩ : QI) (matOf n (l.map QI.ofGInt))
      return ";".intercalate ((matFlat n M).map qiStr)
  | ["charow", dA, dB, a, b] => Id.run do
      let some dA := dA.toNat? | return "bad-op"
      let some dB := dB.toNat? | return "bad-op"
      let some a := parseGIntList? a | return "bad-op"
      let some b := parseGIntList? b | return "bad-op"
      if dA * dB = 0 || a.length ≠ dA || b.length ≠ dB then return "bad-op"
      let M := chaRow (qiOfNatInv (dA * dB)) (vecOf dA (a.map QI.ofGInt)) (vecOf dB (b.map QI.ofGInt))
      return ";".intercalate ((toFlat dA dB M).map qiStr)
  | ["mixture", dA, dB, k, lam, a, b] => Id.run do
      -- exact value of `Σ_i λ_i |a_i b_i⟩⟨a_i b_i|` for binary64 inputs (bit patterns)
      let some dA := dA.toNat? | return "bad-op"
      let some dB := dB.toNat? | return "bad-op"
      let some k := k.toNat? | return "bad-op"
      let some lam := (if lam = "-" then some [] else (lam.splitOn ";").mapM ratBits?) | return "bad-op"
      let some a := qiBitsList? a | return "bad-op"
      let some b := qiBitsList? b | return "bad-op"
      if lam.length ≠ k || a.length ≠ k * dA || b.length ≠ k * dB then return "bad-op"
      let la := (lam.map fun r => (⟨r, 0⟩ : QI)).toArray
      let aa := a.toArray
      let ba := b.toArray
      let M := mixture (K := k) (fun i => la.getD i.val 0) (fun i j => aa.getD (i.val * dA + j.val) 0)
        (fun i j => ba.getD (i.val * dB + j.val) 0)
      return ";".intercalate ((toFlat dA dB M).map qiStr)
  | ["purebred", dimA, dimB, len, table, v] => Id.run do
      -- `PureBosonicExt.forward`: `partial_trace_ABk_to_AB(manifold().reshape(dimA,-1), Bij)` (C17's model `Dicke.purebReduce`)
      let some dimA := dimA.toNat? | return "bad-op"
      let some dimB := dimB.toNat? | return "bad-op"
      let some len := len.toNat? | return "bad-op"
      let some tabs := (table.splitOn "|").mapM parseTriples? | return "bad-op"
      let some v := (parseGIntList? v).map List.toArray | return "bad-op"
      if tabs.length ≠ dimB * dimB || v.size ≠ dimA * len then return "bad-op"
      if tabs.any (fun t => t.any fun e => e.1 ≥ len || e.2.1 ≥ len) then return "bad-op"
      let tabA := tabs.toArray
      let f := Dicke.purebReduce dimB len (fun q => tabA.getD q []) (fun i => v.getD i 0)
      let N := dimA * dimB
      return gintListStr ((List.range N).flatMap fun x => (List.range N).map fun y => f x y)
  | ["asm", dimA, dimB, len, table, psi] => Id.run do
      -- `partial_trace_ABk_to_AB(state, Bij)` on a coefficient matrix (`Dicke.assembleAB`)
      let some dimA := dimA.toNat? | return "bad-op"
      let some dimB := dimB.toNat? | return "bad-op"
      let some len := len.toNat? | return "bad-op"
      let some tabs := (table.splitOn "|").mapM parseTriples? | return "bad-op"
      let some psi := (parseGIntList? psi).map List.toArray | return "bad-op"
      if tabs.length ≠ dimB * dimB || psi.size ≠ dimA * len then return "bad-op"
      if tabs.any (fun t => t.any fun e => e.1 ≥ len || e.2.1 ≥ len) then return "bad-op"
      let tabA := tabs.toArray
      let f := Dicke.assembleAB dimB (fun q => tabA.getD q []) (fun x y => psi.getD (x * len + y) 0)
      let N := dimA * dimB
      return gintListStr ((List.range N).flatMap fun x => (List.range N).map fun y => f x y)
  | ["bij", n, d] => Id.run do
      -- `get_partial_trace_ABk_to_AB_index(n, d)`: index triples with the squared value (`Dicke.bijTable`)
      let some n := n.toNat? | return "bad-op"
      let some d := d.toNat? | return "bad-op"
      if d < 2 || n < 1 then return "error:assert"
      return "|".intercalate ((List.range (d * d)).map fun q =>
        ";".intercalate ((Dicke.bijTable n d (q / d) (q % d)).map ratTripleStr))
  | ["dnum", n, d] => Id.run do
      let some n := n.toNat? | return "bad-op"
      let some d := d.toNat? | return "bad-op"
      return toString (Dicke.dickeNumber n d)
  | ["dist2", n, a, b] => Id.run do
      -- `get_density_matrix_distance2(rho, sigma)` (C16's model `Gellmann.distance2`)
      let some n := n.toNat? | return "bad-op"
      let some a := parseGIntList? a | return "bad-op"
      let some b := parseGIntList? b | return "bad-op"
      if n = 0 || a.length ≠ n * n || b.length ≠ n * n then return "bad-op"
      return qiStr (Gellmann.distance2 (Gellmann.floatScalars n) n (matOf n (a.map QI.ofGInt)) (matOf n (b.map QI.ofGInt)))
  | ["bisect", x0, x1, rnum, rden, t] => Id.run do
      -- `_ree_bisection_solve(hf, x0, x1, xtol, threshold)` for the step function `hf(x) = [x >= t]`, threshold 1/2;
      -- `rnum/rden = (x1-x0)/xtol`
      let some x0 := ratBits? x0 | return "bad-op"
      let some x1 := ratBits? x1 | return "bad-op"
      let some rnum := rnum.toNat? | return "bad-op"
      let some rden := rden.toNat? | return "bad-op"
      let some t := ratBits? t | return "bad-op"
      if rden = 0 || ¬ (x0 < x1) then return "error:assert"
      let m := bisectMaxiter rnum rden
      let r := bisectLoop (fun x : Rat => if t ≤ x then 1 else 0) ((1 : Rat) / 2) m x0 x1 x0
      return s!"{m} {ratStr r.2.2}"
  | _ => "bad-op"

/-- the shared index layer of the irrep-block symmetric-extension path (`idx0213`, `sxrealign`, `extray`, `irreprdm`,
`Driver/SymExtOps.lean`, model `NumqiModel/SymExt.lean`) is part of `get_ABk_symmetric_extension_boundary` / `is_ABk_symmetric_ext`,
the two SDP routines of C06's hierarchy -/
def handle (args : List String) : String :=
  match Numqi.Driver.SymExtOps.handle? args with
  | some r => r
  | none => handleOwn args

end Numqi.Driver.C06
