/- line-protocol handlers for C06 (closed-form boundaries, partial transpose, interpolation, CHA data) -/
import Driver.Loop
import NumqiModel.Boundary

namespace Numqi.Driver.C06
open Numqi Numqi.Boundary

def fbits? (s : String) : Option Float := do
  let b ← s.toNat?
  if b ≥ 2^64 then none else some (Float.ofBits b.toUInt64)

def fstr (x : Float) : String := toString x.toBits.toNat

def ratStr (r : Rat) : String := s!"{r.num}/{r.den}"
def qiStr (a : QI) : String := s!"{ratStr a.re},{ratStr a.im}"

def ratBits? (s : String) : Option Rat := do
  let b ← s.toNat?
  if b / 2^52 % 2048 = 2047 then none else some (ratOfFloatBits b)

/-- `"a,b"` with binary64 bit patterns ↦ exact Gaussian rational -/
def qiBits? (s : String) : Option QI :=
  match s.splitOn "," with
  | [a, b] => do let x ← ratBits? a; let y ← ratBits? b; pure ⟨x, y⟩
  | _ => none

def qiBitsList? (s : String) : Option (List QI) :=
  if s = "-" || s = "" then some [] else (s.splitOn ";").mapM qiBits?

def vecOf {α : Type} [Zero α] (n : Nat) (l : List α) : Fin n → α :=
  let a := l.toArray
  fun i => a.getD i.val 0

def matOf {α : Type} [Zero α] (n : Nat) (l : List α) : Fin n → Fin n → α :=
  let a := l.toArray
  fun r c => a.getD (r.val * n + c.val) 0

def matFlat {α : Type} (n : Nat) (M : Fin n → Fin n → α) : List α :=
  (List.finRange n).flatMap fun r => (List.finRange n).map fun c => M r c

/-- division of Gaussian rationals, `a/b = a·conj b / |b|²` (the model's `interpBeta` divides `beta / dm_norm`) -/
instance : Div QI := ⟨fun a b =>
  let n := b.re * b.re + b.im * b.im
  ⟨(a.re * b.re + a.im * b.im) / n, (a.im * b.re - a.re * b.im) / n⟩⟩

def qiOfNatInv (n : Nat) : QI := ⟨(1 : Rat) / (n : Int), 0⟩
def qiHalf : QI := ⟨(1 : Rat) / 2, 0⟩

def handle (args : List String) : String :=
  match args with
  | ["dmb", n, emin, emax, norm] => Id.run do
      let some n := fbits? n | return "bad-op"
      let some emin := fbits? emin | return "bad-op"
      let some emax := fbits? emax | return "bad-op"
      let some norm := fbits? norm | return "bad-op"
      let r := dmBoundary n emin emax norm
      return fstr r.1 ++ " " ++ fstr r.2
  | ["pptb", w, a, b, c, d] => Id.run do
      let some a := fbits? a | return "bad-op"
      let some b := fbits? b | return "bad-op"
      let some c := fbits? c | return "bad-op"
      let some d := fbits? d | return "bad-op"
      if w ≠ "0" && w ≠ "1" then return "bad-op"
      let r := pptBoundary (w = "1") (a, b) (c, d)
      return fstr r.1 ++ " " ++ fstr r.2
  | ["pt", dA, dB, l] => Id.run do
      let some dA := dA.toNat? | return "bad-op"
      let some dB := dB.toNat? | return "bad-op"
      let some l := parseGIntList? l | return "bad-op"
      if l.length ≠ dA * dB * (dA * dB) then return "bad-op"
      return gintListStr (toFlat dA dB (ptB (ofFlat dA dB l)))
  | ["gmnorm2", n, l] => Id.run do
      let some n := n.toNat? | return "bad-op"
      let some l := parseGIntList? l | return "bad-op"
      if n = 0 || l.length ≠ n * n then return "bad-op"
      let r := gmNorm2 (qiOfNatInv n) qiHalf (matOf n (l.map QI.ofGInt))
      return qiStr r
  | ["interp", n, alpha, l] => Id.run do
      let some n := n.toNat? | return "bad-op"
      let some alpha := ratBits? alpha | return "bad-op"
      let some l := parseGIntList? l | return "bad-op"
      if n = 0 || l.length ≠ n * n then return "bad-op"
      let M := interp (qiOfNatInv n) (⟨alpha, 0⟩ : QI) (matOf n (l.map QI.ofGInt))
      return ";".intercalate ((matFlat n M).map qiStr)
  | ["interpb", n, beta, norm, l] => Id.run do
      let some n := n.toNat? | return "bad-op"
      let some beta := ratBits? beta | return "bad-op"
      let some norm := ratBits? norm | return "bad-op"
      let some l := parseGIntList? l | return "bad-op"
      if n = 0 || l.length ≠ n * n || norm = 0 then return "bad-op"
      -- the proved constant `interpBeta` (`alpha = beta / dm_norm`, exact here; the implementation rounds once)
      let M := interpBeta (qiOfNatInv n) (⟨beta, 0⟩ : QI) (⟨norm, 0⟩ : QI) (matOf n (l.map QI.ofGInt))
      return ";".intercalate ((matFlat n M).map qiStr)
  | ["charow", dA, dB, a, b] => Id.run do
      let some dA := dA.toNat? | return "bad-op"
      let some dB := dB.toNat? | return "bad-op"
      let some a := parseGIntList? a | return "bad-op"
      let some b := parseGIntList? b | return "bad-op"
      if dA * dB = 0 || a.length ≠ dA || b.length ≠ dB then return "bad-op"
      let M := chaRow (qiOfNatInv (dA * dB)) (vecOf dA (a.map QI.ofGInt)) (vecOf dB (b.map QI.ofGInt))
      return ";".intercalate ((toFlat dA dB M).map qiStr)
  | ["mixture", dA, dB, k, lam, a, b] => Id.run do
      -- exact value of `Σ_i λ_i |a_i b_i⟩⟨a_i b_i|` for binary64 inputs (bit patterns)
      let some dA := dA.toNat? | return "bad-op"
      let some dB := dB.toNat? | return "bad-op"
      let some k := k.toNat? | return "bad-op"
      let some lam := (if lam = "-" then some [] else (lam.splitOn ";").mapM ratBits?) | return "bad-op"
      let some a := qiBitsList? a | return "bad-op"
      let some b := qiBitsList? b | return "bad-op"
      if lam.length ≠ k || a.length ≠ k * dA || b.length ≠ k * dB then return "bad-op"
      let la := (lam.map fun r => (⟨r, 0⟩ : QI)).toArray
      let aa := a.toArray
      let ba := b.toArray
      let M := mixture (K := k) (fun i => la.getD i.val 0) (fun i j => aa.getD (i.val * dA + j.val) 0)
        (fun i j => ba.getD (i.val * dB + j.val) 0)
      return ";".intercalate ((toFlat dA dB M).map qiStr)
  | _ => "bad-op"

end Numqi.Driver.C06
