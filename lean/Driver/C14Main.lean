import Driver.Loop
import Driver.C14

def main : IO Unit := Numqi.Driver.run Numqi.Driver.C14.handle
