/- line-protocol handlers for C10 (seed flow) -/
import Driver.Loop
import NumqiModel.SeedFlow
import NumqiModel.Generated.SeedPrograms
import NumqiModel.RandNorm

namespace Numqi.Driver.C10
open Numqi Numqi.SeedFlow

def progs : List Prog := Generated.programs
def names : List String := Generated.names

def findIdx? (name : String) : Option Nat :=
  let i := names.idxOf name
  if i < names.length then some i else none

/-- callees of a program -/
def callees : Prog → List Nat
  | .done => []
  | .mkRng _ _ k => callees k
  | .draw _ k => callees k
  | .drawGlobal _ k => callees k
  | .call f _ k => f :: callees k
  | .unknownCall k => callees k
  | .branch _ t e k => callees t ++ callees e ++ callees k
  | .loop _ b k => callees b ++ callees k

/-- programs reachable from `i` through calls (breadth first, `fuel` rounds) -/
def reach : Nat → List Nat → List Nat
  | 0, seen => seen
  | fuel + 1, seen =>
    let next := (seen.flatMap fun j => callees (progs.getD j .done)).filter fun j => !seen.contains j
    if next.isEmpty then seen else reach fuel (seen ++ next.eraseDups)

/-- closed together with everything it calls (what the behaviour of the real function reflects) -/
def tclosed (i : Nat) : Bool := (reach progs.length [i]).all fun j => seedClosed progs.length (progs.getD j .done)

def listStr (l : List Nat) : String := ",".intercalate (l.map toString)

/-! ### validity ops: complex binary64 values cross the protocol as `rebits:imbits` -/
open Numqi.RandNorm

def parseC? (s : String) : Option CFl :=
  match s.splitOn ":" with
  | [a, b] => do
    let x ← a.toNat?; let y ← b.toNat?
    pure ⟨Float.ofBits x.toUInt64, Float.ofBits y.toUInt64⟩
  | _ => none

def parseCArr? (s : String) : Option (Array CFl) :=
  if s = "-" then some #[] else ((s.splitOn ",").mapM parseC?).map List.toArray

def cStr (z : CFl) : String := s!"{z.re.toBits.toNat}:{z.im.toBits.toNat}"

def vec (a : Array CFl) : Nat → CFl := fun i => a.getD i 0
def mat (a : Array CFl) (cols : Nat) : Nat → Nat → CFl := fun i j => a.getD (i * cols + j) 0
def ten (a : Array CFl) (d1 d2 : Nat) : Nat → Nat → Nat → CFl := fun s i j => a.getD ((s * d1 + i) * d2 + j) 0

def outVec (n : Nat) (f : Nat → CFl) : String := ",".intercalate ((List.range n).map fun i => cStr (f i))
def outMat (m n : Nat) (f : Nat → Nat → CFl) : String :=
  ",".intercalate ((List.range m).flatMap fun i => (List.range n).map fun j => cStr (f i j))

/-- materialise a matrix function (each entry evaluated once) -/
def memo (m n : Nat) (f : Nat → Nat → CFl) : Nat → Nat → CFl :=
  let a := Array.ofFn (n := m * n) fun k => f (k.val / n) (k.val % n)
  fun i j => a.getD (i * n + j) 0

def handleNz (args : List String) : String :=
  match args with
  | ["vec", n, d] => Id.run do
      let some n := n.toNat? | return "bad-op"
      let some a := parseCArr? d | return "bad-op"
      if a.size ≠ n then return "bad-op"
      return outVec n (normalize n (vec a))
  | ["ball", n, d, u] => Id.run do
      let some n := n.toNat? | return "bad-op"
      let some a := parseCArr? d | return "bad-op"
      let some u := parseC? u | return "bad-op"
      if a.size ≠ n then return "bad-op"
      return outVec n (ballPoint n (vec a) u)
  | ["signfix", n, q, r] => Id.run do
      let some n := n.toNat? | return "bad-op"
      let some q := parseCArr? q | return "bad-op"
      let some r := parseCArr? r | return "bad-op"
      if q.size ≠ n * n || r.size ≠ n then return "bad-op"
      return outMat n n (signFix (mat q n) (vec r))
  | ["dm", n, k, g] => Id.run do
      let some n := n.toNat? | return "bad-op"
      let some k := k.toNat? | return "bad-op"
      let some g := parseCArr? g | return "bad-op"
      if g.size ≠ n * k then return "bad-op"
      return outMat n n (densityMatrix n k (mat g k))
  | ["dmb", n, k, u, g] => Id.run do
      let some n := n.toNat? | return "bad-op"
      let some k := k.toNat? | return "bad-op"
      let some u := parseCArr? u | return "bad-op"
      let some g := parseCArr? g | return "bad-op"
      if g.size ≠ n * k || u.size ≠ n * n then return "bad-op"
      let P := memo n k (buresPre n (mat u n) (mat g k))
      return outMat n n (densityMatrix n k P)
  | ["povm", n, m, b, evl, evc] => Id.run do
      let some n := n.toNat? | return "bad-op"
      let some m := m.toNat? | return "bad-op"
      let some b := parseCArr? b | return "bad-op"
      let some evl := parseCArr? evl | return "bad-op"
      let some evc := parseCArr? evc | return "bad-op"
      if b.size ≠ m * n * n || evl.size ≠ n || evc.size ≠ n * n then return "bad-op"
      return ",".intercalate ((List.range m).map fun s => outMat n n (povm n (ten b n n) (mat evc n) (vec evl) s))
  | ["povmsum", n, m, b] => Id.run do
      let some n := n.toNat? | return "bad-op"
      let some m := m.toNat? | return "bad-op"
      let some b := parseCArr? b | return "bad-op"
      if b.size ≠ m * n * n then return "bad-op"
      return outMat n n (povmSum n m (ten b n n))
  | ["kraus", N, dout, din, z, minv] => Id.run do
      let some N := N.toNat? | return "bad-op"
      let some dout := dout.toNat? | return "bad-op"
      let some din := din.toNat? | return "bad-op"
      let some z := parseCArr? z | return "bad-op"
      let some minv := parseCArr? minv | return "bad-op"
      if z.size ≠ N * dout * din || minv.size ≠ din * din then return "bad-op"
      let Z := ten z dout din
      return ",".intercalate ((List.range N).map fun s => outMat dout din (krausOut din Z (mat minv din) s))
  | ["herm", n, evc, evl] => Id.run do
      let some n := n.toNat? | return "bad-op"
      let some evc := parseCArr? evc | return "bad-op"
      let some evl := parseCArr? evl | return "bad-op"
      if evc.size ≠ n * n || evl.size ≠ n then return "bad-op"
      return outMat n n (hermEig n (mat evc n) (vec evl))
  | ["choi", din, dout, r, g, evl, evc] => Id.run do
      let some din := din.toNat? | return "bad-op"
      let some dout := dout.toNat? | return "bad-op"
      let some r := r.toNat? | return "bad-op"
      let some g := parseCArr? g | return "bad-op"
      let some evl := parseCArr? evl | return "bad-op"
      let some evc := parseCArr? evc | return "bad-op"
      let N0 := din * dout
      if g.size ≠ N0 * r || evl.size ≠ din || evc.size ≠ din * din then return "bad-op"
      let T := memo din din (invSqrtMat din (mat evc din) (vec evl))
      return outMat N0 N0 (choiOut din dout r (mat g r) T)
  | ["choipt", din, dout, r, g] => Id.run do
      let some din := din.toNat? | return "bad-op"
      let some dout := dout.toNat? | return "bad-op"
      let some r := r.toNat? | return "bad-op"
      let some g := parseCArr? g | return "bad-op"
      if g.size ≠ din * dout * r then return "bad-op"
      return outMat din din (choiPT din dout r (mat g r))
  | ["pdm", n, v] => Id.run do
      let some n := n.toNat? | return "bad-op"
      let some a := parseCArr? v | return "bad-op"
      if a.size ≠ n then return "bad-op"
      return outMat n n (pureDm (vec a))
  | ["bip", dA, dB, k, q0, q1, c] => Id.run do
      let some dA := dA.toNat? | return "bad-op"
      let some dB := dB.toNat? | return "bad-op"
      let some k := k.toNat? | return "bad-op"
      let some q0 := parseCArr? q0 | return "bad-op"
      let some q1 := parseCArr? q1 | return "bad-op"
      let some c := parseCArr? c | return "bad-op"
      if q0.size ≠ dA * k || q1.size ≠ dB * k || c.size ≠ k || dB = 0 then return "bad-op"
      return outVec (dA * dB) (bipartiteOut dB k (mat q0 k) (mat q1 k) (vec c))
  | ["sep", dA, dB, k, p, a, b] => Id.run do
      let some dA := dA.toNat? | return "bad-op"
      let some dB := dB.toNat? | return "bad-op"
      let some k := k.toNat? | return "bad-op"
      let some p := parseCArr? p | return "bad-op"
      let some a := parseCArr? a | return "bad-op"
      let some b := parseCArr? b | return "bad-op"
      if p.size ≠ k || a.size ≠ k * dA * dA || b.size ≠ k * dB * dB || dB = 0 then return "bad-op"
      return outMat (dA * dB) (dA * dB) (sepMix k dB (vec p) (ten a dA dA) (ten b dB dB))
  | ["sepp", dA, dB, k, p, u, v] => Id.run do
      let some dA := dA.toNat? | return "bad-op"
      let some dB := dB.toNat? | return "bad-op"
      let some k := k.toNat? | return "bad-op"
      let some p := parseCArr? p | return "bad-op"
      let some u := parseCArr? u | return "bad-op"
      let some v := parseCArr? v | return "bad-op"
      if p.size ≠ k || u.size ≠ k * dA || v.size ≠ k * dB || dB = 0 then return "bad-op"
      return outMat (dA * dB) (dA * dB) (sepMixPure k dB (vec p) (mat u dA) (mat v dB))
  | ["onb", no, d, nq, wi, u] => Id.run do
      -- `u`: the captured `to_special_orthogonal_exp` output reshaped to (nq, no-1, d, d)
      let some no := no.toNat? | return "bad-op"
      let some d := d.toNat? | return "bad-op"
      let some nq := nq.toNat? | return "bad-op"
      let some u := parseCArr? u | return "bad-op"
      if no = 0 || d = 0 || nq = 0 || u.size ≠ nq * (no - 1) * d * d || (wi ≠ "0" && wi ≠ "1") then return "bad-op"
      let U : Nat → Nat → Nat → Nat → CFl := fun q o i j => u.getD (((q * (no - 1) + o) * d + i) * d + j) 0
      let D := d ^ nq
      let T := no * D + (if wi = "1" then 1 else 0)
      return ",".intercalate ((List.range T).map fun t => outMat D D (onbFlat d nq (wi == "1") U t))
  | ["hermsym", n, z] => Id.run do
      let some n := n.toNat? | return "bad-op"
      let some z := parseCArr? z | return "bad-op"
      if z.size ≠ n * n then return "bad-op"
      return outMat n n (hermSym (mat z n))
  | ["chan", n, m, z] => Id.run do
      let some n := n.toNat? | return "bad-op"
      let some m := m.toNat? | return "bad-op"
      let some z := parseCArr? z | return "bad-op"
      if m = 0 || z.size ≠ (m - 1) * n * n then return "bad-op"
      return ",".intercalate ((List.range m).map fun t => outMat n n (chanSpace (ten z n n) t))
  | ["qcms", kind, d, rows, t] => Id.run do
      -- `t`: `rows` leading rows of the captured special orthogonal matrix (each of the length the slot needs)
      let some d := d.toNat? | return "bad-op"
      let some rows := rows.toNat? | return "bad-op"
      let some t := parseCArr? t | return "bad-op"
      if d = 0 || rows = 0 || t.size % rows ≠ 0 then return "bad-op"
      let w := t.size / rows
      let N1 := d * (d - 1) / 2
      let S := CFl.gmScalars d
      let some (f : (Nat → CFl) → Gellmann.Mat d CFl) :=
        (match kind with
          | "sym" => if w = N1 + d - 1 then some (qcmsSym S d) else none
          | "anti" => if w = N1 then some (qcmsAnti S d) else none
          | "herm" => if w = d * d - 1 then some (qcmsHerm S d) else none
          | _ => none) | return "bad-op"
      return ",".intercalate ((List.range rows).map fun r =>
        let M := f (fun p => t.getD (r * w + p) 0)
        ",".intercalate ((List.finRange d).flatMap fun i => (List.finRange d).map fun j => cStr (M i j)))
  | ["abk", dA, dB, k, g] => Id.run do
      let some dA := dA.toNat? | return "bad-op"
      let some dB := dB.toNat? | return "bad-op"
      let some k := k.toNat? | return "bad-op"
      let some g := parseCArr? g | return "bad-op"
      let N := dA * dB ^ k
      if k = 0 || dB = 0 || g.size ≠ N * N then return "bad-op"
      return outMat N N (abkSym dA dB k (mat g N))
  | ["f2", nz, no, d] => Id.run do
      if (nz ≠ "0" && nz ≠ "1") || (no ≠ "0" && no ≠ "1") then return "bad-op"
      let some draws := (d.splitOn "|").mapM parseNatList? | return "bad-op"
      match f2Result (nz == "1") (no == "1") draws with
      | none => return "all-draws-rejected"
      | some (r, k) => return s!"{natListStr r} {k}"
  | ["adj", n, d] => Id.run do
      let some n := n.toNat? | return "bad-op"
      let some d := parseNatList? d | return "bad-op"
      if d.length ≠ n * n then return "bad-op"
      let D := fun i j => d.getD (i * n + j) 0
      return natListStr ((List.range n).flatMap fun i => (List.range n).map fun j => adjacency D i j)
  | _ => "bad-op"

def handle (args : List String) : String :=
  match args with
  | "nz" :: rest => handleNz rest
  | ["count"] => toString progs.length
  | ["closed", name] =>
      match findIdx? name with
      | none => "unknown-program"
      | some i => if seedClosed progs.length (progs.getD i .done) then "1" else "0"
  | ["tclosed", name] =>
      match findIdx? name with
      | none => "unknown-program"
      | some i => if tclosed i then "1" else "0"
  | ["norm", kind] => Id.run do
      -- what `normalise` does with None / an int / a generator
      let st0 : St := { heap := [5], gNumpy := 1, gPython := 2, gTorch := 3, entropy := 10, trace := [] }
      let st1 : St := { st0 with entropy := 11 }
      match kind with
      | "none" =>
          let a := normalise lcg .none st0; let b := normalise lcg .none st1
          return if a.2.heap ≠ b.2.heap && a.1 = st0.heap.length then "fresh" else "repeats"
      | "int" =>
          let a := normalise lcg (.int 12345) st0; let b := normalise lcg (.int 12345) st1; let c := normalise lcg (.int 12346) st0
          return if a.2.heap = b.2.heap && a.2.heap ≠ c.2.heap && a.1 = st0.heap.length then "seeded" else "not-a-function-of-the-int"
      | "gen" =>
          let a := normalise lcg (.ref 0) st0
          return if a.1 = 0 && a.2.heap = st0.heap then "same" else "different-object"
      | _ => return "bad-op"
  | ["run", name, k, gN, gP, gT, ent, salt, fuel] => Id.run do
      let some i := findIdx? name | return "unknown-program"
      let some k := k.toNat? | return "bad-op"
      let some gN := gN.toNat? | return "bad-op"
      let some gP := gP.toNat? | return "bad-op"
      let some gT := gT.toNat? | return "bad-op"
      let some ent := ent.toNat? | return "bad-op"
      let some salt := salt.toNat? | return "bad-op"
      let some fuel := fuel.toNat? | return "bad-op"
      let st : St := { heap := [], gNumpy := gN, gPython := gP, gTorch := gT, entropy := ent, trace := [] }
      let out := SeedFlow.run lcg progs (demoOracle salt) fuel i k st
      return s!"{listStr out.heap}|{listStr out.trace}"
  | _ => "bad-op"

end Numqi.Driver.C10
