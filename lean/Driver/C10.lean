/- line-protocol handlers for C10 (seed flow) -/
import Driver.Loop
import NumqiModel.SeedFlow
import NumqiModel.Generated.SeedPrograms

namespace Numqi.Driver.C10
open Numqi Numqi.SeedFlow

def progs : List Prog := Generated.programs
def names : List String := Generated.names

def findIdx? (name : String) : Option Nat :=
  let i := names.idxOf name
  if i < names.length then some i else none

/-- callees of a program -/
def callees : Prog → List Nat
  | .done => []
  | .mkRng _ _ k => callees k
  | .draw _ k => callees k
  | .drawGlobal _ k => callees k
  | .call f _ k => f :: callees k
  | .unknownCall k => callees k
  | .branch _ t e k => callees t ++ callees e ++ callees k
  | .loop _ b k => callees b ++ callees k

/-- programs reachable from `i` through calls (breadth first, `fuel` rounds) -/
def reach : Nat → List Nat → List Nat
  | 0, seen => seen
  | fuel + 1, seen =>
    let next := (seen.flatMap fun j => callees (progs.getD j .done)).filter fun j => !seen.contains j
    if next.isEmpty then seen else reach fuel (seen ++ next.eraseDups)

/-- closed together with everything it calls (what the behaviour of the real function reflects) -/
def tclosed (i : Nat) : Bool := (reach progs.length [i]).all fun j => seedClosed progs.length (progs.getD j .done)

def listStr (l : List Nat) : String := ",".intercalate (l.map toString)

def handle (args : List String) : String :=
  match args with
  | ["count"] => toString progs.length
  | ["closed", name] =>
      match findIdx? name with
      | none => "unknown-program"
      | some i => if seedClosed progs.length (progs.getD i .done) then "1" else "0"
  | ["tclosed", name] =>
      match findIdx? name with
      | none => "unknown-program"
      | some i => if tclosed i then "1" else "0"
  | ["norm", kind] => Id.run do
      -- what `normalise` does with None / an int / a generator
      let st0 : St := { heap := [5], gNumpy := 1, gPython := 2, gTorch := 3, entropy := 10, trace := [] }
      let st1 : St := { st0 with entropy := 11 }
      match kind with
      | "none" =>
          let a := normalise lcg .none st0; let b := normalise lcg .none st1
          return if a.2.heap ≠ b.2.heap && a.1 = st0.heap.length then "fresh" else "repeats"
      | "int" =>
          let a := normalise lcg (.int 12345) st0; let b := normalise lcg (.int 12345) st1; let c := normalise lcg (.int 12346) st0
          return if a.2.heap = b.2.heap && a.2.heap ≠ c.2.heap && a.1 = st0.heap.length then "seeded" else "not-a-function-of-the-int"
      | "gen" =>
          let a := normalise lcg (.ref 0) st0
          return if a.1 = 0 && a.2.heap = st0.heap then "same" else "different-object"
      | _ => return "bad-op"
  | ["run", name, k, gN, gP, gT, ent, salt, fuel] => Id.run do
      let some i := findIdx? name | return "unknown-program"
      let some k := k.toNat? | return "bad-op"
      let some gN := gN.toNat? | return "bad-op"
      let some gP := gP.toNat? | return "bad-op"
      let some gT := gT.toNat? | return "bad-op"
      let some ent := ent.toNat? | return "bad-op"
      let some salt := salt.toNat? | return "bad-op"
      let some fuel := fuel.toNat? | return "bad-op"
      let st : St := { heap := [], gNumpy := gN, gPython := gP, gTorch := gT, entropy := ent, trace := [] }
      let out := SeedFlow.run lcg progs (demoOracle salt) fuel i k st
      return s!"{listStr out.heap}|{listStr out.trace}"
  | _ => "bad-op"

end Numqi.Driver.C10
