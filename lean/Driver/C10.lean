/- line-protocol handlers for C10 (stub: not built yet) -/
import Driver.Loop

namespace Numqi.Driver.C10

def handle (_args : List String) : String := "bad-op"

end Numqi.Driver.C10
