import Driver.Loop
import Driver.C01

def main : IO Unit := Numqi.Driver.run Numqi.Driver.C01.handle
