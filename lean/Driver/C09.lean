/- line-protocol handlers for C09 (Sp(2n,F2) indexing) -/
import Driver.Loop
import NumqiModel.SpF2

namespace Numqi.Driver.C09
open Numqi Numqi.SpF2

/-- bit string in array order (character `j` = array entry `j`) ↦ packed little-endian -/
def natOfBits (l : List Bool) : Nat :=
  (l.foldr (fun b acc => 2 * acc + b.toNat) 0)

def bitsOfNat (m v : Nat) : List Bool := (List.range m).map fun j => v.testBit j

def vecStr (m v : Nat) : String := bitsStr (bitsOfNat m v)

/-- `"0110"` of exactly `m` characters -/
def parseVec? (m : Nat) (s : String) : Option Nat := do
  let l ← parseBits? s
  if l.length ≠ m then none else some (natOfBits l)

/-- `"0110;1001;…"`: exactly `m` rows of `m` characters -/
def parseMat? (m : Nat) (s : String) : Option (List Nat) := do
  let rows ← (s.splitOn ";").mapM (parseVec? m)
  if rows.length ≠ m then none else some rows

def matStr (m : Nat) (M : List Nat) : String := ";".intercalate (M.map (vecStr m))

def pairsOfFlat : List Nat → Option (List (Nat × Nat))
  | [] => some []
  | a :: b :: rest => do let r ← pairsOfFlat rest; pure ((a, b) :: r)
  | _ => none

def flatOfPairs (t : List (Nat × Nat)) : List Nat := t.flatMap fun p => [p.1, p.2]

def handle (args : List String) : String :=
  match args with
  | ["ip", n, v, w] => Id.run do
      let some n := n.toNat? | return "bad-op"
      let some v := parseVec? (2 * n) v | return "bad-op"
      let some w := parseVec? (2 * n) w | return "bad-op"
      return if ip n v w then "1" else "0"
  | ["tv", n, x, hs] => Id.run do
      let some n := n.toNat? | return "bad-op"
      let some x := parseVec? (2 * n) x | return "bad-op"
      let some hs := (if hs = "-" then some [] else (hs.splitOn ";").mapM (parseVec? (2 * n))) | return "bad-op"
      return vecStr (2 * n) (tvs n x hs)
  | ["tvb", n, _shape, rows, hs] => Id.run do
      -- batched transvection: `rows` = the array flattened to its rows (any number ≥ 1), `_shape` only informs the harness
      let some n := n.toNat? | return "bad-op"
      let some rows := (rows.splitOn ";").mapM (parseVec? (2 * n)) | return "bad-op"
      let some hs := (if hs = "-" then some [] else (hs.splitOn ";").mapM (parseVec? (2 * n))) | return "bad-op"
      return ";".intercalate ((tvsBatch n rows hs).map (vecStr (2 * n)))
  | ["ipb", n, _shape, rows, w] => Id.run do
      let some n := n.toNat? | return "bad-op"
      let some rows := (rows.splitOn ";").mapM (parseVec? (2 * n)) | return "bad-op"
      let some w := parseVec? (2 * n) w | return "bad-op"
      return bitsStr (ipBatch n rows w)
  | ["find", n, v, w] => Id.run do
      let some n := n.toNat? | return "bad-op"
      let some v := parseVec? (2 * n) v | return "bad-op"
      let some w := parseVec? (2 * n) w | return "bad-op"
      match findTransvection n v w with
      | none => return "error:assert"
      | some (h0, h1) => return s!"{vecStr (2 * n) h0} {vecStr (2 * n) h1}"
  | ["from", n, t] => Id.run do
      let some n := n.toNat? | return "bad-op"
      let some t := parseNatList? t | return "bad-op"
      let some t := pairsOfFlat t | return "bad-op"
      if n = 0 || t.length ≠ n || !inRange t then return "bad-op"
      return matStr (2 * n) (fromIntTuple t)
  | ["randsp", n, t] => Id.run do
      -- `rand_SpF2(n)` on the scripted raw draws `t` (each below its base, as `randint(0, base-1)` guarantees)
      let some n := n.toNat? | return "bad-op"
      let some t := parseNatList? t | return "bad-op"
      let some t := pairsOfFlat t | return "bad-op"
      if n = 0 || t.length ≠ n || !inRange t then return "bad-op"
      return matStr (2 * n) (randSpF2 t)
  | ["to", n, M] => Id.run do
      let some n := n.toNat? | return "bad-op"
      if n = 0 then return "bad-op"
      let some M := parseMat? (2 * n) M | return "bad-op"
      match toIntTuple n M with
      | none => return "error:assert"
      | some t => return natListStr (flatOfPairs t)
  | ["inv", n, M] => Id.run do
      let some n := n.toNat? | return "bad-op"
      if n = 0 then return "bad-op"
      let some M := parseMat? (2 * n) M | return "bad-op"
      return matStr (2 * n) (inverse n M)
  | ["issp", n, M] => Id.run do
      let some n := n.toNat? | return "bad-op"
      if n = 0 then return "bad-op"
      let some M := parseMat? (2 * n) M | return "bad-op"
      return if isSp n M then "1" else "0"
  | ["mul", n, A, B] => Id.run do
      let some n := n.toNat? | return "bad-op"
      if n = 0 then return "bad-op"
      let some A := parseMat? (2 * n) A | return "bad-op"
      let some B := parseMat? (2 * n) B | return "bad-op"
      return matStr (2 * n) (matMul (2 * n) A B)
  | ["i2b", n, i] => Id.run do
      let some n := n.toNat? | return "bad-op"
      let some i := i.toNat? | return "bad-op"
      match intToBitarray i n with
      | none => return "error:OverflowError"
      | some b => return (if b.isEmpty then "-" else bitsStr b)
  | ["b2i", n, bits] => Id.run do
      let some n := n.toNat? | return "bad-op"
      let some b := (if bits = "-" then some [] else parseBits? bits) | return "bad-op"
      if b.length ≠ n then return "bad-op"
      return toString (bitarrayToInt b)
  | ["num", n, kind] => Id.run do
      let some n := n.toNat? | return "bad-op"
      if n = 0 then return "error:assert"
      match kind.toLower with   -- `kind = str(kind).lower()` (`spf2.py:37`)
      | "base" => return natListStr (flatOfPairs (basePairs n))
      | "order" => return toString (order n)
      | "coset" => return natListStr (cosetNumbers n)
      | _ => return "error:assert"
  | _ => "bad-op"

end Numqi.Driver.C09
