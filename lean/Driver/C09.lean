/- line-protocol handlers for C09 (stub: not built yet) -/
import Driver.Loop

namespace Numqi.Driver.C09

def handle (_args : List String) : String := "bad-op"

end Numqi.Driver.C09
