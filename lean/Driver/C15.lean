/- line-protocol handlers for C15 (SU(2)/SO(3) conversions, angular momentum, spin-j matrices).

Floats cross the protocol as binary64 bit patterns (decimal integers); exact rationals as `p/q`. -/
import Driver.Loop
import NumqiModel.Lie

namespace Numqi.Driver.C15
open Numqi Numqi.Lie

def fOfBits? (s : String) : Option Float := s.toNat?.bind fun n =>
  if n < 2^64 then some (Float.ofBits (UInt64.ofNat n)) else none
def bitsOfF (x : Float) : String := toString x.toBits.toNat
def fListStr (l : List Float) : String := ";".intercalate (l.map bitsOfF)
def cxListStr (l : List (Cx Float)) : String := ";".intercalate (l.map fun z => s!"{bitsOfF z.re},{bitsOfF z.im}")

def rat? (s : String) : Option Rat :=
  match s.splitOn "/" with
  | [p, q] => do
      let p ← p.toInt?; let q ← q.toNat?
      if q = 0 then none else some ((p : Rat) / (q : Rat))
  | [p] => do let p ← p.toInt?; pure (p : Rat)
  | _ => none
def ratStr (r : Rat) : String := s!"{r.num}/{r.den}"

def branchStr : Branch → String
  | .zero => "zero" | .pi => "pi" | .generic => "generic"

def half : Float := 0.5

instance : Inhabited (Cx Float) := ⟨⟨0, 0⟩⟩

def handle (args : List String) : String :=
  match args with
  | ["a2so3", a, b, g] => Id.run do
      let some a := fOfBits? a | return "bad-op"
      let some b := fOfBits? b | return "bad-op"
      let some g := fOfBits? g | return "bad-op"
      return fListStr (angleToSO3 a b g).toList
  | ["a2su2", a, b, g] => Id.run do
      let some a := fOfBits? a | return "bad-op"
      let some b := fOfBits? b | return "bad-op"
      let some g := fOfBits? g | return "bad-op"
      return cxListStr (angleToSU2 half a b g).toList
  | ["su2so3q", ar, ai, br, bi] => Id.run do
      -- exact: U = [[a, b], [-conj b, conj a]] with rational a, b
      let some ar := rat? ar | return "bad-op"
      let some ai := rat? ai | return "bad-op"
      let some br := rat? br | return "bad-op"
      let some bi := rat? bi | return "bad-op"
      let m := su2ToSO3cx ((1 : Rat) / 2) ⟨ar, ai⟩ ⟨br, bi⟩
      let im0 := m.toList.all fun z => z.im == 0
      return s!"{";".intercalate (m.toList.map fun z => ratStr z.re)} {if im0 then "real" else "complex"}"
  | ["su2mulq", ar, ai, br, bi, cr, ci, dr, di] => Id.run do
      let some ar := rat? ar | return "bad-op"
      let some ai := rat? ai | return "bad-op"
      let some br := rat? br | return "bad-op"
      let some bi := rat? bi | return "bad-op"
      let some cr := rat? cr | return "bad-op"
      let some ci := rat? ci | return "bad-op"
      let some dr := rat? dr | return "bad-op"
      let some di := rat? di | return "bad-op"
      let a : Cx Rat := ⟨ar, ai⟩; let b : Cx Rat := ⟨br, bi⟩
      let c : Cx Rat := ⟨cr, ci⟩; let d : Cx Rat := ⟨dr, di⟩
      let x := su2MulA a b c d; let y := su2MulB a b c d
      return s!"{ratStr x.re} {ratStr x.im} {ratStr y.re} {ratStr y.im}"
  | ["so3ang", x00, x01, x02, x10, x11, x12, x20, x21, x22, eps] => Id.run do
      let some l := [x00, x01, x02, x10, x11, x12, x20, x21, x22, eps].mapM fOfBits? | return "bad-op"
      match l with
      | [x00, x01, x02, x10, x11, x12, x20, x21, x22, eps] =>
        let r := mk3 x00 x01 x02 x10 x11 x12 x20 x21 x22
        let (a, b, g) := so3ToAngle half r eps
        return s!"{branchStr (branchOf (Trig.acos (clip1 x22)) eps)} {fListStr [a, b, g]}"
      | _ => return "bad-op"
  | ["so3su2", x00, x01, x02, x10, x11, x12, x20, x21, x22, eps] => Id.run do
      let some l := [x00, x01, x02, x10, x11, x12, x20, x21, x22, eps].mapM fOfBits? | return "bad-op"
      match l with
      | [x00, x01, x02, x10, x11, x12, x20, x21, x22, eps] =>
        let r := mk3 x00 x01 x02 x10 x11 x12 x20 x21 x22
        return cxListStr (so3ToSU2 half r eps).toList
      | _ => return "bad-op"
  | ["su2ang", ar, ai, br, bi, eps] => Id.run do
      let some l := [ar, ai, br, bi, eps].mapM fOfBits? | return "bad-op"
      match l with
      | [ar, ai, br, bi, eps] =>
        let a : Cx Float := ⟨ar, ai⟩; let b : Cx Float := ⟨br, bi⟩
        let x22 := ((su2Entries7 half a b).map Cx.re).getD 6 0
        let (al, be, ga) := su2ToAngle half a b eps
        return s!"{branchStr (branchOf (Trig.acos (clip1 x22)) eps)} {fListStr [al, be, ga]}"
      | _ => return "bad-op"
  | ["su2so3f", ar, ai, br, bi] => Id.run do
      let some l := [ar, ai, br, bi].mapM fOfBits? | return "bad-op"
      match l with
      | [ar, ai, br, bi] => return fListStr (su2ToSO3 half (⟨ar, ai⟩ : Cx Float) ⟨br, bi⟩).toList
      | _ => return "bad-op"
  | ["jops", j2] => Id.run do
      let some j2 := j2.toNat? | return "bad-op"
      if j2 > 64 then return "bad-op"
      let ofNat : Nat → Cx Float := fun n => ⟨n.toFloat, 0⟩
      let sq : Nat → Cx Float := fun n => ⟨Float.sqrt n.toFloat, 0⟩
      let h : Cx Float := ⟨0.5, 0⟩
      let I : Cx Float := ⟨0, 1⟩
      let idx := List.range (j2 + 1)
      -- j2 = 0: the implementation returns the 1×1 zero matrix for all three (same formulas)
      let jx := idx.flatMap fun i => idx.map fun k => jxEntry h sq j2 i k
      let jy := idx.flatMap fun i => idx.map fun k => jyEntry I h sq j2 i k
      let jz := idx.flatMap fun i => idx.map fun k => jzEntry h ofNat j2 i k
      return s!"{cxListStr jx} {cxListStr jy} {cxListStr jz}"
  | ["irrep", j2, a, b, g] => Id.run do
      let some j2 := j2.toNat? | return "bad-op"
      if j2 > 40 then return "bad-op"
      let some a := fOfBits? a | return "bad-op"
      let some b := fOfBits? b | return "bad-op"
      let some g := fOfBits? g | return "bad-op"
      let idx := List.range (j2 + 1)
      return cxListStr (idx.flatMap fun i => idx.map fun k => su2Irrep j2 a b g i k)
  | ["irrepcs", j2, a, b, g] => Id.run do
      -- the same matrix from the half-angle data, and as Sym^{j2} of angle_to_su2 (both must agree with get_su2_irrep)
      let some j2 := j2.toNat? | return "bad-op"
      if j2 > 40 then return "bad-op"
      let some a := fOfBits? a | return "bad-op"
      let some b := fOfBits? b | return "bad-op"
      let some g := fOfBits? g | return "bad-op"
      let sq : Nat → Float := fun n => Float.sqrt n.toFloat
      let cb := Float.cos (half * b); let sb := Float.sin (half * b)
      let p : Cx Float := ⟨Float.cos (half * (a + g)), Float.sin (half * (a + g))⟩
      let m : Cx Float := ⟨Float.cos (half * (a - g)), Float.sin (half * (a - g))⟩
      let U := angleToSU2cs cb sb p m
      let idx := List.range (j2 + 1)
      let e1 := idx.flatMap fun i => idx.map fun k => irrepCS sq Nat.toFloat j2 cb sb p m i k
      let e2 := idx.flatMap fun i => idx.map fun k => symD sq Nat.toFloat j2 (U 0 0) (U 0 1) (U 1 0) (U 1 1) i k
      return s!"{cxListStr e1} {cxListStr e2}"
  | ["cg", j1, j2] => Id.run do
      let some j1 := j1.toNat? | return "bad-op"
      let some j2 := j2.toNat? | return "bad-op"
      if j1 + j2 > 24 then return "bad-op"
      let lo := if j1 ≥ j2 then j1 - j2 else j2 - j1
      let js := (List.range (j1 + j2 + 1)).filter fun j => j ≥ lo && (j - lo) % 2 == 0
      return " ".intercalate (js.map fun j => s!"{j}|" ++ ";".intercalate ((cgTable j1 j2 j).map fun e => s!"{e.1}:{ratStr e.2}"))
  | ["ito", S] => Id.run do
      let some S := S.toNat? | return "bad-op"
      if S < 1 then return "error:assert"
      if S > 10 then return "bad-op"
      return " ".intercalate ((List.range (S + 1)).map fun k =>
        s!"{2 * k}|" ++ ";".intercalate ((tensorOpTable S (2 * k)).map fun e => s!"{e.1}:{ratStr e.2}"))
  | ["rot2", m, n] => Id.run do
      let some m := m.toInt? | return "bad-op"
      let some n := n.toInt? | return "bad-op"
      if m = 0 || n = 0 || m.natAbs = n.natAbs then return "error:assert"
      return ";".intercalate ((rationalOrthogonal2 m n).map ratStr)
  | _ => "bad-op"

end Numqi.Driver.C15
