/- line-protocol handlers for C15 (stub: not built yet) -/
import Driver.Loop

namespace Numqi.Driver.C15

def handle (_args : List String) : String := "bad-op"

end Numqi.Driver.C15
