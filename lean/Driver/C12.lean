/- line-protocol handlers for C12 (stub: not built yet) -/
import Driver.Loop

namespace Numqi.Driver.C12

def handle (_args : List String) : String := "bad-op"

end Numqi.Driver.C12
