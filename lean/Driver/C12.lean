/- line-protocol handlers for C12 (channel representations) -/
import Driver.Loop
import NumqiModel.Channel

namespace Numqi.Driver.C12
open Numqi Numqi.Channel Numqi.Gellmann

def mat (cols : Nat) (l : Array GInt) : Nat → Nat → GInt := fun x y => l.getD (x * cols + y) 0
def kraus (dout din : Nat) (l : Array GInt) : Nat → Nat → Nat → GInt := fun s a i => l.getD ((s * dout + a) * din + i) 0
def arr? (s : String) : Option (Array GInt) := (parseGIntList? s).map List.toArray
def flat (rows cols : Nat) (f : Nat → Nat → GInt) : String :=
  gintListStr ((List.range rows).flatMap fun x => (List.range cols).map fun y => f x y)

def isqrt? (n : Int) : Option Int :=
  if n < 0 then none else
    let r := Nat.sqrt n.toNat
    if r * r = n.toNat then some (Int.ofNat r) else none

def qiListStr (l : List QI) : String := ";".intercalate (l.map QI.toStr)
def ofRat (r : Rat) : QI := ⟨r, 0⟩

def handle2 (op din dout m rho : String) : String := Id.run do
  -- apc / aps
  let some dout := dout.toNat? | return "bad-op"
  let some din := din.toNat? | return "bad-op"
  let some l := arr? m | return "bad-op"
  let some r := arr? rho | return "bad-op"
  if r.size ≠ din * din then return "bad-op"
  if op = "apc" then
    if l.size ≠ (din * dout) * (din * dout) then return "bad-op"
    return flat dout dout (applyChoi din dout (mat (din * dout) l) (mat din r))
  if op = "aps" then
    if l.size ≠ (dout * dout) * (din * din) then return "bad-op"
    return flat dout dout (applySuper din dout (mat (din * din) l) (mat din r))
  return "bad-op"

def handleC2k (din dout evl evc : String) : String := Id.run do
  -- choi_op_to_kraus_op after an `eigh` that returned the integer data (evl ascending, evc columns)
  let some dout := dout.toNat? | return "bad-op"
  let some din := din.toNat? | return "bad-op"
  let some evl := parseIntList? evl | return "bad-op"
  let some v := arr? evc | return "bad-op"
  let n := din * dout
  if evl.length ≠ n || v.size ≠ n * n then return "bad-op"
  let n0 := cutCount evl
  let some ws := (evl.map fun x => if x ≤ 0 then some 0 else isqrt? x).mapM id | return "bad-op"
  let wA := ws.toArray
  let w : Nat → GInt := fun k => GInt.ofInt (wA.getD k 0)
  let K := choiToKraus dout n0 (mat n v) w
  let nk := n - n0
  return s!"{nk}|" ++ gintListStr ((List.range nk).flatMap fun s => (List.range dout).flatMap fun a =>
    (List.range din).map fun i => K s a i)


def parseFloats? (s : String) : Option (List Float) :=
  if s = "-" || s = "" then some [] else
    (s.splitOn ";").mapM fun t => (t.toNat?).map fun b => Float.ofBits b.toUInt64

/-- the Kraus block of `c2k` / `s2k` / `hf2k`: cut, integer square roots, reshape/transpose (model `choiToKraus`, `cutCount`) -/
def krausBlock (din dout : Nat) (evl : List Int) (v : Array GInt) : Option String := do
  let n := din * dout
  if evl.length ≠ n || v.size ≠ n * n then none
  let n0 := cutCount evl
  let ws ← (evl.map fun x => if x ≤ 0 then some 0 else isqrt? x).mapM id
  let wA := ws.toArray
  let w : Nat → GInt := fun k => GInt.ofInt (wA.getD k 0)
  let K := choiToKraus dout n0 (mat n v) w
  let nk := n - n0
  pure (s!"{nk}|" ++ gintListStr ((List.range nk).flatMap fun s => (List.range dout).flatMap fun a =>
    (List.range din).map fun i => K s a i))

/-- `super_op_to_kraus_op(S)` / `hf_channel_to_kraus_op(apply_choi_op(C,·), din)` with an `eigh` that returned integer data:
answers `<matrix handed to eigh>|<nk>|<kraus>`; the matrix handed to `eigh` is `superToChoi din dout S` -/
def handleS2k (fromMap : Bool) (din dout m evl evc : String) : String := Id.run do
  let some dout := dout.toNat? | return "bad-op"
  let some din := din.toNat? | return "bad-op"
  let some l := arr? m | return "bad-op"
  let some evl := parseIntList? evl | return "bad-op"
  let some v := arr? evc | return "bad-op"
  let S : Nat → Nat → GInt :=
    if fromMap then superOfMap din dout (applyChoi din dout (mat (din * dout) l)) else mat (din * din) l
  if fromMap && l.size ≠ (din * dout) * (din * dout) then return "bad-op"
  if !fromMap && l.size ≠ (dout * dout) * (din * din) then return "bad-op"
  let some kb := krausBlock din dout evl v | return "bad-op"
  return flat (din * dout) (din * dout) (superToChoi din dout S) ++ "|" ++ kb

/-- binary64 complex numbers with numpy's product `(ar·br − ai·bi, ar·bi + ai·br)` -/
structure CF where
  re : Float
  im : Float

instance : Zero CF := ⟨⟨0, 0⟩⟩
instance : Add CF := ⟨fun a b => ⟨a.re + b.re, a.im + b.im⟩⟩
instance : Mul CF := ⟨fun a b => ⟨a.re * b.re - a.im * b.im, a.re * b.im + a.im * b.re⟩⟩
instance : Conj CF := ⟨fun a => ⟨a.re, -a.im⟩⟩

/-- `c2kf din dout <eps bits> <evl bits> <evc re,im bit pairs>`: the part of `choi_op_to_kraus_op` after its `eigh` call, on the
binary64 data the real `eigh` returned: `N0 = (EVL < zero_eps).sum()` (`cutCountBelow`), `EVC[:,N0:]*sqrt(EVL[N0:])`, reshape/transpose
(`choiToKraus`).  Output: `nk|re,im;…` as bit patterns with `-0.0` normalised to `0.0` -/
def handleC2kf (din dout eps evl evc : String) : String := Id.run do
  let some dout := dout.toNat? | return "bad-op"
  let some din := din.toNat? | return "bad-op"
  let some e := eps.toNat? | return "bad-op"
  let eps := Float.ofBits e.toUInt64
  let some evl := parseFloats? evl | return "bad-op"
  let some vc := (if evc = "-" || evc = "" then some [] else (evc.splitOn ";").mapM fun t => match t.splitOn "," with
    | [a, b] => do let a ← a.toNat?; let b ← b.toNat?; pure (CF.mk (Float.ofBits a.toUInt64) (Float.ofBits b.toUInt64))
    | _ => none) | return "bad-op"
  let n := din * dout
  if evl.length ≠ n || vc.length ≠ n * n then return "bad-op"
  let n0 := cutCountBelow (fun x e => x < e) eps evl
  let eA := evl.toArray; let vA := vc.toArray
  let V : Nat → Nat → CF := fun x y => vA.getD (x * n + y) 0
  let w : Nat → CF := fun k => ⟨Float.sqrt (eA.getD k 0), 0⟩
  let K := choiToKraus dout n0 V w
  let nk := n - n0
  let nz (x : Float) : Float := x + 0.0
  return s!"{nk}|" ++ ";".intercalate ((List.range nk).flatMap fun s => (List.range dout).flatMap fun a =>
    (List.range din).map fun i => let z := K s a i; s!"{(nz z.re).toBits},{(nz z.im).toBits}")

/-- `choi_op_to_bloch_map` on a Gaussian-integer Choi operator, scalars = the binary64 square roots taken exactly;
output `matA | vecb` as exact rationals (row-major).  Calls the model constants `blochA` / `blochB` (the subjects of
`C12.bloch_map_affine`) entry by entry — no re-implementation. -/
def handleBloch (din dout : Nat) (l : Array GInt) : String := Id.run do
  if l.size ≠ (din * dout) * (din * dout) || din = 0 || dout = 0 then return "bad-op"
  let Sin := floatScalars din
  let Sout := floatScalars dout
  let C : Nat → Nat → QI := fun x y => QI.ofGInt (l.getD (x * (din * dout) + y) 0)
  let matA := (List.range (dout * dout - 1)).flatMap fun ν => (List.range (din * din - 1)).map fun μ =>
    blochA Sin Sout din dout C ν μ
  let vecb := (List.range (dout * dout - 1)).map fun ν => blochB Sin Sout din dout C ν
  return s!"{qiListStr matA}|{qiListStr vecb}"

/-- binary64 instance of the three analytic operations (libm `log`, IEEE `sqrt`, `np.maximum` on non-NaN input) -/
instance : Analytic Float := ⟨Float.log, Float.sqrt, fun a b => if a < b then b else a⟩
/-- `np.abs`, `EVL**alpha` (libm `pow`), `/` -/
instance : SpecOps Float := ⟨Float.abs, Float.pow, fun a b => a / b⟩


/-- `spec ent <eps> <p>`, `spec fid <p> <q>`, `spec rel <eps> <p> <q>`; floats as bit patterns in and out -/
def handleSpec (args : List String) : String :=
  match args with
  | ["ent", eps, p] => Id.run do
      let some eps := parseFloats? eps | return "bad-op"
      let some p := parseFloats? p | return "bad-op"
      let [e] := eps | return "bad-op"
      return toString (entropySpec e p).toBits
  | ["fid", p, q] => Id.run do
      let some p := parseFloats? p | return "bad-op"
      let some q := parseFloats? q | return "bad-op"
      if p.length ≠ q.length then return "bad-op"
      return toString (fidelitySpec p q).toBits
  | ["rel", eps, p, q] => Id.run do
      let some eps := parseFloats? eps | return "bad-op"
      let some p := parseFloats? p | return "bad-op"
      let some q := parseFloats? q | return "bad-op"
      let [e] := eps | return "bad-op"
      if p.length ≠ q.length then return "bad-op"
      return toString (relEntropySpec e p q).toBits
  | ["td", p, q] => Id.run do
      let some p := parseFloats? p | return "bad-op"
      let some q := parseFloats? q | return "bad-op"
      if p.length ≠ q.length then return "bad-op"
      return toString (traceDistComm p q).toBits
  | ["tdev", evl] => Id.run do
      -- the eigenvalues of rho - sigma as returned by eigvalsh, passed as data
      let some evl := parseFloats? evl | return "bad-op"
      return toString (traceDistSpec evl).toBits
  | ["renyi", alpha, p] => Id.run do
      let some a := parseFloats? alpha | return "bad-op"
      let some p := parseFloats? p | return "bad-op"
      let [a] := a | return "bad-op"
      return toString (renyiSpec a p).toBits
  | _ => "bad-op"

def handle (args : List String) : String :=
  match args with
  | "spec" :: rest => handleSpec rest
  | ["c2kf", din, dout, eps, evl, evc] => handleC2kf din dout eps evl evc
  | ["s2k", din, dout, m, evl, evc] => handleS2k false din dout m evl evc
  | ["hf2k", din, dout, m, evl, evc] => handleS2k true din dout m evl evc
  | ["pur", n, rho] => Id.run do
      let some n := n.toNat? | return "bad-op"
      let some r := arr? rho | return "bad-op"
      if r.size ≠ n * n then return "bad-op"
      return (purity n (mat n r)).toStr
  | [op, n, dout, din, k] => Id.run do
      if op = "apc" || op = "aps" then return handle2 op n dout din k
      if op = "c2k" then return handleC2k n dout din k
      -- k2c / k2s
      let some n := n.toNat? | return "bad-op"
      let some dout := dout.toNat? | return "bad-op"
      let some din := din.toNat? | return "bad-op"
      let some l := arr? k | return "bad-op"
      if l.size ≠ n * dout * din then return "bad-op"
      let K := kraus dout din l
      if op = "k2c" then return flat (din * dout) (din * dout) (krausToChoi n dout K)
      if op = "k2s" then return flat (dout * dout) (din * din) (krausToSuper n din dout K)
      return "bad-op"
  | [op, din, dout, m] => Id.run do
      -- c2s / s2c / hf2c
      let some dout := dout.toNat? | return "bad-op"
      let some din := din.toNat? | return "bad-op"
      let some l := arr? m | return "bad-op"
      if op = "c2s" then
        if l.size ≠ (din * dout) * (din * dout) then return "bad-op"
        return flat (dout * dout) (din * din) (choiToSuper din dout (mat (din * dout) l))
      if op = "s2c" then
        if l.size ≠ (dout * dout) * (din * din) then return "bad-op"
        return flat (din * dout) (din * dout) (superToChoi din dout (mat (din * din) l))
      if op = "hf2s" then
        if l.size ≠ (din * dout) * (din * dout) then return "bad-op"
        return flat (dout * dout) (din * din) (superOfMap din dout (applyChoi din dout (mat (din * dout) l)))
      if op = "bloch" then return handleBloch din dout l
      if op = "hf2c" then
        if l.size ≠ (din * dout) * (din * dout) then return "bad-op"
        return flat (din * dout) (din * dout) (choiOfMap dout (applyChoi din dout (mat (din * dout) l)))
      return "bad-op"
  | ["apk", n, dout, din, k, rho] => Id.run do
      let some n := n.toNat? | return "bad-op"
      let some dout := dout.toNat? | return "bad-op"
      let some din := din.toNat? | return "bad-op"
      let some l := arr? k | return "bad-op"
      let some r := arr? rho | return "bad-op"
      if l.size ≠ n * dout * din || r.size ≠ din * din then return "bad-op"
      return flat dout dout (applyKraus n din (kraus dout din l) (mat din r))
  | [kind, c0, c1] => Id.run do
      -- noise channels; c0, c1 are binary64 bit patterns of the two square roots
      let some c0 := c0.toNat? | return "bad-op"
      let some c1 := c1.toNat? | return "bad-op"
      let q0 := ofRat (ratOfFloatBits c0)
      let q1 := ofRat (ratOfFloatBits c1)
      let im : QI := ⟨0, 1⟩
      let out (n : Nat) (K : Nat → Nat → Nat → QI) : String :=
        qiListStr ((List.range n).flatMap fun s => (List.range 2).flatMap fun a => (List.range 2).map fun i => K s a i)
      if kind = "deph" then return out 2 (dephasingKraus q0 q1)
      if kind = "depol" then return out 4 (depolarizingKraus im q0 q1)
      if kind = "ampd" then return out 2 (amplitudeDampingKraus q0 q1)
      return "bad-op"
  | _ => "bad-op"

end Numqi.Driver.C12
