import Driver.Loop
import Driver.C15

def main : IO Unit := Numqi.Driver.run Numqi.Driver.C15.handle
