/-
Line-protocol driver: one operation per line on stdin (`<property-id> <op> <args…>`),
one canonical result line on stdout.  Imports only Mathlib-free model files.
-/
import Driver.C08

open Numqi.Driver

def dispatch (line : String) : String :=
  match (line.trimAscii.toString.splitOn " ").filter (· ≠ "") with
  | "C08" :: rest => C08.handle rest
  | _ => "bad-op"

partial def loop (hin : IO.FS.Stream) (hout : IO.FS.Stream) : IO Unit := do
  let line ← hin.getLine
  if line.isEmpty then return ()
  hout.putStrLn (dispatch line)
  loop hin hout

def main : IO Unit := do
  let hin ← IO.getStdin
  let hout ← IO.getStdout
  loop hin hout
  hout.flush
