import Driver.Loop
import Driver.C11

def main : IO Unit := Numqi.Driver.run Numqi.Driver.C11.handle
