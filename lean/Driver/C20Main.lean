import Driver.Loop
import Driver.C20

def main : IO Unit := Numqi.Driver.run Numqi.Driver.C20.handle
