import Driver.Loop
import Driver.C02

def main : IO Unit := Numqi.Driver.run Numqi.Driver.C02.handle
