/- line-protocol handlers for the wrapper rows of C08 (model: `NumqiModel/PauliWrap.lean`; `rpauli`: `NumqiModel/Clifford.lean`).

Grammar (after the property id):
  `pofindex <n> <i>`            PauliOperator.from_index(i, n)       → `<len> <F2 bits> <letters> <e>` | `error:assert`
  `pofstr <n> <letters> <e>`    PauliOperator.from_str(s, i^e)       → same quadruple
  `pofF2 <n> <bits>`            PauliOperator.from_F2(bits)          → same quadruple | `error:assert` (odd / too short)
  `pstr <n> <bits>`             str(PauliOperator(bits))             → the string, blanks as `_`
  `pgroup <n> str|str_to_index|numpy`  get_pauli_group(n, kind)      → `|`-joined table (n ≤ 3)
  `ofindexns <n> <i>`, `toindexns <n> <2n bits>`   the `with_sign=False` paths
  `rpauli <n> N|H|A <raw bits>` rand_pauli post-processing of the raw draw (as in C07) -/
import Driver.Loop
import NumqiModel.PauliWrap
import NumqiModel.Clifford

namespace Numqi.Driver.C08Wrap
open Numqi Numqi.Pauli

def symsStr (l : List Nat) : String := String.ofList (l.map symChar)
def parseSyms? (s : String) : Option (List Nat) :=
  s.toList.mapM fun c => match c with
    | 'I' => some 0 | 'X' => some 1 | 'Y' => some 2 | 'Z' => some 3 | _ => none

def quad {n : Nat} (p : Pauli n) : String :=
  s!"{p.len} {bitsStr p.toF2List} {if n = 0 then "-" else symsStr p.toStr.1} {p.toStr.2}"

def allBitsMSB : Nat → List (List Bool)
  | 0 => [[]]
  | k + 1 => (allBitsMSB k).map (false :: ·) ++ (allBitsMSB k).map (true :: ·)

def expChar : Option Nat → Char
  | none => '.'
  | some 0 => '0' | some 1 => '1' | some 2 => '2' | some _ => '3'

def handle (args : List String) : String :=
  match args with
  | ["pofindex", n, i] => Id.run do
      let some n := n.toNat? | return "bad-op"
      let some i := i.toInt? | return "bad-op"
      match fromIndex? n i with
      | none => return "error:assert"
      | some p => return quad p
  | ["pofstr", n, s, e] => Id.run do
      let some n := n.toNat? | return "bad-op"
      let some s := parseSyms? s | return "bad-op"
      let some e := e.toNat? | return "bad-op"
      if s.length ≠ n || e ≥ 4 || n = 0 then return "bad-op"
      return quad (fromStr n s e)
  | ["pofF2", _n, bits] => Id.run do
      let some l := (if bits = "-" then some [] else parseBits? bits) | return "bad-op"
      match fromF2? l with
      | none => return "error:assert"
      | some ⟨_, p⟩ => return quad p
  | ["pstr", n, bits] => Id.run do
      let some n := n.toNat? | return "bad-op"
      let some l := parseBits? bits | return "bad-op"
      if l.length ≠ 2 * n + 2 then return "bad-op"
      return (reprStr (ofF2List n l)).map fun c => if c = ' ' then '_' else c
  | ["pgroup", n, kind] => Id.run do
      let some n := n.toNat? | return "bad-op"
      if n = 0 || n > 3 then return "bad-op"
      match kind with
      | "str" => return "|".intercalate ((groupStr n).map symsStr)
      | "str_to_index" => return "|".intercalate ((groupStrToIndex n).map fun p => s!"{symsStr p.1}:{p.2}")
      | "numpy" =>
          let bs := (allBitsMSB n).map (Bits.ofList n)
          return "|".intercalate ((List.range (4 ^ n)).map fun i =>
            String.ofList (bs.flatMap fun b' => bs.map fun b => expChar (groupMatExp n i b' b)))
      | _ => return "error:assert"
  | ["ofindexns", n, i] => Id.run do
      let some n := n.toNat? | return "bad-op"
      let some i := i.toInt? | return "bad-op"
      match ofIndexNoSign? n i with
      | none => return "error:assert"
      | some l => return bitsStr l
  | ["toindexns", n, bits] => Id.run do
      let some n := n.toNat? | return "bad-op"
      let some l := parseBits? bits | return "bad-op"
      if l.length ≠ 2 * n || n = 0 then return "bad-op"
      return toString (toIndexNoSign n l)
  | ["rpauli", n, req, raw] => Id.run do
      let some n := n.toNat? | return "bad-op"
      let some l := parseBits? raw | return "bad-op"
      if l.length ≠ 2 * n + 2 then return "bad-op"
      let some req := (match req with | "N" => some none | "H" => some (some true) | "A" => some (some false) | _ => none) | return "bad-op"
      return bitsStr (Clifford.randPauliPost req (Pauli.ofF2List n l)).toF2List
  | _ => "bad-op"

end Numqi.Driver.C08Wrap
