/- line-protocol handlers for C01 (trivialization maps).
Floats cross the protocol as binary64 bit patterns (decimal `UInt64`), lists `;`-separated, complex entries `re,im`.
`r`/`c` selects the real / complex branch.  The external routines are the textbook implementations of
`Numqi.Manifold.Num`. -/
import Driver.Loop
import NumqiModel.Manifold

namespace Numqi.Driver.C01
open Numqi Numqi.Manifold

def parseFloats? (s : String) : Option (Array Float) :=
  if s = "" || s = "-" then some #[] else
    (s.splitOn ";").foldlM (fun acc t => do let n ← t.toNat?; pure (acc.push (Float.ofBits (UInt64.ofNat n)))) #[]

def parseCF? (s : String) : Option CF :=
  match s.splitOn "," with
  | [a, b] => do let x ← a.toNat?; let y ← b.toNat?; pure ⟨Float.ofBits (UInt64.ofNat x), Float.ofBits (UInt64.ofNat y)⟩
  | _ => none

def parseCFs? (s : String) : Option (Array CF) :=
  if s = "" || s = "-" then some #[] else (s.splitOn ";").foldlM (fun acc t => do let z ← parseCF? t; pure (acc.push z)) #[]

def fstr (x : Float) : String := toString x.toBits.toNat
def cstr (z : CF) : String := s!"{fstr z.re},{fstr z.im}"
def outR (l : List Float) : String := ";".intercalate (l.map fstr)
def outC (l : List CF) : String := ";".intercalate (l.map cstr)

def vecR (n : Nat) (f : Nat → Float) : String := outR ((List.range n).map f)
def vecC (n : Nat) (f : Nat → CF) : String := outC ((List.range n).map f)

def isRC (s : String) : Bool := s = "r" || s = "c"
def flag? (s : String) : Option Bool := if s = "1" then some true else if s = "0" then some false else none

def outM (m n : Nat) (M : NMat CF) : String :=
  outC ((List.range m).flatMap fun i => (List.range n).map fun j => M.get i j)

def handle (args : List String) : String :=
  match args with
  | ["abktoab", d, m] => Id.run do
      -- ABk2localHermitian.to_AB on an integer parameter matrix: exact Gaussian integers
      let some d := d.toNat? | return "bad-op"
      let some m := parseIntList? m | return "bad-op"
      if d = 0 || m.length ≠ d * d then return "bad-op"
      let mA := m.toArray
      let H := ABk.toAB (R := GInt) GInt.I (fun r c => GInt.ofInt (mA.getD (r * d + c) 0))
      return gintListStr ((List.range d).flatMap fun r => (List.range d).map fun c => H r c)
  | ["abk2sum", dimA, dimB, kext, m] => Id.run do
      -- ABk2localHermitian.forward WITHOUT its tables: sum over the B copies of the embedded H_AB (exact Gaussian integers)
      let some dimA := dimA.toNat? | return "bad-op"
      let some dimB := dimB.toNat? | return "bad-op"
      let some kext := kext.toNat? | return "bad-op"
      let some m := parseIntList? m | return "bad-op"
      let d := dimA * dimB
      if dimA = 0 || dimB = 0 then return "bad-op"
      if kext = 0 then return "error:assert"
      if m.length ≠ d * d then return "bad-op"
      let mA := m.toArray
      let n := dimA * dimB ^ kext
      let H := ABk.sumEmbed (R := GInt) GInt.I dimB kext (fun r c => GInt.ofInt (mA.getD (r * d + c) 0))
      return gintListStr ((List.range n).flatMap fun r => (List.range n).map fun c => H r c)
  | ["softplus", t] => Id.run do
      let some θ := parseFloats? t | return "bad-op"
      return vecR θ.size fun i => softplus (θ.getD i 0)
  | ["exp", t] => Id.run do
      let some θ := parseFloats? t | return "bad-op"
      return vecR θ.size fun i => expMap (θ.getD i 0)
  | ["interval", lu, t] => Id.run do
      let some lu := parseFloats? lu | return "bad-op"
      let some θ := parseFloats? t | return "bad-op"
      if lu.size ≠ 2 then return "bad-op"
      return vecR θ.size fun i => openInterval (θ.getD i 0) (lu.getD 0 0) (lu.getD 1 0)
  | [op, rc, t] => Id.run do
      -- vector maps
      if !isRC rc then return "bad-op"
      let some θ := parseFloats? t | return "bad-op"
      let n := θ.size
      let f : Nat → Float := fun i => θ.getD i 0
      if n = 0 then return "bad-op"
      match op with
      | "ball" =>
        if rc = "r" then return vecR n (ballVec n f)
        if n % 2 ≠ 0 then return "bad-op"
        return vecC (n / 2) (pairCx (K := CF) (n / 2) (ballVec n f))
      | "sphq" =>
        if rc = "r" then return vecR n (sphereQuotientVec n f)
        if n % 2 ≠ 0 then return "bad-op"
        return vecC (n / 2) (pairCx (K := CF) (n / 2) (sphereQuotientVec n f))
      | "sphc" =>
        if rc = "r" then return vecR (n + 1) (sphereCoordVec n f)
        if (n + 1) % 2 ≠ 0 then return "bad-op"
        return vecC ((n + 1) / 2) (pairCx (K := CF) ((n + 1) / 2) (sphereCoordVec n f))
      | "softmax" => if rc = "r" then return vecR n (softmaxVec n f) else return "bad-op"
      | "psphere" => if rc = "r" then return vecR n (probSphereVec n f) else return "bad-op"
      | _ => return "bad-op"
  | ["socay", dim, order, rc, t] => Id.run do
      if !isRC rc then return "bad-op"
      let some dim := dim.toNat? | return "bad-op"
      let some order := order.toNat? | return "bad-op"
      let some θ := parseFloats? t | return "bad-op"
      let f : Nat → Float := fun i => θ.getD i 0
      let isReal := rc = "r"
      if dim < 2 || order = 0 then return "bad-op"
      if θ.size ≠ (if isReal then dim * (dim - 1) / 2 else dim * dim - 1) then return "bad-op"
      return outM dim dim (soCayley (K := CF) Num.inv (cfScalars dim) dim order isReal f)
  | ["kraus", din, dout, cr, x] => Id.run do
      let some din := din.toNat? | return "bad-op"
      let some dout := dout.toNat? | return "bad-op"
      let some cr := cr.toNat? | return "bad-op"
      let some x := parseCFs? x | return "bad-op"
      if x.size ≠ cr * dout * din || din = 0 then return "bad-op"
      let X : NMat CF := NMat.ofFn (cr * dout) din fun r c => x.getD (r * din + c) 0
      return outC ((List.range cr).flatMap fun s => (List.range dout).flatMap fun o => (List.range din).map fun i => krausOfStiefel dout X s o i)
  | ["choi", din, dout, cr, x] => Id.run do
      let some din := din.toNat? | return "bad-op"
      let some dout := dout.toNat? | return "bad-op"
      let some cr := cr.toNat? | return "bad-op"
      let some x := parseCFs? x | return "bad-op"
      if x.size ≠ cr * dout * din || din = 0 then return "bad-op"
      let X : NMat CF := NMat.ofFn (cr * dout) din fun r c => x.getD (r * din + c) 0
      let C := choiOfKraus cr (krausOfStiefel dout X)
      return outC ((List.range dout).flatMap fun o => (List.range din).flatMap fun i =>
        (List.range dout).flatMap fun o' => (List.range din).map fun i' => C o i o' i')
  | [op, dim, rank, rc, t] => Id.run do
      if !isRC rc then return "bad-op"
      let some dim := dim.toNat? | return "bad-op"
      let some rank := rank.toNat? | return "bad-op"
      let some θ := parseFloats? t | return "bad-op"
      let f : Nat → Float := fun i => θ.getD i 0
      let isReal := rc = "r"
      if dim = 0 || rank = 0 || rank > dim then return "bad-op"
      let N0 := rank * (2 * dim - rank + 1) / 2
      match op with
      | "psdchol" =>
        if θ.size ≠ (if isReal then N0 else 2 * N0 - rank) then return "bad-op"
        return outM dim dim (psdCholesky (K := CF) dim rank isReal f)
      | "psdens" =>
        if θ.size ≠ (if isReal then rank + dim * rank else rank + 2 * dim * rank) then return "bad-op"
        return outM dim dim (psdEnsemble (K := CF) dim rank isReal f)
      | "stpolar" =>
        if θ.size ≠ (if isReal then dim * rank else 2 * dim * rank) then return "bad-op"
        return outM dim rank (stiefelPolar (K := CF) Num.invSqrt dim rank isReal f)
      | "stqr" =>
        if θ.size ≠ (if isReal then dim * rank else 2 * dim * rank) then return "bad-op"
        return outM dim rank (stiefelQR (K := CF) Num.qrQ dim rank isReal f)
      | "stchol" =>
        let n := dim * rank - rank * (rank + 1) / 2
        if θ.size ≠ (if isReal then n else 2 * n) then return "bad-op"
        return outM dim rank (stiefelCholL (K := CF) Num.cholesky Num.inv dim rank isReal f)
      | _ => return "bad-op"
  | ["steuler", dim, rank, rc, ph, t] => Id.run do
      if !isRC rc then return "bad-op"
      let some dim := dim.toNat? | return "bad-op"
      let some rank := rank.toNat? | return "bad-op"
      let some ph := flag? ph | return "bad-op"
      let some θ := parseFloats? t | return "bad-op"
      let f : Nat → Float := fun i => θ.getD i 0
      let isReal := rc = "r"
      if dim = 0 || rank = 0 || rank > dim then return "bad-op"
      let n := dim * rank - rank * (rank + 1) / 2
      if θ.size ≠ (if isReal then n else if ph then 2 * n + rank else 2 * n) then return "bad-op"
      if isReal && ph then return "bad-op"
      return outM dim rank (stiefelEuler (K := CF) dim rank isReal ph f)
  | ["sym", dim, rc, t0, n1, t] => Id.run do
      if !isRC rc then return "bad-op"
      let some dim := dim.toNat? | return "bad-op"
      let some t0 := flag? t0 | return "bad-op"
      let some n1 := flag? n1 | return "bad-op"
      let some θ := parseFloats? t | return "bad-op"
      let f : Nat → Float := fun i => θ.getD i 0
      let isReal := rc = "r"
      if dim < 2 then return "bad-op"
      let n := (if isReal then dim * (dim + 1) / 2 else dim * dim) - (if t0 then 1 else 0)
      if θ.size ≠ n then return "bad-op"
      return outM dim dim (symmetricMatrix (K := CF) (cfScalars dim) dim isReal t0 n1 f)
  | ["soexp", dim, rc, t] => Id.run do
      if !isRC rc then return "bad-op"
      let some dim := dim.toNat? | return "bad-op"
      let some θ := parseFloats? t | return "bad-op"
      let f : Nat → Float := fun i => θ.getD i 0
      let isReal := rc = "r"
      if dim < 2 then return "bad-op"
      if θ.size ≠ (if isReal then dim * (dim - 1) / 2 else dim * dim - 1) then return "bad-op"
      return outM dim dim (soExp (K := CF) Num.expm (cfScalars dim) dim isReal f)
  | ["stso", dim, rank, rc, meth, t] => Id.run do
      -- Stiefel.forward for method 'so-exp' / 'so-cayley' (Cayley order 2, the default): first `rank` columns of the chart
      if !isRC rc then return "bad-op"
      let some dim := dim.toNat? | return "bad-op"
      let some rank := rank.toNat? | return "bad-op"
      let some θ := parseFloats? t | return "bad-op"
      let f : Nat → Float := fun i => θ.getD i 0
      let isReal := rc = "r"
      if dim < 2 || rank = 0 || rank > dim || (meth ≠ "exp" && meth ≠ "cayley") then return "bad-op"
      if θ.size ≠ (if isReal then dim * (dim - 1) / 2 else dim * dim - 1) then return "bad-op"
      let U := if meth = "exp" then soExp (K := CF) Num.expm (cfScalars dim) dim isReal f
               else soCayley (K := CF) Num.inv (cfScalars dim) dim 2 isReal f
      return outM dim rank (soColumns dim rank U)
  | ["sogen", dim, rc, t] => Id.run do
      if !isRC rc then return "bad-op"
      let some dim := dim.toNat? | return "bad-op"
      let some θ := parseFloats? t | return "bad-op"
      let f : Nat → Float := fun i => θ.getD i 0
      let isReal := rc = "r"
      if dim < 2 then return "bad-op"
      if θ.size ≠ (if isReal then dim * (dim - 1) / 2 else dim * dim - 1) then return "bad-op"
      return outM dim dim (soGenerator (K := CF) (cfScalars dim) dim isReal f)
  | ["sepdm", dA, dB, n, tp, ta, tb] => Id.run do
      let some dA := dA.toNat? | return "bad-op"
      let some dB := dB.toNat? | return "bad-op"
      let some n := n.toNat? | return "bad-op"
      let some tp := parseFloats? tp | return "bad-op"
      let some ta := parseFloats? ta | return "bad-op"
      let some tb := parseFloats? tb | return "bad-op"
      if tp.size ≠ n || ta.size ≠ n * 2 * dA || tb.size ≠ n * 2 * dB || n = 0 then return "bad-op"
      let p : NMat CF := NMat.ofFn 1 n fun _ k => ofReal (softmaxVec n (fun i => tp.getD i 0) k)
      let a : NMat CF := NMat.ofFn n dA fun k i =>
        pairCx (K := CF) dA (sphereQuotientVec (2 * dA) fun q => ta.getD (k * 2 * dA + q) 0) i
      let b : NMat CF := NMat.ofFn n dB fun k i =>
        pairCx (K := CF) dB (sphereQuotientVec (2 * dB) fun q => tb.getD (k * 2 * dB + q) 0) i
      let R := separableDM n (fun k => p.get 0 k) a b
      return outC ((List.range dA).flatMap fun i => (List.range dB).flatMap fun j =>
        (List.range dA).flatMap fun i' => (List.range dB).map fun j' => R i j i' j')
  | ["wprob", meth, w, t] => Id.run do
      let some w := parseFloats? w | return "bad-op"
      let some θ := parseFloats? t | return "bad-op"
      if w.size ≠ θ.size || θ.size = 0 || (meth ≠ "softmax" && meth ≠ "psphere") then return "bad-op"
      let f : Nat → Float := fun i => θ.getD i 0
      let p := if meth = "softmax" then softmaxVec θ.size f else probSphereVec θ.size f
      return vecR θ.size (weightedProb p fun i => w.getD i 0)
  | ["abkh", n, isym, iskew, fac, tsym, tskew] => Id.run do
      -- ABkHermitian.forward on integer parameters: exact Gaussian integers
      let some n := n.toNat? | return "bad-op"
      let some isym := parseNatList? isym | return "bad-op"
      let some iskew := parseNatList? iskew | return "bad-op"
      let some fac := parseIntList? fac | return "bad-op"
      let some tsym := parseIntList? tsym | return "bad-op"
      let some tskew := parseIntList? tskew | return "bad-op"
      if isym.length ≠ n * n || iskew.length ≠ n * n || fac.length ≠ n * n then return "bad-op"
      if isym.any (· ≥ tsym.length) || iskew.any (· > tskew.length) then return "bad-op"
      let a := isym.toArray; let b := iskew.toArray; let f := fac.toArray; let ts := tsym.toArray; let tk := tskew.toArray
      let H := ABk.hermitian (R := GInt) GInt.I (fun r c => a.getD (r * n + c) 0) (fun r c => b.getD (r * n + c) 0)
        (fun r c => GInt.ofInt (f.getD (r * n + c) 0)) (fun q => GInt.ofInt (ts.getD q 0)) (fun q => GInt.ofInt (tk.getD q 0))
      return gintListStr ((List.range n).flatMap fun r => (List.range n).map fun c => H r c)
  | ["abkperm", dimA, dimB, kext, i, j] => Id.run do
      let some dimA := dimA.toNat? | return "bad-op"
      let some dimB := dimB.toNat? | return "bad-op"
      let some kext := kext.toNat? | return "bad-op"
      let some i := i.toNat? | return "bad-op"
      let some j := j.toNat? | return "bad-op"
      if dimA = 0 || dimB = 0 || i ≥ kext || j ≥ kext then return "bad-op"
      return natListStr ((List.range (dimA * dimB ^ kext)).map (ABk.permIndex dimB kext i j))
  | ["abk2", d, n, cs, isx, ck, ikx, m] => Id.run do
      let some d := d.toNat? | return "bad-op"
      let some n := n.toNat? | return "bad-op"
      let some cs := parseIntList? cs | return "bad-op"
      let some isx := parseNatList? isx | return "bad-op"
      let some ck := parseIntList? ck | return "bad-op"
      let some ikx := parseNatList? ikx | return "bad-op"
      let some m := parseIntList? m | return "bad-op"
      let wS := d * (d + 1) / 2
      let wK := d * (d - 1) / 2
      if d = 0 || m.length ≠ d * d || isx.length ≠ n * n || ikx.length ≠ n * n then return "bad-op"
      if cs.length % wS ≠ 0 || (wK > 0 && ck.length % wK ≠ 0) then return "bad-op"
      if isx.any (fun q => (q + 1) * wS > cs.length) || ikx.any (fun q => (q + 1) * wK > ck.length) then return "bad-op"
      let csA := cs.toArray; let ckA := ck.toArray; let isA := isx.toArray; let ikA := ikx.toArray; let mA := m.toArray
      let H := ABk.twoLocal (R := GInt) GInt.I d (fun row q => GInt.ofInt (csA.getD (row * wS + q) 0)) (fun r c => isA.getD (r * n + c) 0)
        (fun row q => GInt.ofInt (ckA.getD (row * wK + q) 0)) (fun r c => ikA.getD (r * n + c) 0) (fun r c => GInt.ofInt (mA.getD (r * d + c) 0))
      return gintListStr ((List.range n).flatMap fun r => (List.range n).map fun c => H r c)
  | _ => "bad-op"

end Numqi.Driver.C01
