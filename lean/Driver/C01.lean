/- line-protocol handlers for C01 (stub: not built yet) -/
import Driver.Loop

namespace Numqi.Driver.C01

def handle (_args : List String) : String := "bad-op"

end Numqi.Driver.C01
