import Driver.Loop
import Driver.C10

def main : IO Unit := Numqi.Driver.run Numqi.Driver.C10.handle
