/- line-protocol handlers for C19 (quantum codes: encoders, stabilizers, Knill–Laflamme, error sets) -/
import Driver.Loop
import NumqiModel.Generated.QecCircuits

namespace Numqi.Driver.C19
open Numqi Numqi.Qec

def symChar (s : Nat) : Char := "IXYZ".toList.getD s '?'
def symsStr (l : List Nat) : String := String.ofList (l.map symChar)

def parseSyms? (s : String) : Option (List Nat) :=
  s.toList.mapM fun c => match c with
    | 'I' => some 0 | 'X' => some 1 | 'Y' => some 2 | 'Z' => some 3 | _ => none

/-- `h,0` / `cx,1,2` / `unknown` -/
def parseGate? (s : String) : Option Gate :=
  match s.splitOn "," with
  | ["h", q] => q.toNat?.map .h
  | ["x", q] => q.toNat?.map .x
  | ["y", q] => q.toNat?.map .y
  | ["z", q] => q.toNat?.map .z
  | ["s", q] => q.toNat?.map .s
  | ["cx", c, t] => do pure (.cx (← c.toNat?) (← t.toNat?))
  | ["cy", c, t] => do pure (.cy (← c.toNat?) (← t.toNat?))
  | ["cz", c, t] => do pure (.cz (← c.toNat?) (← t.toNat?))
  | ["unknown"] => some .unknown
  | _ => none

def parseGates? (s : String) : Option (List Gate) :=
  if s = "-" then some [] else (s.splitOn ";").mapM parseGate?

def findCode (name : String) : Option Code := (Generated.allCodes.find? fun nc => nc.1 == name).map (·.2)

/-- operator as `e:SYMS` with the scalar `i^e` in front of the tensor product of Pauli matrices -/
def mpStr (n : Nat) (p : MP) : String := s!"{p.strPhase n}:{symsStr (p.syms n)}"

def ampsStr (a : Array GInt) : String := ";".intercalate (a.toList.map GInt.toStr)

def sparseStr (n : Nat) (e : List (Nat × Nat)) : String := symsStr (sparseToSyms n e)

def allOk (n : Nat) (gs : List Gate) : Bool := gs.all (gateOk n)

/-- all bit strings of length n in lexicographic (most significant first) order: numpy's flat index order -/
def allBitsMSB : Nat → List (List Bool)
  | 0 => [[]]
  | k + 1 => (allBitsMSB k).map (false :: ·) ++ (allBitsMSB k).map (true :: ·)

def tok' (g : Gate) : String :=
  match g with
  | .h q => s!"h,{q}" | .x q => s!"x,{q}" | .y q => s!"y,{q}" | .z q => s!"z,{q}" | .s q => s!"s,{q}"
  | .cx c t => s!"cx,{c},{t}" | .cy c t => s!"cy,{c},{t}" | .cz c t => s!"cz,{c},{t}"
  | .unknown => "unknown"

def handle (args : List String) : String :=
  match args with
  | ["codes"] => " ".intercalate (Generated.allCodes.map fun nc => s!"{nc.1}:{nc.2.n}:{nc.2.K}:{nc.2.d}")
  | ["cw", name, a] => Id.run do
      let some c := findCode name | return "bad-op"
      let some a := a.toNat? | return "bad-op"
      if a ≥ c.K || !allOk c.n c.encode then return "bad-op"
      let v := codewordTab c a
      return s!"{countH c.encode} " ++ ampsStr (ampsOf c.n (ofArray v))
  | ["gens", name] => Id.run do
      let some c := findCode name | return "bad-op"
      match gens c, zbars c, xbars c with
      | some gs, some zs, some xs =>
          return " ".intercalate (gs.map (mpStr c.n)) ++ " | " ++ " ".intercalate (zs.map (mpStr c.n)) ++ " | " ++ " ".intercalate (xs.map (mpStr c.n))
      | _, _, _ => return "none"
  | ["fix", name] => Id.run do
      -- does every generator / listed string / stabilizer circuit fix every model code word?
      let some c := findCode name | return "bad-op"
      if !allOk c.n c.encode then return "bad-op"
      let some gs := gens c | return "none"
      let cw := (List.range c.K).map (codewordTab c)
      let b2s := fun (b : Bool) => if b then "1" else "0"
      let g := gs.map fun g => b2s (cw.all fun v => pauliTab c.n g v == v)
      let l := c.listed.map fun l => b2s (symsOk c.n l && cw.all fun v => pauliTab c.n (MP.ofSyms l) v == v)
      let s := c.stabCircs.map fun gl => b2s (allOk c.n gl && cw.all fun v => runTab c.n gl v == v)
      return "".intercalate g ++ " " ++ "".intercalate l ++ " " ++ "".intercalate s
  | ["chk", name] => Id.run do
      -- check_stabilizer: ⟨v_a| circ_j v_a⟩ for every code word a and stabilizer circuit j, times 2^h
      let some c := findCode name | return "bad-op"
      if !allOk c.n c.encode || !(c.stabCircs.all (allOk c.n)) then return "bad-op"
      let cw := (List.range c.K).map (codewordTab c)
      let rows := cw.map fun v => ",".intercalate (c.stabCircs.map fun gl => (ipL c.n (ofArray v) (ofArray (runTab c.n gl v))).toStr.replace "," "/")
      return s!"{countH c.encode} " ++ ";".intercalate rows
  | ["ortho", name] => Id.run do
      -- Gram matrix of the model code words (upper triangle, row-major), times 2^h
      let some c := findCode name | return "bad-op"
      if !allOk c.n c.encode then return "bad-op"
      let cw := (List.range c.K).map (codewordTab c)
      let idx := List.range c.K
      let ent := idx.flatMap fun a => (idx.filter (· ≥ a)).map fun b => (ipL c.n (ofArray (cw.getD a #[])) (ofArray (cw.getD b #[]))).toStr.replace "," "/"
      return s!"{countH c.encode} " ++ ";".intercalate ent
  | ["kl", name] => Id.run do
      let some c := findCode name | return "bad-op"
      let some gs := gens c | return "none"
      let sp := span gs
      return String.ofList ((errorList c.n c.d).map fun e => klClass gs sp (MP.ofSparse e))
  | ["checks", name] => Id.run do
      let some c := findCode name | return "bad-op"
      let b2s := fun (b : Bool) => if b then "1" else "0"
      return b2s (klCheck c) ++ b2s (listedCheck c) ++ b2s (stabCircImplCheck c) ++ b2s (listedIndepCheck c)
  | ["scirc", name] => Id.run do
      let some c := findCode name | return "bad-op"
      return " ".intercalate (c.stabCircs.map fun gl => match circPauli c.n gl with
        | some p => mpStr c.n p
        | none => "none")
  | ["gates", name] => Id.run do
      -- the compiled data of this code: encoder gate list | listed strings | stabilizer circuits
      let some c := findCode name | return "bad-op"
      let gl := fun (gs : List Gate) => if gs.isEmpty then "-" else ";".intercalate (gs.map tok')
      let ls := if c.listed.isEmpty then "-" else " ".intercalate (c.listed.map symsStr)
      let sc := if c.stabCircs.isEmpty then "-" else " ".intercalate (c.stabCircs.map gl)
      return gl c.encode ++ " | " ++ ls ++ " | " ++ sc
  | ["listed", name] => Id.run do
      let some c := findCode name | return "bad-op"
      return " ".intercalate (c.listed.map symsStr)
  | ["wenum", name] => Id.run do
      let some c := findCode name | return "bad-op"
      if !allOk c.n c.encode then return "bad-op"
      -- entry 0: the identity operator (left out by the implementation), then weights 1..n
      let cw := codewordFns c
      let r := enumTerm GInt.I c.n cw MP.one :: weightEnum GInt.I c.n cw
      return s!"{countH c.encode} " ++ ";".intercalate (r.map fun ab => s!"{ab.1.re},{ab.2.re}")
  | ["wenumk", name, k] => Id.run do
      -- the enumerators of the first k code words (k need not be a power of two)
      let some c := findCode name | return "bad-op"
      let some k := k.toNat? | return "bad-op"
      if !allOk c.n c.encode || k = 0 || k > c.K then return "bad-op"
      let cw := (codewordFns c).take k
      let r := enumTerm GInt.I c.n cw MP.one :: weightEnum GInt.I c.n cw
      return s!"{countH c.encode} " ++ ";".intercalate (r.map fun ab => s!"{ab.1.re},{ab.2.re}")
  | ["errlist", n, d] => Id.run do
      let some n := n.toNat? | return "bad-op"
      let some d := d.toNat? | return "bad-op"
      if d ≤ 1 then return "error:assert"
      return ";".intercalate ((errorList n d).map (sparseStr n))
  | ["asym", n, d, p, q] => Id.run do
      let some n := n.toNat? | return "bad-op"
      let some d := d.toNat? | return "bad-op"
      let some p := p.toNat? | return "bad-op"
      let some q := q.toNat? | return "bad-op"
      if q = 0 then return "bad-op"
      if p = 0 then return "error:assert"
      return ";".intercalate ((asymErrorSet n d p q).map (sparseStr n))
  | ["asymf", n, d, bits] => Id.run do
      -- weight_z given as the bit pattern of a binary64 number; the bound is computed as the implementation does
      let some n := n.toNat? | return "bad-op"
      let some d := d.toNat? | return "bad-op"
      let some bits := bits.toNat? | return "bad-op"
      if bits ≥ 2 ^ 63 || bits / 2 ^ 52 ≥ 2047 then return "bad-op"
      if bits = 0 then return "error:assert"
      return ";".intercalate ((asymErrorSetF n d bits).map (sparseStr n))
  | ["fceil", a, bits] => Id.run do
      -- int(np.ceil(a / w)) as computed in binary64, and the exact ceiling of a / w
      let some a := a.toNat? | return "bad-op"
      let some bits := bits.toNat? | return "bad-op"
      if bits = 0 || bits ≥ 2 ^ 63 || bits / 2 ^ 52 ≥ 2047 then return "bad-op"
      let q : Rat := ((a : Int) : Rat) / ratOfFloatBits bits
      return s!"{fceilDiv a bits} {(ratCeil q).toNat} {QI.ratStr (f64Round q)}"
  | ["klloss", e, k, entries] => Id.run do
      -- inner_product of shape (E, K, K) with Gaussian-integer entries, row-major `re,im;re,im;…`
      let some e := e.toNat? | return "bad-op"
      let some k := k.toNat? | return "bad-op"
      let some l := parseGIntList? entries | return "bad-op"
      if l.length ≠ e * k * k || k = 0 then return "bad-op"
      let arr := l.toArray
      let M : Nat → Nat → Nat → QI := fun x a b => QI.ofGInt (arr.getD (x * k * k + a * k + b) 0)
      return QI.ratStr (klLossL2 e k M) ++ " " ++ ",".intercalate ((klLossL1Radicands e k M).map QI.ratStr)
  | ["ppauli", str0, tag] => Id.run do
      -- parse_simple_pauli(str0, tag_circuit = (tag = "1")); "_" stands for the empty string
      let cs : List Char := if str0 = "_" then [] else str0.toList
      let fmt := fun (l : List (Nat × Nat)) => if l.isEmpty then "-" else ";".intercalate (l.map fun qs => s!"{qs.1}:{symChar qs.2}")
      match parseSimplePauli cs with
      | none => return "error:assert"
      | some l =>
          if tag = "1" then return fmt (pauliTokensCircuit l)
          else if tag = "0" then
            match pauliTokensTable l with
            | some l' => return fmt l'
            | none => return "error:KeyError"
          else return "bad-op"
  | ["errfull", n, d] => Id.run do
      -- make_error_list(n, d, tag_full=True): every dense matrix, row-major, entries as exponents of i ('.' = 0)
      let some n := n.toNat? | return "bad-op"
      let some d := d.toNat? | return "bad-op"
      if d ≤ 1 then return "error:assert"
      if n > 6 then return "bad-op"
      let bs := (allBitsMSB n).map (Bits.ofList n)
      let expChar := fun (o : Option Nat) => match o with
        | none => '.' | some 0 => '0' | some 1 => '1' | some 2 => '2' | some _ => '3'
      return ";".intercalate ((errorListFull n d).map fun syms =>
        String.ofList (bs.flatMap fun b' => bs.map fun b => expChar (denseEntry n syms b' b)))
  | ["shift", delta, gates] => Id.run do
      -- Circuit.shift_qubit_index_(delta) on a gate list
      let some k := delta.toInt? | return "bad-op"
      let some gs := parseGates? gates | return "bad-op"
      let tok := fun (g : Gate) => let r := g.shiftInt k; ",".intercalate (r.1 :: r.2.map toString)
      let intOut := if gs.isEmpty then "-" else ";".intercalate (gs.map tok)
      -- for delta ≥ 0 the Nat-indexed `Gate.shift` (the one the theorems are about) must print the same
      if k ≥ 0 then
        let natOut := if gs.isEmpty then "-" else ";".intercalate ((gs.map (Gate.shift k.toNat)).map fun g => tok' g)
        return if natOut = intOut then intOut else "model-inconsistent"
      else return intOut
  | ["varqec", name, kk] => Id.run do
      -- VarQEC(encode, K', …).get_code(): the shifted encoder on the (logical ⊗ physical) register, rows a < K'
      let some c := findCode name | return "bad-op"
      let some K' := kk.toNat? | return "bad-op"
      if !allOk c.n c.encode || K' = 0 then return "bad-op"
      -- the real object writes `q0[a, a] = 1` for a < K' into a (2^kl, 2^n) array: IndexError for K' > 2^n
      if K' > 2 ^ c.n then return "error:IndexError"
      let kl := ceilLog2 K'
      let m := c.n + kl
      if m > 16 then return "bad-op"
      let w := runTab m (c.encode.map (Gate.shift kl)) (tabulate m (varqecInit c.n kl K'))
      let rows := (List.range K').map fun a =>
        ampsStr (ampsOf c.n fun hi => ofArray w (posOfIdx kl a + 2 ^ kl * hi))
      return s!"{countH c.encode} " ++ "|".intercalate rows
  | ["klval", name] => Id.run do
      -- knill_laflamme_inner_product on make_error_list: every K×K matrix, times 2^h, from the model code words
      let some c := findCode name | return "bad-op"
      if !allOk c.n c.encode then return "bad-op"
      let cw := codewordFns c
      let us := cw.map (vecL c.n)
      let mats := (errorList c.n c.d).map fun e =>
        let p := MP.ofSparse e
        let imgs := cw.map fun b => vecL c.n (pauliAct GInt.I p b)
        ",".intercalate (us.flatMap fun u => imgs.map fun im => (dotL u im).toStr.replace "," "/")
      return s!"{countH c.encode} " ++ ";".intercalate mats
  | ["pqecc", str0] => Id.run do
      match parseStrQecc str0.toList with
      | none => return "error"
      | some (n, K, w, d) =>
          let ws := match w with | none => "None" | some (a, b) => let g := Nat.gcd a b; s!"{a / g}/{b / g}"
          return s!"{n} {K} {ws} {d}"
  | ["errlisto", n, d, ops] => Id.run do
      let some n := n.toNat? | return "bad-op"
      let some d := d.toNat? | return "bad-op"
      let some os := parseSyms? ops | return "bad-op"
      if d ≤ 1 then return "error:assert"
      return ";".intercalate ((errorListOps n d os).map fun e => ",".intercalate (e.map fun qs => s!"{qs.1}{symChar qs.2}"))
  | ["extend", a, b] => Id.run do
      -- Circuit.extend_circuit / append_gate: the gate list of the first circuit followed by that of the second
      let some ga := parseGates? a | return "bad-op"
      let some gb := parseGates? b | return "bad-op"
      let r := ga ++ gb
      return if r.isEmpty then "-" else ";".intercalate (r.map tok')
  | ["degmat", name, a] => Id.run do
      let some c := findCode name | return "bad-op"
      let some a := a.toNat? | return "bad-op"
      if !allOk c.n c.encode || a ≥ c.K then return "bad-op"
      let v := (codewordFns c).getD a (fun _ => 0)
      let m := degeneracyGram GInt.I c.n v
      return s!"{countH c.encode} " ++ ";".intercalate (m.map fun row => ",".intercalate (row.map fun z => z.toStr.replace "," "/"))
  | ["run", n, idx, gates] => Id.run do
      -- the state-vector model on an arbitrary gate list, from the basis state with flat index idx
      let some n := n.toNat? | return "bad-op"
      let some idx := idx.toNat? | return "bad-op"
      let some gs := parseGates? gates | return "bad-op"
      if n > 12 || idx ≥ 2 ^ n || !allOk n gs then return "bad-op"
      let v := runTab n gs (tabulate n (basisVec (posOfIdx n idx)))
      return s!"{countH gs} " ++ ampsStr (ampsOf n (ofArray v))
  | ["conj", n, syms, e, gates] => Id.run do
      -- tableau: U (i^e · σ_syms) U† for the circuit U
      let some n := n.toNat? | return "bad-op"
      let some l := parseSyms? syms | return "bad-op"
      let some e := e.toNat? | return "bad-op"
      let some gs := parseGates? gates | return "bad-op"
      if l.length ≠ n || e ≥ 4 || !allOk n gs || n > 32 then return "bad-op"
      let p0 := MP.ofSyms l
      match conjCirc ⟨(p0.k + e) % 4, p0.x, p0.z⟩ gs with
      | some p => return mpStr n p
      | none => return "none"
  | ["pmul", a, b] => Id.run do
      let some la := parseSyms? a | return "bad-op"
      let some lb := parseSyms? b | return "bad-op"
      if la.length ≠ lb.length || la.length > 32 then return "bad-op"
      let p := MP.mul (MP.ofSyms la) (MP.ofSyms lb)
      return mpStr la.length p ++ (if MP.acomm (MP.ofSyms la) (MP.ofSyms lb) then " a" else " c")
  | _ => "bad-op"

end Numqi.Driver.C19
