/- line-protocol handlers for C19 (stub: not built yet) -/
import Driver.Loop

namespace Numqi.Driver.C19

def handle (_args : List String) : String := "bad-op"

end Numqi.Driver.C19
