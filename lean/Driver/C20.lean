/- line-protocol handlers for C20 (stub: not built yet) -/
import Driver.Loop

namespace Numqi.Driver.C20

def handle (_args : List String) : String := "bad-op"

end Numqi.Driver.C20
