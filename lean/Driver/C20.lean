/- line-protocol handlers for C20 (matrix subspaces: index tables, structure classes, certificates) -/
import Driver.Loop
import NumqiModel.MatrixSpace
import NumqiModel.Generated.Thresholds20

namespace Numqi.Driver.C20
open Numqi Numqi.MatrixSpace

def natLists (l : List (List Nat)) : String := "|".intercalate (l.map natListStr)

def tableStr (t : List (List Nat × Int)) : String :=
  "|".intercalate (t.map fun e => natListStr e.1 ++ ":" ++ toString e.2)

def ratStr (r : Rat) : String := s!"{r.num}/{r.den}"

/-- exact value of a finite binary64 given as its bit pattern (decimal) -/
def ratBits? (s : String) : Option Rat := do
  let b ← s.toNat?
  if b / 2^52 % 2048 = 2047 then none else some (ratOfFloatBits b)

def parseBool? (s : String) : Option Bool :=
  if s = "1" then some true else if s = "0" then some false else none

def parseChar? (s : String) : Option SpaceChar :=
  match s with
  | "R_T" => some .R_T | "C_T" => some .C_T | "R" => some .R | "C" => some .C
  | "C_H" => some .C_H | "R_cT" => some .R_cT | "R_c" => some .R_c | _ => none

/-- matrix `k` of a flat row-major `(N, dA, dB)` integer list -/
def mats3 (dA dB : Nat) (l : List Int) : Nat → Nat → Nat → Int :=
  let a := l.toArray
  fun k i j => a.getD ((k * dA + i) * dB + j) 0

def mat2 (cols : Nat) (l : List Int) : Nat → Nat → Int :=
  let a := l.toArray
  fun i j => a.getD (i * cols + j) 0

def flat2 (rows cols : Nat) (f : Nat → Nat → Int) : List Int :=
  (List.range rows).flatMap fun i => (List.range cols).map fun j => f i j


def qiStr (a : QI) : String := s!"{ratStr a.re},{ratStr a.im}"

def handle (args : List String) : String :=
  match args with
  | ["aft", t] => Id.run do
      let some t := parseNatList? t | return "bad-op"
      if t.isEmpty then return "bad-op"
      return tableStr (antisymFactorTable t)
  | ["aftint", r] => Id.run do
      let some r := r.toNat? | return "bad-op"
      if r = 0 then return "bad-op"
      return tableStr (antisymFactorTableInt r)
  | ["asidx", d, r] => Id.run do
      let some d := d.toNat? | return "bad-op"
      let some r := r.toNat? | return "bad-op"
      return natLists (antisymIndex d r)
  | ["symidx", d, r] => Id.run do
      let some d := d.toNat? | return "bad-op"
      let some r := r.toNat? | return "bad-op"
      return natLists (symIndex d r)
  | ["symcnt", t] => Id.run do
      let some t := parseNatList? t | return "bad-op"
      return toString (counterFactorialProd t)
  | ["perms", l] => Id.run do
      let some l := parseNatList? l | return "bad-op"
      return natLists (permsLex l)
  | ["proj", dA, dB, idx, l] => Id.run do
      let some dA := dA.toNat? | return "bad-op"
      let some dB := dB.toNat? | return "bad-op"
      let some idx := parseNatList? idx | return "bad-op"
      let some l := parseIntList? l | return "bad-op"
      if idx.isEmpty || dA = 0 || dB = 0 || l.length % (dA * dB) ≠ 0 then return "bad-op"
      let N := l.length / (dA * dB)
      if idx.any (· ≥ N) then return "bad-op"
      return intListStr (antisymProjectScaled (mats3 dA dB l) dA dB idx)
  | ["sympart", dA, dB, n, idx, l] => Id.run do
      -- all entries of the (scaled) symmetric factor for INDEX `idx`, in the order of `symPartKeys`
      let some dA := dA.toNat? | return "bad-op"
      let some dB := dB.toNat? | return "bad-op"
      let some n := n.toNat? | return "bad-op"
      let some idx := parseNatList? idx | return "bad-op"
      let some l := parseIntList? l | return "bad-op"
      if idx.isEmpty || dA = 0 || dB = 0 || l.length ≠ n * dA * dB || idx.any (· ≥ n) then return "bad-op"
      let mats := mats3 dA dB l
      return intListStr ((symPartKeys n (dA * dB) idx.length).map fun K => symPartEntry mats dB n idx K)
  | ["hvec", dA, dB, n, q, idx, l] => Id.run do
      let some dA := dA.toNat? | return "bad-op"
      let some dB := dB.toNat? | return "bad-op"
      let some n := n.toNat? | return "bad-op"
      let some q := q.toNat? | return "bad-op"
      let some idx := parseNatList? idx | return "bad-op"
      let some l := parseIntList? l | return "bad-op"
      if q = 0 || idx.length < q || dA = 0 || dB = 0 || l.length ≠ n * dA * dB || idx.any (· ≥ n) then return "bad-op"
      return intListStr (hierVecScaled (mats3 dA dB l) dA dB n q idx)
  | ["abcvec", dA, dB, dC, t1, t2] => Id.run do
      let some dA := dA.toNat? | return "bad-op"
      let some dB := dB.toNat? | return "bad-op"
      let some dC := dC.toNat? | return "bad-op"
      let some t1 := parseGIntList? t1 | return "bad-op"
      let some t2 := parseGIntList? t2 | return "bad-op"
      if t1.length ≠ dA * dB * dC || t2.length ≠ dA * dB * dC then return "bad-op"
      let a1 := t1.toArray
      let a2 := t2.toArray
      let T1 : Nat → Nat → Nat → GInt := fun a b c => a1.getD ((a * dB + b) * dC + c) 0
      let T2 : Nat → Nat → Nat → GInt := fun a b c => a2.getD ((a * dB + b) * dC + c) 0
      return gintListStr (abcVecScaled dA dB dC T1 T2)
  | ["abcveck", dA, dB, dC, n, idx, ts] => Id.run do
      -- level-k vector of the tripartite test for the sorted multi-index `idx`; `ts` = the `n` tensors separated by `|`
      let some dA := dA.toNat? | return "bad-op"
      let some dB := dB.toNat? | return "bad-op"
      let some dC := dC.toNat? | return "bad-op"
      let some n := n.toNat? | return "bad-op"
      let some idx := parseNatList? idx | return "bad-op"
      let some tl := (ts.splitOn "|").mapM parseGIntList? | return "bad-op"
      if idx.length < 2 || dA = 0 || dB = 0 || dC = 0 || tl.length ≠ n || tl.any (·.length ≠ dA * dB * dC) || idx.any (· ≥ n) then return "bad-op"
      if dA * dB * dC > 40 || idx.length > 5 then return "bad-op"
      let arrs := (tl.map List.toArray).toArray
      let T : Nat → Nat → Nat → Nat → GInt := fun g a b c => (arrs.getD g #[]).getD ((a * dB + b) * dC + c) 0
      return gintListStr (abcLevelVecScaled dA dB dC n T idx)
  | ["asbasis", d, r] => Id.run do
      let some d := d.toNat? | return "bad-op"
      let some r := r.toNat? | return "bad-op"
      if r = 0 || r > d || d ^ r > 5000 then return "bad-op"
      return "|".intercalate ((antisymBasisDense d r).map intListStr)
  | ["symbasis", d, r] => Id.run do
      let some d := d.toNat? | return "bad-op"
      let some r := r.toNat? | return "bad-op"
      if r = 0 || d = 0 || d ^ r > 5000 then return "bad-op"
      return "|".intercalate ((symBasisDense d r).map fun row => intListStr (row.map Int.ofNat))
  | ["matabc", cut, dA, dB, dC, t] => Id.run do
      -- the two matricisations of a (dA,dB,dC) tensor, row-major
      let some dA := dA.toNat? | return "bad-op"
      let some dB := dB.toNat? | return "bad-op"
      let some dC := dC.toNat? | return "bad-op"
      let some t := parseIntList? t | return "bad-op"
      if t.length ≠ dA * dB * dC then return "bad-op"
      let a := t.toArray
      let T : Nat → Nat → Nat → Int := fun x y z => a.getD ((x * dB + y) * dC + z) 0
      match cut with
      | "A_BC" => return intListStr (flat2 dA (dB * dC) (matA_BC dC T))
      | "AB_C" => return intListStr (flat2 (dA * dB) dC (matAB_C dB T))
      | _ => return "bad-op"
  | ["hidx", n, rank, k] => Id.run do
      let some n := n.toNat? | return "bad-op"
      let some rank := rank.toNat? | return "bad-op"
      let some k := k.toNat? | return "bad-op"
      if rank ≤ 1 || k = 0 then return "bad-op"
      -- the INDEX lists handed to `tensor2d_project_to_antisym_basis`, in call order
      let r := rank - 1
      let subs := combos (List.range (r + k)) (r + 1)
      return natLists ((hierarchyIndices n rank k).flatMap fun I => subs.map fun s => s.map fun x => I.getD x 0)
  | ["classify", c, f, s, a, h] => Id.run do
      let some c := parseBool? c | return "bad-op"
      let some f := parseBool? f | return "bad-op"
      let some s := parseBool? s | return "bad-op"
      let some a := parseBool? a | return "bad-op"
      let some h := parseBool? h | return "bad-op"
      return match classify c f s a h with
        | some x => x.toString
        | none => "error:assert"
  | ["coordlen", c, m, n] => Id.run do
      let some c := parseChar? c | return "bad-op"
      let some m := m.toNat? | return "bad-op"
      let some n := n.toNat? | return "bad-op"
      return toString (coordLen c m n)
  | ["compl", c, k] => Id.run do
      let some c := c.toNat? | return "bad-op"
      let some k := k.toNat? | return "bad-op"
      if k > c then return "bad-op"
      return toString (complementCount c k)
  | ["symsel", n, v] => Id.run do
      let some n := n.toNat? | return "bad-op"
      let some v := parseIntList? v | return "bad-op"
      if v.length ≠ n * n then return "bad-op"
      return intListStr (symSelect n v)
  | ["symemb", n, x] => Id.run do
      let some n := n.toNat? | return "bad-op"
      let some x := parseIntList? x | return "bad-op"
      if x.length ≠ nOff n + n then return "bad-op"
      return intListStr (symEmbed n x)
  | ["rctstack", n, vr, vi] => Id.run do
      let some n := n.toNat? | return "bad-op"
      let some vr := parseIntList? vr | return "bad-op"
      let some vi := parseIntList? vi | return "bad-op"
      if vr.length ≠ n * n || vi.length ≠ n * n then return "bad-op"
      return intListStr (rcTStack n vr vi)
  | ["rctunstack", n, x] => Id.run do
      let some n := n.toNat? | return "bad-op"
      let some x := parseIntList? x | return "bad-op"
      if x.length ≠ 2 * (nOff n + n) then return "bad-op"
      let (a, b) := rcTUnstack n x
      return intListStr a ++ "|" ++ intListStr b
  | ["rcflat", n1, n2, re, im] => Id.run do
      let some n1 := n1.toNat? | return "bad-op"
      let some n2 := n2.toNat? | return "bad-op"
      let some re := parseIntList? re | return "bad-op"
      let some im := parseIntList? im | return "bad-op"
      if re.length ≠ n1 * n2 || im.length ≠ n1 * n2 then return "bad-op"
      return intListStr (rcFlatten n1 n2 (mat2 n2 re) (mat2 n2 im))
  | ["rcblock", n1, n2, x] => Id.run do
      -- `x.reshape(N1, 2*N2)` → split → `np.block([[r,-i],[i,r]])`
      let some n1 := n1.toNat? | return "bad-op"
      let some n2 := n2.toNat? | return "bad-op"
      let some x := parseIntList? x | return "bad-op"
      if x.length ≠ 2 * n1 * n2 then return "bad-op"
      let (re, im) := rcUnflatten n1 n2 x
      return intListStr (flat2 (2 * n1) (2 * n2) (blockRealify n1 n2 re im))
  | ["block", n1, n2, re, im] => Id.run do
      let some n1 := n1.toNat? | return "bad-op"
      let some n2 := n2.toNat? | return "bad-op"
      let some re := parseIntList? re | return "bad-op"
      let some im := parseIntList? im | return "bad-op"
      if re.length ≠ n1 * n2 || im.length ≠ n1 * n2 then return "bad-op"
      return intListStr (flat2 (2 * n1) (2 * n2) (blockRealify n1 n2 (mat2 n2 re) (mat2 n2 im)))
  | ["ptb", dA, dB, l] => Id.run do
      let some dA := dA.toNat? | return "bad-op"
      let some dB := dB.toNat? | return "bad-op"
      let some l := parseIntList? l | return "bad-op"
      if l.length ≠ dA * dB * dA * dB then return "bad-op"
      return intListStr (toFlat4 dA dB (ptB (ofFlat4 dA dB l)))
  | ["projector", k, dA, dB, l] => Id.run do
      let some k := k.toNat? | return "bad-op"
      let some dA := dA.toNat? | return "bad-op"
      let some dB := dB.toNat? | return "bad-op"
      let some l := parseIntList? l | return "bad-op"
      if l.length ≠ k * dA * dB then return "bad-op"
      return intListStr (toFlat4 dA dB (projector k (mats3 dA dB l)))
  | ["mixpt", dA, dB, p, l] => Id.run do
      let some dA := dA.toNat? | return "bad-op"
      let some dB := dB.toNat? | return "bad-op"
      let some p := ratBits? p | return "bad-op"
      let some l := parseIntList? l | return "bad-op"
      if l.length ≠ dA * dB * dA * dB then return "bad-op"
      let f : Nat → Nat → Nat → Nat → Rat := ofFlat4 dA dB (l.map fun (z : Int) => ((z : Rat)))
      return ";".intercalate ((toFlat4 dA dB (mixPT p f)).map ratStr)
  | ["herm", n, wr, wi, l] => Id.run do
      let some n := n.toNat? | return "bad-op"
      let some wr := ratBits? wr | return "bad-op"
      let some wi := ratBits? wi | return "bad-op"
      let some l := parseGIntList? l | return "bad-op"
      if l.length ≠ n * n then return "bad-op"
      let a := (l.map QI.ofGInt).toArray
      let A : Nat → Nat → QI := fun i j => a.getD (i * n + j) 0
      let H := hermPart (⟨wr, wi⟩ : QI) A
      return ";".intercalate ((List.range n).flatMap fun i => (List.range n).map fun j => qiStr (H i j))
  | ["cert", which, x, eps] => Id.run do
      let some x := ratBits? x | return "bad-op"
      let some eps := ratBits? eps | return "bad-op"
      -- a verdict the translator could not bring to its normal form is answered `unknown` (never a guessed model)
      let (known, b) ← match which with
        | "rankone" => pure (Generated.Thresholds20.rankOneCertKnown, Generated.Thresholds20.rankOneCert x eps)
        | "hierarchy" => pure (Generated.Thresholds20.hierarchyCertKnown, Generated.Thresholds20.hierarchyCert x eps)
        | "abc" => pure (Generated.Thresholds20.abcCertKnown, Generated.Thresholds20.abcCert x eps)
        | "lu" => pure (true, luCertifies x eps)
        | _ => return "bad-op"
      if !known then return "unknown"
      return if b then "1" else "0"
  | ["certdefault", which] =>
      let f := fun (n d : Nat) (neg : Bool) => (if neg then "-" else "") ++ s!"{n}/{d}"
      match which with
      | "rankone" => f Generated.Thresholds20.rankOneCertEpsNum Generated.Thresholds20.rankOneCertEpsDen Generated.Thresholds20.rankOneCertEpsNeg
      | "hierarchy" => f Generated.Thresholds20.hierarchyCertEpsNum Generated.Thresholds20.hierarchyCertEpsDen Generated.Thresholds20.hierarchyCertEpsNeg
      | "abc" => f Generated.Thresholds20.abcCertEpsNum Generated.Thresholds20.abcCertEpsDen Generated.Thresholds20.abcCertEpsNeg
      | _ => "bad-op"
  | ["kept", eps, s] => Id.run do
      let some eps := ratBits? eps | return "bad-op"
      let some s := (if s = "-" then some [] else (s.splitOn ";").mapM ratBits?) | return "bad-op"
      return toString (keptCount s eps)
  | _ => "bad-op"

end Numqi.Driver.C20
