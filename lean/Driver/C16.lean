/- line-protocol handlers for C16 (Gell-Mann coordinates).
Numbers cross the protocol as exact Gaussian rationals `re,im` with `re`, `im` either an integer or `p/q`;
lists are `;`-separated.  The square-root scalars are the binary64 values taken exactly
(`Numqi.Gellmann.floatScalars`), all other arithmetic is exact. -/
import Driver.Loop
import NumqiModel.Gellmann

namespace Numqi.Driver.C16
open Numqi Numqi.Gellmann

def parseRat? (s : String) : Option Rat :=
  match s.splitOn "/" with
  | [a] => do let x ← a.toInt?; pure (x : Rat)
  | [a, b] => do
      let x ← a.toInt?
      let y ← b.toNat?
      if y = 0 then none else pure ((x : Rat) / ((y : Int) : Rat))
  | _ => none

def parseQI? (s : String) : Option QI :=
  match s.splitOn "," with
  | [a, b] => do let x ← parseRat? a; let y ← parseRat? b; pure ⟨x, y⟩
  | [a] => do let x ← parseRat? a; pure ⟨x, 0⟩
  | _ => none

def parseQIList? (s : String) : Option (List QI) :=
  if s = "" || s = "-" then some [] else (s.splitOn ";").mapM parseQI?

def qiListStr (l : List QI) : String := ";".intercalate (l.map QI.toStr)

def matOfList (d : Nat) (l : List QI) : Mat d QI := fun r c => l.getD (r.val * d + c.val) 0
def matToList {d : Nat} (M : Mat d QI) : List QI :=
  (List.finRange d).flatMap fun r => (List.finRange d).map fun c => M r c

def handle (args : List String) : String :=
  match args with
  | ["gm", d, i, j] => Id.run do
      let some d := d.toNat? | return "bad-op"
      let some i := i.toNat? | return "bad-op"
      let some j := j.toNat? | return "bad-op"
      if !(d > 0 && i < d && j < d) then return "error:assert"
      return qiListStr (matToList (gm (floatScalars d) d i j))
  | ["all", d] => Id.run do
      let some d := d.toNat? | return "bad-op"
      if d < 2 then return "error:assert"
      return "|".intercalate ((allGellmann (floatScalars d) d).map fun M => qiListStr (matToList M))
  | ["all", d, w] => Id.run do
      -- `all_gellmann_matrix(d, with_I=w)`
      let some d := d.toNat? | return "bad-op"
      let some w := w.toNat? | return "bad-op"
      if d < 2 then return "error:assert"
      return "|".intercalate ((allGellmannOpt (floatScalars d) d (w != 0)).map fun M => qiListStr (matToList M))
  | ["allt", d, w] => Id.run do
      -- `all_gellmann_matrix(d, tensor_n=2, with_I=w)`: `d⁴` (or `d⁴-1`) matrices of size `d²×d²`, row-major
      let some d := d.toNat? | return "bad-op"
      let some w := w.toNat? | return "bad-op"
      if d < 2 then return "error:assert"
      let S := floatScalars d
      return "|".intercalate ((allGellmannT2 S d (w != 0)).map fun M => qiListStr (matToList M))
  | ["ana", d, a] => Id.run do
      let some d := d.toNat? | return "bad-op"
      let some a := parseQIList? a | return "bad-op"
      if d = 0 || a.length ≠ d * d then return "bad-op"
      return qiListStr (analysis (floatScalars d) d (matOfList d a))
  | ["syn", d, v] => Id.run do
      let some d := d.toNat? | return "bad-op"
      let some v := parseQIList? v | return "bad-op"
      if d = 0 || v.length ≠ d * d then return "bad-op"
      return qiListStr (matToList (synthesis (floatScalars d) d fun p => v.getD p 0))
  | ["dm2vec", d, w, a] => Id.run do
      let some d := d.toNat? | return "bad-op"
      let some a := parseQIList? a | return "bad-op"
      if d = 0 || a.length ≠ d * d || (w ≠ "0" && w ≠ "1") then return "bad-op"
      return qiListStr (dmToVec (floatScalars d) d (matOfList d a) (w = "1"))
  | ["vec2dm", d, v] => Id.run do
      let some d := d.toNat? | return "bad-op"
      let some v := parseQIList? v | return "bad-op"
      if d < 2 || v.length ≠ d * d - 1 then return "bad-op"
      return qiListStr (matToList (vecToDm (floatScalars d) d fun p => v.getD p 0))
  | ["norm2", d, a] => Id.run do
      let some d := d.toNat? | return "bad-op"
      let some a := parseQIList? a | return "bad-op"
      if d = 0 || a.length ≠ d * d then return "bad-op"
      return QI.toStr (dmNorm2 (floatScalars d) d (matOfList d a))
  | ["dist2", d, a, b] => Id.run do
      let some d := d.toNat? | return "bad-op"
      let some a := parseQIList? a | return "bad-op"
      let some b := parseQIList? b | return "bad-op"
      if d = 0 || a.length ≠ d * d || b.length ≠ d * d then return "bad-op"
      return QI.toStr (distance2 (floatScalars d) d (matOfList d a) (matOfList d b))
  | ["scal", d] => Id.run do
      -- exact residuals of the executed scalars against the relations of `Scalars.Valid`:
      -- cD(k)^2 k(k+1) - 2 (k = 1..d-1), cI^2 d - 2, aD(k) - cD(k)/2, aI - cI/2
      let some d := d.toNat? | return "bad-op"
      if d < 2 then return "bad-op"
      let S := floatScalars d
      let ks := (List.range (d - 1)).map (· + 1)
      let r1 := ks.map fun k => S.cD k * S.cD k * (QI.ofNat (k * (k + 1))) - QI.ofNat 2
      let r2 := [S.cI * S.cI * QI.ofNat d - QI.ofNat 2]
      let r3 := ks.map fun k => S.aD k - S.half * S.cD k
      let r4 := [S.aI - S.half * S.cI]
      return qiListStr (r1 ++ r2 ++ r3 ++ r4)
  | _ => "bad-op"

end Numqi.Driver.C16
