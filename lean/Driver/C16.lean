/- line-protocol handlers for C16 (stub: not built yet) -/
import Driver.Loop

namespace Numqi.Driver.C16

def handle (_args : List String) : String := "bad-op"

end Numqi.Driver.C16
