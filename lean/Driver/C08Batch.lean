/- line-protocol handlers for the batched Pauli paths (C08); called from `Driver/C08.lean` for ops it does not know:
     ofindexb <n> <idx>            one item of the batched pauli_index_to_F2(with_sign=True)  ->  2n+2 bits
     toindexb <n> <f2bits>         one item of the batched pauli_F2_to_index(with_sign=True)  ->  decimal
     nplist   <n> <f2bits>         PauliOperator.np_list                                     ->  m|m|…  (m = four `re,im` joined by `;`)
     fromnp   <n> <e> <m|m|…>      PauliOperator.from_np_list(np_list, sign=i^e)              ->  2n+2 bits | error:assert -/
import Driver.Loop
import NumqiModel.PauliBatch

namespace Numqi.Driver.C08Batch
open Numqi Numqi.Pauli Numqi.PauliBatch

def handle (args : List String) : String :=
  match args with
  | ["ofindexb", n, i] => Id.run do
      let some n := n.toNat? | return "bad-op"
      let some i := i.toNat? | return "bad-op"
      if n > 32 || n = 0 || i ≥ 2 ^ 64 then return "bad-op"
      return bitsStr (ofIndexBatch n i).toF2List
  | ["toindexb", n, a] => Id.run do
      let some n := n.toNat? | return "bad-op"
      let some a := parseBits? a | return "bad-op"
      if a.length ≠ 2 * n + 2 then return "bad-op"
      return toString (toIndexBatch (ofF2List n a))
  | ["nplist", n, a] => Id.run do
      let some n := n.toNat? | return "bad-op"
      let some a := parseBits? a | return "bad-op"
      if a.length ≠ 2 * n + 2 then return "bad-op"
      return "|".intercalate ((npList (ofF2List n a)).map gintListStr)
  | ["fromnp", n, e, m] => Id.run do
      let some n := n.toNat? | return "bad-op"
      let some e := e.toNat? | return "bad-op"
      let some mats := (m.splitOn "|").mapM parseGIntList? | return "bad-op"
      match fromNpList n mats e with
      | some p => return bitsStr p.toF2List
      | none => return "error:assert"
  | _ => "bad-op"

end Numqi.Driver.C08Batch
