import Driver.Loop
import Driver.C04

def main : IO Unit := Numqi.Driver.run Numqi.Driver.C04.handle
