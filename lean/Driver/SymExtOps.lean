/-
Shared line-protocol handler for the index layer of the irrep-block symmetric-extension path (`entangle/symext.py`), model
`NumqiModel/SymExt.lean`.  `handle? args` returns `none` when the op is not one of its own, so that the per-property drivers
(`Driver/C05.lean`; `Driver/C06.lean` may import it as well) can fall through to their other ops.

ops:  idx0213 N0 N1 N2 N3            → the index array, comma separated
      sxrealign dA dB <N² Gaussian integers>   → the `(dA·dA)×(dB·dB)` realigned matrix
      extray dA dB <beta bits> <dA²·dB² entries `reBits,imBits`>   → exact `eye_realigned/(dA·dB) + beta·R` (`p/q,p/q;…`)
      irreprdm dA dB <block|block…>  with block = `x:P:C:m` (P: (x·dA)² Gaussian integers, C: x²·dB² entries `reBits,imBits`,
                                      m: multiplicity bits)  → exact `cvx_rdm` `#` exact left-hand side of the trace constraint
-/
import Driver.Loop
import NumqiModel.SymExt

namespace Numqi.Driver.SymExtOps
open Numqi Numqi.Ent

def ratOfInt (n : Int) : Rat := n

def parseQIBits? (s : String) : Option QI :=
  match s.splitOn "," with
  | [a, b] => do
      let x ← a.toNat?
      let y ← b.toNat?
      if x / 2^52 % 2048 = 2047 || y / 2^52 % 2048 = 2047 then none
      else pure ⟨ratOfFloatBits x, ratOfFloatBits y⟩
  | _ => none

def parseQIBitsList? (s : String) : Option (List QI) := (s.splitOn ";").mapM parseQIBits?

def qiListStr (l : List QI) : String := ";".intercalate (l.map QI.toStr)

def dumpQ (rows cols : Nat) (m : Nat → Nat → QI) : String :=
  qiListStr ((List.range rows).flatMap fun r => (List.range cols).map fun c => m r c)

instance : One QI := ⟨⟨1, 0⟩⟩

/-- one irrep block `x:P:C:m` -/
def parseBlock? (dA dB : Nat) (s : String) : Option (Nat × (Nat → Nat → QI) × (Nat → QI) × QI) :=
  match s.splitOn ":" with
  | [x, p, c, m] => do
      let x ← x.toNat?
      let p ← parseGIntList? p
      let c ← parseQIBitsList? c
      let m ← parseQIBits? (m ++ ",0")
      if x = 0 || p.length ≠ (x * dA) * (x * dA) || c.length ≠ x * x * dB * dB then none
      else
        let pa := (p.map QI.ofGInt).toArray
        let ca := c.toArray
        pure (x, (fun r cc => pa.getD (r * (x * dA) + cc) 0), (fun t => ca.getD t 0), m)
  | _ => none

def handle? (args : List String) : Option String :=
  match args with
  | ["idx0213", n0, n1, n2, n3] => some <| Id.run do
      let some n0 := n0.toNat? | return "bad-op"
      let some n1 := n1.toNat? | return "bad-op"
      let some n2 := n2.toNat? | return "bad-op"
      let some n3 := n3.toNat? | return "bad-op"
      if n0 = 0 || n1 = 0 || n2 = 0 || n3 = 0 || n0 * n1 * n2 * n3 > 100000 then return "bad-op"
      return ",".intercalate ((List.range (n0 * n1 * n2 * n3)).map fun t => toString (idx0213 n0 n1 n2 n3 t))
  | ["sxrealign", dA, dB, ents] => some <| Id.run do
      let some dA := dA.toNat? | return "bad-op"
      let some dB := dB.toNat? | return "bad-op"
      let some e := parseGIntList? ents | return "bad-op"
      if dA < 2 || dB < 2 || e.length ≠ (dA * dB) * (dA * dB) then return "bad-op"
      let ea := e.toArray
      let ρ : Nat → Nat → GInt := fun r c => ea.getD (r * (dA * dB) + c) 0
      return gintListStr ((List.range (dA * dA)).flatMap fun r => (List.range (dB * dB)).map fun c => sxRealign dA dB ρ r c)
  | ["extray", dA, dB, beta, rs] => some <| Id.run do
      let some dA := dA.toNat? | return "bad-op"
      let some dB := dB.toNat? | return "bad-op"
      let some β := parseQIBits? (beta ++ ",0") | return "bad-op"
      let some r := parseQIBitsList? rs | return "bad-op"
      if dA < 2 || dB < 2 || r.length ≠ (dA * dA) * (dB * dB) then return "bad-op"
      let ra := r.toArray
      let R : Nat → Nat → QI := fun i j => ra.getD (i * (dB * dB) + j) 0
      let invN : QI := ⟨1 / ratOfInt (dA * dB : Nat), 0⟩
      return dumpQ (dA * dA) (dB * dB) (extRaySigma dA dB invN β R)
  | ["irreprdm", dA, dB, blocks] => some <| Id.run do
      let some dA := dA.toNat? | return "bad-op"
      let some dB := dB.toNat? | return "bad-op"
      if dA < 2 || dB < 2 then return "bad-op"
      let some bs := (blocks.splitOn "|").mapM (parseBlock? dA dB) | return "bad-op"
      let rdm := irrepRdm dA dB (bs.map fun b => (b.1, b.2.1, b.2.2.1))
      let tr := irrepTrace dA (bs.map fun b => (b.1, b.2.1, b.2.2.2))
      return dumpQ (dA * dA) (dB * dB) rdm ++ "#" ++ tr.toStr
  | _ => none

end Numqi.Driver.SymExtOps
