/- stand-alone entry for the `rootsupb` handlers (no lakefile target: run with
`cd lean && lake env lean --run Driver/C18RootsMain.lean`, lines `C18 rootsupb …` on stdin); the coordinator may instead
dispatch `"rootsupb" :: _` to `Numqi.Driver.C18Roots.handle` from `Driver/C18Main.lean`. -/
import Driver.C18Roots
def main : IO Unit := Numqi.Driver.run Numqi.Driver.C18Roots.handle
