/- line-protocol handlers for C02 (parameter counts and claimed ranks of the differentials).
`C02 <class> <options…>` ↦ `<parameter count> <rank of the differential claimed by the property>`. -/
import Driver.Loop
import NumqiModel.Manifold
import Driver.C01

namespace Numqi.Driver.C02
open Numqi.Manifold.Count

def rc? (s : String) : Option Bool := if s = "r" then some true else if s = "c" then some false else none
def flag? (s : String) : Option Bool := if s = "1" then some true else if s = "0" then some false else none
def method? (s : String) : Option StMethod :=
  match s with
  | "choleskyL" => some .choleskyL | "qr" => some .qr | "polar" => some .polar
  | "so-exp" => some .soExp | "so-cayley" => some .soCayley | "euler" => some .euler | _ => none

def handle (args : List String) : String :=
  match args with
  | ["psd", dim, rank, rc, chol] => Id.run do
      let some dim := dim.toNat? | return "bad-op"
      let some rank := rank.toNat? | return "bad-op"
      let some isReal := rc? rc | return "bad-op"
      let some chol := flag? chol | return "bad-op"
      if dim < 2 || rank = 0 || rank > dim then return "bad-op"
      return s!"{psdParam dim rank isReal chol} {psdDim dim rank isReal}"
  | ["sym", dim, rc, t0, n1] => Id.run do
      let some dim := dim.toNat? | return "bad-op"
      let some isReal := rc? rc | return "bad-op"
      let some t0 := flag? t0 | return "bad-op"
      let some n1 := flag? n1 | return "bad-op"
      if dim < 2 then return "bad-op"
      return s!"{symParam dim isReal t0} {symDim dim isReal t0 n1}"
  | ["ball", dim, rc] => Id.run do
      let some dim := dim.toNat? | return "bad-op"
      let some isReal := rc? rc | return "bad-op"
      if dim < 2 then return "bad-op"
      return s!"{ballParam dim isReal} {ballParam dim isReal}"
  | ["sphere", dim, rc, q] => Id.run do
      let some dim := dim.toNat? | return "bad-op"
      let some isReal := rc? rc | return "bad-op"
      let some q := flag? q | return "bad-op"
      if dim < 2 then return "bad-op"
      return s!"{sphereParam dim isReal q} {sphereDim dim isReal}"
  | ["prob", dim] => Id.run do
      let some dim := dim.toNat? | return "bad-op"
      if dim < 2 then return "bad-op"
      return s!"{probParam dim} {simplexDim dim}"
  | ["so", dim, rc] => Id.run do
      let some dim := dim.toNat? | return "bad-op"
      let some isReal := rc? rc | return "bad-op"
      if dim < 2 then return "bad-op"
      return s!"{soParam dim isReal} {soDim dim isReal}"
  | ["stiefel", dim, rank, rc, m, ph] => Id.run do
      let some dim := dim.toNat? | return "bad-op"
      let some rank := rank.toNat? | return "bad-op"
      let some isReal := rc? rc | return "bad-op"
      let some m := method? m | return "bad-op"
      let some ph := flag? ph | return "bad-op"
      if dim < 2 || rank = 0 || rank > dim then return "bad-op"
      return s!"{stiefelParam dim rank isReal m ph} {stiefelRank dim rank isReal m ph}"
  | ["posreal", bs] => Id.run do
      -- PositiveReal / OpenInterval: `theta` has `1 if batch_size is None else batch_size` entries, each entry is its own chart of rank 1
      let some bs := bs.toNat? | return "bad-op"
      return s!"{scalarParam bs} {scalarParam bs}"
  | ["interval", bs] => Id.run do
      let some bs := bs.toNat? | return "bad-op"
      return s!"{scalarParam bs} {scalarParam bs}"
  -- the map constants themselves (same model ops as the C01 driver), so that C02 ties the maps whose differentials it talks about
  | "map" :: rest => Numqi.Driver.C01.handle rest
  | _ => "bad-op"

end Numqi.Driver.C02
