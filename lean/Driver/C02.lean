/- line-protocol handlers for C02 (stub: not built yet) -/
import Driver.Loop

namespace Numqi.Driver.C02

def handle (_args : List String) : String := "bad-op"

end Numqi.Driver.C02
