/-
Shared line-protocol loop: one operation per line on stdin (`<property-id> <op> <args…>`),
one canonical result line on stdout.  Imports nothing from Mathlib.
-/
namespace Numqi.Driver

def tokens (line : String) : List String :=
  (line.trimAscii.toString.splitOn " ").filter (· ≠ "")

partial def loop (handle : List String → String) (hin hout : IO.FS.Stream) : IO Unit := do
  let line ← hin.getLine
  if line.isEmpty then return ()
  let out := match tokens line with
    | _pid :: rest => handle rest
    | [] => "bad-op"
  hout.putStrLn out
  loop handle hin hout

def run (handle : List String → String) : IO Unit := do
  let hin ← IO.getStdin
  let hout ← IO.getStdout
  loop handle hin hout
  hout.flush

end Numqi.Driver
