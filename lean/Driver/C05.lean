/- line-protocol handlers for C05 (entanglement criteria: index layer on Gaussian integers, verdict layer on rationals) -/
import Driver.Loop
import NumqiModel.Entangle
import NumqiModel.Decision
import NumqiModel.SymExt
import Driver.SymExtOps
import Driver.C13

namespace Numqi.Driver.C05
open Numqi Numqi.Ent

/-- `"p/q"` or `"p"` ↦ rational -/
def parseRat? (s : String) : Option Rat :=
  match s.splitOn "/" with
  | [a] => do let x ← a.toInt?; pure (x : Rat)
  | [a, b] => do
      let x ← a.toInt?
      let y ← b.toNat?
      if y = 0 then none else pure (mkRat x y)
  | _ => none

/-- matrix read-out of a flat array of `N*N` entries -/
def matOf (N : Nat) (a : Array GInt) : Nat → Nat → GInt := fun r c => a.getD (r * N + c) 0

def dumpMat (rows cols : Nat) (m : Nat → Nat → GInt) : String :=
  gintListStr ((List.range rows).flatMap fun r => (List.range cols).map fun c => m r c)

def validDims (dim : List Nat) : Bool := dim.length ≥ 2 && dim.all (· ≥ 2)

def natsStr (l : List Nat) : String := ",".intercalate (l.map toString)

/-- min over the diagonal; `none` if some off-diagonal entry is non-zero or an entry is not real -/
def diagMin? (N : Nat) (m : Nat → Nat → GInt) : Option Int := Id.run do
  let mut best : Option Int := none
  for r in List.range N do
    for c in List.range N do
      let v := m r c
      if r = c then
        if v.im ≠ 0 then return none
        best := match best with
          | none => some v.re
          | some b => some (min b v.re)
      else if v ≠ 0 then return none
  return best

/-- the single non-zero entry of a matrix (`some 0` if all are zero, `none` if more than one) -/
def singleEntry? (rows cols : Nat) (m : Nat → Nat → GInt) : Option GInt := Id.run do
  let mut found : Option GInt := none
  for r in List.range rows do
    for c in List.range cols do
      let v := m r c
      if v ≠ 0 then
        match found with
        | none => found := some v
        | some _ => return none
  return some (found.getD 0)

/-- `a,b` (Gaussian integer) or `p/q` (real rational) ↦ Gaussian rational -/
def parseQI? (s : String) : Option QI :=
  if s.contains ',' then (parseGInt? s).map QI.ofGInt
  else (parseRat? s).map fun r => ⟨r, 0⟩

def parseQIList? (s : String) : Option (List QI) := (s.splitOn ";").mapM parseQI?

def ratAbs (r : Rat) : Rat := if r < 0 then -r else r

/-- min over the diagonal of a rational matrix; `none` if some off-diagonal entry is non-zero or an entry is not real -/
def diagMinQ? (N : Nat) (m : Nat → Nat → QI) : Option Rat := Id.run do
  let mut best : Option Rat := none
  for r in List.range N do
    for c in List.range N do
      let v := m r c
      if r = c then
        if v.im ≠ 0 then return none
        best := match best with
          | none => some v.re
          | some b => some (if v.re < b then v.re else b)
      else if v ≠ 0 then return none
  return best

def singleEntryQ? (rows cols : Nat) (m : Nat → Nat → QI) : Option QI := Id.run do
  let mut found : Option QI := none
  for r in List.range rows do
    for c in List.range cols do
      let v := m r c
      if v ≠ 0 then
        match found with
        | none => found := some v
        | some _ => return none
  return some (found.getD 0)

def validSx (dA dB kext : Nat) : Bool := dA ≥ 2 && dB ≥ 2 && kext ≥ 2 && dA * dB ^ kext ≤ 4096

/-- one product term `w:a_0;a_1;…:b_0;b_1;…` (Gaussian integers) -/
def parseTerm? (dA dB : Nat) (s : String) : Option (GInt × (Nat → GInt) × (Nat → GInt)) :=
  match s.splitOn ":" with
  | [w, a, b] => do
      let w ← parseGInt? w
      let a ← parseGIntList? a
      let b ← parseGIntList? b
      if a.length ≠ dA || b.length ≠ dB then none
      else
        let aa := a.toArray
        let ba := b.toArray
        pure (w, (fun i => aa.getD i 0), (fun i => ba.getD i 0))
  | _ => none

/-- ops of C05 proper -/
def handleOwn (args : List String) : String :=
  match args with
  | ["sxidx", dA, dB, kext] => Id.run do
      let some dA := dA.toNat? | return "bad-op"
      let some dB := dB.toNat? | return "bad-op"
      let some kext := kext.toNat? | return "bad-op"
      if !validSx dA dB kext then return "bad-op"
      let N := prodL (sxDims dA dB kext)
      let l2 := (List.range (sxNumPerm kext)).map fun w => natsStr ((List.range N).map (sxPermIndex dA dB kext w))
      let l1 := (List.range (sxNumPerm kext)).map fun w => natsStr ((List.range (N * N)).map (sxPermIndex1d dA dB kext w N))
      return "|".intercalate l2 ++ "#" ++ "|".intercalate l1
  | ["sxcon", dA, dB, kext, ents] => Id.run do
      let some dA := dA.toNat? | return "bad-op"
      let some dB := dB.toNat? | return "bad-op"
      let some kext := kext.toNat? | return "bad-op"
      let some e := parseGIntList? ents | return "bad-op"
      if !validSx dA dB kext then return "bad-op"
      let N := prodL (sxDims dA dB kext)
      if e.length ≠ N * N then return "bad-op"
      let X := matOf N e.toArray
      let perms := (List.range (sxNumPerm kext)).map fun w => dumpMat N N (sxPermuted dA dB kext w X)
      return (sxTrace N X).toStr ++ "|" ++ dumpMat (dA * dB) (dA * dB) (sxReduced dB kext X) ++ "|" ++ "|".intercalate perms
  | ["sxwit", dA, dB, kext, terms] => Id.run do
      let some dA := dA.toNat? | return "bad-op"
      let some dB := dB.toNat? | return "bad-op"
      let some kext := kext.toNat? | return "bad-op"
      if !validSx dA dB kext then return "bad-op"
      let some ts := (terms.splitOn "|").mapM (parseTerm? dA dB) | return "bad-op"
      let N := prodL (sxDims dA dB kext)
      return dumpMat N N (sxWitness dA dB kext ts) ++ "|" ++ dumpMat (dA * dB) (dA * dB) (sxSepState dA dB kext ts)
  | ["gpptlist", n] => Id.run do
      let some n := n.toNat? | return "bad-op"
      if n < 2 || n > 6 then return "bad-op"
      return "|".intercalate ((gpptDimList n).map fun (d0, d1) => natsStr d0 ++ ":" ++ natsStr d1)
  | [op, dims, ents] => Id.run do
      let some dim := parseNatList? dims | return "bad-op"
      let some e := parseGIntList? ents | return "bad-op"
      if !validDims dim then return "bad-op"
      let N := prodL dim
      if e.length ≠ N * N then return "bad-op"
      let ρ := matOf N e.toArray
      match op with
      | "ppt" =>
          return "|".intercalate ((List.range dim.length).map fun i => dumpMat N N (pptMatrix dim i ρ))
      | "red" =>
          return "|".intercalate ((List.range dim.length).map fun i => dumpMat N N (reductionMatrix dim i ρ))
      | "gppt" =>
          return "|".intercalate ((gpptDimList dim.length).map fun (d0, d1) =>
            let rows := gpptRows dim d0
            toString rows ++ ":" ++ dumpMat rows (N * N / rows) (gpptMatrix dim d0 d1 ρ))
      | "swap" =>
          match dim with
          | [d, d'] => if d ≠ d' then return "bad-op" else return toString (swapValue d ρ).re  -- `.real`
          | _ => return "bad-op"
      | "ptb" =>
          match dim with
          | [dA, dB] => return dumpMat N N (ptB dA dB ρ)
          | _ => return "bad-op"
      | _ => return "bad-op"
  | [op, dims, eps, ents] => Id.run do
      -- verdict layer.  `eps` = "default" ⇒ the constant regenerated from the source (`Generated/Thresholds.lean`) is used, exactly the
      -- constant the robust-acceptance theorems are about; entries are Gaussian integers `a,b` or exact rationals `p/q`.
      let some dim := parseNatList? dims | return "bad-op"
      let some e := parseQIList? ents | return "bad-op"
      if !validDims dim then return "bad-op"
      let N := prodL dim
      if e.length ≠ N * N then return "bad-op"
      let ea := e.toArray
      let ρ : Nat → Nat → QI := fun r c => ea.getD (r * N + c) 0
      let b2s := fun (b : Bool) => if b then "1" else "0"
      let epsOf := fun (dflt : Rat) => if eps = "default" then some dflt else parseRat? eps
      match op with
      | "hguard" =>
          -- input guard of is_ppt (`ppt`) / check_reduction_witness (`red`) / get_negativity (`neg`): `eps` names the function
          let herm := fun (r c : Nat) => decide (ρ r c = ⟨(ρ c r).re, -(ρ c r).im⟩)
          let g? : Option Bool := match eps with
            | "ppt" => some Thresholds.isPptHermGuard
            | "red" => some Thresholds.reductionHermGuard
            | "neg" => if dim.length = 2 then some Thresholds.negativityHermGuard else none
            | _ => none
          let some g := g? | return "bad-op"
          return if hermGuardRejects g N herm then "error" else "ok"
      | "vppt" =>
          let some ε := epsOf Thresholds.isPptEpsDefault | return "bad-op"
          let l := (List.range dim.length).map fun i => diagMinQ? N (pptMatrix dim i ρ)
          if l.any Option.isNone then return "bad-op"
          return b2s (l.all fun m => isPptAccept ε (m.getD 0))
      | "vred" =>
          let some ε := epsOf Thresholds.reductionEpsDefault | return "bad-op"
          let l := (List.range dim.length).map fun i => diagMinQ? N (reductionMatrix dim i ρ)
          if l.any Option.isNone then return "bad-op"
          return b2s (l.all fun m => reductionAccept ε (m.getD 0))
      | "vgppt" =>
          -- `eps` is the `threshold` keyword; only matrices with a single non-zero (real) entry, where the nuclear norm is |entry|
          let some ε := epsOf Thresholds.gpptThresholdDefault | return "bad-op"
          let l := (gpptDimList dim.length).map fun (d0, d1) =>
            let rows := gpptRows dim d0
            singleEntryQ? rows (N * N / rows) (gpptMatrix dim d0 d1 ρ)
          if l.any Option.isNone then return "bad-op"
          if l.any (fun v => (v.getD 0).im ≠ 0) then return "bad-op"
          -- both return paths of the implementation: the early exit must agree with the final test
          let acc := l.all fun v => gpptAccept ε (ratAbs (v.getD 0).re)
          let brk := l.any fun v => gpptBreak ε (ratAbs (v.getD 0).re)
          return if acc = !brk then b2s acc else "inconsistent-return_info"
      | "vswap" =>
          let some ε := epsOf Thresholds.swapEpsDefault | return "bad-op"
          match dim with
          | [d, d'] => if d ≠ d' then return "bad-op" else return b2s (swapAccept ε (swapValue d ρ).re)
          | _ => return "bad-op"
      | _ => return "bad-op"
  | _ => "bad-op"

/-- closed-form-measure ops that C05's statement leans on ("the closed-form two-qubit measures return a finite value equal to zero"):
handled by the C13 handler (same model constants, same theorems) -/
def measureOps : List String := ["eof", "gme", "wread", "spinflip", "concarg", "concpure", "negread", "eofspec", "gmespec"]

def handle (args : List String) : String :=
  match Numqi.Driver.SymExtOps.handle? args with
  | some r => r
  | none =>
    match args with
    | op :: _ => if measureOps.contains op then Numqi.Driver.C13.handle args else handleOwn args
    | [] => "bad-op"

end Numqi.Driver.C05
