/- line-protocol handlers for C05 (stub: not built yet) -/
import Driver.Loop

namespace Numqi.Driver.C05

def handle (_args : List String) : String := "bad-op"

end Numqi.Driver.C05
