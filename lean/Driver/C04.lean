/- line-protocol handlers for C04 (stub: not built yet) -/
import Driver.Loop

namespace Numqi.Driver.C04

def handle (_args : List String) : String := "bad-op"

end Numqi.Driver.C04
