/- line-protocol handlers for C04 (hand-written backward passes) -/
import Driver.Loop
import NumqiModel.Backward

namespace Numqi.Driver.C04
open Numqi Numqi.Backward

def arr? (s : String) : Option (Array GInt) :=
  if s = "-" || s = "" then some #[] else (parseGIntList? s).map List.toArray

def strArr (a : Array GInt) : String := gintListStr a.toList

/-- one entry of a sweep program: index data + the `_setup` descriptor + (for constant gates) the array:
`u:<t>:<name>:<objId>:<tr>:<ph>:<U or ->`, `c:<c>:<t>:<name>:<objId>:<tr>:<ph>:<U or ->`,
`x:<nq>:<name>:<objId>:<tr>:<ph>:<scalar or ->` (a `kind='custom'` oracle on a `2^nq × 2^nq` register) -/
structure RawGate where
  ctrl : Option (List Int)
  tgt : List Int
  desc : GateDesc
  arr : Option (Array GInt)
  custom : Option Nat := none

def parseRawGate (s : String) : Option RawGate :=
  let mk (c : Option (List Int)) (t nm oid tr ph u : String) : Option RawGate := do
    let t ← parseIntList? t; let oid ← oid.toNat?
    let a ← (if u = "-" then some none else (arr? u).map some)
    pure { ctrl := c, tgt := t, desc := ⟨nm, oid, tr == "1", ph == "1"⟩, arr := a }
  match s.splitOn ":" with
  | ["u", t, nm, oid, tr, ph, u] => mk none t nm oid tr ph u
  | ["c", c, t, nm, oid, tr, ph, u] => do let c ← parseIntList? c; mk (some c) t nm oid tr ph u
  | ["x", nq, nm, oid, tr, ph, u] => do
      let nq ← nq.toNat?; let g ← mk none "-" nm oid tr ph u
      pure { g with custom := some nq }
  | _ => none

/-- the entries a Grover-type oracle multiplies: the diagonal of the state reshaped to `2^nq × 2^nq` (`q0[idx, idx]`) -/
def oracleDiag (n nq : Nat) : Bits n → Bool := fun x => x.toNat / 2 ^ nq == x.toNat % 2 ^ nq

/-- resolve the index data with the simulator's `RawOp.compile`; the matrix source is the model's slot (`repSlot`) if `_setup`
gives the gate a row (`slotOf`), else the constant array -/
def compileGate (n : Nat) (gs : List GateDesc) (i : Nat) (g : RawGate) : Option (PGate n GInt) :=
  let dummy : Array GInt := Array.replicate (2 ^ g.tgt.length * 2 ^ g.tgt.length) 0
  let src? : Option (Option Nat) := match repSlot gs i with
    | some sl => some (some sl)
    | none => if g.arr.isSome then some none else none
  match src? with
  | none => none
  | some slot =>
    if let some nq := g.custom then
      (if n ≠ 2 * nq || (g.arr.isSome && (g.arr.getD dummy).size ≠ 1) then none
       else some (.custom (match slot with | some sl => .param sl | none => .fixed (lookupMat (g.arr.getD dummy))) (oracleDiag n nq)))
    else
    let u := (g.arr.getD dummy)
    let raw : RawOp GInt := match g.ctrl with
      | none => .unitary u g.tgt
      | some c => .control u c g.tgt
    match raw.compile n with
    | some (.unitary U t) => some (.unitary (match slot with | some sl => .param sl | none => .fixed U) t)
    | some (.control U c r tn) => some (.control (match slot with | some sl => .param sl | none => .fixed U) c r tn)
    | _ => none

/-- stacked tensor of one name: `name:k:rows:<entries of all rows>` -/
def parseTensor (s : String) : Option (String × Nat × Nat × Array GInt) :=
  match s.splitOn ":" with
  | [nm, k, rows, u] => do
      let k ← k.toNat?; let rows ← rows.toNat?; let u ← arr? u
      if u.size = rows * (2 ^ k * 2 ^ k) then pure (nm, k, rows, u) else none
  | _ => none

def parseOpSeq (m : Nat) (s : String) : Option (List (Op m GInt)) :=
  if s = "-" then some [] else
    (s.splitOn "|").mapM fun st => match st.splitOn ":" with
      | ["u", t, u] => do
          let t ← parseIntList? t; let u ← arr? u
          (RawOp.unitary u t).compile m
      | _ => none

def parseDesc (s : String) : Option GateDesc :=
  match s.splitOn ":" with
  | [nm, oid, tr, ph] => do
      let oid ← oid.toNat?
      pure ⟨nm, oid, tr == "1", ph == "1"⟩
  | _ => none

def qiOfG (g : GInt) : QI := QI.ofGInt g
def qiListStr (l : List QI) : String := ";".intercalate (l.map QI.toStr)


/-- `re,im` as two binary64 bit patterns, decoded exactly (inf/nan rejected) -/
def parseQIBits? (t : String) : Option QI :=
  match t.splitOn "," with
  | [a, b] => do
      let x ← a.toNat?; let y ← b.toNat?
      if x / 2 ^ 52 % 2048 = 2047 || y / 2 ^ 52 % 2048 = 2047 then none
      else pure ⟨ratOfFloatBits x, ratOfFloatBits y⟩
  | _ => none

def parseQIBitsList? (s : String) : Option (Array QI) :=
  if s = "-" || s = "" then some #[] else ((s.splitOn ";").mapM parseQIBits?).map List.toArray

/-- `name:req:len` -/
def parseShape (s : String) : Option (String × Bool × Nat) :=
  match s.splitOn ":" with
  | [nm, rq, len] => do let len ← len.toNat?; pure (nm, rq == "1", len)
  | _ => none

/-- `name=ints` -/
def parseNamed (s : String) : Option (String × List Int) :=
  match s.splitOn "=" with
  | [nm, v] => do let v ← parseIntList? v; pure (nm, v)
  | _ => none


/-- exact rational square root (`none` unless numerator and denominator are perfect squares) -/
def ratSqrt? (q : Rat) : Option Rat :=
  if q < 0 then none else
    let n := Nat.sqrt q.num.toNat
    let d := Nat.sqrt q.den
    if n * n = q.num.toNat && d * d = q.den then some ((n : Int) / (d : Int)) else none

/-- `sqrt` / `max` on real rationals for the forward map of the PSD square root; an inexact root is marked by `-1`
(the handler then answers `inexact`, it never rounds) -/
instance : Channel.Analytic QI :=
  ⟨fun x => x, fun x => ⟨(ratSqrt? x.re).getD (-1), 0⟩, fun a b => ⟨if a.re < b.re then b.re else a.re, 0⟩⟩

def handleSqrtmFwd (m r : Nat) (evl : List Int) (v : Array GInt) : String := Id.run do
  if evl.length ≠ m || v.size ≠ m * m then return "bad-op"
  let eA := evl.toArray
  let ev : Nat → QI := fun a => ⟨(eA.getD a 0 : Int), 0⟩
  let roots := (List.range m).map fun a => storedRoots r ev a
  if roots.any (fun x => x.re < 0) then return "inexact"
  let V : Nat → Nat → QI := fun i j => qiOfG (v.getD (i * m + j) 0)
  let ret := (List.range m).flatMap fun i => (List.range m).map fun j => psdSqrtmForward m V r ev i j
  return s!"{qiListStr roots}|{qiListStr ret}"

def handleExtra (args : List String) : Option String :=
  match args with
  | ["sqrtmfwd", m, r, evl, v] => some <| Id.run do
      let some m := m.toNat? | return "bad-op"
      let some r := r.toNat? | return "bad-op"
      let some evl := parseIntList? evl | return "bad-op"
      let some v := arr? v | return "bad-op"
      return handleSqrtmFwd m r evl v
  | ["handoff", shapes, init, theta, grads] => some <| Id.run do
      -- shapes `name:req:len|…` (registration order), init `name=ints|…` (current values), theta, grads `name=ints|…` (trainable only)
      let some sh := (shapes.splitOn "|").mapM parseShape | return "bad-op"
      let some ini := (init.splitOn "|").mapM parseNamed | return "bad-op"
      let some theta := parseIntList? theta | return "bad-op"
      let some gr := (if grads = "-" then some [] else (grads.splitOn "|").mapM parseNamed) | return "bad-op"
      if ini.length ≠ sh.length then return "bad-op"
      let ps : ParamList Int := (sh.zip ini).map fun p => (p.1.1, p.1.2.1, p.2.2)
      if (ps.zip sh).any (fun p => p.1.2.2.length ≠ p.2.2.2) then return "bad-op"
      if theta.length ≠ (getFlat ps).length then return "bad-op"
      -- trainable parameters after the call = `setFlat` (sorted-name order); frozen ones pass through unchanged
      let after := setFlat ps theta
      let frozen := ps.filter fun p => !p.2.1
      let gps : ParamList Int := sh.map fun p => (p.1, p.2.1, ((gr.find? fun g => g.1 == p.1).map (·.2)).getD [])
      let vals := "|".intercalate ((after.map fun p => s!"{p.1}={intListStr p.2}") ++ (frozen.map fun p => s!"{p.1}={intListStr p.2.2}"))
      return s!"{vals} {intListStr (getFlat gps)} {intListStr ((sortByName after).flatMap (·.2))}"
  | ["sylvf", m, r, s, v, g] => some <| Id.run do
      let some m := m.toNat? | return "bad-op"
      let some r := r.toNat? | return "bad-op"
      let some sA := parseQIBitsList? s | return "bad-op"
      let some v := parseQIBitsList? v | return "bad-op"
      let some g := parseQIBitsList? g | return "bad-op"
      if sA.size ≠ m || v.size ≠ m * m || g.size ≠ m * m then return "bad-op"
      let sf : Nat → QI := fun a => sA.getD a 0
      if !(sylvDividesAll m r sf) then return "nan"
      let res := sylvBackwardA m (ofTab m v) r sf g
      return qiListStr res.toList
  | _ => none

def handle (args : List String) : String :=
  match handleExtra args with
  | some r => r
  | none =>
  match args with
  | ["gg", n, t, u, qc, g] => Id.run do
      let some n := n.toNat? | return "bad-op"
      let some t := parseIntList? t | return "bad-op"
      let some u := arr? u | return "bad-op"
      let some qc := arr? qc | return "bad-op"
      let some g := arr? g | return "bad-op"
      if qc.size ≠ 2 ^ n || g.size ≠ 2 ^ n then return "bad-op"
      match (RawOp.unitary u t).compile n with
      | some (.unitary U t) =>
        let r := applyGateGrad U t (lookup qc) (lookup g)
        return s!"{strArr (tabulate r.1)}|{strArr (tabulate r.2.1)}|{strArr (tabulateMat r.2.2)}"
      | _ => return "error"
  | ["cg", n, c, t, u, qc, g] => Id.run do
      let some n := n.toNat? | return "bad-op"
      let some c := parseIntList? c | return "bad-op"
      let some t := parseIntList? t | return "bad-op"
      let some u := arr? u | return "bad-op"
      let some qc := arr? qc | return "bad-op"
      let some g := arr? g | return "bad-op"
      if qc.size ≠ 2 ^ n || g.size ≠ 2 ^ n then return "bad-op"
      match (RawOp.control u c t).compile n with
      | some (.control U cc r tn) =>
        let res := applyControlledGrad U cc r tn (lookup qc) (lookup g)
        return s!"{strArr (tabulate res.1)}|{strArr (tabulate res.2.1)}|{strArr (tabulateMat res.2.2)}"
      | _ => return "error"
  | ["sweep", n, prog, tensors, psi, gout] => Id.run do
      let some n := n.toNat? | return "bad-op"
      let some raws := (if prog = "-" then some [] else (prog.splitOn "|").mapM parseRawGate) | return "bad-op"
      let some tens := (if tensors = "-" then some [] else (tensors.splitOn "|").mapM parseTensor) | return "bad-op"
      let some psi := arr? psi | return "bad-op"
      let some gout := arr? gout | return "bad-op"
      if psi.size ≠ 2 ^ n || gout.size ≠ 2 ^ n then return "bad-op"
      let gs := raws.map (·.desc)
      -- the stacked tensors must be exactly the ones `_setup` creates: names in `nameList` order, `rowCount` rows each
      if tens.map (·.1) ≠ nameList gs then return s!"names:{",".intercalate (nameList gs)}"
      if tens.any (fun t => t.2.2.1 ≠ rowCount gs t.1) then return "rows-mismatch"
      let some gates := (raws.zipIdx.mapM fun p => compileGate n gs p.2 p.1) | return "error"
      -- table of the slots in use: key (k, repSlot), value = the row of the stacked tensor that `slotOf` names
      let reps : List (Nat × String × Nat) := ((List.range gs.length).filterMap fun i =>
        match repSlot gs i, slotOf gs i with
        | some sl, some (nm, row) => if sl = i then some (i, nm, row) else none
        | _, _ => none)
      let tab? : Option (ParamTable GInt) := reps.mapM (fun e => do
        let t ← tens.find? fun t => t.1 == e.2.1
        let sz := 2 ^ t.2.1 * 2 ^ t.2.1
        pure (t.2.1, e.1, t.2.2.2.extract (e.2.2 * sz) ((e.2.2 + 1) * sz)))
      let some tab := tab? | return "bad-op"
      let Θ : Params GInt := paramsOf tab
      let zeroTab : ParamTable GInt := tab.map fun e => (e.1, e.2.1, Array.replicate e.2.2.size 0)
      -- guard of `driver_backward_eq`
      if !(gates.all fun g => g.coveredB zeroTab) then return "slot-not-covered"
      let out : Array GInt := forwardA Θ gates psi
      let res : StA GInt := backwardA (n := n) Θ gates (out.map conj, gout, zeroTab)
      -- gradients in the layout of the stacked tensors: per name (nameList order), per row
      let grads := "/".intercalate (tens.flatMap fun t => (List.range t.2.2.1).map fun row =>
        match reps.find? fun e => e.2.1 == t.1 && e.2.2 == row with
        | some e => (match res.2.2.find? fun g => g.1 == t.2.1 && g.2.1 == e.1 with
            | some g => strArr g.2.2
            | none => "missing")
        | none => "unused-row")
      return s!"{strArr out}|{strArr res.2.1}|{grads}"
  | ["stack", descs] => Id.run do
      -- rows of the tensors `CircuitTorchWrapper.forward` hands to `_CircuitFunction`: t<objId> (trainable) / p<position> (placeholder)
      let some gs := (descs.splitOn "|").mapM parseDesc | return "bad-op"
      return "|".intercalate ((nameList gs).map fun nm =>
        s!"{nm}=" ++ ",".intercalate ((stackTags gs nm).map fun t => (if t.1 then "p" else "t") ++ toString t.2))
  | ["xbind", descs, pos] => Id.run do
      -- the row `forward` hands (`set_args`) to the trainable custom gate at each given position = the stacked row `_setup` assigns to it
      let some gs := (descs.splitOn "|").mapM parseDesc | return "bad-op"
      let some pos := parseNatList? pos | return "bad-op"
      return ",".intercalate (pos.map fun i => match slotOf gs i with
        | some (nm, r) => (match (stackTags gs nm)[r]? with
            | some t => (if t.1 then "p" else "t") ++ toString t.2
            | none => "missing")
        | none => "-")
  | ["phrows", descs] => Id.run do
      -- rows of `hgate_torch_dict[name]` after `setP`: the placeholder gates of that name in circuit order
      let some gs := (descs.splitOn "|").mapM parseDesc | return "bad-op"
      return "|".intercalate (((nameList gs).filter fun nm => !(placeholderPositions gs nm).isEmpty).map fun nm =>
        s!"{nm}=" ++ ",".intercalate ((placeholderPositions gs nm).map toString))
  | ["ipg", n, q0, q1, c, tags] => Id.run do
      let some n := n.toNat? | return "bad-op"
      let some q0 := arr? q0 | return "bad-op"
      let some q1 := arr? q1 | return "bad-op"
      let some c := arr? c | return "bad-op"
      if q0.size ≠ 2 ^ n || q1.size ≠ 2 ^ n || c.size ≠ 1 || tags.length ≠ 2 then return "bad-op"
      let r := innerProductGrad (n := n) (lookup q0) (lookup q1) (c.getD 0 0)
      let a := if tags.toList.getD 0 '0' == '1' then strArr (tabulate r.1) else "-"
      let b := if tags.toList.getD 1 '0' == '1' then strArr (tabulate r.2) else "-"
      return s!"{a}|{b}"
  | ["slots", descs] => Id.run do
      let some gs := (descs.splitOn "|").mapM parseDesc | return "bad-op"
      return "|".intercalate ((List.range gs.length).map fun i => match slotOf gs i with
        | some (nm, r) => s!"{nm}:{r}"
        | none => "-")
  | ["kl", l, m, seqs, q, gs] => Id.run do
      let some l := l.toNat? | return "bad-op"
      let some m := m.toNat? | return "bad-op"
      let some seqs := (seqs.splitOn "/").mapM (parseOpSeq m) | return "error"
      let some q := arr? q | return "bad-op"
      let some gs := (gs.splitOn "/").mapM arr? | return "bad-op"
      if q.size ≠ l * 2 ^ m || gs.length ≠ seqs.length || gs.any (·.size ≠ l * l) then return "bad-op"
      let row (i : Nat) : Vec m GInt := lookup (q.extract (i * 2 ^ m) ((i + 1) * 2 ^ m))
      let fwd := "/".intercalate (seqs.map fun ops =>
        gintListStr ((List.range l).flatMap fun i => (List.range l).map fun j => klForward l ops row i j))
      let zero : Array GInt := Array.replicate (l * 2 ^ m) 0
      let grad := (seqs.zip gs).foldl (fun acc sg =>
        let G : Nat → Nat → GInt := fun i j => sg.2.getD (i * l + j) 0
        let add : Array GInt := ((List.range l).flatMap fun i =>
          (tabulate (klBackward l sg.1 (dagRev sg.1) row G i)).toList).toArray
        (acc.zip add).map fun p => p.1 + p.2) zero
      return s!"{fwd}|{strArr grad}"
  | ["sylv", m, r, s, v, g] => Id.run do
      let some m := m.toNat? | return "bad-op"
      let some r := r.toNat? | return "bad-op"
      let some s := parseIntList? s | return "bad-op"
      let some v := arr? v | return "bad-op"
      let some g := arr? g | return "bad-op"
      if s.length ≠ m || v.size ≠ m * m || g.size ≠ m * m then return "bad-op"
      let sA := s.toArray
      let sf : Nat → QI := fun a => ⟨(sA.getD a 0 : Int), 0⟩
      -- division guard (all passes): a zero sum of two different roots is a division by zero in the code (inf/NaN)
      if !(sylvDividesAll m r sf) then return "nan"
      let V : Nat → Nat → QI := fun i j => qiOfG (v.getD (i * m + j) 0)
      let res := sylvBackwardA m V r sf (g.map qiOfG)
      return qiListStr res.toList
  | ["flat", shapes, theta] => Id.run do
      -- shapes: `name:len|...` in registration order; theta: integers
      let some sh := (shapes.splitOn "|").mapM (fun s => match s.splitOn ":" with
        | [nm, len] => do let len ← len.toNat?; pure (nm, len)
        | _ => none) | return "bad-op"
      let some theta := parseIntList? theta | return "bad-op"
      let sorted := sortByName sh
      if theta.length ≠ (sorted.map (·.2)).sum then return "bad-op"
      let ps := unflatten sorted theta
      let back := flatten ps
      return "|".intercalate (ps.map fun p => s!"{p.1}={intListStr p.2}") ++ s!" {intListStr back}"
  | _ => "bad-op"

end Numqi.Driver.C04
