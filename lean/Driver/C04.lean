/- line-protocol handlers for C04 (hand-written backward passes) -/
import Driver.Loop
import NumqiModel.Backward

namespace Numqi.Driver.C04
open Numqi Numqi.Backward

def arr? (s : String) : Option (Array GInt) :=
  if s = "-" || s = "" then some #[] else (parseGIntList? s).map List.toArray

def strArr (a : Array GInt) : String := gintListStr a.toList

/-- exact division in ℚ[i] (only the driver needs it: the Sylvester rule divides by `s_a + s_b`) -/
instance : Div QI := ⟨fun a b =>
  let d := QI.normSq b
  ⟨(a.re * b.re + a.im * b.im) / d, (a.im * b.re - a.re * b.im) / d⟩⟩

/-- one gate of a sweep program: `u:<t>:F:<U>`, `u:<t>:P:<slot>`, `c:<c>:<t>:F:<U>`, `c:<c>:<t>:P:<slot>` -/
def parseGate (n : Nat) (s : String) : Option (PGate n GInt) :=
  let mk (raw : RawOp GInt) (slot : Option Nat) : Option (PGate n GInt) :=
    match raw.compile n with
    | some (.unitary U t) => some (.unitary (match slot with | some sl => .param sl | none => .fixed U) t)
    | some (.control U c r tn) => some (.control (match slot with | some sl => .param sl | none => .fixed U) c r tn)
    | _ => none
  match s.splitOn ":" with
  | ["u", t, "F", u] => do
      let t ← parseIntList? t; let u ← arr? u
      mk (.unitary u t) none
  | ["u", t, "P", sl] => do
      let t ← parseIntList? t; let sl ← sl.toNat?
      mk (.unitary (Array.replicate (2 ^ t.length * 2 ^ t.length) 0) t) (some sl)
  | ["c", c, t, "F", u] => do
      let c ← parseIntList? c; let t ← parseIntList? t; let u ← arr? u
      mk (.control u c t) none
  | ["c", c, t, "P", sl] => do
      let c ← parseIntList? c; let t ← parseIntList? t; let sl ← sl.toNat?
      mk (.control (Array.replicate (2 ^ t.length * 2 ^ t.length) 0) c t) (some sl)
  | _ => none

/-- parameter table entry `k:slot:<entries>` -/
def parseParam (s : String) : Option (Nat × Nat × Array GInt) :=
  match s.splitOn ":" with
  | [k, sl, u] => do
      let k ← k.toNat?; let sl ← sl.toNat?; let u ← arr? u
      if u.size = 2 ^ k * 2 ^ k then pure (k, sl, u) else none
  | _ => none

def paramsOf (tab : List (Nat × Nat × Array GInt)) : Params GInt :=
  fun k s => match tab.find? fun e => e.1 == k && e.2.1 == s with
    | some e => lookupMat e.2.2
    | none => fun _ _ => 0

def parseOpSeq (m : Nat) (s : String) : Option (List (Op m GInt)) :=
  if s = "-" then some [] else
    (s.splitOn "|").mapM fun st => match st.splitOn ":" with
      | ["u", t, u] => do
          let t ← parseIntList? t; let u ← arr? u
          (RawOp.unitary u t).compile m
      | _ => none

def parseDesc (s : String) : Option GateDesc :=
  match s.splitOn ":" with
  | [nm, oid, tr, ph] => do
      let oid ← oid.toNat?
      pure ⟨nm, oid, tr == "1", ph == "1"⟩
  | _ => none

def qiOfG (g : GInt) : QI := QI.ofGInt g
def qiListStr (l : List QI) : String := ";".intercalate (l.map QI.toStr)


/-- `re,im` as two binary64 bit patterns, decoded exactly (inf/nan rejected) -/
def parseQIBits? (t : String) : Option QI :=
  match t.splitOn "," with
  | [a, b] => do
      let x ← a.toNat?; let y ← b.toNat?
      if x / 2 ^ 52 % 2048 = 2047 || y / 2 ^ 52 % 2048 = 2047 then none
      else pure ⟨ratOfFloatBits x, ratOfFloatBits y⟩
  | _ => none

def parseQIBitsList? (s : String) : Option (Array QI) :=
  if s = "-" || s = "" then some #[] else ((s.splitOn ";").mapM parseQIBits?).map List.toArray

/-- `name:req:len` -/
def parseShape (s : String) : Option (String × Bool × Nat) :=
  match s.splitOn ":" with
  | [nm, rq, len] => do let len ← len.toNat?; pure (nm, rq == "1", len)
  | _ => none

/-- `name=ints` -/
def parseNamed (s : String) : Option (String × List Int) :=
  match s.splitOn "=" with
  | [nm, v] => do let v ← parseIntList? v; pure (nm, v)
  | _ => none

def handleExtra (args : List String) : Option String :=
  match args with
  | ["handoff", shapes, init, theta, grads] => some <| Id.run do
      -- shapes `name:req:len|…` (registration order), init `name=ints|…` (current values), theta, grads `name=ints|…` (trainable only)
      let some sh := (shapes.splitOn "|").mapM parseShape | return "bad-op"
      let some ini := (init.splitOn "|").mapM parseNamed | return "bad-op"
      let some theta := parseIntList? theta | return "bad-op"
      let some gr := (if grads = "-" then some [] else (grads.splitOn "|").mapM parseNamed) | return "bad-op"
      if ini.length ≠ sh.length then return "bad-op"
      let ps : ParamList Int := (sh.zip ini).map fun p => (p.1.1, p.1.2.1, p.2.2)
      if (ps.zip sh).any (fun p => p.1.2.2.length ≠ p.2.2.2) then return "bad-op"
      if theta.length ≠ (getFlat ps).length then return "bad-op"
      let after := afterSet ps theta
      let gps : ParamList Int := sh.map fun p => (p.1, p.2.1, ((gr.find? fun g => g.1 == p.1).map (·.2)).getD [])
      let vals := "|".intercalate (after.map fun p => s!"{p.1}={intListStr p.2.2}")
      return s!"{vals} {intListStr (getFlat gps)} {intListStr (getFlat after)}"
  | ["sylvf", m, r, s, v, g] => some <| Id.run do
      let some m := m.toNat? | return "bad-op"
      let some r := r.toNat? | return "bad-op"
      let some sA := parseQIBitsList? s | return "bad-op"
      let some v := parseQIBitsList? v | return "bad-op"
      let some g := parseQIBitsList? g | return "bad-op"
      if sA.size ≠ m || v.size ≠ m * m || g.size ≠ m * m then return "bad-op"
      let z : QI := 0
      if (List.range m).any (fun a => (List.range m).any fun b => a ≠ b && sA.getD a z == z && sA.getD b z == z) then
        return "nan"
      let V : Nat → Nat → QI := fun i j => v.getD (i * m + j) 0
      let step (sG : (Nat → QI) × Array QI) : (Nat → QI) × Array QI :=
        let Gf : Nat → Nat → QI := fun i j => sG.2.getD (i * m + j) 0
        let X := sylvStep m V sG.1 Gf
        (fun a => sG.1 a * sG.1 a, ((List.range m).flatMap fun i => (List.range m).map fun j => X i j).toArray)
      let res := (List.range r).foldl (fun acc _ => step acc) ((fun a => sA.getD a 0), g)
      return qiListStr res.2.toList
  | _ => none

def handle (args : List String) : String :=
  match handleExtra args with
  | some r => r
  | none =>
  match args with
  | ["gg", n, t, u, qc, g] => Id.run do
      let some n := n.toNat? | return "bad-op"
      let some t := parseIntList? t | return "bad-op"
      let some u := arr? u | return "bad-op"
      let some qc := arr? qc | return "bad-op"
      let some g := arr? g | return "bad-op"
      if qc.size ≠ 2 ^ n || g.size ≠ 2 ^ n then return "bad-op"
      match (RawOp.unitary u t).compile n with
      | some (.unitary U t) =>
        let r := applyGateGrad U t (lookup qc) (lookup g)
        return s!"{strArr (tabulate r.1)}|{strArr (tabulate r.2.1)}|{strArr (tabulateMat r.2.2)}"
      | _ => return "error"
  | ["cg", n, c, t, u, qc, g] => Id.run do
      let some n := n.toNat? | return "bad-op"
      let some c := parseIntList? c | return "bad-op"
      let some t := parseIntList? t | return "bad-op"
      let some u := arr? u | return "bad-op"
      let some qc := arr? qc | return "bad-op"
      let some g := arr? g | return "bad-op"
      if qc.size ≠ 2 ^ n || g.size ≠ 2 ^ n then return "bad-op"
      match (RawOp.control u c t).compile n with
      | some (.control U cc r tn) =>
        let res := applyControlledGrad U cc r tn (lookup qc) (lookup g)
        return s!"{strArr (tabulate res.1)}|{strArr (tabulate res.2.1)}|{strArr (tabulateMat res.2.2)}"
      | _ => return "error"
  | ["sweep", n, prog, params, psi, gout] => Id.run do
      let some n := n.toNat? | return "bad-op"
      let some gates := (if prog = "-" then some [] else (prog.splitOn "|").mapM (parseGate n)) | return "error"
      let some tab := (if params = "-" then some [] else (params.splitOn "|").mapM parseParam) | return "bad-op"
      let some psi := arr? psi | return "bad-op"
      let some gout := arr? gout | return "bad-op"
      if psi.size ≠ 2 ^ n || gout.size ≠ 2 ^ n then return "bad-op"
      let Θ := paramsOf tab
      -- evaluate through flat arrays after every step (keeps the closures shallow)
      let out : Array GInt := gates.foldl (fun a g => tabulate (n := n) (g.apply Θ (lookup a))) psi
      let qc0 : Array GInt := out.map conj
      let init : Array GInt × Array GInt × List (Nat × Nat × Array GInt) :=
        (qc0, gout, tab.map fun e => (e.1, e.2.1, Array.replicate e.2.2.size 0))
      let res := gates.foldr (fun gate acc =>
        let G : Params GInt := paramsOf acc.2.2
        let r := gate.back Θ (lookup (n := n) acc.1, lookup (n := n) acc.2.1, G)
        (tabulate r.1, tabulate r.2.1, acc.2.2.map fun e => (e.1, e.2.1, tabulateMat (k := e.1) (r.2.2 e.1 e.2.1)))) init
      let grads := "/".intercalate (res.2.2.map fun e => strArr e.2.2)
      return s!"{strArr out}|{strArr res.2.1}|{grads}"
  | ["slots", descs] => Id.run do
      let some gs := (descs.splitOn "|").mapM parseDesc | return "bad-op"
      return "|".intercalate ((List.range gs.length).map fun i => match slotOf gs i with
        | some (nm, r) => s!"{nm}:{r}"
        | none => "-")
  | ["kl", l, m, seqs, q, gs] => Id.run do
      let some l := l.toNat? | return "bad-op"
      let some m := m.toNat? | return "bad-op"
      let some seqs := (seqs.splitOn "/").mapM (parseOpSeq m) | return "error"
      let some q := arr? q | return "bad-op"
      let some gs := (gs.splitOn "/").mapM arr? | return "bad-op"
      if q.size ≠ l * 2 ^ m || gs.length ≠ seqs.length || gs.any (·.size ≠ l * l) then return "bad-op"
      let row (i : Nat) : Vec m GInt := lookup (q.extract (i * 2 ^ m) ((i + 1) * 2 ^ m))
      let fwd := "/".intercalate (seqs.map fun ops =>
        gintListStr ((List.range l).flatMap fun i => (List.range l).map fun j => klForward l ops row i j))
      let zero : Array GInt := Array.replicate (l * 2 ^ m) 0
      let grad := (seqs.zip gs).foldl (fun acc sg =>
        let G : Nat → Nat → GInt := fun i j => sg.2.getD (i * l + j) 0
        let add : Array GInt := ((List.range l).flatMap fun i =>
          (tabulate (klBackward l sg.1 (dagRev sg.1) row G i)).toList).toArray
        (acc.zip add).map fun p => p.1 + p.2) zero
      return s!"{fwd}|{strArr grad}"
  | ["sylv", m, r, s, v, g] => Id.run do
      let some m := m.toNat? | return "bad-op"
      let some r := r.toNat? | return "bad-op"
      let some s := parseIntList? s | return "bad-op"
      let some v := arr? v | return "bad-op"
      let some g := arr? g | return "bad-op"
      if s.length ≠ m || v.size ≠ m * m || g.size ≠ m * m then return "bad-op"
      let sA := s.toArray
      if (List.range m).any (fun a => (List.range m).any fun b => a ≠ b && sA.getD a 0 == 0 && sA.getD b 0 == 0) then
        return "nan"
      let sf : Nat → QI := fun a => ⟨(sA.getD a 0 : Int), 0⟩
      let V : Nat → Nat → QI := fun i j => qiOfG (v.getD (i * m + j) 0)
      let G : Nat → Nat → QI := fun i j => qiOfG (g.getD (i * m + j) 0)
      -- tabulate after every pass
      let step (sG : (Nat → QI) × Array QI) : (Nat → QI) × Array QI :=
        let Gf : Nat → Nat → QI := fun i j => sG.2.getD (i * m + j) 0
        let X := sylvStep m V sG.1 Gf
        (fun a => sG.1 a * sG.1 a, ((List.range m).flatMap fun i => (List.range m).map fun j => X i j).toArray)
      let init : (Nat → QI) × Array QI := (sf, ((List.range m).flatMap fun i => (List.range m).map fun j => G i j).toArray)
      let res := (List.range r).foldl (fun acc _ => step acc) init
      return qiListStr res.2.toList
  | ["flat", shapes, theta] => Id.run do
      -- shapes: `name:len|...` in registration order; theta: integers
      let some sh := (shapes.splitOn "|").mapM (fun s => match s.splitOn ":" with
        | [nm, len] => do let len ← len.toNat?; pure (nm, len)
        | _ => none) | return "bad-op"
      let some theta := parseIntList? theta | return "bad-op"
      let sorted := sortByName sh
      if theta.length ≠ (sorted.map (·.2)).sum then return "bad-op"
      let ps := unflatten sorted theta
      let back := flatten ps
      return "|".intercalate (ps.map fun p => s!"{p.1}={intListStr p.2}") ++ s!" {intListStr back}"
  | _ => "bad-op"

end Numqi.Driver.C04
