import Driver.Loop
import Driver.C17

def main : IO Unit := Numqi.Driver.run Numqi.Driver.C17.handle
