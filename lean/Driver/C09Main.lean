import Driver.Loop
import Driver.C09

def main : IO Unit := Numqi.Driver.run Numqi.Driver.C09.handle
