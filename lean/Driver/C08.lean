/- line-protocol handlers for C08 (Pauli encodings) -/
import Driver.Loop
import NumqiModel.Pauli
import Driver.C08Batch
import Driver.C08Wrap

namespace Numqi.Driver.C08
open Numqi Numqi.Pauli

def allBits (n : Nat) : List (List Bool) :=
  match n with
  | 0 => [[]]
  | k + 1 => (allBits k).flatMap fun l => [false :: l, true :: l] |>.map id

/-- all bit strings of length n in lexicographic (MSB-first) order -/
def allBitsMSB : Nat → List (List Bool)
  | 0 => [[]]
  | k + 1 => (allBitsMSB k).map (false :: ·) ++ (allBitsMSB k).map (true :: ·)

def expChar : Option Nat → Char
  | none => '.'
  | some 0 => '0' | some 1 => '1' | some 2 => '2' | some _ => '3'

def symsStr (l : List Nat) : String := String.ofList (l.map fun s => "IXYZ".toList.getD s '?')
def parseSyms? (s : String) : Option (List Nat) :=
  s.toList.mapM fun c => match c with
    | 'I' => some 0 | 'X' => some 1 | 'Y' => some 2 | 'Z' => some 3 | _ => none

def handle (args : List String) : String :=
  match args with
  | "pofindex" :: _ | "pofstr" :: _ | "pofF2" :: _ | "pstr" :: _ | "pgroup" :: _ | "ofindexns" :: _ | "toindexns" :: _
  | "rpauli" :: _ => Numqi.Driver.C08Wrap.handle args   -- wrapper rows (model: NumqiModel/PauliWrap.lean)
  | ["mul", n, a, b] => Id.run do
      let some n := n.toNat? | return "bad-op"
      let some a := parseBits? a | return "bad-op"
      let some b := parseBits? b | return "bad-op"
      if a.length ≠ 2*n+2 || b.length ≠ 2*n+2 then return "bad-op"
      return bitsStr (Pauli.mul (ofF2List n a) (ofF2List n b)).toF2List
  | ["inv", n, a] => Id.run do
      let some n := n.toNat? | return "bad-op"
      let some a := parseBits? a | return "bad-op"
      if a.length ≠ 2*n+2 then return "bad-op"
      return bitsStr (Pauli.inv (ofF2List n a)).toF2List
  | ["comm", n, a, b] => Id.run do
      let some n := n.toNat? | return "bad-op"
      let some a := parseBits? a | return "bad-op"
      let some b := parseBits? b | return "bad-op"
      if a.length ≠ 2*n+2 || b.length ≠ 2*n+2 then return "bad-op"
      return if Pauli.commutes (ofF2List n a) (ofF2List n b) then "1" else "0"
  | ["tostr", n, a] => Id.run do
      let some n := n.toNat? | return "bad-op"
      let some a := parseBits? a | return "bad-op"
      if a.length ≠ 2*n+2 then return "bad-op"
      let (s, e) := (ofF2List n a).toStr
      return s!"{symsStr s} {e}"
  | ["ofstr", n, s, e] => Id.run do
      let some n := n.toNat? | return "bad-op"
      let some s := parseSyms? s | return "bad-op"
      let some e := e.toNat? | return "bad-op"
      if s.length ≠ n || e ≥ 4 then return "bad-op"
      return bitsStr (Pauli.ofStr n s e).toF2List
  | ["toindex", n, a] => Id.run do
      let some n := n.toNat? | return "bad-op"
      let some a := parseBits? a | return "bad-op"
      if a.length ≠ 2*n+2 then return "bad-op"
      return toString (ofF2List n a).toIndex
  | ["ofindex", n, i] => Id.run do
      let some n := n.toNat? | return "bad-op"
      let some i := i.toNat? | return "bad-op"
      if i ≥ 4^n then return "error:assert"   -- goes through `_pauli_index_int_to_str`
      return bitsStr (Pauli.ofIndex n i).toF2List
  | ["idx2str", n, i] => Id.run do
      let some n := n.toNat? | return "bad-op"
      let some i := i.toNat? | return "bad-op"
      if i ≥ 4^n then return "error:assert"   -- `_pauli_index_int_to_str` asserts 0 ≤ index < 4^n
      return symsStr (Pauli.indexToSyms n i)
  | ["str2idx", s] => Id.run do
      let some s := parseSyms? s | return "bad-op"
      return toString (Pauli.symsToIndex s)
  | ["herm", n, a] => Id.run do
      let some n := n.toNat? | return "bad-op"
      let some a := parseBits? a | return "bad-op"
      if a.length ≠ 2*n+2 then return "bad-op"
      return if (ofF2List n a).hermitianFlag then "1" else "0"
  | [kind, n, a] => Id.run do
      -- "mat": functional form; "full": per-qubit-factor (Kronecker) form
      if kind ≠ "mat" && kind ≠ "full" then return Numqi.Driver.C08Batch.handle [kind, n, a]
      let some n := n.toNat? | return "bad-op"
      let some a := parseBits? a | return "bad-op"
      if a.length ≠ 2*n+2 then return "bad-op"
      let p := ofF2List n a
      let bs := (allBitsMSB n).map (Bits.ofList n)
      let f := if kind = "mat" then Pauli.matExp p else Pauli.fullMatrixExp p
      return String.ofList (bs.flatMap fun b' => bs.map fun b => expChar (f b' b))
  | args => Numqi.Driver.C08Batch.handle args   -- batched conversions and from_np_list (model: NumqiModel/PauliBatch.lean)

end Numqi.Driver.C08
