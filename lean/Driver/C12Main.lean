import Driver.Loop
import Driver.C12

def main : IO Unit := Numqi.Driver.run Numqi.Driver.C12.handle
