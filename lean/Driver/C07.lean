/- line-protocol handlers for C07 (Clifford tableau simulation) -/
import Driver.Loop
import NumqiModel.Clifford

namespace Numqi.Driver.C07
open Numqi Numqi.Clifford

def natOfBits (l : List Bool) : Nat := l.foldr (fun b acc => 2 * acc + b.toNat) 0
def bitsOfNat (m v : Nat) : List Bool := (List.range m).map fun j => v.testBit j
def vecStr (m v : Nat) : String := bitsStr (bitsOfNat m v)

def parseVec? (m : Nat) (s : String) : Option Nat := do
  let l ← parseBits? s
  if l.length ≠ m then none else some (natOfBits l)

/-- `"0110;1001;…"` (rows of `cli_mat`) ↦ list of packed columns -/
def parseCols? (m : Nat) (s : String) : Option (List Nat) := do
  let rows ← (s.splitOn ";").mapM (parseVec? m)
  if rows.length ≠ m then none
  else some ((List.range m).map fun j =>
    (List.range m).foldl (fun acc a => if (rows.getD a 0).testBit j then acc ^^^ 2 ^ a else acc) 0)

/-- rows of `cli_mat` from the packed columns -/
def colsStr (m : Nat) (cols : List Nat) : String :=
  ";".intercalate ((List.range m).map fun a => bitsStr ((List.range m).map fun j => (cols.getD j 0).testBit a))

def tabStr (t : Tab) : String := s!"{vecStr (2 * t.n) t.r} {colsStr (2 * t.n) t.cols}"

def parsePauli? (len : Nat) (s : String) : Option PauliB := do
  let l ← parseBits? s
  if l.length ≠ len + 2 then none
  else some ⟨l.getD 0 false, l.getD 1 false, natOfBits (l.drop 2)⟩

def pauliStr (len : Nat) (p : PauliB) : String := bitsStr ([p.s0, p.s1] ++ bitsOfNat len p.v)

def parseMat? (m : Nat) (s : String) : Option Clifford.Mat := do
  let es ← parseGIntList? s
  if es.length ≠ m * m then none
  else some ((List.range m).map fun i => (List.range m).map fun j => es.getD (i * m + j) 0)

def matStr (A : Clifford.Mat) : String := gintListStr A.flatten

def errStr : Err → String
  | .assert => "error:assert"
  | .value => "error:ValueError"

def gateStr (g : Gate) : String := g.key.name ++ ":" ++ ":".intercalate (g.idx.map toString)

def outStr : Out → String
  | .unit => "ok"
  | .err e => errStr e
  | .tab t => s!"{t.n} {tabStr t}"
  | .pauli n p => pauliStr (2 * n) p
  | .gates gs => if gs.isEmpty then "-" else ",".intercalate (gs.map gateStr)

def parseOp? (s : String) : Option Clifford.Op :=
  match s.splitOn ":" with
  | ["q"] => some .query
  | ["e"] => some .exportCirc
  | ["a", bits] => do
      let l ← parseBits? bits
      if l.length < 2 then none
      else some (.applyPauli ⟨l.getD 0 false, l.getD 1 false, natOfBits (l.drop 2)⟩ (l.length - 2))
  | "I" :: _ => some .gateI
  | ["r1", k, q] => do
      -- random_one_qubit_gate(q) with the scripted raw draw k
      let k ← k.toNat?
      let q ← q.toInt?
      if k ≥ 6 then none else some (randomOneOp k q)
  | ["r2", k, a, b] => do
      let k ← k.toNat?
      let a ← a.toInt?
      let b ← b.toInt?
      if k ≥ 3 then none else some (randomTwoOp k a b)
  | name :: args => do
      let key ← GateKey.ofName? name
      let args ← args.mapM String.toInt?
      some (.append key args)
  | _ => none

def parseQs? (s : String) : Option (List Nat) := (s.splitOn ",").mapM String.toNat?

def handle (args : List String) : String :=
  match args with
  | ["apply", n, p, r, S] => Id.run do
      let some n := n.toNat? | return "bad-op"
      if n = 0 then return "bad-op"
      let some p := parsePauli? (2 * n) p | return "bad-op"
      let some r := parseVec? (2 * n) r | return "bad-op"
      let some cols := parseCols? (2 * n) S | return "bad-op"
      return pauliStr (2 * n) (applyOnPauli p ⟨n, r, cols⟩)
  | ["mul", n, rx, Sx, ry, Sy] => Id.run do
      let some n := n.toNat? | return "bad-op"
      if n = 0 then return "bad-op"
      let some rx := parseVec? (2 * n) rx | return "bad-op"
      let some cx := parseCols? (2 * n) Sx | return "bad-op"
      let some ry := parseVec? (2 * n) ry | return "bad-op"
      let some cy := parseCols? (2 * n) Sy | return "bad-op"
      match multiply ⟨n, rx, cx⟩ ⟨n, ry, cy⟩ with
      | none => return "error:assert"
      | some z => return tabStr z
  | ["pmul", n, a, b] => Id.run do
      let some n := n.toNat? | return "bad-op"
      let some a := parsePauli? (2 * n) a | return "bad-op"
      let some b := parsePauli? (2 * n) b | return "bad-op"
      return pauliStr (2 * n) (mulB n a b)
  | ["colsp", n, S] => Id.run do
      let some n := n.toNat? | return "bad-op"
      if n = 0 then return "bad-op"
      let some cols := parseCols? (2 * n) S | return "bad-op"
      return if (Tab.colSp ⟨n, 0, cols⟩) then "1" else "0"
  | ["randcliff", n, rbits, tup, s1, s2] => Id.run do
      -- `s1`, `s2`: the two scripted integers (seeds) whose generators produced the raw draws; not used by the model
      let some _ := s1.toNat? | return "bad-op"
      let some _ := s2.toNat? | return "bad-op"
      let some n := n.toNat? | return "bad-op"
      if n = 0 then return "bad-op"
      let some r := parseVec? (2 * n) rbits | return "bad-op"
      let some t := parseNatList? tup | return "bad-op"
      if t.length ≠ 2 * n then return "bad-op"
      let pairs := (List.range n).map fun i => (t.getD (2 * i) 0, t.getD (2 * i + 1) 0)
      if !SpF2.inRange pairs then return "bad-op"
      return tabStr (randCliffordGroup n r pairs)
  | ["rpauli", n, req, raw] => Id.run do
      let some n := n.toNat? | return "bad-op"
      let some l := parseBits? raw | return "bad-op"
      if l.length ≠ 2 * n + 2 then return "bad-op"
      let some req := (match req with | "N" => some none | "H" => some (some true) | "A" => some (some false) | _ => none) | return "bad-op"
      return bitsStr (randPauliPost req (Pauli.ofF2List n l)).toF2List
  | ["psubeq", n, sub] => Id.run do
      let some n := n.toNat? | return "bad-op"
      if n = 0 || n > 2 then return "bad-op"
      let some sub := parseNatList? sub | return "bad-op"
      if sub.isEmpty || sub.any (· ≥ 4 ^ n) then return "bad-op"
      let lexLe : List Nat → List Nat → Bool := fun a b => decide (a ≤ b)
      let out := (subsetEquivalent n sub).mergeSort lexLe
      return "|".intercalate (out.map natListStr)
  | ["psubstab", n, sub] => Id.run do
      let some n := n.toNat? | return "bad-op"
      if n = 0 || n > 2 then return "bad-op"
      let some sub := parseNatList? sub | return "bad-op"
      if sub.isEmpty || sub.any (· ≥ 4 ^ n) then return "bad-op"
      let out := subsetStabilizer n sub
      return if out.isEmpty then "-" else "|".intercalate (out.map fun t => natListStr (t.flatMap fun p => [p.1, p.2]))
  | ["opmat", n, key, qs] => Id.run do
      -- the operator of the exported gate as C03 defines it (`embed` / `ctrlEmbed`), the constant `gate_conjugation_placed` is about
      let some n := n.toNat? | return "bad-op"
      if n = 0 || n > 4 then return "bad-op"
      let some key := GateKey.ofName? key | return "bad-op"
      let some qs := parseQs? qs | return "bad-op"
      if qs.length ≠ key.arity || qs.any (· ≥ n) || (qs.length = 2 && qs.getD 0 0 = qs.getD 1 0) then return "bad-op"
      let G := gateOpG n ⟨key, qs⟩
      let idx := List.range (2 ^ n)
      return gintListStr (idx.flatMap fun r => idx.map fun c => G (Bits.ofNat n r) (Bits.ofNat n c))
  | ["paulimat", n, p] => Id.run do
      -- C08's matrix of the binary Pauli (`Pauli.matExp`), the constant `PM` of the theorems, over ℤ[i]
      let some n := n.toNat? | return "bad-op"
      if n = 0 || n > 4 then return "bad-op"
      let some p := parsePauli? (2 * n) p | return "bad-op"
      let idx := List.range (2 ^ n)
      return gintListStr (idx.flatMap fun r => idx.map fun c => pauliEntG n p (Bits.ofNat n r) (Bits.ofNat n c))
  | ["a2f", k, M] => Id.run do
      let some k := k.toNat? | return "bad-op"
      if k = 0 || k > 4 then return "bad-op"
      let some U := parseMat? (2 ^ k) M | return "bad-op"
      match arrayToF2 k U with
      | none => return "error:assert"
      | some t => return tabStr t
  | ["gate", key] => Id.run do
      let some key := GateKey.ofName? key | return "bad-op"
      return s!"{key.scale.toStr} {matStr key.mat}"
  | ["dagf2", key] => Id.run do
      let some key := GateKey.ofName? key | return "bad-op"
      match basicDaggerF2 key with
      | none => return "error:assert"
      | some t => return tabStr t
  | ["conj", n, key, qs, p] => Id.run do
      -- F2 form of G† P G for the gate on qubits `qs` of `n`, through dense matrices
      let some n := n.toNat? | return "bad-op"
      if n = 0 || n > 4 then return "bad-op"
      let some key := GateKey.ofName? key | return "bad-op"
      let some qs := parseQs? qs | return "bad-op"
      if qs.length ≠ key.arity || qs.any (· ≥ n) || (qs.length = 2 && qs.getD 0 0 = qs.getD 1 0) then return "bad-op"
      let some p := parsePauli? (2 * n) p | return "bad-op"
      let m := 2 ^ n
      let G := gateOnN n key.mat qs
      let W := Mat.mul m (Mat.mul m (Mat.dagger m G) (pauliMat n p)) G
      match ofFullMatrix n key.scale W with
      | none => return "error:assert"
      | some q => return pauliStr (2 * n) q
  | ["r2draws", a, b] => Id.run do
      -- number of raw draws `random_two_qubit_gate(a, b)` consumes (`randomTwoDraws`: none when the early assert fires)
      let some a := a.toInt? | return "bad-op"
      let some b := b.toInt? | return "bad-op"
      return toString (randomTwoDraws a b)
  | ["exportraw", gates] => Id.run do
      -- the exported circuit as raw C03 gates (`exportRawG`), and whether C03's index resolution accepts it on `numQubit` qubits
      let some gs := (gates.splitOn ",").mapM (fun s => match s.splitOn ":" with
        | name :: idx => do
            let key ← GateKey.ofName? name
            let idx ← idx.mapM String.toNat?
            if idx.length ≠ key.arity then none else some (⟨key, idx⟩ : Gate)
        | _ => none) | return "bad-op"
      let rawStr : RawOp GInt → String := fun
        | .unitary U t => s!"U {gintListStr U.toList} {natListStr (t.map Int.toNat)}"
        | .control U c t => s!"C {gintListStr U.toList} {natListStr (c.map Int.toNat)} {natListStr (t.map Int.toNat)}"
        | _ => "?"
      let body := "|".intercalate (gs.map fun g => rawStr (exportRawG g))
      match Clifford.numQubit gs with
      | .ok n => return s!"{n} {(compileCircuit n (gs.map exportRawG)).isSome} {body}"
      | .error _ => return s!"error {body}"
  | ["hist", ops] => Id.run do
      let some ops := (if ops = "-" then some [] else (ops.splitOn ";").mapM parseOp?) | return "bad-op"
      return "|".intercalate ((Clifford.run St.init ops).map outStr)
  | _ => "bad-op"

end Numqi.Driver.C07
