/- line-protocol handlers for C07 (stub: not built yet) -/
import Driver.Loop

namespace Numqi.Driver.C07

def handle (_args : List String) : String := "bad-op"

end Numqi.Driver.C07
