import Driver.Loop
import Driver.C18

def main : IO Unit := Numqi.Driver.run Numqi.Driver.C18.handle
