import Driver.Loop
import Driver.C18
import Driver.C18Roots

/-- `rootsupb …` ops (roots-of-unity UPB families, model `NumqiModel/CatalogueRoots.lean`) go to their own handler -/
def handleC18 (args : List String) : String :=
  match args with
  | "rootsupb" :: _ => Numqi.Driver.C18Roots.handle args
  | _ => Numqi.Driver.C18.handle args

def main : IO Unit := Numqi.Driver.run handleC18
