import Driver.Loop
import Driver.C16

def main : IO Unit := Numqi.Driver.run Numqi.Driver.C16.handle
