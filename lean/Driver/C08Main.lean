import Driver.Loop
import Driver.C08

def main : IO Unit := Numqi.Driver.run Numqi.Driver.C08.handle
