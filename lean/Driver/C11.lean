/- line-protocol handlers for C11 (projective measurement on an ascending qubit subset) -/
import Driver.Loop
import Driver.C03
import NumqiModel.Measure

namespace Numqi.Driver.C11
open Numqi Numqi.Driver.C03

section
variable {α : Type} [Add α] [Sub α] [Neg α] [Mul α] [Zero α] [One α] [Conj α]

def handleR (car : Carrier α) (args : List String) : String :=
  match args with
  | ["measure", n, s, ind1, psi] => Id.run do
      let some n := n.toNat? | return "bad-op"
      let some s := parseIdx? s | return "bad-op"
      let some ind1 := ind1.toNat? | return "bad-op"
      let some psi := parseArr car psi | return "bad-op"
      if psi.size ≠ 2 ^ n || ind1 ≥ 2 ^ s.length then return "bad-op"
      let o := bitstrOf s.length ind1
      match (RawOp.measure (α := α) s o).compile n with
      | some (.measure idx ob) =>
          let prob := strArr car (tabulate (reduceToProbability idx (lookup (n := n) psi)))
          let proj := strArr car (tabulate (project idx ob (lookup (n := n) psi)))
          let sl := s.map Int.toNat
          let probG := strArr car (probGrouped n sl psi)
          let projG := strArr car (projectGrouped n sl ind1 psi)
          let flag := if prob == probG && proj == projG then "grouped=bitwise" else "MODEL-MISMATCH"
          return s!"{bitsStr o} {prob} {proj} {flag}"
      | _ => return "error"
  | ["grouping", n, s] => Id.run do
      let some n := n.toNat? | return "bad-op"
      let some s := parseNatList? s | return "bad-op"
      let (shape, keep, red) := measureGrouping n s
      let f := fun (l : List Nat) => if l.isEmpty then "-" else natListStr l
      return s!"{f shape} {f keep} {f red}"
  | ["kept", n, s] => Id.run do
      let some n := n.toNat? | return "bad-op"
      let some s := parseNatList? s | return "bad-op"
      return natListStr ((List.range (2 ^ n)).map (keptIndexGrouped n s))
  | _ => "bad-op"
end

def handle (args : List String) : String :=
  match args with
  | "circ" :: rest => C03.handle ("circ" :: rest)
  | "unitary" :: rest => C03.handle ("unitary" :: rest)
  | "width" :: rest => C03.handle ("width" :: rest)
  | op :: "Z" :: rest => handleR carZ (op :: rest)
  | op :: "Q" :: rest => handleR carQ (op :: rest)
  | args => handleR carZ args

end Numqi.Driver.C11
