/- line-protocol handlers for C11 (stub: not built yet) -/
import Driver.Loop

namespace Numqi.Driver.C11

def handle (_args : List String) : String := "bad-op"

end Numqi.Driver.C11
