import Driver.Loop
import Driver.C19

def main : IO Unit := Numqi.Driver.run Numqi.Driver.C19.handle
