/-
C19 — coverage obligations on the regenerated data: every `generate_code*` function of `numqi.qec` is one of the
eight shipped codes, and each live object advertises exactly the shipped parameters `((n, K, d))`.
(Separate from `C19.lean` so that a new generator or an edited name string breaks only this file.)
-/
import NumqiModel.Generated.QecCircuits

namespace Numqi.C19
open Numqi Numqi.Qec Numqi.Qec.Generated

/-! ### coverage: which generators exist, and the advertised parameters of each shipped code -/

/-- **Every `generate_code*` function of `numqi.qec` is one of the eight shipped codes treated below**
(the list is re-discovered on every run by introspection and from the AST of `_qecc.py`; a new or removed
generator makes this fail). -/
theorem generators_covered :
    Generated.discovered = ["generate_code10_4_4", "generate_code11_2_5", "generate_code422", "generate_code442",
      "generate_code523", "generate_code642", "generate_code883", "generate_code8_64_2"] := by decide

/-- **the live objects advertise exactly the shipped parameters `((n, K, d))`** -/
theorem code523_params : (code523.n, code523.K, code523.d) = (5, 2, 3) := by decide
theorem code422_params : (code422.n, code422.K, code422.d) = (4, 2, 2) := by decide
theorem code442_params : (code442.n, code442.K, code442.d) = (4, 4, 2) := by decide
theorem code642_params : (code642.n, code642.K, code642.d) = (6, 4, 2) := by decide
theorem code883_params : (code883.n, code883.K, code883.d) = (8, 8, 3) := by decide
theorem code8_64_2_params : (code8_64_2.n, code8_64_2.K, code8_64_2.d) = (8, 64, 2) := by decide
theorem code10_4_4_params : (code10_4_4.n, code10_4_4.K, code10_4_4.d) = (10, 4, 4) := by decide
theorem code11_2_5_params : (code11_2_5.n, code11_2_5.K, code11_2_5.d) = (11, 2, 5) := by decide

/-- **each shipped code lists at least as many stabilizer strings as shipped** (4, 3, 2, 2, 4, 2, 8, 10; with
`listed_independent` these are independent, so the lists of the six codes where this is `n − log2 K` generate the whole
stabilizer group; ((6,4,2)) lists 2 of 4 and ((8,8,3)) 4 of 5 generators). -/
theorem listed_counts :
    (([code523, code422, code442, code642, code883, code8_64_2, code10_4_4, code11_2_5].map (·.listed.length)).zip
      [4, 3, 2, 2, 4, 2, 8, 10]).all (fun p => decide (p.2 ≤ p.1)) = true := by decide

end Numqi.C19
