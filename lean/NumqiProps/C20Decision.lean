/-
C20 — decision layer: the comparisons of the three rank certificates as regenerated from the source by `harness/c20.py` (translate)
into `NumqiModel/Generated/Thresholds20.lean`.  This is the only theorem file that imports the generated data: if the source changes
so that a statement below no longer elaborates, only these theorems are lost, the rest of `NumqiProps/C20.lean` stays audited.
-/
import NumqiProps.C20
import NumqiModel.Generated.Thresholds20

namespace Numqi.C20
open Numqi Numqi.MatrixSpace Matrix Finset
open Numqi.Generated.Thresholds20

/-- **the translator recognised the decision shape of all three certificates** (`measured OP affine(zero_eps)` after semantic
normalisation: negations pushed to the comparison, constants folded, names resolved).  For an unrecognised shape the translator emits
`…Known := false` and a certificate that is never issued, the driver answers `unknown` (broken tie), and this obligation fails —
never a wrong model. -/
theorem decisionShapesRecognised : rankOneCertKnown = true ∧ hierarchyCertKnown = true ∧ abcCertKnown = true := by decide

/-- **the rank-one certificate is sound up to the slack `zero_eps`**: if the exact bound is `≥ 1` (previous theorem) and the
computed one is within `δ ≤ zero_eps` of it, "no rank-one element" is *not* issued.  With the pre-repair comparison
`upper_bound < 1` this statement is false for every `δ > 0` (it fails to elaborate if the source is reverted). -/
theorem rankOneCert_sound (computed exact δ zero_eps : ℝ) (hexact : 1 ≤ exact)
    (hround : |computed - exact| ≤ δ) (hslack : δ ≤ zero_eps) : rankOneCert computed zero_eps = false := by
  have := abs_le.1 hround
  simp only [rankOneCert, decide_eq_false_iff_not, not_lt]
  linarith [this.1]

/-- the default slack is positive -/
theorem rankOneCert_default_slack_pos :
    rankOneCertEpsNeg = false ∧ 0 < (rankOneCertEpsNum : ℚ) / rankOneCertEpsDen := by
  refine ⟨rfl, ?_⟩; norm_num [rankOneCertEpsNum, rankOneCertEpsDen]

/-- **the decision quantity of both Gram-matrix certificates is the smallest eigenvalue** (`np.linalg.eigvalsh(G)[0]`), as recorded by
the translator from the source.  Fail-safe: any other routine left of `> zero_eps` — in particular the partial-pivot LU pivots of the
repaired defect 561406a, which are not rank revealing — is translated to another `DecisionKind` and this obligation no longer
elaborates; the concrete failing inputs are the regression corpus `corpus/C20/*.json`. -/
theorem decisionIsRankRevealing :
    hierarchyCertKind = DecisionKind.smallestEigenvalue ∧ abcCertKind = DecisionKind.smallestEigenvalue := by decide

/-- **the Gram-matrix certificates are sound up to their slack.**  Contract (only available for the kind
`smallestEigenvalue`): the computed decision quantity is within `δ` of the exact smallest eigenvalue `lamMin` of the Gram matrix;
for a linearly dependent family `lamMin = 0` (`gram_lambda_min_zero`); if `δ ≤ zero_eps` — **hypothesis, not provable: adequacy of
the absolute threshold against the rounding of `eigvalsh`** — the certificate is not issued.  (The kind hypothesis `_hkind` is not used by
the proof: it is a convention that ties the contract `|computed − λ_min| ≤ δ` to the routine found in the source; the logical guard is the
separate obligation `decisionIsRankRevealing`, and since round 6b the translator grants that kind only to the smallest entry of
`numpy/scipy.linalg.eigvalsh(G)` / `eigh(G)[0]` with `G` a name bound exactly once at top level, while the harness ties `G` by value to the
model's Gram matrix.) -/
theorem hierarchyCert_sound (computed lamMin δ zero_eps : ℝ)
    (_hkind : hierarchyCertKind = DecisionKind.smallestEigenvalue ∧ abcCertKind = DecisionKind.smallestEigenvalue)
    (hsing : lamMin = 0) (hround : |computed - lamMin| ≤ δ) (hslack : δ ≤ zero_eps) :
    hierarchyCert computed zero_eps = false ∧ abcCert computed zero_eps = false := by
  subst hsing
  have := abs_le.1 hround
  simp only [hierarchyCert, abcCert, decide_eq_false_iff_not, not_lt, gt_iff_lt]
  constructor <;> linarith [this.2]

/-- the same with the kind obligation discharged for the source as it stands -/
theorem hierarchyCert_sound_current (computed lamMin δ zero_eps : ℝ) (hsing : lamMin = 0)
    (hround : |computed - lamMin| ≤ δ) (hslack : δ ≤ zero_eps) :
    hierarchyCert computed zero_eps = false ∧ abcCert computed zero_eps = false :=
  hierarchyCert_sound computed lamMin δ zero_eps decisionIsRankRevealing hsing hround hslack

theorem hierarchyCert_default_slack_pos :
    hierarchyCertEpsNeg = false ∧ 0 < (hierarchyCertEpsNum : ℚ) / hierarchyCertEpsDen
    ∧ abcCertEpsNeg = false ∧ 0 < (abcCertEpsNum : ℚ) / abcCertEpsDen := by
  refine ⟨rfl, ?_, rfl, ?_⟩ <;> norm_num [hierarchyCertEpsNum, hierarchyCertEpsDen, abcCertEpsNum, abcCertEpsDen]

/-- **the chain closed**: a family with a non-trivial linear relation is never certified, given the `eigvalsh` contract and the
rounding bound `|computed − λ_min| ≤ δ ≤ zero_eps` (the one hypothesis that is about floating point; the regression corpus holds the
inputs on which the former LU decision violated it). -/
theorem certificate_not_issued {ι κ : Type} [Fintype ι] [Fintype κ] [DecidableEq ι] (v : ι → κ → ℂ) (d : ι → ℂ)
    (hrel : ∀ x, ∑ α, d α * v α x = 0) (hd : d ≠ 0) (lam : ℝ)
    (hmin : ∀ y : ι → ℂ, lam * (star y ⬝ᵥ y).re ≤ (star y ⬝ᵥ (gramOf v *ᵥ y)).re)
    (hatt : ∃ y : ι → ℂ, star y ⬝ᵥ (gramOf v *ᵥ y) = (lam : ℂ))
    (computed δ zero_eps : ℝ) (hround : |computed - lam| ≤ δ) (hslack : δ ≤ zero_eps) :
    hierarchyCert computed zero_eps = false ∧ abcCert computed zero_eps = false :=
  hierarchyCert_sound_current computed lam δ zero_eps (MatrixSpace.gram_lambda_min_zero v d hrel hd lam hmin hatt) hround hslack

/-- the certificate is issued for a bound well below one, and withheld at one -/
example : rankOneCert (1/2 : ℚ) (1/10000000) = true ∧ rankOneCert (1 : ℚ) (1/10000000) = false := by
  constructor <;> simp [rankOneCert] <;> norm_num

end Numqi.C20
