/-
C15 (round 6) — kernel-evaluated facts about the exact Clebsch–Gordan model `cgSq` (Racah's formula, the model tied to
`get_clebsch_gordan_coeffient`), and the rational 2×2 rotation.  Kept in a separate file because the two `decide +kernel`
proofs take about a minute.
-/
import NumqiModel.Lie
import Mathlib.Tactic

namespace Numqi.C15
open Numqi.Lie

/-- **squares of the Clebsch–Gordan coefficients**: every row `(j,m)` has `Σ C² = 1` and for every `(m1,m2)` the squares over `j`
sum to one (completeness) — all `(j1_double, j2_double)` with `j1_double + j2_double ≤ 8`, exact rational arithmetic -/
theorem cg_squares_normalised : ∀ a < 9, ∀ b < 9, a + b ≤ 8 → cgSquaresNormalised a b = true := by decide +kernel

/-- **orthonormality of the Clebsch–Gordan rows** `Σ_{m1 m2} C(j m|m1 m2) C(j' m'|m1 m2) = δ δ` for all `j1_double + j2_double ≤ 8`:
exact test `cgRowsOrthonormal` (each product is `±√(r r')`, written as `c·√f` with `r r' = (t/q)²·f` by `sqfreeDecomp` — `sqfreeDecomp_spec`,
every `N` —, rational coefficients added per radicand `f`).  The grouping argument (`Σ_f c_f √f` equals the target if every group
coefficient does — valid for any decomposition, square-free or not) is the only step not formalised. -/
theorem cg_rows_orthonormal_partial : ∀ a < 9, ∀ b < 9, a + b ≤ 8 → cgRowsOrthonormal a b = true := by decide +kernel

/-- full statement (every pair of spins); open — tied and probed for `j1 + j2 ≤ 6` -/
def ClebschGordanOrthonormal.Statement : Prop := ∀ a b : ℕ, cgRowsOrthonormal a b = true ∧ cgSquaresNormalised a b = true

/-- **irreducible tensor operators** (`get_irreducible_tensor_operator(S_double)`, model `tensorOpTable`): every component `T^k_q` has squared
Hilbert–Schmidt norm `S_double + 1`, `S_double ≤ 6` -/
theorem tensorOp_normalised : ∀ S < 7, tensorOpNormalised S = true := by decide +kernel

/-- invariant of the trial division `sqfreeGo` (every fuel, every start): the returned `(t', f)` satisfies `t'²·f = t²·N` -/
theorem sqfreeGo_spec : ∀ (fuel d N t : ℕ), (sqfreeGo fuel d N t).1 * (sqfreeGo fuel d N t).1 * (sqfreeGo fuel d N t).2 = t * t * N := by
  intro fuel
  induction fuel with
  | zero => intro d N t; simp [sqfreeGo]
  | succ fuel ih =>
    intro d N t
    simp only [sqfreeGo]
    split_ifs with h1 h2
    · rfl
    · rw [ih]
      have hd : d * d ∣ N := Nat.dvd_of_mod_eq_zero h2
      calc t * d * (t * d) * (N / (d * d)) = t * t * (d * d * (N / (d * d))) := by ring
        _ = t * t * N := by rw [Nat.mul_div_cancel' hd]
    · exact ih _ _ _

/-- **the decomposition used by the orthonormality test is a decomposition, for every `N`**: `N = t²·f`.  This is all the soundness of
`surdSumIs` needs ("every group coefficient equals its target ⇒ the sum equals the target" holds for any way of writing the radicands
as `t²·f`); that `f` is moreover square-free (it is, once the fuel `N + 64` suffices for the trial division) matters only for the
completeness of the test and is not claimed. -/
theorem sqfreeDecomp_spec (N : ℕ) : (sqfreeDecomp N).1 * (sqfreeDecomp N).1 * (sqfreeDecomp N).2 = N := by
  unfold sqfreeDecomp
  split_ifs with h
  · simp [h]
  · rw [sqfreeGo_spec]; ring

/-- **`get_rational_orthogonal2_matrix(m, n)` is a rotation**: `[[x, y], [-y, x]]` with `x² + y² = 1`, for all integers with `(m,n) ≠ (0,0)` -/
theorem rationalOrthogonal2_rotation (m n : ℤ) (h : m ≠ 0 ∨ n ≠ 0) :
    ∃ x y : ℚ, rationalOrthogonal2 m n = [x, y, -y, x] ∧ x * x + y * y = 1 := by
  have hc : ((m : ℚ) * m + n * n) ≠ 0 := by
    have h1 : (0 : ℚ) ≤ (m : ℚ) * m := mul_self_nonneg _
    have h2 : (0 : ℚ) ≤ (n : ℚ) * n := mul_self_nonneg _
    rcases h with h | h
    · have : (0 : ℚ) < (m : ℚ) * m := by positivity
      linarith
    · have : (0 : ℚ) < (n : ℚ) * n := by positivity
      linarith
  refine ⟨2 * m * n / ((m : ℚ) * m + n * n), ((m : ℚ) * m - n * n) / ((m : ℚ) * m + n * n), rfl, ?_⟩
  rw [div_mul_div_comm, div_mul_div_comm, ← add_div, div_eq_one_iff_eq (mul_ne_zero hc hc)]; ring

end Numqi.C15
