/-
C10 — validity lemmas that reuse other properties' theorems (kept in a module of their own so that `NumqiProps/C10.lean`
does not depend on them):

* `rand_special_orthogonal_matrix` ends in `to_special_orthogonal_exp`: unitary with determinant one, both branches
  (C01: `NumqiProofs/ManifoldMatrix.lean`, `ManifoldDetExp.lean`);
* `rand_choi_op`: the operator returned is the Choi operator of a Kraus set that the inverse-square-root conjugation makes
  complete, hence its partial trace over the output is the identity and the map is trace preserving
  (C12: `choi_of_kraus`, `applyChoi_eq_applyKraus`, `trace_preserving`).
-/
import NumqiProofs.ManifoldDetExp
import NumqiProps.C12

namespace Numqi.C10
open Numqi Numqi.Channel Finset Matrix

local notation "mexp" => NormedSpace.exp

/-! ### `rand_special_orthogonal_matrix` -/

/-- `tag_complex=True`: the exponential of a traceless skew-Hermitian generator is special unitary -/
theorem special_unitary_exp {n : Type} [Fintype n] [DecidableEq n] (A : Matrix n n ℂ) (hA : Aᴴ = -A) (ht : trace A = 0) :
    (mexp A)ᴴ * mexp A = 1 ∧ det (mexp A) = 1 :=
  ⟨Manifold.exp_unitary_of_skew A hA, Manifold.det_exp_of_skew_traceless A hA ht⟩

/-- `tag_complex=False`: the exponential of a real antisymmetric generator (`Aᵀ = -A`, `Aᴴ = -A`) is orthogonal with
determinant `+1` (the sign is fixed because `exp A = (exp (A/2))²`) -/
theorem special_orthogonal_exp {n : Type} [Fintype n] [DecidableEq n] (A : Matrix n n ℂ) (hA : Aᴴ = -A) (hAt : Aᵀ = -A) :
    (mexp A)ᴴ * mexp A = 1 ∧ det (mexp A) = 1 :=
  ⟨Manifold.exp_unitary_of_skew A hA, Manifold.det_exp_of_transpose_neg A hAt⟩

/-! ### `rand_choi_op` -/

variable {R : Type} [CommRing R] [StarRing R]

/-- **partial trace of a Kraus-form Choi operator over the output** is the (transposed) Gram matrix `Σ_s K_s† K_s` -/
theorem choi_partial_trace (N dout : ℕ) (K : ℕ → ℕ → ℕ → R) (i j : ℕ) :
    ∑ a ∈ range dout, krausToChoi N dout K (i * dout + a) (j * dout + a) = krausGram N dout K j i := by
  simp only [krausGram, sumRange_eq_sum, conj_eq_star]
  rw [sum_comm]
  refine sum_congr rfl fun a ha => ?_
  rw [C12.choi_of_kraus N dout K i a j a (mem_range.1 ha) (mem_range.1 ha)]
  exact sum_congr rfl fun s _ => mul_comm _ _

/-- hence: a complete Kraus set gives a Choi operator with `Tr_out C = 1` … -/
theorem choi_TP (N din dout : ℕ) (K : ℕ → ℕ → ℕ → R)
    (hTP : ∀ i j, i < din → j < din → krausGram N dout K i j = if i = j then 1 else 0)
    (i j : ℕ) (hi : i < din) (hj : j < din) :
    ∑ a ∈ range dout, krausToChoi N dout K (i * dout + a) (j * dout + a) = if i = j then 1 else 0 := by
  rw [choi_partial_trace, hTP j i hj hi]
  by_cases h : i = j
  · simp [h]
  · simp [h, Ne.symm h]

/-- … and the channel `apply_choi_op` computes from it preserves the trace of every `ρ` (C12 `trace_preserving`) -/
theorem choi_trace_preserving (N din dout : ℕ) (K : ℕ → ℕ → ℕ → R) (ρ : ℕ → ℕ → R)
    (hTP : ∀ i j, i < din → j < din → krausGram N dout K i j = if i = j then 1 else 0) :
    ∑ a ∈ range dout, applyChoi din dout (krausToChoi N dout K) ρ a a = ∑ i ∈ range din, ρ i i := by
  refine Eq.trans ?_ (C12.trace_preserving N din dout K ρ hTP)
  exact sum_congr rfl fun a ha => C12.applyChoi_eq_applyKraus N din dout K ρ a a (mem_range.1 ha) (mem_range.1 ha)

/-- the Kraus set after the conjugation `einsum(np0, conj(tmp2), tmp2)` of `rand_choi_op`: `K'_s = K_s · M` -/
def krausMul (din : ℕ) (K : ℕ → ℕ → ℕ → R) (M : ℕ → ℕ → R) (s a i : ℕ) : R :=
  ∑ k ∈ range din, K s a k * M k i

/-- Gram matrix of the conjugated set: `Σ_s K'_s† K'_s = M† (Σ_s K_s† K_s) M` -/
theorem krausGram_krausMul (N din dout : ℕ) (K : ℕ → ℕ → ℕ → R) (M : ℕ → ℕ → R) (i j : ℕ) :
    krausGram N dout (krausMul din K M) i j =
      ∑ k ∈ range din, ∑ l ∈ range din, star (M k i) * krausGram N dout K k l * M l j := by
  simp only [krausGram, krausMul, sumRange_eq_sum, conj_eq_star, star_sum, star_mul', sum_mul, mul_sum]
  -- reorder (s, a, l, k) ↦ (k, l, s, a)
  have e1 : ∀ (f : ℕ → ℕ → ℕ → ℕ → R),
      ∑ s ∈ range N, ∑ a ∈ range dout, ∑ l ∈ range din, ∑ k ∈ range din, f s a l k =
        ∑ k ∈ range din, ∑ l ∈ range din, ∑ s ∈ range N, ∑ a ∈ range dout, f s a l k := by
    intro f
    calc ∑ s ∈ range N, ∑ a ∈ range dout, ∑ l ∈ range din, ∑ k ∈ range din, f s a l k
        = ∑ s ∈ range N, ∑ a ∈ range dout, ∑ k ∈ range din, ∑ l ∈ range din, f s a l k :=
          sum_congr rfl fun s _ => sum_congr rfl fun a _ => sum_comm
      _ = ∑ s ∈ range N, ∑ k ∈ range din, ∑ a ∈ range dout, ∑ l ∈ range din, f s a l k :=
          sum_congr rfl fun s _ => sum_comm
      _ = ∑ s ∈ range N, ∑ k ∈ range din, ∑ l ∈ range din, ∑ a ∈ range dout, f s a l k :=
          sum_congr rfl fun s _ => sum_congr rfl fun k _ => sum_comm
      _ = ∑ k ∈ range din, ∑ s ∈ range N, ∑ l ∈ range din, ∑ a ∈ range dout, f s a l k := sum_comm
      _ = ∑ k ∈ range din, ∑ l ∈ range din, ∑ s ∈ range N, ∑ a ∈ range dout, f s a l k :=
          sum_congr rfl fun k _ => sum_comm
  rw [e1]
  refine sum_congr rfl fun k _ => sum_congr rfl fun l _ => sum_congr rfl fun s _ => sum_congr rfl fun a _ => ?_
  ring

/-- **`rand_choi_op` returns a trace-preserving Choi operator**: with `tmp1 = Tr_out(np0)` (`= (Σ_s K_s†K_s)ᵀ` by
`choi_partial_trace`), a Hermitian `T = tmp2` satisfying the contract of the `eigh`-based inverse square root
`T · tmp1 · T = 1`, and `M = conj T`, the conjugated Kraus set is complete. -/
theorem rand_choi_kraus_complete (N din dout : ℕ) (K : ℕ → ℕ → ℕ → R) (T : ℕ → ℕ → R)
    (hTh : ∀ i j, star (T i j) = T j i)
    (hT : ∀ i j, i < din → j < din →
      ∑ k ∈ range din, ∑ l ∈ range din,
        T i k * (∑ a ∈ range dout, krausToChoi N dout K (k * dout + a) (l * dout + a)) * T l j = if i = j then 1 else 0)
    (i j : ℕ) (hi : i < din) (hj : j < din) :
    krausGram N dout (krausMul din K fun k i => star (T k i)) i j = if i = j then 1 else 0 := by
  rw [krausGram_krausMul]
  have := hT j i hj hi
  simp only [choi_partial_trace] at this
  rw [show (if i = j then (1 : R) else 0) = if j = i then 1 else 0 by by_cases h : i = j <;> simp [h, eq_comm]]
  rw [← this, sum_comm]
  refine sum_congr rfl fun l _ => sum_congr rfl fun k _ => ?_
  rw [star_star, hTh]
  ring

end Numqi.C10
