/-
C14 (round 6): helpers of `numqi/group/_internal.py` around the tables — `hf_Euler_totient` (the stated order of `(Z/n)^*`),
`_dummy_partition` (grouping of eigenvalue indices inside `reduce_group_representation`) and the selection step of
`reduce_group_representation` (one block per equivalence class of the character-overlap relation).  The constants are those of
`NumqiModel/FinGroup.lean` executed by `Driver/C14.lean` (`totient`, `dummypart`, `dedup`).
-/
import NumqiProps.C14

namespace Numqi.C14
open Numqi Numqi.FinGroup

/-! ## Euler's totient -/

private theorem eulerTotient_succ (m : Nat) :
    eulerTotient (m + 1) = (units (m + 1)).length + (if Nat.gcd (m + 1) (m + 1) == 1 then 1 else 0) := by
  unfold eulerTotient units
  rw [List.range'_1_concat, List.filter_append, List.length_append]
  simp only [Nat.add_sub_cancel, List.filter_cons, List.filter_nil]
  rw [Nat.add_comm 1 m]
  split <;> simp

/-- **`hf_Euler_totient(n) = φ(n)`** for every `n` (Mathlib's `Nat.totient`) -/
theorem eulerTotient_eq_totient (n : Nat) : eulerTotient n = Nat.totient n := by
  rcases n with _ | _ | m
  · rfl
  · rfl
  · rw [eulerTotient_succ, units_length (m + 2) (by omega)]
    have : ¬ (Nat.gcd (m + 1 + 1) (m + 1 + 1) == 1) = true := by simp
    simp [this]

/-- … which is the number of elements of `get_multiplicative_group_cayley_table(n)` (`n ≥ 2`) -/
theorem eulerTotient_eq_units_length (n : Nat) (hn : 2 ≤ n) : eulerTotient n = (units n).length := by
  rw [eulerTotient_eq_totient, units_length n hn]

/-! ## `_dummy_partition` -/

/-- consecutive non-empty slices from `s` to `len` -/
def Chain (len : Nat) : Nat → List (Nat × Nat) → Prop
  | s, [] => s = len
  | s, (a, b) :: rest => a = s ∧ a < b ∧ b ≤ len ∧ Chain len b rest

/-- the block `[a, b)` was grown from its *first* element: `p a e` holds for every later element `e` of the block and fails for the element
just after it (the code compares with the start of the run only, not with the neighbour) -/
def Block (len : Nat) (p : Nat → Nat → Bool) (a b : Nat) : Prop :=
  (∀ e, a < e → e < b → p a e = true) ∧ (b < len → p a b = false)

private theorem dummyAux_spec (len : Nat) (p : Nat → Nat → Bool) : ∀ (fuel s e : Nat), s < e → e ≤ len → len - e < fuel →
    (∀ e', s < e' → e' < e → p s e' = true) →
    Chain len s (dummyAux len p fuel s e) ∧ ∀ ab ∈ dummyAux len p fuel s e, Block len p ab.1 ab.2 := by
  intro fuel
  induction fuel with
  | zero => intro s e _ _ h; omega
  | succ fuel ih =>
    intro s e hse hel hf hp
    have hs : s < len := by omega
    by_cases he : e = len
    · simp only [dummyAux, hs, he, if_true]
      refine ⟨⟨rfl, by omega, le_refl _, rfl⟩, ?_⟩
      intro ab hab
      simp only [List.mem_singleton] at hab
      subst hab
      exact ⟨fun e' h1 h2 => hp e' h1 (by omega), fun h => absurd h (lt_irrefl _)⟩
    · by_cases hpe : p s e = true
      · simp only [dummyAux, hs, he, hpe, if_true, if_false]
        refine ih s (e + 1) (by omega) (by omega) (by omega) fun e' h1 h2 => ?_
        by_cases h3 : e' = e
        · subst h3; exact hpe
        · exact hp e' h1 (by omega)
      · simp only [dummyAux, hs, he, hpe, if_true, if_false]
        obtain ⟨c1, c2⟩ := ih e (e + 1) (by omega) (by omega) (by omega) (fun e' h1 h2 => by omega)
        refine ⟨⟨rfl, hse, hel, c1⟩, ?_⟩
        intro ab hab
        rcases List.mem_cons.1 hab with h | h
        · subst h
          exact ⟨hp, fun _ => by simpa using hpe⟩
        · exact c2 ab h

/-- **`_dummy_partition(length, hf0)` returns consecutive, non-empty, disjoint slices covering `range(length)`**, each grown from its first
element as described by `Block` -/
theorem dummyPartition_spec (len : Nat) (p : Nat → Nat → Bool) :
    Chain len 0 (dummyPartition len p) ∧ ∀ ab ∈ dummyPartition len p, Block len p ab.1 ab.2 := by
  unfold dummyPartition
  rcases Nat.eq_zero_or_pos len with h | h
  · subst h; simp [dummyAux, Chain]
  · exact dummyAux_spec len p (len + 1) 0 1 (by omega) h (by omega) (fun e' h1 h2 => by omega)

/-! ## the selection step of `reduce_group_representation` -/

theorem nodup_eraseDups' {α : Type} [BEq α] [LawfulBEq α] : ∀ (n : Nat) (l : List α), l.length = n → l.eraseDups.Nodup := by
  intro n
  induction n using Nat.strong_induction_on with
  | _ n ih =>
    intro l hl
    cases l with
    | nil => simp
    | cons a as =>
      rw [List.eraseDups_cons, List.nodup_cons]
      constructor
      · intro h
        have := (List.mem_filter.1 (List.mem_eraseDups.1 h)).2
        simp at this
      · have hlen : (as.filter fun b => !b == a).length < n := by
          have := List.length_filter_le (fun b => !b == a) as
          simp only [List.length_cons] at hl; omega
        exact ih _ hlen _ rfl

theorem getD_of_lt' {α : Type} (l : List α) (d : α) {i : Nat} (h : i < l.length) : l.getD i d = l[i] := by
  simp [List.getD_eq_getElem?_getD, List.getElem?_eq_getElem h]

/-- entry `(i, j)` of the Boolean overlap matrix -/
def rel (E : List (List Bool)) (i j : Nat) : Bool := (E.getD i []).getD j false

theorem mem_support (row : List Bool) (j : Nat) : j ∈ support row ↔ j < row.length ∧ row.getD j false = true := by
  simp [support]

/-- **one representative per equivalence class**: if the overlap relation of the `n` blocks of one dimension is reflexive, symmetric and
transitive, the selected indices are pairwise inequivalent and every block is equivalent to a selected one -/
theorem dedupGroup_transversal (n : Nat) (E : List (List Bool)) (hn : E.length = n) (hrow : ∀ row ∈ E, row.length = n)
    (hrefl : ∀ i, i < n → rel E i i = true) (hsymm : ∀ i j, rel E i j = true → rel E j i = true)
    (htrans : ∀ i j k, rel E i j = true → rel E j k = true → rel E i k = true) :
    (∀ i, i < n → ∃ r ∈ dedupGroup E, rel E i r = true) ∧
      (∀ r ∈ dedupGroup E, r < n) ∧
      (dedupGroup E).Pairwise fun r r' => rel E r r' = false := by
  -- the support of row `i`
  have hsup : ∀ i (hi : i < n), ∀ j, j ∈ support (E.getD i []) ↔ j < n ∧ rel E i j = true := by
    intro i hi j
    have hl : (E.getD i []).length = n := by
      have : i < E.length := by omega
      rw [getD_of_lt' _ _ this]; exact hrow _ (List.getElem_mem this)
    rw [mem_support, hl]; rfl
  have hmem : ∀ sup, sup ∈ (E.map support).eraseDups ↔ ∃ i, i < n ∧ sup = support (E.getD i []) := by
    intro sup
    rw [List.mem_eraseDups, List.mem_map]
    constructor
    · rintro ⟨row, hr, rfl⟩
      obtain ⟨i, hi, rfl⟩ := List.getElem_of_mem hr
      exact ⟨i, by omega, by rw [getD_of_lt' _ _ hi]⟩
    · rintro ⟨i, hi, rfl⟩
      have : i < E.length := by omega
      exact ⟨E[i], List.getElem_mem this, by rw [getD_of_lt' _ _ this]⟩
  -- head of a support: its least element, related to `i`
  have hhead : ∀ i (hi : i < n), (support (E.getD i [])).headD 0 ∈ support (E.getD i []) := by
    intro i hi
    have hne : support (E.getD i []) ≠ [] := by
      intro e
      have := (hsup i hi i).2 ⟨hi, hrefl i hi⟩
      rw [e] at this; simp at this
    cases h : support (E.getD i []) with
    | nil => exact absurd h hne
    | cons a l => simp
  -- equivalent rows have equal supports
  have heq : ∀ i j, i < n → j < n → rel E i j = true → support (E.getD i []) = support (E.getD j []) := by
    intro i j hi hj hij
    unfold support
    have li : (E.getD i []).length = n := by
      have : i < E.length := by omega
      rw [getD_of_lt' _ _ this]; exact hrow _ (List.getElem_mem this)
    have lj : (E.getD j []).length = n := by
      have : j < E.length := by omega
      rw [getD_of_lt' _ _ this]; exact hrow _ (List.getElem_mem this)
    rw [li, lj]
    apply List.filter_congr
    intro k _
    have h1 : rel E i k = true ↔ rel E j k = true :=
      ⟨fun h => htrans j i k (hsymm i j hij) h, fun h => htrans i j k hij h⟩
    show (E.getD i []).getD k false = (E.getD j []).getD k false
    have : rel E i k = rel E j k := by
      cases a : rel E i k <;> cases b : rel E j k <;> simp_all
    exact this
  refine ⟨?_, ?_, ?_⟩
  · intro i hi
    refine ⟨(support (E.getD i [])).headD 0, ?_, ?_⟩
    · exact List.mem_map.2 ⟨_, (hmem _).2 ⟨i, hi, rfl⟩, rfl⟩
    · exact ((hsup i hi _).1 (hhead i hi)).2
  · intro r hr
    obtain ⟨sup, hs, rfl⟩ := List.mem_map.1 hr
    obtain ⟨i, hi, rfl⟩ := (hmem sup).1 hs
    exact ((hsup i hi _).1 (hhead i hi)).1
  · rw [dedupGroup, List.pairwise_map]
    refine (nodup_eraseDups' _ _ rfl).imp_of_mem ?_
    intro a b ha hb hab
    obtain ⟨i, hi, rfl⟩ := (hmem a).1 ha
    obtain ⟨j, hj, rfl⟩ := (hmem b).1 hb
    by_contra hc
    have hc : rel E ((support (E.getD i [])).headD 0) ((support (E.getD j [])).headD 0) = true := by simpa using hc
    have h1 := (hsup i hi _).1 (hhead i hi)
    have h2 := (hsup j hj _).1 (hhead j hj)
    exact hab (heq i j hi hj (htrans _ _ _ (htrans _ _ _ h1.2 hc) (hsymm _ _ h2.2)))

/-- the selection over all dimension groups: a block of dimension `d` is returned iff `d` occurs, and then it is the only block of that
dimension or one of the representatives chosen by `dedupGroup` -/
theorem mem_dedupAll (dims : List Nat) (E : Nat → List (List Bool)) (d i : Nat) :
    (d, i) ∈ dedupAll dims E ↔ d ∈ dims ∧ ((dims.count d = 1 ∧ i = 0) ∨ (dims.count d ≠ 1 ∧ i ∈ dedupGroup (E d))) := by
  simp only [dedupAll, List.mem_flatMap, List.mem_eraseDups, List.mem_mergeSort]
  constructor
  · rintro ⟨d', hd', h⟩
    split at h
    · rename_i hc
      simp only [List.mem_singleton, Prod.mk.injEq] at h
      obtain ⟨rfl, rfl⟩ := h
      exact ⟨hd', Or.inl ⟨hc, rfl⟩⟩
    · rename_i hc
      simp only [List.mem_map, Prod.mk.injEq] at h
      obtain ⟨i', hi', rfl, rfl⟩ := h
      exact ⟨hd', Or.inr ⟨hc, hi'⟩⟩
  · rintro ⟨hd, h⟩
    refine ⟨d, hd, ?_⟩
    rcases h with ⟨hc, rfl⟩ | ⟨hc, hi⟩
    · simp [hc]
    · simp only [hc, if_false, List.mem_map, Prod.mk.injEq]
      exact ⟨i, hi, by simp⟩

/-! non-vacuity / examples -/
example : dummyPartition 5 (fun s e => decide (e - s < 2)) = [(0, 2), (2, 4), (4, 5)] := by decide
example : dedupGroup [[true, false, true], [false, true, false], [true, false, true]] = [0, 1] := by decide

end Numqi.C14
