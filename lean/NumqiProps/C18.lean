/-
C18 — catalogue constructors return the objects they name.

Property theorems only (helper lemmas: `NumqiProofs/Catalogue*.lean`).  Density matrices: `K` is any linearly ordered
field (instantiate `ℝ`); a matrix given by the entry function `M` on an index type `ι` is *positive semidefinite* when its
quadratic form `qform M x = Σ_{p q} x_p M_{pq} x_q` is non-negative for every `x` (for a real symmetric matrix this is
`Matrix.PosSemidef`).
-/
import NumqiProofs.Catalogue
import NumqiProofs.CatalogueExplicit
import NumqiProofs.CatalogueKets
import NumqiProofs.CataloguePovm
import NumqiProofs.CatalogueUpb
import NumqiProofs.CatalogueCheb
import NumqiProofs.CatalogueGenShifts
import NumqiProofs.CatalogueSixparam
import NumqiProofs.CatalogueUpbTables
import NumqiProofs.CatalogueMeasures
import NumqiProofs.CatalogueEprobe9
import Mathlib.Analysis.SpecialFunctions.Trigonometric.Basic

set_option linter.unusedSectionVars false

namespace Numqi.C18
open Numqi.Catalogue Finset

variable {K : Type} [Field K] [LinearOrder K] [IsStrictOrderedRing K]

/-! ## Werner, isotropic, maximally mixed — every `d`, whole parameter range -/

/-- the Werner matrix on the index type `Fin d × Fin d` -/
def wernerM (d : ℕ) (a : K) (p q : Fin d × Fin d) : K := werner d a p.1 p.2 q.1 q.2
def isotropicM (d : ℕ) (a : K) (p q : Fin d × Fin d) : K := isotropic d a p.1 p.2 q.1 q.2

theorem werner_symm (d : ℕ) (a : K) (p q : Fin d × Fin d) : wernerM d a p q = wernerM d a q p := by
  simp only [wernerM, werner]
  rw [delta_comm (p.1 : ℕ), delta_comm (p.2 : ℕ) (q.2 : ℕ), delta_comm (p.1 : ℕ) (q.2 : ℕ), delta_comm (p.2 : ℕ) (q.1 : ℕ)]
  ring

/-- **Werner: trace one** whenever the normalisation `d² - dα` is non-zero (in particular for `d ≥ 2`, `α ≤ 1`). -/
theorem werner_trace (d : ℕ) (a : K) (hN : (d : K) * d - d * a ≠ 0) : ∑ p, wernerM d a p p = 1 := by
  simp only [wernerM, werner, Fintype.sum_prod_type, ← Finset.sum_div]
  rw [div_eq_one_iff_eq hN]
  have : ∀ i j : Fin d, (delta (i : ℕ) (i : ℕ) * delta (j : ℕ) (j : ℕ) - a * (delta (i : ℕ) (j : ℕ) * delta (j : ℕ) (i : ℕ)) : K)
      = 1 - a * (delta (i : ℕ) (j : ℕ) * delta (i : ℕ) (j : ℕ)) := fun i j => by
    simp [delta, eq_comm]
  simp only [this, Finset.sum_sub_distrib, ← Finset.mul_sum, sum_delta_left]
  simp [delta, Finset.card_univ]
  ring

theorem werner_qform (d : ℕ) (a : K) (x : Fin d × Fin d → K) :
    qform (wernerM d a) x = (Ssum x - a * Tsum x) / ((d : K) * d - d * a) := by
  have e : wernerM d a = fun p q : Fin d × Fin d =>
      (1 / ((d : K) * d - d * a)) * ((delta (p.1 : ℕ) (q.1 : ℕ) * delta (p.2 : ℕ) (q.2 : ℕ) : K)
        + (-a) * (delta (p.1 : ℕ) (q.2 : ℕ) * delta (p.2 : ℕ) (q.1 : ℕ))) := by
    funext p q; simp only [wernerM, werner]; ring
  rw [e, qform_smul, qform_add, qform_smul, qform_id, qform_swap]; ring

/-- **Werner: positive semidefinite on the whole range `α ∈ [-1, 1]`, every `d`** (projector decomposition
`1 - αS = (1-α)P₊ + (1+α)P₋` with `P± = (1 ± S)/2`). -/
theorem werner_psd (d : ℕ) (a : K) (h1 : -1 ≤ a) (h2 : a ≤ 1) (x : Fin d × Fin d → K) : 0 ≤ qform (wernerM d a) x := by
  rw [werner_qform]
  have hp := S_add_T_nonneg x
  have hm := S_sub_T_nonneg x
  have hnum : 0 ≤ Ssum x - a * Tsum x := by nlinarith
  have hd : (0 : K) ≤ d := Nat.cast_nonneg d
  have hden : 0 ≤ (d : K) * d - d * a := by
    have e : (d : K) * d - d * a = d * (d - a) := by ring
    rw [e]
    rcases Nat.eq_zero_or_pos d with h | h
    · simp [h]
    · have : (1 : K) ≤ d := by exact_mod_cast h
      exact mul_nonneg hd (by linarith)
  exact div_nonneg hnum hden

theorem isotropic_symm (d : ℕ) (a : K) (p q : Fin d × Fin d) : isotropicM d a p q = isotropicM d a q p := by
  simp only [isotropicM, isotropic]
  rw [delta_comm (p.1 : ℕ) (q.1 : ℕ), delta_comm (p.2 : ℕ) (q.2 : ℕ)]
  ring

/-- **Isotropic: trace one** for every `d ≥ 1`, every `α`. -/
theorem isotropic_trace (d : ℕ) (hd : d ≠ 0) (a : K) : ∑ p, isotropicM d a p p = 1 := by
  have hdK : (d : K) ≠ 0 := Nat.cast_ne_zero.mpr hd
  simp only [isotropicM, isotropic, Fintype.sum_prod_type]
  have : ∀ i j : Fin d, ((1 - a) / ((d : K) * d) * (delta (i : ℕ) (i : ℕ) * delta (j : ℕ) (j : ℕ))
      + a / d * (delta (i : ℕ) (j : ℕ) * delta (i : ℕ) (j : ℕ)) : K)
      = (1 - a) / ((d : K) * d) + a / d * (delta (i : ℕ) (j : ℕ) * delta (i : ℕ) (j : ℕ)) := fun i j => by
    simp [delta]
  simp only [this, Finset.sum_add_distrib, ← Finset.mul_sum, sum_delta_left]
  simp [delta, Finset.card_univ]
  field_simp
  ring

theorem isotropic_qform (d : ℕ) (a : K) (x : Fin d × Fin d → K) :
    qform (isotropicM d a) x = (1 - a) / ((d : K) * d) * Ssum x + a / d * (Dsum x * Dsum x) := by
  have e : isotropicM d a = fun p q : Fin d × Fin d =>
      ((1 - a) / ((d : K) * d)) * (delta (p.1 : ℕ) (q.1 : ℕ) * delta (p.2 : ℕ) (q.2 : ℕ) : K)
        + (a / d) * (delta (p.1 : ℕ) (p.2 : ℕ) * delta (q.1 : ℕ) (q.2 : ℕ)) := by
    funext p q; simp only [isotropicM, isotropic]
  rw [e, qform_add, qform_smul, qform_smul, qform_id, qform_diag]

/-- **Isotropic: positive semidefinite on the whole range `α ∈ [-1/(d²-1), 1]`, every `d ≥ 2`**, lower end point included
(projector decomposition on `|Φ⟩⟨Φ|` and its complement; Cauchy–Schwarz for `(Σ x_ii)² ≤ d Σ x_ij²`). -/
theorem isotropic_psd (d : ℕ) (hd : 2 ≤ d) (a : K) (h1 : -1 / ((d : K) * d - 1) ≤ a) (h2 : a ≤ 1)
    (x : Fin d × Fin d → K) : 0 ≤ qform (isotropicM d a) x := by
  rw [isotropic_qform]
  have hdK : (2 : K) ≤ d := by exact_mod_cast hd
  have hd0 : (0 : K) < d := by linarith
  have hS := Ssum_nonneg x
  have hD := Dsum_sq_le x
  have hDD : 0 ≤ Dsum x * Dsum x := mul_self_nonneg _
  have hdd : (0 : K) < (d : K) * d - 1 := by nlinarith
  have h1' : -1 ≤ a * ((d : K) * d - 1) := by
    rw [div_le_iff₀ hdd] at h1; linarith
  by_cases ha : 0 ≤ a
  · have t1 : 0 ≤ (1 - a) / ((d : K) * d) * Ssum x :=
      mul_nonneg (div_nonneg (by linarith) (by positivity)) hS
    have t2 : 0 ≤ a / d * (Dsum x * Dsum x) := mul_nonneg (div_nonneg ha hd0.le) hDD
    linarith
  · rw [not_le] at ha
    -- a/d * D² ≥ a/d * (d S) = a S
    have t2 : a * Ssum x ≤ a / d * (Dsum x * Dsum x) := by
      have : a / d * ((d : K) * Ssum x) ≤ a / d * (Dsum x * Dsum x) :=
        mul_le_mul_of_nonpos_left hD (div_nonpos_of_nonpos_of_nonneg ha.le hd0.le)
      have e : a / d * ((d : K) * Ssum x) = a * Ssum x := by field_simp
      rwa [e] at this
    have t3 : (1 - a) / ((d : K) * d) * Ssum x + a * Ssum x = (1 + a * ((d : K) * d - 1)) / ((d : K) * d) * Ssum x := by
      field_simp; ring
    have t4 : 0 ≤ (1 + a * ((d : K) * d - 1)) / ((d : K) * d) * Ssum x :=
      mul_nonneg (div_nonneg (by linarith) (by positivity)) hS
    linarith

/-- **`maximally_mixed_state(d)` has trace one** (`d ≥ 1`; the size is `d²`). -/
theorem maxMixed_trace (d : ℕ) (hd : d ≠ 0) : ∑ r : Fin (d * d), (maxMixed d (r : ℕ) (r : ℕ) : K) = 1 := by
  have hdK : (d : K) ≠ 0 := Nat.cast_ne_zero.mpr hd
  simp [maxMixed, delta, Finset.card_univ]
  field_simp

/-! ## Horodecki 2×4 / 3×3 bound entangled families and the two-qutrit family — whole range, end points included

`rt` stands for `np.sqrt(1 - b*b)`: any `rt` with `rt² = 1 - b²` (the sign is irrelevant for these statements). -/

theorem horodecki3x3_symm (a rt : K) (r c : Fin 9) : h33M a rt r c = h33M a rt c r := by
  fin_cases r <;> fin_cases c <;> simp [h33M, horodecki3x3]

theorem horodecki3x3_trace (a rt : K) (ha : 0 ≤ a) : ∑ r, h33M a rt r r = 1 := by
  have h1 : (8 * a + 1) ≠ 0 := by positivity
  have h2 : (16 * a + 2) ≠ 0 := by positivity
  simp [h33M, horodecki3x3, Fin.sum_univ_succ]
  field_simp
  ring

/-- **Horodecki 3×3: positive semidefinite for every `a ∈ [0,1]`** -/
theorem horodecki3x3_psd (a rt : K) (ha : 0 ≤ a) (hrt : rt * rt = 1 - a * a) (x : Fin 9 → K) :
    0 ≤ qform (h33M a rt) x := by
  rw [h33_qform a rt ha]
  apply div_nonneg _ (by positivity)
  have h3 := block2_nonneg ha hrt (x 6) (x 8)
  have h4 : 0 ≤ 2 * a * (x 1 * x 1 + x 2 * x 2 + x 3 * x 3 + x 5 * x 5 + x 7 * x 7) :=
    mul_nonneg (by positivity) (by
      have := mul_self_nonneg (x 1); have := mul_self_nonneg (x 2); have := mul_self_nonneg (x 3)
      have := mul_self_nonneg (x 5); have := mul_self_nonneg (x 7); linarith)
  have h5 : 0 ≤ 2 * a * ((x 0 + x 4 + x 8) * (x 0 + x 4 + x 8)) := mul_nonneg (by positivity) (mul_self_nonneg _)
  linarith

/-- **Horodecki 3×3: PPT for every `a ∈ [0,1]`** -/
theorem horodecki3x3_ppt (a rt : K) (ha : 0 ≤ a) (hrt : rt * rt = 1 - a * a) (x : Fin 9 → K) :
    0 ≤ qform (h33PT a rt) x := by
  rw [h33PT_qform a rt ha]
  apply div_nonneg _ (by positivity)
  have h3 := block2_nonneg ha hrt (x 8) (x 6)
  have h4 : 0 ≤ 2 * a * (x 0 * x 0 + x 4 * x 4) :=
    mul_nonneg (by positivity) (by have := mul_self_nonneg (x 0); have := mul_self_nonneg (x 4); linarith)
  have h5 : 0 ≤ 2 * a * ((x 1 + x 3) * (x 1 + x 3)) := mul_nonneg (by positivity) (mul_self_nonneg _)
  have h6 : 0 ≤ 2 * a * ((x 5 + x 7) * (x 5 + x 7)) := mul_nonneg (by positivity) (mul_self_nonneg _)
  have h7 : 0 ≤ 2 * a * ((x 2 + x 6) * (x 2 + x 6)) := mul_nonneg (by positivity) (mul_self_nonneg _)
  linarith

theorem horodecki2x4_symm (b rt : K) (r c : Fin 8) : h24M b rt r c = h24M b rt c r := by
  fin_cases r <;> fin_cases c <;> simp [h24M, horodecki2x4]

theorem horodecki2x4_trace (b rt : K) (hb : 0 ≤ b) : ∑ r, h24M b rt r r = 1 := by
  have h1 : (7 * b + 1) ≠ 0 := by positivity
  have h2 : (14 * b + 2) ≠ 0 := by positivity
  simp [h24M, horodecki2x4, Fin.sum_univ_succ]
  field_simp
  ring

/-- **Horodecki 2×4: positive semidefinite for every `b ∈ [0,1]`** -/
theorem horodecki2x4_psd (b rt : K) (hb : 0 ≤ b) (hrt : rt * rt = 1 - b * b) (x : Fin 8 → K) :
    0 ≤ qform (h24M b rt) x := by
  rw [h24_qform b rt hb]
  apply div_nonneg _ (by positivity)
  have h3 := block2_nonneg hb hrt (x 4) (x 7)
  have h4 : 0 ≤ 2 * b * ((x 0 + x 5) * (x 0 + x 5)) := mul_nonneg (by positivity) (mul_self_nonneg _)
  have h5 : 0 ≤ 2 * b * ((x 1 + x 6) * (x 1 + x 6)) := mul_nonneg (by positivity) (mul_self_nonneg _)
  have h6 : 0 ≤ 2 * b * (x 3 * x 3) := mul_nonneg (by positivity) (mul_self_nonneg _)
  have h7 : 0 ≤ 2 * b * ((x 2 + x 7) * (x 2 + x 7)) := mul_nonneg (by positivity) (mul_self_nonneg _)
  linarith

/-- **Horodecki 2×4: PPT for every `b ∈ [0,1]`** -/
theorem horodecki2x4_ppt (b rt : K) (hb : 0 ≤ b) (hrt : rt * rt = 1 - b * b) (x : Fin 8 → K) :
    0 ≤ qform (h24PT b rt) x := by
  rw [h24PT_qform b rt hb]
  apply div_nonneg _ (by positivity)
  have h3 := block2_nonneg hb hrt (x 7) (x 4)
  have h4 : 0 ≤ 2 * b * (x 0 * x 0) := mul_nonneg (by positivity) (mul_self_nonneg _)
  have h5 : 0 ≤ 2 * b * ((x 2 + x 5) * (x 2 + x 5)) := mul_nonneg (by positivity) (mul_self_nonneg _)
  have h6 : 0 ≤ 2 * b * ((x 3 + x 6) * (x 3 + x 6)) := mul_nonneg (by positivity) (mul_self_nonneg _)
  have h7 : 0 ≤ 2 * b * ((x 1 + x 4) * (x 1 + x 4)) := mul_nonneg (by positivity) (mul_self_nonneg _)
  linarith

theorem antoine_symm (q : K) (r c : Fin 9) : antoineM q r c = antoineM q c r := by
  fin_cases r <;> fin_cases c <;> simp [antoineM, antoine]

theorem antoine_trace (q : K) : ∑ r, antoineM q r r = 1 := by
  simp [antoineM, antoine, Fin.sum_univ_succ]
  field_simp
  ring

/-- **`get_2qutrit_Antoine2022(q)`: positive semidefinite on the whole range `|q| ≤ 5/2`** -/
theorem antoine_psd (q : K) (h1 : -(5/2) ≤ q) (h2 : q ≤ 5/2) (x : Fin 9 → K) : 0 ≤ qform (antoineM q) x := by
  rw [antoine_qform]
  apply div_nonneg _ (by norm_num)
  have h3 : 0 ≤ 2 * ((x 0 + x 4 + x 8) * (x 0 + x 4 + x 8)) := mul_nonneg (by norm_num) (mul_self_nonneg _)
  have h4 : 0 ≤ (5/2 - q) * (x 1 * x 1 + x 5 * x 5 + x 6 * x 6) :=
    mul_nonneg (by linarith) (by have := mul_self_nonneg (x 1); have := mul_self_nonneg (x 5); have := mul_self_nonneg (x 6); linarith)
  have h5 : 0 ≤ (5/2 + q) * (x 2 * x 2 + x 3 * x 3 + x 7 * x 7) :=
    mul_nonneg (by linarith) (by have := mul_self_nonneg (x 2); have := mul_self_nonneg (x 3); have := mul_self_nonneg (x 7); linarith)
  linarith

/-- … and **PPT on the documented PPT range `|q| ≤ 3/2`** -/
theorem antoine_ppt (q : K) (h1 : -(3/2) ≤ q) (h2 : q ≤ 3/2) (x : Fin 9 → K) : 0 ≤ qform (antoinePT q) x := by
  rw [antoinePT_qform]
  apply div_nonneg _ (by norm_num)
  have hp : (0 : K) < 5/2 + q := by linarith
  have hm : (0 : K) < 5/2 - q := by linarith
  have hpm : 4 ≤ (5/2 - q) * (5/2 + q) := by nlinarith
  have hmp : 4 ≤ (5/2 + q) * (5/2 - q) := by nlinarith
  have b1 := block2_nonneg' hm hpm (x 1) (x 3)
  have b2 := block2_nonneg' hp hmp (x 2) (x 6)
  have b3 := block2_nonneg' hm hpm (x 5) (x 7)
  have h0 : 0 ≤ 2 * (x 0 * x 0 + x 4 * x 4 + x 8 * x 8) :=
    mul_nonneg (by norm_num) (by have := mul_self_nonneg (x 0); have := mul_self_nonneg (x 4); have := mul_self_nonneg (x 8); linarith)
  linarith

/-! ## round 6: the remaining public constructors / closed forms -/

/-- **`Wtype(coeff)` is a normalised ket** (real coefficients): `Σ_x ket(x)² = 1` whenever `nrm = ‖coeff‖ ≠ 0` -/
theorem Wtype_norm {F : Type} [Field F] (coeff : List F) (nrm : F) (h0 : nrm ≠ 0)
    (hn : nrm * nrm = ∑ k ∈ Finset.range coeff.length, coeff.getD k 0 * coeff.getD k 0) :
    ∑ x ∈ Finset.range (2 ^ coeff.length), ketWtype coeff nrm x * ketWtype coeff nrm x = 1 :=
  ketWtype_norm_sq coeff nrm h0 hn

/-- **`get_qubit_dicke_state_GME(n,k) ∈ [0,1)`** for every `n ≥ 1`, `0 ≤ k ≤ n` -/
theorem dicke_gme_range (n k : ℕ) (hn : 0 < n) (hk : k ≤ n) : 0 ≤ dickeGME n k ∧ dickeGME n k < 1 := dickeGME_range n k hn hk

/-- … it vanishes on the product states `k ∈ {0, n}` and is symmetric under `k ↔ n-k` -/
theorem dicke_gme_product (n : ℕ) (hn : 0 < n) : dickeGME n 0 = 0 ∧ dickeGME n n = 0 :=
  ⟨dickeGME_zero_left n hn, dickeGME_zero_right n hn⟩

theorem dicke_gme_symm (n k : ℕ) (hk : k ≤ n) : dickeGME n (n - k) = dickeGME n k := dickeGME_symm n k hk

/-- the multiplicative binomial of the model is the binomial coefficient -/
theorem binomN_choose (n k : ℕ) : binomN n k = n.choose k := binomN_eq_choose n k

theorem max3_ge (x y z : K) : x ≤ max3 x y z ∧ y ≤ max3 x y z ∧ z ≤ max3 x y z := by
  unfold max3; simp only
  split_ifs <;> refine ⟨?_, ?_, ?_⟩ <;> linarith

theorem max3_mem (x y z : K) : max3 x y z = x ∨ max3 x y z = y ∨ max3 x y z = z := by
  unfold max3; simp only
  split_ifs <;> simp

/-- **`get_Wtype_state_GME` outside the triangle region is `1 - max(a²,b²,c²) ∈ [0, 2/3]`** for normalised `(a,b,c)` -/
theorem wtypeGME_else_range (c16 two q34 four a b c : K) (hn : a * a + b * b + c * c = 1)
    (hT : ¬ (0 < b * b + c * c - a * a ∧ 0 < a * a + c * c - b * b ∧ 0 < a * a + b * b - c * c)) :
    wtypeGME c16 two q34 four a b c = 1 - max3 (a * a) (b * b) (c * c)
      ∧ 0 ≤ wtypeGME c16 two q34 four a b c ∧ wtypeGME c16 two q34 four a b c ≤ 2 / 3 := by
  have e : wtypeGME c16 two q34 four a b c = 1 - max3 (a * a) (b * b) (c * c) := by
    unfold wtypeGME; simp only; rw [if_neg hT]
  obtain ⟨h1, h2, h3⟩ := max3_ge (a * a) (b * b) (c * c)
  have ha := mul_self_nonneg a; have hb := mul_self_nonneg b; have hc := mul_self_nonneg c
  refine ⟨e, ?_, ?_⟩
  · rw [e]; rcases max3_mem (a * a) (b * b) (c * c) with h | h | h <;> rw [h] <;> linarith
  · rw [e]; linarith

/-- **`get_element_probing_POVM('eq8', dim)`: all `2·dim` operators are Hermitian**, every `dim` (thin: a case split on the definition
of the table, true also for the totalised entries `m ≥ 2·dim`, `dim = 0`; nothing is claimed about informational completeness) -/
theorem eprobe8_hermitian (dim m r c : ℕ) : eprobe8 dim m c r = conj (eprobe8 dim m r c) := by
  unfold eprobe8
  split_ifs <;> first | rfl | (exfalso; omega) | (simp_all; done)

/-- **`get_element_probing_POVM('eq9', dim)`: each of the four bases `B1..B4` is orthonormal and complete** (`Σ_i |b_i⟩⟨b_i| = 1`,
so the `4·dim` rank-one projectors resolve `4·1`); exact Gaussian-integer computation for `dim = 4, 6, 8, 10, 12` -/
theorem eprobe9_unitary_partial :
    ∀ b < 4, ∀ dim ∈ [4, 6, 8, 10, 12], eprobe9Unitary b dim = true := by decide +kernel

/-- **`eq9`, every even `dim ≥ 4`, every basis index: the rows of each basis are orthonormal** (`Σ_c conj(B i c)·B j c = 2 δ_ij` for
the `√2`-scaled Gaussian-integer entries): the row half of `Eprobe9Unitary.Statement`, unbounded.  Rows `2k, 2k+1` share the support
`{p, q}` with `q`-entries `±u`; rows of different pairs have disjoint supports (uses `dim` even for the wrap-around column `(2k+2) % dim`). -/
theorem eprobe9_rows_orthonormal (b dim : ℕ) (hd : 4 ≤ dim) (he : dim % 2 = 0) : eprobe9RowsOK b dim = true :=
  eprobe9RowsOK_all b dim hd he

/-- non-vacuity / sharpness: for odd `dim` the wrap-around column collides and the rows are *not* orthonormal -/
example : eprobe9RowsOK 1 5 = false ∧ eprobe9RowsOK 1 6 = true := by decide +kernel

/-- **`eq9`, every even `dim ≥ 4`: each basis is complete** (`Σ_i B i c·conj(B i c') = 2 δ_cc'`, i.e. `Σ_i |b_i⟩⟨b_i| = 1`): rows `2k, 2k+1`
contribute `2·[c = c' ∈ {P_k, Q_k}]` and the pairs `{P_k, Q_k}` partition the columns (for the odd bases the last pair wraps to column 0) -/
theorem eprobe9_cols_orthonormal (b dim : ℕ) (hd : 4 ≤ dim) (he : dim % 2 = 0) : eprobe9ColsOK b dim = true :=
  eprobe9ColsOK_all b dim hd he

/-- **`get_element_probing_POVM('eq9', dim)`: each of the four bases is orthonormal and complete, every even `dim ≥ 4`** (the full
statement; until round 9 it was the open `Eprobe9Unitary.Statement`, proved for `dim ≤ 12` only) -/
theorem eprobe9_unitary : ∀ b < 4, ∀ dim, 4 ≤ dim → dim % 2 = 0 → eprobe9Unitary b dim = true := fun b _ dim hd he => by
  simp [eprobe9Unitary, eprobe9_rows_orthonormal b dim hd he, eprobe9_cols_orthonormal b dim hd he]

/-- sharpness of the evenness guard: for odd `dim` the bases are not unitary (the source asserts `dim % 2 == 0`) -/
example : eprobe9Unitary 1 5 = false ∧ eprobe9Unitary 3 7 = false := by decide +kernel

/-! ## closed-form values on the entangled branch, and the range guards of the model -/

/-- the guards used by the driver are the hypotheses of the theorems -/
theorem wernerInRange_iff (d : ℕ) (a : K) : wernerInRange d a = true ↔ 1 < d ∧ -1 ≤ a ∧ a ≤ 1 := by
  simp [wernerInRange, and_assoc]

theorem isotropicInRange_iff (d : ℕ) (a : K) :
    isotropicInRange d a = true ↔ 1 < d ∧ -1 / ((d : K) * d - 1) ≤ a ∧ a ≤ 1 := by
  simp [isotropicInRange, and_assoc]

theorem unitInRange_iff (b : K) : unitInRange b = true ↔ 0 ≤ b ∧ b ≤ 1 := by simp [unitInRange]

/-- **inside the guard the Werner matrix is a state** (trace one, PSD) -/
theorem werner_checked (d : ℕ) (a : K) (h : wernerInRange d a = true) :
    (∑ p, wernerM d a p p = 1) ∧ ∀ x, 0 ≤ qform (wernerM d a) x := by
  obtain ⟨hd, h1, h2⟩ := (wernerInRange_iff d a).mp h
  have hdK : (2 : K) ≤ d := by exact_mod_cast hd
  refine ⟨werner_trace d a ?_, werner_psd d a h1 h2⟩
  have : (d : K) * d - d * a = d * (d - a) := by ring
  rw [this]; exact mul_ne_zero (by linarith) (by linarith)

/-- **inside the guard the isotropic matrix is a state** -/
theorem isotropic_checked (d : ℕ) (a : K) (h : isotropicInRange d a = true) :
    (∑ p, isotropicM d a p p = 1) ∧ ∀ x, 0 ≤ qform (isotropicM d a) x := by
  obtain ⟨hd, h1, h2⟩ := (isotropicInRange_iff d a).mp h
  exact ⟨isotropic_trace d (by omega) a, isotropic_psd d (by omega) a h1 h2⟩

/-- the REE closed forms are continuous with the separable branch: the entangled-branch value vanishes at the threshold
(the reference state of the relative entropy is the boundary state itself) -/
theorem wernerReeVal_threshold (log : K → K) (two : K) (d : ℕ) : wernerReeVal log two d (1 / (d : K)) = 0 := by
  simp [wernerReeVal, relTerm]

theorem isotropicReeVal_threshold (log : K → K) (d : ℕ) : isotropicReeVal log d (1 / ((d : K) + 1)) = 0 := by
  simp [isotropicReeVal, relTerm]

/-- the EOF value of the Werner family starts at zero: `h₂(0) = 0` (needs `sqrt 1 = 1`, `log 1 = 0`) -/
theorem wernerEofVal_zero (sqrt log : K → K) (two : K) (hs : sqrt 1 = 1) (hl : log 1 = 0) : wernerEofVal sqrt log two 0 = 0 := by
  simp [wernerEofVal, entropy2, entr, hs, hl]

/-! ## kets: unit norm (signed-square form: the squares of the amplitudes sum to one) -/

/-- **`W(n)` is normalised for every `n ≥ 1`** -/
theorem W_norm (n : ℕ) (hn : n ≠ 0) : ∑ x ∈ Finset.range (2 ^ n), (ketW n x).sq = 1 := ketW_norm n hn

/-- **`GHZ(n)` is normalised for every `n ≥ 1`** -/
theorem GHZ_norm (n : ℕ) (hn : n ≠ 0) : ∑ x ∈ Finset.range (2 ^ n), (ketGHZ n x).sq = 1 := ketGHZ_norm n hn

/-- **the four Bell states are normalised and pairwise orthogonal**: every non-zero amplitude is `±1/√2`
(`Bell_amplitudes`), so `⟨i|j⟩ = ½ Σ_x sgn_i(x) sgn_j(x)`, and the signed count is `2 δ_ij`. -/
theorem Bell_orthonormal :
    ∀ i < 4, ∀ j < 4, (∑ x ∈ Finset.range 4, (ketBell i x).sgn * (ketBell j x).sgn) = if i = j then 2 else 0 := by
  decide

theorem Bell_amplitudes : ∀ i < 4, ∀ x < 4, (ketBell i x).sgn = 0 ∨ (ketBell i x).sq = 1 / 2 := by
  intro i hi x hx
  interval_cases i <;> interval_cases x <;> simp [ketBell, SAmp.zero]

/-- **`maximally_entangled_state(d)` is normalised for every `d ≥ 1`** -/
theorem maxEnt_norm (d : ℕ) (hd : d ≠ 0) : ∑ i : Fin d, ∑ j : Fin d, (ketMaxEnt d i j).sq = 1 := by
  have hq : (d : ℚ) ≠ 0 := Nat.cast_ne_zero.mpr hd
  have : ∀ i j : Fin d, (ketMaxEnt d i j).sq = if i = j then 1 / (d : ℚ) else 0 := by
    intro i j; unfold ketMaxEnt
    by_cases h : i = j
    · simp [h]
    · have : ¬ ((i : ℕ) = (j : ℕ)) := fun e => h (Fin.ext e)
      simp [h, this, SAmp.zero]
  simp [this, Finset.card_univ, hq]

/-- **`maximally_coherent_state(d)` is normalised for every `d ≥ 1`** … -/
theorem maxCoh_norm (d : ℕ) (hd : d ≠ 0) : ∑ x ∈ Finset.range d, (ketMaxCoh d x).sq = 1 := by
  have hq : (d : ℚ) ≠ 0 := Nat.cast_ne_zero.mpr hd
  simp [ketMaxCoh, hq]

/-- … and **`return_dm=True` is the projector of the ket**: the entry `(r,c)` is the non-negative number whose square is
`sq_r · sq_c`, i.e. `√sq_r · √sq_c` (all signs are `+1`). -/
theorem maxCoh_dm_projector (d r c : ℕ) :
    dmMaxCoh d r c * dmMaxCoh d r c = (ketMaxCoh d r).sq * (ketMaxCoh d c).sq ∧ 0 ≤ dmMaxCoh d r c
      ∧ (ketMaxCoh d r).sgn = 1 ∧ (ketMaxCoh d c).sgn = 1 := by
  refine ⟨rfl, ?_, rfl, rfl⟩
  unfold dmMaxCoh; positivity

/-- **`Dicke(*klist)` is normalised for every occupation list** (the support — digit strings with occupation numbers `klist` —
has exactly `multinomial klist` elements; bridge to `Dicke.cnt_eq_multinomial` of the C17 development). -/
theorem dicke_norm (klist : List ℕ) :
    ∑ x ∈ Finset.range (klist.length ^ klist.sum), (ketDicke klist x).sq = 1 := ketDicke_norm klist

/-- non-vacuity: `Dicke(2,1)` is `(|001⟩+|010⟩+|100⟩)/√3` -/
example : (List.range 8).map (fun x => (ketDicke [2, 1] x).sgn) = [0, 1, 1, 0, 1, 0, 0, 0] ∧ (ketDicke [2, 1] 1).sq = 1 / 3 := by
  decide +kernel

/-! ## closed-form REE / EOF / GME of Werner and isotropic states vanish on the separable range

`sqrt` is any function with `0 ≤ sqrt x` and `sqrt x · sqrt x = x` on `x ≥ 0` (`np.sqrt`); `v`, `v1`, `v2` stand for the
values of the entangled branches (not needed on the separable range). -/

theorem wernerRee_separable (d : ℕ) (a v : K) (h : a ≤ 1 / (d : K)) : wernerRee d a v = 0 := if_pos h

theorem isotropicRee_separable (d : ℕ) (a v : K) (h : a ≤ 1 / ((d : K) + 1)) : isotropicRee d a v = 0 := if_pos h

theorem wernerEof_separable (v : K → K) (d : ℕ) (hd : 2 ≤ d) (al : K) (h : al ≤ 1 / (d : K)) : wernerEof v d al = 0 := by
  have hdK : (2 : K) ≤ d := by exact_mod_cast hd
  have hd0 : (0 : K) < d := by linarith
  have h1 : al * d ≤ 1 := by rwa [le_div_iff₀ hd0] at h
  have h2 : (1 : K) / d ≤ 1 := by rw [div_le_one hd0]; linarith
  unfold wernerEof
  simp only
  rw [if_neg]
  rw [not_lt]
  exact div_nonneg (by linarith) (by linarith)

theorem wernerGME_separable (sqrt : K → K) (hs1 : sqrt 1 = 1) (two : K) (d : ℕ) (hd : 2 ≤ d) (a : K) (h : a ≤ 1 / (d : K)) :
    wernerGME sqrt two d a = 0 := by
  have hdK : (2 : K) ≤ d := by exact_mod_cast hd
  have hd0 : (0 : K) < d := by linarith
  have h1 : a * d ≤ 1 := by rwa [le_div_iff₀ hd0] at h
  have h2 : (1 : K) / d ≤ 1 := by rw [div_le_one hd0]; linarith
  have hneg : a - d < 0 := by linarith
  have ht : (d : K) - (1 - (d : K) * d) / (a - d) = (1 - a * d) / (d - a) := by
    have hne1 : (d : K) - a ≠ 0 := by linarith
    have hne2 : a - (d : K) ≠ 0 := ne_of_lt hneg
    rw [show a - (d : K) = -((d : K) - a) by ring, div_neg]
    field_simp
    ring
  unfold wernerGME
  simp only
  rw [ht]
  rcases h1.lt_or_eq with hlt | heq
  · have : 0 < (1 - a * d) / (d - a) := div_pos (by linarith) (by linarith)
    rw [if_neg (not_le.mpr this)]; simp
  · have e0 : (1 - a * d) / (d - a) = 0 := by rw [heq]; simp
    rw [e0]
    have hn : ¬ ((1 : K) - 0 * 0 < 0) := by norm_num
    rw [if_pos (le_refl _), if_neg hn]
    simp [hs1]

theorem isotropicEof_separable (v1 v2 : K → K) (d : ℕ) (hd : 2 ≤ d) (al : K) (h : al ≤ 1 / ((d : K) + 1)) :
    isotropicEof v1 v2 4 d al = 0 := by
  have hdK : (2 : K) ≤ d := by exact_mod_cast hd
  have hd0 : (0 : K) < d := by linarith
  have hd1 : (0 : K) < (d : K) + 1 := by linarith
  have hdd : (0 : K) < (d : K) * d := by positivity
  have h1 : al * ((d : K) + 1) ≤ 1 := by rwa [le_div_iff₀ hd1] at h
  have hF : (1 + al * d * d - al) / ((d : K) * d) ≤ 1 / (d : K) := by
    rw [div_le_div_iff₀ hdd hd0]
    have h3 : al * ((d : K) + 1) * ((d : K) - 1) ≤ 1 * ((d : K) - 1) := mul_le_mul_of_nonneg_right h1 (by linarith)
    have h4 := mul_le_mul_of_nonneg_left h3 hd0.le
    nlinarith [h4]
  have hthr : 1 / (d : K) ≤ 4 * ((d : K) - 1) / ((d : K) * d) := by
    rw [div_le_div_iff₀ hd0 hdd]
    nlinarith
  unfold isotropicEof
  simp only
  rw [if_neg (fun hc => absurd hc.1 (not_lt.mpr hF)), if_neg (not_lt.mpr (hF.trans hthr))]

theorem isotropicGME_separable (sqrt : K → K) (hs0 : ∀ x, 0 ≤ sqrt x) (hsq : ∀ x, 0 ≤ x → sqrt x * sqrt x = x)
    (d : ℕ) (hd : 2 ≤ d) (a : K) (h : a ≤ 1 / ((d : K) + 1)) : isotropicGME sqrt d a = 0 := by
  have hdK : (2 : K) ≤ d := by exact_mod_cast hd
  have hd0 : (0 : K) < d := by linarith
  have hd1 : (0 : K) < (d : K) + 1 := by linarith
  have hdd : (0 : K) < (d : K) * d := by positivity
  have h1 : a * ((d : K) + 1) ≤ 1 := by rwa [le_div_iff₀ hd1] at h
  have hF : a + (1 - a) / ((d : K) * d) ≤ 1 / (d : K) := by
    have e : a + (1 - a) / ((d : K) * d) = (1 + a * d * d - a) / ((d : K) * d) := by field_simp; ring
    rw [e, div_le_div_iff₀ hdd hd0]
    have h3 : a * ((d : K) + 1) * ((d : K) - 1) ≤ 1 * ((d : K) - 1) := mul_le_mul_of_nonneg_right h1 (by linarith)
    have h4 := mul_le_mul_of_nonneg_left h3 hd0.le
    nlinarith [h4]
  have hinv : (0 : K) < 1 / d := by positivity
  have hinv1 : (1 : K) / d < 1 := by rw [div_lt_one hd0]; linarith
  unfold isotropicGME
  simp only
  set f0 := a + (1 - a) / ((d : K) * d) with hf0
  rcases hF.lt_or_eq with hlt | heq
  · -- strictly inside: the indicator is 0
    have hf : (if f0 < 0 then (0 : K) else if 1 < f0 then 1 else f0) < 1 / d := by
      split_ifs with c1 c2
      · exact hinv
      · linarith
      · exact hlt
    rw [if_neg (not_le.mpr hf)]; simp
  · -- end point α = 1/(d+1): F = 1/d and (√F + √((1-F)(d-1)))² = d
    have c1 : ¬ f0 < 0 := by rw [heq]; exact not_lt.mpr hinv.le
    have c2 : ¬ 1 < f0 := by rw [heq]; exact not_lt.mpr hinv1.le
    rw [if_neg c1, if_neg c2, heq, if_pos (le_refl _), one_mul]
    have hw : (1 - 1 / (d : K)) * ((d : K) - 1) = ((d : K) - 1) * ((d : K) - 1) / d := by field_simp
    have hw0 : 0 ≤ (1 - 1 / (d : K)) * ((d : K) - 1) := by
      rw [hw]; exact div_nonneg (mul_self_nonneg _) hd0.le
    set u := sqrt (1 / (d : K)) with hu
    set w := sqrt ((1 - 1 / (d : K)) * ((d : K) - 1)) with hwd
    have hu2 : u * u = 1 / d := hsq _ hinv.le
    have hw2 : w * w = ((d : K) - 1) * ((d : K) - 1) / d := by rw [← hw]; exact hsq _ hw0
    have huw : u * w = ((d : K) - 1) / d := by
      have hnn : 0 ≤ u * w := mul_nonneg (hs0 _) (hs0 _)
      have hr : 0 ≤ ((d : K) - 1) / d := div_nonneg (by linarith) hd0.le
      have hsqr : (u * w) * (u * w) = (((d : K) - 1) / d) * (((d : K) - 1) / d) := by
        calc (u * w) * (u * w) = (u * u) * (w * w) := by ring
          _ = (1 / d) * (((d : K) - 1) * ((d : K) - 1) / d) := by rw [hu2, hw2]
          _ = (((d : K) - 1) / d) * (((d : K) - 1) / d) := by field_simp
      exact (mul_self_inj hnn hr).mp hsqr
    have hs : (u + w) * (u + w) = d := by
      calc (u + w) * (u + w) = u * u + w * w + 2 * (u * w) := by ring
        _ = 1 / d + ((d : K) - 1) * ((d : K) - 1) / d + 2 * (((d : K) - 1) / d) := by rw [hu2, hw2, huw]
        _ = d := by field_simp; ring
    rw [hs]; field_simp; ring

/-! ## unextendible product bases: the fixed tables with amplitudes `±√(rational)`

`upbTableOrthonormal` is the exact (rational-arithmetic) test: every local vector has squared norm one and for every
pair of product vectors some party has local overlap `Σ_k ± √(sq_k sq'_k)` whose terms cancel radicand by radicand.
(The soundness of this test — equal radicands give equal square roots — is a two-line argument that is not formalised; the
same facts are probed numerically on the implementation's arrays.) -/

theorem upb_tiles_orthonormal : upbTableOrthonormal upbTiles = true := by decide +kernel
theorem upb_feng4x4_orthonormal : upbTableOrthonormal upbFeng4x4 = true := by decide +kernel
theorem upb_feng2x2x2x2_orthonormal : upbTableOrthonormal upbFeng2x2x2x2 = true := by decide +kernel

/-- the test is not vacuous: it rejects the `tiles` table with one sign flipped -/
example : upbTableOrthonormal
    [ upbTiles.headD [], [ [sa 1 1 2, sa (-1) 1 2, s0], [s0, s0, s1], [s0, sa 1 1 2, sa 1 1 2], [s1, s0, s0], [sa 1 1 3, sa 1 1 3, sa 1 1 3] ] ] = false := by
  decide +kernel

/-! ## UPB families with structured / algebraic entries -/

/-- **GenShifts(k), every `k ≥ 1`** (`2k` product vectors of `2k-1` qubits): all local vectors are unit vectors and for every
pair of product vectors some qubit carries orthogonal local vectors — hence the product of the local overlaps, which is the
overlap of the product vectors, vanishes.  `c a`, `s a` stand for `cos(aπ/2k)`, `sin(aπ/2k)`; only `c²+s²=1` and the
quarter-turn relation `c_a c_{a+k} + s_a s_{a+k} = 0` are used. -/
theorem genshifts_orthonormal {R : Type} [CommRing R] (c s : ℕ → R) (k : ℕ)
    (hn : ∀ a, c a * c a + s a * s a = 1) (hq : ∀ a, c a * c (a + k) + s a * s (a + k) = 0) :
    (∀ x i, (gsVec c s k x i).1 * (gsVec c s k x i).1 + (gsVec c s k x i).2 * (gsVec c s k x i).2 = 1) ∧
    ∀ i < 2 * k, ∀ j < 2 * k, i ≠ j →
      (∃ x < 2 * k - 1, (gsVec c s k x i).1 * (gsVec c s k x j).1 + (gsVec c s k x i).2 * (gsVec c s k x j).2 = 0) ∧
      ∏ x ∈ Finset.range (2 * k - 1), ((gsVec c s k x i).1 * (gsVec c s k x j).1 + (gsVec c s k x i).2 * (gsVec c s k x j).2) = 0 := by
  refine ⟨fun x i => hn _, ?_⟩
  intro i hi j hj hij
  have key : ∃ x < 2 * k - 1, (gsVec c s k x i).1 * (gsVec c s k x j).1 + (gsVec c s k x i).2 * (gsVec c s k x j).2 = 0 := by
    rcases Nat.lt_or_gt_of_ne hij with h | h
    · obtain ⟨x, hx, hor⟩ := gs_pair_lt k i j h hj
      refine ⟨x, hx, ?_⟩
      simp only [gsVec]
      rcases hor with e | e
      · rw [← e]; exact hq _
      · rw [← e]; have := hq (gsAngle k x j); linear_combination this
    · obtain ⟨x, hx, hor⟩ := gs_pair_lt k j i h hi
      refine ⟨x, hx, ?_⟩
      simp only [gsVec]
      rcases hor with e | e
      · rw [← e]; have := hq (gsAngle k x j); linear_combination this
      · rw [← e]; exact hq _
  refine ⟨key, ?_⟩
  obtain ⟨x, hx, h0⟩ := key
  exact Finset.prod_eq_zero (Finset.mem_range.mpr hx) h0

/-- the hypotheses of `genshifts_orthonormal` hold for the real cosines / sines of `aπ/2k` -/
theorem genshifts_real (k : ℕ) (hk : 0 < k) :
    (∀ a : ℕ, Real.cos (a * (Real.pi / (2 * k))) * Real.cos (a * (Real.pi / (2 * k))) + Real.sin (a * (Real.pi / (2 * k))) * Real.sin (a * (Real.pi / (2 * k))) = 1) ∧
    ∀ a : ℕ, Real.cos (a * (Real.pi / (2 * k))) * Real.cos ((a + k : ℕ) * (Real.pi / (2 * k)))
      + Real.sin (a * (Real.pi / (2 * k))) * Real.sin ((a + k : ℕ) * (Real.pi / (2 * k))) = 0 := by
  have hkR : (k : ℝ) ≠ 0 := by exact_mod_cast hk.ne'
  refine ⟨fun a => by have := Real.cos_sq_add_sin_sq (a * (Real.pi / (2 * k))); nlinarith [this], fun a => ?_⟩
  have e : ((a + k : ℕ) : ℝ) * (Real.pi / (2 * k)) = (a : ℝ) * (Real.pi / (2 * k)) + Real.pi / 2 := by
    push_cast; field_simp
  rw [e, Real.cos_add, Real.sin_add, Real.cos_pi_div_two, Real.sin_pi_div_two]; ring

/-- **Pyramid**: the five product vectors `v_a ⊗ v_{2a mod 5}` are orthonormal. Algebraic form: `c_x c_y + s_x s_y = C((x-y) mod 5)`
(cosine of the angle difference), `C 0 = 1`, `C 2 = C 3 = -h²` (`cos 144° = -(1+√5)/4 = -h²`), `scale²(1+h²) = 1`. -/
theorem pyramid_orthonormal {R : Type} [CommRing R] (c s C : ℕ → R) (h scale : R)
    (hC : ∀ x < 5, ∀ y < 5, c x * c y + s x * s y = C ((x + 5 - y) % 5))
    (h0 : C 0 = 1) (h2 : C 2 = -(h * h)) (h3 : C 3 = -(h * h)) (hs : scale * scale * (1 + h * h) = 1) :
    (∀ p < 2, ∀ a < 5, dotList (pyramidVec c s h scale (pyramidIdx p a)) (pyramidVec c s h scale (pyramidIdx p a)) = 1) ∧
    ∀ a < 5, ∀ b < 5, a ≠ b →
      dotList (pyramidVec c s h scale (pyramidIdx 0 a)) (pyramidVec c s h scale (pyramidIdx 0 b))
        * dotList (pyramidVec c s h scale (pyramidIdx 1 a)) (pyramidVec c s h scale (pyramidIdx 1 b)) = 0 := by
  have dot : ∀ x < 5, ∀ y < 5, dotList (pyramidVec c s h scale x) (pyramidVec c s h scale y)
      = scale * scale * (C ((x + 5 - y) % 5) + h * h) := by
    intro x hx y hy
    simp only [dotList, pyramidVec, List.zip_cons_cons, List.zip_nil_right, List.foldl_cons, List.foldl_nil]
    rw [← hC x hx y hy]; ring
  constructor
  · intro p hp a ha
    have hidx : pyramidIdx p a < 5 := by unfold pyramidIdx; split <;> omega
    rw [dot _ hidx _ hidx]
    have : (pyramidIdx p a + 5 - pyramidIdx p a) % 5 = 0 := by omega
    rw [this, h0]; exact hs
  · intro a ha b hb hab
    have ia : pyramidIdx 0 a = a := rfl
    have ib : pyramidIdx 0 b = b := rfl
    have ja : pyramidIdx 1 a = (2 * a) % 5 := rfl
    have jb : pyramidIdx 1 b = (2 * b) % 5 := rfl
    rw [ia, ib, ja, jb, dot a ha b hb, dot _ (Nat.mod_lt _ (by norm_num)) _ (Nat.mod_lt _ (by norm_num))]
    interval_cases a <;> interval_cases b <;> simp at hab <;> norm_num [h2, h3]

/-- the hypotheses of `pyramid_orthonormal` hold for `c x = cos(2πx/5)`, `s x = sin(2πx/5)`, `h = √(1+√5)/2`,
`scale = 2/√(5+√5)` -/
theorem pyramid_real :
    (∀ x : ℕ, x < 5 → ∀ y : ℕ, y < 5 → Real.cos (2 * Real.pi * (x : ℝ) / 5) * Real.cos (2 * Real.pi * (y : ℝ) / 5)
      + Real.sin (2 * Real.pi * (x : ℝ) / 5) * Real.sin (2 * Real.pi * (y : ℝ) / 5)
      = (fun d : ℕ => Real.cos (2 * Real.pi * (d : ℝ) / 5)) ((x + 5 - y) % 5)) ∧
    Real.cos (2 * Real.pi * (2 : ℕ) / 5) = -((Real.sqrt (1 + Real.sqrt 5) / 2) * (Real.sqrt (1 + Real.sqrt 5) / 2)) ∧
    Real.cos (2 * Real.pi * (3 : ℕ) / 5) = -((Real.sqrt (1 + Real.sqrt 5) / 2) * (Real.sqrt (1 + Real.sqrt 5) / 2)) ∧
    (2 / Real.sqrt (5 + Real.sqrt 5)) * (2 / Real.sqrt (5 + Real.sqrt 5))
      * (1 + (Real.sqrt (1 + Real.sqrt 5) / 2) * (Real.sqrt (1 + Real.sqrt 5) / 2)) = 1 := by
  have h5 : (0 : ℝ) ≤ Real.sqrt 5 := Real.sqrt_nonneg 5
  have hh : (Real.sqrt (1 + Real.sqrt 5) / 2) * (Real.sqrt (1 + Real.sqrt 5) / 2) = (1 + Real.sqrt 5) / 4 := by
    rw [div_mul_div_comm, Real.mul_self_sqrt (by linarith)]; norm_num
  have hcos : Real.cos (Real.pi / 5) = (1 + Real.sqrt 5) / 4 := Real.cos_pi_div_five
  refine ⟨?_, ?_, ?_, ?_⟩
  · intro x hx y hy
    rw [← Real.cos_sub]
    show _ = Real.cos (2 * Real.pi * (((x + 5 - y) % 5 : ℕ) : ℝ) / 5)
    -- the two angles differ by a multiple of 2π
    obtain ⟨q, hq⟩ : ∃ q : ℕ, x + 5 - y = (x + 5 - y) % 5 + 5 * q := ⟨(x + 5 - y) / 5, (Nat.mod_add_div _ _).symm⟩
    have hcast : (x : ℝ) + 5 - y = (((x + 5 - y) % 5 : ℕ) : ℝ) + 5 * q := by
      have : ((x + 5 - y : ℕ) : ℝ) = (x : ℝ) + 5 - y := by
        rw [Nat.cast_sub (by omega)]; push_cast; ring
      rw [← this]; exact_mod_cast hq
    have : 2 * Real.pi * x / 5 - 2 * Real.pi * y / 5
        = 2 * Real.pi * (((x + 5 - y) % 5 : ℕ) : ℝ) / 5 + ((q : ℤ) - 1 : ℤ) * (2 * Real.pi) := by
      push_cast; linear_combination (2 * Real.pi / 5) * hcast
    rw [this, Real.cos_add_int_mul_two_pi]
  · rw [hh, show 2 * Real.pi * ((2 : ℕ) : ℝ) / 5 = Real.pi - Real.pi / 5 by push_cast; ring, Real.cos_pi_sub, hcos]
  · rw [hh, show 2 * Real.pi * ((3 : ℕ) : ℝ) / 5 = Real.pi / 5 + Real.pi by push_cast; ring, Real.cos_add_pi, hcos]
  · rw [hh, div_mul_div_comm, Real.mul_self_sqrt (by linarith)]
    have : (5 + Real.sqrt 5) ≠ 0 := by linarith
    field_simp; ring

/-- **six-parameter UPB of 3×3, every parameter value**: with `c²+s²=1` for `γ, θ`, `|e^{iφ}| = 1` and a non-zero
`nrm = √(cos²γ + sin²γ cos²θ)` on both sides, all ten local vectors are unit vectors and every pair of the five product vectors is
orthogonal on party A or on party B (Hermitian inner product `hdot`). -/
theorem sixparam_orthonormal {F : Type} [Field F]
    (cgA sgA ctA stA nA : F) (eA : Numqi.Lie.Cx F) (cgB sgB ctB stB nB : F) (eB : Numqi.Lie.Cx F)
    (hgA : cgA * cgA + sgA * sgA = 1) (htA : ctA * ctA + stA * stA = 1) (heA : eA.re * eA.re + eA.im * eA.im = 1)
    (hnA : nA * nA = cgA * cgA + sgA * sgA * (ctA * ctA)) (hnA0 : nA ≠ 0)
    (hgB : cgB * cgB + sgB * sgB = 1) (htB : ctB * ctB + stB * stB = 1) (heB : eB.re * eB.re + eB.im * eB.im = 1)
    (hnB : nB * nB = cgB * cgB + sgB * sgB * (ctB * ctB)) (hnB0 : nB ≠ 0) :
    (∀ i < 5, hdot ((sixparamA cgA sgA ctA stA nA eA).getD i []) ((sixparamA cgA sgA ctA stA nA eA).getD i []) = 1
            ∧ hdot ((sixparamB cgB sgB ctB stB nB eB).getD i []) ((sixparamB cgB sgB ctB stB nB eB).getD i []) = 1) ∧
    ∀ i < 5, ∀ j < 5, i ≠ j →
      hdot ((sixparamA cgA sgA ctA stA nA eA).getD i []) ((sixparamA cgA sgA ctA stA nA eA).getD j []) = 0 ∨
      hdot ((sixparamB cgB sgB ctB stB nB eB).getD i []) ((sixparamB cgB sgB ctB stB nB eB).getD j []) = 0 := by
  have tA := six_norm_theta cgA sgA ctA stA nA eA hgA htA heA hnA hnA0
  have mA := six_norm_mixed cgA sgA ctA stA nA eA hgA htA heA hnA hnA0
  have lA := six_norm_last cgA sgA ctA stA nA eA hgA htA heA hnA hnA0
  have tB := six_norm_theta cgB sgB ctB stB nB eB hgB htB heB hnB hnB0
  have mB := six_norm_mixed cgB sgB ctB stB nB eB hgB htB heB hnB hnB0
  have lB := six_norm_last cgB sgB ctB stB nB eB hgB htB heB hnB hnB0
  have a23 := six_theta_mixed cgA sgA ctA stA nA eA hgA htA heA hnA hnA0
  have a32 := six_mixed_theta cgA sgA ctA stA nA eA hgA htA heA hnA hnA0
  have a34 := six_mixed_last cgA sgA ctA stA nA eA hgA htA heA hnA hnA0
  have a43 := six_last_mixed cgA sgA ctA stA nA eA hgA htA heA hnA hnA0
  have b13 := six_mixed_theta cgB sgB ctB stB nB eB hgB htB heB hnB hnB0
  have b31 := six_theta_mixed cgB sgB ctB stB nB eB hgB htB heB hnB hnB0
  have b14 := six_mixed_last cgB sgB ctB stB nB eB hgB htB heB hnB hnB0
  have b41 := six_last_mixed cgB sgB ctB stB nB eB hgB htB heB hnB hnB0
  have unit0 : hdot [(1 : Numqi.Lie.Cx F), 0, 0] [1, 0, 0] = 1 := by rw [hdot3]; ext <;> simp
  have unit1 : hdot [(0 : Numqi.Lie.Cx F), 1, 0] [0, 1, 0] = 1 := by rw [hdot3]; ext <;> simp
  constructor
  · intro i hi
    interval_cases i <;> simp only [sixparamA, sixparamB, List.getD_cons_zero, List.getD_cons_succ] <;>
      first | exact ⟨unit0, unit1⟩ | exact ⟨unit1, mB⟩ | exact ⟨tA, unit0⟩ | exact ⟨mA, tB⟩ | exact ⟨lA, lB⟩
  · intro i hi j hj hij
    interval_cases i <;> interval_cases j <;> simp at hij <;>
      simp only [sixparamA, sixparamB, List.getD_cons_zero, List.getD_cons_succ] <;>
      first
        | (left; first | exact a23 | exact a32 | exact a34 | exact a43)
        | (right; first | exact b13 | exact b31 | exact b14 | exact b41)
        | (left; simp only [sixRowTheta, sixRowMixed, sixRowLast, hdot3]; (ext <;> simp); done)
        | (right; simp only [sixRowTheta, sixRowMixed, sixRowLast, hdot3]; (ext <;> simp); done)

/-- **Min4x4**: exact check in `ℤ[√2]` (row norms as stated in the source; every pair orthogonal on party A or party B) -/
theorem min4x4_orthonormal : min4x4Orthonormal = true := by decide +kernel

/-! ## UPB → bound entangled state: the complement projector (`upb_to_bes`), for every orthonormal set of product vectors

`w a` is the `a`-th product vector (`a < m`) in dimension `D`; `Orthonormal m D w` says `⟨w_a|w_b⟩ = δ_ab`;
`upbCompl m w = 1 - Σ_a |w_a⟩⟨w_a|` is what `upb_to_bes` computes before dividing by the trace; `hform D M x = x† M x`. -/

/-- **the complement of an orthonormal set is a Hermitian projector of trace `D - |UPB|`, hence positive semidefinite** -/
theorem upb_bes_projector (m D : ℕ) (w : ℕ → ℕ → ℂ) (h : Orthonormal m D w) :
    (∀ r < D, ∀ c < D, ∑ y ∈ Finset.range D, upbCompl m w r y * upbCompl m w y c = upbCompl m w r c)
    ∧ (∀ r c, starRingEnd ℂ (upbCompl m w r c) = upbCompl m w c r)
    ∧ ∑ r ∈ Finset.range D, upbCompl m w r r = (D : ℂ) - (m : ℂ)
    ∧ ∀ x : ℕ → ℂ, 0 ≤ (hform D (upbCompl m w) x).re ∧ (hform D (upbCompl m w) x).im = 0 :=
  ⟨fun r hr c hc => upbCompl_idem m D w h r c hr hc, upbCompl_conj m w, upbCompl_trace m D w h,
   hform_nonneg_of_idem D _ (fun r hr c hc => upbCompl_idem m D w h r c hr hc) (upbCompl_conj m w)⟩

/-- **… and it is PPT when the vectors are product vectors** `w_a = u_a ⊗ v_a` across the cut `dA × dB`: the partial
transpose is the complement projector of the orthonormal set `u_a ⊗ v̄_a`. (Unextendibility — which makes the state
*entangled* — is literature and not part of this statement.) -/
theorem upb_bes_ppt (m dA dB : ℕ) (hB : 0 < dB) (u v : ℕ → ℕ → ℂ)
    (h : Orthonormal m (dA * dB) (prodVec dB u v)) (x : ℕ → ℂ) :
    0 ≤ (hform (dA * dB) (ptB dB (upbCompl m (prodVec dB u v))) x).re
      ∧ (hform (dA * dB) (ptB dB (upbCompl m (prodVec dB u v))) x).im = 0 := by
  have e : ptB dB (upbCompl m (prodVec dB u v)) = upbCompl m (prodVec dB u (fun a t => starRingEnd ℂ (v a t))) :=
    funext fun r => funext fun c => ptB_upbCompl m dB hB u v r c
  rw [e]
  exact (upb_bes_projector m (dA * dB) _ (orthonormal_conj_right m dA dB hB u v h)).2.2.2 x

/-! ### the catalogue tables satisfy `Orthonormal`, so the two theorems above apply to them

`tableVecR party a t` is the real number `sgn·√sq` denoted by component `t` of local vector `a`; the product vectors are
`prodVec` of the parties' vectors (nested from the right for four parties). -/

/-- the product vectors of `load_upb('tiles')` as functions `ℕ → ℕ → ℂ` -/
noncomputable def tilesW : ℕ → ℕ → ℂ :=
  prodVec 3 (fun a t => (tableVecR (upbTiles.getD 0 []) a t : ℂ)) (fun a t => (tableVecR (upbTiles.getD 1 []) a t : ℂ))
noncomputable def feng4x4W : ℕ → ℕ → ℂ :=
  prodVec 4 (fun a t => (tableVecR (upbFeng4x4.getD 0 []) a t : ℂ)) (fun a t => (tableVecR (upbFeng4x4.getD 1 []) a t : ℂ))
noncomputable def feng2x2x2x2W : ℕ → ℕ → ℂ :=
  prodVec (2 * (2 * 2)) (fun a t => (tableVecR (upbFeng2x2x2x2.getD 0 []) a t : ℂ))
    (prodVec (2 * 2) (fun a t => (tableVecR (upbFeng2x2x2x2.getD 1 []) a t : ℂ))
      (prodVec 2 (fun a t => (tableVecR (upbFeng2x2x2x2.getD 2 []) a t : ℂ)) (fun a t => (tableVecR (upbFeng2x2x2x2.getD 3 []) a t : ℂ))))

/-- **`tiles`: five orthonormal product vectors in `3 × 3`** (real square roots; all 25 overlaps computed) -/
theorem upb_tiles_Orthonormal : Orthonormal 5 (3 * 3) tilesW :=
  orthonormal_of_local2 5 3 3 (by norm_num) _ _ (fun a ha b hb => tiles_local a b ha hb)

/-- **`feng4x4`: eight orthonormal product vectors in `4 × 4`** -/
theorem upb_feng4x4_Orthonormal : Orthonormal 8 (4 * 4) feng4x4W :=
  orthonormal_of_local2 8 4 4 (by norm_num) _ _ (fun a ha b hb => feng4x4_local a b ha hb)

/-- **`feng2x2x2x2`: six orthonormal product vectors of four qubits** -/
theorem upb_feng2x2x2x2_Orthonormal : Orthonormal 6 (2 * (2 * (2 * 2))) feng2x2x2x2W :=
  orthonormal_of_local4 6 2 2 2 2 (by norm_num) (by norm_num) (by norm_num) _ _ _ _ (fun a ha b hb => feng2x2x2x2_local a b ha hb)

noncomputable def min4x4W : ℕ → ℕ → ℂ :=
  prodVec 4 (fun a t => (zrowVec min4x4A a t : ℂ)) (fun a t => (zrowVec min4x4B a t : ℂ))

/-- **`min4x4`: eight orthonormal product vectors in `4 × 4`** — the exact `ℤ[√2]` arithmetic is transported to ℝ by the ring
homomorphism `a + b√2 ↦ a + b·√2` (`Z2.val_add`, `Z2.val_mul`), so here the kernel-evaluated test *is* proved sound -/
theorem upb_min4x4_Orthonormal : Orthonormal 8 (4 * 4) min4x4W :=
  orthonormal_of_local2 8 4 4 (by norm_num) _ _ (fun a ha b hb => min4x4_local a b ha hb)

theorem upb_min4x4_bes (x : ℕ → ℂ) :
    (∑ r ∈ Finset.range (4 * 4), upbCompl 8 min4x4W r r = ((4 * 4 : ℕ) : ℂ) - (8 : ℕ))
    ∧ 0 ≤ (hform (4 * 4) (upbCompl 8 min4x4W) x).re ∧ 0 ≤ (hform (4 * 4) (ptB 4 (upbCompl 8 min4x4W)) x).re :=
  ⟨(upb_bes_projector 8 (4 * 4) min4x4W upb_min4x4_Orthonormal).2.2.1,
   ((upb_bes_projector 8 (4 * 4) min4x4W upb_min4x4_Orthonormal).2.2.2 x).1,
   (upb_bes_ppt 8 4 4 (by norm_num) _ _ upb_min4x4_Orthonormal x).1⟩

/-- hence **the bound entangled state of `tiles` is a PSD projector of trace `9 − 5` and is PPT** (same for the other two tables,
for `feng2x2x2x2` across the cut `A | BCD`) -/
theorem upb_tiles_bes (x : ℕ → ℂ) :
    (∑ r ∈ Finset.range (3 * 3), upbCompl 5 tilesW r r = ((3 * 3 : ℕ) : ℂ) - (5 : ℕ))
    ∧ 0 ≤ (hform (3 * 3) (upbCompl 5 tilesW) x).re ∧ 0 ≤ (hform (3 * 3) (ptB 3 (upbCompl 5 tilesW)) x).re :=
  ⟨(upb_bes_projector 5 (3 * 3) tilesW upb_tiles_Orthonormal).2.2.1,
   ((upb_bes_projector 5 (3 * 3) tilesW upb_tiles_Orthonormal).2.2.2 x).1,
   (upb_bes_ppt 5 3 3 (by norm_num) _ _ upb_tiles_Orthonormal x).1⟩

theorem upb_feng4x4_bes (x : ℕ → ℂ) :
    (∑ r ∈ Finset.range (4 * 4), upbCompl 8 feng4x4W r r = ((4 * 4 : ℕ) : ℂ) - (8 : ℕ))
    ∧ 0 ≤ (hform (4 * 4) (upbCompl 8 feng4x4W) x).re ∧ 0 ≤ (hform (4 * 4) (ptB 4 (upbCompl 8 feng4x4W)) x).re :=
  ⟨(upb_bes_projector 8 (4 * 4) feng4x4W upb_feng4x4_Orthonormal).2.2.1,
   ((upb_bes_projector 8 (4 * 4) feng4x4W upb_feng4x4_Orthonormal).2.2.2 x).1,
   (upb_bes_ppt 8 4 4 (by norm_num) _ _ upb_feng4x4_Orthonormal x).1⟩

theorem upb_feng2x2x2x2_bes (x : ℕ → ℂ) :
    (∑ r ∈ Finset.range (2 * (2 * (2 * 2))), upbCompl 6 feng2x2x2x2W r r = ((2 * (2 * (2 * 2)) : ℕ) : ℂ) - (6 : ℕ))
    ∧ 0 ≤ (hform (2 * (2 * (2 * 2))) (upbCompl 6 feng2x2x2x2W) x).re
    ∧ 0 ≤ (hform (2 * (2 * (2 * 2))) (ptB (2 * (2 * 2)) (upbCompl 6 feng2x2x2x2W)) x).re :=
  ⟨(upb_bes_projector 6 _ feng2x2x2x2W upb_feng2x2x2x2_Orthonormal).2.2.1,
   ((upb_bes_projector 6 _ feng2x2x2x2W upb_feng2x2x2x2_Orthonormal).2.2.2 x).1,
   (upb_bes_ppt 6 2 (2 * (2 * 2)) (by norm_num) _ _ upb_feng2x2x2x2_Orthonormal x).1⟩

/-- **bridge to the driver**: the product vectors that `get_upb_product` (`upbProductRow`, executed by the `upbbes` op) builds are the
`prodVec` of the theorems — two parties directly, more parties one at a time (the last party carries the fastest index). -/
theorem upb_product_is_prodVec {M : Type} [MonoidWithZero M] (u v : List M) (hv : 0 < v.length) (x : ℕ) (hx : x < u.length * v.length) :
    (upbProductRow [u, v]).getD x 0 = prodVec v.length (fun _ t => u.getD t 0) (fun _ t => v.getD t 0) 0 x :=
  upbProductRow_two u v hv x hx

theorem upb_product_step {M : Type} [MonoidWithZero M] (rows : List (List M)) (v : List M) (hv : 0 < v.length) (x : ℕ)
    (hx : x < (upbProductRow rows).length * v.length) :
    (upbProductRow (rows ++ [v])).getD x 0
      = prodVec v.length (fun _ t => (upbProductRow rows).getD t 0) (fun _ t => v.getD t 0) 0 x :=
  upbProductRow_step rows v hv x hx

/-- non-vacuity: two orthonormal product vectors `|0⟩|0⟩`, `|1⟩|1⟩` in `2 × 2` -/
example : Orthonormal 2 (2 * 2) (prodVec 2 (fun a i => if a = i then (1 : ℂ) else 0) (fun a j => if a = j then (1 : ℂ) else 0)) := by
  intro a ha b hb
  interval_cases a <;> interval_cases b <;> simp [Catalogue.inner, prodVec, Finset.sum_range_succ]

/-! ## Chebyshev bases -/

/-- the recurrence of the model computes the Chebyshev polynomials, `T_n(cos θ) = cos(n θ)` -/
theorem chebT_cos (θ : ℝ) (n : ℕ) : chebT (Real.cos θ) n = Real.cos (n * θ) := by
  induction n using Nat.strong_induction_on with
  | _ n ih =>
    match n with
    | 0 => simp [chebT]
    | 1 => simp [chebT]
    | k + 2 =>
      rw [chebT, ih (k + 1) (by omega), ih k (by omega)]
      have h1 : ((k + 2 : ℕ) : ℝ) * θ = ((k + 1 : ℕ) : ℝ) * θ + θ := by push_cast; ring
      have h2 : ((k : ℕ) : ℝ) * θ = ((k + 1 : ℕ) : ℝ) * θ - θ := by push_cast; ring
      rw [h1, h2, Real.cos_add, Real.cos_sub]; ring

/-- **discrete orthogonality of `T_0 … T_{d-1}` at the roots of `T_d`**, every `d` -/
theorem chebyshev_discrete_orthogonality (d m n : ℕ) (hm : m < d) (hn : n < d) :
    ∑ k ∈ Finset.range d, chebT (Real.cos (chebNode d k)) m * chebT (Real.cos (chebNode d k)) n
      = if m = n then (if m = 0 then (d : ℝ) else d / 2) else 0 := by
  simp only [chebT_cos]; exact sum_cos_cos_node d m n hm hn

/-- `basis0` of `get_chebshev_orthonormal(d, ·)` over `ℝ` -/
noncomputable def chebB0 (d : ℕ) : Matrix (Fin d) (Fin d) ℝ :=
  fun k n => chebBasis0 (Real.sqrt 2) (Real.sqrt d) (fun k => Real.cos (chebNode d k)) k n

/-- `basis1` over `ℝ` -/
noncomputable def chebB1 (d : ℕ) : Matrix (Fin d) (Fin d) ℝ :=
  fun k n => chebBasis1 (Real.sqrt 2) (Real.sqrt ((d - 1 : ℕ) : ℝ)) (fun k => Real.cos (chebNode (d - 1) k)) d k n

private theorem chebvalN_mul (x : ℝ) (m n : ℕ) :
    chebvalN (Real.sqrt 2) x m * chebvalN (Real.sqrt 2) x n
      = (if m = 0 then 1 else Real.sqrt 2) * (if n = 0 then 1 else Real.sqrt 2) * (chebT x m * chebT x n) := by
  unfold chebvalN; ring

private theorem cheb_cols (d m n : ℕ) (hd : 0 < d) (hm : m < d) (hn : n < d) :
    ∑ k ∈ Finset.range d, chebvalN (Real.sqrt 2) (Real.cos (chebNode d k)) m / Real.sqrt d
        * (chebvalN (Real.sqrt 2) (Real.cos (chebNode d k)) n / Real.sqrt d) = if m = n then 1 else 0 := by
  have hdR : (0 : ℝ) < d := by exact_mod_cast hd
  have hsd : Real.sqrt d * Real.sqrt d = d := Real.mul_self_sqrt hdR.le
  have hs2 : Real.sqrt 2 * Real.sqrt 2 = 2 := Real.mul_self_sqrt (by norm_num)
  have e : ∀ k, chebvalN (Real.sqrt 2) (Real.cos (chebNode d k)) m / Real.sqrt d
        * (chebvalN (Real.sqrt 2) (Real.cos (chebNode d k)) n / Real.sqrt d)
      = (if m = 0 then 1 else Real.sqrt 2) * (if n = 0 then 1 else Real.sqrt 2) / d
        * (chebT (Real.cos (chebNode d k)) m * chebT (Real.cos (chebNode d k)) n) := by
    intro k
    rw [div_mul_div_comm, chebvalN_mul, hsd]; ring
  simp only [e, ← Finset.mul_sum, chebyshev_discrete_orthogonality d m n hm hn]
  by_cases hmn : m = n
  · subst hmn
    by_cases h0 : m = 0
    · subst h0; simp; field_simp
    · simp only [if_neg h0, if_true]
      rw [hs2]; field_simp
  · simp [hmn]

/-- **`basis0` is an orthonormal basis for every `d ≥ 1`** (columns by discrete orthogonality, rows because the matrix is square) -/
theorem chebyshev_basis0_orthonormal (d : ℕ) (hd : 0 < d) :
    (chebB0 d).transpose * chebB0 d = 1 ∧ chebB0 d * (chebB0 d).transpose = 1 := by
  have h1 : (chebB0 d).transpose * chebB0 d = 1 := by
    ext m n
    rw [Matrix.mul_apply, Matrix.one_apply]
    simp only [Matrix.transpose_apply, chebB0, chebBasis0]
    rw [Fin.sum_univ_eq_sum_range (fun k => chebvalN (Real.sqrt 2) (Real.cos (chebNode d k)) m / Real.sqrt d
        * (chebvalN (Real.sqrt 2) (Real.cos (chebNode d k)) n / Real.sqrt d)) d, cheb_cols d m n hd m.isLt n.isLt]
    simp [Fin.ext_iff]
  exact ⟨h1, mul_eq_one_comm.mp h1⟩

/-- **`basis1` is an orthonormal basis for every `d ≥ 2`**: the first `d-1` rows sample `T_0 … T_{d-1}` at the roots of
`T_{d-1}` (where `T_{d-1}` vanishes), the last row is `e_{d-1}`. -/
theorem chebyshev_basis1_orthonormal (d : ℕ) (hd : 2 ≤ d) :
    (chebB1 d).transpose * chebB1 d = 1 ∧ chebB1 d * (chebB1 d).transpose = 1 := by
  obtain ⟨e, rfl⟩ : ∃ e, d = e + 1 := ⟨d - 1, by omega⟩
  have he : 0 < e := by omega
  have h1 : (chebB1 (e + 1)).transpose * chebB1 (e + 1) = 1 := by
    ext m n
    rw [Matrix.mul_apply, Matrix.one_apply]
    simp only [Matrix.transpose_apply, chebB1]
    rw [Fin.sum_univ_eq_sum_range (fun k => chebBasis1 (Real.sqrt 2) (Real.sqrt ((e + 1 - 1 : ℕ) : ℝ))
        (fun k => Real.cos (chebNode (e + 1 - 1) k)) (e + 1) k m * chebBasis1 (Real.sqrt 2) (Real.sqrt ((e + 1 - 1 : ℕ) : ℝ))
        (fun k => Real.cos (chebNode (e + 1 - 1) k)) (e + 1) k n) (e + 1), Finset.sum_range_succ]
    simp only [Nat.add_sub_cancel]
    have hfirst : ∀ k ∈ Finset.range e, chebBasis1 (Real.sqrt 2) (Real.sqrt (e : ℝ)) (fun k => Real.cos (chebNode e k)) (e + 1) k m
          * chebBasis1 (Real.sqrt 2) (Real.sqrt (e : ℝ)) (fun k => Real.cos (chebNode e k)) (e + 1) k n
        = chebvalN (Real.sqrt 2) (Real.cos (chebNode e k)) m / Real.sqrt e * (chebvalN (Real.sqrt 2) (Real.cos (chebNode e k)) n / Real.sqrt e) := by
      intro k hk
      have : k + 1 < e + 1 := by have := Finset.mem_range.mp hk; omega
      simp only [chebBasis1, if_pos this]
    rw [Finset.sum_congr rfl hfirst]
    have hlast : ∀ t : ℕ, chebBasis1 (Real.sqrt 2) (Real.sqrt (e : ℝ)) (fun k => Real.cos (chebNode e k)) (e + 1) e t
        = if t = e then 1 else 0 := by
      intro t; simp [chebBasis1]
    rw [hlast, hlast]
    -- `T_e` vanishes at the nodes
    have hzero : ∀ k, chebvalN (Real.sqrt 2) (Real.cos (chebNode e k)) e = 0 := by
      intro k
      unfold chebvalN
      rw [chebT_cos]
      have : (e : ℝ) * chebNode e k = ((k : ℝ) + 1 / 2) * Real.pi := by
        have heR : (e : ℝ) ≠ 0 := by exact_mod_cast he.ne'
        unfold chebNode; field_simp
      have hc : Real.cos (1 / 2 * Real.pi) = 0 := by rw [show (1 / 2 : ℝ) * Real.pi = Real.pi / 2 by ring]; exact Real.cos_pi_div_two
      rw [this, add_mul, Real.cos_add, hc, Real.sin_nat_mul_pi]
      simp
    have hm := m.isLt; have hn := n.isLt
    by_cases hme : (m : ℕ) = e
    · have : ∀ k ∈ Finset.range e, chebvalN (Real.sqrt 2) (Real.cos (chebNode e k)) m / Real.sqrt e
          * (chebvalN (Real.sqrt 2) (Real.cos (chebNode e k)) n / Real.sqrt e) = 0 := by
        intro k _; rw [hme, hzero]; simp
      rw [Finset.sum_eq_zero this, if_pos hme]
      by_cases hne : (n : ℕ) = e
      · rw [if_pos hne, if_pos (Fin.ext (by omega))]; norm_num
      · rw [if_neg hne, if_neg (fun h => hne (by rw [← h]; exact hme))]; norm_num
    · by_cases hne : (n : ℕ) = e
      · have : ∀ k ∈ Finset.range e, chebvalN (Real.sqrt 2) (Real.cos (chebNode e k)) m / Real.sqrt e
            * (chebvalN (Real.sqrt 2) (Real.cos (chebNode e k)) n / Real.sqrt e) = 0 := by
          intro k _; rw [hne, hzero]; simp
        rw [Finset.sum_eq_zero this, if_neg hme, if_pos hne, if_neg (fun h => hme (by rw [h]; exact hne))]; norm_num
      · rw [cheb_cols e m n he (by omega) (by omega), if_neg hme, if_neg hne]
        simp [Fin.ext_iff]
  exact ⟨h1, mul_eq_one_comm.mp h1⟩

/-! ## tetrahedron POVM -/

/-- **`get_tetrahedron_POVM(n)` resolves the identity for every number of qubits `n`**: `Σ_k M_k = 1`, entry by entry
(pairs are (re, im)).  Holds in every commutative ring with `4·quarter = 1`, `3·third = 1`; the values of `a = √2/3` and
`b = √(2/3)` do not matter for this statement. -/
theorem tetrahedron_povm_resolves {R : Type} [CommRing R] (a b third quarter : R) (h4 : 4 * quarter = 1) (h3 : 3 * third = 1)
    (n r c : ℕ) (hr : r < 2 ^ n) (hc : c < 2 ^ n) :
    ∑ k ∈ Finset.range (4 ^ n), tetraN a b third quarter 2 n k r c = (if r = c then 1 else 0, 0) :=
  tetraN_sum a b third quarter 2 h4 rfl h3 n r c hr hc

/-- **each one-qubit element is `½` times a rank-one projector** (trace `½`, determinant `0`, Hermitian by construction),
given `a² = 2/9`, `b² = 2/3`: the four Bloch vectors have unit length. -/
theorem tetrahedron_elements_rank_one (a b : K) (ha : a * a = 2 / 9) (hb : b * b = 2 / 3) (k : ℕ) (hk : k < 4) :
    let M := tetra1 a b (1/3) (1/4) 2 k
    (M 0 0).1 + (M 1 1).1 = 1 / 2 ∧ (M 0 0).2 = 0 ∧ (M 1 1).2 = 0 ∧ M 1 0 = ((M 0 1).1, -(M 0 1).2) ∧
      (M 0 0).1 * (M 1 1).1 - ((M 0 1).1 * (M 0 1).1 + (M 0 1).2 * (M 0 1).2) = 0 := by
  interval_cases k <;> (refine ⟨?_, ?_, ?_, ?_, ?_⟩ <;> simp [tetra1, tetraVec]) <;>
    first | (linear_combination (-(1/4 : K)) * ha) | (linear_combination (-(1/16 : K)) * ha - (1/16 : K) * hb) | norm_num

end Numqi.C18
