/-
C03 — the state-vector simulator applies gates exactly as the embedded operator.

Property theorems only (helper lemmas live in `NumqiProofs/SimLemmas.lean`).  The statements are about the
constants of `NumqiModel/Sim.lean` that the driver executes; they hold for every number of qubits `n`, every gate
size `k`, every duplicate-free target tuple `t : Fin k → Fin n` (in any order), and every commutative (semi)ring `R`
(instantiate `R = ℂ`).
-/
import NumqiProofs.SimLemmas
import NumqiProofs.SimSlice
import NumqiProofs.ScalarInstances
import Mathlib.Data.Complex.Basic

namespace Numqi.C03
open Numqi Function Matrix

variable {R : Type} {n k : Nat}

/-- **Gate application is multiplication by the embedded operator** (`U` on the qubits `t` in the order given,
identity elsewhere), for every duplicate-free target tuple. -/
theorem applyGate_eq_embed [Semiring R] {t : Fin k → Fin n} (ht : Injective t) (U : Mat k R) (ψ : Vec n R) :
    applyGate U t ψ = (Matrix.of (embed U t)).mulVec ψ := by
  funext x
  simp only [applyGate, sumBits_eq_sum, Matrix.mulVec, dotProduct, Matrix.of_apply, embed]
  symm
  have hinj : Injective (x.upd t) := fun y y' h => by rw [← Bits.sel_upd ht x y, h, Bits.sel_upd ht]
  rw [← Finset.sum_subset (Finset.subset_univ (Finset.univ.image (x.upd t))), Finset.sum_image (fun _ _ _ _ h => hinj h)]
  · refine Finset.sum_congr rfl (fun y _ => ?_)
    rw [Bits.agreeOff_upd, if_pos rfl, Bits.sel_upd ht]
  · intro x' _ hx'
    have : Bits.agreeOff x x' t ≠ true := fun h =>
      hx' (Finset.mem_image.2 ⟨x'.sel t, Finset.mem_univ _, Bits.upd_sel_of_agreeOff ht h⟩)
    rw [if_neg this, zero_mul]


/-! ### the embedding is a unital, star-preserving ring homomorphism -/

theorem embed_one [Semiring R] (t : Fin k → Fin n) :
    Matrix.of (embed (1 : Matrix (Bits k) (Bits k) R) t) = 1 := by
  ext x x'
  simp only [Matrix.of_apply, embed, Matrix.one_apply]
  by_cases h : x = x'
  · subst h; simp [Bits.agreeOff_refl]
  · rw [if_neg h]
    by_cases ha : Bits.agreeOff x x' t = true
    · rw [if_pos ha, if_neg]
      exact fun hs => h (Bits.eq_of_agreeOff_of_sel ha hs)
    · rw [if_neg ha]

theorem embed_mul [Semiring R] {t : Fin k → Fin n} (ht : Injective t) (U V : Matrix (Bits k) (Bits k) R) :
    Matrix.of (embed (U * V) t) = Matrix.of (embed U t) * Matrix.of (embed V t) := by
  ext x z
  have h := congrFun (applyGate_eq_embed ht U (fun w => embed V t w z)) x
  rw [Matrix.mul_apply]
  simp only [Matrix.mulVec, dotProduct, Matrix.of_apply] at h ⊢
  rw [← h]
  simp only [applyGate, sumBits_eq_sum, embed, Bits.sel_upd ht]
  have hag : ∀ y, Bits.agreeOff (x.upd t y) z t = Bits.agreeOff x z t := fun y => by
    rw [Bool.eq_iff_iff]
    exact ⟨fun h => Bits.agreeOff_trans (Bits.agreeOff_upd x y) h,
           fun h => Bits.agreeOff_trans (Bits.agreeOff_symm (Bits.agreeOff_upd x y)) h⟩
  simp only [hag]
  by_cases ha : Bits.agreeOff x z t = true
  · simp only [ha, if_true, Matrix.mul_apply]
  · simp [ha]

theorem embed_conjTranspose [Semiring R] [StarRing R] (t : Fin k → Fin n) (U : Matrix (Bits k) (Bits k) R) :
    (Matrix.of (embed U t))ᴴ = Matrix.of (embed Uᴴ t) := by
  ext x x'
  simp only [Matrix.conjTranspose_apply, Matrix.of_apply, embed]
  have : Bits.agreeOff x' x t = Bits.agreeOff x x' t := by
    rw [Bool.eq_iff_iff]; exact ⟨Bits.agreeOff_symm, Bits.agreeOff_symm⟩
  rw [this]
  by_cases ha : Bits.agreeOff x x' t = true <;> simp [ha]

/-- a unitary gate is embedded as a unitary operator -/
theorem embed_unitary [CommRing R] [StarRing R] {t : Fin k → Fin n} (ht : Injective t)
    {U : Matrix (Bits k) (Bits k) R} (hU : U ∈ Matrix.unitaryGroup (Bits k) R) :
    Matrix.of (embed U t) ∈ Matrix.unitaryGroup (Bits n) R := by
  rw [Matrix.mem_unitaryGroup_iff] at hU ⊢
  rw [Matrix.star_eq_conjTranspose] at hU ⊢
  rw [embed_conjTranspose, ← embed_mul ht, hU, embed_one]


/-! ### controlled gates: the operator acts only on the all-ones control subspace -/

/-- **`apply_control_n_gate` is multiplication by the controlled operator**: `embed U t` on the rows whose control
bits are all 1, identity on the others.  `rest` may be *any* enumeration of the non-control qubits and `tNew` any
renumbering with `t = rest ∘ tNew` (the implementation's `_control_n_index` is one such choice, see `compile_wf`). -/
theorem applyControlled_eq [Semiring R] {n' : Nat} {isCtrl : Fin n → Bool} {rest : Fin n' → Fin n}
    {tNew : Fin k → Fin n'} (hrest : Injective rest) (htn : Injective tNew)
    (hfree : ∀ i, isCtrl i = false ↔ ∃ m, rest m = i) (U : Mat k R) (ψ : Vec n R) :
    applyControlled U isCtrl rest tNew ψ
      = (Matrix.of (ctrlEmbed U isCtrl fun j => rest (tNew j))).mulVec ψ := by
  funext x
  have ht : Injective (fun j => rest (tNew j)) := hrest.comp htn
  by_cases hx : ctrlOn isCtrl x = true
  · have h := congrFun (applyGate_eq_embed ht U ψ) x
    simp only [Matrix.mulVec, dotProduct, Matrix.of_apply, ctrlEmbed, applyControlled, hx, if_true] at h ⊢
    rw [← h]
    simp only [applyGate, ctrl_upd_eq hrest htn hfree hx]
    rfl
  · simp only [Matrix.mulVec, dotProduct, Matrix.of_apply, ctrlEmbed, applyControlled, hx]
    simp [Bits.beq_iff]

/-- the controlled operator is `(1 − P₁) + P₁ · embed U t` with `P₁` the projector on the all-ones control subspace -/
theorem ctrlEmbed_eq [Ring R] (isCtrl : Fin n → Bool) (t : Fin k → Fin n) (U : Mat k R) :
    Matrix.of (ctrlEmbed U isCtrl t)
      = (1 - Matrix.diagonal fun x => if ctrlOn isCtrl x then (1 : R) else 0)
        + (Matrix.diagonal fun x => if ctrlOn isCtrl x then (1 : R) else 0) * Matrix.of (embed U t) := by
  ext x x'
  simp only [Matrix.of_apply, ctrlEmbed, Matrix.add_apply, Matrix.sub_apply, Matrix.diagonal_mul, Matrix.one_apply,
    Matrix.diagonal_apply, Bits.beq_iff]
  by_cases hxx : x = x'
  · subst hxx; by_cases hx : ctrlOn isCtrl x = true <;> simp [hx]
  · by_cases hx : ctrlOn isCtrl x = true <;> simp [hx, hxx]


theorem ctrlEmbed_one [Semiring R] (isCtrl : Fin n → Bool) (t : Fin k → Fin n) :
    Matrix.of (ctrlEmbed (1 : Matrix (Bits k) (Bits k) R) isCtrl t) = 1 := by
  ext x x'
  have h := congrFun (congrFun (embed_one (R := R) t) x) x'
  simp only [Matrix.of_apply] at h
  simp only [Matrix.of_apply, ctrlEmbed, h, Matrix.one_apply, Bits.beq_iff]
  split <;> rfl

theorem ctrlEmbed_mul [Semiring R] {isCtrl : Fin n → Bool} {t : Fin k → Fin n} (ht : Injective t)
    (hdisj : ∀ j, isCtrl (t j) = false) (U V : Matrix (Bits k) (Bits k) R) :
    Matrix.of (ctrlEmbed (U * V) isCtrl t) = Matrix.of (ctrlEmbed U isCtrl t) * Matrix.of (ctrlEmbed V isCtrl t) := by
  ext x z
  rw [Matrix.mul_apply]
  simp only [Matrix.of_apply, ctrlEmbed]
  by_cases hx : ctrlOn isCtrl x = true
  · simp only [hx, if_true]
    have h := congrFun (congrFun (embed_mul ht U V) x) z
    rw [Matrix.mul_apply] at h
    simp only [Matrix.of_apply] at h
    rw [h]
    refine Finset.sum_congr rfl (fun w _ => ?_)
    by_cases ha : Bits.agreeOff x w t = true
    · have : ctrlOn isCtrl w = true := by rw [← ctrlOn_of_agreeOff hdisj ha]; exact hx
      rw [if_pos this]
    · simp [embed, ha]
  · simp only [hx, Bits.beq_iff]
    rw [Finset.sum_eq_single x]
    · simp [hx]
    · intro w _ hw
      have : ¬ x = w := fun e => hw e.symm
      simp [this]
    · intro h; exact absurd (Finset.mem_univ x) h

theorem ctrlEmbed_conjTranspose [Semiring R] [StarRing R] {isCtrl : Fin n → Bool} {t : Fin k → Fin n}
    (hdisj : ∀ j, isCtrl (t j) = false) (U : Matrix (Bits k) (Bits k) R) :
    (Matrix.of (ctrlEmbed U isCtrl t))ᴴ = Matrix.of (ctrlEmbed Uᴴ isCtrl t) := by
  ext x x'
  have h := congrFun (congrFun (embed_conjTranspose t U) x) x'
  simp only [Matrix.conjTranspose_apply, Matrix.of_apply] at h
  simp only [Matrix.conjTranspose_apply, Matrix.of_apply, ctrlEmbed, Bits.beq_iff]
  by_cases ha : Bits.agreeOff x x' t = true
  · rw [← ctrlOn_of_agreeOff hdisj ha]
    by_cases hx : ctrlOn isCtrl x = true
    · simp only [hx, if_true, h]
    · simp only [hx]
      by_cases e : x = x'
      · subst e; simp
      · have e' : ¬ x' = x := fun h => e h.symm
        simp [e, e']
  · have ha' : ¬ Bits.agreeOff x' x t = true := fun h => ha (Bits.agreeOff_symm h)
    have e : ¬ x = x' := fun e => ha (e ▸ Bits.agreeOff_refl x)
    have e' : ¬ x' = x := fun h => e h.symm
    simp [embed, ha, ha', e, e']

/-- a controlled unitary gate is a unitary operator (targets disjoint from the controls) -/
theorem ctrlEmbed_unitary [CommRing R] [StarRing R] {isCtrl : Fin n → Bool} {t : Fin k → Fin n} (ht : Injective t)
    (hdisj : ∀ j, isCtrl (t j) = false) {U : Matrix (Bits k) (Bits k) R}
    (hU : U ∈ Matrix.unitaryGroup (Bits k) R) :
    Matrix.of (ctrlEmbed U isCtrl t) ∈ Matrix.unitaryGroup (Bits n) R := by
  rw [Matrix.mem_unitaryGroup_iff] at hU ⊢
  rw [Matrix.star_eq_conjTranspose] at hU ⊢
  rw [ctrlEmbed_conjTranspose hdisj, ← ctrlEmbed_mul ht hdisj, hU, ctrlEmbed_one]


/-- **`reduceShapeIndex_spec`, every `n`, every control set**: indexing `q0.reshape(shape0)` with the reduced index
tuple that `_control_n_index` obtains from `reduce_shape_index` selects exactly the entries whose control bits are all 1,
in increasing flat order.  (The gate theorems above do not depend on it: `applyControlled` is stated on bit vectors and
tied to the code directly; this theorem is about the literal model of the reshape/slice route.) -/
theorem reduceShapeIndex_spec (n : Nat) (c : List Nat) (hc : c ∈ (List.range n).sublists) :
    controlPositions n c = controlPositionsBitwise n c :=
  controlPositions_eq_bitwise n c hc

/-! ### circuits -/

/-- **Whatever the index resolution accepts satisfies the side conditions of the gate theorems**; in particular
`_control_n_index` (`tmp0`, `index_map`, `ind_target_new`) is a valid choice of sub-register. -/
theorem compile_wf {α : Type} [Zero α] (n : Nat) (g : RawOp α) (op : Op n α) (h : g.compile n = some op) :
    op.WF := by
  cases n with
  | zero => simp [RawOp.compile] at h
  | succ n =>
    cases g with
    | unitary U t =>
      simp only [RawOp.compile] at h
      split at h
      · rename_i hc
        simp only [Bool.and_eq_true, validIndex_iff] at hc
        cases h
        exact mkTarget_injective hc.1.1.1 hc.1.1.2
      · cases h
    | control U c t =>
      simp only [RawOp.compile] at h
      split at h
      · cases h
      · rename_i n' hlen
        split at h
        · rename_i hc
          simp only [Bool.and_eq_true, validIndex_iff] at hc
          cases h
          obtain ⟨h1, h2, h3, _⟩ := ctrl_data (n' := n') hlen hc.1.1.1 hc.1.1.2
          exact ⟨h1, h2, h3⟩
        · cases h
    | measure s o =>
      simp only [RawOp.compile] at h
      split at h <;> cases h
      trivial
    | custom U =>
      simp only [RawOp.compile] at h
      split at h <;> cases h
      exact injective_id

/-- … and the resolved entry refers to the qubits the user wrote, in the order written. -/
theorem compile_unitary_targets {α : Type} [Zero α] (n : Nat) (U : Array α) (t : List Int) (op : Op n α)
    (h : (RawOp.unitary U t).compile n = some op) :
    (op.targets.map fun i => (i.val : Int)) = t ∧ op.controls = [] := by
  cases n with
  | zero => simp [RawOp.compile] at h
  | succ n =>
    simp only [RawOp.compile] at h
    split at h
    · rename_i hc
      simp only [Bool.and_eq_true, validIndex_iff] at hc
      cases h
      refine ⟨?_, rfl⟩
      apply List.ext_getElem
      · simp [Op.targets]
      · intro i h1 h2
        simp only [Op.targets, List.getElem_map, List.getElem_ofFn]
        exact mkTarget_val hc.1.1.1 ⟨i, h2⟩
    · cases h

/-- For a controlled entry `tmp0[ind_target_new[j]] = ind_target[j]` (the renumbering of `_control_n_index` is undone
by the slice), and the control flags are exactly the control set. -/
theorem compile_control_targets {α : Type} [Zero α] (n : Nat) (U : Array α) (c t : List Int) (op : Op n α)
    (h : (RawOp.control U c t).compile n = some op) :
    (op.targets.map fun i => (i.val : Int)) = t ∧ ∀ i : Fin n, i ∈ op.controls ↔ (i.val : Int) ∈ c := by
  cases n with
  | zero => simp [RawOp.compile] at h
  | succ n =>
    simp only [RawOp.compile] at h
    split at h
    · cases h
    · rename_i n' hlen
      split at h
      · rename_i hc
        simp only [Bool.and_eq_true, validIndex_iff] at hc
        cases h
        obtain ⟨_, _, _, h4⟩ := ctrl_data (n' := n') hlen hc.1.1.1 hc.1.1.2
        constructor
        · apply List.ext_getElem
          · simp [Op.targets]
          · intro i h1 h2
            simp only [Op.targets, List.getElem_map, List.getElem_ofFn]
            exact h4 ⟨i, h2⟩
        · intro i; simp [Op.controls]
      · cases h

theorem compile_measure_targets {α : Type} [Zero α] (n : Nat) (s : List Int) (o : List Bool) (op : Op n α)
    (h : (RawOp.measure (α := α) s o).compile n = some op) :
    (op.targets.map fun i => (i.val : Int)) = s := by
  cases n with
  | zero => simp [RawOp.compile] at h
  | succ n =>
    simp only [RawOp.compile] at h
    split at h
    · rename_i hc
      simp only [Bool.and_eq_true, List.all_eq_true, decide_eq_true_eq] at hc
      cases h
      apply List.ext_getElem
      · simp [Op.targets]
      · intro i h1 h2
        simp only [Op.targets, List.getElem_map, List.getElem_ofFn]
        exact mkTarget_val (fun x hx => by simpa using hc.1.1 x hx) ⟨i, h2⟩
    · cases h

/-- every kind of gate-list entry acts as its matrix -/
theorem op_apply_eq [Semiring R] (g : Op n R) (hg : g.WF) (ψ : Vec n R) :
    g.apply ψ = (Matrix.of g.matrix).mulVec ψ := by
  cases g with
  | unitary U t => exact applyGate_eq_embed hg U ψ
  | control U isCtrl rest tNew => exact applyControlled_eq hg.1 hg.2.1 hg.2.2 U ψ
  | measure s o =>
    funext x
    simp only [Op.apply, Op.matrix, project, projEmbed, Matrix.mulVec, dotProduct, Matrix.of_apply,
      Bool.and_eq_true, Bits.beq_iff]
    rw [Finset.sum_eq_single x]
    · by_cases h : x.sel s = o <;> simp [h]
    · intro w _ hw
      have : ¬ x = w := fun e => hw e.symm
      simp [this]
    · intro h; exact absurd (Finset.mem_univ x) h

/-- the left fold of `Circuit.apply_state` on flat arrays is multiplication by the ordered product -/
theorem applyStateA_eq [Semiring R] (c : List (Op n R)) (hc : ∀ g ∈ c, g.WF) (a : Array R) :
    lookup (n := n) (applyStateA c a) = (circuitMatrix c).mulVec (lookup a) := by
  induction c generalizing a with
  | nil => simp [applyStateA, circuitMatrix_nil]
  | cons g c ih =>
    have h1 : applyStateA (g :: c) a = applyStateA c (g.applyA a) := rfl
    rw [h1, ih (fun g' hg' => hc g' (List.mem_cons_of_mem _ hg')), circuitMatrix_cons, Op.applyA, lookup_tabulate,
      op_apply_eq g (hc g List.mem_cons_self), Matrix.mulVec_mulVec]

/-- **acting with the circuit = multiplying by the ordered product of the gates' embedded operators** -/
theorem applyState_eq [Semiring R] (c : List (Op n R)) (hc : ∀ g ∈ c, g.WF) (ψ : Vec n R) :
    applyState c ψ = (circuitMatrix c).mulVec ψ := by
  rw [applyState, applyStateA_eq c hc, lookup_tabulate]

/-- **`to_unitary` (images of the basis vectors, then transpose) is that product** -/
theorem toUnitary_eq [Semiring R] (c : List (Op n R)) (hc : ∀ g ∈ c, g.WF) :
    Matrix.of (toUnitary c) = circuitMatrix c := by
  ext x x'
  have hx := Bits.toNat_lt x
  have hx' := Bits.toNat_lt x'
  simp only [Matrix.of_apply, toUnitary, lookupMat, toUnitaryA, unitaryRows]
  rw [getD_ofFn _ _ (flat_lt hx hx')]
  simp only [flat_div hx', flat_mod hx']
  have : (Array.ofFn (n := 2 ^ n) fun r => applyStateA c (tabulate (basis (α := R) (Bits.ofNat n r.val)))).getD
      x'.toNat #[] = applyStateA c (tabulate (basis x')) := by
    simp [Array.getD, hx', Bits.ofNat_toNat]
  rw [this]
  have h2 := congrFun (applyStateA_eq c hc (tabulate (basis x'))) x
  rw [lookup_tabulate, mulVec_basis] at h2
  exact h2

/-- so acting with the circuit equals multiplying by its `to_unitary` -/
theorem applyState_eq_toUnitary [Semiring R] (c : List (Op n R)) (hc : ∀ g ∈ c, g.WF) (ψ : Vec n R) :
    applyState c ψ = (Matrix.of (toUnitary c)).mulVec ψ := by
  rw [toUnitary_eq c hc, applyState_eq c hc]

/-- an entry of the gate list is a unitary gate: the matrix of a unitary or controlled entry is unitary -/
def IsUnitaryOp [CommRing R] [StarRing R] : Op n R → Prop
  | .unitary U _ => (U : Matrix _ _ R) ∈ Matrix.unitaryGroup _ R
  | .control U _ _ _ => (U : Matrix _ _ R) ∈ Matrix.unitaryGroup _ R
  | .measure _ _ => False

theorem op_matrix_unitary [CommRing R] [StarRing R] (g : Op n R) (hg : g.WF) (hu : IsUnitaryOp g) :
    Matrix.of g.matrix ∈ Matrix.unitaryGroup (Bits n) R := by
  cases g with
  | unitary U t => exact embed_unitary hg hu
  | control U isCtrl rest tNew =>
    exact ctrlEmbed_unitary (hg.1.comp hg.2.1) (fun j => (hg.2.2 _).2 ⟨tNew j, rfl⟩) hu
  | measure s o => exact hu.elim

/-- **the circuit unitary is unitary** when every gate is -/
theorem toUnitary_unitary [CommRing R] [StarRing R] (c : List (Op n R)) (hc : ∀ g ∈ c, g.WF)
    (hu : ∀ g ∈ c, IsUnitaryOp g) : Matrix.of (toUnitary c) ∈ Matrix.unitaryGroup (Bits n) R := by
  rw [toUnitary_eq c hc]
  induction c with
  | nil => rw [circuitMatrix_nil]; exact one_mem _
  | cons g c ih =>
    rw [circuitMatrix_cons]
    exact mul_mem (ih (fun g' hg' => hc g' (List.mem_cons_of_mem _ hg')) (fun g' hg' => hu g' (List.mem_cons_of_mem _ hg')))
      (op_matrix_unitary g (hc g List.mem_cons_self) (hu g List.mem_cons_self))

/-! ### index shifting (`shift_qubit_index_`) -/


/-- **index shifting**: the operator of a gate whose targets are shifted by `d` is `1 ⊗ (the original operator)` —
identity on the `d` new leading qubits -/
theorem embed_shift [Zero R] (d : Nat) (U : Mat k R) (t : Fin k → Fin n) (x x' : Bits (d + n)) :
    embed U (fun j => Fin.natAdd d (t j)) x x'
      = if Bits.head d x = Bits.head d x' then embed U t (Bits.tail d x) (Bits.tail d x') else 0 := by
  simp only [embed]
  by_cases h : Bits.agreeOff x x' (fun j => Fin.natAdd d (t j)) = true
  · rw [if_pos h]
    obtain ⟨h1, h2⟩ := (agreeOff_shift d t x x').1 h
    rw [if_pos h1, if_pos h2]; rfl
  · rw [if_neg h]
    by_cases h1 : Bits.head d x = Bits.head d x'
    · rw [if_pos h1, if_neg]
      exact fun h2 => h ((agreeOff_shift d t x x').2 ⟨h1, h2⟩)
    · rw [if_neg h1]

/-- the same for controlled gates: controls and targets shifted together -/
theorem ctrlEmbed_shift [Zero R] [One R] (d : Nat) (U : Mat k R) (isCtrl : Fin n → Bool) (t : Fin k → Fin n)
    (x x' : Bits (d + n)) :
    ctrlEmbed U (fun i => Fin.addCases (fun _ => false) isCtrl i) (fun j => Fin.natAdd d (t j)) x x'
      = if Bits.head d x = Bits.head d x' then ctrlEmbed U isCtrl t (Bits.tail d x) (Bits.tail d x') else 0 := by
  simp only [ctrlEmbed, ctrlOn_shift, embed_shift, Bits.beq_iff, bits_eq_iff_head_tail d x x']
  by_cases hc : ctrlOn isCtrl (Bits.tail d x) = true
  · simp [hc]
  · by_cases h1 : Bits.head d x = Bits.head d x' <;> simp [hc, h1]


/-- **`Circuit.num_qubit` bounds every index**: every qubit index mentioned by an entry of the gate list is below
`num_qubit` -/
theorem numQubit_gt_index {α : Type} (c : List (RawOp α)) (g : RawOp α) (hg : g ∈ c) (q : Int) (hq : q ∈ g.indices) :
    q < (numQubit c : Int) := by
  have h1 : q ≤ g.maxIndex := by rw [maxIndex_eq]; exact foldl_max_ge_mem _ _ q hq
  have h2 : g.maxIndex ≤ (c.map RawOp.maxIndex).foldl max 0 := foldl_max_ge_mem _ _ _ (List.mem_map_of_mem hg)
  have h3 : (0 : Int) ≤ (c.map RawOp.maxIndex).foldl max 0 := foldl_max_ge_init _ _
  unfold numQubit
  omega

/-- **… and is tight**: either `num_qubit = 1` or some entry mentions qubit `num_qubit - 1` -/
theorem numQubit_tight {α : Type} (c : List (RawOp α)) :
    numQubit c = 1 ∨ ∃ g ∈ c, ((numQubit c : Int) - 1) ∈ g.indices := by
  have h3 : (0 : Int) ≤ (c.map RawOp.maxIndex).foldl max 0 := foldl_max_ge_init _ _
  have hn : ((numQubit c : Nat) : Int) = (c.map RawOp.maxIndex).foldl max 0 + 1 := by unfold numQubit; omega
  rcases foldl_max_mem (c.map RawOp.maxIndex) 0 with h | h
  · left; unfold numQubit; rw [h]; rfl
  · obtain ⟨g, hg, hgm⟩ := List.mem_map.1 h
    rw [maxIndex_eq] at hgm
    rcases foldl_max_mem g.indices 0 with h0 | h0
    · left
      have : (c.map RawOp.maxIndex).foldl max 0 = 0 := by rw [← hgm, h0]
      unfold numQubit; rw [this]; rfl
    · right
      refine ⟨g, hg, ?_⟩
      rw [hn, ← hgm]; simpa using h0

/-- `shift_qubit_index_` adds `δ` to every index an entry mentions -/
theorem shift_indices {α : Type} (δ : Int) (g : RawOp α) : (g.shift δ).indices = g.indices.map (· + δ) := by
  cases g <;> simp [RawOp.shift, RawOp.indices]

/-- **`shift_qubit_index_` on a unitary entry**: resolving the shifted entry against `d` more qubits gives the operator
`1_d ⊗ (operator of the original entry)` -/
theorem compile_shift_unitary [Zero R] [One R] (d n : Nat) (U : Array R) (t : List Int) (op : Op (n + 1) R)
    (op' : Op (d + (n + 1)) R) (h : (RawOp.unitary U t).compile (n + 1) = some op)
    (h' : ((RawOp.unitary U t).shift d).compile (d + (n + 1)) = some op') (x x' : Bits (d + (n + 1))) :
    op'.matrix x x' = if Bits.head d x = Bits.head d x' then op.matrix (Bits.tail d x) (Bits.tail d x') else 0 := by
  simp only [RawOp.compile] at h
  split at h
  · rename_i hc
    simp only [Bool.and_eq_true, validIndex_iff] at hc
    cases h
    change RawOp.compile ((d + n) + 1) (RawOp.unitary U (t.map (· + (d : Int)))) = some op' at h'
    simp only [RawOp.compile] at h'
    split at h'
    · rename_i hc'
      simp only [Bool.and_eq_true, validIndex_iff] at hc'
      cases h'
      simp only [Op.matrix]
      have hk : (t.map (· + (d : Int))).length = t.length := List.length_map _
      rw [embed_cast_k hk U (fun j => Fin.natAdd d (mkTarget n t j)) _ ?_, embed_shift]
      intro j
      apply Fin.ext
      have e1 := mkTarget_val (n := d + n) hc'.1.1.1 j
      have e2 := mkTarget_val (n := n) hc.1.1.1 (Fin.cast hk j)
      have : ((mkTarget (d + n) (t.map (· + (d : Int))) j).val : Int)
          = ((Fin.natAdd d (mkTarget n t (Fin.cast hk j))).val : Int) := by
        rw [e1, Fin.val_natAdd, Nat.cast_add, e2]
        simp [add_comm]
      exact_mod_cast this
    · cases h'
  · cases h


/-- **`shift_qubit_index_` on a controlled entry** (controls and targets shifted together): again `1_d ⊗ operator` -/
theorem compile_shift_control [Zero R] [One R] (d n : Nat) (U : Array R) (c t : List Int) (op : Op (n + 1) R)
    (op' : Op (d + (n + 1)) R) (h : (RawOp.control U c t).compile (n + 1) = some op)
    (h' : ((RawOp.control U c t).shift d).compile (d + (n + 1)) = some op') (x x' : Bits (d + (n + 1))) :
    op'.matrix x x' = if Bits.head d x = Bits.head d x' then op.matrix (Bits.tail d x) (Bits.tail d x') else 0 := by
  simp only [RawOp.compile] at h
  split at h
  · cases h
  · rename_i n1 hlen
    split at h
    · rename_i hc
      simp only [Bool.and_eq_true, validIndex_iff] at hc
      cases h
      change RawOp.compile ((d + n) + 1) (RawOp.control U (c.map (· + (d : Int))) (t.map (· + (d : Int)))) = some op' at h'
      simp only [RawOp.compile] at h'
      split at h'
      · cases h'
      · rename_i n2 hlen'
        split at h'
        · rename_i hc'
          simp only [Bool.and_eq_true, validIndex_iff] at hc'
          cases h'
          obtain ⟨_, _, _, h4⟩ := ctrl_data (n' := n1) hlen hc.1.1.1 hc.1.1.2
          obtain ⟨_, _, _, h4'⟩ := ctrl_data (n' := n2) hlen' hc'.1.1.1 hc'.1.1.2
          simp only [Op.matrix]
          have hk : (t.map (· + (d : Int))).length = t.length := List.length_map _
          have hctrl : (fun i : Fin (d + (n + 1)) => (c.map (· + (d : Int))).contains (i.val : Int))
              = fun i : Fin (d + (n + 1)) => Fin.addCases (fun _ => false) (fun b : Fin (n + 1) => c.contains (b.val : Int)) i := by
            funext i
            refine Fin.addCases (m := d) (n := n + 1) (fun a => ?_) (fun b => ?_) i
            · rw [Fin.addCases_left]
              simp only [List.contains_eq_mem, List.mem_map, decide_eq_false_iff_not, Fin.val_castAdd]
              rintro ⟨y, hy, e⟩
              have := (hc.1.1.1 y (List.mem_append_left _ hy)).1
              have := a.isLt
              omega
            · rw [Fin.addCases_right]
              simp only [List.contains_eq_mem, List.mem_map, Fin.val_natAdd, Nat.cast_add, decide_eq_decide]
              constructor
              · rintro ⟨y, hy, e⟩
                have : y = (b.val : Int) := by omega
                rw [← this]; exact hy
              · intro hb; exact ⟨_, hb, by omega⟩
          refine Eq.trans (congrFun (congrFun (ctrlEmbed_cast_k (n := d + (n + 1)) hk U
            (fun i => Fin.addCases (fun _ => false) (fun b : Fin (n + 1) => c.contains (b.val : Int)) i) _ (congrFun hctrl)
            (fun j => Fin.natAdd d (Fin.ofNat (n + 1) ((freeQubits (n + 1) c).getD
              (Fin.ofNat (n1 + 1) (List.idxOf (t.getD j.val 0).toNat (freeQubits (n + 1) c))).val 0))) _ ?_) x) x') ?_
          swap
          · exact ctrlEmbed_shift d _ _ _ x x'
          intro j
          apply Fin.ext
          have e1 := h4' j
          have e2 := h4 (Fin.cast hk j)
          dsimp only at e1 e2
          simp only [List.getElem_map, Fin.val_cast] at e1 e2
          refine Int.ofNat_inj.1 ?_
          simp only [Fin.val_natAdd, Nat.cast_add, Fin.val_cast]
          rw [e1, e2]
          ring
        · cases h'
    · cases h


/-! ### the embedded operator is `kron` + axis permutation -/

/-- on the full register in natural order the embedding is the operator itself -/
theorem embed_id [Zero R] (U : Mat n R) : embed U id = U := by
  funext x x'
  have : Bits.agreeOff x x' (id : Fin n → Fin n) = true := by
    rw [Bits.agreeOff_iff]; intro i hi; exact absurd rfl (hi i)
  simp only [embed, this, if_true]; rfl

/-- padding with `b` trailing qubits: `embed U t ⊗ 1_b` -/
theorem embed_pad [Zero R] (b : Nat) (U : Mat k R) (t : Fin k → Fin n) (x x' : Bits (n + b)) :
    embed U (fun j => Fin.castAdd b (t j)) x x'
      = if Bits.tail n x = Bits.tail n x' then embed U t (Bits.head n x) (Bits.head n x') else 0 := by
  have key : Bits.agreeOff x x' (fun j => Fin.castAdd b (t j)) = true ↔
      Bits.tail n x = Bits.tail n x' ∧ Bits.agreeOff (Bits.head n x) (Bits.head n x') t = true := by
    rw [Bits.agreeOff_iff, Bits.agreeOff_iff]
    constructor
    · intro h
      refine ⟨?_, ?_⟩
      · funext i
        exact h _ (fun j e => by
          have := congrArg Fin.val e; simp only [Fin.val_natAdd, Fin.val_castAdd] at this; have := (t j).isLt; omega)
      · intro i hi
        exact h _ (fun j e => hi j (Fin.castAdd_injective _ _ e))
    · rintro ⟨h1, h2⟩ i
      refine Fin.addCases (fun a => ?_) (fun c => ?_) i
      · intro hi; exact h2 a (fun j e => hi j (by rw [e]))
      · intro _; exact congrFun h1 c
  simp only [embed]
  by_cases h : Bits.agreeOff x x' (fun j => Fin.castAdd b (t j)) = true
  · rw [if_pos h]
    obtain ⟨h1, h2⟩ := key.1 h
    rw [if_pos h1, if_pos h2]; rfl
  · rw [if_neg h]
    by_cases h1 : Bits.tail n x = Bits.tail n x'
    · rw [if_pos h1, if_neg]
      exact fun h2 => h (key.2 ⟨h1, h2⟩)
    · rw [if_neg h1]

/-- relabelling the qubits by a permutation `σ` permutes the axes of the embedded operator -/
theorem embed_perm [Zero R] (σ : Equiv.Perm (Fin n)) (U : Mat k R) (t : Fin k → Fin n) (x x' : Bits n) :
    embed U (fun j => σ (t j)) x x' = embed U t (fun i => x (σ i)) (fun i => x' (σ i)) := by
  have key : Bits.agreeOff x x' (fun j => σ (t j)) = Bits.agreeOff (fun i => x (σ i)) (fun i => x' (σ i)) t := by
    rw [Bool.eq_iff_iff, Bits.agreeOff_iff, Bits.agreeOff_iff]
    constructor
    · intro h i hi
      exact h (σ i) (fun j e => hi j (σ.injective e))
    · intro h i hi
      have := h (σ.symm i) (fun j e => hi j (by rw [e]; simp))
      simpa using this
  simp only [embed, key]; rfl

/-! ### density matrices, expectation values, matrix elements, marginals -/

section star
attribute [local instance] starConj

/-- **`sim.dm.apply_gate` returns `E ρ Eᴴ`** with `E` the embedded operator -/
theorem dmApply_eq [CommSemiring R] [StarRing R] {t : Fin k → Fin n} (ht : Injective t) (U : Mat k R)
    (ρ : Matrix (Bits n) (Bits n) R) :
    Matrix.of (dmApply U t ρ) = Matrix.of (embed U t) * ρ * (Matrix.of (embed U t))ᴴ := by
  ext r c
  have hconj : ∀ x x', embed (conjMat U) t x x' = star (embed U t x x') := by
    intro x x'; simp only [embed, conjMat]; split <;> simp [conj]
  have h1 : ∀ x', applyGate U t (fun x => ρ x x') r = (Matrix.of (embed U t) * ρ) r x' := by
    intro x'
    rw [applyGate_eq_embed ht]
    simp [Matrix.mulVec, dotProduct, Matrix.mul_apply]
  simp only [Matrix.of_apply, dmApply, h1]
  rw [applyGate_eq_embed ht, Matrix.mul_apply]
  simp only [Matrix.mulVec, dotProduct, Matrix.of_apply, hconj, Matrix.conjTranspose_apply]
  exact Finset.sum_congr rfl (fun x' _ => mul_comm _ _)

/-- **`operator_expectation` returns `Tr(ρ · embed O t)`** -/
theorem expectation_eq [CommSemiring R] {t : Fin k → Fin n} (ht : Injective t) (O : Mat k R)
    (ρ : Matrix (Bits n) (Bits n) R) :
    expectation O t ρ = Matrix.trace (ρ * Matrix.of (embed O t)) := by
  simp only [expectation, sumBits_eq_sum, Matrix.trace, Matrix.diag_apply, Matrix.mul_apply, Matrix.of_apply]
  conv_rhs => rw [Finset.sum_comm]
  refine Finset.sum_congr rfl (fun c _ => ?_)
  have h := congrFun (applyGate_eq_embed ht O (fun r => ρ r c)) c
  simp only [applyGate, sumBits_eq_sum, Matrix.mulVec, dotProduct, Matrix.of_apply] at h
  calc ∑ a, ρ (c.upd t a) c * O (c.sel t) a = ∑ a, O (c.sel t) a * ρ (c.upd t a) c :=
        Finset.sum_congr rfl (fun _ _ => mul_comm _ _)
    _ = ∑ r, embed O t c r * ρ r c := h
    _ = ∑ r, ρ r c * embed O t c r := Finset.sum_congr rfl (fun _ _ => mul_comm _ _)

/-- **`inner_product_psi0_O_psi1`** returns `⟨ψ0| G₁ G₂ ⋯ G_m |ψ1⟩`, factors multiplied from left to right -/
theorem innerProductOp_eq [Semiring R] [StarRing R] (ψ0 ψ1 : Vec n R) (term : List (Op n R))
    (hc : ∀ g ∈ term, g.WF) :
    innerProductOp ψ0 ψ1 term
      = star ψ0 ⬝ᵥ ((term.map fun g => (Matrix.of g.matrix : Matrix (Bits n) (Bits n) R)).prod.mulVec ψ1) := by
  have key : lookup (n := n) (term.foldr (fun g a => g.applyA a) (tabulate ψ1))
      = (term.map fun g => (Matrix.of g.matrix : Matrix (Bits n) (Bits n) R)).prod.mulVec ψ1 := by
    induction term with
    | nil => simp [lookup_tabulate]
    | cons g term ih =>
      rw [List.foldr_cons, Op.applyA, lookup_tabulate, ih (fun g' hg' => hc g' (List.mem_cons_of_mem _ hg')),
        op_apply_eq g (hc g List.mem_cons_self), List.map_cons, List.prod_cons, Matrix.mulVec_mulVec]
  simp only [innerProductOp, vdot, sumBits_eq_sum, key, dotProduct, Pi.star_apply]
  rfl

/-- **`reduce_to_probability` returns the Born marginals**: entry `o` is `Σ |ψ x|²` over the basis states `x`
whose kept bits read `o` -/
theorem reduceToProbability_eq [Semiring R] [StarRing R] {m : Nat} (keep : Fin m → Fin n) (ψ : Vec n R) (o : Bits m) :
    reduceToProbability keep ψ o = ∑ x ∈ Finset.univ.filter (fun x : Bits n => x.sel keep = o), star (ψ x) * ψ x := by
  simp only [reduceToProbability, sumBits_eq_sum, Bits.beq_iff, normSq, conj]
  rw [Finset.sum_filter]

/-- the marginals sum to `‖ψ‖² = Σ |ψ x|²` (to 1 for a normalised state), whatever the kept set -/
theorem reduceToProbability_sum [Semiring R] [StarRing R] {m : Nat} (keep : Fin m → Fin n) (ψ : Vec n R) :
    ∑ o, reduceToProbability keep ψ o = ∑ x, star (ψ x) * ψ x := by
  simp only [reduceToProbability, sumBits_eq_sum, Bits.beq_iff, normSq, conj]
  rw [Finset.sum_comm]
  refine Finset.sum_congr rfl (fun x _ => ?_)
  rw [Finset.sum_ite_eq]
  simp

end star

/-! ### the flat-index convention -/

/-- numpy's flat index (`reshape`) is a bijection between `{0,…,2^n-1}` and bit vectors, qubit 0 most significant -/
theorem flatIndex_bijective (n : Nat) :
    (∀ x : Bits n, x.toNat < 2 ^ n ∧ Bits.ofNat n x.toNat = x) ∧ ∀ v, v < 2 ^ n → (Bits.ofNat n v).toNat = v :=
  ⟨fun x => ⟨Bits.toNat_lt x, Bits.ofNat_toNat x⟩, fun _ h => Bits.toNat_ofNat h⟩

/-- `reshape(-1)` after `reshape([2]*n)` is the identity (the model's array round trip) -/
theorem lookup_tabulate_id [Zero R] (ψ : Vec n R) : lookup (tabulate ψ) = ψ := lookup_tabulate ψ

/-! ### the executed carriers -/

/-- **The statement about exactly what the driver computes**: `applyGate` evaluated with the model's own `ℤ[i]` operations
(`GInt.instAdd`, `GInt.instMul`, `GInt.instZero` of `NumqiModel/Scalar.lean`) is multiplication by the embedded operator.
`GInt` is a commutative star ring on those very operations (`NumqiProofs/ScalarInstances.lean`), so this is
`applyGate_eq_embed` at `R = GInt`, accepted by definitional unfolding. -/
theorem applyGate_eq_embed_GInt {t : Fin k → Fin n} (ht : Injective t) (U : Mat k GInt) (ψ : Vec n GInt) :
    @applyGate GInt n k GInt.instAdd GInt.instMul GInt.instZero U t ψ
      = (Matrix.of (@embed GInt n k GInt.instZero U t)).mulVec ψ :=
  applyGate_eq_embed ht U ψ

/-- the same for the circuit fold at `ℚ[i]`, the carrier used for non-integer gates -/
theorem applyStateA_eq_QI (c : List (Op n QI)) (hc : ∀ g ∈ c, g.WF) (a : Array QI) :
    @lookup QI n QI.instZero (@applyStateA QI n QI.instAdd QI.instMul QI.instZero c a)
      = (circuitMatrix c).mulVec (@lookup QI n QI.instZero a) :=
  applyStateA_eq c hc a

/-! ### the hypotheses are satisfiable, the statements are not vacuous -/

/-- a non-ascending target tuple is duplicate-free: the gate theorems apply to it -/
example : Injective (![2, 0] : Fin 2 → Fin 3) := by decide

/-- … so e.g. over `ℂ` -/
example (U : Mat 2 ℂ) (ψ : Vec 3 ℂ) : applyGate U ![2, 0] ψ = (Matrix.of (embed U ![2, 0])).mulVec ψ :=
  applyGate_eq_embed (by decide) U ψ

/-- the model computes: CNOT written as a 2-qubit matrix on the targets (1,0) of two qubits, i.e. control = qubit 1,
maps |01⟩ to |11⟩ (flat index 1 ↦ 3); with targets (0,1) it would leave |01⟩ alone -/
example : tabulate (applyGate (lookupMat (k := 2) #[1,0,0,0, 0,1,0,0, 0,0,0,1, 0,0,1,0]) (![1, 0] : Fin 2 → Fin 2)
    (lookup (n := 2) #[(0 : Int), 1, 0, 0])) = #[0, 0, 0, 1] := by decide
example : tabulate (applyGate (lookupMat (k := 2) #[1,0,0,0, 0,1,0,0, 0,0,0,1, 0,0,1,0]) (![0, 1] : Fin 2 → Fin 2)
    (lookup (n := 2) #[(0 : Int), 1, 0, 0])) = #[0, 1, 0, 0] := by decide

/-- the index resolution accepts a Toffoli-like entry (controls 0 and 2, target 1, of 3 qubits) and rejects a target
that is also a control -/
example : ((RawOp.control #[(0 : Int), 1, 1, 0] [0, 2] [1]).compile 3).isSome = true := by decide
example : ((RawOp.control #[(0 : Int), 1, 1, 0] [0, 1] [1]).compile 3).isSome = false := by decide

/-- the controlled model acts only when the controls are 1: |101⟩ ↦ |111⟩, |100⟩ stays -/
example : (((RawOp.control #[(0 : Int), 1, 1, 0] [0, 2] [1]).compile 3).map fun g => g.applyA #[0,0,0,0,0,1,0,0])
    = some #[0,0,0,0,0,0,0,1] := by decide
example : (((RawOp.control #[(0 : Int), 1, 1, 0] [0, 2] [1]).compile 3).map fun g => g.applyA #[0,0,0,0,1,0,0,0])
    = some #[0,0,0,0,1,0,0,0] := by decide

/-- unitary gates exist over `ℂ` (hypothesis of `toUnitary_unitary`) -/
example : (1 : Matrix (Bits 1) (Bits 1) ℂ) ∈ Matrix.unitaryGroup (Bits 1) ℂ := one_mem _

end Numqi.C03
