/-
C05 — the formulation of the naive symmetric-extension SDP (`numqi.entangle.is_ABk_symmetric_ext_naive`, model
`NumqiModel/SymExt.lean`; the solver stays a contract).  Theorems: the two index arrays the implementation imposes are the exchange of
the last two copies and the cyclic shift of the copies; every symmetric extension in the sense of C06 (`Boundary.IsSymExt`, ent2's
`NumqiProofs/BoundaryLemmas.lean`, imported read-only) read out on flat indices satisfies **every** captured constraint (soundness of
"feasible"); with `sep_subset_kext` the constraint set is therefore feasible for every separable state — the C05 clause for the
extension test.  (The naive path has no PPT / bosonic option; those exist only in the irrep-block path, which stays a contract.)
`kext = j+2` copies of B  ↔  `IsSymExt (j+1)`.
-/
import NumqiModel.SymExt
import NumqiProofs.EntangleBridge
import Mathlib.Logic.Equiv.Fin.Rotate
import NumqiProofs.EntangleConj

namespace Numqi.C05
open Numqi Numqi.Ent
open scoped ComplexOrder
open Matrix

variable {dA dB : ℕ}

/-- flat position (row-major, `(a, β_0, …, β_{K-1})`) of a basis label of `A ⊗ B^{⊗K}` -/
def sxEnc {K : ℕ} (x : Fin dA × (Fin K → Fin dB)) : Nat :=
  flat (sxDims dA dB K) (x.1.val :: List.ofFn fun t => (x.2 t).val)

theorem inShape_ofFn_replicate {K : ℕ} (β : Fin K → Fin dB) :
    InShape (List.ofFn fun t => (β t).val) (List.replicate K dB) := by
  induction K with
  | zero => simp [InShape]
  | succ K ih =>
    rw [List.ofFn_succ, List.replicate_succ]
    exact List.Forall₂.cons (β 0).2 (ih fun t => β t.succ)

theorem sxEnc_inShape {K : ℕ} (x : Fin dA × (Fin K → Fin dB)) :
    InShape (x.1.val :: List.ofFn fun t => (x.2 t).val) (sxDims dA dB K) :=
  List.Forall₂.cons x.1.2 (inShape_ofFn_replicate x.2)

theorem unflat_sxEnc {K : ℕ} (x : Fin dA × (Fin K → Fin dB)) :
    unflat (sxDims dA dB K) (sxEnc x) = x.1.val :: List.ofFn fun t => (x.2 t).val :=
  unflat_flat (sxEnc_inShape x)

/-- a map of positions that fixes position 0 and acts on the copies as the permutation `π` -/
theorem gatherPos_cons_ofFn {K : ℕ} (σ : Nat → Nat) (π : Equiv.Perm (Fin K)) (h0 : σ 0 = 0)
    (hσ : ∀ t : Fin K, σ (t.val + 1) = (π t).val + 1) (a : Nat) (γ : Fin K → Nat) :
    gatherPos σ (a :: List.ofFn γ) = a :: List.ofFn (γ ∘ π) := by
  apply List.ext_getElem
  · simp [gatherPos]
  · intro i h1 h2
    simp only [gatherPos, List.getElem_map, List.getElem_range]
    cases i with
    | zero => simp [h0]
    | succ i =>
      have hi : i < K := by simpa using h2
      have := hσ ⟨i, hi⟩
      simp only at this
      rw [this]
      simp [List.getD_eq_getElem?_getD]

/-- the permutation of the copies imposed by index array 0: exchange of the last two copies -/
def sxPerm0 (j : ℕ) : Equiv.Perm (Fin (j + 2)) := Equiv.swap (Fin.last (j + 1)) (Fin.last j).castSucc

/-- the permutation of the copies imposed by index array 1: `t ↦ t-1`, `0 ↦ last` -/
def sxPerm1 (j : ℕ) : Equiv.Perm (Fin (j + 2)) := (finRotate (j + 2)).symm

theorem sxPerm0_val (j : ℕ) (t : Fin (j + 2)) :
    ((sxPerm0 j t).val : Nat) = if t.val + 2 = j + 3 then t.val - 1 else if t.val + 3 = j + 3 then t.val + 1 else t.val := by
  unfold sxPerm0
  by_cases h1 : t = Fin.last (j + 1)
  · subst h1; simp [Equiv.swap_apply_left]
  · by_cases h2 : t = (Fin.last j).castSucc
    · subst h2
      simp [Equiv.swap_apply_right]
    · rw [Equiv.swap_apply_of_ne_of_ne h1 h2]
      have e1 : t.val ≠ j + 1 := fun h => h1 (Fin.ext (by simpa using h))
      have e2 : t.val ≠ j := fun h => h2 (Fin.ext (by simpa using h))
      have := t.2
      split_ifs <;> omega

theorem sxPerm1_val (j : ℕ) (t : Fin (j + 2)) :
    ((sxPerm1 j t).val : Nat) = if t.val = 0 then j + 1 else t.val - 1 := by
  unfold sxPerm1
  -- (finRotate).symm t = s  ↔  finRotate s = t
  have key : ∀ s : Fin (j + 2), finRotate (j + 2) s = t → (s.val : Nat) = if t.val = 0 then j + 1 else t.val - 1 := by
    intro s hs
    by_cases hl : s = Fin.last (j + 1)
    · subst hl
      rw [finRotate_last] at hs
      simp [← hs]
    · have h1 := coe_finRotate_of_ne_last hl
      rw [hs] at h1
      have : t.val ≠ 0 := by omega
      simp only [this, if_false]; omega
  exact key _ (Equiv.apply_symm_apply _ _)


/-! ## the index arrays permute the copies -/

/-- **index array 0 exchanges the last two copies**: `indP0[enc(a,β)] = enc(a, β∘(last last-1))` -/
theorem sxPermIndex_zero (j : ℕ) (x : Fin dA × (Fin (j + 2) → Fin dB)) :
    sxPermIndex dA dB (j + 2) 0 (sxEnc x) = sxEnc (x.1, x.2 ∘ sxPerm0 j) := by
  have hlen : (x.1.val :: List.ofFn fun t => (x.2 t).val).length = j + 3 := by simp
  unfold sxPermIndex
  simp only [if_true]
  rw [unflat_sxEnc]
  unfold swapLastTwo sxEnc
  rw [hlen]
  congr 1
  refine gatherPos_cons_ofFn _ (sxPerm0 j) (by simp) (fun t => ?_) _ _
  have hv := sxPerm0_val j t
  have ht := t.2
  rw [hv]
  split_ifs <;> omega

/-- **index array 1 (present for `kext > 2`) shifts the copies cyclically**: `indP1[enc(a,β)] = enc(a, β∘rot⁻¹)` -/
theorem sxPermIndex_one (j : ℕ) (x : Fin dA × (Fin (j + 2) → Fin dB)) :
    sxPermIndex dA dB (j + 2) 1 (sxEnc x) = sxEnc (x.1, x.2 ∘ sxPerm1 j) := by
  have hlen : (x.1.val :: List.ofFn fun t => (x.2 t).val).length = j + 3 := by simp
  unfold sxPermIndex
  simp only [one_ne_zero, if_false]
  rw [unflat_sxEnc]
  unfold rotateCopies sxEnc
  rw [hlen]
  congr 1
  refine gatherPos_cons_ofFn _ (sxPerm1 j) (by simp) (fun t => ?_) _ _
  have hv := sxPerm1_val j t
  have ht := t.2
  rw [hv]
  split_ifs <;> omega

theorem sxEnc_injective {K : ℕ} {x y : Fin dA × (Fin K → Fin dB)} (h : sxEnc x = sxEnc y) : x = y := by
  have := congrArg (unflat (sxDims dA dB K)) h
  rw [unflat_sxEnc, unflat_sxEnc] at this
  obtain ⟨h1, h2⟩ := List.cons.inj this
  refine Prod.ext (Fin.ext h1) (funext fun t => Fin.ext ?_)
  have := congrArg (fun l => l.getD t.val 0) h2
  simpa [List.getD_eq_getElem?_getD] using this

/-- every flat index below `N = dimA·dimB^K` is the position of a basis label -/
theorem sxEnc_surjective {K : ℕ} {r : Nat} (hr : r < prodL (sxDims dA dB K)) : ∃ x : Fin dA × (Fin K → Fin dB), sxEnc x = r := by
  have hs := unflat_inShape _ _ hr
  have hf := flat_unflat _ _ hr
  generalize unflat (sxDims dA dB K) r = l at hs hf
  match l, hs with
  | a :: c, .cons ha hc =>
    have hlen : c.length = K := by simpa using List.Forall₂.length_eq hc
    have hlt : ∀ i (hi : i < K), c.getD i 0 < dB := by
      intro i hi
      have := InShape.getD_lt hc i (by simpa using hi)
      simpa [List.getD_eq_getElem?_getD, hi] using this
    refine ⟨(⟨a, ha⟩, fun t => ⟨c.getD t.val 0, hlt t.val t.2⟩), ?_⟩
    rw [← hf, sxEnc]
    congr 2
    apply List.ext_getElem
    · simp [hlen]
    · intro i h1 h2
      simp [List.getD_eq_getElem?_getD, h2]

/-! ## sums over the traced-out copies -/

theorem sum_flat_replicate {M : Type} [AddCommMonoid M] (K : ℕ) (g : Nat → M) :
    ∑ t ∈ Finset.range (prodL (List.replicate K dB)), g t
      = ∑ r : Fin K → Fin dB, g (flat (List.replicate K dB) (List.ofFn fun t => (r t).val)) := by
  induction K generalizing g with
  | zero => simp [prodL, flat]
  | succ K ih =>
    rw [List.replicate_succ]
    simp only [prodL]
    have hdm : ∀ t, g t = g (t / prodL (List.replicate K dB) * prodL (List.replicate K dB) + t % prodL (List.replicate K dB)) :=
      fun t => by rw [Nat.div_add_mod']
    rw [Finset.sum_congr rfl fun t _ => hdm t,
      sum_range_mul_divmod dB (prodL (List.replicate K dB)) fun i j => g (i * prodL (List.replicate K dB) + j)]
    rw [← (Fintype.sum_equiv (Fin.consEquiv fun _ : Fin (K + 1) => Fin dB) _ _ fun _ => rfl), Fintype.sum_prod_type, Finset.sum_range]
    refine Finset.sum_congr rfl fun b _ => ?_
    rw [ih]
    refine Finset.sum_congr rfl fun r _ => ?_
    simp [Fin.consEquiv, List.ofFn_succ, flat]

/-- the trace of the variable is the trace of its reduction (pure index identity) -/
theorem sxTrace_eq_trace_reduced {M : Type} [AddCommMonoid M] (n0 n1 : ℕ) (X : Nat → Nat → M) :
    sxTrace (n0 * n1) X = sumRange n0 fun i => ptraceLast n1 X i i := by
  simp only [sxTrace, ptraceLast, sumRange_eq_sum]
  have hdm : ∀ r, X r r = X (r / n1 * n1 + r % n1) (r / n1 * n1 + r % n1) := fun r => by rw [Nat.div_add_mod']
  rw [Finset.sum_congr rfl fun r _ => hdm r]
  exact sum_range_mul_divmod n0 n1 fun i t => X (i * n1 + t) (i * n1 + t)

/-! ## soundness: a symmetric extension satisfies every captured constraint -/

section sound
variable (j : ℕ) (ρ : Matrix (Fin dA × Fin dB) (Fin dA × Fin dB) ℂ)
  (σ : Matrix (Fin dA × (Fin (j + 2) → Fin dB)) (Fin dA × (Fin (j + 2) → Fin dB)) ℂ)
  (X : Nat → Nat → ℂ)

/-- **the permutation constraints** `X[indP[:,None], indP] = X` (both index arrays) hold for the flat read-out of any
permutation-invariant `σ`, at every entry -/
theorem naive_perm_constraints (hσ : Boundary.IsSymExt (j + 1) ρ σ) (hX : ∀ x y, X (sxEnc x) (sxEnc y) = σ x y) (which : ℕ)
    (hw : which < 2) {r c : ℕ} (hr : r < prodL (sxDims dA dB (j + 2))) (hc : c < prodL (sxDims dA dB (j + 2))) :
    sxPermuted dA dB (j + 2) which X r c = X r c := by
  obtain ⟨x, rfl⟩ := sxEnc_surjective hr
  obtain ⟨y, rfl⟩ := sxEnc_surjective hc
  have hinv := hσ.2.1
  interval_cases which
  · simp only [sxPermuted, sxPermIndex_zero, hX]; exact hinv (sxPerm0 j) x y
  · simp only [sxPermuted, sxPermIndex_one, hX]; exact hinv (sxPerm1 j) x y

/-- **the reduction constraint** `partial_trace(X, (dA·dB, dB^(kext-1)), 1) = ρ` holds (the implementation keeps the *first* copy,
`IsSymExt` the last one; they agree by permutation invariance) -/
theorem naive_reduction_constraint (hσ : Boundary.IsSymExt (j + 1) ρ σ) (hX : ∀ x y, X (sxEnc x) (sxEnc y) = σ x y)
    (p q : Fin dA × Fin dB) :
    sxReduced dB (j + 2) X (flat [dA, dB] [p.1.val, p.2.val]) (flat [dA, dB] [q.1.val, q.2.val]) = ρ p q := by
  have henc : ∀ (z : Fin dA × Fin dB) (r : Fin (j + 1) → Fin dB),
      flat [dA, dB] [z.1.val, z.2.val] * prodL (List.replicate (j + 1) dB)
        + flat (List.replicate (j + 1) dB) (List.ofFn fun t => (r t).val)
        = sxEnc (dA := dA) (z.1, (Fin.cons z.2 r : Fin (j + 2) → Fin dB)) := by
    intro z r
    simp only [sxEnc, sxDims, List.replicate_succ, List.ofFn_succ, flat, prodL, Fin.cons_zero, Fin.cons_succ]
    ring
  simp only [sxReduced, ptraceLast, sumRange_eq_sum, show j + 2 - 1 = j + 1 from rfl]
  rw [sum_flat_replicate]
  rw [hσ.2.2 p q]
  refine Finset.sum_congr rfl fun r _ => ?_
  rw [henc p r, henc q r, hX]
  have h := hσ.2.1 (finRotate (j + 2)) (p.1, Fin.cons p.2 r) (q.1, Fin.cons q.2 r)
  simp only at h
  rw [← h]
  congr 2 <;> · rw [Fin.snoc_eq_cons_rotate]; rfl

/-- **the trace constraint** -/
theorem naive_trace_constraint (hσ : Boundary.IsSymExt (j + 1) ρ σ) (hX : ∀ x y, X (sxEnc x) (sxEnc y) = σ x y)
    (hρ : ρ.trace = 1) : sxTrace (prodL (sxDims dA dB (j + 2))) X = 1 := by
  have hN : prodL (sxDims dA dB (j + 2)) = dA * dB * prodL (List.replicate (j + 1) dB) := by
    simp [sxDims, List.replicate_succ, prodL, Nat.mul_assoc]
  have hred : ∀ z : Fin dA × Fin dB, ptraceLast (prodL (List.replicate (j + 1) dB)) X (z.1.val * dB + z.2.val)
      (z.1.val * dB + z.2.val) = ρ z z := by
    intro z
    have := naive_reduction_constraint j ρ σ X hσ hX z z
    simpa [sxReduced, flat, prodL] using this
  rw [hN, sxTrace_eq_trace_reduced, ← hρ, Matrix.trace, sumRange_eq_sum]
  set f : Nat → ℂ := fun i => ptraceLast (prodL (List.replicate (j + 1) dB)) X i i with hf
  have hdm : ∀ i, f i = f (i / dB * dB + i % dB) := fun i => by rw [Nat.div_add_mod']
  rw [Finset.sum_congr rfl fun i _ => hdm i, sum_range_mul_divmod dA dB fun a b => f (a * dB + b), Fintype.sum_prod_type,
    Finset.sum_range]
  refine Finset.sum_congr rfl fun a _ => ?_
  rw [Finset.sum_range]
  exact Finset.sum_congr rfl fun b _ => hred (a, b)

/-- **the PSD constraint** `X ⪰ 0`, for `X` restricted to the `N×N` block the variable lives on -/
theorem naive_psd_constraint (hσ : Boundary.IsSymExt (j + 1) ρ σ) (hX : ∀ x y, X (sxEnc x) (sxEnc y) = σ x y) :
    (Matrix.of fun r c : Fin (prodL (sxDims dA dB (j + 2))) => X r c).PosSemidef := by
  classical
  let dec : Fin (prodL (sxDims dA dB (j + 2))) → Fin dA × (Fin (j + 2) → Fin dB) := fun r => (sxEnc_surjective r.2).choose
  have hdec : ∀ r, sxEnc (dec r) = r.val := fun r => (sxEnc_surjective r.2).choose_spec
  have : (Matrix.of fun r c : Fin (prodL (sxDims dA dB (j + 2))) => X r c) = σ.submatrix dec dec := by
    ext r c
    simp only [Matrix.of_apply, Matrix.submatrix_apply]
    rw [← hX, hdec, hdec]
  rw [this]
  exact hσ.1.submatrix dec

end sound

/-- **soundness of "feasible"**: the flat read-out of any symmetric extension `σ` of a unit-trace `ρ` (C06's `IsSymExt (j+1)`) satisfies every
constraint that `is_ABk_symmetric_ext_naive(rho, (dA,dB), kext=j+2)` hands to the solver. -/
theorem naive_sdp_constraints_of_isSymExt (j : ℕ) (ρ : Matrix (Fin dA × Fin dB) (Fin dA × Fin dB) ℂ)
    (σ : Matrix (Fin dA × (Fin (j + 2) → Fin dB)) (Fin dA × (Fin (j + 2) → Fin dB)) ℂ) (X : Nat → Nat → ℂ)
    (hσ : Boundary.IsSymExt (j + 1) ρ σ) (hρ : ρ.trace = 1) (hX : ∀ x y, X (sxEnc x) (sxEnc y) = σ x y) :
    (Matrix.of fun r c : Fin (prodL (sxDims dA dB (j + 2))) => X r c).PosSemidef
    ∧ sxTrace (prodL (sxDims dA dB (j + 2))) X = 1
    ∧ (∀ p q : Fin dA × Fin dB,
        sxReduced dB (j + 2) X (flat [dA, dB] [p.1.val, p.2.val]) (flat [dA, dB] [q.1.val, q.2.val]) = ρ p q)
    ∧ ∀ which < sxNumPerm (j + 2), ∀ r < prodL (sxDims dA dB (j + 2)), ∀ c < prodL (sxDims dA dB (j + 2)),
        sxPermuted dA dB (j + 2) which X r c = X r c :=
  ⟨naive_psd_constraint j ρ σ X hσ hX, naive_trace_constraint j ρ σ X hσ hX hρ, naive_reduction_constraint j ρ σ X hσ hX,
    fun which hw r hr c hc => naive_perm_constraints j ρ σ X hσ hX which
      (lt_of_lt_of_le hw (by unfold sxNumPerm; split_ifs <;> omega)) hr hc⟩

/-- **the naive extension SDP is feasible for every separable state** (any number of product terms, normalised `b_k`, weights `≥ 0`
with unit total trace, every `kext = j+2 ≥ 2`, all local dimensions): a matrix satisfying all captured constraints exists, namely the flat
read-out of `symExt (j+2) p a b`. What remains for "`is_ABk_symmetric_ext_naive` answers True" is the solver contract. -/
theorem naive_sdp_feasible_for_separable {K : Type} [Fintype K] (j : ℕ) (p : K → ℝ) (hp : ∀ i, 0 ≤ p i) (a : K → Fin dA → ℂ)
    (b : K → Fin dB → ℂ) (hb : ∀ i, ∑ v, b i v * star (b i v) = 1) (htr : (sepState p a b).trace = 1) :
    ∃ X : Nat → Nat → ℂ,
      (Matrix.of fun r c : Fin (prodL (sxDims dA dB (j + 2))) => X r c).PosSemidef
      ∧ sxTrace (prodL (sxDims dA dB (j + 2))) X = 1
      ∧ (∀ x y : Fin dA × Fin dB,
          sxReduced dB (j + 2) X (flat [dA, dB] [x.1.val, x.2.val]) (flat [dA, dB] [y.1.val, y.2.val]) = sepState p a b x y)
      ∧ ∀ which < sxNumPerm (j + 2), ∀ r < prodL (sxDims dA dB (j + 2)), ∀ c < prodL (sxDims dA dB (j + 2)),
          sxPermuted dA dB (j + 2) which X r c = X r c := by
  classical
  -- the index set is not empty because the trace is 1
  obtain ⟨x0⟩ : Nonempty (Fin dA × Fin dB) := by
    by_contra h
    rw [not_nonempty_iff] at h
    simp [Matrix.trace] at htr
  -- flat read-out of the explicit extension `symExt (j+2) p a b` (theorem `symExt_isSymExt`)
  obtain ⟨σ, hσ⟩ := sep_subset_kext (j + 1) p hp a b hb
  let dec : Nat → Fin dA × (Fin (j + 2) → Fin dB) := fun r =>
    if h : r < prodL (sxDims dA dB (j + 2)) then (sxEnc_surjective h).choose else (x0.1, fun _ => x0.2)
  have hdec : ∀ x, dec (sxEnc x) = x := by
    intro x
    have hx : sxEnc x < prodL (sxDims dA dB (j + 2)) := flat_lt (sxEnc_inShape x)
    show (if h : sxEnc x < prodL (sxDims dA dB (j + 2)) then (sxEnc_surjective h).choose else (x0.1, fun _ => x0.2)) = x
    rw [dif_pos hx]
    exact sxEnc_injective (sxEnc_surjective hx).choose_spec
  refine ⟨fun r c => σ (dec r) (dec c), ?_⟩
  refine naive_sdp_constraints_of_isSymExt j (sepState p a b) σ (fun r c => σ (dec r) (dec c)) hσ htr fun x y => ?_
  show σ (dec (sxEnc x)) (dec (sxEnc y)) = σ x y
  rw [hdec, hdec]

/-! ## the irrep-block path: index helpers (`get_cvxpy_transpose0213_indexing`, the realignment, the block contraction) -/

private theorem inShape4 {s0 s1 s2 s3 i0 i1 i2 i3 : Nat} (h0 : i0 < s0) (h1 : i1 < s1) (h2 : i2 < s2) (h3 : i3 < s3) :
    InShape [i0, i1, i2, i3] [s0, s1, s2, s3] := .cons h0 (.cons h1 (.cons h2 (.cons h3 .nil)))

/-- **`get_cvxpy_transpose0213_indexing` is the axis permutation it claims**: at position `(n1,n3,n0,n2)` (row-major in shape
`(N1,N3,N0,N2)`) it holds the row-major position of `(n2,n3,n0,n1)` in shape `(N2,N3,N0,N1)` … -/
theorem idx0213_entry (N0 N1 N2 N3 : Nat) {n0 n1 n2 n3 : Nat} (h0 : n0 < N0) (h1 : n1 < N1) (h2 : n2 < N2) (h3 : n3 < N3) :
    idx0213 N0 N1 N2 N3 (flat [N1, N3, N0, N2] [n1, n3, n0, n2]) = flat [N2, N3, N0, N1] [n2, n3, n0, n1] := by
  unfold idx0213
  have hs : permShape [N2, N3, N0, N1] [3, 1, 2, 0] = [N1, N3, N0, N2] := rfl
  have := npTranspose_flat [N2, N3, N0, N1] [3, 1, 2, 0] (id : Nat → Nat) [n1, n3, n0, n2] (by rw [hs]; exact inShape4 h1 h3 h0 h2)
  rw [hs] at this
  rw [this]
  simp [transposeIn, List.range_succ, List.idxOf_cons]

/-- … which is the column-major (`order='F'`) position of the entry `[(n0,n1),(n2,n3)]` of an `(N0·N1)×(N2·N3)` matrix -/
theorem idx0213_target_is_Fflat (N0 N1 N2 N3 n0 n1 n2 n3 : Nat) :
    flat [N2, N3, N0, N1] [n2, n3, n0, n1] = (n0 * N1 + n1) + (n2 * N3 + n3) * (N0 * N1) := by
  simp [flat, prodL]; ring

/-- **the realignment of the input state** (`is_ABk_symmetric_ext`, `get_ABk_symmetric_extension_boundary`):
`out[(a,a'),(b,b')] = ρ[(a,b),(a',b')]` -/
theorem sxRealign_entry {α : Type} (dA dB : Nat) (ρ : Nat → Nat → α) {a b a' b' : Nat}
    (ha : a < dA) (hb : b < dB) (ha' : a' < dA) (hb' : b' < dB) :
    sxRealign dA dB ρ (flat [dA, dA] [a, a']) (flat [dB, dB] [b, b']) = ρ (flat [dA, dB] [a, b]) (flat [dA, dB] [a', b']) := by
  unfold sxRealign
  rw [← prodL2 dB dB, ofFlat_flat_append _ (inShape2 ha ha')]
  have hs : permShape [dA, dB, dA, dB] [0, 2, 1, 3] = [dA, dA] ++ [dB, dB] := rfl
  have := npTranspose_flat [dA, dB, dA, dB] [0, 2, 1, 3] (toFlat (dA * dB) ρ) ([a, a'] ++ [b, b'])
    (by rw [hs]; exact (inShape2 ha ha').append (inShape2 hb hb'))
  rw [hs] at this
  rw [this]
  have ht : transposeIn [0, 2, 1, 3] ([a, a'] ++ [b, b']) = [a, b] ++ [a', b'] := by
    simp [transposeIn, List.range_succ, List.idxOf_cons]
  rw [ht, ← prodL2 dA dB]
  exact toFlat_flat_append [dA, dB] ρ (inShape2 ha hb) (inShape2 ha' hb')

/-- the constraint `cvx_rdm == cvx_rho` of the irrep-block SDP, un-realigned: the reduced state of the extension is the AB state -/
theorem realigned_constraint_iff {α : Type} (dA dB : Nat) (rdm ρ : Nat → Nat → α) :
    (∀ a < dA, ∀ a' < dA, ∀ b < dB, ∀ b' < dB,
        rdm (flat [dA, dA] [a, a']) (flat [dB, dB] [b, b']) = sxRealign dA dB ρ (flat [dA, dA] [a, a']) (flat [dB, dB] [b, b']))
      ↔ ∀ a < dA, ∀ a' < dA, ∀ b < dB, ∀ b' < dB,
        rdm (flat [dA, dA] [a, a']) (flat [dB, dB] [b, b']) = ρ (flat [dA, dB] [a, b]) (flat [dA, dB] [a', b']) := by
  constructor <;> intro h a ha a' ha' b hb b' hb'
  · rw [h a ha a' ha' b hb b' hb', sxRealign_entry dA dB ρ ha hb ha' hb']
  · rw [h a ha a' ha' b hb b' hb', sxRealign_entry dA dB ρ ha hb ha' hb']

/-- the right-hand side `eye/(dA·dB) + β·direction` of `get_ABk_symmetric_extension_boundary` is the realignment of the ray point
`1/N + β·ρ̂` (the realignment only moves entries) -/
theorem extRaySigma_eq_realign_rayPoint {α : Type} [Add α] [Mul α] [Zero α] [One α] (dA dB : Nat) (invN β : α) (ρhat : Nat → Nat → α) :
    extRaySigma dA dB invN β (sxRealign dA dB ρhat)
      = sxRealign dA dB (fun r c => (if r = c then (1 : α) else 0) * invN + β * ρhat r c) := by
  funext i j
  simp only [extRaySigma, sxRealign, ofFlat, npTranspose, toFlat]

/-- **the gather of one irrep block**: `tmp3[(a,a'),(i,j)] = P[(a,i),(a',j)]` (`P` indexed A-major, `x` = dimension of the block) -/
theorem irrepGather_entry {α : Type} (dA x : Nat) (P : Nat → Nat → α) {a a' i j : Nat} (ha : a < dA) (ha' : a' < dA) (hi : i < x) (hj : j < x) :
    irrepGather dA x P (flat [dA, dA] [a, a']) (flat [x, x] [i, j]) = P (flat [dA, x] [a, i]) (flat [dA, x] [a', j]) := by
  unfold irrepGather
  have hpos : flat [dA, dA] [a, a'] + flat [x, x] [i, j] * (dA * dA) = flat [x, x, dA, dA] [i, j, a, a'] := by
    simp [flat, prodL]; ring
  rw [hpos, idx0213_entry dA x dA x ha hi ha' hj, idx0213_target_is_Fflat]
  unfold flatF
  have hlt : a * x + i < x * dA := by
    calc a * x + i < a * x + x := by omega
      _ = (a + 1) * x := by ring
      _ ≤ dA * x := Nat.mul_le_mul_right _ ha
      _ = x * dA := Nat.mul_comm _ _
  have e1 : (a * x + i + (a' * x + j) * (dA * x)) % (x * dA) = a * x + i := by
    rw [Nat.mul_comm dA x, Nat.add_mul_mod_self_right, Nat.mod_eq_of_lt hlt]
  have e2 : (a * x + i + (a' * x + j) * (dA * x)) / (x * dA) = a' * x + j := by
    rw [Nat.mul_comm dA x, Nat.add_mul_div_right _ _ (by omega : 0 < x * dA), Nat.div_eq_of_lt hlt, Nat.zero_add]
  rw [e1, e2]
  simp [flat, prodL]

/-- **the reduced-state contribution of one irrep block** is `Σ_{i,j} P[(a,i),(a',j)]·coeffB[i,j,·]` -/
theorem irrepBlockRdm_entry {α : Type} [CommSemiring α] (dA x dB : Nat) (P : Nat → Nat → α) (C : Nat → α) {a a' : Nat} (ha : a < dA)
    (ha' : a' < dA) (c : Nat) :
    irrepBlockRdm dA x dB P C (flat [dA, dA] [a, a']) c
      = ∑ i ∈ Finset.range x, ∑ j ∈ Finset.range x, P (flat [dA, x] [a, i]) (flat [dA, x] [a', j]) * C ((i * x + j) * (dB * dB) + c) := by
  unfold irrepBlockRdm
  rw [sumRange_eq_sum]
  have hdm : ∀ t, irrepGather dA x P (flat [dA, dA] [a, a']) t * C (t * (dB * dB) + c)
      = irrepGather dA x P (flat [dA, dA] [a, a']) (t / x * x + t % x) * C ((t / x * x + t % x) * (dB * dB) + c) :=
    fun t => by rw [Nat.div_add_mod']
  rw [Finset.sum_congr rfl fun t _ => hdm t,
    sum_range_mul_divmod x x fun i j => irrepGather dA x P (flat [dA, dA] [a, a']) (i * x + j) * C ((i * x + j) * (dB * dB) + c)]
  refine Finset.sum_congr rfl fun i hi => Finset.sum_congr rfl fun j hj => ?_
  have := irrepGather_entry dA x P ha ha' (Finset.mem_range.1 hi) (Finset.mem_range.1 hj)
  have hf : flat [x, x] [i, j] = i * x + j := by simp [flat, prodL]
  rw [hf] at this
  rw [this]

/-! ## the executable witness of the model is that extension -/

private theorem foldl_mul_eq_prod (f : Nat → ℂ) (l : List Nat) (acc : ℂ) :
    l.foldl (fun acc v => acc * f v) acc = acc * (l.map f).prod := by
  induction l generalizing acc with
  | nil => simp
  | cons x l ih => simp [ih, mul_assoc]

/-- **`sxWitness` (what the driver feeds into the captured constraints) is the flat read-out of `symExt`**, for any number `n` of product terms -/
theorem sxWitness_eq_symExt {K n : ℕ} (p : Fin n → ℝ) (a b : Fin n → Nat → ℂ) (x y : Fin dA × (Fin K → Fin dB)) :
    sxWitness dA dB K (List.ofFn fun k => ((p k : ℂ), a k, b k)) (sxEnc x) (sxEnc y)
      = symExt K p (fun k i => a k i.val) (fun k v => b k v.val) x y := by
  have hamp : ∀ (k : Fin n) (z : Fin dA × (Fin K → Fin dB)),
      sxAmp dA dB K (a k) (b k) (sxEnc z) = a k z.1.val * ∏ t, b k (z.2 t).val := by
    intro k z
    simp only [sxAmp, unflat_sxEnc, foldl_mul_eq_prod, one_mul, List.map_ofFn, List.prod_ofFn, Function.comp]
  simp only [sxWitness, symExt, Matrix.of_apply, List.map_ofFn, List.sum_ofFn, Function.comp, hamp, conj_eq_star]

/-! ## non-vacuity -/

/-- the hypotheses of the feasibility theorem hold for the product state `|00⟩⟨00|` of two qubits (one term), every number of copies -/
example (j : ℕ) : ∃ X : Nat → Nat → ℂ, sxTrace (prodL (sxDims 2 2 (j + 2))) X = 1 ∧
    ∀ r < prodL (sxDims 2 2 (j + 2)), ∀ c < prodL (sxDims 2 2 (j + 2)), sxPermuted 2 2 (j + 2) 0 X r c = X r c := by
  obtain ⟨X, _, h2, _, h4⟩ := naive_sdp_feasible_for_separable (dA := 2) (dB := 2) j (fun _ : Unit => 1) (fun _ => zero_le_one)
    (fun _ i => if i = 0 then 1 else 0) (fun _ i => if i = 0 then 1 else 0) (fun _ => by simp)
    (by simp [sepState, Matrix.trace, Fintype.sum_prod_type])
  exact ⟨X, h2, fun r hr c hc => h4 0 (by unfold sxNumPerm; split_ifs <;> omega) r hr c hc⟩

/-- the two imposed permutations are what they are called: on three copies, `(0 1 2) ↦` exchange of copies 1,2 and the shift -/
example : (List.range 8).map (sxPermIndex 1 2 3 0) = [0, 2, 1, 3, 4, 6, 5, 7] ∧ (List.range 8).map (sxPermIndex 1 2 3 1) = [0, 4, 1, 5, 2, 6, 3, 7] := by
  decide

end Numqi.C05
