import NumqiModel.Manifold
namespace Numqi.C01
theorem placeholder : True := trivial
end Numqi.C01
