/-
C01 — every trivialization map lands on its manifold.

Property theorems only (helpers: `NumqiProofs/Manifold{Lemmas,Matrix,Maps,Psd,Ensemble,Sym}.lean`).  All statements are about the
constants of `NumqiModel/Manifold.lean` that `Driver/C01.lean` executes, instantiated at `α = ℝ`, `K = ℂ`
(`Transc ℝ` = the real `sqrt exp log sin cos`, `CxOps ℝ ℂ` = the complex numbers).  `toM m n A` is the `m × n` data matrix `A`
as a Mathlib matrix.  Every theorem is for **all** dimensions / ranks / orders and all parameter vectors `θ : ℕ → ℝ`,
except for the guards written as hypotheses (`θ ≠ 0` for the quotient maps, full column rank for polar/qr).
External routines (`expm`, `inv`, `cholesky`, inverse square root, `qr`) are parameters; their contracts are hypotheses.

Nothing is kept as an unproved `…Statement`: `det = 1` for the SU(d) exp chart goes through the spectral theorem.
-/
import NumqiProofs.ManifoldEnsemble
import NumqiProofs.ManifoldSym
import NumqiProofs.ManifoldEuler
import NumqiProofs.ManifoldDetExp
import NumqiProofs.ManifoldABk
import NumqiProofs.ManifoldSeparable
import NumqiProofs.ManifoldContracts

namespace Numqi.C01
open Numqi Numqi.Manifold Matrix Finset
open Numqi.Gellmann (Scalars complexScalars complexScalars_valid)
open scoped ComplexOrder
local notation "mexp" => NormedSpace.exp

variable {dim rank : Nat}

/-! ### scalars and vectors -/

/-- `to_positive_real_softplus(θ) > 0` -/
theorem softplus_pos (x : ℝ) : 0 < softplus x := softplus_pos' x

/-- `to_positive_real_exp(θ) > 0` -/
theorem expMap_pos (x : ℝ) : 0 < expMap x := Real.exp_pos x

/-- `to_open_interval(θ, l, u) ∈ (l, u)` for `l < u` -/
theorem openInterval_mem (θ l u : ℝ) (h : l < u) : l < openInterval θ l u ∧ openInterval θ l u < u :=
  openInterval_mem' θ l u h

/-- `to_ball` (real): `‖x‖² < 1` for every θ -/
theorem ball_real_norm_lt_one (n : Nat) (θ : Nat → ℝ) : ∑ i ∈ range n, ballVec n θ i * ballVec n θ i < 1 := by
  rw [← normSq_eq]; exact ball_normSq n θ

/-- `to_ball` (complex, `2h` parameters paired as `x[:h] + i x[h:]`): `Σ|z_j|² < 1` -/
theorem ball_complex_norm_lt_one (h : Nat) (θ : Nat → ℝ) :
    ∑ j ∈ range h, Complex.normSq (pairCx (K := ℂ) h (ballVec (h + h) θ) j) < 1 := by
  rw [pairCx_normSq]; exact ball_normSq (h + h) θ

/-- `to_sphere_quotient` (real): unit norm for θ ≠ 0 -/
theorem sphereQuotient_real_norm (n : Nat) (θ : Nat → ℝ) (hθ : normSq n θ ≠ 0) :
    ∑ i ∈ range n, sphereQuotientVec n θ i * sphereQuotientVec n θ i = 1 := by
  rw [← normSq_eq]; exact sphereQuotient_normSq n θ hθ

/-- `to_sphere_quotient` (complex) -/
theorem sphereQuotient_complex_norm (h : Nat) (θ : Nat → ℝ) (hθ : normSq (h + h) θ ≠ 0) :
    ∑ j ∈ range h, Complex.normSq (pairCx (K := ℂ) h (sphereQuotientVec (h + h) θ) j) = 1 := by
  rw [pairCx_normSq]; exact sphereQuotient_normSq (h + h) θ hθ

/-- `to_sphere_coordinate` (real, `n` angles ↦ `n+1` coordinates): unit norm for **every** θ -/
theorem sphereCoordinate_real_norm (n : Nat) (θ : Nat → ℝ) :
    ∑ i ∈ range (n + 1), sphereCoordVec n θ i * sphereCoordVec n θ i = 1 := by
  rw [← normSq_eq]; exact sphereCoord_normSq n θ

/-- `to_sphere_coordinate` (complex, `2h-1` angles ↦ `h` complex coordinates) -/
theorem sphereCoordinate_complex_norm (h : Nat) (hh : 1 ≤ h) (θ : Nat → ℝ) :
    ∑ j ∈ range h, Complex.normSq (pairCx (K := ℂ) h (sphereCoordVec (h + h - 1) θ) j) = 1 := by
  rw [pairCx_normSq]
  have : h + h = (h + h - 1) + 1 := by omega
  rw [this]; exact sphereCoord_normSq _ θ

/-- `to_discrete_probability_softmax`: positive entries … -/
theorem softmax_pos (n : Nat) (θ : Nat → ℝ) (hn : 0 < n) (i : Nat) : 0 < softmaxVec n θ i := softmax_pos' n θ hn i
/-- … summing to one -/
theorem softmax_sum (n : Nat) (θ : Nat → ℝ) (hn : 0 < n) : ∑ i ∈ range n, softmaxVec n θ i = 1 := softmax_sum' n θ hn

/-- `to_discrete_probability_sphere`: non-negative entries … -/
theorem probSphere_nonneg (n : Nat) (θ : Nat → ℝ) (i : Nat) : 0 ≤ probSphereVec n θ i := probSphere_nonneg' n θ i
/-- … summing to one (θ ≠ 0) -/
theorem probSphere_sum (n : Nat) (θ : Nat → ℝ) (hθ : normSq n θ ≠ 0) : ∑ i ∈ range n, probSphereVec n θ i = 1 :=
  probSphere_sum' n θ hθ

/-- `DiscreteProbability(weight=w)`: the output `p_i / w_i` lies on the weighted simplex `Σ w_i q_i = 1` (softmax; any non-zero weights) -/
theorem weighted_softmax_sum (n : Nat) (θ w : Nat → ℝ) (hn : 0 < n) (hw : ∀ i, i < n → w i ≠ 0) :
    ∑ i ∈ range n, w i * weightedProb (softmaxVec n θ) w i = 1 := by
  rw [weightedProb_sum n _ w hw]; exact softmax_sum' n θ hn
/-- … same for the sphere method (θ ≠ 0) … -/
theorem weighted_probSphere_sum (n : Nat) (θ w : Nat → ℝ) (hθ : normSq n θ ≠ 0) (hw : ∀ i, i < n → w i ≠ 0) :
    ∑ i ∈ range n, w i * weightedProb (probSphereVec n θ) w i = 1 := by
  rw [weightedProb_sum n _ w hw]; exact probSphere_sum' n θ hθ
/-- … with non-negative entries for positive weights -/
theorem weighted_prob_nonneg (p w : Nat → ℝ) (i : Nat) (hp : 0 ≤ p i) (hw : 0 < w i) : 0 ≤ weightedProb p w i :=
  weightedProb_nonneg p w i hp hw

/-! ### trace-one positive semidefinite matrices -/

theorem psdCholesky_hermitian (isReal : Bool) (θ : Nat → ℝ) :
    (toM dim dim (psdCholesky (K := ℂ) dim rank isReal θ)).IsHermitian := psdCholesky_hermitian' isReal θ
theorem psdCholesky_posSemidef (isReal : Bool) (θ : Nat → ℝ) :
    (toM dim dim (psdCholesky (K := ℂ) dim rank isReal θ)).PosSemidef := psdCholesky_posSemidef' isReal θ
/-- trace one for every θ (the softplus diagonal makes the normaliser non-zero) -/
theorem psdCholesky_trace_one (isReal : Bool) (θ : Nat → ℝ) (hr : 1 ≤ rank) (h : rank ≤ dim) :
    trace (toM dim dim (psdCholesky (K := ℂ) dim rank isReal θ)) = 1 := psdCholesky_trace' isReal θ hr h
theorem psdCholesky_rank_le (isReal : Bool) (θ : Nat → ℝ) :
    Matrix.rank (toM dim dim (psdCholesky (K := ℂ) dim rank isReal θ)) ≤ rank := psdCholesky_rank_le' isReal θ

/-- `to_trace1_psd_ensemble`: Hermitian positive semidefinite for every θ -/
theorem psdEnsemble_posSemidef (isReal : Bool) (θ : Nat → ℝ) (hr : 0 < rank) :
    (toM dim dim (psdEnsemble (K := ℂ) dim rank isReal θ)).PosSemidef := psdEnsemble_posSemidef' isReal θ hr
/-- trace one when every state block of θ is non-zero -/
theorem psdEnsemble_trace_one (isReal : Bool) (θ : Nat → ℝ) (hr : 0 < rank)
    (hθ : ∀ k : Fin rank, normSq (if isReal then dim else 2 * dim)
      (fun q => θ (rank + k.val * (if isReal then dim else 2 * dim) + q)) ≠ 0) :
    trace (toM dim dim (psdEnsemble (K := ℂ) dim rank isReal θ)) = 1 := psdEnsemble_trace' isReal θ hr hθ
theorem psdEnsemble_rank_le (isReal : Bool) (θ : Nat → ℝ) :
    Matrix.rank (toM dim dim (psdEnsemble (K := ℂ) dim rank isReal θ)) ≤ rank := psdEnsemble_rank_le' isReal θ

/-! ### symmetric / Hermitian matrices -/

/-- all four placements (real/complex × full/traceless) give a Hermitian matrix -/
theorem symmetric_hermitian (S : Scalars ℂ) (hS : S.Valid dim) (hd : 1 ≤ dim) (isReal isTrace0 : Bool) (θ : Nat → ℝ) :
    (toM dim dim (symmetricRaw S dim isReal isTrace0 θ))ᴴ = toM dim dim (symmetricRaw S dim isReal isTrace0 θ) :=
  symmetricRaw_hermitian' S hS hd isReal isTrace0 θ
/-- `is_trace0` ⇒ trace zero -/
theorem symmetric_trace_zero (S : Scalars ℂ) (hd : 1 ≤ dim) (isReal : Bool) (θ : Nat → ℝ) :
    trace (toM dim dim (symmetricRaw S dim isReal true θ)) = 0 := symmetricRaw_trace' S hd isReal θ
/-- `is_norm1` ⇒ Frobenius norm one (raw matrix non-zero) -/
theorem symmetric_norm_one (S : Scalars ℂ) (isReal isTrace0 : Bool) (θ : Nat → ℝ)
    (hne : frobSq dim dim (symmetricRaw S dim isReal isTrace0 θ) ≠ 0) :
    frobSq dim dim (symmetricMatrix S dim isReal isTrace0 true θ) = 1 := symmetricMatrix_norm1' S isReal isTrace0 θ hne

/-- the final output (with or without `is_norm1`) is Hermitian … -/
theorem symmetricMatrix_hermitian (S : Scalars ℂ) (hS : S.Valid dim) (hd : 1 ≤ dim) (isReal isTrace0 isNorm1 : Bool) (θ : Nat → ℝ) :
    (toM dim dim (symmetricMatrix S dim isReal isTrace0 isNorm1 θ))ᴴ = toM dim dim (symmetricMatrix S dim isReal isTrace0 isNorm1 θ) :=
  symmetricMatrix_hermitian' S hS hd isReal isTrace0 isNorm1 θ
/-- … and traceless when requested -/
theorem symmetricMatrix_trace_zero (S : Scalars ℂ) (hd : 1 ≤ dim) (isReal isNorm1 : Bool) (θ : Nat → ℝ) :
    trace (toM dim dim (symmetricMatrix S dim isReal true isNorm1 θ)) = 0 := symmetricMatrix_trace' S hd isReal isNorm1 θ

/-! ### special orthogonal / unitary -/

/-- the generator (θ placed in the antisymmetric block / `i`·Hermitian traceless block) is skew-Hermitian -/
theorem soGenerator_skewHermitian (S : Scalars ℂ) (hS : S.Valid dim) (hd : 1 ≤ dim) (isReal : Bool) (θ : Nat → ℝ) :
    (toM dim dim (soGenerator S dim isReal θ))ᴴ = -toM dim dim (soGenerator S dim isReal θ) :=
  soGenerator_skew S hS hd isReal θ
/-- real branch: real entries, antisymmetric -/
theorem soGenerator_real (S : Scalars ℂ) (hS : S.Valid dim) (hd : 1 ≤ dim) (θ : Nat → ℝ) :
    (toM dim dim (soGenerator S dim true θ))ᵀ = -toM dim dim (soGenerator S dim true θ)
      ∧ ∀ r c, (toM dim dim (soGenerator S dim true θ) r c).im = 0 :=
  ⟨soGenerator_real_transpose S hS hd θ, soGenerator_real_entries S θ⟩
/-- complex branch: traceless -/
theorem soGenerator_traceless (S : Scalars ℂ) (hd : 1 ≤ dim) (θ : Nat → ℝ) :
    trace (toM dim dim (soGenerator S dim false θ)) = 0 := soGenerator_complex_trace S hd θ

/-- `to_special_orthogonal_exp` is unitary for every θ (contract: `expm` is the matrix exponential) -/
theorem soExp_unitary (expm : NMat ℂ → NMat ℂ) (hexp : ∀ A, toM dim dim (expm A) = mexp (toM dim dim A))
    (S : Scalars ℂ) (hS : S.Valid dim) (hd : 1 ≤ dim) (isReal : Bool) (θ : Nat → ℝ) :
    (toM dim dim (soExp expm S dim isReal θ))ᴴ * toM dim dim (soExp expm S dim isReal θ) = 1 :=
  soExp_unitary' expm hexp S hS hd isReal θ
/-- real branch: determinant one -/
theorem soExp_real_det_one (expm : NMat ℂ → NMat ℂ) (hexp : ∀ A, toM dim dim (expm A) = mexp (toM dim dim A))
    (S : Scalars ℂ) (hS : S.Valid dim) (hd : 1 ≤ dim) (θ : Nat → ℝ) :
    (toM dim dim (soExp expm S dim true θ)).det = 1 := soExp_real_det' expm hexp S hS hd θ

/-- complex branch (SU(d) chart): **determinant one** — by unitary diagonalisation of the Hermitian `-i·generator`
(spectral theorem) and `exp (U D U⁻¹) = U exp(D) U⁻¹`, `det = Π exp(iλ_k) = exp(i·tr H) = 1` for the traceless generator. -/
theorem soExp_complex_det_one (expm : NMat ℂ → NMat ℂ) (hexp : ∀ A, toM dim dim (expm A) = mexp (toM dim dim A))
    (S : Scalars ℂ) (hS : S.Valid dim) (hd : 1 ≤ dim) (θ : Nat → ℝ) :
    (toM dim dim (soExp expm S dim false θ)).det = 1 := soExp_complex_det' expm hexp S hS hd θ

/-- `to_special_orthogonal_cayley` is unitary for every θ and every order (contract: `inv` is a left inverse on invertible
input; `1 + A` is proved invertible) -/
theorem soCayley_unitary (inv : NMat ℂ → NMat ℂ)
    (hinv : ∀ P, IsUnit (toM dim dim P).det → toM dim dim (inv P) * toM dim dim P = 1)
    (S : Scalars ℂ) (hS : S.Valid dim) (hd : 1 ≤ dim) (order : Nat) (isReal : Bool) (θ : Nat → ℝ) :
    (toM dim dim (soCayley inv S dim order isReal θ))ᴴ * toM dim dim (soCayley inv S dim order isReal θ) = 1 :=
  soCayley_unitary' inv hinv S hS hd order isReal θ
/-- real branch: determinant one -/
theorem soCayley_real_det_one (inv : NMat ℂ → NMat ℂ)
    (hinv : ∀ P, IsUnit (toM dim dim P).det → toM dim dim (inv P) * toM dim dim P = 1)
    (S : Scalars ℂ) (hS : S.Valid dim) (hd : 1 ≤ dim) (order : Nat) (θ : Nat → ℝ) :
    (toM dim dim (soCayley inv S dim order true θ)).det = 1 := soCayley_real_det' inv hinv S hS hd order θ

/-! ### Stiefel -/

/-- `to_stiefel_choleskyL`: orthonormal columns for **every** θ (the pre-factor is proved to have full column rank);
contracts: `chol G · (chol G)ᴴ = G` on positive definite `G`, `inv` a left inverse on invertible input -/
theorem stiefelCholL_orthonormal (chol inv : NMat ℂ → NMat ℂ)
    (hchol : ∀ G, (toM rank rank G).PosDef → toM rank rank (chol G) * (toM rank rank (chol G))ᴴ = toM rank rank G)
    (hinv : ∀ P, IsUnit (toM rank rank P).det → toM rank rank (inv P) * toM rank rank P = 1)
    (isReal : Bool) (θ : Nat → ℝ) (h : rank ≤ dim) :
    (toM dim rank (stiefelCholL chol inv dim rank isReal θ))ᴴ * toM dim rank (stiefelCholL chol inv dim rank isReal θ) = 1 :=
  stiefelCholL_orthonormal' chol inv hchol hinv isReal θ h

/-- `to_stiefel_polar` (`rank ≥ 2`): orthonormal columns when the parameter matrix has full column rank;
contract: `S = invSqrt G` is Hermitian with `S G S = 1` on positive definite `G` -/
theorem stiefelPolar_orthonormal (invSqrt : NMat ℂ → NMat ℂ)
    (hsq : ∀ G, (toM rank rank G).PosDef →
      (toM rank rank (invSqrt G))ᴴ = toM rank rank (invSqrt G) ∧
      toM rank rank (invSqrt G) * toM rank rank G * toM rank rank (invSqrt G) = 1)
    (isReal : Bool) (θ : Nat → ℝ) (hr : rank ≠ 1)
    (hfull : Function.Injective (toM dim rank (stiefelMat (K := ℂ) dim rank isReal θ)).mulVec) :
    (toM dim rank (stiefelPolar invSqrt dim rank isReal θ))ᴴ * toM dim rank (stiefelPolar invSqrt dim rank isReal θ) = 1 :=
  stiefelPolar_orthonormal' invSqrt hsq isReal θ hr hfull
/-- `rank = 1` branch: unit vector (θ ≠ 0) -/
theorem stiefelPolar_rank_one (invSqrt : NMat ℂ → NMat ℂ) (isReal : Bool) (θ : Nat → ℝ)
    (hne : frobSq dim 1 (stiefelMat (K := ℂ) dim 1 isReal θ) ≠ 0) :
    frobSq dim 1 (stiefelPolar invSqrt dim 1 isReal θ) = 1 := stiefelPolar_rank1' invSqrt isReal θ hne

/-- `to_stiefel_qr`: the property is the contract of `qr` on the reshaped parameter matrix -/
theorem stiefelQR_orthonormal (qrQ : NMat ℂ → NMat ℂ)
    (hqr : ∀ M, Function.Injective (toM dim rank M).mulVec → (toM dim rank (qrQ M))ᴴ * toM dim rank (qrQ M) = 1)
    (isReal : Bool) (θ : Nat → ℝ)
    (hfull : Function.Injective (toM dim rank (stiefelMat (K := ℂ) dim rank isReal θ)).mulVec) :
    (toM dim rank (stiefelQR qrQ dim rank isReal θ))ᴴ * toM dim rank (stiefelQR qrQ dim rank isReal θ) = 1 :=
  stiefelQR_orthonormal' qrQ hqr isReal θ hfull

/-- `Stiefel(method='so-exp' | 'so-cayley')`: the first `rank` columns of the (unitary) SO/SU chart are orthonormal -/
theorem stiefelSO_orthonormal (rank : Nat) (h : rank ≤ dim) (U : NMat ℂ) (hU : (toM dim dim U)ᴴ * toM dim dim U = 1) :
    (toM dim rank (soColumns dim rank U))ᴴ * toM dim rank (soColumns dim rank U) = 1 := soColumns_orthonormal rank h U hU

/-- `Stiefel(method='so-exp')()` — the composite that op `stso … exp` executes — has orthonormal columns for every θ -/
theorem stiefelSO_exp_orthonormal (rank : Nat) (h : rank ≤ dim) (expm : NMat ℂ → NMat ℂ) (hexp : ∀ A, toM dim dim (expm A) = mexp (toM dim dim A))
    (S : Scalars ℂ) (hS : S.Valid dim) (hd : 1 ≤ dim) (isReal : Bool) (θ : Nat → ℝ) :
    (toM dim rank (soColumns dim rank (soExp expm S dim isReal θ)))ᴴ * toM dim rank (soColumns dim rank (soExp expm S dim isReal θ)) = 1 :=
  soColumns_orthonormal rank h _ (soExp_unitary' expm hexp S hS hd isReal θ)
/-- `Stiefel(method='so-cayley')()` (Cayley order 2, the default used by `Stiefel.forward`; any order) likewise -/
theorem stiefelSO_cayley_orthonormal (rank : Nat) (h : rank ≤ dim) (inv : NMat ℂ → NMat ℂ)
    (hinv : ∀ P, IsUnit (toM dim dim P).det → toM dim dim (inv P) * toM dim dim P = 1)
    (S : Scalars ℂ) (hS : S.Valid dim) (hd : 1 ≤ dim) (order : Nat) (isReal : Bool) (θ : Nat → ℝ) :
    (toM dim rank (soColumns dim rank (soCayley inv S dim order isReal θ)))ᴴ * toM dim rank (soColumns dim rank (soCayley inv S dim order isReal θ)) = 1 :=
  soColumns_orthonormal rank h _ (soCayley_unitary' inv hinv S hS hd order isReal θ)

/-! ### compositions -/

/-- `QuantumChannel` (`kraus`): `Σ_s K_sᴴ K_s = XᴴX`, the identity when `X` is on the Stiefel manifold -/
theorem kraus_complete (dimIn dimOut choiRank : Nat) (X : NMat ℂ)
    (hX : (toM (choiRank * dimOut) dimIn X)ᴴ * toM (choiRank * dimOut) dimIn X = 1) (i j : Fin dimIn) :
    ∑ s : Fin choiRank, ∑ o : Fin dimOut, star (krausOfStiefel dimOut X s.val o.val i.val) * krausOfStiefel dimOut X s.val o.val j.val
      = if i = j then 1 else 0 := by
  rw [kraus_complete', hX, Matrix.one_apply]

/-- `QuantumChannel` (`choi`): positive semidefinite … -/
theorem choi_posSemidef (dimIn dimOut choiRank : Nat) (Ks : Nat → Nat → Nat → ℂ) :
    (Matrix.of fun (a b : Fin dimOut × Fin dimIn) => choiOfKraus choiRank Ks a.1.val a.2.val b.1.val b.2.val).PosSemidef :=
  choi_posSemidef' dimIn dimOut choiRank Ks
/-- … and trace preserving -/
theorem choi_trace_preserving (dimIn dimOut choiRank : Nat) (X : NMat ℂ)
    (hX : (toM (choiRank * dimOut) dimIn X)ᴴ * toM (choiRank * dimOut) dimIn X = 1) (i i' : Fin dimIn) :
    ∑ o : Fin dimOut, choiOfKraus choiRank (krausOfStiefel dimOut X) o.val i.val o.val i'.val = if i = i' then 1 else 0 := by
  rw [choi_partial_trace', hX, Matrix.one_apply]; split_ifs <;> simp

/-- `SeparableDensityMatrix`: the output is by construction `Σ_k p_k (a_k a_kᴴ) ⊗ (b_k b_kᴴ)` -/
theorem separable_is_mixture (n : Nat) (p : Nat → ℂ) (a b : NMat ℂ) (i j i' j' : Nat) :
    separableDM n p a b i j i' j'
      = ∑ k : Fin n, p k.val * (a.get k.val i * star (a.get k.val i')) * (b.get k.val j * star (b.get k.val j')) := by
  simp only [separableDM, sumK_eq, CxOps.conj]
  refine Finset.sum_congr rfl (fun k _ => ?_)
  simp only [Complex.star_def]; ring

/-- `SeparableDensityMatrix()` has **unit trace** when the weights sum to one and every `a_k`, `b_k` is a unit vector … -/
theorem separable_trace_one (n dA dB : Nat) (p : Nat → ℂ) (a b : NMat ℂ)
    (hA : ∀ k, k < n → ∑ i : Fin dA, a.get k i.val * star (a.get k i.val) = 1)
    (hB : ∀ k, k < n → ∑ j : Fin dB, b.get k j.val * star (b.get k j.val) = 1)
    (hp : ∑ k : Fin n, p k.val = 1) :
    ∑ i : Fin dA, ∑ j : Fin dB, separableDM n p a b i.val j.val i.val j.val = 1 := separableDM_trace n dA dB p a b hA hB hp
/-- … and is **positive semidefinite** for non-negative weights: `vᴴ ρ v = Σ_k p_k |⟨v, a_k ⊗ b_k⟩|²` is a non-negative real for every `v` -/
theorem separable_posSemidef (n dA dB : Nat) (p : Nat → ℝ) (hp : ∀ k, 0 ≤ p k) (a b : NMat ℂ) (v : Fin dA × Fin dB → ℂ) :
    ∃ q : ℝ, 0 ≤ q ∧ ∑ x : Fin dA × Fin dB, ∑ y : Fin dA × Fin dB,
      star (v x) * separableDM n (fun k => ((p k : ℝ) : ℂ)) a b x.1.val x.2.val y.1.val y.2.val * v y = (q : ℂ) :=
  separableDM_quadratic_nonneg n dA dB p hp a b v
/-- the composite that op `sepdm` executes — literally the driver's terms: flat parameter vectors `ta`, `tb` read as `ta (k·2·dA + q)` (out-of-range
reads are `0` in the driver, hence the guard only for the `n` product states that exist: `k < n`), softmax weights, `pairCx ∘ sphereQuotientVec`
vectors of length `2·dA`, `2·dB` — has unit trace -/
theorem separable_composite_trace_one (n dA dB : Nat) (hn : 0 < n) (tp ta tb : Nat → ℝ)
    (hA : ∀ k, k < n → normSq (2 * dA) (fun q => ta (k * 2 * dA + q)) ≠ 0) (hB : ∀ k, k < n → normSq (2 * dB) (fun q => tb (k * 2 * dB + q)) ≠ 0) :
    ∑ i : Fin dA, ∑ j : Fin dB, separableDM n (fun k => ((softmaxVec n tp k : ℝ) : ℂ))
      (NMat.ofFn n dA fun k i => pairCx (K := ℂ) dA (sphereQuotientVec (2 * dA) fun q => ta (k * 2 * dA + q)) i)
      (NMat.ofFn n dB fun k j => pairCx (K := ℂ) dB (sphereQuotientVec (2 * dB) fun q => tb (k * 2 * dB + q)) j) i.val j.val i.val j.val = 1 := by
  have := separable_composite_trace_one' n dA dB hn tp (fun k q => ta (k * 2 * dA + q)) (fun k q => tb (k * 2 * dB + q))
    (by simpa only [two_mul] using hA) (by simpa only [two_mul] using hB)
  simpa only [two_mul] using this

/-- non-vacuity on a driver-shaped input: the parameters come from arrays read with `getD … 0` (zero beyond the `n` states), the guard holds for `k < n` -/
example : ∀ k, k < 1 → normSq (2 * 1) (fun q => (#[1, 0] : Array ℝ).getD (k * 2 * 1 + q) 0) ≠ 0 := by
  intro k hk
  obtain rfl : k = 0 := by omega
  norm_num [normSq, sumRange, List.range_succ]

/-! ### Euler–Hurwitz angles -/

/-- **`to_stiefel_euler` has orthonormal columns for every θ** — real and complex, with and without the phase column, all
`rank ≤ dim` (induction over the column recursion: each step is a product of Givens rotations applied to `[1 0; 0 prev]`). -/
theorem stiefelEuler_orthonormal (dim rank : Nat) (isReal withPhase : Bool) (θ : Nat → ℝ) (h : rank ≤ dim) :
    (toM dim rank (stiefelEuler (K := ℂ) dim rank isReal withPhase θ))ᴴ * toM dim rank (stiefelEuler (K := ℂ) dim rank isReal withPhase θ) = 1 :=
  stiefelEuler_orthonormal' dim rank isReal withPhase θ h

/-! ### `_ABk.py`: symmetric-extension Hermitian manifolds (index bookkeeping, any commutative `*`-ring) -/

/-- `ABkHermitian()` is Hermitian: `index_sym`, `index_skew` symmetric, `factor_skew` antisymmetric (checked exactly on the live tables
by the harness), real parameters -/
theorem abkHermitian_hermitian {R : Type} [CommRing R] [StarRing R] (I : R) (hI : star I = -I)
    (idxSym idxSkew : Nat → Nat → Nat) (fac : Nat → Nat → R) (θsym θskew : Nat → R)
    (hs : ∀ q, star (θsym q) = θsym q) (hk : ∀ q, star (θskew q) = θskew q) (hf : ∀ r c, star (fac r c) = fac r c)
    (h1 : ∀ r c, idxSym r c = idxSym c r) (h2 : ∀ r c, idxSkew r c = idxSkew c r) (h3 : ∀ r c, fac r c = -fac c r) (r c : Nat) :
    star (ABk.hermitian I idxSym idxSkew fac θsym θskew c r) = ABk.hermitian I idxSym idxSkew fac θsym θskew r c :=
  ABk.hermitian_star I hI idxSym idxSkew fac θsym θskew hs hk hf h1 h2 h3 r c

/-- … and invariant under every index permutation that preserves the three tables (the exchanges of two `B` copies) -/
theorem abkHermitian_permutation_invariant {R : Type} [CommRing R] [StarRing R] (I : R)
    (idxSym idxSkew : Nat → Nat → Nat) (fac : Nat → Nat → R) (θsym θskew : Nat → R) (π : Nat → Nat)
    (h1 : ∀ r c, idxSym (π r) (π c) = idxSym r c) (h2 : ∀ r c, idxSkew (π r) (π c) = idxSkew r c)
    (h3 : ∀ r c, fac (π r) (π c) = fac r c) (r c : Nat) :
    ABk.hermitian I idxSym idxSkew fac θsym θskew (π r) (π c) = ABk.hermitian I idxSym idxSkew fac θsym θskew r c :=
  ABk.hermitian_perm I idxSym idxSkew fac θsym θskew π h1 h2 h3 r c

/-- `ABk2localHermitian()` is Hermitian when the coefficient rows addressed by `(r,c)` and `(c,r)` agree / are opposite -/
theorem abk2local_hermitian {R : Type} [CommRing R] [StarRing R] (I : R) (hI : star I = -I) (d : Nat)
    (coefS : Nat → Nat → R) (idxS : Nat → Nat → Nat) (coefK : Nat → Nat → R) (idxK : Nat → Nat → Nat) (M : Nat → Nat → R)
    (hM : ∀ a b, star (M a b) = M a b) (hcS : ∀ a q, star (coefS a q) = coefS a q) (hcK : ∀ a q, star (coefK a q) = coefK a q)
    (h1 : ∀ r c q, coefS (idxS c r) q = coefS (idxS r c) q) (h2 : ∀ r c q, coefK (idxK c r) q = -coefK (idxK r c) q) (r c : Nat) :
    star (ABk.twoLocal I d coefS idxS coefK idxK M c r) = ABk.twoLocal I d coefS idxS coefK idxK M r c :=
  ABk.twoLocal_star I hI d coefS idxS coefK idxK M hM hcS hcK h1 h2 r c

/-- `ABk2localHermitian.to_AB()` is Hermitian (real parameter matrix; any commutative `*`-ring) -/
theorem abkToAB_hermitian {R : Type} [CommRing R] [StarRing R] (I : R) (hI : star I = -I) (M : Nat → Nat → R)
    (hM : ∀ a b, star (M a b) = M a b) (r c : Nat) : star (ABk.toAB I M c r) = ABk.toAB I M r c := ABk.toAB_star I hI M hM r c
/-- **`ABk2localHermitian()` without its tables**: the matrix `Σ_x P_{0x}(H_AB ⊗ 1)P_{0x}` that the forward pass is tied to exactly (op `abk2sum`,
which takes only `dimA, dimB, kext` and the parameter matrix — none of the tables of `ABk_2local_symmetry_index` /
`ABk_2local_skew_symmetry_index` / `unique_index_set`) is Hermitian, with no table hypothesis at all -/
theorem abk2local_sum_hermitian {R : Type} [CommRing R] [StarRing R] (I : R) (hI : star I = -I) (dimB kext : Nat) (M : Nat → Nat → R)
    (hM : ∀ a b, star (M a b) = M a b) (r c : Nat) : star (ABk.sumEmbed I dimB kext M c r) = ABk.sumEmbed I dimB kext M r c :=
  ABk.sumEmbed_star I hI dimB kext M hM r c
/-- for `kext = 1` it is `to_AB` itself; and the embedding used in each term is `np.kron(H_AB, eye(m))` -/
theorem abk2local_sum_kext_one {R : Type} [CommRing R] [StarRing R] (I : R) (dimB : Nat) (hB : 0 < dimB) (M : Nat → Nat → R) (r c : Nat) :
    ABk.sumEmbed I dimB 1 M r c = ABk.toAB I M r c := ABk.sumEmbed_one I dimB hB M r c
theorem abk_embed_is_kron {R : Type} [CommRing R] [StarRing R] (m : Nat) (hm : 0 < m) (H : Nat → Nat → R) (a b q q' : Nat) (hq : q < m) (hq' : q' < m) :
    ABk.embed0 m H (a * m + q) (b * m + q') = if q = q' then H a b else 0 := ABk.embed0_kron m hm H a b q q' hq hq'

/-- **`ABk_permutate`'s index map is the digit exchange it is meant to be**: writing `r = a·dimB^kext + Σ_q d_q·dimB^(kext-1-q)`, `permIndex … i j r`
keeps `a` and has digit `q` equal to digit `σ q` of `r`, `σ` the transposition `(i j)`; it maps `[0, dimA·dimB^kext)` into itself and is an involution -/
theorem abk_permIndex_digits (dimB kext i j r q : Nat) (hB : 0 < dimB) (hq : q < kext) :
    ABk.permIndex dimB kext i j r / dimB ^ kext = r / dimB ^ kext ∧
    ABk.digit dimB kext (ABk.permIndex dimB kext i j r) q = ABk.digit dimB kext r (ABk.swapIdx i j q) :=
  ⟨ABk.permIndex_div dimB kext i j r hB, ABk.permIndex_digit dimB kext i j r q hB hq⟩
theorem abk_permIndex_lt (dimA dimB kext i j r : Nat) (hB : 0 < dimB) (hr : r < dimA * dimB ^ kext) :
    ABk.permIndex dimB kext i j r < dimA * dimB ^ kext := ABk.permIndex_lt dimA dimB kext i j r hB hr
theorem abk_permIndex_involutive (dimB kext i j r : Nat) (hB : 0 < dimB) (hi : i < kext) (hj : j < kext) :
    ABk.permIndex dimB kext i j (ABk.permIndex dimB kext i j r) = r := ABk.permIndex_involutive dimB kext i j r hB hi hj
/-- the table-free model of `ABk2localHermitian()` **is** the two-local operator: the sum over the copies `x` of `H_AB` acting on `A ⊗ B_x`
(entry `(r,c)`: zero unless all other digits agree, else `H_AB[(a_r, d_x(r)), (a_c, d_x(c))]`) … -/
theorem abk2local_sum_is_two_local {R : Type} [CommRing R] [StarRing R] (I : R) (dimB kext : Nat) (hB : 0 < dimB) (M : Nat → Nat → R) (r c : Nat) :
    ABk.sumEmbed I dimB kext M r c = ∑ x ∈ Finset.range kext, ABk.act dimB kext (ABk.toAB I M) x r c :=
  ABk.sumEmbed_eq_act I dimB kext hB M r c
/-- … and therefore **invariant under the exchange of any two `B` copies** (every `kext`, every pair `i, j < kext`): the defining symmetry of the
`k`-extension, now a theorem about `permIndex` itself (it fails for an arbitrary index map) -/
theorem abk2local_sum_permutation_invariant {R : Type} [CommRing R] [StarRing R] (I : R) (dimB kext : Nat) (hB : 0 < dimB) (M : Nat → Nat → R)
    (i j : Nat) (hi : i < kext) (hj : j < kext) (r c : Nat) :
    ABk.sumEmbed I dimB kext M (ABk.permIndex dimB kext i j r) (ABk.permIndex dimB kext i j c) = ABk.sumEmbed I dimB kext M r c :=
  ABk.sumEmbed_permIndex I dimB kext hB M i j hi hj r c

/-! ### non-vacuity -/

example : normSq 2 (fun _ => (1 : ℝ)) ≠ 0 := by norm_num [normSq, sumRange]
example : ∃ S : Scalars ℂ, S.Valid 3 := ⟨complexScalars 3, complexScalars_valid (by norm_num)⟩
/-! every contract hypothesis is satisfiable, and the theorems are instantiated with such witnesses (so none of them is vacuous) -/

/-- `expm`: exp chart unitary with determinant one, for every θ, with a witness of the contract -/
example (S : Scalars ℂ) (hS : S.Valid dim) (hd : 1 ≤ dim) (θ : Nat → ℝ) : ∃ expm : NMat ℂ → NMat ℂ,
    (toM dim dim (soExp expm S dim false θ))ᴴ * toM dim dim (soExp expm S dim false θ) = 1 ∧ (toM dim dim (soExp expm S dim false θ)).det = 1 := by
  obtain ⟨expm, h⟩ := exists_expm dim
  exact ⟨expm, soExp_unitary expm h S hS hd false θ, soExp_complex_det_one expm h S hS hd θ⟩

/-- `inv`: Cayley chart -/
example (S : Scalars ℂ) (hS : S.Valid dim) (hd : 1 ≤ dim) (order : Nat) (isReal : Bool) (θ : Nat → ℝ) : ∃ inv : NMat ℂ → NMat ℂ,
    (toM dim dim (soCayley inv S dim order isReal θ))ᴴ * toM dim dim (soCayley inv S dim order isReal θ) = 1 := by
  obtain ⟨inv, h⟩ := exists_inv dim
  exact ⟨inv, soCayley_unitary inv h S hS hd order isReal θ⟩

/-- `cholesky` and `inv`: choleskyL Stiefel map (`hchol`, `hinv`) -/
example (isReal : Bool) (θ : Nat → ℝ) (h : rank ≤ dim) : ∃ chol inv : NMat ℂ → NMat ℂ,
    (toM dim rank (stiefelCholL chol inv dim rank isReal θ))ᴴ * toM dim rank (stiefelCholL chol inv dim rank isReal θ) = 1 := by
  obtain ⟨chol, hc⟩ := exists_chol (r := rank)
  obtain ⟨inv, hi⟩ := exists_inv rank
  exact ⟨chol, inv, stiefelCholL_orthonormal chol inv hc hi isReal θ h⟩

/-- a parameter vector whose `2 × 2` matrix has full column rank (`hfull`) -/
theorem stiefelMat_id_injective : Function.Injective (toM 2 2 (stiefelMat (K := ℂ) 2 2 true fun p => if p = 0 ∨ p = 3 then 1 else 0)).mulVec := by
  have : toM 2 2 (stiefelMat (K := ℂ) 2 2 true fun p => if p = 0 ∨ p = 3 then 1 else 0) = 1 := by
    ext i j
    fin_cases i <;> fin_cases j <;> simp [toM, stiefelMat, NMat.get_ofFn, CxOps.ofReal]
  rw [this]; intro x y h; simpa using h

/-- inverse square root: polar Stiefel map (`hsq`, `hfull`) -/
example : ∃ invSqrt : NMat ℂ → NMat ℂ,
    (toM 2 2 (stiefelPolar invSqrt 2 2 true fun p => if p = 0 ∨ p = 3 then 1 else 0))ᴴ
      * toM 2 2 (stiefelPolar invSqrt 2 2 true fun p => if p = 0 ∨ p = 3 then 1 else 0) = 1 := by
  obtain ⟨f, hf⟩ := exists_invSqrt (r := 2)
  exact ⟨f, stiefelPolar_orthonormal f hf true _ (by norm_num) stiefelMat_id_injective⟩

/-- `qr`: (`hqr`, `hfull`) -/
example : ∃ qrQ : NMat ℂ → NMat ℂ,
    (toM 2 2 (stiefelQR qrQ 2 2 true fun p => if p = 0 ∨ p = 3 then 1 else 0))ᴴ
      * toM 2 2 (stiefelQR qrQ 2 2 true fun p => if p = 0 ∨ p = 3 then 1 else 0) = 1 := by
  obtain ⟨f, hf⟩ := exists_qrQ (r := 2) (dim := 2)
  exact ⟨f, stiefelQR_orthonormal f hf true _ stiefelMat_id_injective⟩

/-- the guard `hθ` of `psdEnsemble_trace_one` (every state block non-zero) is satisfied by `θ = 1` -/
example : trace (toM 3 3 (psdEnsemble (K := ℂ) 3 2 false fun _ => 1)) = 1 :=
  psdEnsemble_trace_one false _ (by norm_num) (fun k => by simp [normSq_eq])

/-- the guards of the quotient maps -/
example : ∑ i ∈ range 3, sphereQuotientVec 3 (fun _ => (1 : ℝ)) i * sphereQuotientVec 3 (fun _ => (1 : ℝ)) i = 1 :=
  sphereQuotient_real_norm 3 _ (by simp [normSq_eq])

end Numqi.C01
