import NumqiModel.Gellmann
namespace Numqi.C16
theorem placeholder : True := trivial
end Numqi.C16
