/-
C16 — Gell-Mann coordinates are an orthogonal-basis isomorphism.

Property theorems only (helper lemmas: `NumqiProofs/Gellmann{Lemmas,Synthesis,Iso,Complex}.lean`).
Everything is about the constants of `NumqiModel/Gellmann.lean` that `Driver/C16.lean` executes:
`gm`/`allGellmann` (`gellmann_matrix`, `all_gellmann_matrix`), `analysis` (`matrix_to_gellmann_basis`),
`synthesis` (`gellmann_basis_to_matrix`), `dmToVec`, `vecToDm`, `dmNorm2`, `distance2`.

All statements hold for **every dimension `d ≥ 1`** and every commutative `*`-ring `R` with scalars
`S : Scalars R` satisfying the relations of the exact square roots (`Scalars.Valid`: `half·2 = 1`, `I² = -1`,
`cD k² · k(k+1) = 2`, `cI² · d = 2`, `aD k = cD k / 2`, `aI = cI / 2`, `invD · d = 1`, all real).  `exists_valid_complex`
shows that ℂ with the real square roots is such an instance for every `d ≥ 1`.

Notation: `basis S d a` is element `a` of `all_gellmann_matrix(d)` (order sym ++ antisym ++ diag ++ [I]) as a Mathlib
matrix; `coef S d A a` is entry `a` of `matrix_to_gellmann_basis(A)`.
-/
import NumqiProofs.GellmannComplex
import NumqiProofs.GellmannPerturb
import NumqiProofs.GellmannTensor
import Mathlib.LinearAlgebra.Matrix.Kronecker

namespace Numqi.C16
open Numqi Numqi.Gellmann Matrix

variable {R : Type} [CommRing R] [StarRing R] {d : Nat}

/-- `all_gellmann_matrix(d)` has `d²` elements. -/
theorem allGellmann_length (S : Scalars R) (hd : 1 ≤ d) : (allGellmann S d).length = d * d :=
  length_allGellmann S hd

/-- every basis element is Hermitian. -/
theorem gm_hermitian (S : Scalars R) (hS : S.Valid d) (hd : 1 ≤ d) {a : Nat} (ha : a < d * d) :
    (basis S d a)ᴴ = basis S d a :=
  basis_hermitian S hS hd ha

/-- **`Tr(G_a G_b) = 2 δ_ab`** in the documented order, all `d`. -/
theorem gm_orthogonal (S : Scalars R) (hS : S.Valid d) (hd : 1 ≤ d) {a b : Nat} (ha : a < d * d) (hb : b < d * d) :
    trace (basis S d a * basis S d b) = if a = b then 2 else 0 :=
  basis_orthogonal S hS hd ha hb

/-- all elements are traceless except the last one, which is `sqrt(2/d)·1` (trace `d·sqrt(2/d)`). -/
theorem trace_gellmann (S : Scalars R) (hd : 1 ≤ d) {a : Nat} (ha : a < d * d) :
    trace (basis S d a) = if a = d * d - 1 then (d : R) * S.cI else 0 :=
  basis_trace S hd ha

theorem last_is_identity (S : Scalars R) (hd : 1 ≤ d) : basis S d (d * d - 1) = S.cI • (1 : Matrix (Fin d) (Fin d) R) := by
  rw [basis_last S hd]; ext r c; simp [Matrix.diagonal_apply, Matrix.one_apply]

/-- **`gellmann_basis_to_matrix(v) = Σ_a v_a G_a`** (closed-form scatter/cumulative code = explicit expansion). -/
theorem synthesis_eq_sum (S : Scalars R) (hd : 1 ≤ d) (v : Nat → R) :
    Matrix.of (synthesis S d v) = ∑ a ∈ Finset.range (d * d), v a • basis S d a :=
  synthesis_eq_sum' S hd v

/-- **`matrix_to_gellmann_basis(A)_a = ½ Tr(G_a A)`** (closed-form cumulative-sum code = inner product). -/
theorem analysis_eq_inner (S : Scalars R) (hS : S.Valid d) (hd : 1 ≤ d) (A : Mat d R) {a : Nat} (ha : a < d * d) :
    (analysis S d A).getD a 0 = S.half * trace (basis S d a * Matrix.of A) :=
  coef_eq_inner S hS hd A ha

/-- **vector → matrix → vector is the identity** (as lists of length `d²`). -/
theorem analysis_synthesis (S : Scalars R) (hS : S.Valid d) (hd : 1 ≤ d) (v : Nat → R) :
    analysis S d (synthesis S d v) = (List.range (d * d)).map v := by
  apply List.ext_getElem
  · rw [length_analysis S hd, List.length_map, List.length_range]
  · intro a h1 h2
    rw [length_analysis S hd] at h1
    have := coef_synthesis S hS hd v h1
    rw [coef, List.getD_eq_getElem?_getD, List.getElem?_eq_getElem (by rw [length_analysis S hd]; exact h1)] at this
    simpa using this

/-- **matrix → vector → matrix is the identity.** -/
theorem synthesis_analysis (S : Scalars R) (hS : S.Valid d) (hd : 1 ≤ d) (A : Mat d R) :
    synthesis S d (fun p => (analysis S d A).getD p 0) = A :=
  synthesis_coef S hS hd A

/-- the coefficient map is injective. -/
theorem analysis_injective (S : Scalars R) (hS : S.Valid d) (hd : 1 ≤ d) (A : Mat d R)
    (h : ∀ a, a < d * d → (analysis S d A).getD a 0 = 0) : A = fun _ _ => 0 := by
  funext r c; exact coef_injective S hS hd A h r c

/-- **Parseval with the factor ½**: `Σ_a conj(x_a) y_a = ½ Tr(Aᴴ B)`. -/
theorem parseval_half (S : Scalars R) (hS : S.Valid d) (hd : 1 ≤ d) (A B : Mat d R) :
    ∑ a ∈ Finset.range (d * d), star ((analysis S d A).getD a 0) * (analysis S d B).getD a 0
      = S.half * trace ((Matrix.of A)ᴴ * Matrix.of B) :=
  parseval S hS hd A B

/-- the coefficients of a Hermitian matrix are real, so `.real` in `dm_to_gellmann_basis` loses nothing. -/
theorem analysis_real_of_hermitian (S : Scalars R) (hS : S.Valid d) (hd : 1 ≤ d) (A : Mat d R)
    (hA : (Matrix.of A)ᴴ = Matrix.of A) {a : Nat} (ha : a < d * d) :
    re S ((analysis S d A).getD a 0) = (analysis S d A).getD a 0 :=
  re_of_star_eq S hS (coef_star_of_hermitian S hS hd A hA ha)

/-- **`dm_to_gellmann_norm(ρ)² = |Bloch vector|²`** (sum over all coefficients but the identity one). -/
theorem dm_norm_eq (S : Scalars R) (hS : S.Valid d) (hd : 1 ≤ d) (A : Mat d R) :
    dmNorm2 S d A = ∑ a ∈ Finset.range (d * d - 1), star ((analysis S d A).getD a 0) * (analysis S d A).getD a 0 :=
  dmNorm2_eq_sum S hS hd A

/-- **`get_density_matrix_distance2(ρ,σ) = |x(ρ) - x(σ)|²`**. -/
theorem distance2_eq (S : Scalars R) (hS : S.Valid d) (hd : 1 ≤ d) (A B : Mat d R) :
    distance2 S d A B = ∑ a ∈ Finset.range (d * d),
      star ((analysis S d A).getD a 0 - (analysis S d B).getD a 0) * ((analysis S d A).getD a 0 - (analysis S d B).getD a 0) :=
  distance2_eq_sum S hS hd A B

/-- **Bloch-vector round trip**: `gellmann_basis_to_dm(dm_to_gellmann_basis(ρ)) = ρ` for Hermitian `ρ` of trace one. -/
theorem dm_roundtrip (S : Scalars R) (hS : S.Valid d) (hd : 1 ≤ d) (A : Mat d R)
    (hA : (Matrix.of A)ᴴ = Matrix.of A) (htr : ∑ l, A l l = 1) :
    vecToDm S d (fun p => (dmToVec S d A false).getD p 0) = A := by
  unfold vecToDm
  refine Eq.trans (synthesis_congr S hd (w := coef S d A) ?_) (synthesis_coef S hS hd A)
  intro p hp
  by_cases h : p = d * d - 1
  · rw [if_pos h, h, coef_last S hd, htr, one_mul]
  · have hp' : p < d * d - 1 := by omega
    rw [if_neg h]
    show (dmToVec S d A false).getD p 0 = coef S d A p
    rw [dmToVec_getD S hd A hp']
    exact re_of_star_eq S hS (coef_star_of_hermitian S hS hd A hA hp)

/-- `tensor_n = 2`: the Kronecker products are orthogonal with `Tr = 4 δ`. -/
theorem tensor2_orthogonal (S : Scalars R) (hS : S.Valid d) (hd : 1 ≤ d) {a b a' b' : Nat}
    (ha : a < d * d) (hb : b < d * d) (ha' : a' < d * d) (hb' : b' < d * d) :
    trace ((kroneckerMap (· * ·) (basis S d a) (basis S d b)) * (kroneckerMap (· * ·) (basis S d a') (basis S d b')))
      = if a = a' ∧ b = b' then 4 else 0 := by
  rw [← Matrix.mul_kronecker_mul, Matrix.trace_kronecker, basis_orthogonal S hS hd ha ha', basis_orthogonal S hS hd hb hb']
  by_cases h1 : a = a' <;> by_cases h2 : b = b' <;> simp [h1, h2]; norm_num

/-! ### the executed `tensor_n = 2` / `with_I = False` lists (round 6)

`tensor2_orthogonal` above is about Mathlib's `kroneckerMap`; the statements below are about the constant `allGellmannT2` that the driver executes
(op `allt`), which models the `itertools.product` order and the `np.kron` index flattening of `_all_gellmann_matrix_cache`. -/

/-- `all_gellmann_matrix(d, tensor_n=2)` has `d⁴` elements … -/
theorem allGellmannT2_length (S : Scalars R) (hd : 1 ≤ d) : (allGellmannT2 S d true).length = (d * d) * (d * d) :=
  length_allGellmannT2 S hd
/-- … element `a·d² + b` is `G_a ⊗ G_b`: the `np.kron` flattening `(r1·d + r2, c1·d + c2)` is Mathlib's Kronecker product reindexed by `finProdFinEquiv` … -/
theorem tensor2_executed_eq_kronecker (S : Scalars R) (hd : 1 ≤ d) {a b : Nat} (ha : a < d * d) (hb : b < d * d) :
    basisT2 S d (a * (d * d) + b) = Matrix.reindex finProdFinEquiv finProdFinEquiv (kroneckerMap (· * ·) (basis S d a) (basis S d b)) :=
  basisT2_eq S hd ha hb
/-- … and **the executed list construction is orthogonal with `Tr(T_x T_y) = 4 δ_xy`** for all `x, y < d⁴` — with exact scalars (`S.Valid`); the
binary64 scalars the driver runs with satisfy it up to the residual measured by op `scal` (see the bridge section below). -/
theorem tensor2_executed_orthogonal (S : Scalars R) (hS : S.Valid d) (hd : 1 ≤ d) {x y : Nat}
    (hx : x < (d * d) * (d * d)) (hy : y < (d * d) * (d * d)) :
    trace (basisT2 S d x * basisT2 S d y) = if x = y then 4 else 0 :=
  basisT2_orthogonal S hS hd hx hy
/-- `with_I = False` (either `tensor_n`): the same list without its last element — for `tensor_n = 2` only `I ⊗ I` is dropped — so every remaining
element is the element of the same index of the full list. -/
theorem with_I_false (S : Scalars R) (hd : 1 ≤ d) :
    (allGellmannOpt S d false).length + 1 = d * d ∧ (allGellmannT2 S d false).length + 1 = (d * d) * (d * d) ∧
    (∀ a, a + 1 < d * d → (allGellmannOpt S d false)[a]? = (allGellmann S d)[a]?) ∧
    (∀ x, x + 1 < (d * d) * (d * d) → (allGellmannT2 S d false)[x]? = (allGellmannT2 S d true)[x]?) := by
  have h1 := length_allGellmann S hd
  have h2 := length_allGellmannT2 S hd
  have hpos : 0 < d * d := Nat.mul_pos hd hd
  have hpos2 : 0 < (d * d) * (d * d) := Nat.mul_pos hpos hpos
  refine ⟨?_, ?_, ?_, ?_⟩
  · rw [allGellmannOpt_false, List.length_dropLast, h1]; omega
  · rw [allGellmannT2_false, List.length_dropLast, h2]; omega
  · intro a ha; rw [allGellmannOpt_false]; exact getElem?_dropLast_of_lt _ a (by rw [h1]; exact ha)
  · intro x hx; rw [allGellmannT2_false]; exact getElem?_dropLast_of_lt _ x (by rw [h2]; exact hx)

/-! ### bridge to the instance that the driver executes

`Driver/C16.lean` runs the model with `floatScalars d` (binary64 square roots taken as exact rationals).  These do **not** satisfy `Scalars.Valid`
for `d ≠ 2` (a binary64 number squared is not `2/(k(k+1))`), so the theorems above are about the exact instance `complexScalars d`; the two
instances are related quantitatively: the outputs differ by at most `δ·(size of the coefficients)`, `δ` = largest deviation of a scalar, and the
harness measures `δ ≤ 4.4e-16` on every run (op `scal`). -/

/-- synthesis with two scalar records (same `i`) whose square-root scalars differ by at most `δ`: entrywise difference `≤ δ Σ_k (k+2)|v_k|` -/
theorem synthesis_float_bridge (S S' : Scalars ℂ) (hI : S.I = S'.I) (δ : ℝ) (hD : ∀ k, ‖S.cD k - S'.cD k‖ ≤ δ) (hcI : ‖S.cI - S'.cI‖ ≤ δ)
    (v : Nat → ℂ) (r c : Fin d) :
    ‖synthesis S d v r c - synthesis S' d v r c‖ ≤ δ * ∑ k : Fin d, ((k.val : ℝ) + 2) * ‖diagCoef d v k‖ :=
  synthesis_perturb S S' hI δ hD hcI v r c

/-- analysis likewise: coefficientwise difference `≤ δ · d · Σ_l |A_ll|` (only the diagonal coefficients depend on the square roots) -/
theorem analysis_float_bridge (S S' : Scalars ℂ) (hh : S.half = S'.half) (hI : S.I = S'.I) (δ : ℝ)
    (hD : ∀ k, ‖S.aD k - S'.aD k‖ ≤ δ) (haI : ‖S.aI - S'.aI‖ ≤ δ) (A : Mat d ℂ) (a : Nat) :
    ‖(analysis S d A).getD a 0 - (analysis S' d A).getD a 0‖ ≤ δ * ((d : ℝ) * ∑ l : Fin d, ‖A l l‖) :=
  analysis_perturb S S' hh hI δ hD haI A a

/-! ### non-vacuity: ℂ with the real square roots is a valid instance for every `d ≥ 1` -/

/-- ℂ with the real square roots (`Numqi.Gellmann.complexScalars`) satisfies `Valid` for every `d ≥ 1`. -/
theorem exists_valid_complex (hd : 1 ≤ d) : (complexScalars d).Valid d := complexScalars_valid hd

example : ∃ S : Scalars ℂ, S.Valid 3 := ⟨complexScalars 3, exists_valid_complex (by norm_num)⟩

end Numqi.C16
