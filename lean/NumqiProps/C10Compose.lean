/-
C10 (validity, round 6): the generators of `numqi/random/_internal.py` that are *compositions* — Kronecker products, outer products,
permutation sums, coefficient placement — of already validated pieces.  As in `NumqiProps/C10.lean` (part B) every theorem is about a
model constant of `NumqiModel/RandNorm.lean` that `Driver/C10.lean` executes on the raw draws / LAPACK outputs captured from the
real generator (`nz bip | pdm | sep | sepp | onb | chan | hermsym | qcms | abk`, `harness/c10.py:validity_tie`), at `K = ℂ`.
The outputs of `np.linalg.qr`, of `to_special_orthogonal_exp` (C01) and of the nested generators (`rand_density_matrix`,
`rand_haar_state`: `density_matrix_valid`, `haar_state_unit`) enter as hypotheses — their contracts, not the conclusions.
-/
import NumqiProofs.RandNormAbk
import Mathlib.Tactic

namespace Numqi.C10
open Matrix Numqi.RandNorm Numqi.FinGroup
open scoped ComplexOrder Numqi.RandNorm

/-- `ret[:,None] * ret.conj()` of a unit vector (`rand_bipartite_state(return_dm=True)`): trace one, positive semidefinite, rank at most one -/
theorem pure_dm_valid (n : Nat) (v : Nat → ℂ) (h : normSq n v = 1) :
    (toMat n n (pureDm v)).trace = 1 ∧ (toMat n n (pureDm v)).PosSemidef ∧ (toMat n n (pureDm v)).rank ≤ 1 := by
  refine ⟨by rw [trace_pureDm, h], ?_, ?_⟩
  · rw [toMat_pureDm]; exact Matrix.posSemidef_vecMulVec_self_star _
  · rw [toMat_pureDm]; exact Matrix.rank_vecMulVec_le _ _

/-- **`rand_bipartite_state(dimA, dimB, k)`**: with the `qr` contract for the two factors (orthonormal columns: `Q0ᴴQ0 = 1`, `Q1ᴴQ1 = 1` on the
`k` leading columns) and a non-zero coefficient draw, the returned vector has norm one and Schmidt rank at most `k` (rank of its `dA × dB`
coefficient matrix) -/
theorem bipartite_state_valid (dA dB k : Nat) (Q0 Q1 : Nat → Nat → ℂ) (c : Nat → ℂ)
    (h0 : (toMat dA k Q0)ᴴ * toMat dA k Q0 = 1) (h1 : (toMat dB k Q1)ᴴ * toMat dB k Q1 = 1) (hc : normSq k c ≠ 0) :
    normSq (dA * dB) (bipartiteOut dB k Q0 Q1 c) = 1 ∧
      (Matrix.of fun (a : Fin dA) (b : Fin dB) => bipartiteOut dB k Q0 Q1 c (a.val * dB + b.val)).rank ≤ k := by
  refine ⟨normSq_bipartite dA dB k Q0 Q1 c h0 h1 hc, ?_⟩
  rw [bipartite_factor, Matrix.mul_assoc]
  refine (Matrix.rank_mul_le_left _ _).trans ?_
  simpa using Matrix.rank_le_card_width (toMat dA k Q0)

/-- … and with `return_dm=True` a density matrix of rank at most one -/
theorem bipartite_dm_valid (dA dB k : Nat) (Q0 Q1 : Nat → Nat → ℂ) (c : Nat → ℂ)
    (h0 : (toMat dA k Q0)ᴴ * toMat dA k Q0 = 1) (h1 : (toMat dB k Q1)ᴴ * toMat dB k Q1 = 1) (hc : normSq k c ≠ 0) :
    (toMat (dA * dB) (dA * dB) (pureDm (bipartiteOut dB k Q0 Q1 c))).trace = 1 ∧
      (toMat (dA * dB) (dA * dB) (pureDm (bipartiteOut dB k Q0 Q1 c))).PosSemidef :=
  let h := pure_dm_valid _ _ (bipartite_state_valid dA dB k Q0 Q1 c h0 h1 hc).1
  ⟨h.1, h.2.1⟩

/-- **`rand_separable_dm`**: for non-negative weights (not all zero) and density matrices `A_i`, `B_i` the returned matrix has trace one, is
positive semidefinite, and so is its partial transpose on the second factor (PPT) -/
theorem separable_dm_valid (k dA dB : Nat) (hdB : 0 < dB) (p : Nat → ℝ) (A B : Nat → Nat → Nat → ℂ) (hp : ∀ i, i < k → 0 ≤ p i)
    (hs : ∑ j : Fin k, p j.val ≠ 0)
    (hA : ∀ i, i < k → (toMat dA dA (A i)).trace = 1 ∧ (toMat dA dA (A i)).PosSemidef)
    (hB : ∀ i, i < k → (toMat dB dB (B i)).trace = 1 ∧ (toMat dB dB (B i)).PosSemidef) :
    (toMat (dA * dB) (dA * dB) (sepMix k dB (fun i => (p i : ℂ)) A B)).trace = 1 ∧
      (toMat (dA * dB) (dA * dB) (sepMix k dB (fun i => (p i : ℂ)) A B)).PosSemidef ∧
      (toMat (dA * dB) (dA * dB) fun x y =>
        sepMix k dB (fun i => (p i : ℂ)) A B (x / dB * dB + y % dB) (y / dB * dB + x % dB)).PosSemidef := by
  refine ⟨sepMix_trace k dA dB p A B hs (fun i hi => (hA i hi).1) (fun i hi => (hB i hi).1),
    sepMix_posSemidef k dA dB p A B hp (fun i hi => (hA i hi).2) (fun i hi => (hB i hi).2), ?_⟩
  have : (fun x y => sepMix k dB (fun i => (p i : ℂ)) A B (x / dB * dB + y % dB) (y / dB * dB + x % dB))
      = sepMix k dB (fun i => (p i : ℂ)) A (fun i a b => B i b a) := by
    funext x y; exact sepMix_partialTranspose k dB hdB _ A B x y
  rw [this]
  refine sepMix_posSemidef k dA dB p A _ hp (fun i hi => (hA i hi).2) fun i hi => ?_
  have : toMat dB dB (fun a b => B i b a) = (toMat dB dB (B i))ᵀ := by ext a b; simp [toMat]
  rw [this]; exact (hB i hi).2.transpose

/-- `pure_term=True`: the same matrix with `A_i = |u_i⟩⟨u_i|`, `B_i = |v_i⟩⟨v_i|` (unit vectors from `rand_haar_state`) -/
theorem separable_dm_pure_valid (k dA dB : Nat) (hdB : 0 < dB) (p : Nat → ℝ) (u v : Nat → Nat → ℂ) (hp : ∀ i, i < k → 0 ≤ p i)
    (hs : ∑ j : Fin k, p j.val ≠ 0) (hu : ∀ i, i < k → normSq dA (u i) = 1) (hv : ∀ i, i < k → normSq dB (v i) = 1) :
    sepMixPure k dB (fun i => (p i : ℂ)) u v = sepMix k dB (fun i => (p i : ℂ)) (fun i => pureDm (u i)) (fun i => pureDm (v i)) ∧
      (toMat (dA * dB) (dA * dB) (sepMixPure k dB (fun i => (p i : ℂ)) u v)).trace = 1 ∧
      (toMat (dA * dB) (dA * dB) (sepMixPure k dB (fun i => (p i : ℂ)) u v)).PosSemidef := by
  have e : sepMixPure k dB (fun i => (p i : ℂ)) u v = sepMix k dB (fun i => (p i : ℂ)) (fun i => pureDm (u i)) (fun i => pureDm (v i)) := by
    funext x y; exact sepMixPure_eq k dB _ u v x y
  have h := separable_dm_valid k dA dB hdB p (fun i => pureDm (u i)) (fun i => pureDm (v i)) hp hs
    (fun i hi => ⟨(pure_dm_valid dA (u i) (hu i hi)).1, (pure_dm_valid dA (u i) (hu i hi)).2.1⟩)
    (fun i hi => ⟨(pure_dm_valid dB (v i) (hv i hi)).1, (pure_dm_valid dB (v i) (hv i hi)).2.1⟩)
  rw [e]; exact ⟨rfl, h.1, h.2.1⟩

/-- **`rand_orthonormal_matrix_basis`**: with the contract of `to_special_orthogonal_exp` (every `U q o` unitary; C01 `soExp`), the `o`-th
block of the result (`num_qudit ≥ 1` qudits of dimension `d`) consists of `d^nq` Hermitian, mutually orthogonal idempotents of trace one
(rank-one projectors) that sum to the identity: the projectors of an orthonormal product basis -/
theorem orthonormal_basis_valid (d nq : Nat) (hnq : 1 ≤ nq) (U : Nat → Nat → Nat → Nat → ℂ)
    (hU : ∀ q o, toMat d d (U q o) * (toMat d d (U q o))ᴴ = 1 ∧ (toMat d d (U q o))ᴴ * toMat d d (U q o) = 1) (o : Nat) :
    IsRes (d ^ nq) (onbOut d nq U o) := by
  have h := isRes_foldl d ((List.range (nq - 1)).map fun q => onbBasis (U (q + 1)) o) d (onbBasis (U 0) o)
    (isRes_onbBasis d (U 0) (hU 0) o) (by
      intro Q hQ
      simp only [List.mem_map] at hQ
      obtain ⟨q, _, rfl⟩ := hQ
      exact isRes_onbBasis d (U (q + 1)) (hU (q + 1)) o)
  have e : d * d ^ ((List.range (nq - 1)).map fun q => onbBasis (U (q + 1)) o).length = d ^ nq := by
    rw [List.length_map, List.length_range, ← pow_succ']
    congr 1; omega
  rw [e] at h
  exact h

/-- the returned stack is these blocks one after the other, after the identity if `with_I` -/
theorem orthonormal_basis_stack (d nq : Nat) (U : Nat → Nat → Nat → Nat → ℂ) (t c j : Nat) :
    onbFlat d nq false U t c j = onbOut d nq U (t / d ^ nq) (t % d ^ nq) c j ∧
      onbFlat d nq true U 0 c j = (if c = j then 1 else 0) ∧
      onbFlat d nq true U (t + 1) c j = onbFlat d nq false U t c j := by
  simp [onbFlat]

/-- **`rand_channel_matrix_space`** (and `rand_hermitian_matrix(eig=None)`, which is `hermSym`): the first matrix is the identity, all are Hermitian -/
theorem channel_matrix_space_valid (Z : Nat → Nat → Nat → ℂ) (t i j : Nat) :
    chanSpace Z 0 i j = (if i = j then 1 else 0) ∧ conj (chanSpace Z t i j) = chanSpace Z t j i := by
  refine ⟨by simp [chanSpace], ?_⟩
  unfold chanSpace
  split
  · by_cases h : i = j <;> simp [h, conj_eq_star, eq_comm]
  · exact hermSym_conj _ i j

/-- **`rand_quantum_channel_matrix_subspace`**: for real rows `t` of the captured special orthogonal matrix and the real scalars of
`gellmann.py`, the matrices of the symmetric block are real symmetric, those of the antisymmetric block real antisymmetric, and in the complex
case Hermitian -/
theorem channel_matrix_subspace_valid (S : Gellmann.Scalars ℂ) (hS : RealScalars S) (d : Nat) (t : Nat → ℂ) (ht : ∀ p, star (t p) = t p)
    (r c : Fin d) :
    (qcmsSym S d t r c = qcmsSym S d t c r ∧ star (qcmsSym S d t r c) = qcmsSym S d t r c) ∧
      (qcmsAnti S d t r c = - qcmsAnti S d t c r ∧ star (qcmsAnti S d t r c) = qcmsAnti S d t r c) ∧
      star (qcmsHerm S d t r c) = qcmsHerm S d t c r := by
  obtain ⟨h1, h2, h3⟩ := qcmsCoeff_real d t ht
  exact ⟨synthesis_real_sym S hS d _ h1 r c, synthesis_imag_antisym S hS d _ h2 r c, synthesis_hermitian S hS d _ h3 r c⟩

/-- **`rand_ABk_density_matrix`**: for a raw draw `G` with `tr(G Gᴴ) ≠ 0` the result has trace one, is positive semidefinite, and is invariant
under every simultaneous permutation `σ` of the `k` copies of `B` in the row and the column index (a permutation-symmetric extension) -/
theorem abk_density_matrix_valid (dA dB k : Nat) (hdB : 0 < dB) (G : Nat → Nat → ℂ)
    (htr : traceN (dA * dB ^ k) (gram (dA * dB ^ k) G) ≠ 0) :
    (toMat (dA * dB ^ k) (dA * dB ^ k) (abkSym dA dB k G)).trace = 1 ∧
      (toMat (dA * dB ^ k) (dA * dB ^ k) (abkSym dA dB k G)).PosSemidef ∧
      ∀ σ ∈ perms k, ∀ x y, abkSym dA dB k G (permIdx dB k σ x) (permIdx dB k σ y) = abkSym dA dB k G x y :=
  ⟨abkSym_trace dA dB k hdB G htr, abkSym_posSemidef dA dB k hdB G, fun _ hσ x y => abkSym_invariant dA dB k hdB G hσ x y⟩

/-- what `permIdx` does: it keeps the `A` index and moves the digit (copy) at position `m` to position `σ[m]` -/
theorem permIdx_spec (dB k : Nat) (hdB : 0 < dB) {σ : List Nat} (hσ : σ ∈ perms k) (x : Nat) :
    permIdx dB k σ x / dB ^ k = x / dB ^ k ∧
      digits dB k (permIdx dB k σ x % dB ^ k) = scatter σ (digits dB k (x % dB ^ k)) := by
  obtain ⟨h1, h2⟩ := permIdx_parts dB k hdB (mem_perms.1 hσ) x
  refine ⟨h1, ?_⟩
  rw [h2]
  have := digits_undigits dB (scatter σ (digits dB k (x % dB ^ k))) (scatter_lt dB hdB _ _ (digits_lt dB k _ hdB))
  rwa [length_scatter, perm_length (mem_perms.1 hσ)] at this

/-- `rand_density_matrix(dim, k)`: the rank is at most `k` (the raw draw is `dim × k`) -/
theorem density_matrix_rank_le (n k : Nat) (G : Nat → Nat → ℂ) : (toMat n n (densityMatrix n k G)).rank ≤ k :=
  densityMatrix_rank_le n k G

/-- `rand_choi_op`: the returned operator is `(1 ⊗ T)ᴴ (G Gᴴ) (1 ⊗ T)`, hence positive semidefinite (in particular Hermitian) for every `T`, `G`
(`choi_valid` in `C10.lean` is the trace-preserving half) -/
theorem choi_posSemidef (din dout r : Nat) (G T : Nat → Nat → ℂ) :
    (toMat (din * dout) (din * dout) (choiOut din dout r G T)).PosSemidef := choiOut_posSemidef din dout r G T

/-- `rand_hermitian_matrix(eig=(a,b))`: with `V` unitary (C01) and the uniform draws `a ≤ λ_i ≤ b`, `a·1 ≤ V diag(λ) Vᴴ ≤ b·1`: the spectrum lies in `[a, b]` -/
theorem hermitian_eig_range (n : Nat) (V : Nat → Nat → ℂ) (lam : Nat → ℝ) (a b : ℝ) (hV : toMat n n V * (toMat n n V)ᴴ = 1)
    (hl : ∀ i, i < n → a ≤ lam i ∧ lam i ≤ b) :
    (toMat n n (hermEig n V fun i => (lam i : ℂ)) - (a : ℂ) • (1 : Matrix (Fin n) (Fin n) ℂ)).PosSemidef ∧
      ((b : ℂ) • (1 : Matrix (Fin n) (Fin n) ℂ) - toMat n n (hermEig n V fun i => (lam i : ℂ))).PosSemidef :=
  hermEig_range n V lam a b hV hl

/-! non-vacuity of the hypotheses: the computational basis is a resolution; the identity is unitary -/
example : IsRes 3 (compBasis (K := ℂ)) := isRes_compBasis 3
example : scatter [1, 2, 0] [7, 8, 9] = [9, 7, 8] := by decide
example : permIdx 2 2 [1, 0] 1 = 2 ∧ permIdx 2 2 [1, 0] 6 = 5 := by decide

end Numqi.C10
