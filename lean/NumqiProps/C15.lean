/-
C15 — SU(2)/SO(3) conversions are consistent for every rotation, gimbal lock included.

Property theorems only (helper lemmas: `NumqiProofs/Lie.lean`, `NumqiProofs/LieReal.lean`,
`NumqiProofs/LieAngMom.lean`).  Part A is stated for every commutative ring `R` (real quantities in
`R`, complex ones in the pair type `Cx R`; for `R = ℝ` this is `ℂ`), Part B over `ℝ` with the real
`cos / sin / arccos / arg`, Part C for every `j2`.
-/
import NumqiProofs.Lie
import NumqiProofs.LieReal
import NumqiProofs.LieAngMom
import NumqiProofs.LieIrrep
import NumqiProofs.LieIrrepReal

set_option linter.unusedSectionVars false

namespace Numqi.C15
open Numqi.Lie Matrix

variable {R : Type} [CommRing R]

/-! ## Part A — polynomial identities (any commutative ring) -/

/-- **`angle_to_so3` is `Rz(α) Ry(β) Rz(γ)`** (no hypothesis on the six numbers). -/
theorem angleToSO3_eq_rot (ca sa cb sb cg sg : R) :
    M3 (angleToSO3cs ca sa cb sb cg sg) = M3 (rotZ ca sa) * M3 (rotY cb sb) * M3 (rotZ cg sg) := by
  apply mat3_ext <;> simp only [mul3_apply, angleToSO3cs, rotZ, rotY, mk3_00, mk3_01, mk3_02, mk3_10, mk3_11, mk3_12,
    mk3_20, mk3_21, mk3_22] <;> ring

theorem rotZ_orthogonal {c s : R} (h : c * c + s * s = 1) : M3 (rotZ c s) * (M3 (rotZ c s))ᵀ = 1 := by
  apply mat3_ext <;> simp [mul3_apply, rotZ] <;> first | ring1 | linear_combination h

theorem rotY_orthogonal {c s : R} (h : c * c + s * s = 1) : M3 (rotY c s) * (M3 (rotY c s))ᵀ = 1 := by
  apply mat3_ext <;> simp [mul3_apply, rotY] <;> first | ring1 | linear_combination h

theorem rotZ_det {c s : R} (h : c * c + s * s = 1) : (M3 (rotZ c s)).det = 1 := by
  rw [Matrix.det_fin_three]; simp [rotZ]; linear_combination h

theorem rotY_det {c s : R} (h : c * c + s * s = 1) : (M3 (rotY c s)).det = 1 := by
  rw [Matrix.det_fin_three]; simp [rotY]; linear_combination h

/-- **`angle_to_so3` is orthogonal** whenever the three pairs lie on the unit circle. -/
theorem angleToSO3_orthogonal {ca sa cb sb cg sg : R}
    (ha : ca * ca + sa * sa = 1) (hb : cb * cb + sb * sb = 1) (hg : cg * cg + sg * sg = 1) :
    M3 (angleToSO3cs ca sa cb sb cg sg) * (M3 (angleToSO3cs ca sa cb sb cg sg))ᵀ = 1 := by
  rw [angleToSO3_eq_rot, Matrix.transpose_mul, Matrix.transpose_mul]
  calc M3 (rotZ ca sa) * M3 (rotY cb sb) * M3 (rotZ cg sg) * ((M3 (rotZ cg sg))ᵀ * ((M3 (rotY cb sb))ᵀ * (M3 (rotZ ca sa))ᵀ))
      = M3 (rotZ ca sa) * (M3 (rotY cb sb) * (M3 (rotZ cg sg) * (M3 (rotZ cg sg))ᵀ) * (M3 (rotY cb sb))ᵀ) * (M3 (rotZ ca sa))ᵀ := by
        simp only [Matrix.mul_assoc]
    _ = 1 := by rw [rotZ_orthogonal hg, Matrix.mul_one, rotY_orthogonal hb, Matrix.mul_one, rotZ_orthogonal ha]

/-- **`angle_to_so3` has determinant one.** -/
theorem angleToSO3_det {ca sa cb sb cg sg : R}
    (ha : ca * ca + sa * sa = 1) (hb : cb * cb + sb * sb = 1) (hg : cg * cg + sg * sg = 1) :
    (M3 (angleToSO3cs ca sa cb sb cg sg)).det = 1 := by
  rw [angleToSO3_eq_rot, Matrix.det_mul, Matrix.det_mul, rotZ_det ha, rotY_det hb, rotZ_det hg]; ring

/-! ### SU(2) -/

/-- the matrix `[[a, b], [-b̄, ā]]` (every element of SU(2) has this form; `su2_to_so3` / `su2_to_angle` read
`a = U[0,0]`, `b = U[0,1]` and assert the other two entries) -/
def su2Mat (a b : Cx R) : Matrix (Fin 2) (Fin 2) (Cx R) := M2 (mk2 a b (-b.conj) a.conj)

/-- conjugate transpose over `Cx R` -/
def conjT (U : Matrix (Fin 2) (Fin 2) (Cx R)) : Matrix (Fin 2) (Fin 2) (Cx R) := fun i j => (U j i).conj

/-- squared norm `|a|² + |b|²` of the quaternion `(a, b)` -/
def nrm2 (a b : Cx R) : R := a.re * a.re + a.im * a.im + (b.re * b.re + b.im * b.im)

theorem angleToSU2_eq_su2Mat (cb sb : R) (p m : Cx R) :
    M2 (angleToSU2cs cb sb p m) = su2Mat (Cx.smul cb p.conj) (-(Cx.smul sb m.conj)) := by
  apply mat2_ext <;> simp [angleToSU2cs, su2Mat] <;> ext <;> simp

/-- matrices of the form `[[a, b], [-b̄, ā]]` are closed under multiplication, with the model's `su2MulA/B`. -/
theorem su2Mat_mul (a b a' b' : Cx R) :
    su2Mat a b * su2Mat a' b' = su2Mat (su2MulA a b a' b') (su2MulB a b a' b') := by
  apply mat2_ext <;> simp [su2Mat, mul2_apply, su2MulA, su2MulB] <;> ext <;> simp <;> ring

theorem su2Mat_mul_conjT (a b : Cx R) :
    su2Mat a b * conjT (su2Mat a b) = Cx.ofReal (nrm2 a b) • (1 : Matrix (Fin 2) (Fin 2) (Cx R)) := by
  apply mat2_ext <;> simp [su2Mat, mul2_apply, conjT, nrm2] <;> ext <;> simp <;> ring

theorem su2Mat_det (a b : Cx R) : (su2Mat a b).det = Cx.ofReal (nrm2 a b) := by
  rw [Matrix.det_fin_two]; simp [su2Mat, nrm2]; ext <;> simp <;> ring

/-- **`angle_to_su2` lands in SU(2)**: unitary … -/
theorem angleToSU2_unitary {cb sb : R} {p m : Cx R} (hb : cb * cb + sb * sb = 1)
    (hp : p.re * p.re + p.im * p.im = 1) (hm : m.re * m.re + m.im * m.im = 1) :
    M2 (angleToSU2cs cb sb p m) * conjT (M2 (angleToSU2cs cb sb p m)) = 1 := by
  rw [angleToSU2_eq_su2Mat, su2Mat_mul_conjT]
  have : nrm2 (Cx.smul cb p.conj) (-(Cx.smul sb m.conj)) = 1 := by
    simp [nrm2]; linear_combination (cb * cb) * hp + (sb * sb) * hm + hb
  rw [this]; exact one_smul _ _

/-- … with determinant one. -/
theorem angleToSU2_det {cb sb : R} {p m : Cx R} (hb : cb * cb + sb * sb = 1)
    (hp : p.re * p.re + p.im * p.im = 1) (hm : m.re * m.re + m.im * m.im = 1) :
    (M2 (angleToSU2cs cb sb p m)).det = 1 := by
  rw [angleToSU2_eq_su2Mat, su2Mat_det]
  have : nrm2 (Cx.smul cb p.conj) (-(Cx.smul sb m.conj)) = 1 := by
    simp [nrm2]; linear_combination (cb * cb) * hp + (sb * sb) * hm + hb
  rw [this]; rfl

/-- the entries of `angle_to_su2` form a unit quaternion -/
theorem angleToSU2cs_nrm2 {cb sb : R} {p m : Cx R} (hb : cb * cb + sb * sb = 1)
    (hp : p.re * p.re + p.im * p.im = 1) (hm : m.re * m.re + m.im * m.im = 1) :
    nrm2 (angleToSU2cs cb sb p m 0 0) (angleToSU2cs cb sb p m 0 1) = 1 := by
  simp [nrm2, angleToSU2cs]; linear_combination (cb * cb) * hp + (sb * sb) * hm + hb

/-- value of the 4π-branch test of `su2_to_angle` on `U = angle_to_su2 α β γ` itself: `cos(β/2) + sin(β/2)` -/
theorem branch_test_value {cb sb : R} {p m : Cx R}
    (hp : p.re * p.re + p.im * p.im = 1) (hm : m.re * m.re + m.im * m.im = 1) :
    (p * angleToSU2cs cb sb p m 0 0 - m * angleToSU2cs cb sb p m 0 1).re = cb + sb := by
  simp [angleToSU2cs]; linear_combination cb * hp + sb * hm

/-! ### SU(2) → SO(3) -/

/-- the nine complex polynomials of `su2_to_so3` are real: `.real` discards nothing. -/
theorem su2ToSO3cx_im (half : R) (a b : Cx R) (i j : Fin 3) : (su2ToSO3cx half a b i j).im = 0 := by
  fin_cases i <;> fin_cases j <;> simp [su2ToSO3cx] <;> ring

/-- `su2_to_so3` in terms of the four real coordinates `a = w + i x`, `b = y + i z`. -/
theorem su2ToSO3_eq {half : R} (h2 : 2 * half = 1) (a b : Cx R) :
    M3 (su2ToSO3 half a b) = M3 (mk3
      (a.re*a.re - a.im*a.im - b.re*b.re + b.im*b.im) (2*(a.re*a.im + b.re*b.im)) (-(2*(a.re*b.re - a.im*b.im)))
      (-(2*(a.re*a.im - b.re*b.im))) (a.re*a.re - a.im*a.im + b.re*b.re - b.im*b.im) (2*(a.re*b.im + a.im*b.re))
      (2*(a.re*b.re + a.im*b.im)) (-(2*(a.re*b.im - a.im*b.re))) (a.re*a.re + a.im*a.im - b.re*b.re - b.im*b.im)) := by
  apply mat3_ext <;> simp [su2ToSO3, su2ToSO3cx]
  · linear_combination (a.re*a.re - a.im*a.im - b.re*b.re + b.im*b.im) * h2
  · linear_combination (2*(a.re*a.im + b.re*b.im)) * h2
  · ring
  · linear_combination (2*(a.re*a.im - b.re*b.im)) * h2
  · linear_combination (a.re*a.re - a.im*a.im + b.re*b.re - b.im*b.im) * h2
  · ring
  · ring
  · ring
  · ring

/-- **`su2_to_so3` is multiplicative** — for all pairs `(a, b)`, normalised or not. -/
theorem su2ToSO3_mul {half : R} (h2 : 2 * half = 1) (a b a' b' : Cx R) :
    M3 (su2ToSO3 half (su2MulA a b a' b') (su2MulB a b a' b')) = M3 (su2ToSO3 half a b) * M3 (su2ToSO3 half a' b') := by
  rw [su2ToSO3_eq h2, su2ToSO3_eq h2, su2ToSO3_eq h2]
  apply mat3_ext <;> simp [mul3_apply, su2MulA, su2MulB] <;> ring

/-- **two-to-one**: `su2_to_so3(-U) = su2_to_so3(U)`. -/
theorem su2ToSO3_neg (half : R) (a b : Cx R) : su2ToSO3 half (-a) (-b) = su2ToSO3 half a b := by
  funext i j; fin_cases i <;> fin_cases j <;> simp [su2ToSO3, su2ToSO3cx] <;> ring

/-- `su2_to_so3(U) su2_to_so3(U)ᵀ = (|a|²+|b|²)² · 1`; hence orthogonal on SU(2). -/
theorem su2ToSO3_mul_transpose {half : R} (h2 : 2 * half = 1) (a b : Cx R) :
    M3 (su2ToSO3 half a b) * (M3 (su2ToSO3 half a b))ᵀ = (nrm2 a b * nrm2 a b) • (1 : Matrix (Fin 3) (Fin 3) R) := by
  rw [su2ToSO3_eq h2]
  apply mat3_ext <;> simp [mul3_apply, nrm2] <;> ring

theorem su2ToSO3_orthogonal {half : R} (h2 : 2 * half = 1) {a b : Cx R} (hu : nrm2 a b = 1) :
    M3 (su2ToSO3 half a b) * (M3 (su2ToSO3 half a b))ᵀ = 1 := by
  rw [su2ToSO3_mul_transpose h2, hu]; simp

/-- `det su2_to_so3(U) = (|a|²+|b|²)³`; hence `su2_to_so3` maps SU(2) into SO(3). -/
theorem su2ToSO3_det {half : R} (h2 : 2 * half = 1) (a b : Cx R) :
    (M3 (su2ToSO3 half a b)).det = nrm2 a b * nrm2 a b * nrm2 a b := by
  rw [su2ToSO3_eq h2, Matrix.det_fin_three]; simp [nrm2]; ring

/-- **covering of the Euler parametrisations**: `su2_to_so3 (angle_to_su2 α β γ) = angle_to_so3 α β γ`,
in terms of the half-angle data `cb = cos(β/2)`, `sb = sin(β/2)`, `p = e^{i(α+γ)/2}`, `m = e^{i(α-γ)/2}`:
`cos α + i sin α = p·m`, `cos γ + i sin γ = p·m̄`, `cos β = cb² - sb²`, `sin β = 2 sb cb`. -/
theorem su2ToSO3_angleToSU2 {half : R} (h2 : 2 * half = 1) {cb sb : R} {p m : Cx R}
    (hb : cb * cb + sb * sb = 1) (hp : p.re * p.re + p.im * p.im = 1) (hm : m.re * m.re + m.im * m.im = 1) :
    su2ToSO3 half (angleToSU2cs cb sb p m 0 0) (angleToSU2cs cb sb p m 0 1)
      = angleToSO3cs (p * m).re (p * m).im (cb * cb - sb * sb) (2 * sb * cb) (p * m.conj).re (p * m.conj).im := by
  have h := su2ToSO3_eq h2 (angleToSU2cs cb sb p m 0 0) (angleToSU2cs cb sb p m 0 1)
  refine Eq.trans h ?_
  apply mat3_ext <;> simp [angleToSU2cs, angleToSO3cs]
  · linear_combination (m.im^2*p.im^2 - m.re^2*p.re^2 - p.im^2 + p.re^2) * hb + (-m.im^2 + 2*m.re^2*sb^2 - m.re^2 - sb^2 + 1) * hp + (-2*p.im^2*sb^2 + 2*p.im^2 + sb^2 - 1) * hm
  · linear_combination (m.im^2*p.im*p.re - m.im*m.re*p.im^2 - m.im*m.re*p.re^2 + m.re^2*p.im*p.re - 2*p.im*p.re) * hb + (2*m.im*m.re*sb^2) * hp + (-2*p.im*p.re*sb^2 + 2*p.im*p.re) * hm
  · ring
  · linear_combination (-m.im^2*p.im*p.re - m.im*m.re*p.im^2 - m.im*m.re*p.re^2 - m.re^2*p.im*p.re + 2*p.im*p.re) * hb + (2*m.im*m.re*sb^2) * hp + (2*p.im*p.re*sb^2 - 2*p.im*p.re) * hm
  · linear_combination (-m.im^2*p.re^2 + m.re^2*p.im^2 - p.im^2 + p.re^2) * hb + (2*m.im^2*sb^2 - m.im^2 - m.re^2 - sb^2 + 1) * hp + (-2*p.im^2*sb^2 + 2*p.im^2 + sb^2 - 1) * hm
  · ring
  · ring
  · ring
  · linear_combination (p.im^2 + p.re^2 - 1) * hb + (1 - sb^2) * hp + (-sb^2) * hm

/-! ## Part B — over the reals, with `cos / sin / arccos / arg` (instance `instTrigReal`) -/

section real
open Real

/-- **`angle_to_so3 α β γ ∈ SO(3)` for all real angles.** -/
theorem angleToSO3_mem_SO3 (a b g : ℝ) :
    M3 (angleToSO3 a b g) * (M3 (angleToSO3 a b g))ᵀ = 1 ∧ (M3 (angleToSO3 a b g)).det = 1 := by
  have h := cos_mul_self_add
  exact ⟨angleToSO3_orthogonal (h a) (h b) (h g), angleToSO3_det (h a) (h b) (h g)⟩

/-- **`angle_to_su2 α β γ ∈ SU(2)` for all real angles.** -/
theorem angleToSU2_mem_SU2 (a b g : ℝ) :
    M2 (angleToSU2 (1/2) a b g) * conjT (M2 (angleToSU2 (1/2) a b g)) = 1 ∧ (M2 (angleToSU2 (1/2) a b g)).det = 1 := by
  have h := cos_mul_self_add
  exact ⟨angleToSU2_unitary (h _) (h _) (h _), angleToSU2_det (h _) (h _) (h _)⟩

/-- **`su2_to_so3 (angle_to_su2 α β γ) = angle_to_so3 α β γ` for all real angles.** -/
theorem su2ToSO3_angleToSU2_real (a b g : ℝ) :
    su2ToSO3 (1/2) (angleToSU2 (1/2) a b g 0 0) (angleToSU2 (1/2) a b g 0 1) = angleToSO3 a b g := by
  have h := cos_mul_self_add
  refine (su2ToSO3_angleToSU2 (half := (1/2 : ℝ)) (cb := Real.cos (1/2 * b)) (sb := Real.sin (1/2 * b))
    (p := ⟨Real.cos (1/2 * (a + g)), Real.sin (1/2 * (a + g))⟩) (m := ⟨Real.cos (1/2 * (a - g)), Real.sin (1/2 * (a - g))⟩)
    (by norm_num) (h _) (h _) (h _)).trans ?_
  unfold angleToSO3
  have ea : (1/2 : ℝ) * (a + g) + 1/2 * (a - g) = a := by ring
  have eg : (1/2 : ℝ) * (a + g) - 1/2 * (a - g) = g := by ring
  have eb : b = 2 * (1/2 * b) := by ring
  congr 1
  · show Real.cos _ * Real.cos _ - Real.sin _ * Real.sin _ = Real.cos a
    rw [← Real.cos_add, ea]
  · show Real.cos _ * Real.sin _ + Real.sin _ * Real.cos _ = Real.sin a
    rw [← ea, Real.sin_add]; ring_nf
  · show Real.cos _ * Real.cos _ - Real.sin _ * Real.sin _ = Real.cos b
    conv_rhs => rw [eb, Real.cos_two_mul]
    have := h (1/2 * b); nlinarith [this]
  · show 2 * Real.sin _ * Real.cos _ = Real.sin b
    conv_rhs => rw [eb, Real.sin_two_mul]
  · show Real.cos _ * Real.cos _ - Real.sin _ * (-Real.sin _) = Real.cos g
    rw [← eg, Real.cos_sub]; ring_nf
  · show Real.cos _ * (-Real.sin _) + Real.sin _ * Real.cos _ = Real.sin g
    rw [← eg, Real.sin_sub]; ring_nf

/-- the rotation rebuilt from the extracted angles -/
noncomputable def rebuild (M : Matrix (Fin 3) (Fin 3) ℝ) (eps : ℝ) : Matrix (Fin 3) (Fin 3) ℝ :=
  M3 (angleToSO3 (so3ToAngle (1/2) M eps).1 (so3ToAngle (1/2) M eps).2.1 (so3ToAngle (1/2) M eps).2.2)

private theorem rebuild_unfold (M : Matrix (Fin 3) (Fin 3) ℝ) (hO : M * Mᵀ = 1) (eps : ℝ) (br : Branch)
    (hbr : branchOf (Real.arccos (M 2 2)) eps = br) :
    rebuild M eps = match br with
      | .zero => M3 (angleToSO3 (1/2 * Trig.mod2pi (Trig.atan2 (M 1 0) (M 0 0))) (Real.arccos (M 2 2))
                  (1/2 * Trig.mod2pi (Trig.atan2 (M 1 0) (M 0 0))))
      | .pi => M3 (angleToSO3 (Trig.mod2pi (Trig.atan2 (-M 1 0) (-M 0 0))) (Real.arccos (M 2 2)) 0)
      | .generic => M3 (angleToSO3 (Trig.mod2pi (Trig.atan2 (M 1 2) (M 0 2))) (Real.arccos (M 2 2))
                  (Trig.mod2pi (Trig.atan2 (M 2 1) (-M 2 0)))) := by
  obtain ⟨hm1, hp1⟩ := so3_entry_bounds M hO
  have hbeta : (Trig.acos (clip1 (M 2 2)) : ℝ) = Real.arccos (M 2 2) := by rw [clip1_of_mem hm1 hp1]; rfl
  unfold rebuild so3ToAngle so3ToAngleHf0
  rw [hbeta]
  cases br <;> simp only [hbr]

private theorem roundtrip_zero (M : Matrix (Fin 3) (Fin 3) ℝ) (hO : M * Mᵀ = 1) (hd : M.det = 1)
    (eps : ℝ) (h0 : 0 < eps) (hz : Real.arccos (M 2 2) = 0) : rebuild M eps = M := by
  obtain ⟨hr2, hc2, hc0⟩ := so3_norms M hO
  obtain ⟨hm1, hp1⟩ := so3_entry_bounds M hO
  have h22 : M 2 2 = 1 := le_antisymm hp1 (Real.arccos_eq_zero.mp hz)
  have hbr : branchOf (Real.arccos (M 2 2)) eps = Branch.zero := by
    unfold branchOf; rw [if_pos (by rw [hz]; exact h0)]
  rw [rebuild_unfold M hO eps _ hbr]
  obtain ⟨h20, h21⟩ := sq_sum_zero (x := M 2 0) (y := M 2 1) (by rw [h22] at hr2; linarith)
  obtain ⟨h02, h12⟩ := sq_sum_zero (x := M 0 2) (y := M 1 2) (by rw [h22] at hc2; linarith)
  have hn : M 0 0 * M 0 0 + M 1 0 * M 1 0 = 1 * 1 := by rw [h20] at hc0; linarith
  set t : ℝ := Trig.mod2pi (Trig.atan2 (M 1 0) (M 0 0)) with ht
  have hct : Real.cos t = M 0 0 := by rw [ht, cos_mod2pi, cos_atan2 one_pos hn, div_one]
  have hst : Real.sin t = M 1 0 := by rw [ht, sin_mod2pi, sin_atan2 one_pos hn, div_one]
  show M3 (angleToSO3cs (Real.cos (1/2 * t)) (Real.sin (1/2 * t)) (Real.cos (Real.arccos (M 2 2)))
    (Real.sin (Real.arccos (M 2 2))) (Real.cos (1/2 * t)) (Real.sin (1/2 * t))) = M
  rw [hz, Real.cos_zero, Real.sin_zero]
  have e : t = 2 * (1/2 * t) := by ring
  refine roundtrip_zero_alg M hO hd h22 h20 h21 h02 h12 _ _ ?_ ?_
  · rw [← hct]; conv_rhs => rw [e, Real.cos_two_mul]
    have := Real.cos_sq_add_sin_sq (1/2 * t); linear_combination (-1 : ℝ) * this
  · rw [← hst]; conv_rhs => rw [e, Real.sin_two_mul]

private theorem roundtrip_pi (M : Matrix (Fin 3) (Fin 3) ℝ) (hO : M * Mᵀ = 1) (hd : M.det = 1)
    (eps : ℝ) (h0 : 0 < eps) (hpi : eps < Real.pi) (hp : Real.arccos (M 2 2) = Real.pi) : rebuild M eps = M := by
  obtain ⟨hr2, hc2, hc0⟩ := so3_norms M hO
  obtain ⟨hm1, hp1⟩ := so3_entry_bounds M hO
  have h22 : M 2 2 = -1 := le_antisymm (Real.arccos_eq_pi.mp hp) hm1
  have hbr : branchOf (Real.arccos (M 2 2)) eps = Branch.pi := by
    unfold branchOf
    rw [if_neg (by rw [hp]; exact not_lt.mpr hpi.le), if_pos (by rw [hp]; show Real.pi - eps < Real.pi; linarith)]
  rw [rebuild_unfold M hO eps _ hbr]
  obtain ⟨h20, h21⟩ := sq_sum_zero (x := M 2 0) (y := M 2 1) (by rw [h22] at hr2; linarith)
  obtain ⟨h02, h12⟩ := sq_sum_zero (x := M 0 2) (y := M 1 2) (by rw [h22] at hc2; linarith)
  have hn : (-M 0 0) * (-M 0 0) + (-M 1 0) * (-M 1 0) = 1 * 1 := by rw [h20] at hc0; linarith
  set t : ℝ := Trig.mod2pi (Trig.atan2 (-M 1 0) (-M 0 0)) with ht
  have hct : Real.cos t = -M 0 0 := by rw [ht, cos_mod2pi, cos_atan2 one_pos hn, div_one]
  have hst : Real.sin t = -M 1 0 := by rw [ht, sin_mod2pi, sin_atan2 one_pos hn, div_one]
  show M3 (angleToSO3cs (Real.cos t) (Real.sin t) (Real.cos (Real.arccos (M 2 2)))
    (Real.sin (Real.arccos (M 2 2))) (Real.cos 0) (Real.sin 0)) = M
  rw [hp, Real.cos_pi, Real.sin_pi, Real.cos_zero, Real.sin_zero]
  exact roundtrip_pi_alg M hO hd h22 h20 h21 h02 h12 _ _ hct hst

private theorem roundtrip_generic (M : Matrix (Fin 3) (Fin 3) ℝ) (hO : M * Mᵀ = 1) (hd : M.det = 1)
    (eps : ℝ) (h0 : 0 < eps) (hg1 : eps ≤ Real.arccos (M 2 2)) (hg2 : Real.arccos (M 2 2) ≤ Real.pi - eps) :
    rebuild M eps = M := by
  obtain ⟨hr2, hc2, hc0⟩ := so3_norms M hO
  obtain ⟨hm1, hp1⟩ := so3_entry_bounds M hO
  have hbr : branchOf (Real.arccos (M 2 2)) eps = Branch.generic := by
    unfold branchOf
    rw [if_neg (not_lt.mpr hg1), if_neg (by show ¬ (Real.pi - eps < _); exact not_lt.mpr hg2)]
  rw [rebuild_unfold M hO eps _ hbr]
  set β := Real.arccos (M 2 2) with hβ
  have hβ0 : 0 < β := lt_of_lt_of_le h0 hg1
  have hβp : β < Real.pi := by linarith
  have hs : 0 < Real.sin β := Real.sin_pos_of_pos_of_lt_pi hβ0 hβp
  have hcb : Real.cos β = M 2 2 := Real.cos_arccos hm1 hp1
  have hss : Real.sin β * Real.sin β = 1 - M 2 2 * M 2 2 := by
    have := cos_mul_self_add β; rw [hcb] at this; linarith
  have hnA : M 0 2 * M 0 2 + M 1 2 * M 1 2 = Real.sin β * Real.sin β := by rw [hss]; linarith
  have hnG : (-M 2 0) * (-M 2 0) + M 2 1 * M 2 1 = Real.sin β * Real.sin β := by rw [hss]; linarith
  show M3 (angleToSO3cs (Real.cos (Trig.mod2pi (Trig.atan2 (M 1 2) (M 0 2)))) (Real.sin (Trig.mod2pi (Trig.atan2 (M 1 2) (M 0 2))))
    (Real.cos β) (Real.sin β)
    (Real.cos (Trig.mod2pi (Trig.atan2 (M 2 1) (-M 2 0)))) (Real.sin (Trig.mod2pi (Trig.atan2 (M 2 1) (-M 2 0))))) = M
  rw [cos_mod2pi, sin_mod2pi, cos_mod2pi, sin_mod2pi, cos_atan2 hs hnA, sin_atan2 hs hnA, cos_atan2 hs hnG, sin_atan2 hs hnG, hcb]
  simp only [div_eq_mul_inv]
  exact roundtrip_generic_alg M hO hd (Real.sin β) (Real.sin β)⁻¹ (mul_inv_cancel₀ hs.ne') hss

/-- **SO(3) round trip, with the branch structure of `_so3_to_angle_hf0`**: for every `M ∈ SO(3)` and every threshold
`0 < zero_eps < π`, `angle_to_so3 (so3_to_angle M) = M` exactly, when `β = arccos M₂₂` is exactly `0`, exactly `π`
(the two gimbal-lock branches), or in the generic range `[zero_eps, π - zero_eps]`.
(For `0 < β < zero_eps` and `π - zero_eps < β < π` the implementation takes the gimbal-lock branch on a matrix that
is not exactly degenerate; there the result is only `O(zero_eps)`-accurate — see `So3RoundtripThreshold.Statement`.) -/
theorem so3_roundtrip (M : Matrix (Fin 3) (Fin 3) ℝ) (hO : M * Mᵀ = 1) (hd : M.det = 1)
    (eps : ℝ) (h0 : 0 < eps) (hpi : eps < Real.pi)
    (hthr : Real.arccos (M 2 2) = 0 ∨ Real.arccos (M 2 2) = Real.pi ∨
      (eps ≤ Real.arccos (M 2 2) ∧ Real.arccos (M 2 2) ≤ Real.pi - eps)) :
    rebuild M eps = M := by
  rcases hthr with hz | hp | ⟨hg1, hg2⟩
  · exact roundtrip_zero M hO hd eps h0 hz
  · exact roundtrip_pi M hO hd eps h0 hpi hp
  · exact roundtrip_generic M hO hd eps h0 hg1 hg2

/-- **Named gap (tolerance region)**: for `0 < β < zero_eps` or `π - zero_eps < β < π` the gimbal-lock branch is taken
although the matrix is not exactly degenerate; the rebuilt rotation then deviates by `O(zero_eps)`.  Full statement
(not proved; probed with tolerance `1e-6` at `zero_eps = 1e-7`): -/
def So3RoundtripThreshold.Statement : Prop :=
  ∀ (M : Matrix (Fin 3) (Fin 3) ℝ), M * Mᵀ = 1 → M.det = 1 → ∀ eps : ℝ, 0 < eps → eps < 1 →
    ∀ i j, |rebuild M eps i j - M i j| ≤ 3 * eps

/-- proved fragment of `So3RoundtripThreshold.Statement`: in every branch (threshold region included) the polar
entry is reproduced exactly, `cos β = M₂₂`. -/
theorem so3_roundtrip_threshold_partial (M : Matrix (Fin 3) (Fin 3) ℝ) (hO : M * Mᵀ = 1) (eps : ℝ) :
    rebuild M eps 2 2 = M 2 2 := by
  obtain ⟨hm1, hp1⟩ := so3_entry_bounds M hO
  cases h : branchOf (Real.arccos (M 2 2)) eps <;> rw [rebuild_unfold M hO eps _ h] <;>
    exact Real.cos_arccos hm1 hp1

/-- the SU(2) matrix rebuilt from the angles extracted by `su2_to_angle` -/
noncomputable def su2Rebuild (a b : Cx ℝ) (eps : ℝ) : Fin 2 → Fin 2 → Cx ℝ :=
  angleToSU2 (1/2) (su2ToAngle (1/2) a b eps).1 (su2ToAngle (1/2) a b eps).2.1 (su2ToAngle (1/2) a b eps).2.2

/-- **SU(2) round trip, full statement** (`angle_to_su2 (su2_to_angle U) = U`, sign included, outside the tolerance
region).  Not proved: it needs that the kernel of `su2_to_so3` on SU(2) is `{±1}` and the analysis of the 4π-branch
test; probed on the implementation. -/
def Su2Roundtrip.Statement : Prop :=
  ∀ (a b : Cx ℝ), nrm2 a b = 1 → ∀ eps : ℝ, 0 < eps → eps < Real.pi →
    (let β := Real.arccos (su2ToSO3 (1/2) a b 2 2); β = 0 ∨ β = Real.pi ∨ (eps ≤ β ∧ β ≤ Real.pi - eps)) →
    M2 (su2Rebuild a b eps) = su2Mat a b

private theorem su2ToAngle_eq (a b : Cx ℝ) (eps : ℝ) :
    ∃ k : ℝ, su2ToAngle (1/2) a b eps =
      ((so3ToAngle (1/2) (su2ToSO3 (1/2) a b) eps).1, (so3ToAngle (1/2) (su2ToSO3 (1/2) a b) eps).2.1,
       (so3ToAngle (1/2) (su2ToSO3 (1/2) a b) eps).2.2 + k * (2 * Real.pi)) ∧ (k = 0 ∨ k = 1) := by
  have e : (su2Entries7 (1/2 : ℝ) a b).map Cx.re =
      [su2ToSO3 (1/2) a b 0 0, su2ToSO3 (1/2) a b 1 0, su2ToSO3 (1/2) a b 0 2, su2ToSO3 (1/2) a b 1 2,
       su2ToSO3 (1/2) a b 2 0, su2ToSO3 (1/2) a b 2 1, su2ToSO3 (1/2) a b 2 2] := rfl
  unfold su2ToAngle
  rw [e]
  simp only [so3ToAngle]
  split_ifs
  · exact ⟨1, by simp [Trig.pi, two_mul], Or.inr rfl⟩
  · exact ⟨0, by simp, Or.inl rfl⟩

/-- proved fragment of `Su2Roundtrip.Statement`: **the SU(2) round trip holds modulo the kernel of the covering**, i.e.
`su2_to_so3 (angle_to_su2 (su2_to_angle U)) = su2_to_so3 U` for every `U ∈ SU(2)` outside the tolerance region. -/
theorem su2_roundtrip_partial (a b : Cx ℝ) (hu : nrm2 a b = 1) (eps : ℝ) (h0 : 0 < eps) (hpi : eps < Real.pi)
    (hthr : Real.arccos (su2ToSO3 (1/2) a b 2 2) = 0 ∨ Real.arccos (su2ToSO3 (1/2) a b 2 2) = Real.pi ∨
      (eps ≤ Real.arccos (su2ToSO3 (1/2) a b 2 2) ∧ Real.arccos (su2ToSO3 (1/2) a b 2 2) ≤ Real.pi - eps)) :
    su2ToSO3 (1/2) (su2Rebuild a b eps 0 0) (su2Rebuild a b eps 0 1) = su2ToSO3 (1/2) a b := by
  have h2 : (2 : ℝ) * (1/2) = 1 := by norm_num
  have hO := su2ToSO3_orthogonal h2 hu
  have hd : (M3 (su2ToSO3 (1/2) a b)).det = 1 := by rw [su2ToSO3_det h2, hu]; ring
  have hrt := so3_roundtrip (M3 (su2ToSO3 (1/2) a b)) hO hd eps h0 hpi hthr
  obtain ⟨k, hk, hk01⟩ := su2ToAngle_eq a b eps
  unfold su2Rebuild
  rw [hk, su2ToSO3_angleToSU2_real]
  refine Eq.trans ?_ hrt
  unfold rebuild angleToSO3
  have hc : Real.cos ((so3ToAngle (1/2) (su2ToSO3 (1/2) a b) eps).2.2 + k * (2 * Real.pi))
      = Real.cos (so3ToAngle (1/2) (su2ToSO3 (1/2) a b) eps).2.2 := by
    rcases hk01 with rfl | rfl
    · simp
    · rw [one_mul, Real.cos_add_two_pi]
  have hs : Real.sin ((so3ToAngle (1/2) (su2ToSO3 (1/2) a b) eps).2.2 + k * (2 * Real.pi))
      = Real.sin (so3ToAngle (1/2) (su2ToSO3 (1/2) a b) eps).2.2 := by
    rcases hk01 with rfl | rfl
    · simp
    · rw [one_mul, Real.sin_add_two_pi]
  show angleToSO3cs _ _ _ _ (Real.cos _) (Real.sin _) = angleToSO3cs _ _ _ _ (Real.cos _) (Real.sin _)
  rw [hc, hs]

/-! ### the sign: the 4π-branch test of `su2_to_angle` selects the γ branch with `angle_to_su2 (…) = U` exactly -/

private theorem su2ToSO3_one : M3 (su2ToSO3 (1/2 : ℝ) 1 0) = 1 := by
  rw [su2ToSO3_eq (by norm_num)]
  apply mat3_ext <;> simp

/-- **kernel of the covering**: a unit quaternion with trivial rotation is `±1` -/
private theorem su2_kernel (a b : Cx ℝ) (hu : nrm2 a b = 1) (h : M3 (su2ToSO3 (1/2) a b) = 1) :
    ((a.re = 1 ∨ a.re = -1) ∧ a.im = 0) ∧ b.re = 0 ∧ b.im = 0 := by
  rw [su2ToSO3_eq (by norm_num)] at h
  have h22 := congrFun (congrFun h 2) 2
  have h00 := congrFun (congrFun h 0) 0
  simp at h22 h00
  unfold nrm2 at hu
  have hb : b.re * b.re + b.im * b.im = 0 := by linarith
  obtain ⟨hb1, hb2⟩ := sq_sum_zero hb
  have hx : a.im * a.im = 0 := by rw [hb1, hb2] at h00 hu; linarith
  have hx0 : a.im = 0 := mul_self_eq_zero.mp hx
  have hw : a.re * a.re = 1 := by rw [hb1, hb2, hx0] at hu; linarith
  exact ⟨⟨mul_self_eq_one_iff.mp hw, hx0⟩, hb1, hb2⟩

/-- two unit quaternions with the same rotation differ by a sign -/
private theorem su2_eq_or_neg (a b a' b' : Cx ℝ) (hu : nrm2 a b = 1) (hu' : nrm2 a' b' = 1)
    (h : M3 (su2ToSO3 (1/2) a' b') = M3 (su2ToSO3 (1/2) a b)) :
    (a' = a ∧ b' = b) ∨ (a' = -a ∧ b' = -b) := by
  have h2 : (2 : ℝ) * (1/2) = 1 := by norm_num
  -- W = V · U⁻¹, U⁻¹ = (ā, -b)
  have hW : M3 (su2ToSO3 (1/2) (su2MulA a' b' a.conj (-b)) (su2MulB a' b' a.conj (-b))) = 1 := by
    rw [su2ToSO3_mul h2, h, ← su2ToSO3_mul h2]
    have e1 : su2MulA a b a.conj (-b) = 1 := by
      ext <;> simp [su2MulA]
      · unfold nrm2 at hu; linarith
      · ring
    have e2 : su2MulB a b a.conj (-b) = 0 := by ext <;> simp [su2MulB] <;> ring
    rw [e1, e2]; exact su2ToSO3_one
  have hnW : nrm2 (su2MulA a' b' a.conj (-b)) (su2MulB a' b' a.conj (-b)) = 1 := by
    have : nrm2 (su2MulA a' b' a.conj (-b)) (su2MulB a' b' a.conj (-b)) = nrm2 a' b' * nrm2 a b := by
      simp [nrm2, su2MulA, su2MulB]; ring
    rw [this, hu, hu', mul_one]
  obtain ⟨⟨hs, hi⟩, hbr, hbi⟩ := su2_kernel _ _ hnW hW
  simp [su2MulA, su2MulB] at hs hi hbr hbi
  unfold nrm2 at hu
  -- with s = Re W_a = ±1: a' = s·a, b' = s·b
  have key : ∀ s : ℝ, a'.re * a.re + a'.im * a.im + (b'.re * b.re + b'.im * b.im) = s →
      a' = Cx.smul s a ∧ b' = Cx.smul s b := by
    intro s hsv
    refine ⟨?_, ?_⟩ <;> ext <;> simp
    · linear_combination (-a'.re) * hu + a.re * hsv - a.im * hi - b.re * hbr - b.im * hbi
    · linear_combination (-a'.im) * hu + a.im * hsv + a.re * hi + b.im * hbr - b.re * hbi
    · linear_combination (-b'.re) * hu + b.re * hsv - b.im * hi + a.re * hbr + a.im * hbi
    · linear_combination (-b'.im) * hu + b.im * hsv + b.re * hi - a.im * hbr + a.re * hbi
  rcases hs with h1 | h1
  · left
    obtain ⟨e1, e2⟩ := key 1 (by linarith)
    exact ⟨by rw [e1]; ext <;> simp, by rw [e2]; ext <;> simp⟩
  · right
    obtain ⟨e1, e2⟩ := key (-1) (by linarith)
    exact ⟨by rw [e1]; ext <;> simp, by rw [e2]; ext <;> simp⟩

private theorem so3ToAngle_beta (M : Matrix (Fin 3) (Fin 3) ℝ) (eps : ℝ) :
    (so3ToAngle (1/2) M eps).2.1 = Real.arccos (clip1 (M 2 2)) := by
  unfold so3ToAngle so3ToAngleHf0
  cases h : branchOf (Trig.acos (clip1 (M 2 2))) eps <;> simp only [h] <;> rfl

private theorem su2ToAngle_unfold (a b : Cx ℝ) (eps : ℝ) :
    su2ToAngle (1/2) a b eps =
      if ((⟨Real.cos (1/2 * ((so3ToAngle (1/2) (su2ToSO3 (1/2) a b) eps).1 + (so3ToAngle (1/2) (su2ToSO3 (1/2) a b) eps).2.2)),
            Real.sin (1/2 * ((so3ToAngle (1/2) (su2ToSO3 (1/2) a b) eps).1 + (so3ToAngle (1/2) (su2ToSO3 (1/2) a b) eps).2.2))⟩ : Cx ℝ) * a
          - ⟨Real.cos (1/2 * ((so3ToAngle (1/2) (su2ToSO3 (1/2) a b) eps).1 - (so3ToAngle (1/2) (su2ToSO3 (1/2) a b) eps).2.2)),
            Real.sin (1/2 * ((so3ToAngle (1/2) (su2ToSO3 (1/2) a b) eps).1 - (so3ToAngle (1/2) (su2ToSO3 (1/2) a b) eps).2.2))⟩ * b).re < 0
      then ((so3ToAngle (1/2) (su2ToSO3 (1/2) a b) eps).1, (so3ToAngle (1/2) (su2ToSO3 (1/2) a b) eps).2.1,
            (so3ToAngle (1/2) (su2ToSO3 (1/2) a b) eps).2.2 + (Real.pi + Real.pi))
      else ((so3ToAngle (1/2) (su2ToSO3 (1/2) a b) eps).1, (so3ToAngle (1/2) (su2ToSO3 (1/2) a b) eps).2.1,
            (so3ToAngle (1/2) (su2ToSO3 (1/2) a b) eps).2.2) := by
  have e : (su2Entries7 (1/2 : ℝ) a b).map Cx.re =
      [su2ToSO3 (1/2) a b 0 0, su2ToSO3 (1/2) a b 1 0, su2ToSO3 (1/2) a b 0 2, su2ToSO3 (1/2) a b 1 2,
       su2ToSO3 (1/2) a b 2 0, su2ToSO3 (1/2) a b 2 1, su2ToSO3 (1/2) a b 2 2] := rfl
  unfold su2ToAngle
  rw [e]
  rfl

/-- adding `2π` to `γ` flips the sign of `angle_to_su2` -/
private theorem angleToSU2_shift (al be ga : ℝ) :
    angleToSU2 (1/2) al be (ga + (Real.pi + Real.pi)) 0 0 = -(angleToSU2 (1/2) al be ga 0 0) ∧
    angleToSU2 (1/2) al be (ga + (Real.pi + Real.pi)) 0 1 = -(angleToSU2 (1/2) al be ga 0 1) := by
  have e1 : (1/2 : ℝ) * (al + (ga + (Real.pi + Real.pi))) = 1/2 * (al + ga) + Real.pi := by ring
  have e2 : (1/2 : ℝ) * (al - (ga + (Real.pi + Real.pi))) = 1/2 * (al - ga) - Real.pi := by ring
  constructor <;>
  · show angleToSU2cs (Real.cos _) (Real.sin _) ⟨Real.cos _, Real.sin _⟩ ⟨Real.cos _, Real.sin _⟩ _ _ = -(angleToSU2cs (Real.cos _) (Real.sin _) ⟨Real.cos _, Real.sin _⟩ ⟨Real.cos _, Real.sin _⟩ _ _)
    rw [e1, e2, Real.cos_add_pi, Real.sin_add_pi, Real.cos_sub_pi, Real.sin_sub_pi]
    ext <;> simp [angleToSU2cs]

/-- **SU(2) round trip, sign included**: for every `U ∈ SU(2)` outside the tolerance region the 4π-branch test of
`su2_to_angle` (`Re(e^{i(α+γ)/2}U₀₀ − e^{i(α−γ)/2}U₀₁) < 0`, repaired in 7f0ceda) selects the branch of `γ` with
`angle_to_su2 (su2_to_angle U) = U` exactly. Uses `so3_roundtrip`, the covering identity and `ker = {±1}`. -/
theorem su2_roundtrip (a b : Cx ℝ) (hu : nrm2 a b = 1) (eps : ℝ) (h0 : 0 < eps) (hpi : eps < Real.pi)
    (hthr : Real.arccos (su2ToSO3 (1/2) a b 2 2) = 0 ∨ Real.arccos (su2ToSO3 (1/2) a b 2 2) = Real.pi ∨
      (eps ≤ Real.arccos (su2ToSO3 (1/2) a b 2 2) ∧ Real.arccos (su2ToSO3 (1/2) a b 2 2) ≤ Real.pi - eps)) :
    M2 (su2Rebuild a b eps) = su2Mat a b := by
  have h2 : (2 : ℝ) * (1/2) = 1 := by norm_num
  have hO := su2ToSO3_orthogonal h2 hu
  have hd : (M3 (su2ToSO3 (1/2) a b)).det = 1 := by rw [su2ToSO3_det h2, hu]; ring
  have hrt := so3_roundtrip (M3 (su2ToSO3 (1/2) a b)) hO hd eps h0 hpi hthr
  set al := (so3ToAngle (1/2) (su2ToSO3 (1/2) a b) eps).1 with hal
  set be := (so3ToAngle (1/2) (su2ToSO3 (1/2) a b) eps).2.1 with hbe
  set ga := (so3ToAngle (1/2) (su2ToSO3 (1/2) a b) eps).2.2 with hga
  -- V = angle_to_su2 of the extracted angles has the same rotation as U
  have hcov := su2ToSO3_angleToSU2_real al be ga
  have hV : M3 (su2ToSO3 (1/2) (angleToSU2 (1/2) al be ga 0 0) (angleToSU2 (1/2) al be ga 0 1)) = M3 (su2ToSO3 (1/2) a b) := by
    rw [hcov]; exact hrt
  have hcs := cos_mul_self_add
  have hnV : nrm2 (angleToSU2 (1/2) al be ga 0 0) (angleToSU2 (1/2) al be ga 0 1) = 1 :=
    angleToSU2cs_nrm2 (cb := Real.cos (1/2 * be)) (sb := Real.sin (1/2 * be))
      (p := ⟨Real.cos (1/2 * (al + ga)), Real.sin (1/2 * (al + ga))⟩) (m := ⟨Real.cos (1/2 * (al - ga)), Real.sin (1/2 * (al - ga))⟩)
      (hcs _) (hcs _) (hcs _)
  -- β ∈ [0, π], so cos(β/2) + sin(β/2) > 0
  have hbeta : be = Real.arccos (clip1 (su2ToSO3 (1/2) a b 2 2)) := so3ToAngle_beta _ eps
  have hb0 : 0 ≤ be := by rw [hbeta]; exact Real.arccos_nonneg _
  have hbp : be ≤ Real.pi := by rw [hbeta]; exact Real.arccos_le_pi _
  have hc0 : 0 ≤ Real.cos (1/2 * be) := Real.cos_nonneg_of_neg_pi_div_two_le_of_le (by linarith [Real.pi_pos]) (by linarith)
  have hs0 : 0 ≤ Real.sin (1/2 * be) := Real.sin_nonneg_of_nonneg_of_le_pi (by linarith) (by linarith [Real.pi_pos])
  have hpos : 0 < Real.cos (1/2 * be) + Real.sin (1/2 * be) := by
    have := hcs (1/2 * be); nlinarith
  -- value of the branch test on V
  have htest : ((⟨Real.cos (1/2 * (al + ga)), Real.sin (1/2 * (al + ga))⟩ : Cx ℝ) * angleToSU2 (1/2) al be ga 0 0
      - ⟨Real.cos (1/2 * (al - ga)), Real.sin (1/2 * (al - ga))⟩ * angleToSU2 (1/2) al be ga 0 1).re
      = Real.cos (1/2 * be) + Real.sin (1/2 * be) :=
    branch_test_value (cb := Real.cos (1/2 * be)) (sb := Real.sin (1/2 * be))
      (p := ⟨Real.cos (1/2 * (al + ga)), Real.sin (1/2 * (al + ga))⟩) (m := ⟨Real.cos (1/2 * (al - ga)), Real.sin (1/2 * (al - ga))⟩)
      (hcs _) (hcs _)
  have hsu2 : ∀ x y z : ℝ, M2 (angleToSU2 (1/2) x y z) = su2Mat (angleToSU2 (1/2) x y z 0 0) (angleToSU2 (1/2) x y z 0 1) := by
    intro x y z
    apply mat2_ext <;> simp [su2Mat, angleToSU2, angleToSU2cs] <;> ext <;> simp
  unfold su2Rebuild
  rw [su2ToAngle_unfold]
  rcases su2_eq_or_neg a b _ _ hu hnV hV with ⟨ea, eb⟩ | ⟨ea, eb⟩
  · -- V = U: the test is positive, γ unchanged
    have : ¬ ((⟨Real.cos (1/2 * (al + ga)), Real.sin (1/2 * (al + ga))⟩ : Cx ℝ) * a
        - ⟨Real.cos (1/2 * (al - ga)), Real.sin (1/2 * (al - ga))⟩ * b).re < 0 := by
      rw [← ea, ← eb, htest]; exact not_lt.mpr hpos.le
    rw [if_neg this, hsu2, ea, eb]
  · -- V = -U: the test is negative, γ + 2π flips the sign
    have hneg : ((⟨Real.cos (1/2 * (al + ga)), Real.sin (1/2 * (al + ga))⟩ : Cx ℝ) * a
        - ⟨Real.cos (1/2 * (al - ga)), Real.sin (1/2 * (al - ga))⟩ * b).re < 0 := by
      have ea' : a = -(angleToSU2 (1/2) al be ga 0 0) := by rw [ea]; ext <;> simp
      have eb' : b = -(angleToSU2 (1/2) al be ga 0 1) := by rw [eb]; ext <;> simp
      have : ((⟨Real.cos (1/2 * (al + ga)), Real.sin (1/2 * (al + ga))⟩ : Cx ℝ) * a
          - ⟨Real.cos (1/2 * (al - ga)), Real.sin (1/2 * (al - ga))⟩ * b).re
          = -(Real.cos (1/2 * be) + Real.sin (1/2 * be)) := by
        rw [← htest, ea', eb']; simp; ring
      rw [this]; linarith
    rw [if_pos hneg, hsu2]
    obtain ⟨s1, s2⟩ := angleToSU2_shift al be ga
    rw [s1, s2, ea, eb]
    congr 1 <;> ext <;> simp

/-- **`so3_to_su2` always returns an element of SU(2)**: unitary with determinant one for every input `M` (thin: it is
`angleToSU2_mem_SU2` at the extracted angles, i.e. `cos² + sin² = 1`; it says nothing about `so3_to_angle`.  That the result is a
pre-image of `M` is `so3ToSU2_section` below). -/
theorem so3ToSU2_mem_SU2 (M : Matrix (Fin 3) (Fin 3) ℝ) (eps : ℝ) :
    M2 (so3ToSU2 (1/2) M eps) * conjT (M2 (so3ToSU2 (1/2) M eps)) = 1 ∧ (M2 (so3ToSU2 (1/2) M eps)).det = 1 :=
  angleToSU2_mem_SU2 _ _ _

/-- **`so3_to_su2` is a section of `su2_to_so3`**: for `M ∈ SO(3)` outside the tolerance region (`β ∈ {0, π}` or `eps ≤ β ≤ π - eps`),
`su2_to_so3 (so3_to_su2 M) = M`. -/
theorem so3ToSU2_section (M : Matrix (Fin 3) (Fin 3) ℝ) (hO : M * Mᵀ = 1) (hd : M.det = 1) (eps : ℝ) (h0 : 0 < eps) (hpi : eps < Real.pi)
    (hthr : Real.arccos (M 2 2) = 0 ∨ Real.arccos (M 2 2) = Real.pi ∨ (eps ≤ Real.arccos (M 2 2) ∧ Real.arccos (M 2 2) ≤ Real.pi - eps)) :
    M3 (su2ToSO3 (1/2) (so3ToSU2 (1/2) M eps 0 0) (so3ToSU2 (1/2) M eps 0 1)) = M := by
  have h := so3_roundtrip M hO hd eps h0 hpi hthr
  unfold rebuild at h
  have e : so3ToSU2 (1/2) M eps = angleToSU2 (1/2) (so3ToAngle (1/2) M eps).1 (so3ToAngle (1/2) M eps).2.1 (so3ToAngle (1/2) M eps).2.2 := rfl
  rw [e, su2ToSO3_angleToSU2_real]; exact h

/-- `Su2Roundtrip.Statement` holds -/
theorem su2_roundtrip_statement : Su2Roundtrip.Statement :=
  fun a b hu eps h0 hpi hthr => su2_roundtrip a b hu eps h0 hpi hthr

/-- non-vacuity at the repaired gimbal-lock input `U = [[0,1],[-1,0]]` (`β = π`, `U₀₀ = 0`): the hypotheses hold -/
example : nrm2 (0 : Cx ℝ) 1 = 1 ∧ Real.arccos (su2ToSO3 (1/2) (0 : Cx ℝ) 1 2 2) = Real.pi := by
  refine ⟨by simp [nrm2], ?_⟩
  have : su2ToSO3 (1/2 : ℝ) (0 : Cx ℝ) 1 2 2 = -1 := by simp [su2ToSO3, su2ToSO3cx]
  rw [this]; exact Real.arccos_neg_one

end real

/-! ## Part C — angular momentum operators, every `j2`

`K` is any commutative ring with `I² = -1`, `2·half = 1` and a function `sq` with `sq n · sq n = n`
(for `K = ℂ`: `Complex.I`, `1/2`, `√n`).  `JxM / JyM / JzM` are the model's `jxEntry / jyEntry / jzEntry`
as `(j2+1)×(j2+1)` matrices. -/

section angmom
variable {K : Type} [CommRing K] {I half : K} (sq : ℕ → K)

/-- **`[Jx, Jy] = i Jz` for every `j2`.** -/
theorem angular_momentum_comm_xy (h2 : 2 * half = 1) (hsq : ∀ n, sq n * sq n = (n : K)) (j2 : ℕ) :
    JxM half sq j2 * JyM I half sq j2 - JyM I half sq j2 * JxM half sq j2 = I • JzM half j2 := by
  have hc := Jp_comm_Jm sq hsq h2 j2
  have e : JxM half sq j2 * JyM I half sq j2 - JyM I half sq j2 * JxM half sq j2
      = (2 * I * half * half) • (JpM sq j2 * JmM sq j2 - JmM sq j2 * JpM sq j2) := by
    rw [JxM_eq, JyM_eq]
    simp only [smul_mul_assoc, mul_smul_comm, mul_add, add_mul, smul_add, smul_sub, smul_smul]
    module
  rw [e, hc, smul_smul]
  congr 1
  linear_combination (2 * I * half + I) * h2

/-- **`[Jy, Jz] = i Jx` for every `j2`.** -/
theorem angular_momentum_comm_yz (j2 : ℕ) :
    JyM I half sq j2 * JzM half j2 - JzM half j2 * JyM I half sq j2 = I • JxM half sq j2 := by
  have hp := Jz_comm_Jp sq half j2
  have hm := Jz_comm_Jm sq half j2
  have e : JyM I half sq j2 * JzM half j2 - JzM half j2 * JyM I half sq j2
      = (I * half) • (JzM half j2 * JpM sq j2 - JpM sq j2 * JzM half j2)
        - (I * half) • (JzM half j2 * JmM sq j2 - JmM sq j2 * JzM half j2) := by
    rw [JyM_eq]
    simp only [smul_mul_assoc, mul_smul_comm, mul_add, add_mul, smul_add, smul_sub, smul_smul]
    module
  rw [e, hp, hm, JxM_eq]
  simp only [smul_add, smul_neg, smul_smul]
  module

/-- **`[Jz, Jx] = i Jy` for every `j2`.** -/
theorem angular_momentum_comm_zx (hI : I * I = -1) (j2 : ℕ) :
    JzM half j2 * JxM half sq j2 - JxM half sq j2 * JzM half j2 = I • JyM I half sq j2 := by
  have hp := Jz_comm_Jp sq half j2
  have hm := Jz_comm_Jm sq half j2
  have e : JzM half j2 * JxM half sq j2 - JxM half sq j2 * JzM half j2
      = half • (JzM half j2 * JpM sq j2 - JpM sq j2 * JzM half j2)
        + half • (JzM half j2 * JmM sq j2 - JmM sq j2 * JzM half j2) := by
    rw [JxM_eq]
    simp only [smul_mul_assoc, mul_smul_comm, mul_add, add_mul, smul_add, smul_sub, smul_smul]
    module
  rw [e, hp, hm, JyM_eq]
  simp only [smul_add, smul_neg, smul_smul]
  have h1 : I * -(I * half) = half := by linear_combination (-half) * hI
  have h2' : I * (I * half) = -half := by linear_combination half * hI
  rw [h1, h2']
  module

/-- **Casimir: `Jx² + Jy² + Jz² = j(j+1)·1`, `j = j2/2`, for every `j2`.** -/
theorem angular_momentum_casimir (hI : I * I = -1) (h2 : 2 * half = 1) (hsq : ∀ n, sq n * sq n = (n : K)) (j2 : ℕ) :
    JxM half sq j2 * JxM half sq j2 + JyM I half sq j2 * JyM I half sq j2 + JzM half j2 * JzM half j2
      = ((half * (j2 : K)) * (half * (j2 : K) + 1)) • (1 : Matrix (Fin (j2 + 1)) (Fin (j2 + 1)) K) := by
  have e : JxM half sq j2 * JxM half sq j2 + JyM I half sq j2 * JyM I half sq j2
      = (2 * half * half) • (JpM sq j2 * JmM sq j2 + JmM sq j2 * JpM sq j2) := by
    rw [JxM_eq, JyM_eq]
    simp only [smul_mul_assoc, mul_smul_comm, mul_add, add_mul, smul_add, smul_sub, smul_smul]
    have h1 : -(I * half) * -(I * half) = -(half * half) := by linear_combination (half * half) * hI
    have h3 : I * half * -(I * half) = half * half := by linear_combination (-(half * half)) * hI
    have h4 : -(I * half) * (I * half) = half * half := by linear_combination (-(half * half)) * hI
    have h5 : I * half * (I * half) = -(half * half) := by linear_combination (half * half) * hI
    rw [h1, h3, h4, h5]
    module
  rw [e]
  ext i k
  simp only [Matrix.add_apply, Matrix.smul_apply, JpM_mul_JmM sq hsq, JmM_mul_JpM sq hsq, JzM_mul, JzM_apply,
    Matrix.one_apply, smul_eq_mul]
  have hi := i.isLt
  split_ifs with h
  · simp only [zval]
    have e1 : ((j2 + 1 - i.val : ℕ) : K) = (j2 : K) - (i.val : K) + 1 := by
      have : j2 + 1 - i.val = (j2 - i.val) + 1 := by omega
      rw [this, Nat.cast_add, Nat.cast_sub (by omega)]; simp
    have e2 : ((j2 - i.val : ℕ) : K) = (j2 : K) - (i.val : K) := by rw [Nat.cast_sub (by omega)]
    push_cast
    rw [e1, e2]
    linear_combination (-(j2 : K) * (j2 : K) + 2 * (j2 : K) * half * (i.val : K) + (j2 : K) * half + 2 * (j2 : K) * (i.val : K)
      - 2 * half * (i.val : K) * (i.val : K) - (i.val : K) * (i.val : K)) * h2
  · ring

end angmom

/-! ## Part D — spin-j matrices (`get_su2_irrep`)

`irrepCS` is the Wigner factorial sum of the implementation with its phases, on the half-angle data of `angle_to_su2`;
`symM j2 a b c d` is the matrix of `Sym^{j2}` of `[[a,b],[c,d]]` in the normalised monomial basis; `sq n` stands for `√n`. -/

section irrep
variable {F : Type} [Field F] [CharZero F]

/-- the spin-j matrix of the model as a matrix over `Cx F` -/
def irrepM (sq : ℕ → F) (j2 : ℕ) (cb sb : F) (p m : Cx F) : Matrix (Fin (j2 + 1)) (Fin (j2 + 1)) (Cx F) :=
  fun i k => irrepCS sq (fun n : ℕ => (n : F)) j2 cb sb p m i.val k.val

/-- **every `j2`: the spin-j matrix is `Sym^{j2}` of the SU(2) matrix `angle_to_su2`** (term-by-term identity of the
Wigner sum, using only `|p| = |m| = 1`). -/
theorem irrep_eq_sym (sq : ℕ → F) (j2 : ℕ) (cb sb : F) (p m : Cx F) (hp : p * p.conj = 1) (hm : m * m.conj = 1) :
    irrepM sq j2 cb sb p m
      = symM sq j2 (angleToSU2cs cb sb p m 0 0) (angleToSU2cs cb sb p m 0 1) (angleToSU2cs cb sb p m 1 0) (angleToSU2cs cb sb p m 1 1) := by
  apply Matrix.ext; intro i k
  exact irrepCS_eq_symD sq j2 cb sb p m hp hm i.val k.val (by have := i.isLt; omega) (by have := k.isLt; omega)

/-- `j2 = 1` is the defining representation -/
theorem irrep_one (sq : ℕ → F) (h1 : sq 1 = 1) (cb sb : F) (p m : Cx F) (hp : p * p.conj = 1) (hm : m * m.conj = 1) :
    irrepM sq 1 cb sb p m = M2 (angleToSU2cs cb sb p m) := by
  rw [irrep_eq_sym sq 1 cb sb p m hp hm, symM_one sq h1]
  apply mat2_ext <;> rfl

/-- **`Sym^{j2}` is multiplicative for `j2 = 1, 2, 3`** (all complex 2×2 matrices; polynomial identities with `√2² = 2`, `√3² = 3`) -/
theorem sym_mul_partial (sq : ℕ → F) (h1 : sq 1 = 1) (h4 : sq 4 = 2) (h36 : sq 36 = 6) (h12 : sq 12 = 2 * sq 3)
    (h2 : sq 2 * sq 2 = 2) (h3 : sq 3 * sq 3 = 3) (a b c d a' b' c' d' : Cx F) :
    (symM sq 1 (a * a' + b * c') (a * b' + b * d') (c * a' + d * c') (c * b' + d * d') = symM sq 1 a b c d * symM sq 1 a' b' c' d') ∧
    (symM sq 2 (a * a' + b * c') (a * b' + b * d') (c * a' + d * c') (c * b' + d * d') = symM sq 2 a b c d * symM sq 2 a' b' c' d') ∧
    (symM sq 3 (a * a' + b * c') (a * b' + b * d') (c * a' + d * c') (c * b' + d * d') = symM sq 3 a b c d * symM sq 3 a' b' c' d') :=
  ⟨symM_mul_one sq h1 .., symM_mul_two sq h1 h4 h2 .., symM_mul_three sq h4 h36 h12 h3 ..⟩

/-- **spin-j homomorphism, full statement** (`D(U1 U2) = D(U1) D(U2)` for every `j2`): by `irrep_eq_sym` it is exactly the
functoriality of `Sym^{j2}` in the normalised monomial basis. Open for `j2 ≥ 4` (probed for `j2 ≤ 10`). -/
def Su2IrrepHom.Statement : Prop :=
  ∀ (j2 : ℕ) (a b c d a' b' c' d' : Cx ℝ),
    symM (fun n => Real.sqrt n) j2 (a * a' + b * c') (a * b' + b * d') (c * a' + d * c') (c * b' + d * d')
      = symM (fun n => Real.sqrt n) j2 a b c d * symM (fun n => Real.sqrt n) j2 a' b' c' d'

/-- proved fragment: **`D^{j}(U1 U2) = D^{j}(U1) D^{j}(U2)` for `j2 = 1, 2, 3`**, in terms of the half-angle data of three
Euler-angle triples with `angle_to_su2(3) = angle_to_su2(1) · angle_to_su2(2)`. -/
theorem su2_irrep_hom_partial (sq : ℕ → F) (h1 : sq 1 = 1) (h4 : sq 4 = 2) (h36 : sq 36 = 6) (h12 : sq 12 = 2 * sq 3)
    (h2 : sq 2 * sq 2 = 2) (h3 : sq 3 * sq 3 = 3)
    (cb1 sb1 cb2 sb2 cb3 sb3 : F) (p1 m1 p2 m2 p3 m3 : Cx F)
    (hp1 : p1 * p1.conj = 1) (hm1 : m1 * m1.conj = 1) (hp2 : p2 * p2.conj = 1) (hm2 : m2 * m2.conj = 1)
    (hp3 : p3 * p3.conj = 1) (hm3 : m3 * m3.conj = 1)
    (hU : M2 (angleToSU2cs cb3 sb3 p3 m3) = M2 (angleToSU2cs cb1 sb1 p1 m1) * M2 (angleToSU2cs cb2 sb2 p2 m2))
    (j2 : ℕ) (hj : j2 = 1 ∨ j2 = 2 ∨ j2 = 3) :
    irrepM sq j2 cb3 sb3 p3 m3 = irrepM sq j2 cb1 sb1 p1 m1 * irrepM sq j2 cb2 sb2 p2 m2 := by
  rw [irrep_eq_sym sq j2 _ _ _ _ hp1 hm1, irrep_eq_sym sq j2 _ _ _ _ hp2 hm2, irrep_eq_sym sq j2 _ _ _ _ hp3 hm3]
  have e00 := congrFun (congrFun hU 0) 0
  have e01 := congrFun (congrFun hU 0) 1
  have e10 := congrFun (congrFun hU 1) 0
  have e11 := congrFun (congrFun hU 1) 1
  simp only [mul2_apply] at e00 e01 e10 e11
  rw [show angleToSU2cs cb3 sb3 p3 m3 0 0 = _ from e00, show angleToSU2cs cb3 sb3 p3 m3 0 1 = _ from e01,
    show angleToSU2cs cb3 sb3 p3 m3 1 0 = _ from e10, show angleToSU2cs cb3 sb3 p3 m3 1 1 = _ from e11]
  obtain ⟨s1, s2, s3⟩ := sym_mul_partial sq h1 h4 h36 h12 h2 h3
    (angleToSU2cs cb1 sb1 p1 m1 0 0) (angleToSU2cs cb1 sb1 p1 m1 0 1) (angleToSU2cs cb1 sb1 p1 m1 1 0) (angleToSU2cs cb1 sb1 p1 m1 1 1)
    (angleToSU2cs cb2 sb2 p2 m2 0 0) (angleToSU2cs cb2 sb2 p2 m2 0 1) (angleToSU2cs cb2 sb2 p2 m2 1 0) (angleToSU2cs cb2 sb2 p2 m2 1 1)
  rcases hj with rfl | rfl | rfl
  · exact s1
  · exact s2
  · exact s3

/-- **`Sym^{j2}` of a unitary matrix is unitary for `j2 = 1, 2, 3`**: `U†U = 1` (four entry equations) implies
`Sym(U)† Sym(U) = 1`. -/
theorem sym_unitary_partial (sq : ℕ → F) (h1 : sq 1 = 1) (h4 : sq 4 = 2) (h36 : sq 36 = 6) (h12 : sq 12 = 2 * sq 3)
    (h2 : sq 2 * sq 2 = 2) (h3 : sq 3 * sq 3 = 3) (a b c d : Cx F)
    (u00 : a.conj * a + c.conj * c = 1) (u01 : a.conj * b + c.conj * d = 0)
    (u10 : b.conj * a + d.conj * c = 0) (u11 : b.conj * b + d.conj * d = 1) :
    conjTn (symM sq 1 a b c d) * symM sq 1 a b c d = 1 ∧ conjTn (symM sq 2 a b c d) * symM sq 2 a b c d = 1
      ∧ conjTn (symM sq 3 a b c d) * symM sq 3 a b c d = 1 := by
  refine ⟨?_, ?_, ?_⟩
  · rw [symM_conjT_one sq h1, ← symM_mul_one sq h1, u00, u01, u10, u11, symM_id_one sq h1]
  · rw [symM_conjT_two sq h1 h4, ← symM_mul_two sq h1 h4 h2, u00, u01, u10, u11, symM_id_two sq h1 h4]
  · rw [symM_conjT_three sq h4 h36 h12, ← symM_mul_three sq h4 h36 h12 h3, u00, u01, u10, u11, symM_id_three sq h4 h36 h12]

/-- **the spin-j matrices are unitary for `j2 = 1, 2, 3`** (`D(U)†D(U) = 1` for `U = angle_to_su2 α β γ`) -/
theorem su2_irrep_unitary_partial (sq : ℕ → F) (h1 : sq 1 = 1) (h4 : sq 4 = 2) (h36 : sq 36 = 6) (h12 : sq 12 = 2 * sq 3)
    (h2 : sq 2 * sq 2 = 2) (h3 : sq 3 * sq 3 = 3) (cb sb : F) (p m : Cx F)
    (hb : cb * cb + sb * sb = 1) (hp : p * p.conj = 1) (hm : m * m.conj = 1)
    (j2 : ℕ) (hj : j2 = 1 ∨ j2 = 2 ∨ j2 = 3) :
    conjTn (irrepM sq j2 cb sb p m) * irrepM sq j2 cb sb p m = 1 := by
  rw [irrep_eq_sym sq j2 cb sb p m hp hm]
  have hpr : p.re * p.re + p.im * p.im = 1 := by have := congrArg Cx.re hp; simpa using this
  have hmr : m.re * m.re + m.im * m.im = 1 := by have := congrArg Cx.re hm; simpa using this
  have u00 : (angleToSU2cs cb sb p m 0 0).conj * angleToSU2cs cb sb p m 0 0 + (angleToSU2cs cb sb p m 1 0).conj * angleToSU2cs cb sb p m 1 0 = 1 := by
    ext <;> simp [angleToSU2cs]
    · linear_combination (cb * cb) * hpr + (sb * sb) * hmr + hb
    · ring
  have u11 : (angleToSU2cs cb sb p m 0 1).conj * angleToSU2cs cb sb p m 0 1 + (angleToSU2cs cb sb p m 1 1).conj * angleToSU2cs cb sb p m 1 1 = 1 := by
    ext <;> simp [angleToSU2cs]
    · linear_combination (cb * cb) * hpr + (sb * sb) * hmr + hb
    · ring
  have u01 : (angleToSU2cs cb sb p m 0 0).conj * angleToSU2cs cb sb p m 0 1 + (angleToSU2cs cb sb p m 1 0).conj * angleToSU2cs cb sb p m 1 1 = 0 := by
    ext <;> simp [angleToSU2cs] <;> ring
  have u10 : (angleToSU2cs cb sb p m 0 1).conj * angleToSU2cs cb sb p m 0 0 + (angleToSU2cs cb sb p m 1 1).conj * angleToSU2cs cb sb p m 1 0 = 0 := by
    ext <;> simp [angleToSU2cs] <;> ring
  obtain ⟨s1, s2, s3⟩ := sym_unitary_partial sq h1 h4 h36 h12 h2 h3 _ _ _ _ u00 u01 u10 u11
  rcases hj with rfl | rfl | rfl
  · exact s1
  · exact s2
  · exact s3

end irrep

/-- **bridge for the driver's `irrep` op**: `get_su2_irrep` with its literal phases `exp(-iMα)`, `exp(-iNγ)` (`su2IrrepG`, run at
`Float`) equals the half-angle form `irrepCS` of the `Sym^{j2}` theorems, for every `j2` (de Moivre). -/
theorem su2_irrep_literal_eq (sq : ℕ → ℝ) (j2 : ℕ) (al be ga : ℝ) (i k : ℕ) (hi : i ≤ j2) (hk : k ≤ j2) :
    su2IrrepG sq (fun n : ℕ => (n : ℝ)) (1/2) j2 al be ga i k
      = irrepCS sq (fun n : ℕ => (n : ℝ)) j2 (Real.cos (1/2 * be)) (Real.sin (1/2 * be))
          (cis (1/2 * (al + ga))) (cis (1/2 * (al - ga))) i k :=
  su2IrrepG_eq_irrepCS sq j2 al be ga i k hi hk

/-- the hypotheses on `sq` hold for the real square root -/
example : Real.sqrt (1 : ℕ) = 1 ∧ Real.sqrt (4 : ℕ) = 2 ∧ Real.sqrt (36 : ℕ) = 6 ∧ Real.sqrt (12 : ℕ) = 2 * Real.sqrt (3 : ℕ)
    ∧ Real.sqrt (2 : ℕ) * Real.sqrt (2 : ℕ) = 2 ∧ Real.sqrt (3 : ℕ) * Real.sqrt (3 : ℕ) = 3 := by
  refine ⟨by simp, ?_, ?_, ?_, ?_, ?_⟩
  · rw [show ((4 : ℕ) : ℝ) = 2 ^ 2 by norm_num]; exact Real.sqrt_sq (by norm_num)
  · rw [show ((36 : ℕ) : ℝ) = 6 ^ 2 by norm_num]; exact Real.sqrt_sq (by norm_num)
  · rw [show ((12 : ℕ) : ℝ) = 2 ^ 2 * (3 : ℕ) by norm_num, Real.sqrt_mul (by norm_num), Real.sqrt_sq (by norm_num)]
  · exact Real.mul_self_sqrt (by norm_num)
  · exact Real.mul_self_sqrt (by norm_num)

/-! ## the hypotheses are satisfiable, the statements are not vacuous -/

/-- Part C at `K = ℂ`: `I = Complex.I`, `half = 1/2`, `sq n = √n`. -/
example (j2 : ℕ) :
    JxM (1/2 : ℂ) (fun n => ((Real.sqrt n : ℝ) : ℂ)) j2 * JyM Complex.I (1/2) (fun n => ((Real.sqrt n : ℝ) : ℂ)) j2
      - JyM Complex.I (1/2) (fun n => ((Real.sqrt n : ℝ) : ℂ)) j2 * JxM (1/2 : ℂ) (fun n => ((Real.sqrt n : ℝ) : ℂ)) j2
      = Complex.I • JzM (1/2 : ℂ) j2 :=
  angular_momentum_comm_xy _ (by norm_num) (fun n => by
    rw [← Complex.ofReal_mul, Real.mul_self_sqrt (Nat.cast_nonneg n)]; simp) j2

/-- the spin-1/2 matrices are the halved Pauli matrices (`sq 1 = 1`) -/
example : JxM (1/2 : ℚ) (fun _ => 1) 1 0 1 = 1/2 ∧ JzM (1/2 : ℚ) 1 0 0 = 1/2 ∧ JzM (1/2 : ℚ) 1 1 1 = -1/2 := by
  refine ⟨?_, ?_, ?_⟩ <;> simp [JxM, JzM, jxEntry, jzEntry, ladder] <;> norm_num

/-- `so3_roundtrip` applies to the identity (β = 0 exactly) … -/
example : Real.arccos ((1 : Matrix (Fin 3) (Fin 3) ℝ) 2 2) = 0 := by simp

/-- … to `diag(-1, 1, -1)` (β = π exactly) … -/
example : Real.arccos ((M3 (rotY (-1 : ℝ) 0)) 2 2) = Real.pi := by simp [rotY]

/-- … and to the quarter turn about `y` (β = π/2, generic branch for `zero_eps = 10⁻⁷`), which is in SO(3). -/
example : M3 (rotY (0 : ℝ) 1) * (M3 (rotY (0 : ℝ) 1))ᵀ = 1 ∧ (M3 (rotY (0 : ℝ) 1)).det = 1 ∧
    (1e-7 : ℝ) ≤ Real.arccos ((M3 (rotY (0 : ℝ) 1)) 2 2) ∧ Real.arccos ((M3 (rotY (0 : ℝ) 1)) 2 2) ≤ Real.pi - 1e-7 := by
  refine ⟨rotY_orthogonal (by norm_num), rotY_det (by norm_num), ?_, ?_⟩
  · simp [rotY]; have := Real.two_le_pi; linarith
  · simp [rotY]; have := Real.two_le_pi; linarith

/-- a non-trivial instance of the covering identity over `ℚ`: the rational point `(3/5, 4/5)` for all three pairs -/
example : su2ToSO3 (1/2 : ℚ) (angleToSU2cs (3/5) (4/5) ⟨3/5, 4/5⟩ ⟨3/5, 4/5⟩ 0 0) (angleToSU2cs (3/5) (4/5) ⟨3/5, 4/5⟩ ⟨3/5, 4/5⟩ 0 1)
    = angleToSO3cs (-7/25) (24/25) (-7/25) (24/25) 1 0 := by
  rw [su2ToSO3_angleToSU2 (by norm_num) (by norm_num) (by norm_num) (by norm_num)]
  congr 1 <;> first | (simp only [Cx.mul_re, Cx.mul_im, Cx.conj_re, Cx.conj_im]; norm_num) | norm_num

end Numqi.C15
