import NumqiModel.Lie
namespace Numqi.C15
theorem stub : (1 : Nat) = 1 := rfl
end Numqi.C15
