/-
C15 — SU(2)/SO(3) conversions are consistent for every rotation, gimbal lock included.

Property theorems only (helper lemmas: `NumqiProofs/Lie.lean`, `NumqiProofs/LieReal.lean`,
`NumqiProofs/LieAngMom.lean`).  Part A is stated for every commutative ring `R` (real quantities in
`R`, complex ones in the pair type `Cx R`; for `R = ℝ` this is `ℂ`), Part B over `ℝ` with the real
`cos / sin / arccos / arg`, Part C for every `j2`.
-/
import NumqiProofs.Lie
import NumqiProofs.LieReal

set_option linter.unusedSectionVars false

namespace Numqi.C15
open Numqi.Lie Matrix

variable {R : Type} [CommRing R]

/-! ## Part A — polynomial identities (any commutative ring) -/

/-- **`angle_to_so3` is `Rz(α) Ry(β) Rz(γ)`** (no hypothesis on the six numbers). -/
theorem angleToSO3_eq_rot (ca sa cb sb cg sg : R) :
    M3 (angleToSO3cs ca sa cb sb cg sg) = M3 (rotZ ca sa) * M3 (rotY cb sb) * M3 (rotZ cg sg) := by
  apply mat3_ext <;> simp only [mul3_apply, angleToSO3cs, rotZ, rotY, mk3_00, mk3_01, mk3_02, mk3_10, mk3_11, mk3_12,
    mk3_20, mk3_21, mk3_22] <;> ring

theorem rotZ_orthogonal {c s : R} (h : c * c + s * s = 1) : M3 (rotZ c s) * (M3 (rotZ c s))ᵀ = 1 := by
  apply mat3_ext <;> simp [mul3_apply, rotZ] <;> first | ring1 | linear_combination h

theorem rotY_orthogonal {c s : R} (h : c * c + s * s = 1) : M3 (rotY c s) * (M3 (rotY c s))ᵀ = 1 := by
  apply mat3_ext <;> simp [mul3_apply, rotY] <;> first | ring1 | linear_combination h

theorem rotZ_det {c s : R} (h : c * c + s * s = 1) : (M3 (rotZ c s)).det = 1 := by
  rw [Matrix.det_fin_three]; simp [rotZ]; linear_combination h

theorem rotY_det {c s : R} (h : c * c + s * s = 1) : (M3 (rotY c s)).det = 1 := by
  rw [Matrix.det_fin_three]; simp [rotY]; linear_combination h

/-- **`angle_to_so3` is orthogonal** whenever the three pairs lie on the unit circle. -/
theorem angleToSO3_orthogonal {ca sa cb sb cg sg : R}
    (ha : ca * ca + sa * sa = 1) (hb : cb * cb + sb * sb = 1) (hg : cg * cg + sg * sg = 1) :
    M3 (angleToSO3cs ca sa cb sb cg sg) * (M3 (angleToSO3cs ca sa cb sb cg sg))ᵀ = 1 := by
  rw [angleToSO3_eq_rot, Matrix.transpose_mul, Matrix.transpose_mul]
  calc M3 (rotZ ca sa) * M3 (rotY cb sb) * M3 (rotZ cg sg) * ((M3 (rotZ cg sg))ᵀ * ((M3 (rotY cb sb))ᵀ * (M3 (rotZ ca sa))ᵀ))
      = M3 (rotZ ca sa) * (M3 (rotY cb sb) * (M3 (rotZ cg sg) * (M3 (rotZ cg sg))ᵀ) * (M3 (rotY cb sb))ᵀ) * (M3 (rotZ ca sa))ᵀ := by
        simp only [Matrix.mul_assoc]
    _ = 1 := by rw [rotZ_orthogonal hg, Matrix.mul_one, rotY_orthogonal hb, Matrix.mul_one, rotZ_orthogonal ha]

/-- **`angle_to_so3` has determinant one.** -/
theorem angleToSO3_det {ca sa cb sb cg sg : R}
    (ha : ca * ca + sa * sa = 1) (hb : cb * cb + sb * sb = 1) (hg : cg * cg + sg * sg = 1) :
    (M3 (angleToSO3cs ca sa cb sb cg sg)).det = 1 := by
  rw [angleToSO3_eq_rot, Matrix.det_mul, Matrix.det_mul, rotZ_det ha, rotY_det hb, rotZ_det hg]; ring

/-! ### SU(2) -/

/-- the matrix `[[a, b], [-b̄, ā]]` (every element of SU(2) has this form; `su2_to_so3` / `su2_to_angle` read
`a = U[0,0]`, `b = U[0,1]` and assert the other two entries) -/
def su2Mat (a b : Cx R) : Matrix (Fin 2) (Fin 2) (Cx R) := M2 (mk2 a b (-b.conj) a.conj)

/-- conjugate transpose over `Cx R` -/
def conjT (U : Matrix (Fin 2) (Fin 2) (Cx R)) : Matrix (Fin 2) (Fin 2) (Cx R) := fun i j => (U j i).conj

/-- squared norm `|a|² + |b|²` of the quaternion `(a, b)` -/
def nrm2 (a b : Cx R) : R := a.re * a.re + a.im * a.im + (b.re * b.re + b.im * b.im)

theorem angleToSU2_eq_su2Mat (cb sb : R) (p m : Cx R) :
    M2 (angleToSU2cs cb sb p m) = su2Mat (Cx.smul cb p.conj) (-(Cx.smul sb m.conj)) := by
  apply mat2_ext <;> simp [angleToSU2cs, su2Mat] <;> ext <;> simp

/-- matrices of the form `[[a, b], [-b̄, ā]]` are closed under multiplication, with the model's `su2MulA/B`. -/
theorem su2Mat_mul (a b a' b' : Cx R) :
    su2Mat a b * su2Mat a' b' = su2Mat (su2MulA a b a' b') (su2MulB a b a' b') := by
  apply mat2_ext <;> simp [su2Mat, mul2_apply, su2MulA, su2MulB] <;> ext <;> simp <;> ring

theorem su2Mat_mul_conjT (a b : Cx R) :
    su2Mat a b * conjT (su2Mat a b) = Cx.ofReal (nrm2 a b) • (1 : Matrix (Fin 2) (Fin 2) (Cx R)) := by
  apply mat2_ext <;> simp [su2Mat, mul2_apply, conjT, nrm2] <;> ext <;> simp <;> ring

theorem su2Mat_det (a b : Cx R) : (su2Mat a b).det = Cx.ofReal (nrm2 a b) := by
  rw [Matrix.det_fin_two]; simp [su2Mat, nrm2]; ext <;> simp <;> ring

/-- **`angle_to_su2` lands in SU(2)**: unitary … -/
theorem angleToSU2_unitary {cb sb : R} {p m : Cx R} (hb : cb * cb + sb * sb = 1)
    (hp : p.re * p.re + p.im * p.im = 1) (hm : m.re * m.re + m.im * m.im = 1) :
    M2 (angleToSU2cs cb sb p m) * conjT (M2 (angleToSU2cs cb sb p m)) = 1 := by
  rw [angleToSU2_eq_su2Mat, su2Mat_mul_conjT]
  have : nrm2 (Cx.smul cb p.conj) (-(Cx.smul sb m.conj)) = 1 := by
    simp [nrm2]; linear_combination (cb * cb) * hp + (sb * sb) * hm + hb
  rw [this]; exact one_smul _ _

/-- … with determinant one. -/
theorem angleToSU2_det {cb sb : R} {p m : Cx R} (hb : cb * cb + sb * sb = 1)
    (hp : p.re * p.re + p.im * p.im = 1) (hm : m.re * m.re + m.im * m.im = 1) :
    (M2 (angleToSU2cs cb sb p m)).det = 1 := by
  rw [angleToSU2_eq_su2Mat, su2Mat_det]
  have : nrm2 (Cx.smul cb p.conj) (-(Cx.smul sb m.conj)) = 1 := by
    simp [nrm2]; linear_combination (cb * cb) * hp + (sb * sb) * hm + hb
  rw [this]; rfl

/-! ### SU(2) → SO(3) -/

/-- the nine complex polynomials of `su2_to_so3` are real: `.real` discards nothing. -/
theorem su2ToSO3cx_im (half : R) (a b : Cx R) (i j : Fin 3) : (su2ToSO3cx half a b i j).im = 0 := by
  fin_cases i <;> fin_cases j <;> simp [su2ToSO3cx] <;> ring

/-- `su2_to_so3` in terms of the four real coordinates `a = w + i x`, `b = y + i z`. -/
theorem su2ToSO3_eq {half : R} (h2 : 2 * half = 1) (a b : Cx R) :
    M3 (su2ToSO3 half a b) = M3 (mk3
      (a.re*a.re - a.im*a.im - b.re*b.re + b.im*b.im) (2*(a.re*a.im + b.re*b.im)) (-(2*(a.re*b.re - a.im*b.im)))
      (-(2*(a.re*a.im - b.re*b.im))) (a.re*a.re - a.im*a.im + b.re*b.re - b.im*b.im) (2*(a.re*b.im + a.im*b.re))
      (2*(a.re*b.re + a.im*b.im)) (-(2*(a.re*b.im - a.im*b.re))) (a.re*a.re + a.im*a.im - b.re*b.re - b.im*b.im)) := by
  apply mat3_ext <;> simp [su2ToSO3, su2ToSO3cx]
  · linear_combination (a.re*a.re - a.im*a.im - b.re*b.re + b.im*b.im) * h2
  · linear_combination (2*(a.re*a.im + b.re*b.im)) * h2
  · ring
  · linear_combination (2*(a.re*a.im - b.re*b.im)) * h2
  · linear_combination (a.re*a.re - a.im*a.im + b.re*b.re - b.im*b.im) * h2
  · ring
  · ring
  · ring
  · ring

/-- **`su2_to_so3` is multiplicative** — for all pairs `(a, b)`, normalised or not. -/
theorem su2ToSO3_mul {half : R} (h2 : 2 * half = 1) (a b a' b' : Cx R) :
    M3 (su2ToSO3 half (su2MulA a b a' b') (su2MulB a b a' b')) = M3 (su2ToSO3 half a b) * M3 (su2ToSO3 half a' b') := by
  rw [su2ToSO3_eq h2, su2ToSO3_eq h2, su2ToSO3_eq h2]
  apply mat3_ext <;> simp [mul3_apply, su2MulA, su2MulB] <;> ring

/-- **two-to-one**: `su2_to_so3(-U) = su2_to_so3(U)`. -/
theorem su2ToSO3_neg (half : R) (a b : Cx R) : su2ToSO3 half (-a) (-b) = su2ToSO3 half a b := by
  funext i j; fin_cases i <;> fin_cases j <;> simp [su2ToSO3, su2ToSO3cx] <;> ring

/-- `su2_to_so3(U) su2_to_so3(U)ᵀ = (|a|²+|b|²)² · 1`; hence orthogonal on SU(2). -/
theorem su2ToSO3_mul_transpose {half : R} (h2 : 2 * half = 1) (a b : Cx R) :
    M3 (su2ToSO3 half a b) * (M3 (su2ToSO3 half a b))ᵀ = (nrm2 a b * nrm2 a b) • (1 : Matrix (Fin 3) (Fin 3) R) := by
  rw [su2ToSO3_eq h2]
  apply mat3_ext <;> simp [mul3_apply, nrm2] <;> ring

theorem su2ToSO3_orthogonal {half : R} (h2 : 2 * half = 1) {a b : Cx R} (hu : nrm2 a b = 1) :
    M3 (su2ToSO3 half a b) * (M3 (su2ToSO3 half a b))ᵀ = 1 := by
  rw [su2ToSO3_mul_transpose h2, hu]; simp

/-- `det su2_to_so3(U) = (|a|²+|b|²)³`; hence `su2_to_so3` maps SU(2) into SO(3). -/
theorem su2ToSO3_det {half : R} (h2 : 2 * half = 1) (a b : Cx R) :
    (M3 (su2ToSO3 half a b)).det = nrm2 a b * nrm2 a b * nrm2 a b := by
  rw [su2ToSO3_eq h2, Matrix.det_fin_three]; simp [nrm2]; ring

/-- **covering of the Euler parametrisations**: `su2_to_so3 (angle_to_su2 α β γ) = angle_to_so3 α β γ`,
in terms of the half-angle data `cb = cos(β/2)`, `sb = sin(β/2)`, `p = e^{i(α+γ)/2}`, `m = e^{i(α-γ)/2}`:
`cos α + i sin α = p·m`, `cos γ + i sin γ = p·m̄`, `cos β = cb² - sb²`, `sin β = 2 sb cb`. -/
theorem su2ToSO3_angleToSU2 {half : R} (h2 : 2 * half = 1) {cb sb : R} {p m : Cx R}
    (hb : cb * cb + sb * sb = 1) (hp : p.re * p.re + p.im * p.im = 1) (hm : m.re * m.re + m.im * m.im = 1) :
    su2ToSO3 half (angleToSU2cs cb sb p m 0 0) (angleToSU2cs cb sb p m 0 1)
      = angleToSO3cs (p * m).re (p * m).im (cb * cb - sb * sb) (2 * sb * cb) (p * m.conj).re (p * m.conj).im := by
  have h := su2ToSO3_eq h2 (angleToSU2cs cb sb p m 0 0) (angleToSU2cs cb sb p m 0 1)
  refine Eq.trans h ?_
  apply mat3_ext <;> simp [angleToSU2cs, angleToSO3cs]
  · linear_combination (m.im^2*p.im^2 - m.re^2*p.re^2 - p.im^2 + p.re^2) * hb + (-m.im^2 + 2*m.re^2*sb^2 - m.re^2 - sb^2 + 1) * hp + (-2*p.im^2*sb^2 + 2*p.im^2 + sb^2 - 1) * hm
  · linear_combination (m.im^2*p.im*p.re - m.im*m.re*p.im^2 - m.im*m.re*p.re^2 + m.re^2*p.im*p.re - 2*p.im*p.re) * hb + (2*m.im*m.re*sb^2) * hp + (-2*p.im*p.re*sb^2 + 2*p.im*p.re) * hm
  · ring
  · linear_combination (-m.im^2*p.im*p.re - m.im*m.re*p.im^2 - m.im*m.re*p.re^2 - m.re^2*p.im*p.re + 2*p.im*p.re) * hb + (2*m.im*m.re*sb^2) * hp + (2*p.im*p.re*sb^2 - 2*p.im*p.re) * hm
  · linear_combination (-m.im^2*p.re^2 + m.re^2*p.im^2 - p.im^2 + p.re^2) * hb + (2*m.im^2*sb^2 - m.im^2 - m.re^2 - sb^2 + 1) * hp + (-2*p.im^2*sb^2 + 2*p.im^2 + sb^2 - 1) * hm
  · ring
  · ring
  · ring
  · linear_combination (p.im^2 + p.re^2 - 1) * hb + (1 - sb^2) * hp + (-sb^2) * hm

/-! ## Part B — over the reals, with `cos / sin / arccos / arg` (instance `instTrigReal`) -/

section real
open Real

/-- **`angle_to_so3 α β γ ∈ SO(3)` for all real angles.** -/
theorem angleToSO3_mem_SO3 (a b g : ℝ) :
    M3 (angleToSO3 a b g) * (M3 (angleToSO3 a b g))ᵀ = 1 ∧ (M3 (angleToSO3 a b g)).det = 1 := by
  have h : ∀ x : ℝ, Real.cos x * Real.cos x + Real.sin x * Real.sin x = 1 := fun x => by
    have := Real.cos_sq_add_sin_sq x; nlinarith [this]
  exact ⟨angleToSO3_orthogonal (h a) (h b) (h g), angleToSO3_det (h a) (h b) (h g)⟩

/-- **`angle_to_su2 α β γ ∈ SU(2)` for all real angles.** -/
theorem angleToSU2_mem_SU2 (a b g : ℝ) :
    M2 (angleToSU2 (1/2) a b g) * conjT (M2 (angleToSU2 (1/2) a b g)) = 1 ∧ (M2 (angleToSU2 (1/2) a b g)).det = 1 := by
  have h : ∀ x : ℝ, Real.cos x * Real.cos x + Real.sin x * Real.sin x = 1 := fun x => by
    have := Real.cos_sq_add_sin_sq x; nlinarith [this]
  exact ⟨angleToSU2_unitary (h _) (h _) (h _), angleToSU2_det (h _) (h _) (h _)⟩

/-- **`su2_to_so3 (angle_to_su2 α β γ) = angle_to_so3 α β γ` for all real angles.** -/
theorem su2ToSO3_angleToSU2_real (a b g : ℝ) :
    su2ToSO3 (1/2) (angleToSU2 (1/2) a b g 0 0) (angleToSU2 (1/2) a b g 0 1) = angleToSO3 a b g := by
  have h : ∀ x : ℝ, Real.cos x * Real.cos x + Real.sin x * Real.sin x = 1 := fun x => by
    have := Real.cos_sq_add_sin_sq x; nlinarith [this]
  unfold angleToSU2
  rw [su2ToSO3_angleToSU2 (by norm_num) (h _) (h _) (h _)]
  unfold angleToSO3
  have ea : (1/2 : ℝ) * (a + g) + 1/2 * (a - g) = a := by ring
  have eg : (1/2 : ℝ) * (a + g) - 1/2 * (a - g) = g := by ring
  have eb : b = 2 * (1/2 * b) := by ring
  congr 1
  · show Real.cos _ * Real.cos _ - Real.sin _ * Real.sin _ = Real.cos a
    rw [← Real.cos_add, ea]
  · show Real.cos _ * Real.sin _ + Real.sin _ * Real.cos _ = Real.sin a
    rw [← ea, Real.sin_add]; ring
  · show Real.cos _ * Real.cos _ - Real.sin _ * Real.sin _ = Real.cos b
    conv_rhs => rw [eb, Real.cos_two_mul]
    have := h (1/2 * b); nlinarith [this]
  · show 2 * Real.sin _ * Real.cos _ = Real.sin b
    conv_rhs => rw [eb, Real.sin_two_mul]
  · show Real.cos _ * Real.cos _ - Real.sin _ * (-Real.sin _) = Real.cos g
    rw [← eg, Real.cos_sub]; ring
  · show Real.cos _ * (-Real.sin _) + Real.sin _ * Real.cos _ = Real.sin g
    rw [← eg, Real.sin_sub]; ring

end real

end Numqi.C15
