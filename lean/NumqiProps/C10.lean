/-
C10 — random generators return valid objects and are reproducible from a seed.

Part A (reproducibility): non-interference of the seed-flow interpreter for closed programs, and the
closedness of every program that `harness/c10.py:translate` extracted from the current source tree
(`NumqiModel/Generated/SeedPrograms.lean`, re-elaborated on every run) is in `NumqiProps/C10Generated.lean`.
Part B (validity): the algebraic normalisation steps with which the generators end
(unit vector, sign-fixed QR, `G Gᴴ / tr`, inverse-square-root conjugation), over exact fields; the
numerical routines (`qr`, `eigh`, `inv`) enter as hypotheses.
-/
import NumqiProofs.SeedFlowLemmas
import Mathlib.LinearAlgebra.Matrix.PosDef
import Mathlib.LinearAlgebra.UnitaryGroup
import Mathlib.Analysis.InnerProductSpace.Basic
import Mathlib.Analysis.Complex.Order
import Mathlib.Tactic

namespace Numqi.C10
open Numqi Numqi.SeedFlow

/-! ## A. reproducibility -/

/-- **Non-interference.**  If every program of the list is seed-closed, then running program `i` with
`seed = int k` from two states that differ *only* in the global numpy / python / torch generator states
and in the OS entropy (same explicit generators, same trace so far) yields the same explicit generators and
the same sequence of drawn numbers — for every bit-generator model `G`, every branch/loop oracle (i.e. every
choice of the other arguments), every fuel. -/
theorem noninterference (G : GenModel) (progs : List Prog) (oracle : Nat → List Nat → Bool)
    (hall : ∀ p ∈ progs, seedClosed progs.length p = true)
    (fuel i k : Nat) (hi : i < progs.length) (st st' : St) (h : st.obs = st'.obs) :
    (run G progs oracle fuel i k st).obs = (run G progs oracle fuel i k st').obs := by
  apply Agree.obs
  unfold run
  have hmem : progs.getD i .done ∈ progs := by
    rw [List.getD_eq_getElem?_getD, List.getElem?_eq_getElem hi]; exact List.getElem_mem _
  exact exec_agree G progs oracle hall fuel _ (.int k) (fun _ => none) [] st st' trivial
    (by intro v hv; simp at hv) (hall _ hmem) (agree_of_obs h)

/-- in particular the result does not depend on the global generators and the entropy at all: it is a function of
the program, the oracle (= the other arguments), the seed and the explicit generators handed in -/
theorem result_function_of_seed (G : GenModel) (progs : List Prog) (oracle : Nat → List Nat → Bool)
    (hall : ∀ p ∈ progs, seedClosed progs.length p = true) (fuel i k : Nat) (hi : i < progs.length)
    (heap trace : List Nat) (gN gP gT e gN' gP' gT' e' : Nat) :
    (run G progs oracle fuel i k ⟨heap, gN, gP, gT, e, trace⟩).obs =
      (run G progs oracle fuel i k ⟨heap, gN', gP', gT', e', trace⟩).obs :=
  noninterference G progs oracle hall fuel i k hi _ _ rfl

/-- the closedness check is not vacuous: the three defects it exists for are rejected.
(1) a helper called without forwarding the seed, (2) a generator bound to the wrong parameter so that the
callee's `seed` stays `None`, (3) a draw from the global numpy generator on one branch only. -/
example :
    seedClosed 2 (.mkRng 0 .param <| .call 1 .none <| .done) = false ∧
    seedClosed 2 (.mkRng 0 .param <| .branch 1 (.call 1 .none .done) (.call 1 (.var 0) .done) <| .done) = false ∧
    seedClosed 2 (.mkRng 0 .param <| .branch 1 (.drawGlobal .numpy .done) (.draw 0 .done) <| .done) = false ∧
    seedClosed 2 (.mkRng 0 .param <| .call 1 (.var 0) <| .draw 0 <| .done) = true := by decide

/-- and interference is real in the semantics: a program that is not closed gives different results for different
global states (so `noninterference` is not true for the wrong reason) -/
example :
    (run lcg [.drawGlobal .numpy .done] (fun _ _ => false) 5 0 7 ⟨[], 1, 0, 0, 0, []⟩).obs ≠
    (run lcg [.drawGlobal .numpy .done] (fun _ _ => false) 5 0 7 ⟨[], 2, 0, 0, 0, []⟩).obs := by decide

/-! ## B. validity: the final normalisation step of each generator, over exact fields

Each lemma is the algebra behind the last lines of one generator; the LAPACK routine that precedes it is a hypothesis.
What is *not* proved here and is covered by the probe only: `rand_special_orthogonal_matrix` (`det exp = exp tr`, see C01),
`rand_choi_op` (partial-trace bookkeeping, see C12), `rand_SpF2` (indexing of Sp(2n,F2), see C09), rank statements. -/

section validity
open Matrix
open scoped ComplexOrder

/-- `rand_haar_state`, `rand_n_sphere`: `ret /= norm(ret)` is a unit vector (for a non-zero draw) -/
theorem haar_state_unit {E : Type*} [NormedAddCommGroup E] [NormedSpace ℝ E] (v : E) (hv : v ≠ 0) :
    ‖(‖v‖⁻¹ : ℝ) • v‖ = 1 := by
  rw [norm_smul, norm_inv, norm_norm, inv_mul_cancel₀ (norm_ne_zero_iff.2 hv)]

/-- `rand_n_ball`: a unit vector scaled by `u^(1/d) ∈ [0,1]` lies in the ball -/
theorem n_ball_mem {E : Type*} [NormedAddCommGroup E] [NormedSpace ℝ E] (u : E) (hu : ‖u‖ = 1) (r : ℝ)
    (h0 : 0 ≤ r) (h1 : r ≤ 1) : ‖r • u‖ ≤ 1 := by
  rw [norm_smul, hu, mul_one, Real.norm_of_nonneg h0]; exact h1

/-- `rand_haar_unitary`: `Q * sign(diag R)` (column scaling by unimodular numbers) is unitary when `Q` is
(contract: `np.linalg.qr` returns a unitary `Q`) -/
theorem qr_sign_fix_unitary {n R : Type*} [Fintype n] [DecidableEq n] [CommRing R] [StarRing R]
    (Q : Matrix n n R) (d : n → R) (hQ : Q ∈ Matrix.unitaryGroup n R) (hd : ∀ i, star (d i) * d i = 1) :
    Q * Matrix.diagonal d ∈ Matrix.unitaryGroup n R := by
  rw [Matrix.mem_unitaryGroup_iff'] at hQ ⊢
  rw [star_eq_conjTranspose] at hQ ⊢
  rw [conjTranspose_mul, diagonal_conjTranspose, Matrix.mul_assoc, ← Matrix.mul_assoc Qᴴ, hQ, Matrix.one_mul,
    diagonal_mul_diagonal, ← diagonal_one]
  congr 1
  funext i
  simpa using hd i

/-- `rand_density_matrix`: `G Gᴴ / tr(G Gᴴ)` has trace one and is positive semidefinite, for any `dim × k` matrix `G`
with non-zero Frobenius norm (`kind='haar'`: `G` Ginibre; `kind='bures'`: `G = (U+1)·Ginibre`) -/
theorem density_matrix {n k : Type*} [Fintype n] [Fintype k] (G : Matrix n k ℂ) (htr : (G * Gᴴ).trace ≠ 0) :
    (((G * Gᴴ).trace)⁻¹ • (G * Gᴴ)).trace = 1 ∧ (((G * Gᴴ).trace)⁻¹ • (G * Gᴴ)).PosSemidef := by
  constructor
  · rw [trace_smul, smul_eq_mul, inv_mul_cancel₀ htr]
  · have h := Matrix.posSemidef_self_mul_conjTranspose G
    exact h.smul (inv_nonneg.2 h.trace_nonneg)

/-- `rand_povm`: with `T = S^{-1/2}` for `S = Σ A_i` (contract of the `eigh`-based inverse square root: `T S T = 1`)
the operators `T A_i T` resolve the identity … -/
theorem povm_resolves {n ι : Type*} [Fintype n] [DecidableEq n] [Fintype ι] (A : ι → Matrix n n ℂ) (T : Matrix n n ℂ)
    (hT : T * (∑ i, A i) * T = 1) : ∑ i, T * A i * T = 1 := by
  rw [← hT, Matrix.mul_sum, Matrix.sum_mul]

/-- … and each of them is positive semidefinite (`T` Hermitian, `A_i = B Bᴴ ⪰ 0`) -/
theorem povm_posSemidef {n : Type*} [Fintype n] (A T : Matrix n n ℂ) (hT : Tᴴ = T) (hA : A.PosSemidef) :
    (T * A * T).PosSemidef := by
  have := hA.mul_mul_conjTranspose_same T
  rwa [hT] at this

/-- `rand_kraus_op`: `K_s = Z_s M` with `M = (V√Λ)^{-ᴴ}` (contract of `eigh` + `inv`: `Mᴴ (Σ Z_sᴴ Z_s) M = 1`)
is a complete Kraus set -/
theorem kraus_complete {m n ι : Type*} [Fintype m] [Fintype n] [DecidableEq n] [Fintype ι]
    (Z : ι → Matrix m n ℂ) (M : Matrix n n ℂ) (hM : Mᴴ * (∑ s, (Z s)ᴴ * Z s) * M = 1) :
    ∑ s, (Z s * M)ᴴ * (Z s * M) = 1 := by
  rw [← hM, Matrix.mul_sum, Matrix.sum_mul]
  apply Finset.sum_congr rfl
  intro s _
  rw [conjTranspose_mul]
  simp only [Matrix.mul_assoc]

/-- `rand_ABk_density_matrix`: the sum over all permutations of the `k` copies is invariant under every permutation
(`T σ` = the axis transposition `np.transpose(·, [0, 1+σ, k+1, k+2+σ])`, an additive action of the symmetric group) -/
theorem ABk_symmetrised {G M : Type*} [Group G] [Fintype G] [AddCommMonoid M]
    (T : G → M →+ M) (hT : ∀ a b x, T a (T b x) = T (a * b) x) (X : M) (τ : G) :
    T τ (∑ σ, T σ X) = ∑ σ, T σ X := by
  rw [map_sum]
  simp only [hT]
  exact Fintype.sum_equiv (Equiv.mulLeft τ) _ _ (fun σ => rfl)

/-- the hypotheses are satisfiable: the identity is unitary and `±1` are unimodular, so a sign flip of a column keeps it unitary -/
example : (1 : Matrix (Fin 2) (Fin 2) ℂ) * Matrix.diagonal ![1, -1] ∈ Matrix.unitaryGroup (Fin 2) ℂ :=
  qr_sign_fix_unitary 1 _ (Submonoid.one_mem _) (by intro i; fin_cases i <;> simp)

end validity

end Numqi.C10
