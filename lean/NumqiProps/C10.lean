/-
C10 — random generators return valid objects and are reproducible from a seed.

Part A (reproducibility): non-interference of the seed-flow interpreter for closed programs, and the
closedness of every program that `harness/c10.py:translate` extracted from the current source tree
(`NumqiModel/Generated/SeedPrograms.lean`, re-elaborated on every run) is in `NumqiProps/C10Generated.lean`.
Part B (validity): the algebraic normalisation steps with which the generators end
(unit vector, sign-fixed QR, `G Gᴴ / tr`, inverse-square-root conjugation), over exact fields; the
numerical routines (`qr`, `eigh`, `inv`) enter as hypotheses.
-/
import NumqiProofs.SeedFlowLemmas
import NumqiProofs.RandNormLemmas
import Mathlib.LinearAlgebra.Matrix.PosDef
import Mathlib.LinearAlgebra.UnitaryGroup
import Mathlib.Analysis.InnerProductSpace.Basic
import Mathlib.Analysis.Complex.Order
import Mathlib.Tactic

namespace Numqi.C10
open Numqi Numqi.SeedFlow

/-! ## A. reproducibility -/

/-- **Non-interference.**  If every program of the list is seed-closed, then running program `i` with
`seed = int k` from two states that differ *only* in the global numpy / python / torch generator states
and in the OS entropy (same explicit generators, same trace so far) yields the same explicit generators and
the same sequence of drawn numbers — for every bit-generator model `G`, every branch/loop oracle (i.e. every
choice of the other arguments), every fuel. -/
theorem noninterference (G : GenModel) (progs : List Prog) (oracle : Nat → List Nat → Bool)
    (hall : ∀ p ∈ progs, seedClosed progs.length p = true)
    (fuel i k : Nat) (hi : i < progs.length) (st st' : St) (h : st.obs = st'.obs) :
    (run G progs oracle fuel i k st).obs = (run G progs oracle fuel i k st').obs := by
  apply Agree.obs
  unfold run
  have hmem : progs.getD i .done ∈ progs := by
    rw [List.getD_eq_getElem?_getD, List.getElem?_eq_getElem hi]; exact List.getElem_mem _
  exact exec_agree G progs oracle hall fuel _ (.int k) (fun _ => none) [] st st' trivial
    (by intro v hv; simp at hv) (hall _ hmem) (agree_of_obs h)

/-- in particular the result does not depend on the global generators and the entropy at all: it is a function of
the program, the oracle (= the other arguments), the seed and the explicit generators handed in -/
theorem result_function_of_seed (G : GenModel) (progs : List Prog) (oracle : Nat → List Nat → Bool)
    (hall : ∀ p ∈ progs, seedClosed progs.length p = true) (fuel i k : Nat) (hi : i < progs.length)
    (heap trace : List Nat) (gN gP gT e gN' gP' gT' e' : Nat) :
    (run G progs oracle fuel i k ⟨heap, gN, gP, gT, e, trace⟩).obs =
      (run G progs oracle fuel i k ⟨heap, gN', gP', gT', e', trace⟩).obs :=
  noninterference G progs oracle hall fuel i k hi _ _ rfl

/-- the closedness check is not vacuous: the three defects it exists for are rejected.
(1) a helper called without forwarding the seed, (2) a generator bound to the wrong parameter so that the
callee's `seed` stays `None`, (3) a draw from the global numpy generator on one branch only. -/
example :
    seedClosed 2 (.mkRng 0 .param <| .call 1 .none <| .done) = false ∧
    seedClosed 2 (.mkRng 0 .param <| .branch 1 (.call 1 .none .done) (.call 1 (.var 0) .done) <| .done) = false ∧
    seedClosed 2 (.mkRng 0 .param <| .branch 1 (.drawGlobal .numpy .done) (.draw 0 .done) <| .done) = false ∧
    seedClosed 2 (.mkRng 0 .param <| .call 1 (.var 0) <| .draw 0 <| .done) = true := by decide

/-- and interference is real in the semantics: a program that is not closed gives different results for different
global states (so `noninterference` is not true for the wrong reason) -/
example :
    (run lcg [.drawGlobal .numpy .done] (fun _ _ => false) 5 0 7 ⟨[], 1, 0, 0, 0, []⟩).obs ≠
    (run lcg [.drawGlobal .numpy .done] (fun _ _ => false) 5 0 7 ⟨[], 2, 0, 0, 0, []⟩).obs := by decide

/-! ## B. validity: the final normalisation step of each generator

The functions below are the constants of `NumqiModel/RandNorm.lean` — the model of the last lines of each generator — which
`Driver/C10.lean` executes (op `nz …`) on the raw draws and LAPACK intermediates captured from the real generator and which the harness
compares with the real output (`harness/c10.py:validity_tie`).  The theorems are about these constants at `K = ℂ`
(`conj = star`, `rsqrt`/`invSqrt0`/`rootN`/`sgn1` acting on the real part); `toMat m n f` is the Mathlib matrix with entries `f i j`.
Hypotheses are the contracts of the numerical routines (`qr`: `Q` unitary; `eigh`: `V` unitary, `S = V Λ Vᴴ`, `λ > 0`; `inv`: `M⁻¹ M = 1`),
not the conclusions.  Not covered here (C01): `rand_special_orthogonal_matrix` = `to_special_orthogonal_exp` (`soExp_real_det_one`,
`soExp_complex_det_one`); probe only: ranks, `rand_separable_dm`, `rand_bipartite_state(k)`, `rand_ABk_density_matrix`,
matrix-subspace generators, `rand_F2`, `rand_SpF2` (C09). -/

section validity
open Matrix Numqi.RandNorm
open scoped ComplexOrder Numqi.RandNorm

/-- `rand_haar_state`, `rand_n_sphere`: the returned vector has unit norm (for a non-zero draw) -/
theorem haar_state_unit (n : Nat) (v : Nat → ℂ) (h : normSq n v ≠ 0) : normSq n (normalize n v) = 1 :=
  normSq_normalize n v h

/-- `rand_n_ball`: the returned point has norm `u^(1/n)`, inside the unit ball for a uniform draw `u ∈ [0,1]` -/
theorem n_ball_mem (n : Nat) (v : Nat → ℂ) (u : ℂ) (h : normSq n v ≠ 0) (hu0 : 0 ≤ u.re) (hu1 : u.re ≤ 1) :
    ∃ ρ : ℝ, 0 ≤ ρ ∧ ρ ≤ 1 ∧ normSq n (ballPoint n v u) = ((ρ * ρ : ℝ) : ℂ) := by
  refine ⟨u.re ^ ((1 : ℝ) / n), Real.rpow_nonneg hu0 _, Real.rpow_le_one hu0 hu1 (by positivity), ballPoint_normSq n v u h⟩

/-- `rand_haar_unitary`: `Q * sign(diag R)` is unitary whenever the `Q` returned by `np.linalg.qr` is -/
theorem haar_unitary_signFix (n : Nat) (Q : Nat → Nat → ℂ) (d : Nat → ℂ)
    (hQ : toMat n n Q ∈ Matrix.unitaryGroup (Fin n) ℂ) : toMat n n (signFix Q d) ∈ Matrix.unitaryGroup (Fin n) ℂ := by
  rw [toMat_signFix]
  rw [Matrix.mem_unitaryGroup_iff'] at hQ ⊢
  rw [star_eq_conjTranspose] at hQ ⊢
  rw [conjTranspose_mul, diagonal_conjTranspose, Matrix.mul_assoc, ← Matrix.mul_assoc (toMat n n Q)ᴴ, hQ, Matrix.one_mul,
    diagonal_mul_diagonal, ← diagonal_one]
  congr 1
  funext i
  simpa using sgn1_unimodular (d i.val)

/-- `rand_density_matrix` (both kinds: for `bures` take `G = buresPre n U G₀`): trace one and positive semidefinite -/
theorem density_matrix_valid (n k : Nat) (G : Nat → Nat → ℂ) (htr : traceN n (gram k G) ≠ 0) :
    (toMat n n (densityMatrix n k G)).trace = 1 ∧ (toMat n n (densityMatrix n k G)).PosSemidef := by
  rw [toMat_densityMatrix]
  have htr' : (toMat n k G * (toMat n k G)ᴴ).trace ≠ 0 := by rwa [← toMat_gram, ← traceN_eq]
  constructor
  · rw [trace_smul, smul_eq_mul, inv_mul_cancel₀ htr']
  · have h := Matrix.posSemidef_self_mul_conjTranspose (toMat n k G)
    exact h.smul (inv_nonneg.2 h.trace_nonneg)

/-- `rand_povm`: with the `eigh` contract for `S = Σ_s B_s B_sᴴ` (the matrix `povmSum`, which the tie compares with the array handed to
`np.linalg.eigh`), the returned operators resolve the identity and each is positive semidefinite -/
theorem povm_valid (n m : Nat) (B : Nat → Nat → Nat → ℂ) (V : Nat → Nat → ℂ) (lam : Nat → ℝ)
    (hV : (toMat n n V)ᴴ * toMat n n V = 1) (hV' : toMat n n V * (toMat n n V)ᴴ = 1) (hpos : ∀ a, a < n → 0 < lam a)
    (hS : toMat n n (povmSum n m B) = toMat n n V * Matrix.diagonal (fun a : Fin n => ((lam a.val : ℝ) : ℂ)) * (toMat n n V)ᴴ) :
    (∑ s : Fin m, toMat n n (povm n B V (fun a => (lam a : ℂ)) s.val)) = 1 ∧
      ∀ s, (toMat n n (povm n B V (fun a => (lam a : ℂ)) s)).PosSemidef := by
  constructor
  · simp only [toMat_povm]
    rw [← Finset.sum_mul, ← Finset.mul_sum, ← toMat_povmSum]
    exact invSqrt_contract n V lam _ hV hV' hpos hS
  · intro s
    rw [toMat_povm]
    have h := (Matrix.posSemidef_self_mul_conjTranspose (toMat n n (B s))).mul_mul_conjTranspose_same
      (toMat n n (invSqrtMat n V fun a => (lam a : ℂ)))
    rwa [invSqrtMat_hermitian] at h

/-- `rand_kraus_op`: with `W = V·diag(√λ)`, the `eigh` contract `Σ_s Z_sᴴ Z_s = W Wᴴ` and the `inv` contract `M⁻¹ W = 1`
(`Minv` is the captured output of `np.linalg.inv`), the returned set `K_s = Z_s (M⁻¹)ᴴ` is complete -/
theorem kraus_valid (N dout din : Nat) (Z : Nat → Nat → Nat → ℂ) (Minv : Nat → Nat → ℂ) (W : Matrix (Fin din) (Fin din) ℂ)
    (hS : ∑ s : Fin N, (toMat dout din (Z s.val))ᴴ * toMat dout din (Z s.val) = W * Wᴴ) (hinv : toMat din din Minv * W = 1) :
    ∑ s : Fin N, (toMat dout din (krausOut din Z Minv s.val))ᴴ * toMat dout din (krausOut din Z Minv s.val) = 1 := by
  simp only [toMat_krausOut, conjTranspose_mul, conjTranspose_conjTranspose]
  have : ∀ s : Fin N, toMat din din Minv * (toMat dout din (Z s.val))ᴴ * (toMat dout din (Z s.val) * (toMat din din Minv)ᴴ)
      = toMat din din Minv * ((toMat dout din (Z s.val))ᴴ * toMat dout din (Z s.val)) * (toMat din din Minv)ᴴ := by
    intro s; simp only [Matrix.mul_assoc]
  rw [Finset.sum_congr rfl fun s _ => this s, ← Finset.sum_mul, ← Finset.mul_sum, hS]
  have : toMat din din Minv * (W * Wᴴ) * (toMat din din Minv)ᴴ = (toMat din din Minv * W) * (toMat din din Minv * W)ᴴ := by
    rw [conjTranspose_mul]; simp only [Matrix.mul_assoc]
  rw [this, hinv]; simp

/-- `rand_hermitian_matrix(eig=…)`: `(EVC * EVL) @ EVCᴴ` is Hermitian for real `EVL` -/
theorem hermitian_valid (n : Nat) (V : Nat → Nat → ℂ) (lam : Nat → ℝ) :
    (toMat n n (hermEig n V fun a => (lam a : ℂ))).IsHermitian := hermEig_hermitian n V lam

/-- `rand_choi_op`: the partial trace over the output of the returned operator is `Tᴴ · Tr_out(np0) · T`; with the contract of the
inverse square root (`T` Hermitian, `T · Tr_out(np0) · T = 1`, see `invSqrt_contract`) it is the identity: trace preserving -/
theorem choi_valid (din dout r : Nat) (G T : Nat → Nat → ℂ) (hT : ∀ i j, conj (T i j) = T j i)
    (hc : ∀ i j, i < din → j < din →
      (sumR din fun k => sumR din fun l => T i k * choiPT din dout r G k l * T l j) = if i = j then 1 else 0)
    (i j : Nat) (hi : i < din) (hj : j < din) :
    sumR dout (fun a => choiOut din dout r G T (i * dout + a) (j * dout + a)) = if i = j then 1 else 0 := by
  rw [choiOut_partial_trace, ← hc i j hi hj]
  simp only [hT]

/-- `rand_adjacent_matrix`: symmetric, zero diagonal, entries in `{0,1}` for draws in `{0,1}` -/
theorem adjacency_valid (D : Nat → Nat → Nat) (hD : ∀ i j, D i j ≤ 1) (i j : Nat) :
    adjacency D i j = adjacency D j i ∧ adjacency D i i = 0 ∧ adjacency D i j ≤ 1 :=
  ⟨adjacency_symm D i j, adjacency_diag D i, adjacency_le_one D hD i j⟩

/-- `rand_F2`: the array returned is the first raw draw that is not rejected; with `not_zero` it is not all-zero, with `not_one` not all-one
— **both** when both flags are set — and every earlier draw was rejected -/
theorem rand_F2_valid (nz no : Bool) (draws : List (List Nat)) (r : List Nat) (k : Nat) (h : f2Result nz no draws = some (r, k)) :
    (nz = true → ¬ (r.all (· == 0) = true)) ∧ (no = true → ¬ (r.all (· == 1) = true)) ∧ draws[k - 1]? = some r := by
  obtain ⟨h1, _, h3, _⟩ := f2Result_spec nz no draws r k h
  simp only [f2Rejected, Bool.or_eq_false_iff, Bool.and_eq_false_iff] at h1
  refine ⟨?_, ?_, h3⟩
  · intro hz hall; rcases h1.1 with h | h <;> simp_all
  · intro ho hall; rcases h1.2 with h | h <;> simp_all

/-- the hypotheses are satisfiable: the identity is unitary, so its sign-fixed version is -/
example : toMat 2 2 (signFix (fun i j => if i = j then 1 else 0) fun _ => -3) ∈ Matrix.unitaryGroup (Fin 2) ℂ := by
  apply haar_unitary_signFix
  have : toMat 2 2 (fun i j => if i = j then (1 : ℂ) else 0) = 1 := by
    ext i j; simp [toMat, Matrix.one_apply, Fin.ext_iff]
  rw [this]; exact Submonoid.one_mem _

end validity

end Numqi.C10
