/-
C05 — entanglement criteria never flag a separable state.

Property theorems only (helper lemmas: `NumqiProofs/EntangleIndex.lean`, `NumqiProofs/EntangleSep.lean`).
(i) index layer: the reshapes / axis permutations of `is_ppt`, `is_generalized_ppt`, `check_reduction_witness`,
`check_swap_witness`, `get_negativity` are the mathematical operations, for every dimension list;
(ii) mathematics over ℂ: for a separable state the matrices / numbers the criteria test are positive, for all local
dimensions, every party and any number of terms; (iii) the verdict layer (comparison operators and tolerances regenerated from the source; robust acceptance) is in
`NumqiProofs/DecisionC05.lean`, a separate module so that a changed tolerance does not take the theorems below with it.
-/
import NumqiProofs.EntangleNuc
import Mathlib.Data.Real.Basic
import Mathlib.Algebra.BigOperators.Pi
import Mathlib.Algebra.BigOperators.Ring.Finset

namespace Numqi.C05
open Numqi Numqi.Ent
open scoped ComplexOrder Kronecker
open Matrix

/-! ## (i) index layer -/

/-- **numpy `transpose` reads the permuted multi-index** (generic; all shapes, all axis permutations). -/
theorem npTranspose_entry {α : Type} (shape perm : List Nat) (x : Nat → α) (o : List Nat)
    (ho : InShape o (permShape shape perm)) :
    npTranspose shape perm x (flat (permShape shape perm) o) = x (flat shape (transposeIn perm o)) :=
  npTranspose_flat shape perm x o ho

/-- … where component `perm[m]` of the input multi-index is component `m` of the output multi-index. -/
theorem transposeIn_component (perm o : List Nat) (hnd : perm.Nodup) (m : Nat) (hm : m < perm.length)
    (hp : perm[m] < perm.length) : (transposeIn perm o).getD (perm[m]) 0 = o.getD m 0 :=
  transposeIn_getD perm o hnd m hm hp

/-- **`is_ppt`, block form** (`a = prod dim[:i]`, `d = dim[i]`, `b = prod dim[i+1:]`):
`reshape(a,d,b,a,d,b).transpose(0,4,2,3,1,5)` exchanges the middle digits of row and column. -/
theorem ptBlock_entry {α : Type} (a d b : Nat) (ρ : Nat → Nat → α) {x0 x1 x2 y0 y1 y2 : Nat}
    (hx0 : x0 < a) (hx1 : x1 < d) (hx2 : x2 < b) (hy0 : y0 < a) (hy1 : y1 < d) (hy2 : y2 < b) :
    ptBlock a d b ρ (flat [a, d, b] [x0, y1, x2]) (flat [a, d, b] [y0, x1, y2])
      = ρ (flat [a, d, b] [x0, x1, x2]) (flat [a, d, b] [y0, y1, y2]) := by
  unfold ptBlock
  rw [← prodL3, ofFlat_flat_append _ (inShape3 hx0 hy1 hx2)]
  have hs : permShape [a, d, b, a, d, b] [0, 4, 2, 3, 1, 5] = [a, d, b] ++ [a, d, b] := rfl
  have := npTranspose_flat [a, d, b, a, d, b] [0, 4, 2, 3, 1, 5] (toFlat (prodL [a, d, b]) ρ)
    ([x0, y1, x2] ++ [y0, x1, y2]) (by rw [hs]; exact (inShape3 hx0 hy1 hx2).append (inShape3 hy0 hx1 hy2))
  rw [hs] at this
  rw [this]
  have ht : transposeIn [0, 4, 2, 3, 1, 5] ([x0, y1, x2] ++ [y0, x1, y2]) = [x0, x1, x2] ++ [y0, y1, y2] := by
    simp [transposeIn, List.range_succ, List.idxOf_cons]
  rw [ht]
  exact toFlat_flat_append [a, d, b] ρ (inShape3 hx0 hx1 hx2) (inShape3 hy0 hy1 hy2)

/-- **`is_ppt`, party `i` of any dimension list**: the matrix handed to the PSD test is the partial transpose on
party `i`: its entry at (x with y_i in slot i, y with x_i in slot i) is `ρ[x,y]`. -/
theorem pptMatrix_entry {α : Type} (dim : List Nat) (i : Nat) (hi : i < dim.length) (ρ : Nat → Nat → α)
    {x y : List Nat} (hx : InShape x dim) (hy : InShape y dim) :
    pptMatrix dim i ρ (flat dim (x.set i (y.getD i 0))) (flat dim (y.set i (x.getD i 0))) = ρ (flat dim x) (flat dim y) := by
  have hxi := hx.getD_lt i hi
  have hyi := hy.getD_lt i hi
  have hxl : i < x.length := by rw [hx.length_eq]; exact hi
  have hyl : i < y.length := by rw [hy.length_eq]; exact hi
  have hx' := hx.set i _ hyi
  have hy' := hy.set i _ hxi
  rw [flat_blocks hx' i hi, flat_blocks hy' i hi, flat_blocks hx i hi, flat_blocks hy i hi]
  simp only [pptMatrix, blocks]
  have e1 : (x.set i (y.getD i 0)).take i = x.take i := take_set_self _ _ _
  have e2 : (x.set i (y.getD i 0)).drop (i + 1) = x.drop (i + 1) := drop_succ_set_self _ _ _
  have e3 : (x.set i (y.getD i 0)).getD i 0 = y.getD i 0 := by simp [List.getD_eq_getElem?_getD, hxl]
  have f1 : (y.set i (x.getD i 0)).take i = y.take i := take_set_self _ _ _
  have f2 : (y.set i (x.getD i 0)).drop (i + 1) = y.drop (i + 1) := drop_succ_set_self _ _ _
  have f3 : (y.set i (x.getD i 0)).getD i 0 = x.getD i 0 := by simp [List.getD_eq_getElem?_getD, hyl]
  rw [e1, e2, e3, f1, f2, f3]
  exact ptBlock_entry _ _ _ ρ (flat_lt (hx.take i)) hxi (flat_lt (hx.drop (i + 1)))
    (flat_lt (hy.take i)) hyi (flat_lt (hy.drop (i + 1)))

/-- **`is_generalized_ppt`, any bipartition `(d0,d1)` of the `2n` axes**: the matrix whose nuclear norm is taken has,
at (row multi-index = components of `(x,y)` on the axes `d0`, column multi-index = components on `d1`), the entry `ρ[x,y]`. -/
theorem gpptMatrix_entry {α : Type} (dim d0 d1 : List Nat) (hperm : (d0 ++ d1).Perm (List.range (dim ++ dim).length))
    (ρ : Nat → Nat → α) {x y : List Nat} (hx : InShape x dim) (hy : InShape y dim) :
    gpptMatrix dim d0 d1 ρ (flat (permShape (dim ++ dim) d0) (d0.map ((x ++ y).getD · 0)))
        (flat (permShape (dim ++ dim) d1) (d1.map ((x ++ y).getD · 0)))
      = ρ (flat dim x) (flat dim y) := by
  have hxy : InShape (x ++ y) (dim ++ dim) := hx.append hy
  have hmem : ∀ p ∈ d0 ++ d1, p < (dim ++ dim).length := fun p hp => List.mem_range.1 (hperm.mem_iff.1 hp)
  have h0 : InShape (d0.map ((x ++ y).getD · 0)) (permShape (dim ++ dim) d0) :=
    inShape_map_getD hxy fun p hp => hmem p (List.mem_append_left _ hp)
  unfold gpptMatrix
  rw [ofFlat_flat_append _ h0, ← permShape_append, ← List.map_append]
  rw [npTranspose_flat _ _ _ _ (inShape_map_getD hxy hmem), transposeIn_map hperm hxy.length_eq]
  exact toFlat_flat_append dim ρ hx hy


theorem mem_gpptDimList {n : Nat} (hn : 1 ≤ n) {p : List Nat × List Nat} :
    p ∈ gpptDimList n ↔
      p.2 = complement (2 * n) p.1 ∧ p.1.Sublist (List.range (2 * n)) ∧
        (p.1.length < n ∨ (p.1.length = n ∧ p.1.head? = some 0)) := by
  obtain ⟨d0, d1⟩ := p
  simp only [gpptDimList, List.mem_cons, List.mem_append, List.mem_flatMap, List.mem_map, List.mem_filter,
    mem_combos, Prod.mk.injEq]
  constructor
  · rintro (⟨rfl, rfl⟩ | ⟨x, hx, y, ⟨hy, hl⟩, rfl, rfl⟩ | ⟨y, ⟨⟨hy, hl⟩, hh⟩, rfl, rfl⟩)
    · exact ⟨(complement_nil _).symm, List.nil_sublist _, Or.inl (by simp; omega)⟩
    · refine ⟨rfl, hy, Or.inl ?_⟩
      have := List.mem_of_mem_tail hx
      rw [List.mem_range] at this; omega
    · exact ⟨rfl, hy, Or.inr ⟨hl, by simpa using hh⟩⟩
  · rintro ⟨rfl, hs, h⟩
    rcases h with h | ⟨h, hh⟩
    · rcases Nat.eq_zero_or_pos d0.length with h0 | h0
      · left; have : d0 = [] := List.length_eq_zero_iff.1 h0
        subst this; exact ⟨rfl, complement_nil _⟩
      · right; left
        refine ⟨d0.length, ?_, d0, ⟨hs, rfl⟩, rfl, rfl⟩
        have : (List.range n).tail = (List.range n).drop 1 := by simp
        rw [this, List.mem_drop_iff_getElem]
        exact ⟨d0.length - 1, by simp; omega, by simp; omega⟩
    · right; right
      exact ⟨d0, ⟨⟨hs, h⟩, by simpa using hh⟩, rfl, rfl⟩

/-- every entry of `_is_generalized_ppt_dim_list(n)` is a split of the `2n` axes into two complementary groups -/
theorem gpptDimList_perm {n : Nat} (hn : 1 ≤ n) {p : List Nat × List Nat} (hp : p ∈ gpptDimList n) :
    (p.1 ++ p.2).Perm (List.range (2 * n)) := by
  obtain ⟨h1, h2, _⟩ := (mem_gpptDimList hn).1 hp
  rw [h1]; exact append_complement_perm h2


/-- **`get_negativity` / `get_ppt_boundary`**: `reshape(dA,dB,dA,dB).transpose(0,3,2,1)` is the partial transpose on B. -/
theorem ptB_entry {α : Type} (dA dB : Nat) (ρ : Nat → Nat → α) {a b a' b' : Nat}
    (ha : a < dA) (hb : b < dB) (ha' : a' < dA) (hb' : b' < dB) :
    ptB dA dB ρ (flat [dA, dB] [a, b']) (flat [dA, dB] [a', b]) = ρ (flat [dA, dB] [a, b]) (flat [dA, dB] [a', b']) := by
  unfold ptB
  rw [← prodL2, ofFlat_flat_append _ (inShape2 ha hb')]
  have hs : permShape [dA, dB, dA, dB] [0, 3, 2, 1] = [dA, dB] ++ [dA, dB] := rfl
  have := npTranspose_flat [dA, dB, dA, dB] [0, 3, 2, 1] (toFlat (prodL [dA, dB]) ρ)
    ([a, b'] ++ [a', b]) (by rw [hs]; exact (inShape2 ha hb').append (inShape2 ha' hb))
  rw [hs] at this
  rw [this]
  have ht : transposeIn [0, 3, 2, 1] ([a, b'] ++ [a', b]) = [a, b] ++ [a', b'] := by
    simp [transposeIn, List.range_succ, List.idxOf_cons]
  rw [ht]
  exact toFlat_flat_append [dA, dB] ρ (inShape2 ha hb) (inShape2 ha' hb')

/-- **`check_reduction_witness`**: the tested matrix is `1 ⊗ ρ_i ⊗ 1 − ρ` (block form). -/
theorem reductionBlock_entry {α : Type} [AddCommGroup α] (a d b : Nat) (ρ : Nat → Nat → α) {x0 x1 x2 y0 y1 y2 : Nat}
    (hx0 : x0 < a) (hx1 : x1 < d) (hx2 : x2 < b) (hy0 : y0 < a) (hy1 : y1 < d) (hy2 : y2 < b) :
    reductionBlock a d b ρ (flat [a, d, b] [x0, x1, x2]) (flat [a, d, b] [y0, y1, y2])
      = (if x0 = y0 ∧ x2 = y2 then
          ∑ s ∈ Finset.range a, ∑ t ∈ Finset.range b, ρ (flat [a, d, b] [s, x1, t]) (flat [a, d, b] [s, y1, t])
         else 0) - ρ (flat [a, d, b] [x0, x1, x2]) (flat [a, d, b] [y0, y1, y2]) := by
  unfold reductionBlock
  simp only [unflat_flat (inShape3 hx0 hx1 hx2), unflat_flat (inShape3 hy0 hy1 hy2), reducedParty, sumRange_eq_sum]
  simp
/-- **`check_swap_witness`**: the tested number is `Σ_{a,b} ρ[(a,b),(b,a)] = tr(ρ·SWAP)`. -/
theorem swapValue_eq {α : Type} [AddCommMonoid α] (d : Nat) (ρ : Nat → Nat → α) :
    swapValue d ρ = ∑ a ∈ Finset.range d, ∑ b ∈ Finset.range d, ρ (a * d + b) (b * d + a) := by
  simp [swapValue, sumRange_eq_sum, flat, prodL]

/-- `swapValue` in terms of the flat two-digit indices -/
theorem swapValue_eq_flat {α : Type} [AddCommMonoid α] (d : Nat) (ρ : Nat → Nat → α) :
    swapValue d ρ = ∑ a ∈ Finset.range d, ∑ b ∈ Finset.range d, ρ (flat [d, d] [a, b]) (flat [d, d] [b, a]) := by
  simp [swapValue, sumRange_eq_sum]

/-! ## (ii) mathematics over ℂ -/

/-- **separable across the cut "party i | rest" ⇒ the partial transpose on party i is PSD** (block form):
`ρ = Σ_k p_k ψ_k ψ_kᴴ`, `ψ_k[(x0,x1,x2)] = u_k[x0,x2]·v_k[x1]`, `p_k ≥ 0`, any block sizes, any number of terms.
The matrix is exactly the one `is_ppt` hands to the PSD test (`ptBlock`). -/
theorem sep_ppt {K : Type} [Fintype K] (a d b : Nat) (p : K → ℝ) (hp : ∀ k, 0 ≤ p k)
    (u : K → Nat → Nat → ℂ) (v : K → Nat → ℂ) :
    (Matrix.of fun r c : Fin (a * d * b) =>
      ptBlock a d b (mixture p fun k => sepBlockVec a d b (u k) (v k)) r c).PosSemidef := by
  have key : (Matrix.of fun r c : Fin (a * d * b) =>
      ptBlock a d b (mixture p fun k => sepBlockVec a d b (u k) (v k)) r c)
      = Matrix.of fun r c : Fin (a * d * b) => ∑ k, (p k : ℂ) *
          sepBlockVec a d b (u k) (fun i => star (v k i)) r * star (sepBlockVec a d b (u k) (fun i => star (v k i)) c) := by
    ext r c
    obtain ⟨r0, r1, r2⟩ := dig_lt r.2
    obtain ⟨c0, c1, c2⟩ := dig_lt c.2
    have h := ptBlock_entry a d b (mixture p fun k => sepBlockVec a d b (u k) (v k)) r0 c1 r2 c0 r1 c2
    rw [flat_dig r.2, flat_dig c.2] at h
    simp only [Matrix.of_apply]
    rw [h]
    simp only [mixture]
    refine Finset.sum_congr rfl fun k _ => ?_
    rw [sepBlockVec_flat _ _ r0 c1 r2, sepBlockVec_flat _ _ c0 r1 c2]
    simp only [sepBlockVec, star_mul', star_star]
    ring
  rw [key]
  exact posSemidef_mixture p hp _


/-- **… ⇒ the reduction-criterion matrix `1 ⊗ ρ_i ⊗ 1 − ρ` is PSD** (block form). Uses Cauchy–Schwarz
(`‖u‖²·1 − u uᴴ ⪰ 0`) and `PosSemidef.kronecker`. -/
theorem sep_reduction {K : Type} [Fintype K] (a d b : Nat) (p : K → ℝ) (hp : ∀ k, 0 ≤ p k)
    (u : K → Nat → Nat → ℂ) (v : K → Nat → ℂ) :
    (Matrix.of fun r c : Fin (a * d * b) =>
      reductionBlock a d b (mixture p fun k => sepBlockVec a d b (u k) (v k)) r c).PosSemidef := by
  classical
  let e : Fin (a * d * b) → (Fin a × Fin b) × Fin d := fun r =>
    ((⟨dig a d b r 0, (dig_lt r.2).1⟩, ⟨dig a d b r 2, (dig_lt r.2).2.2⟩), ⟨dig a d b r 1, (dig_lt r.2).2.1⟩)
  let U : K → Fin a × Fin b → ℂ := fun k i => u k i.1 i.2
  let V : K → Fin d → ℂ := fun k i => v k i
  let A : K → Matrix (Fin a × Fin b) (Fin a × Fin b) ℂ := fun k =>
    (∑ i, U k i * star (U k i)) • (1 : Matrix _ _ ℂ) - vecMulVec (U k) (star (U k))
  let B : K → Matrix (Fin d) (Fin d) ℂ := fun k => vecMulVec (V k) (star (V k))
  have key : (Matrix.of fun r c : Fin (a * d * b) =>
      reductionBlock a d b (mixture p fun k => sepBlockVec a d b (u k) (v k)) r c)
      = (∑ k, (p k : ℂ) • (A k ⊗ₖ B k)).submatrix e e := by
    ext r c
    obtain ⟨r0, r1, r2⟩ := dig_lt r.2
    obtain ⟨c0, c1, c2⟩ := dig_lt c.2
    have h := reductionBlock_entry a d b (mixture p fun k => sepBlockVec a d b (u k) (v k)) r0 r1 r2 c0 c1 c2
    rw [flat_dig r.2, flat_dig c.2] at h
    simp only [Matrix.of_apply, Matrix.submatrix_apply, Matrix.sum_apply, Matrix.smul_apply, smul_eq_mul,
      kroneckerMap_apply]
    rw [h]
    have hn : ∀ k, (∑ i, U k i * star (U k i)) = ∑ s ∈ Finset.range a, ∑ t ∈ Finset.range b, u k s t * star (u k s t) := by
      intro k
      rw [Fintype.sum_prod_type, Finset.sum_range]
      refine Finset.sum_congr rfl fun s _ => ?_
      rw [Finset.sum_range]
    have hmix : ∀ s ∈ Finset.range a, ∀ t ∈ Finset.range b,
        mixture p (fun k => sepBlockVec a d b (u k) (v k)) (flat [a, d, b] [s, dig a d b r 1, t]) (flat [a, d, b] [s, dig a d b c 1, t])
          = ∑ k, (p k : ℂ) * (u k s t * star (u k s t)) * (v k (dig a d b r 1) * star (v k (dig a d b c 1))) := by
      intro s hs t ht
      simp only [mixture]
      refine Finset.sum_congr rfl fun k _ => ?_
      rw [sepBlockVec_flat _ _ (Finset.mem_range.1 hs) r1 (Finset.mem_range.1 ht),
        sepBlockVec_flat _ _ (Finset.mem_range.1 hs) c1 (Finset.mem_range.1 ht), star_mul']
      ring
    have hsum : (∑ s ∈ Finset.range a, ∑ t ∈ Finset.range b,
        mixture p (fun k => sepBlockVec a d b (u k) (v k)) (flat [a, d, b] [s, dig a d b r 1, t]) (flat [a, d, b] [s, dig a d b c 1, t]))
        = ∑ k, (p k : ℂ) * (∑ i, U k i * star (U k i)) * (v k (dig a d b r 1) * star (v k (dig a d b c 1))) := by
      rw [Finset.sum_congr rfl fun s hs => Finset.sum_congr rfl fun t ht => hmix s hs t ht]
      rw [Finset.sum_congr rfl fun s _ => Finset.sum_comm]
      rw [Finset.sum_comm]
      refine Finset.sum_congr rfl fun k _ => ?_
      rw [hn k, Finset.mul_sum, Finset.sum_mul]
      refine Finset.sum_congr rfl fun s _ => ?_
      rw [Finset.mul_sum, Finset.sum_mul]
    have hrho : mixture p (fun k => sepBlockVec a d b (u k) (v k)) r c
        = ∑ k, (p k : ℂ) * (u k (dig a d b r 0) (dig a d b r 2) * star (u k (dig a d b c 0) (dig a d b c 2)))
            * (v k (dig a d b r 1) * star (v k (dig a d b c 1))) := by
      simp only [mixture, sepBlockVec, star_mul']
      refine Finset.sum_congr rfl fun k _ => by ring
    rw [hsum, hrho]
    by_cases hδ : dig a d b r 0 = dig a d b c 0 ∧ dig a d b r 2 = dig a d b c 2
    · rw [if_pos hδ, ← Finset.sum_sub_distrib]
      refine Finset.sum_congr rfl fun k _ => ?_
      have : (e r).1 = (e c).1 := by simp [e, hδ.1, hδ.2]
      have h1 : (1 : Matrix (Fin a × Fin b) (Fin a × Fin b) ℂ) (e r).1 (e c).1 = 1 := by
        rw [this]; exact Matrix.one_apply_eq _
      simp only [A, B, Matrix.sub_apply, Matrix.smul_apply, h1, vecMulVec_apply,
        smul_eq_mul, Pi.star_apply]
      simp only [U, V, e]
      ring
    · rw [if_neg hδ, zero_sub, ← Finset.sum_neg_distrib]
      refine Finset.sum_congr rfl fun k _ => ?_
      have : (e r).1 ≠ (e c).1 := by
        intro h; apply hδ
        simp only [e, Prod.mk.injEq, Fin.mk.injEq] at h
        exact h
      have h1 : (1 : Matrix (Fin a × Fin b) (Fin a × Fin b) ℂ) (e r).1 (e c).1 = 0 := Matrix.one_apply_ne this
      simp only [A, B, Matrix.sub_apply, Matrix.smul_apply, h1, vecMulVec_apply,
        smul_eq_mul, Pi.star_apply]
      simp only [U, V, e]
      ring
  rw [key]
  refine PosSemidef.submatrix ?_ e
  refine posSemidef_sum _ fun k _ => ?_
  refine PosSemidef.smul ?_ (by exact_mod_cast hp k)
  exact (posSemidef_normSq_sub_rankOne (U k)).kronecker (posSemidef_vecMulVec_self_star (V k))


private theorem ptBlock_congr {α : Type} (a d b : Nat) {ρ ρ' : Nat → Nat → α}
    (h : ∀ r c, r < a * d * b → c < a * d * b → ρ r c = ρ' r c) {r c : Nat} (hr : r < a * d * b) (hc : c < a * d * b) :
    ptBlock a d b ρ r c = ptBlock a d b ρ' r c := by
  obtain ⟨r0, r1, r2⟩ := dig_lt hr
  obtain ⟨c0, c1, c2⟩ := dig_lt hc
  have h1 := ptBlock_entry a d b ρ r0 c1 r2 c0 r1 c2
  have h2 := ptBlock_entry a d b ρ' r0 c1 r2 c0 r1 c2
  rw [flat_dig hr, flat_dig hc] at h1 h2
  rw [h1, h2]
  have b1 : flat [a, d, b] [dig a d b r 0, dig a d b c 1, dig a d b r 2] < a * d * b := by
    rw [← prodL3]; exact flat_lt (inShape3 r0 c1 r2)
  have b2 : flat [a, d, b] [dig a d b c 0, dig a d b r 1, dig a d b c 2] < a * d * b := by
    rw [← prodL3]; exact flat_lt (inShape3 c0 r1 c2)
  exact h _ _ b1 b2


private theorem reductionBlock_congr {α : Type} [AddCommGroup α] (a d b : Nat) {ρ ρ' : Nat → Nat → α}
    (h : ∀ r c, r < a * d * b → c < a * d * b → ρ r c = ρ' r c) {r c : Nat} (hr : r < a * d * b) (hc : c < a * d * b) :
    reductionBlock a d b ρ r c = reductionBlock a d b ρ' r c := by
  obtain ⟨r0, r1, r2⟩ := dig_lt hr
  obtain ⟨c0, c1, c2⟩ := dig_lt hc
  have h1 := reductionBlock_entry a d b ρ r0 r1 r2 c0 c1 c2
  have h2 := reductionBlock_entry a d b ρ' r0 r1 r2 c0 c1 c2
  rw [flat_dig hr, flat_dig hc] at h1 h2
  rw [h1, h2, h r c hr hc]
  congr 2
  refine Finset.sum_congr rfl fun s hs => Finset.sum_congr rfl fun t ht => ?_
  refine h _ _ ?_ ?_ <;> rw [← prodL3] <;> apply flat_lt
  · exact inShape3 (Finset.mem_range.1 hs) r1 (Finset.mem_range.1 ht)
  · exact inShape3 (Finset.mem_range.1 hs) c1 (Finset.mem_range.1 ht)


/-- **separable ⇒ PPT, every dimension list, every party, any number of terms.** -/
theorem sep_ppt_full {K : Type} [Fintype K] (dim : List Nat) (i : Nat) (hi : i < dim.length) (p : K → ℝ) (hp : ∀ k, 0 ≤ p k)
    (w : K → Nat → Nat → ℂ) :
    (Matrix.of fun r c : Fin (prodL dim) => pptMatrix dim i (mixture p fun k => prodVec dim (w k)) r c).PosSemidef := by
  have hN := blocks_prod dim i hi
  have base := sep_ppt (prodL (dim.take i)) (dim.getD i 1) (prodL (dim.drop (i + 1))) p hp
    (fun k => restVec dim i (w k)) (fun k => w k i)
  have := base.submatrix (Fin.cast hN.symm)
  convert this using 1
  ext r c
  simp only [Matrix.of_apply, Matrix.submatrix_apply, pptMatrix, blocks, Fin.val_cast]
  have hr : (r : Nat) < prodL (dim.take i) * dim.getD i 1 * prodL (dim.drop (i + 1)) := by rw [hN]; exact r.2
  have hc : (c : Nat) < prodL (dim.take i) * dim.getD i 1 * prodL (dim.drop (i + 1)) := by rw [hN]; exact c.2
  exact ptBlock_congr _ _ _ (mixture_congr p fun k r hr => prodVec_eq_sepBlockVec dim i hi (w k) hr) hr hc



/-- **separable ⇒ reduction criterion, every dimension list, every party, any number of terms.** -/
theorem sep_reduction_full {K : Type} [Fintype K] (dim : List Nat) (i : Nat) (hi : i < dim.length) (p : K → ℝ)
    (hp : ∀ k, 0 ≤ p k) (w : K → Nat → Nat → ℂ) :
    (Matrix.of fun r c : Fin (prodL dim) => reductionMatrix dim i (mixture p fun k => prodVec dim (w k)) r c).PosSemidef := by
  have hN := blocks_prod dim i hi
  have base := sep_reduction (prodL (dim.take i)) (dim.getD i 1) (prodL (dim.drop (i + 1))) p hp
    (fun k => restVec dim i (w k)) (fun k => w k i)
  have := base.submatrix (Fin.cast hN.symm)
  convert this using 1
  ext r c
  simp only [Matrix.of_apply, Matrix.submatrix_apply, reductionMatrix, blocks, Fin.val_cast]
  have hr : (r : Nat) < prodL (dim.take i) * dim.getD i 1 * prodL (dim.drop (i + 1)) := by rw [hN]; exact r.2
  have hc : (c : Nat) < prodL (dim.take i) * dim.getD i 1 * prodL (dim.drop (i + 1)) := by rw [hN]; exact c.2
  exact reductionBlock_congr _ _ _ (mixture_congr p fun k r hr => prodVec_eq_sepBlockVec dim i hi (w k) hr) hr hc


/-- **separable ⇒ swap witness non-negative**: `Σ ρ[(a,b),(b,a)] = Σ_k p_k |⟨b_k|a_k⟩|² ≥ 0` (in the order of ℂ:
real and non-negative), any local dimension, any number of terms. -/
theorem sep_swap {K : Type} [Fintype K] (d : Nat) (p : K → ℝ) (hp : ∀ k, 0 ≤ p k) (w : K → Nat → Nat → ℂ) :
    0 ≤ swapValue d (mixture p fun k => prodVec [d, d] (w k)) := by
  rw [swapValue_eq_flat]
  have h : ∀ a ∈ Finset.range d, ∀ b ∈ Finset.range d,
      mixture p (fun k => prodVec [d, d] (w k)) (flat [d, d] [a, b]) (flat [d, d] [b, a])
        = ∑ k, (p k : ℂ) * ((w k 0 a * star (w k 1 a)) * star (w k 0 b * star (w k 1 b))) := by
    intro a ha b hb
    simp only [mixture]
    refine Finset.sum_congr rfl fun k _ => ?_
    rw [prodVec_flat (inShape2 (Finset.mem_range.1 ha) (Finset.mem_range.1 hb)),
      prodVec_flat (inShape2 (Finset.mem_range.1 hb) (Finset.mem_range.1 ha))]
    simp [List.range_succ, star_mul']
    ring
  rw [Finset.sum_congr rfl fun a ha => Finset.sum_congr rfl fun b hb => h a ha b hb]
  rw [Finset.sum_congr rfl fun a _ => Finset.sum_comm, Finset.sum_comm]
  refine Finset.sum_nonneg fun k _ => ?_
  have : (∑ a ∈ Finset.range d, ∑ b ∈ Finset.range d,
      (p k : ℂ) * ((w k 0 a * star (w k 1 a)) * star (w k 0 b * star (w k 1 b))))
      = (p k : ℂ) * ((∑ a ∈ Finset.range d, w k 0 a * star (w k 1 a)) * star (∑ b ∈ Finset.range d, w k 0 b * star (w k 1 b))) := by
    rw [star_sum, Finset.sum_mul_sum, Finset.mul_sum]
    refine Finset.sum_congr rfl fun a _ => ?_
    rw [Finset.mul_sum]
  rw [this]
  exact mul_nonneg (by exact_mod_cast hp k) (mul_star_self_nonneg _)



private theorem star_list_prod (l : List ℂ) : star l.prod = (l.map star).prod := by
  induction l with
  | nil => simp
  | cons a l ih => simp [star_mul', ih]

private theorem prodVec_outer (dim : List Nat) (w : Nat → Nat → ℂ) {x y : List Nat} (hx : InShape x dim) (hy : InShape y dim) :
    prodVec dim w (flat dim x) * star (prodVec dim w (flat dim y))
      = ((List.range (dim ++ dim).length).map fun m => axisVec dim.length w m ((x ++ y).getD m 0)).prod := by
  rw [prodVec_flat hx, prodVec_flat hy, star_list_prod, List.length_append, List.range_add, List.map_append,
    List.prod_append, List.map_map, List.map_map]
  congr 1
  · congr 1
    refine List.map_congr_left fun j hj => ?_
    have hj' : j < dim.length := List.mem_range.1 hj
    simp only [axisVec, hj', if_true]
    rw [getD_append_left' _ _ _ (by rw [hx.length_eq]; exact hj')]
  · congr 1
    refine List.map_congr_left fun j hj => ?_
    simp only [Function.comp, axisVec]
    rw [if_neg (by omega), getD_append_right' _ _ _ (by rw [hx.length_eq]; omega), hx.length_eq]
    simp

/-- **realignment decomposition.** For a separable `ρ = Σ_k p_k ψ_k ψ_kᴴ` (product vectors, any dimension list, any
number of terms) and any split `(d0,d1)` of the `2n` tensor axes, the matrix whose nuclear norm `is_generalized_ppt`
takes is `Σ_k p_k (row vector)_k (column vector)_k`, each a product of the local factors on its axes. -/
theorem sep_realign_decomp {K : Type} [Fintype K] (dim d0 d1 : List Nat)
    (hperm : (d0 ++ d1).Perm (List.range (dim ++ dim).length)) (p : K → ℝ) (w : K → Nat → Nat → ℂ)
    {x y : List Nat} (hx : InShape x dim) (hy : InShape y dim) :
    gpptMatrix dim d0 d1 (mixture p fun k => prodVec dim (w k))
        (flat (permShape (dim ++ dim) d0) (d0.map ((x ++ y).getD · 0)))
        (flat (permShape (dim ++ dim) d1) (d1.map ((x ++ y).getD · 0)))
      = ∑ k, (p k : ℂ) * (d0.map fun m => axisVec dim.length (w k) m ((x ++ y).getD m 0)).prod
                        * (d1.map fun m => axisVec dim.length (w k) m ((x ++ y).getD m 0)).prod := by
  rw [gpptMatrix_entry dim d0 d1 hperm _ hx hy]
  simp only [mixture]
  refine Finset.sum_congr rfl fun k _ => ?_
  rw [mul_assoc, prodVec_outer dim (w k) hx hy, mul_assoc, ← List.prod_append, ← List.map_append]
  congr 1
  exact (List.Perm.map _ hperm).prod_eq.symm


/-- matrix form of `sep_realign_decomp`: every entry of the realigned matrix, in terms of its own row and column index -/
theorem sep_realign_entry {K : Type} [Fintype K] (dim d0 d1 : List Nat)
    (hperm : (d0 ++ d1).Perm (List.range (dim ++ dim).length)) (p : K → ℝ) (w : K → Nat → Nat → ℂ)
    {r c : Nat} (hr : r < prodL (permShape (dim ++ dim) d0)) (hc : c < prodL (permShape (dim ++ dim) d1)) :
    gpptMatrix dim d0 d1 (mixture p fun k => prodVec dim (w k)) r c
      = ∑ k, (p k : ℂ) * rowVec dim.length (w k) d0 (unflat (permShape (dim ++ dim) d0) r)
                      * rowVec dim.length (w k) d1 (unflat (permShape (dim ++ dim) d1) c) := by
  have hi0 : InShape (unflat (permShape (dim ++ dim) d0) r) (permShape (dim ++ dim) d0) := unflat_inShape _ _ hr
  have hi1 : InShape (unflat (permShape (dim ++ dim) d1) c) (permShape (dim ++ dim) d1) := unflat_inShape _ _ hc
  generalize ho0 : unflat (permShape (dim ++ dim) d0) r = o0 at hi0
  generalize ho1 : unflat (permShape (dim ++ dim) d1) c = o1 at hi1
  have f0 : flat (permShape (dim ++ dim) d0) o0 = r := by rw [← ho0]; exact flat_unflat _ _ hr
  have f1 : flat (permShape (dim ++ dim) d1) o1 = c := by rw [← ho1]; exact flat_unflat _ _ hc
  have hi : InShape (o0 ++ o1) (permShape (dim ++ dim) (d0 ++ d1)) := by rw [permShape_append]; exact hi0.append hi1
  have hzs : InShape (transposeIn (d0 ++ d1) (o0 ++ o1)) (dim ++ dim) := transposeIn_inShape hperm hi
  generalize hz : transposeIn (d0 ++ d1) (o0 ++ o1) = z at hzs
  have hplen : (d0 ++ d1).length = (dim ++ dim).length := by simpa using hperm.length_eq
  have hmap : (d0 ++ d1).map (z.getD · 0) = o0 ++ o1 := by
    rw [← hz]
    exact map_transposeIn (hperm.nodup_iff.2 List.nodup_range)
      (fun q hq => by rw [hplen]; exact List.mem_range.1 (hperm.mem_iff.1 hq))
      (by rw [hi.length_eq]; simp [permShape])
  have hl0 : (d0.map (z.getD · 0)).length = o0.length := by rw [hi0.length_eq]; simp [permShape]
  have hm0 : d0.map (z.getD · 0) = o0 := by
    rw [List.map_append] at hmap
    exact (List.append_inj hmap hl0).1
  have hm1 : d1.map (z.getD · 0) = o1 := by
    rw [List.map_append] at hmap
    exact (List.append_inj hmap hl0).2
  have hzx : InShape (z.take dim.length) dim := by
    have := hzs.take dim.length; simpa using this
  have hzy : InShape (z.drop dim.length) dim := by
    have := hzs.drop dim.length; simpa using this
  have hzz : z.take dim.length ++ z.drop dim.length = z := List.take_append_drop _ _
  have key := sep_realign_decomp dim d0 d1 hperm p w hzx hzy
  rw [hzz, hm0, hm1, f0, f1] at key
  rw [key]
  refine Finset.sum_congr rfl fun k _ => ?_
  simp only [rowVec]
  rw [← hm0, ← hm1, zipWith_map_self, zipWith_map_self]


/-- **separable ⇒ every generalized partial transposition (realignment) has nuclear norm ≤ 1**, for every dimension
list, every split `(d0,d1)` of the `2n` axes (in particular every entry of `_is_generalized_ppt_dim_list`, theorem
`gpptDimList_perm`), any number of terms, normalised local vectors, weights summing to 1.  The nuclear norm is taken in
its dual form `NucLe`; that `np.linalg.norm(ord='nuc')` computes this number is the contract of that routine.
The matrix is exactly the one `is_generalized_ppt` hands to `np.linalg.norm` (`gpptMatrix`). -/
theorem sep_realign_nuc {K : Type} [Fintype K] (dim d0 d1 : List Nat)
    (hperm : (d0 ++ d1).Perm (List.range (dim ++ dim).length)) (p : K → ℝ) (hp : ∀ k, 0 ≤ p k) (hsum : ∑ k, p k = 1)
    (w : K → Nat → Nat → ℂ) (hw : ∀ k j, j < dim.length → ∑ v ∈ Finset.range (dim.getD j 1), ‖w k j v‖ ^ 2 = 1) :
    NucLe (Matrix.of fun (r : Fin (gpptRows dim d0)) (c : Fin (prodL (permShape (dim ++ dim) d1))) =>
      gpptMatrix dim d0 d1 (mixture p fun k => prodVec dim (w k)) r c) 1 := by
  have hmem : ∀ q ∈ d0 ++ d1, q < (dim ++ dim).length := fun q hq => List.mem_range.1 (hperm.mem_iff.1 hq)
  let Rv : K → Fin (gpptRows dim d0) → ℂ := fun k r => rowVec dim.length (w k) d0 (unflat (permShape (dim ++ dim) d0) r)
  let Cv : K → Fin (prodL (permShape (dim ++ dim) d1)) → ℂ := fun k c => star (rowVec dim.length (w k) d1 (unflat (permShape (dim ++ dim) d1) c))
  have key : (Matrix.of fun (r : Fin (gpptRows dim d0)) (c : Fin (prodL (permShape (dim ++ dim) d1))) =>
      gpptMatrix dim d0 d1 (mixture p fun k => prodVec dim (w k)) r c)
      = ∑ k, (p k : ℂ) • vecMulVec (Rv k) (star (Cv k)) := by
    ext r c
    simp only [Matrix.of_apply, Matrix.sum_apply, Matrix.smul_apply, vecMulVec_apply, smul_eq_mul, Pi.star_apply, Rv, Cv, star_star]
    rw [sep_realign_entry dim d0 d1 hperm p w r.2 c.2]
    refine Finset.sum_congr rfl fun k _ => by ring
  rw [key]
  refine nucLe_mixture p hp hsum _ fun k => nucLe_rankOne _ _ (le_of_eq ?_) (le_of_eq ?_)
  · exact sum_rowVec_eq_one (w k) (hw k) d0 fun m hm => hmem m (List.mem_append_left _ hm)
  · simp only [Cv, norm_star]
    exact sum_rowVec_eq_one (w k) (hw k) d1 fun m hm => hmem m (List.mem_append_right _ hm)


/-- candidate `n`-copy extension of `ρ = Σ_k p_k a_k a_kᴴ ⊗ b_k b_kᴴ`:  `Σ_k p_k a_k a_kᴴ ⊗ (b_k b_kᴴ)^{⊗n}`, as a matrix over
`A × (Fin n → B)` -/
def symExt {K A B : Type} [Fintype K] (n : Nat) (p : K → ℝ) (a : K → A → ℂ) (b : K → B → ℂ) :
    Matrix (A × (Fin n → B)) (A × (Fin n → B)) ℂ :=
  Matrix.of fun x y => ∑ k, (p k : ℂ) * (a k x.1 * ∏ t, b k (x.2 t)) * star (a k y.1 * ∏ t, b k (y.2 t))

/-- **separable ⇒ a symmetric (indeed bosonic) extension to any number `n+1` of copies of B exists**:
the candidate is PSD, invariant under every permutation of the copies applied to rows and columns, even under a
permutation applied to the rows alone (supported on the symmetric subspace), and tracing out all copies but the first
returns `ρ` (for normalised `b_k`). -/
theorem sep_symext {K A B : Type} [Fintype K] [Fintype A] [Fintype B] (n : Nat) (p : K → ℝ) (hp : ∀ k, 0 ≤ p k)
    (a : K → A → ℂ) (b : K → B → ℂ) (hb : ∀ k, ∑ v, b k v * star (b k v) = 1) :
    (symExt (n + 1) p a b).PosSemidef
    ∧ (∀ (π : Equiv.Perm (Fin (n + 1))) x y, symExt (n + 1) p a b (x.1, x.2 ∘ π) (y.1, y.2 ∘ π) = symExt (n + 1) p a b x y)
    ∧ (∀ (π : Equiv.Perm (Fin (n + 1))) x y, symExt (n + 1) p a b (x.1, x.2 ∘ π) y = symExt (n + 1) p a b x y)
    ∧ (∀ (x y : A × B), ∑ β : Fin n → B, symExt (n + 1) p a b (x.1, Fin.cons x.2 β) (y.1, Fin.cons y.2 β)
          = ∑ k, (p k : ℂ) * (a k x.1 * b k x.2) * star (a k y.1 * b k y.2)) := by
  have hperm : ∀ (k : K) (π : Equiv.Perm (Fin (n + 1))) (β : Fin (n + 1) → B), ∏ t, b k ((β ∘ π) t) = ∏ t, b k (β t) :=
    fun k π β => Equiv.prod_comp π fun t => b k (β t)
  refine ⟨posSemidef_mixture p hp _, ?_, ?_, ?_⟩
  · intro π x y
    simp only [symExt, Matrix.of_apply, hperm]
  · intro π x y
    simp only [symExt, Matrix.of_apply, hperm]
  · intro x y
    simp only [symExt, Matrix.of_apply, Fin.prod_univ_succ, Fin.cons_zero, Fin.cons_succ]
    rw [Finset.sum_comm]
    refine Finset.sum_congr rfl fun k _ => ?_
    have h1 : ∀ β : Fin n → B, (p k : ℂ) * (a k x.1 * (b k x.2 * ∏ t, b k (β t))) * star (a k y.1 * (b k y.2 * ∏ t, b k (β t)))
        = ((p k : ℂ) * (a k x.1 * b k x.2) * star (a k y.1 * b k y.2)) * ∏ t, (b k (β t) * star (b k (β t))) := by
      intro β
      rw [Finset.prod_mul_distrib]
      simp only [star_mul', star_prod]
      ring
    rw [Finset.sum_congr rfl fun β _ => h1 β, ← Finset.mul_sum]
    have h2 : (∑ β : Fin n → B, ∏ t, (b k (β t) * star (b k (β t)))) = ∏ _t : Fin n, ∑ v, b k v * star (b k v) := by
      have := Finset.prod_univ_sum (fun _ : Fin n => (Finset.univ : Finset B)) fun _ v => b k v * star (b k v)
      rw [this, Fintype.piFinset_univ]
    rw [h2, Finset.prod_congr rfl fun _ _ => hb k]
    simp

/-! ## an analytically complete family: Bell-diagonal states -/

/-- concrete read-out of the two-qubit partial transpose -/
theorem ptB22 {α : Type} (M : Nat → Nat → α) (r c : Fin 4) :
    ptB 2 2 M r c = M (r / 2 * 2 + c % 2) (c / 2 * 2 + r % 2) := by
  fin_cases r <;> fin_cases c <;> rfl

/-- partial transpose of `2ρ` for a Bell-diagonal state, as a complex 4×4 matrix -/
def bellPT (p : Nat → ℝ) : Matrix (Fin 4) (Fin 4) ℂ :=
  Matrix.of fun r c : Fin 4 => ptB 2 2 (bellDiag2 fun i => (p i : ℂ)) r c

theorem bellPT_eq_mixture (p : Nat → ℝ) (hs : p 0 + p 1 + p 2 + p 3 = 1) :
    bellPT p = Matrix.of fun r c : Fin 4 => ∑ k : Fin 4,
      (((1 - 2 * p (3 - k)) / 2 : ℝ) : ℂ) * (bellVec k r : ℂ) * star (bellVec k c : ℂ) := by
  have hs' : (p 0 : ℂ) + p 1 + p 2 + p 3 = 1 := by exact_mod_cast hs
  ext r c
  simp only [bellPT, Matrix.of_apply, ptB22, Fin.sum_univ_four]
  have h3 : (p 3 : ℂ) = 1 - p 0 - p 1 - p 2 := by linear_combination hs'
  fin_cases r <;> fin_cases c <;> simp [bellDiag2, bellVec, h3] <;> ring


/-- **Bell-diagonal states: PPT ⇔ every weight ≤ ½** (`p_max ≤ ½`). The matrix is the one `is_ppt` / `get_negativity`
build (`ptB 2 2`), for `ρ = Σ_i p_i |Bell_i⟩⟨Bell_i|`, `Σ p = 1`; its eigenvalues are `½ − p_i`. -/
theorem bellDiag_ppt_iff (p : Nat → ℝ) (hs : p 0 + p 1 + p 2 + p 3 = 1) :
    (bellPT p).PosSemidef ↔ ∀ i < 4, p i ≤ 1 / 2 := by
  constructor
  · intro h i hi
    -- quadratic form at the Bell vector that carries the eigenvalue 1 - 2 p_i
    have hq := h.dotProduct_mulVec_nonneg (fun r : Fin 4 => (bellVec (3 - i) r : ℂ))
    have h3 : (p 3 : ℂ) = 1 - p 0 - p 1 - p 2 := by
      have hs' : (p 0 : ℂ) + p 1 + p 2 + p 3 = 1 := by exact_mod_cast hs
      linear_combination hs'
    have key : star (fun r : Fin 4 => (bellVec (3 - i) r : ℂ)) ⬝ᵥ (bellPT p *ᵥ fun r : Fin 4 => (bellVec (3 - i) r : ℂ))
        = ((2 * (1 - 2 * p i) : ℝ) : ℂ) := by
      simp only [bellPT, dotProduct, mulVec, Matrix.of_apply, ptB22, Fin.sum_univ_four, Pi.star_apply]
      interval_cases i <;> simp [bellDiag2, bellVec, h3] <;> ring
    rw [key, Complex.zero_le_real] at hq
    linarith
  · intro h
    rw [bellPT_eq_mixture p hs]
    exact posSemidef_mixture _ (fun k => by
      have := h (3 - k) (by omega)
      linarith) _


/-! ## the hypotheses are satisfiable, the statements are not vacuous -/

/-- the boundary state `p = (½, ½, 0, 0)` is PPT, the Bell state `p = (1,0,0,0)` is not -/
example : (bellPT fun i => if i < 2 then 1 / 2 else 0).PosSemidef :=
  (bellDiag_ppt_iff _ (by norm_num)).2 fun i hi => by interval_cases i <;> norm_num

example : ¬ (bellPT fun i => if i = 0 then 1 else 0).PosSemidef := fun h => by
  have := (bellDiag_ppt_iff _ (by norm_num)).1 h 0 (by norm_num)
  norm_num at this


/-- a valid multi-index exists for every shape used by the harness, e.g. `(1,2,1)` in `(2,3,2)` -/
example : InShape [1, 2, 1] [2, 3, 2] := by unfold InShape; simp

/-- the model really transposes: partial transpose of party 1 of a `2×2` system with entries `ρ[r,c] = 4r+c` -/
example : (List.range 4).map (fun r => (List.range 4).map fun c => pptMatrix [2, 2] 1 (fun r c => 4 * r + c) r c)
    = [[0, 4, 2, 6], [1, 5, 3, 7], [8, 12, 10, 14], [9, 13, 11, 15]] := by decide

/-- middle party of three (`(2,2,2)`, party 1): only the middle bit of row and column is exchanged -/
example : pptMatrix [2, 2, 2] 1 (fun r c => 8 * r + c) 0b010 0b101 = 8 * 0b000 + 0b111 := by decide

/-- the bipartition list for two parties, as produced by the model (compared with the implementation on every run) -/
example : gpptDimList 2 = [([], [0, 1, 2, 3]), ([0], [1, 2, 3]), ([1], [0, 2, 3]), ([2], [0, 1, 3]), ([3], [0, 1, 2]),
    ([0, 1], [2, 3]), ([0, 2], [1, 3]), ([0, 3], [1, 2])] := by decide

/-- the permutation hypothesis of `gpptMatrix_entry` holds for every entry of the list (here: realignment `(0,2),(1,3)`) -/
example : (([0, 2] : List Nat) ++ [1, 3]).Perm (List.range ([2, 3] ++ [2, 3]).length) := by decide

/-- the separability hypotheses are satisfiable (one term, weight 1) and the conclusion is about a concrete matrix -/
example : (Matrix.of fun r c : Fin (prodL [2, 3]) =>
    pptMatrix [2, 3] 1 (mixture (fun _ : Unit => 1) fun _ => prodVec [2, 3] fun _ _ => 1) r c).PosSemidef :=
  sep_ppt_full [2, 3] 1 (by decide) _ (fun _ => zero_le_one) _

end Numqi.C05
