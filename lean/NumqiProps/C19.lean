/-
C19 — shipped quantum codes satisfy Knill–Laflamme and their listed stabilizers.

Model: `NumqiModel/Qec.lean` (executed by `Driver/C19.lean`); data: `NumqiModel/Generated/QecCircuits.lean`
(rewritten from the live `numqi.qec.generate_code*()` objects on every run, so the per-code theorems
below are re-checked by the kernel whenever an encoder, a listed string or a stabilizer circuit changes).

Reading guide.  A state vector is a function `position → amplitude` over a commutative ring `R` with an
element `I`, `I² = -1` (instantiate `R = ℂ`); `codeword I c a` is the model of
`generate_code_np(c.encode, K)[a]` scaled by `√2^h` (`h` Hadamards); `pauliAct I P v` is the Pauli operator
`P = i^k X^x Z^z` applied to `v`; `ip n u v = Σ_{i<2^n} conj(u_i) v_i`.
Helper lemmas: `NumqiProofs/Qec*.lean`.  Error-set theorems: `NumqiProps/C19ErrorSets.lean`.
-/
import NumqiProofs.QecKL
import NumqiProofs.QecErrorList
import NumqiProofs.QecParseval
import NumqiProofs.QecEnumOrder
import NumqiProofs.QecBridge
import NumqiProofs.QecLoss
import NumqiProofs.QecTab
import NumqiProofs.QecShift
import NumqiModel.Generated.QecCircuits
import Mathlib.Data.Complex.Basic

namespace Numqi.C19
open Numqi Numqi.Qec Numqi.Qec.Generated

set_option maxRecDepth 100000

variable {R : Type} [CommRing R]

/-! ### general theorems (every code, every circuit of the modelled gates, `n ≤ 32` qubits) -/

/-- **The tableau is conjugation.**  Propagating `P` through the gate list with the tableau rules gives
`P' = U P U†`:  `U (P v) = P' (U v)` for every vector `v`. -/
theorem tableau_is_conjugation {I : R} (hI : I * I = -1) {n : Nat} (hn : n ≤ 32) (gs : List Gate)
    (hg : gs.all (gateOk n) = true) (p p' : MP) (h : conjCirc p gs = some p') (v : Nat → R) :
    run I gs (pauliAct I p v) = pauliAct I p' (run I gs v) :=
  conjCirc_sound hI hn gs hg p p' h v

/-- **Product and commutation on the masks are those of the operators**, phase included. -/
theorem pauli_product_law {I : R} (hI : I * I = -1) (a b : MP) (v : Nat → R) :
    pauliAct I (MP.mul a b) v = pauliAct I a (pauliAct I b v)
    ∧ pauliAct I a (pauliAct I b v) = fun i => (if MP.acomm a b then -1 else 1) * pauliAct I b (pauliAct I a v) i :=
  ⟨pauliAct_mul hI a b v, pauliAct_comm hI a b v⟩

variable [StarRing R]

/-- **Pauli operators are unitary** on `n` qubits. -/
theorem pauli_unitary {I : R} (hI : I * I = -1) (hs : star I = -I) {n : Nat} (p : MP) (hx : p.x < 2 ^ n)
    (u v : Nat → R) : ip n (pauliAct I p u) (pauliAct I p v) = ip n u v :=
  ip_pauliAct hI hs p hx u v

/-- **Every circuit is an isometry up to the `√2` scaling of `H`.** -/
theorem circuit_isometry {I : R} (hI : I * I = -1) (hs : star I = -I) (h2 : ∀ a b : R, 2 * a = 2 * b → a = b)
    {n : Nat} (gs : List Gate) (hg : gs.all (gateOk n) = true) (u v : Nat → R) :
    ip n (run I gs u) (run I gs v) = 2 ^ countH gs * ip n u v :=
  ip_run hI hs h2 gs hg u v

/-- **Code words are orthonormal** (after the `1/√2^h` scaling): `⟨c_a|c_b⟩ = 2^h δ_ab`. -/
theorem codewords_orthonormal {I : R} (hI : I * I = -1) (hs : star I = -I) (h2 : ∀ a b : R, 2 * a = 2 * b → a = b)
    (c : Code) (hc : shapeCheck c = true) (a b : Nat) (ha : a < c.K) (hb : b < c.K) :
    ip c.n (codeword I c a) (codeword I c b) = if a = b then 2 ^ countH c.encode else 0 :=
  codeword_ortho hI hs h2 c hc a b ha hb

/-- **`stabilizer_KL`: the Pauli-level check implies Knill–Laflamme on the vectors, for every Pauli
string below the distance.**  If `klCheck c = true` then for every string `s` of `n` symbols I/X/Y/Z of
weight `1 ≤ w < d` there is a scalar `κ` with `⟨c_a| σ_s |c_b⟩ = κ δ_ab` for all code words. -/
theorem stabilizer_KL {I : R} (hI : I * I = -1) (hs : star I = -I) (h2 : ∀ a b : R, 2 * a = 2 * b → a = b)
    (c : Code) (h : klCheck c = true) (s : List Nat) (hl : s.length = c.n) (h4 : ∀ x ∈ s, x < 4)
    (hw1 : 1 ≤ symWeight s) (hw2 : symWeight s < c.d) :
    ∃ κ : R, ∀ a < c.K, ∀ b < c.K,
      ip c.n (codeword I c a) (pauliAct I (MP.ofSyms s) (codeword I c b)) = if a = b then κ else 0 := by
  have hm := errorList_complete c.n c.d s hl h4 hw1 hw2
  rw [List.mem_map] at hm
  obtain ⟨e, he, rfl⟩ := hm
  rw [← ofSparse_eq_ofSyms c.n c.d e he]
  exact kl_of_klCheck hI hs h2 c h e he

/-- **Parseval identity of the Pauli basis** `X^x Z^z`, `x,z < 2^n`:
`Σ_{x,z} conj⟨u|P|v⟩ ⟨w|P|y⟩ = 2^n ⟨w|u⟩⟨v|y⟩`. -/
theorem pauli_basis_parseval {I : R} (hI : I * I = -1) (h2 : ∀ a b : R, 2 * a = 2 * b → a = b) (n : Nat) (hn : n ≤ 32)
    (u v w y : Nat → R) :
    ∑ x ∈ Finset.range (2 ^ n), ∑ z ∈ Finset.range (2 ^ n),
        star (ip n u (pauliAct I ⟨0, x, z⟩ v)) * ip n w (pauliAct I ⟨0, x, z⟩ y) = 2 ^ n * (ip n w u * ip n v y) :=
  pauli_parseval hI h2 n hn u v w y

/-- **Weight-enumerator sum rules** for the code words of any shape-correct code (`N = 2^h` is their squared norm;
sums over the whole Pauli basis, identity included): `Σ_P |Σ_a ⟨c_a|P|c_a⟩|² = 2^n K N²`,
`Σ_P Σ_ab |⟨c_a|P|c_b⟩|² = 2^n K² N²`, i.e. `Σ_j A_j = 2^n/K`, `Σ_j B_j = 2^n K` in the normalisation of
`quantum_weight_enumerator` (which omits `A_0 = B_0 = 1`). -/
theorem weight_enumerator_sum_rules {I : R} (hI : I * I = -1) (hs : star I = -I) (h2 : ∀ a b : R, 2 * a = 2 * b → a = b)
    (c : Code) (hc : shapeCheck c = true) :
    (∑ x ∈ Finset.range (2 ^ c.n), ∑ z ∈ Finset.range (2 ^ c.n),
        star (∑ a ∈ Finset.range c.K, ip c.n (codeword I c a) (pauliAct I ⟨0, x, z⟩ (codeword I c a)))
          * (∑ a ∈ Finset.range c.K, ip c.n (codeword I c a) (pauliAct I ⟨0, x, z⟩ (codeword I c a))))
      = 2 ^ c.n * (c.K * (2 ^ countH c.encode * 2 ^ countH c.encode))
    ∧ (∑ x ∈ Finset.range (2 ^ c.n), ∑ z ∈ Finset.range (2 ^ c.n), ∑ a ∈ Finset.range c.K, ∑ b ∈ Finset.range c.K,
        star (ip c.n (codeword I c a) (pauliAct I ⟨0, x, z⟩ (codeword I c b)))
          * ip c.n (codeword I c a) (pauliAct I ⟨0, x, z⟩ (codeword I c b)))
      = 2 ^ c.n * (c.K * c.K * (2 ^ countH c.encode * 2 ^ countH c.encode)) := by
  have hn : c.n ≤ 32 := by
    simp only [shapeCheck, Bool.and_eq_true, decide_eq_true_eq] at hc
    exact hc.1.2
  exact enumerator_sum_rules hI h2 c.n hn c.K (2 ^ countH c.encode) (fun a => codeword I c a)
    (fun a ha b hb => codeword_ortho hI hs h2 c hc a b ha hb)

attribute [local instance] starConj

/-- **What the model of `quantum_weight_enumerator` returns, entry by entry**: `retA[w]·K²` and `retB[w]·K`
are the sums, over the Pauli strings of weight exactly `w + 1`, of `|Σ_a⟨c_a|σ|c_a⟩|²` resp. `Σ_ab|⟨c_a|σ|c_b⟩|²`
(`enumTerm`), for any list of vectors. -/
theorem weight_enumerator_by_weight (I : R) (n : Nat) (cw : List (Nat → R)) (w : Nat) :
    (enumLevel I n cw w).1
        = ∑ s ∈ (allSyms n).toFinset.filter (fun s => symWeight s = w + 1), (enumTerm I n cw (MP.ofSyms s)).1
    ∧ (enumLevel I n cw w).2
        = ∑ s ∈ (allSyms n).toFinset.filter (fun s => symWeight s = w + 1), (enumTerm I n cw (MP.ofSyms s)).2 :=
  enumLevel_eq_strings I n cw w

/-- **Sum rules for the returned arrays**, code words of a shape-correct code (`N = 2^h`): adding the weight-0
terms `A'_0 = (K·2^h)²`, `B'_0 = K·4^h` that the implementation leaves out,
`Σ_w retA'[w] + A'_0 = 2^n K 4^h` and `Σ_w retB'[w] + B'_0 = 2^n K² 4^h`; after the division by `K²` resp. `K`
(and by `4^h` for the scaling): `A_0 = B_0 = 1`, `Σ_{j=1..n} A_j = 2^n/K - 1`, `Σ_{j=1..n} B_j = 2^n K - 1`. -/
theorem weight_enumerator_arrays_sum_rules {I : R} (hI : I * I = -1) (hs : star I = -I)
    (h2 : ∀ a b : R, 2 * a = 2 * b → a = b) (c : Code) (hc : shapeCheck c = true) :
    let cw := (List.range c.K).map (fun a => codeword I c a)
    sumL ((weightEnum I c.n cw).map (·.1)) + (enumTerm I c.n cw MP.one).1
        = 2 ^ c.n * (c.K * (2 ^ countH c.encode * 2 ^ countH c.encode))
    ∧ sumL ((weightEnum I c.n cw).map (·.2)) + (enumTerm I c.n cw MP.one).2
        = 2 ^ c.n * (c.K * c.K * (2 ^ countH c.encode * 2 ^ countH c.encode))
    ∧ enumTerm I c.n cw MP.one
        = (star ((c.K : R) * 2 ^ countH c.encode) * (c.K * 2 ^ countH c.encode),
           c.K * (star ((2 : R) ^ countH c.encode) * 2 ^ countH c.encode)) := by
  have hn : c.n ≤ 32 := by
    simp only [shapeCheck, Bool.and_eq_true, decide_eq_true_eq] at hc
    exact hc.1.2
  exact weightEnum_sum_rules hI hs h2 c.n hn c.K (2 ^ countH c.encode) (fun a => codeword I c a)
    (fun a ha b hb => codeword_ortho hI hs h2 c hc a b ha hb)

/-- **`0 ≤ A_j ≤ B_j`** for every returned entry (over ℂ, any `K` vectors; Cauchy–Schwarz):
`retA'[w]`, `retB'[w]` are non-negative reals and `retA'[w] ≤ K·retB'[w]`, i.e. `A_{w+1} = retA'/K² ≤ retB'/K = B_{w+1}`. -/
theorem weight_enumerator_order (n K : Nat) (c : Nat → Nat → ℂ) (w : Nat) :
    NonnegReal (enumLevel Complex.I n ((List.range K).map c) w).1
    ∧ NonnegReal (enumLevel Complex.I n ((List.range K).map c) w).2
    ∧ (enumLevel Complex.I n ((List.range K).map c) w).1.re ≤ K * (enumLevel Complex.I n ((List.range K).map c) w).2.re :=
  weightEnum_order n K c w

omit [StarRing R] in
/-- **C19's Pauli action is C08's matrix**: for masks below `2^n`, `pauliAct I p v` at the position of the basis
state `b'` is `Σ_b mat I (toPauli n p) b' b · v(pos b)`, with `C08.mat` the matrix of `i^k X^x Z^z` whose
product / inverse / commutation laws are proved in `NumqiProps/C08.lean`. -/
theorem pauliAct_is_C08_matrix {I : R} (hI : I * I = -1) {n : Nat} (hn : n ≤ 32) (p : MP) (hx : p.x < 2 ^ n)
    (v : Nat → R) (b' : Bits n) :
    pauliAct I p v (posOf b') = (Matrix.mulVec (C08.mat I (toPauli n p)) (fun b => v (posOf b))) b' :=
  pauliAct_eq_mat hI hn p hx v b'

omit [StarRing R] in
/-- **`knill_laflamme_loss(M,'L2') = 0` iff the Knill–Laflamme conditions hold on the entries it uses**
(strict upper triangle zero, diagonal constant), for every array of Gaussian rationals. -/
theorem knill_laflamme_loss_zero_iff (E K : Nat) (M : Nat → Nat → Nat → QI) :
    klLossL2 E K M = 0 ↔
      ∀ e < E, (∀ a < K, ∀ b < K, a < b → M e a b = 0) ∧ (∀ a < K, M e a a = klMean K M e) :=
  klLossL2_eq_zero_iff E K M

omit [StarRing R] in
/-- **Listed stabilizers fix every code word**, sign `+1` included. -/
theorem listed_stabilizers_fix {I : R} (hI : I * I = -1) (c : Code) (h : listedCheck c = true)
    (l : List Nat) (hl : l ∈ c.listed) (a : Nat) (ha : a < c.K) :
    pauliAct I (MP.ofSyms l) (codeword I c a) = codeword I c a :=
  listed_fix_of_listedCheck hI c h l hl a ha

omit [StarRing R] in
/-- **The shipped stabilizer circuits implement exactly the listed Pauli strings**: one circuit per
listed string, and the circuit acts on every vector as that operator. -/
theorem stabilizer_circuit_implements {I : R} (hI : I * I = -1) (c : Code) (h : stabCircImplCheck c = true) :
    c.stabCircs.length = c.listed.length ∧
    ∀ cl ∈ c.stabCircs.zip c.listed, ∀ v : Nat → R, run I cl.1 v = pauliAct I (MP.ofSyms cl.2) v :=
  stabCirc_of_check hI c h

/-! ### the statement for one code over `ℂ`, and the three Boolean obligations that imply it -/

/-- what C19 asserts about one shipped code, over the complex numbers -/
def Holds (c : Code) : Prop :=
  (∀ a < c.K, ∀ b < c.K,
      ip c.n (codeword Complex.I c a) (codeword Complex.I c b) = if a = b then 2 ^ countH c.encode else 0)
  ∧ (∀ s : List Nat, s.length = c.n → (∀ x ∈ s, x < 4) → 1 ≤ symWeight s → symWeight s < c.d →
      ∃ κ : ℂ, ∀ a < c.K, ∀ b < c.K,
        ip c.n (codeword Complex.I c a) (pauliAct Complex.I (MP.ofSyms s) (codeword Complex.I c b)) = if a = b then κ else 0)
  ∧ (∀ l ∈ c.listed, ∀ a < c.K, pauliAct Complex.I (MP.ofSyms l) (codeword Complex.I c a) = codeword Complex.I c a)
  ∧ (c.stabCircs.length = c.listed.length ∧ c.listed ≠ [] ∧
      ∀ cl ∈ c.stabCircs.zip c.listed, ∀ v : Nat → ℂ, run Complex.I cl.1 v = pauliAct Complex.I (MP.ofSyms cl.2) v)

theorem complex_hyps : Complex.I * Complex.I = -1 ∧ star Complex.I = -Complex.I ∧ ∀ a b : ℂ, 2 * a = 2 * b → a = b :=
  ⟨Complex.I_mul_I, Complex.conj_I, fun _ _ h => mul_left_cancel₀ two_ne_zero h⟩

/-- the three kernel-checked obligations imply the full statement -/
theorem holds_of_checks (c : Code) (h1 : klCheck c = true) (h2 : listedCheck c = true) (h3 : stabCircImplCheck c = true) :
    Holds c := by
  obtain ⟨hI, hs, h2'⟩ := complex_hyps
  have hshape : shapeCheck c = true := by
    unfold klCheck at h1; rw [Bool.and_eq_true] at h1; exact h1.1
  have hne : c.listed ≠ [] := by
    unfold listedCheck at h2
    simp only [Bool.and_eq_true, Bool.not_eq_true', List.isEmpty_eq_false_iff] at h2
    exact h2.1.2
  refine ⟨fun a ha b hb => codewords_orthonormal hI hs h2' c hshape a b ha hb,
    fun s hl h4 hw1 hw2 => stabilizer_KL hI hs h2' c h1 s hl h4 hw1 hw2,
    fun l hl a ha => listed_stabilizers_fix hI c h2 l hl a ha, ?_⟩
  obtain ⟨e1, e2⟩ := stabilizer_circuit_implements (R := ℂ) hI c h3
  exact ⟨e1, hne, e2⟩

/-! ### shifted registers: `Circuit.shift_qubit_index_` and `VarQEC` -/

omit [StarRing R] in
/-- **`shift_qubit_index_(k)` commutes with running the circuit**: the gate list with every index moved up by `k`, run on a
vector of the larger register, is the original list run on each slice with the first `k` qubits fixed (position `lo < 2^k`). -/
theorem shift_runs_on_upper_qubits (I : R) (k lo : Nat) (hlo : lo < 2 ^ k) (gs : List Gate) (w : Nat → R) :
    slice k lo (run I (gs.map (Gate.shift k)) w) = run I gs (slice k lo w) :=
  run_shift I k lo hlo gs w

omit [StarRing R] in
/-- **`VarQEC(encode, K, …).get_code()` returns the code words of `generate_code_np(encode, K)`**: for `1 ≤ K ≤ 2^n`
(the range in which the real object exists: for `K > 2^n` writing the diagonal `q0[a, a] = 1` raises `IndexError`, which the
driver op `varqec` mirrors and the harness ties) row `a < K` of the model of `get_code` (encoder shifted by `⌈log2 K⌉`, applied
to `Σ_a |a⟩⊗|a⟩`, sliced) is `codeword a`, for `K` a power of two or not.  (`hK` is the guard of the real code; the identity
itself does not need it.) -/
theorem varqec_get_code_is_generate_code_np (I : R) (c : Code) (K a : Nat) (_hK : K ≤ 2 ^ c.n) (ha : a < K) :
    varqecCode I c K a = codeword I c a :=
  varqecCode_eq_codeword I c K a ha

/-- **what the driver op `varqec` evaluates is `varqecCode`**: the shifted encoder fits on the `n + ⌈log2 K⌉` qubit register
(`gateOk` for every shifted gate), so the tabulated run of the driver is the proved `run`, and its entry at position
`posOfIdx kl a + 2^kl · hi` is `varqecCode GInt.I c K a hi` (for `hi < 2^n`, `a < 2^kl`). -/
theorem varqec_driver_evaluates_model (c : Code) (hc : c.encode.all (gateOk c.n) = true) (K : Nat) :
    (c.encode.map (Gate.shift (ceilLog2 K))).all (gateOk (c.n + ceilLog2 K)) = true ∧
    runTab (c.n + ceilLog2 K) (c.encode.map (Gate.shift (ceilLog2 K))) (tabulate (c.n + ceilLog2 K) (varqecInit c.n (ceilLog2 K) K))
      = tabulate (c.n + ceilLog2 K) (fun pos => run GInt.I (c.encode.map (Gate.shift (ceilLog2 K))) (varqecInit c.n (ceilLog2 K) K) pos) :=
  ⟨allOk_shift c.n _ c.encode hc, runTab_eq _ _ (allOk_shift c.n _ c.encode hc) _⟩

/-- **the listed strings are independent**: `listedIndepCheck` says that there are at most `n − log2 K` of them
(`K = 2^k`) and that no non-empty sub-product is a scalar.  Together with `listedCheck` (each is a product, sign `+1`, of the
`n − log2 K` generators `U Z_j U†`) the `m` listed strings generate a subgroup of order `2^m` of the stabilizer group: the whole
group when `m = n − log2 K` (the number listed per shipped code is pinned in `C19Coverage.lean`). -/
theorem listed_independent (c : Code) (h : listedIndepCheck c = true) :
    2 ^ Nat.log2 c.K = c.K ∧ c.listed.length ≤ c.n - Nat.log2 c.K ∧
    ∀ mask, 0 < mask → mask < 2 ^ c.listed.length →
      (subsetProd (c.listed.map MP.ofSyms) mask).x ≠ 0 ∨ (subsetProd (c.listed.map MP.ofSyms) mask).z ≠ 0 := by
  unfold listedIndepCheck independent at h
  simp only [MP.forceList_eq, MP.force_eq, Bool.and_eq_true, beq_iff_eq, List.all_eq_true, List.mem_range,
    List.length_map, Bool.or_eq_true, bne_iff_ne, ne_eq, Code.logK] at h
  obtain ⟨⟨⟨⟨h1, _⟩, h3⟩, _⟩, h5⟩ := h
  refine ⟨h1, of_decide_eq_true h3, fun mask h0 hm => ?_⟩
  rcases h5 mask hm with h | h
  · omega
  · exact h

/-! ### what the driver executes is the model the theorems are about -/

/-- **The tabulated evaluation of the driver is the proved model** on the first `2^n` positions:
`runTab` is `run`, `codewordTab` is `codeword`, `pauliTab` is `pauliAct`, and the per-error class `klClass`
refines the Boolean `klOne` used by `klCheck` (inner products in the driver are the model's `ipL`). -/
theorem driver_evaluates_model :
    (∀ (n : Nat) (gs : List Gate), gs.all (gateOk n) = true → ∀ v : Nat → GInt,
        runTab n gs (tabulate n v) = tabulate n (run GInt.I gs v))
    ∧ (∀ c : Code, c.encode.all (gateOk c.n) = true → ∀ a, codewordTab c a = tabulate c.n (codeword GInt.I c a))
    ∧ (∀ (n : Nat) (p : MP), p.x < 2 ^ n → ∀ v : Nat → GInt, pauliTab n p (tabulate n v) = tabulate n (pauliAct GInt.I p v))
    ∧ (∀ gs sp p, klOne gs sp p = (klClass gs sp p != 'F')) :=
  ⟨runTab_eq, codewordTab_eq, pauliTab_eq, klOne_eq_klClass⟩

/-! ### per code, re-checked by the kernel whenever the generated data change -/

theorem code523_klCheck : klCheck code523 = true := by decide +kernel
theorem code422_klCheck : klCheck code422 = true := by decide +kernel
theorem code442_klCheck : klCheck code442 = true := by decide +kernel
theorem code642_klCheck : klCheck code642 = true := by decide +kernel
theorem code883_klCheck : klCheck code883 = true := by decide +kernel
theorem code8_64_2_klCheck : klCheck code8_64_2 = true := by decide +kernel
theorem code10_4_4_klCheck : klCheck code10_4_4 = true := by decide +kernel

theorem code523_listed : listedCheck code523 = true := by decide +kernel
theorem code422_listed : listedCheck code422 = true := by decide +kernel
theorem code442_listed : listedCheck code442 = true := by decide +kernel
theorem code642_listed : listedCheck code642 = true := by decide +kernel
theorem code883_listed : listedCheck code883 = true := by decide +kernel
theorem code8_64_2_listed : listedCheck code8_64_2 = true := by decide +kernel
theorem code10_4_4_listed : listedCheck code10_4_4 = true := by decide +kernel

theorem code523_listedIndep : listedIndepCheck code523 = true := by decide +kernel
theorem code422_listedIndep : listedIndepCheck code422 = true := by decide +kernel
theorem code442_listedIndep : listedIndepCheck code442 = true := by decide +kernel
theorem code642_listedIndep : listedIndepCheck code642 = true := by decide +kernel
theorem code883_listedIndep : listedIndepCheck code883 = true := by decide +kernel
theorem code8_64_2_listedIndep : listedIndepCheck code8_64_2 = true := by decide +kernel
theorem code10_4_4_listedIndep : listedIndepCheck code10_4_4 = true := by decide +kernel

theorem code523_stabCirc : stabCircImplCheck code523 = true := by decide +kernel
theorem code422_stabCirc : stabCircImplCheck code422 = true := by decide +kernel
theorem code442_stabCirc : stabCircImplCheck code442 = true := by decide +kernel
theorem code642_stabCirc : stabCircImplCheck code642 = true := by decide +kernel
theorem code883_stabCirc : stabCircImplCheck code883 = true := by decide +kernel
theorem code8_64_2_stabCirc : stabCircImplCheck code8_64_2 = true := by decide +kernel
theorem code10_4_4_stabCirc : stabCircImplCheck code10_4_4 = true := by decide +kernel

/-- **((5,2,3))**: orthonormal code words, Knill–Laflamme for every error of weight < 3, the four listed
stabilizers fix the code words, the four shipped circuits are those operators. -/
theorem code523_holds : Holds code523 := holds_of_checks _ code523_klCheck code523_listed code523_stabCirc
theorem code422_holds : Holds code422 := holds_of_checks _ code422_klCheck code422_listed code422_stabCirc
theorem code442_holds : Holds code442 := holds_of_checks _ code442_klCheck code442_listed code442_stabCirc
theorem code642_holds : Holds code642 := holds_of_checks _ code642_klCheck code642_listed code642_stabCirc
theorem code883_holds : Holds code883 := holds_of_checks _ code883_klCheck code883_listed code883_stabCirc
theorem code8_64_2_holds : Holds code8_64_2 := holds_of_checks _ code8_64_2_klCheck code8_64_2_listed code8_64_2_stabCirc
theorem code10_4_4_holds : Holds code10_4_4 := holds_of_checks _ code10_4_4_klCheck code10_4_4_listed code10_4_4_stabCirc

/-! ### the obligations are not vacuous -/

/-- the check rejects a code without encoder: `X` on the last qubit is undetected -/
example : klCheck ⟨"no encoder", 5, 2, 3, [], [], []⟩ = false := by decide +kernel
/-- … a wrong listed string … -/
example : listedCheck { code523 with listed := [[1, 0, 2, 1, 3]] } = false := by decide +kernel
/-- … a listed string replaced by a copy of another one (each still fixes the code words: `listedCheck` holds) … -/
example : listedIndepCheck { code523 with listed := code523.listed.take 3 ++ code523.listed.take 1 } = false := by decide +kernel
/-- … a stabilizer circuit that is not its listed string (here: a different gate) … -/
example : stabCircImplCheck { code422 with stabCircs := [[.x 0, .x 1], [.z 0, .x 1, .z 2, .z 3], [.x 2, .x 3]] } = false := by
  decide +kernel
/-- … and an unclassified gate anywhere in the encoder. -/
example : klCheck { code422 with encode := code422.encode ++ [.unknown] } = false := by decide +kernel
/-- the ((5,2,3)) statement speaks about 2 code words, 4 listed strings and errors of weight 1 and 2 -/
example : code523.K = 2 ∧ code523.listed.length = 4 ∧ (errorList code523.n code523.d).length = 105 := by decide +kernel
/-- the degenerate branch (error = product of generators up to a phase) is exercised by the trivial
one-dimensional code `|00⟩` with `d = 2`: `Z` errors act as scalars (no shipped code has such errors below `d`) -/
example : klCheck ⟨"|00>", 2, 1, 2, [], [], []⟩ = true := by decide +kernel

end Numqi.C19
