/-
C19 — shipped quantum codes satisfy Knill–Laflamme and their listed stabilizers.
(baseline: per-code obligations; general theorems are added below)
-/
import NumqiModel.Generated.QecCircuits

namespace Numqi.C19
open Numqi Numqi.Qec Numqi.Qec.Generated

set_option maxRecDepth 100000

/-! ### per code, re-checked by the kernel whenever the generated data change -/

theorem code523_klCheck : klCheck code523 = true := by decide +kernel
theorem code422_klCheck : klCheck code422 = true := by decide +kernel
theorem code442_klCheck : klCheck code442 = true := by decide +kernel
theorem code642_klCheck : klCheck code642 = true := by decide +kernel
theorem code883_klCheck : klCheck code883 = true := by decide +kernel
theorem code8_64_2_klCheck : klCheck code8_64_2 = true := by decide +kernel
theorem code10_4_4_klCheck : klCheck code10_4_4 = true := by decide +kernel

theorem code523_listed : listedCheck code523 = true := by decide +kernel
theorem code422_listed : listedCheck code422 = true := by decide +kernel
theorem code442_listed : listedCheck code442 = true := by decide +kernel
theorem code642_listed : listedCheck code642 = true := by decide +kernel
theorem code883_listed : listedCheck code883 = true := by decide +kernel
theorem code8_64_2_listed : listedCheck code8_64_2 = true := by decide +kernel
theorem code10_4_4_listed : listedCheck code10_4_4 = true := by decide +kernel

theorem code523_stabCirc : stabCircImplCheck code523 = true := by decide +kernel
theorem code422_stabCirc : stabCircImplCheck code422 = true := by decide +kernel
theorem code442_stabCirc : stabCircImplCheck code442 = true := by decide +kernel
theorem code642_stabCirc : stabCircImplCheck code642 = true := by decide +kernel
theorem code883_stabCirc : stabCircImplCheck code883 = true := by decide +kernel
theorem code8_64_2_stabCirc : stabCircImplCheck code8_64_2 = true := by decide +kernel
theorem code10_4_4_stabCirc : stabCircImplCheck code10_4_4 = true := by decide +kernel

end Numqi.C19
