/-
C08 (batched paths) — the batched conversion routes and `from_np_list` compute what the single-item routes compute.

Property theorems only, about the constants of `NumqiModel/PauliBatch.lean` that the driver executes.
-/
import NumqiProps.C08
import NumqiModel.PauliBatch

namespace Numqi.C08
open Numqi Numqi.Pauli Numqi.PauliBatch

variable {n : Nat}

/-! ### index → F2 -/

private theorem unpack64_getD (idx j : Nat) (hj : j < 64) : (unpack64 idx).getD j false = idx.testBit (63 - j) := by
  have h8 : j % 8 < 8 := Nat.mod_lt _ (by norm_num)
  have hd : j / 8 < 8 := by omega
  simp only [unpack64, List.getD_eq_getElem?_getD, List.getElem?_map, List.getElem?_range hj, Option.map_some,
    Option.getD_some]
  have e : idx.testBit (63 - j) = (idx / 2 ^ (8 * (7 - j / 8)) % 2 ^ 8).testBit (7 - j % 8) := by
    rw [Nat.testBit_mod_two_pow, Nat.testBit_div_two_pow]
    have : 7 - j % 8 < 8 := by omega
    simp only [this, decide_true, Bool.true_and]
    congr 1; omega
  rw [e, Nat.testBit_eq_decide_div_mod_eq, Bool.eq_iff_iff]
  simp

private theorem indexPair_eq (idx q : Nat) (hn : n ≤ 32) (hq : q < n) :
    indexPair n idx q = (idx.testBit (2 * (n - 1 - q) + 1), idx.testBit (2 * (n - 1 - q))) := by
  have hg : ∀ i, i < 2 * n → ((unpack64 idx).drop (64 - 2 * n)).getD i false = idx.testBit (2 * n - 1 - i) := by
    intro i hi
    rw [List.getD_eq_getElem?_getD, List.getElem?_drop, ← List.getD_eq_getElem?_getD, unpack64_getD _ _ (by omega)]
    congr 1; omega
  simp only [indexPair]
  rw [hg _ (by omega), hg _ (by omega)]
  congr 2 <;> omega

private theorem pair_digit (idx m : Nat) :
    pairToXZ (idx.testBit (2 * m + 1), idx.testBit (2 * m)) = (symX (idx / 4 ^ m % 4), symZ (idx / 4 ^ m % 4)) := by
  have h4 : (4 : Nat) ^ m = 2 ^ (2 * m) := by rw [pow_mul]; norm_num
  rw [Nat.testBit_eq_decide_div_mod_eq, Nat.testBit_eq_decide_div_mod_eq, h4, pow_succ, ← Nat.div_div_eq_div_mul]
  generalize idx / 2 ^ (2 * m) = y
  have h := Nat.mod_lt y (by norm_num : 4 > 0)
  have e1 : y / 2 % 2 = y % 4 / 2 := by omega
  have e2 : y % 2 = y % 4 % 2 := by omega
  rw [e1, e2]
  generalize y % 4 = d at h
  interval_cases d <;> rfl

private theorem indexToSyms_getD : ∀ (k idx q : Nat), q < k → (indexToSyms k idx).getD q 0 = idx / 4 ^ (k - 1 - q) % 4
  | 0, _, _, h => by omega
  | k + 1, idx, q, h => by
    rw [indexToSyms]
    by_cases hq : q < k
    · rw [List.getD_eq_getElem?_getD, List.getElem?_append_left (by rw [indexToSyms_length]; exact hq),
        ← List.getD_eq_getElem?_getD, indexToSyms_getD k (idx / 4) q hq, Nat.div_div_eq_div_mul]
      congr 2
      have : k + 1 - 1 - q = (k - 1 - q) + 1 := by omega
      rw [this, pow_succ, mul_comm]
    · have : q = k := by omega
      subst this
      rw [List.getD_eq_getElem?_getD, List.getElem?_append_right (by rw [indexToSyms_length]), indexToSyms_length]
      simp

/-- **batched `pauli_index_to_F2` = single**: the big-endian `np.unpackbits` route gives, for every `n ≤ 32` (the assertion
of the code) and every index, exactly the operator of the single-item route (string → F2) -/
theorem ofIndexBatch_eq (hn : n ≤ 32) (idx : Nat) : ofIndexBatch n idx = Pauli.ofIndex n idx := by
  have hxz : ∀ i : Fin n, pairToXZ (indexPair n idx i.val)
      = (symX ((indexToSyms n idx).getD i.val 0), symZ ((indexToSyms n idx).getD i.val 0)) := by
    intro i
    rw [indexPair_eq idx i.val hn i.isLt, pair_digit, indexToSyms_getD n idx i.val i.isLt]
  have hx : (fun i : Fin n => (pairToXZ (indexPair n idx i.val)).1) = fun i => symX ((indexToSyms n idx).getD i.val 0) :=
    funext fun i => by rw [hxz]
  have hz : (fun i : Fin n => (pairToXZ (indexPair n idx i.val)).2) = fun i => symZ ((indexToSyms n idx).getD i.val 0) :=
    funext fun i => by rw [hxz]
  unfold ofIndexBatch Pauli.ofIndex Pauli.ofStr
  simp only [hx, hz, Nat.add_zero]

/-! ### F2 → index -/

private theorem weighted_append (l : List Bool) (b : Bool) : weighted (l ++ [b]) = 2 * weighted l + b.toNat := by
  unfold weighted
  rw [List.length_append, List.length_singleton, List.range_succ, List.map_append, List.sum_append, List.map_singleton,
    List.sum_singleton]
  congr 1
  · rw [← List.sum_map_mul_left]
    congr 1
    apply List.map_congr_left
    intro j hj
    have hj' : j < l.length := List.mem_range.1 hj
    rw [List.getD_eq_getElem?_getD, List.getElem?_append_left hj', ← List.getD_eq_getElem?_getD]
    have : l.length + 1 - 1 - j = (l.length - 1 - j) + 1 := by omega
    rw [this, pow_succ]; ring
  · simp

private theorem weighted_eq_foldl (l : List Bool) : weighted l = l.foldl (fun a b => 2 * a + b.toNat) 0 := by
  induction l using List.reverseRecOn with
  | nil => rfl
  | append_singleton l b ih => rw [weighted_append, ih, List.foldl_append]; rfl

/-- **batched `pauli_F2_to_index` = single**, every `n` (over ℕ; see the note on int64 in design_notes) -/
theorem toIndexBatch_eq (p : Pauli n) : toIndexBatch p = p.toIndex := by
  unfold toIndexBatch pairBits Pauli.toIndex Pauli.toStr symsToIndex
  rw [weighted_eq_foldl, List.foldl_flatMap, List.foldl_map]
  congr 1
  funext a i
  simp only [List.foldl_cons, List.foldl_nil]
  cases p.x i <;> cases p.z i <;> simp [xzToPair, symOfBits] <;> ring

/-! ### `from_np_list` -/

private theorem sigma_row : ∀ s, s < 4 →
    ((List.range 4).map (overlap (sigma s))).all (fun v => v.im == 0) = true ∧
    (((List.range 4).map (overlap (sigma s))).map (·.re)).sum = 2 ∧
    (((List.range 4).map (overlap (sigma s))).map (·.re)).foldl max
      ((((List.range 4).map (overlap (sigma s))).map (·.re)).getD 0 0) = 2 ∧
    argmax4 (((List.range 4).map (overlap (sigma s))).map (·.re)) = s ∧ (sigma s).length = 4 := by
  decide

/-- **`from_np_list` inverts `(np_list, sign)`**: the overlaps with `I X Y Z` are `2δ`, so the assertions pass, `argmax` reads
the letters back and the operator is recovered, for every `n` -/
theorem fromNpList_npList (p : Pauli n) :
    ∃ q, fromNpList n (npList p) p.toStr.2 = some q ∧ Pauli.beq q p = true := by
  have hs : ∀ s ∈ p.toStr.1, s < 4 := by
    intro s hs; simp only [Pauli.toStr, List.mem_map] at hs
    obtain ⟨i, _, rfl⟩ := hs; exact symOfBits_lt _ _
  have he : p.toStr.2 < 4 := by simp only [Pauli.toStr]; exact Nat.mod_lt _ (by norm_num)
  have hlen : p.toStr.1.length = n := by simp [Pauli.toStr]
  refine ⟨Pauli.ofStr n p.toStr.1 p.toStr.2, ?_, ofStr_toStr p⟩
  unfold fromNpList npList
  have hrows : ((p.toStr.1.map sigma).map fun M => (List.range 4).map (overlap M)).map (fun r => argmax4 (r.map (·.re)))
      = p.toStr.1 := by
    rw [List.map_map, List.map_map]
    conv_rhs => rw [← List.map_id p.toStr.1]
    apply List.map_congr_left
    intro s hs'
    exact (sigma_row s (hs s hs')).2.2.2.1
  have hok : (((p.toStr.1.map sigma).map fun M => (List.range 4).map (overlap M)).all fun r =>
      r.all (fun v => v.im == 0) && (r.map (·.re)).sum == 2 &&
        (r.map (·.re)).foldl max ((r.map (·.re)).getD 0 0) == 2) = true := by
    rw [List.all_eq_true]
    intro r hr
    simp only [List.mem_map] at hr
    obtain ⟨M, ⟨s, hs', rfl⟩, rfl⟩ := hr
    obtain ⟨h1, h2, h3, _, _⟩ := sigma_row s (hs s hs')
    rw [h1, h2, h3]; rfl
  have hall : (p.toStr.1.map sigma).all (·.length == 4) = true := by
    rw [List.all_eq_true]
    intro M hM
    obtain ⟨s, hs', rfl⟩ := List.mem_map.1 hM
    simp [(sigma_row s (hs s hs')).2.2.2.2]
  simp only [hrows, hok, hall, List.length_map, hlen, beq_self_eq_true, he, decide_true, Bool.and_self, if_true]

/-! ### non-vacuity -/

example : (ofIndexBatch 3 27).toF2List = (Pauli.ofIndex 3 27).toF2List := by decide
example : toIndexBatch (Pauli.ofIndex 3 27) = 27 := by decide
/-- a non-Pauli factor is rejected -/
example : fromNpList 1 [[⟨1,0⟩, ⟨1,0⟩, ⟨0,0⟩, ⟨1,0⟩]] 0 = none := by decide

end Numqi.C08
