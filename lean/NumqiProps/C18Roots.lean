/-
C18 (roots-of-unity UPB families) — `load_upb('gentiles1', d)`, `load_upb('gentiles2', (m, n))`, `load_upb('quadres', dim)`
(`numqi/entangle/upb.py:93-111, 163-200`) are orthonormal families of product vectors for **every** admissible size, so
`upb_bes_projector` / `upb_bes_ppt` (`NumqiProps/C18.lean`) apply: `upb_to_bes` returns a PPT state of rank `D − |UPB|`.

Model: the symbolic tables `gt1A/gt1B`, `gt2A/gt2B`, `qrA/qrB` of `NumqiModel/CatalogueRoots.lean` (executed by
`Driver/C18Roots.lean`, tied to the arrays of `load_upb` by `harness/c18roots.py`): each component is `0` or
`± sc(cls) · ω^e`.  The theorems are about the evaluation `ev sc ω x = x.eval sc (ω^·)` of exactly these tables.

Two layers:
* `*_orthonormal_of_relations`: in `ℂ`, for any `ω`, `sc` satisfying the algebraic relations `RootData` (`ω^h = 1`, `ω̄ω = 1`,
  `Σ_{k<h} ω^{jk} = 0` for `0 < j < h`) and `ScaleData` / `QuadScale` (squares of the real scales) — the ring-theoretic content;
* `*_orthonormal`, `*_bes`: for the library's numbers `ω = exp(2πi/h)`, scales `1/√·`, `N = max(−σ, 1+σ)`.
For quadres the number theory (non-zero squares of `ℤ/p` form an index-2 subgroup, `−1` is a square iff `p ≢ 3 mod 4`, the
executed lists `quadResidues p` / `firstNonResidue p` are the squares / a non-square) is proved, not assumed.
Unextendibility (which makes the state entangled) is literature and not part of these statements.
-/
import NumqiProps.C18
import NumqiProofs.CatalogueRoots

namespace Numqi.C18
open Numqi.Catalogue Finset

/-! ## the relations, and that the library's numbers satisfy them -/

/-- **`exp(2πi/h)` satisfies the root-of-unity relations** used below (in particular the vanishing sums). -/
theorem rootC_relations {h : ℕ} (hh : 0 < h) : RootData h (rootC h) := rootData_rootC hh

/-- **the scales `1, 1/√h, 1/√dA, 1/√2, 1/√dB` satisfy the scale relations** -/
theorem scaleC_relations {h dA dB : ℕ} (hh : 0 < h) (hA : 0 < dA) (hB : 0 < dB) :
    ScaleData (scaleC h dA dB) h dA dB := scaleData_scaleC hh hA hB

/-- **quadres: for a prime `p ≡ 1 (mod 4)` the weight `N = max(−σ, 1+σ)`, `σ = Re Σ_{q∈Q} e^{2πiq/p}` and the two
scales `√N/√(N+|Q|)`, `1/√(N+|Q|)` satisfy the scale relations** — this uses that `σ` is real (`−1` is a square). -/
theorem scaleQ_relations {p : ℕ} [Fact p.Prime] (h4 : p % 4 = 1) :
    QuadScale (scaleQ p) (rootC p) p (weightN p : ℂ) := quadScale_scaleQ h4

/-! ## GenTiles1: `d = 2h ≥ 4`, `d² − 2d + 1` vectors in `d ⊗ d` -/

/-- **GenTiles1 from the relations alone.** -/
theorem gentiles1_orthonormal_of_relations {h : ℕ} {η : ℂ} {sc : ℕ → ℂ} (hR : RootData h η)
    (hS : ScaleData sc h (2 * h) (2 * h)) (hh : 2 ≤ h) :
    Orthonormal (gt1Count (2 * h)) (2 * h * (2 * h))
      (prodVec (2 * h) (fun a i => ev sc η (gt1A (2 * h) a i)) (fun a i => ev sc η (gt1B (2 * h) a i))) :=
  gt1_orthonormal hR hS hh

/-- local vectors of GenTiles1 with the library's numbers -/
noncomputable def gt1VecA (h a i : ℕ) : ℂ := ev (scaleC h (2 * h) (2 * h)) (rootC h) (gt1A (2 * h) a i)
noncomputable def gt1VecB (h a i : ℕ) : ℂ := ev (scaleC h (2 * h) (2 * h)) (rootC h) (gt1B (2 * h) a i)

/-- **GenTiles1 is an orthonormal product family for every even `d = 2h ≥ 4`.** -/
theorem gentiles1_orthonormal (h : ℕ) (hh : 2 ≤ h) :
    Orthonormal (gt1Count (2 * h)) (2 * h * (2 * h)) (prodVec (2 * h) (gt1VecA h) (gt1VecB h)) :=
  gt1_orthonormal (rootData_rootC (by omega)) (scaleData_scaleC (by omega) (by omega) (by omega)) hh

theorem gentiles1_count (h : ℕ) (hh : 1 ≤ h) : gt1Count (2 * h) + 2 * (2 * h) = 2 * h * (2 * h) + 1 := by
  unfold gt1Count
  have : 2 * h / 2 = h := by omega
  rw [this]
  obtain ⟨k, rfl⟩ := Nat.exists_eq_add_of_le hh
  simp only [Nat.add_sub_cancel_left]; ring

/-- **the GenTiles1 bound entangled state**: the complement of the span is a Hermitian projector of trace `d² − (d²−2d+1)`,
positive semidefinite, with positive semidefinite partial transpose. -/
theorem gentiles1_bes (h : ℕ) (hh : 2 ≤ h) :
    let w := prodVec (2 * h) (gt1VecA h) (gt1VecB h)
    let D := 2 * h * (2 * h)
    let m := gt1Count (2 * h)
    (∀ r < D, ∀ c < D, ∑ y ∈ range D, upbCompl m w r y * upbCompl m w y c = upbCompl m w r c)
    ∧ (∀ r c, starRingEnd ℂ (upbCompl m w r c) = upbCompl m w c r)
    ∧ ∑ r ∈ range D, upbCompl m w r r = (D : ℂ) - (m : ℂ)
    ∧ (∀ x : ℕ → ℂ, 0 ≤ (hform D (upbCompl m w) x).re ∧ (hform D (upbCompl m w) x).im = 0)
    ∧ ∀ x : ℕ → ℂ, 0 ≤ (hform D (ptB (2 * h) (upbCompl m w)) x).re ∧ (hform D (ptB (2 * h) (upbCompl m w)) x).im = 0 := by
  intro w D m
  have ho := gentiles1_orthonormal h hh
  obtain ⟨h1, h2, h3, h4⟩ := upb_bes_projector m D w ho
  exact ⟨h1, h2, h3, h4, fun x => upb_bes_ppt m (2 * h) (2 * h) (by omega) _ _ ho x⟩

/-! ## GenTiles2: `3 ≤ m ≤ n`, `4 ≤ n`, `mn − 2m + 1` vectors in `m ⊗ n` -/

/-- **GenTiles2 from the relations alone.** -/
theorem gentiles2_orthonormal_of_relations {m n : ℕ} {ζ : ℂ} {sc : ℕ → ℂ} (hR : RootData (n - 2) ζ)
    (hS : ScaleData sc (n - 2) m n) (hm : 3 ≤ m) (hmn : m ≤ n) (hn : 4 ≤ n) :
    Orthonormal (gt2Count m n) (m * n)
      (prodVec n (fun a i => ev sc ζ (gt2A m n a i)) (fun a i => ev sc ζ (gt2B m n a i))) :=
  gt2_orthonormal hR hS hm hmn hn

noncomputable def gt2VecA (m n a i : ℕ) : ℂ := ev (scaleC (n - 2) m n) (rootC (n - 2)) (gt2A m n a i)
noncomputable def gt2VecB (m n a i : ℕ) : ℂ := ev (scaleC (n - 2) m n) (rootC (n - 2)) (gt2B m n a i)

/-- **GenTiles2 is an orthonormal product family for every `3 ≤ m ≤ n`, `4 ≤ n`.** -/
theorem gentiles2_orthonormal (m n : ℕ) (hm : 3 ≤ m) (hmn : m ≤ n) (hn : 4 ≤ n) :
    Orthonormal (gt2Count m n) (m * n) (prodVec n (gt2VecA m n) (gt2VecB m n)) :=
  gt2_orthonormal (rootData_rootC (by omega)) (scaleData_scaleC (by omega) (by omega) (by omega)) hm hmn hn

theorem gentiles2_count (m n : ℕ) (hn : 3 ≤ n) : gt2Count m n + 2 * m = m * n + 1 := by
  unfold gt2Count
  obtain ⟨k, rfl⟩ := Nat.exists_eq_add_of_le hn
  simp only [Nat.add_sub_cancel_left]; ring

/-- **the GenTiles2 bound entangled state** -/
theorem gentiles2_bes (m n : ℕ) (hm : 3 ≤ m) (hmn : m ≤ n) (hn : 4 ≤ n) :
    let w := prodVec n (gt2VecA m n) (gt2VecB m n)
    let D := m * n
    let c := gt2Count m n
    (∀ r < D, ∀ s < D, ∑ y ∈ range D, upbCompl c w r y * upbCompl c w y s = upbCompl c w r s)
    ∧ (∀ r s, starRingEnd ℂ (upbCompl c w r s) = upbCompl c w s r)
    ∧ ∑ r ∈ range D, upbCompl c w r r = (D : ℂ) - (c : ℂ)
    ∧ (∀ x : ℕ → ℂ, 0 ≤ (hform D (upbCompl c w) x).re ∧ (hform D (upbCompl c w) x).im = 0)
    ∧ ∀ x : ℕ → ℂ, 0 ≤ (hform D (ptB n (upbCompl c w)) x).re ∧ (hform D (ptB n (upbCompl c w)) x).im = 0 := by
  intro w D c
  have ho := gentiles2_orthonormal m n hm hmn hn
  obtain ⟨h1, h2, h3, h4⟩ := upb_bes_projector c D w ho
  exact ⟨h1, h2, h3, h4, fun x => upb_bes_ppt c m n (by omega) _ _ ho x⟩

/-! ## QuadRes: `p = 2·dim − 1` prime, `dim` odd (`p ≡ 1 mod 4`), `p` vectors in `dim ⊗ dim` -/

/-- **the executed list `quadResidues p` is exactly the set of non-zero squares of `ℤ/p`** -/
theorem quadResidues_spec {p : ℕ} [Fact p.Prime] (x : ℕ) :
    x ∈ quadResidues p ↔ x < p ∧ x ≠ 0 ∧ IsSquare (x : ZMod p) := mem_quadResidues

/-- **… it has `(p−1)/2` elements, i.e. `dim = |Q| + 1` satisfies `2·dim = p + 1`** -/
theorem quadres_dim {p : ℕ} [Fact p.Prime] (hp2 : p ≠ 2) : 2 * ((quadResidues p).length + 1) = p + 1 := by
  have := quadResidues_length (p := p) hp2; omega

/-- **the executed `firstNonResidue p` (`s[0]`) is a non-square** -/
theorem firstNonResidue_not_square {p : ℕ} [Fact p.Prime] (hp2 : p ≠ 2) :
    firstNonResidue p < p ∧ ¬ IsSquare ((firstNonResidue p : ℕ) : ZMod p) := firstNonResidue_spec hp2

/-- **QuadRes from the relations alone** (any odd prime; the hypothesis `QuadScale` contains `N ∈ {−σ, 1+σ}`). -/
theorem quadres_orthonormal_of_relations {p : ℕ} [Fact p.Prime] {ω : ℂ} {sc : ℕ → ℂ} {Nc : ℂ} (hp2 : p ≠ 2)
    (hR : RootData p ω) (hS : QuadScale sc ω p Nc) :
    Orthonormal p (((quadResidues p).length + 1) * ((quadResidues p).length + 1))
      (prodVec ((quadResidues p).length + 1) (fun b i => ev sc ω (qrA p b i)) (fun b i => ev sc ω (qrB p b i))) :=
  qr_orthonormal hp2 hR hS

noncomputable def qrVecA (p b i : ℕ) : ℂ := ev (scaleQ p) (rootC p) (qrA p b i)
noncomputable def qrVecB (p b i : ℕ) : ℂ := ev (scaleQ p) (rootC p) (qrB p b i)

/-- **QuadRes is an orthonormal product family for every prime `p ≡ 1 (mod 4)`**, `dim = (p+1)/2`. -/
theorem quadres_orthonormal (p : ℕ) [Fact p.Prime] (h4 : p % 4 = 1) :
    Orthonormal p (((quadResidues p).length + 1) * ((quadResidues p).length + 1))
      (prodVec ((quadResidues p).length + 1) (qrVecA p) (qrVecB p)) :=
  qr_orthonormal (by omega) (rootData_rootC (Fact.out : p.Prime).pos) (quadScale_scaleQ h4)

/-- **the QuadRes bound entangled state** -/
theorem quadres_bes (p : ℕ) [Fact p.Prime] (h4 : p % 4 = 1) :
    let dim := (quadResidues p).length + 1
    let w := prodVec dim (qrVecA p) (qrVecB p)
    let D := dim * dim
    (∀ r < D, ∀ s < D, ∑ y ∈ range D, upbCompl p w r y * upbCompl p w y s = upbCompl p w r s)
    ∧ (∀ r s, starRingEnd ℂ (upbCompl p w r s) = upbCompl p w s r)
    ∧ ∑ r ∈ range D, upbCompl p w r r = (D : ℂ) - (p : ℂ)
    ∧ (∀ x : ℕ → ℂ, 0 ≤ (hform D (upbCompl p w) x).re ∧ (hform D (upbCompl p w) x).im = 0)
    ∧ ∀ x : ℕ → ℂ, 0 ≤ (hform D (ptB dim (upbCompl p w)) x).re ∧ (hform D (ptB dim (upbCompl p w)) x).im = 0 := by
  intro dim w D
  have ho := quadres_orthonormal p h4
  obtain ⟨h1, h2, h3, h4'⟩ := upb_bes_projector p D w ho
  exact ⟨h1, h2, h3, h4', fun x => upb_bes_ppt p dim dim (Nat.succ_pos _) _ _ ho x⟩

/-! ## non-vacuity: the tables at the smallest sizes (the driver prints exactly these constants) -/

example : gt1Count 4 = 9 ∧ gt2Count 3 4 = 7 := by decide
example : (List.range 4).map (gt1A 4 1) = [⟨2, false, 0⟩, ⟨2, false, 1⟩, RootEnt.zero, RootEnt.zero] := by decide
example : (List.range 4).map (gt1B 4 0) = [RootEnt.zero, ⟨2, false, 0⟩, ⟨2, false, 1⟩, RootEnt.zero] := by decide
example : (List.range 3).map (gt2A 3 4 2) = [⟨4, true, 0⟩, RootEnt.zero, ⟨4, false, 0⟩] := by decide
example : (List.range 4).map (gt2B 3 4 3) = [RootEnt.zero, ⟨2, false, 0⟩, RootEnt.zero, ⟨2, false, 1⟩] := by decide
example : quadResidues 5 = [1, 4] ∧ firstNonResidue 5 = 2 ∧ quadResidues 13 = [1, 3, 4, 9, 10, 12] := by decide
example : (List.range 3).map (qrA 5 2) = [⟨6, false, 0⟩, ⟨7, false, 2⟩, ⟨7, false, 3⟩] := by decide
example : (List.range 3).map (qrB 5 2) = [⟨6, false, 0⟩, ⟨7, false, 4⟩, ⟨7, false, 1⟩] := by decide
/-- the hypotheses of `quadres_orthonormal` are satisfiable: `p = 5` (`dim = 3`) -/
example : Orthonormal 5 (3 * 3) (prodVec 3 (qrVecA 5) (qrVecB 5)) := by
  have : Fact (Nat.Prime 5) := ⟨by norm_num⟩
  have h := quadres_orthonormal 5 (by norm_num)
  have e : (quadResidues 5).length + 1 = 3 := by decide
  rwa [e] at h

end Numqi.C18
