/-
C03 (gate vocabulary) — every gate the `Circuit` class can append is unitary, hence every circuit built from the
vocabulary has a unitary `to_unitary`.

Property theorems only.  They are about the arrays of `NumqiModel/Gates.lean` that the driver executes and the harness
compares with the live `numqi.gate.*` objects and with what the `Circuit` methods append.  `R` is any commutative star ring
with an imaginary unit `I` (`I*I = -1`, `star I = -I`; instantiate `ℂ`, `Complex.I`); an angle enters as a pair
`(c, s)` with `star c = c`, `star s = s`, `c² + s² = 1` (`CS.Valid`), so every statement holds for **every angle**.
-/
import NumqiProps.C03
import NumqiProofs.SimGates
import Mathlib.Data.Complex.Basic

namespace Numqi.C03
open Numqi Function Matrix

set_option linter.unnecessarySeqFocus false

variable {R : Type} [CommRing R] [StarRing R]

/-- `I` is an imaginary unit of the star ring -/
structure ImagUnit (I : R) : Prop where
  sq : I * I = -1
  star_eq : star I = -I

/-- common prelude: reduce `A ∈ unitaryGroup` for a flat 2×2 / 4×4 array to its entries -/
local macro "unitary_entries" : tactic =>
  `(tactic| (rw [Matrix.mem_unitaryGroup_iff]; ext i j; fin_cases i <;> fin_cases j))

/-! ### fixed gates -/

theorem I2_unitary : flatMat 2 (Gates.I2 : Array R) ∈ unitaryGroup (Fin 2) R := by
  unitary_entries <;> simp [flatMat, Gates.I2, Matrix.mul_apply, Fin.sum_univ_two, Matrix.star_apply, Array.getD]

theorem X_unitary : flatMat 2 (Gates.X : Array R) ∈ unitaryGroup (Fin 2) R := by
  unitary_entries <;> simp [flatMat, Gates.X, Matrix.mul_apply, Fin.sum_univ_two, Matrix.star_apply, Array.getD]

theorem Y_unitary {I : R} (hI : ImagUnit I) : flatMat 2 (Gates.Y I) ∈ unitaryGroup (Fin 2) R := by
  unitary_entries <;>
    simp [flatMat, Gates.Y, Matrix.mul_apply, Fin.sum_univ_two, Matrix.star_apply, Array.getD, hI.star_eq] <;>
    linear_combination (-1 : R) * hI.sq

theorem Z_unitary : flatMat 2 (Gates.Z : Array R) ∈ unitaryGroup (Fin 2) R := by
  unitary_entries <;> simp [flatMat, Gates.Z, Matrix.mul_apply, Fin.sum_univ_two, Matrix.star_apply, Array.getD]

theorem S_unitary {I : R} (hI : ImagUnit I) : flatMat 2 (Gates.S I) ∈ unitaryGroup (Fin 2) R := by
  unitary_entries <;>
    simp [flatMat, Gates.S, Matrix.mul_apply, Fin.sum_univ_two, Matrix.star_apply, Array.getD, hI.star_eq] <;>
    linear_combination (-1 : R) * hI.sq

/-- `H` is unitary for every valid pair — in particular for `c = s = 1/√2` -/
theorem H_unitary {p : CS R} (hp : p.Valid) : flatMat 2 (Gates.H p) ∈ unitaryGroup (Fin 2) R := by
  unitary_entries <;>
    simp [flatMat, Gates.H, Matrix.mul_apply, Fin.sum_univ_two, Matrix.star_apply, Array.getD, hp.real_c, hp.real_s] <;>
    first | ring1 | linear_combination (1 : R) * hp.norm

/-- `T = diag(1, c + i s)` is unitary for every valid pair — in particular for the angle `π/4` -/
theorem T_unitary {I : R} (hI : ImagUnit I) {p : CS R} (hp : p.Valid) :
    flatMat 2 (Gates.T I p) ∈ unitaryGroup (Fin 2) R := by
  unitary_entries <;>
    simp [flatMat, Gates.T, Matrix.mul_apply, Fin.sum_univ_two, Matrix.star_apply, Array.getD, hp.real_c, hp.real_s,
      hI.star_eq] <;>
    linear_combination (1 : R) * hp.norm - p.s * p.s * hI.sq

theorem Swap_unitary : flatMat 4 (Gates.Swap : Array R) ∈ unitaryGroup (Fin 4) R := by
  unitary_entries <;> simp [flatMat, Gates.Swap, Matrix.mul_apply, Fin.sum_univ_four, Matrix.star_apply, Array.getD]

theorem CNOT_unitary : flatMat 4 (Gates.CNOT : Array R) ∈ unitaryGroup (Fin 4) R := by
  unitary_entries <;> simp [flatMat, Gates.CNOT, Matrix.mul_apply, Fin.sum_univ_four, Matrix.star_apply, Array.getD]

theorem CZ_unitary : flatMat 4 (Gates.CZ : Array R) ∈ unitaryGroup (Fin 4) R := by
  unitary_entries <;> simp [flatMat, Gates.CZ, Matrix.mul_apply, Fin.sum_univ_four, Matrix.star_apply, Array.getD]

/-! ### parametrised gates: unitary for every angle -/

theorem rx_unitary {I : R} (hI : ImagUnit I) {h : CS R} (hv : h.Valid) :
    flatMat 2 (Gates.rx I h) ∈ unitaryGroup (Fin 2) R := by
  unitary_entries <;>
    simp [flatMat, Gates.rx, Matrix.mul_apply, Fin.sum_univ_two, Matrix.star_apply, Array.getD, hv.real_c, hv.real_s,
      hI.star_eq] <;>
    first | ring1 | linear_combination (1 : R) * hv.norm - h.s * h.s * hI.sq

theorem ry_unitary {h : CS R} (hv : h.Valid) : flatMat 2 (Gates.ry h) ∈ unitaryGroup (Fin 2) R := by
  unitary_entries <;>
    simp [flatMat, Gates.ry, Matrix.mul_apply, Fin.sum_univ_two, Matrix.star_apply, Array.getD, hv.real_c, hv.real_s] <;>
    first | ring1 | linear_combination (1 : R) * hv.norm

theorem rz_unitary {I : R} (hI : ImagUnit I) {h : CS R} (hv : h.Valid) :
    flatMat 2 (Gates.rz I h) ∈ unitaryGroup (Fin 2) R := by
  unitary_entries <;>
    simp [flatMat, Gates.rz, Matrix.mul_apply, Fin.sum_univ_two, Matrix.star_apply, Array.getD, hv.real_c, hv.real_s,
      hI.star_eq] <;>
    linear_combination (1 : R) * hv.norm - h.s * h.s * hI.sq

theorem rzz_unitary {I : R} (hI : ImagUnit I) {h : CS R} (hv : h.Valid) :
    flatMat 4 (Gates.rzz I h) ∈ unitaryGroup (Fin 4) R := by
  unitary_entries <;>
    simp [flatMat, Gates.rzz, Matrix.mul_apply, Fin.sum_univ_four, Matrix.star_apply, Array.getD, hv.real_c, hv.real_s,
      hI.star_eq] <;>
    linear_combination (1 : R) * hv.norm - h.s * h.s * hI.sq

/-- a phase `c + i s` of a valid pair has modulus one -/
theorem phase_norm {I : R} (hI : ImagUnit I) {p : CS R} (hp : p.Valid) :
    (p.c + I * p.s) * star (p.c + I * p.s) = 1 := by
  simp only [star_add, star_mul', hp.real_c, hp.real_s, hI.star_eq]
  linear_combination (1 : R) * hp.norm - p.s * p.s * hI.sq

/-- the shape of `u3` with the two phases kept abstract -/
private theorem u3_core (ct st el ep : R) (hct : star ct = ct) (hst : star st = st) (hn : ct * ct + st * st = 1)
    (hel : el * star el = 1) (hep : ep * star ep = 1) :
    flatMat 2 #[ct, -(st * el), st * ep, ct * el * ep] ∈ unitaryGroup (Fin 2) R := by
  unitary_entries <;>
    simp [flatMat, Matrix.mul_apply, Fin.sum_univ_two, Matrix.star_apply, Array.getD, hct, hst] <;>
    first
    | linear_combination (1 : R) * hn + st * st * hel
    | linear_combination (-(ct * st * star ep)) * hel
    | linear_combination (-(ct * st * ep)) * hel
    | linear_combination (1 : R) * hn + st * st * hep + ct * ct * (ep * star ep * hel + hep)

theorem u3_unitary {I : R} (hI : ImagUnit I) {h ph la : CS R} (hv : h.Valid) (hph : ph.Valid) (hla : la.Valid) :
    flatMat 2 (Gates.u3 I h ph la) ∈ unitaryGroup (Fin 2) R :=
  u3_core h.c h.s (la.c + I * la.s) (ph.c + I * ph.s) hv.real_c hv.real_s hv.norm (phase_norm hI hla) (phase_norm hI hph)


/-! ### `u3` is its documented Euler product; rotations about one axis compose by adding angles -/

/-- double-angle pair: `(cos 2x, sin 2x)` from `(cos x, sin x)` -/
def CS.double (p : CS R) : CS R := ⟨p.c * p.c - p.s * p.s, p.c * p.s + p.s * p.c⟩
/-- angle-addition pair: `(cos(x+y), sin(x+y))` -/
def CS.add (p q : CS R) : CS R := ⟨p.c * q.c - p.s * q.s, p.s * q.c + p.c * q.s⟩

/-- **`u3(θ,φ,λ) = e^{i(φ+λ)/2} · R_z(φ) R_y(θ) R_z(λ)`** (the docstring of `numqi.gate.u3`), with `hp`, `hl` the
half-angle pairs of `φ`, `λ` and the full-angle pairs obtained by angle doubling -/
theorem u3_eq_euler {I : R} (hI : ImagUnit I) (h : CS R) {hp hl : CS R} (hvp : hp.Valid) (hvl : hl.Valid) :
    flatMat 2 (Gates.u3 I h (CS.double hp) (CS.double hl))
      = ((hp.c + I * hp.s) * (hl.c + I * hl.s)) •
          (flatMat 2 (Gates.rz I hp) * flatMat 2 (Gates.ry h) * flatMat 2 (Gates.rz I hl)) := by
  have h1 : (hp.c + I * hp.s) * (hp.c - I * hp.s) = 1 := by
    linear_combination (1 : R) * hvp.norm - hp.s * hp.s * hI.sq
  have h2 : (hl.c + I * hl.s) * (hl.c - I * hl.s) = 1 := by
    linear_combination (1 : R) * hvl.norm - hl.s * hl.s * hI.sq
  have e1 : (CS.double hp).c + I * (CS.double hp).s = (hp.c + I * hp.s) * (hp.c + I * hp.s) := by
    simp only [CS.double]; linear_combination (-(hp.s * hp.s)) * hI.sq
  have e2 : (CS.double hl).c + I * (CS.double hl).s = (hl.c + I * hl.s) * (hl.c + I * hl.s) := by
    simp only [CS.double]; linear_combination (-(hl.s * hl.s)) * hI.sq
  simp only [Gates.u3, Gates.rz, Gates.ry, e1, e2]
  generalize hp.c + I * hp.s = zp at *
  generalize hp.c - I * hp.s = zp' at *
  generalize hl.c + I * hl.s = zl at *
  generalize hl.c - I * hl.s = zl' at *
  ext i j
  fin_cases i <;> fin_cases j <;>
    simp [flatMat, Matrix.mul_apply, Fin.sum_univ_two, Array.getD] <;>
    first
    | ring1
    | linear_combination (-(h.c * (zp * zp' * h2 + h1)))
    | linear_combination (h.s * zl * zl) * h1
    | linear_combination (-(h.s * zl * zl)) * h1
    | linear_combination (-(h.s * zp * zp)) * h2

theorem rz_mul {I : R} (hI : ImagUnit I) (a b : CS R) :
    flatMat 2 (Gates.rz I a) * flatMat 2 (Gates.rz I b) = flatMat 2 (Gates.rz I (CS.add a b)) := by
  ext i j
  fin_cases i <;> fin_cases j <;>
    simp [flatMat, Gates.rz, CS.add, Matrix.mul_apply, Fin.sum_univ_two, Array.getD] <;>
    linear_combination (a.s * b.s) * hI.sq

theorem rx_mul {I : R} (hI : ImagUnit I) (a b : CS R) :
    flatMat 2 (Gates.rx I a) * flatMat 2 (Gates.rx I b) = flatMat 2 (Gates.rx I (CS.add a b)) := by
  ext i j
  fin_cases i <;> fin_cases j <;>
    simp [flatMat, Gates.rx, CS.add, Matrix.mul_apply, Fin.sum_univ_two, Array.getD] <;>
    first | ring1 | linear_combination (a.s * b.s) * hI.sq

omit [StarRing R] in
theorem ry_mul (a b : CS R) :
    flatMat 2 (Gates.ry a) * flatMat 2 (Gates.ry b) = flatMat 2 (Gates.ry (CS.add a b)) := by
  ext i j
  fin_cases i <;> fin_cases j <;>
    simp [flatMat, Gates.ry, CS.add, Matrix.mul_apply, Fin.sum_univ_two, Array.getD] <;> ring1

theorem rzz_mul {I : R} (hI : ImagUnit I) (a b : CS R) :
    flatMat 4 (Gates.rzz I a) * flatMat 4 (Gates.rzz I b) = flatMat 4 (Gates.rzz I (CS.add a b)) := by
  ext i j
  fin_cases i <;> fin_cases j <;>
    simp [flatMat, Gates.rzz, CS.add, Matrix.mul_apply, Fin.sum_univ_four, Array.getD] <;>
    linear_combination (a.s * b.s) * hI.sq

/-! ### the constants `CNOT`, `CZ` are the controlled gates the `Circuit` methods build (entries in {0, ±1}: decided over ℤ) -/

theorem CNOT_eq_controlled_X :
    tabulateMat (ctrlEmbed (lookupMat (k := 1) (Gates.X : Array Int)) (fun i : Fin 2 => i == 0) ![1])
      = (Gates.CNOT : Array Int) := by decide

theorem CZ_eq_controlled_Z :
    tabulateMat (ctrlEmbed (lookupMat (k := 1) (Gates.Z : Array Int)) (fun i : Fin 2 => i == 0) ![1])
      = (Gates.CZ : Array Int) := by decide


/-! ### every circuit written in the vocabulary is unitary -/

/-- a flat array that is a unitary `2^k × 2^k` matrix for some `k` -/
def FlatUnitary (U : Array R) : Prop :=
  ∃ k, U.size = 2 ^ k * 2 ^ k ∧ Matrix.of (lookupMat (k := k) U) ∈ unitaryGroup (Bits k) R

/-- a raw gate-list entry carrying a unitary array -/
def IsUnitaryEntry : RawOp R → Prop
  | .unitary U _ => FlatUnitary U
  | .control U _ _ => FlatUnitary U
  | .custom U => FlatUnitary U
  | .measure _ _ => False

private theorem pow_sq_inj {k m : Nat} (h : 2 ^ k * 2 ^ k = 2 ^ m * 2 ^ m) : k = m := by
  rw [← pow_add, ← pow_add] at h
  have := Nat.pow_right_injective (le_refl 2) h
  omega

/-- resolving an entry against a register keeps its array: unitary entries become unitary operators -/
theorem compile_isUnitary (n : Nat) (g : RawOp R) (op : Op n R) (h : g.compile n = some op)
    (hu : IsUnitaryEntry g) : IsUnitaryOp op := by
  cases n with
  | zero => simp [RawOp.compile] at h
  | succ n =>
    cases g with
    | unitary U t =>
      obtain ⟨k, hk, hU⟩ := hu
      simp only [RawOp.compile] at h
      split at h
      · rename_i hc
        simp only [Bool.and_eq_true, beq_iff_eq] at hc
        obtain rfl := pow_sq_inj (hk.symm.trans hc.2)
        cases h
        exact hU
      · cases h
    | control U c t =>
      obtain ⟨k, hk, hU⟩ := hu
      simp only [RawOp.compile] at h
      split at h
      · cases h
      · split at h
        · rename_i hc
          simp only [Bool.and_eq_true, beq_iff_eq] at hc
          obtain rfl := pow_sq_inj (hk.symm.trans hc.2)
          cases h
          exact hU
        · cases h
    | measure s o => exact hu.elim
    | custom U =>
      obtain ⟨k, hk, hU⟩ := hu
      simp only [RawOp.compile] at h
      split at h
      · rename_i hc
        simp only [beq_iff_eq] at hc
        obtain rfl := pow_sq_inj (hk.symm.trans hc)
        cases h
        exact hU
      · cases h

/-- **every method of the vocabulary appends a unitary gate**, for every angle -/
theorem vocab_isUnitaryEntry {I : R} (hI : ImagUnit I) (v : Vocab R) (hp : ∀ p ∈ v.pairs, p.Valid) :
    IsUnitaryEntry (v.toRaw I) := by
  have one := fun (a : Array R) (hs : a.size = 2 ^ 1 * 2 ^ 1) (h : flatMat 2 a ∈ unitaryGroup (Fin 2) R) =>
    (⟨1, hs, lookupMat_unitary (d := 2) (k := 1) rfl a h⟩ : FlatUnitary a)
  have two := fun (a : Array R) (hs : a.size = 2 ^ 2 * 2 ^ 2) (h : flatMat 4 a ∈ unitaryGroup (Fin 4) R) =>
    (⟨2, hs, lookupMat_unitary (d := 4) (k := 2) rfl a h⟩ : FlatUnitary a)
  cases v with
  | X q => exact one _ rfl X_unitary
  | Y q => exact one _ rfl (Y_unitary hI)
  | Z q => exact one _ rfl Z_unitary
  | S q => exact one _ rfl (S_unitary hI)
  | H q p => exact one _ rfl (H_unitary (hp p (by simp [Vocab.pairs])))
  | T q p => exact one _ rfl (T_unitary hI (hp p (by simp [Vocab.pairs])))
  | Swap q0 q1 => exact two _ rfl Swap_unitary
  | cnot c t => exact one _ rfl X_unitary
  | cy c t => exact one _ rfl (Y_unitary hI)
  | cz c t => exact one _ rfl Z_unitary
  | toffoli c0 c1 t => exact one _ rfl X_unitary
  | rx q h => exact one _ rfl (rx_unitary hI (hp h (by simp [Vocab.pairs])))
  | ry q h => exact one _ rfl (ry_unitary (hp h (by simp [Vocab.pairs])))
  | rz q h => exact one _ rfl (rz_unitary hI (hp h (by simp [Vocab.pairs])))
  | u3 q h ph la =>
    exact one _ rfl (u3_unitary hI (hp h (by simp [Vocab.pairs])) (hp ph (by simp [Vocab.pairs])) (hp la (by simp [Vocab.pairs])))
  | rzz q0 q1 h => exact two _ rfl (rzz_unitary hI (hp h (by simp [Vocab.pairs])))
  | crx c t h => exact one _ rfl (rx_unitary hI (hp h (by simp [Vocab.pairs])))
  | cry c t h => exact one _ rfl (ry_unitary (hp h (by simp [Vocab.pairs])))
  | crz c t h => exact one _ rfl (rz_unitary hI (hp h (by simp [Vocab.pairs])))
  | cu3 c t h ph la =>
    exact one _ rfl (u3_unitary hI (hp h (by simp [Vocab.pairs])) (hp ph (by simp [Vocab.pairs])) (hp la (by simp [Vocab.pairs])))

private theorem mapM_some_mem {α β : Type} (f : α → Option β) :
    ∀ (l : List α) (c : List β), l.mapM f = some c → ∀ b ∈ c, ∃ a ∈ l, f a = some b
  | [], c, h, b, hb => by simp at h; subst h; simp at hb
  | a :: l, c, h, b, hb => by
    rw [List.mapM_cons] at h
    cases hfa : f a with
    | none => simp [hfa] at h
    | some b0 =>
      cases hl : l.mapM f with
      | none => simp [hfa, hl] at h
      | some c0 =>
        simp [hfa, hl] at h
        subst h
        rcases List.mem_cons.1 hb with rfl | hb
        · exact ⟨a, by simp, hfa⟩
        · obtain ⟨a', ha', hfa'⟩ := mapM_some_mem f l c0 hl b hb
          exact ⟨a', List.mem_cons_of_mem _ ha', hfa'⟩

/-- **`circuit_unitary_of_vocabulary`**: every circuit built only from vocabulary methods (any qubits the index
resolution accepts, any angles) has a unitary `to_unitary` — no per-gate hypothesis left. -/
theorem circuit_unitary_of_vocabulary {I : R} (hI : ImagUnit I) (n : Nat) (prog : List (Vocab R))
    (hp : ∀ v ∈ prog, ∀ p ∈ v.pairs, p.Valid) (c : List (Op n R))
    (hc : compileCircuit n (prog.map (Vocab.toRaw I)) = some c) :
    Matrix.of (toUnitary c) ∈ unitaryGroup (Bits n) R := by
  have key : ∀ op ∈ c, op.WF ∧ IsUnitaryOp op := by
    intro op hop
    obtain ⟨g, hg, hgo⟩ := mapM_some_mem _ _ _ hc op hop
    obtain ⟨v, hv, rfl⟩ := List.mem_map.1 hg
    exact ⟨compile_wf n _ op hgo, compile_isUnitary n _ op hgo (vocab_isUnitaryEntry hI v (hp v hv))⟩
  exact toUnitary_unitary c (fun op hop => (key op hop).1) (fun op hop => (key op hop).2)

/-! ### the executed carriers -/

/-- `GInt.I` and `QI.I` (what the driver passes as the imaginary unit) are imaginary units -/
theorem imagUnit_GInt : ImagUnit GInt.I := ⟨GInt.I_mul_I, GInt.star_I⟩
theorem imagUnit_QI : ImagUnit QI.I := ⟨QI.I_mul_I, QI.star_I⟩

/-- **what the driver computes**: every vocabulary program over `ℚ[i]` (exact rational cosine/sine pairs) resolved by the
index resolution has a unitary `to_unitary` -/
theorem circuit_unitary_of_vocabulary_QI (n : Nat) (prog : List (Vocab QI)) (hp : ∀ v ∈ prog, ∀ p ∈ v.pairs, p.Valid)
    (c : List (Op n QI)) (hc : compileCircuit n (prog.map (Vocab.toRaw QI.I)) = some c) :
    Matrix.of (toUnitary c) ∈ unitaryGroup (Bits n) QI :=
  circuit_unitary_of_vocabulary imagUnit_QI n prog hp c hc

/-- over `ℚ[i]` an imaginary unit **and** non-trivial valid pairs exist together (angle with cos = 3/5, sin = 4/5) -/
example : ImagUnit QI.I ∧ (⟨⟨3/5, 0⟩, ⟨4/5, 0⟩⟩ : CS QI).Valid := by
  refine ⟨imagUnit_QI, ⟨?_, ?_, ?_⟩⟩
  · apply QI.ext' <;> simp [star]
  · apply QI.ext' <;> simp [star]
  · apply QI.ext' <;> simp <;> norm_num

/-! ### the hypotheses are satisfiable -/

/-- `ℂ` with `Complex.I` -/
example : ImagUnit Complex.I := ⟨Complex.I_mul_I, Complex.conj_I⟩

/-- the angle 0 (and `π`, `π/2`) as exact pairs over any ring; over `ℚ` also `(3/5, 4/5)` -/
example : (⟨1, 0⟩ : CS ℚ).Valid ∧ (⟨0, 1⟩ : CS ℚ).Valid ∧ (⟨-1, 0⟩ : CS ℚ).Valid ∧ (⟨3/5, 4/5⟩ : CS ℚ).Valid := by
  refine ⟨⟨rfl, rfl, by norm_num⟩, ⟨rfl, rfl, by norm_num⟩, ⟨rfl, rfl, by norm_num⟩, ⟨rfl, rfl, by norm_num⟩⟩

/-- the model computes: the Toffoli entry `toffoli((0,2), 1)` flips qubit 1 of |101⟩ -/
example : (((Vocab.toffoli 0 2 1 : Vocab Int).toRaw 0).compile 3).map (fun g => g.applyA #[0,0,0,0,0,1,0,0])
    = some #[0,0,0,0,0,0,0,1] := by decide

end Numqi.C03
