/-
C03 (programs) — the Circuit-API statements as model constants.

`append_gate`, `extend_circuit`, `shift_qubit_index_` (and the entries `apply_state` refuses) used to be flattened by the
harness before the driver saw a program.  They are now `Stmt0` / `Stmt` / `runProg` of `NumqiModel/Gates.lean`, executed by
the driver; the theorems below say what each statement does to the entry list and to the operator, so the flattening is no
longer part of the trusted harness.
-/
import NumqiProps.C03Gates
import NumqiProofs.MeasureLemmas

namespace Numqi.C03
open Numqi Function Matrix

variable {α : Type} [Zero α] [One α] [Add α] [Sub α] [Mul α] [Neg α]

/-! ### what each statement does to `gate_index_list`

`runProg_snoc` is the unfolding of the fold; the four statements below it are its readings for the four kinds of statement
(definitional: they document the model, the content is in `circuit_shift`, `compile_shift_*`, `refused_not_compiled`). -/

theorem runProg_snoc (I : α) (p : List (Stmt α)) (s : Stmt α) :
    runProg I (p ++ [s]) = Stmt.step I (runProg I p) s := by
  simp [runProg, List.foldl_append]

/-- **`append_gate` / any single-entry method appends exactly one entry and touches nothing else** (definitional) -/
theorem runProg_append_gate (I : α) (p : List (Stmt α)) (g : RawOp α) :
    runProg I (p ++ [.base (.gate g)]) = runProg I p ++ [g.canon] := by
  rw [runProg_snoc]; rfl

/-- a named gate method appends the entry of the vocabulary table (definitional) -/
theorem runProg_call (I : α) (p : List (Stmt α)) (v : Vocab α) :
    runProg I (p ++ [.base (.call v)]) = runProg I p ++ [(v.toRaw I).canon] := by
  rw [runProg_snoc]; rfl

/-- **`shift_qubit_index_(δ)` translates the indices of every entry present so far** (later appends are not affected;
definitional) -/
theorem runProg_shift (I : α) (p : List (Stmt α)) (δ : Int) :
    runProg I (p ++ [.base (.shift δ)]) = (runProg I p).map (RawOp.shift δ) := by
  rw [runProg_snoc]; rfl

/-- **`extend_circuit(sub)` appends the entries of the other circuit, in order** (definitional) -/
theorem runProg_extend (I : α) (p : List (Stmt α)) (sub : List (Stmt0 α)) :
    runProg I (p ++ [.extend sub]) = runProg I p ++ runProg0 I sub := by
  rw [runProg_snoc]; rfl

/-! ### an entry `apply_state` refuses -/

/-- the entry has no array -/
def RawOp.noArray : RawOp α → Bool
  | .unitary U _ => U.size == 0
  | .control U _ _ => U.size == 0
  | .custom U => U.size == 0
  | .measure _ _ => false

omit [One α] [Add α] [Sub α] [Mul α] [Neg α] in
/-- an entry without array is rejected at every width -/
theorem compile_noArray (n : Nat) (g : RawOp α) (h : RawOp.noArray g = true) : g.compile n = none := by
  have hp : ∀ k : Nat, ((0 : Nat) == 2 ^ k * 2 ^ k) = false := by
    intro k
    have : 0 < 2 ^ k * 2 ^ k := Nat.mul_pos (Nat.two_pow_pos k) (Nat.two_pow_pos k)
    simp only [beq_eq_false_iff_ne, ne_eq]; omega
  cases n with
  | zero => cases g <;> rfl
  | succ n =>
    cases g with
    | unitary U t =>
      have hU : U.size = 0 := by simpa [RawOp.noArray] using h
      simp [RawOp.compile, hU, hp]
    | control U c t =>
      have hU : U.size = 0 := by simpa [RawOp.noArray] using h
      simp only [RawOp.compile, hU, hp, Bool.and_false]
      split <;> simp
    | measure s o => simp [RawOp.noArray] at h
    | custom U =>
      have hU : U.size = 0 := by simpa [RawOp.noArray] using h
      simp [RawOp.compile, hU, hp]

omit [Zero α] [One α] [Add α] [Sub α] [Mul α] [Neg α] in
theorem noArray_shift (δ : Int) (g : RawOp α) : RawOp.noArray (g.shift δ) = RawOp.noArray g := by
  cases g <;> rfl

omit [Zero α] [One α] [Add α] [Sub α] [Mul α] [Neg α] in
theorem noArray_refused (r : Refused) : RawOp.noArray (r.toRaw : RawOp α) = true := by
  cases r <;> rfl

omit [One α] [Add α] [Sub α] [Mul α] [Neg α] in
/-- a list holding an entry without array is not a circuit at any width -/
theorem compileCircuit_noArray (n : Nat) (l : List (RawOp α)) (h : ∃ g ∈ l, RawOp.noArray g = true) : compileCircuit n l = none := by
  obtain ⟨g, hg, hn⟩ := h
  induction l with
  | nil => simp at hg
  | cons a l ih =>
    unfold compileCircuit
    rw [List.mapM_cons]
    rcases List.mem_cons.1 hg with rfl | hmem
    · rw [compile_noArray n g hn]; rfl
    · have := ih hmem
      unfold compileCircuit at this
      rw [this]
      cases RawOp.compile n a <;> rfl

theorem step0_keeps_noArray (I : α) (l : List (RawOp α)) (s : Stmt0 α) (h : ∃ g ∈ l, RawOp.noArray g = true) :
    ∃ g ∈ Stmt0.step I l s, RawOp.noArray g = true := by
  obtain ⟨g, hg, hn⟩ := h
  cases s with
  | gate g' => exact ⟨g, List.mem_append_left _ hg, hn⟩
  | call v => exact ⟨g, List.mem_append_left _ hg, hn⟩
  | shift δ => exact ⟨g.shift δ, List.mem_map_of_mem hg, by rw [noArray_shift]; exact hn⟩
  | refused r => exact ⟨g, List.mem_append_left _ hg, hn⟩

theorem step_keeps_noArray (I : α) (l : List (RawOp α)) (s : Stmt α) (h : ∃ g ∈ l, RawOp.noArray g = true) :
    ∃ g ∈ Stmt.step I l s, RawOp.noArray g = true := by
  cases s with
  | base s0 => exact step0_keeps_noArray I l s0 h
  | extend sub => obtain ⟨g, hg, hn⟩ := h; exact ⟨g, List.mem_append_left _ hg, hn⟩

/-- **an entry `apply_state` refuses (never-set placeholder, Kraus entry) makes the circuit inapplicable for good**: whatever
statements follow (appends, shifts, extensions), the entry list compiles at no width — `Circuit.apply_state` / `to_unitary`
raise.  The entry itself stays in the list with its real index (`Refused.toRaw`), so `num_qubit` and
`shift_qubit_index_` still account for it. -/
theorem refused_not_compiled (I : α) (p q : List (Stmt α)) (r : Refused) (n : Nat) :
    compileCircuit n (runProg I (p ++ [.base (.refused r)] ++ q)) = none := by
  apply compileCircuit_noArray
  have h0 : ∀ (q : List (Stmt α)) (l : List (RawOp α)), (∃ g ∈ l, RawOp.noArray g = true) →
      ∃ g ∈ q.foldl (Stmt.step I) l, RawOp.noArray g = true := by
    intro q
    induction q with
    | nil => intro l h; exact h
    | cons s q ih => intro l h; rw [List.foldl_cons]; exact ih _ (step_keeps_noArray I l s h)
  simp only [runProg, List.foldl_append, List.foldl_cons, List.foldl_nil]
  apply h0
  exact ⟨r.toRaw, List.mem_append_right _ (List.mem_singleton.2 rfl), noArray_refused r⟩

omit [Zero α] [One α] [Add α] [Sub α] [Mul α] [Neg α] in
/-- `num_qubit` counts a never-set placeholder at its index and ignores a Kraus entry (`circuit.py:458-465`) -/
theorem refused_maxIndex (t : List Int) :
    RawOp.maxIndex (Refused.toRaw (α := α) (.placeholder t)) = t.foldl max 0 ∧
    RawOp.maxIndex (Refused.toRaw (α := α) .nonCanonical) = 0 := ⟨rfl, rfl⟩

/-! ### shifts compose; a negative shift undoes a positive one -/

omit [Zero α] [One α] [Add α] [Sub α] [Mul α] [Neg α] in
theorem shift_shift (a b : Int) (g : RawOp α) : (g.shift a).shift b = g.shift (a + b) := by
  cases g <;> simp [RawOp.shift, List.map_map, Function.comp_def, add_assoc]

omit [Zero α] [One α] [Add α] [Sub α] [Mul α] [Neg α] in
theorem shift_zero (g : RawOp α) : g.shift 0 = g := by
  cases g <;> simp [RawOp.shift]

omit [Zero α] [One α] [Add α] [Sub α] [Mul α] [Neg α] in
/-- `shift_qubit_index_(-d)` after `shift_qubit_index_(d)` restores every entry (so the theorems for `d ≥ 0`,
`compile_shift_unitary/control/measure`, also describe a negative shift: read them from right to left) -/
theorem shift_neg_cancel (d : Int) (g : RawOp α) : (g.shift d).shift (-d) = g := by
  rw [shift_shift, add_neg_cancel, shift_zero]


/-! ### shifting a measure entry -/

section measure
variable {R : Type} {n : Nat}

theorem projEmbed_cast_m [Zero R] [One R] {m m' : Nat} (h : m' = m) (s : Fin m → Fin n) (s' : Fin m' → Fin n)
    (o : Bits m) (o' : Bits m') (hs : ∀ j, s' j = s (Fin.cast h j)) (ho : ∀ j, o' j = o (Fin.cast h j)) :
    projEmbed (α := R) s' o' = projEmbed s o := by
  subst h
  have h1 : s' = s := funext fun j => by simpa using hs j
  have h2 : o' = o := funext fun j => by simpa using ho j
  rw [h1, h2]

theorem projEmbed_shift [Zero R] [One R] {m : Nat} (d : Nat) (s : Fin m → Fin n) (o : Bits m) (x x' : Bits (d + n)) :
    projEmbed (α := R) (fun j => Fin.natAdd d (s j)) o x x'
      = if Bits.head d x = Bits.head d x' then projEmbed s o (Bits.tail d x) (Bits.tail d x') else 0 := by
  simp only [projEmbed, Bool.and_eq_true, Bits.beq_iff, bits_eq_iff_head_tail d x x']
  have hsel : x.sel (fun j => Fin.natAdd d (s j)) = (Bits.tail d x).sel s := rfl
  rw [hsel]
  by_cases h1 : Bits.head d x = Bits.head d x' <;> simp [h1]

/-- **`shift_qubit_index_` on a measure entry** (`circuit.py:482-486`, which also updates `gate.index`): resolving the
shifted entry against `d` more qubits gives the projector `1_d ⊗ P_o` of the original entry -/
theorem compile_shift_measure [Zero R] [One R] (d n : Nat) (sq : List Int) (o : List Bool) (op : Op (n + 1) R)
    (op' : Op (d + (n + 1)) R) (h : (RawOp.measure (α := R) sq o).compile (n + 1) = some op)
    (h' : ((RawOp.measure (α := R) sq o).shift d).compile (d + (n + 1)) = some op') (x x' : Bits (d + (n + 1))) :
    op'.matrix x x' = if Bits.head d x = Bits.head d x' then op.matrix (Bits.tail d x) (Bits.tail d x') else 0 := by
  simp only [RawOp.compile] at h
  split at h
  · rename_i hc
    simp only [Bool.and_eq_true, List.all_eq_true, decide_eq_true_eq] at hc
    cases h
    change RawOp.compile ((d + n) + 1) (RawOp.measure (sq.map (· + (d : Int))) o) = some op' at h'
    simp only [RawOp.compile] at h'
    split at h'
    · rename_i hc'
      simp only [Bool.and_eq_true, List.all_eq_true, decide_eq_true_eq] at hc'
      cases h'
      simp only [Op.matrix]
      have hk : (sq.map (· + (d : Int))).length = sq.length := List.length_map _
      have hr : ∀ x ∈ sq, 0 ≤ x ∧ x < ((n + 1 : Nat) : Int) := fun x hx => by simpa using hc.1.1 x hx
      have hr' : ∀ x ∈ sq.map (· + (d : Int)), 0 ≤ x ∧ x < ((d + n + 1 : Nat) : Int) := fun x hx => by
        simpa using hc'.1.1 x hx
      rw [projEmbed_cast_m hk (fun j => Fin.natAdd d (mkTarget n sq j)) _ (fun j => o.getD j.val false) _ ?_ ?_,
        projEmbed_shift]
      · intro j
        apply Fin.ext
        have e1 := mkTarget_val (n := d + n) hr' j
        have e2 := mkTarget_val (n := n) hr (Fin.cast hk j)
        refine Int.ofNat_inj.1 ?_
        simp only [Fin.val_natAdd, Nat.cast_add] at e1 e2 ⊢
        rw [e1, e2]
        simp [add_comm]
      · intro j; rfl
    · cases h'
  · cases h

end measure


/-! ### `args=None`: the parametrised methods initialise their angles to zero (`circuit.py:71-72, 86-87`) -/

section zero
variable {R : Type} [CommRing R]

/-- at angle 0 — the pair `(1, 0)` — every rotation is the identity array -/
theorem rx_zero (I : R) : Gates.rx I ⟨1, 0⟩ = Gates.I2 := by simp [Gates.rx, Gates.I2]
theorem ry_zero : Gates.ry (⟨1, 0⟩ : CS R) = Gates.I2 := by simp [Gates.ry, Gates.I2]
theorem rz_zero (I : R) : Gates.rz I ⟨1, 0⟩ = Gates.I2 := by simp [Gates.rz, Gates.I2]
theorem u3_zero (I : R) : Gates.u3 I ⟨1, 0⟩ ⟨1, 0⟩ ⟨1, 0⟩ = Gates.I2 := by simp [Gates.u3, Gates.I2]
theorem rzz_zero (I : R) : Gates.rzz I ⟨1, 0⟩ = #[1,0,0,0, 0,1,0,0, 0,0,1,0, 0,0,0,1] := by simp [Gates.rzz]

end zero

/-! ### `extend_circuit`: the operator of the extended circuit is the product -/

section extend
variable {R : Type} {n : Nat}

theorem compileCircuit_append [Zero R] (a b : List (RawOp R)) :
    compileCircuit n (a ++ b) = (do let x ← compileCircuit n a; let y ← compileCircuit n b; pure (x ++ y)) := by
  unfold compileCircuit
  induction a with
  | nil => simp
  | cons g a ih =>
    simp only [List.cons_append, List.mapM_cons, ih]
    cases RawOp.compile n g <;> simp
    cases List.mapM (RawOp.compile n) a <;> simp
    cases List.mapM (RawOp.compile n) b <;> simp

theorem circuitMatrix_append [Semiring R] (c1 c2 : List (Op n R)) :
    circuitMatrix (c1 ++ c2) = circuitMatrix c2 * circuitMatrix c1 := by
  simp [circuitMatrix, List.map_append, List.reverse_append, List.prod_append]

/-- **acting with the extended circuit = acting with the first circuit, then with the appended one** -/
theorem applyStateA_extend [Add R] [Mul R] [Zero R] (c1 c2 : List (Op n R)) (a : Array R) :
    applyStateA (c1 ++ c2) a = applyStateA c2 (applyStateA c1 a) := by
  simp [applyStateA, List.foldl_append]

end extend

/-! ### `shift_qubit_index_` commutes with the index resolution, for whole circuits -/

section circuitShift
variable {R : Type} {n : Nat}

/-- `A'` on `d + n` qubits is `1_d ⊗ A` -/
def IsShiftOf [Zero R] (d : Nat) (A' : Matrix (Bits (d + n)) (Bits (d + n)) R) (A : Matrix (Bits n) (Bits n) R) : Prop :=
  ∀ x x', A' x x' = if Bits.head d x = Bits.head d x' then A (Bits.tail d x) (Bits.tail d x') else 0

/-- a `(d+n)`-bit index is its head and its tail -/
def splitEquiv (d n : Nat) : Bits d × Bits n ≃ Bits (d + n) where
  toFun p := Fin.append p.1 p.2
  invFun x := (Bits.head d x, Bits.tail d x)
  left_inv p := by
    refine Prod.ext ?_ ?_
    · funext i; simp [Bits.head, Fin.append_left]
    · funext i; simp [Bits.tail, Fin.append_right]
  right_inv x := by
    funext i
    refine Fin.addCases (fun a => ?_) (fun b => ?_) i
    · simp [Bits.head, Fin.append_left]
    · simp [Bits.tail, Fin.append_right]

theorem isShiftOf_one [Semiring R] (d : Nat) : IsShiftOf d (1 : Matrix (Bits (d + n)) (Bits (d + n)) R) 1 := by
  intro x x'
  simp only [Matrix.one_apply, bits_eq_iff_head_tail d x x']
  by_cases h1 : Bits.head d x = Bits.head d x' <;> simp [h1]

theorem isShiftOf_mul [Semiring R] (d : Nat) {A' B' : Matrix (Bits (d + n)) (Bits (d + n)) R}
    {A B : Matrix (Bits n) (Bits n) R} (hA : IsShiftOf d A' A) (hB : IsShiftOf d B' B) : IsShiftOf d (A' * B') (A * B) := by
  intro x x'
  rw [Matrix.mul_apply, ← (splitEquiv d n).sum_comp, Fintype.sum_prod_type]
  have hh : ∀ p : Bits d × Bits n, Bits.head d (splitEquiv d n p) = p.1 := fun p => congrArg Prod.fst ((splitEquiv d n).left_inv p)
  have ht : ∀ p : Bits d × Bits n, Bits.tail d (splitEquiv d n p) = p.2 := fun p => congrArg Prod.snd ((splitEquiv d n).left_inv p)
  simp only [hA _ _, hB _ _, hh, ht]
  by_cases h : Bits.head d x = Bits.head d x'
  · rw [if_pos h, Matrix.mul_apply, Finset.sum_eq_single (Bits.head d x)]
    · simp [h]
    · intro a _ ha
      have : ¬ Bits.head d x = a := fun e => ha e.symm
      simp [this]
    · intro hne; exact absurd (Finset.mem_univ _) hne
  · rw [if_neg h]
    refine Finset.sum_eq_zero (fun a _ => ?_)
    by_cases h1 : Bits.head d x = a
    · have : ¬ a = Bits.head d x' := fun e => h (h1.trans e)
      simp [h1, this]
    · simp [h1]

/-- an entry that carries qubit indices (everything but a `kind='custom'` gate, which is tied to the register width) -/
def RawOp.Shiftable {α : Type} : RawOp α → Prop
  | .custom _ => False
  | _ => True

private theorem mapM_cons_some {α β : Type} (f : α → Option β) (a : α) (l : List α) (c : List β)
    (h : (a :: l).mapM f = some c) : ∃ b c0, f a = some b ∧ l.mapM f = some c0 ∧ c = b :: c0 := by
  rw [List.mapM_cons] at h
  cases hfa : f a with
  | none => simp [hfa] at h
  | some b =>
    cases hl : l.mapM f with
    | none => simp [hfa, hl] at h
    | some c0 => simp [hfa, hl] at h; exact ⟨b, c0, rfl, rfl, h.symm⟩

/-- **`shift_qubit_index_(d)` is an index translation that commutes with the index resolution**: if a gate list resolves
against `n+1` qubits and the shifted list against `d + (n+1)`, the operator of the shifted circuit is `1_d ⊗` the operator
of the original one — for every circuit of unitary, controlled and measure entries. -/
theorem circuit_shift [Semiring R] (d n : Nat) (l : List (RawOp R)) (hl : ∀ g ∈ l, RawOp.Shiftable g)
    (c : List (Op (n + 1) R)) (c' : List (Op (d + (n + 1)) R))
    (h : compileCircuit (n + 1) l = some c) (h' : compileCircuit (d + (n + 1)) (l.map (RawOp.shift d)) = some c') :
    IsShiftOf d (circuitMatrix c') (circuitMatrix c) := by
  induction l generalizing c c' with
  | nil =>
    simp [compileCircuit] at h h'
    subst h; subst h'
    rw [circuitMatrix_nil, circuitMatrix_nil]
    exact isShiftOf_one d
  | cons g l ih =>
    obtain ⟨op, c0, hg, hl0, rfl⟩ := mapM_cons_some _ _ _ _ h
    rw [List.map_cons] at h'
    obtain ⟨op', c0', hg', hl0', rfl⟩ := mapM_cons_some _ _ _ _ h'
    rw [circuitMatrix_cons, circuitMatrix_cons]
    refine isShiftOf_mul d (ih (fun g' hg'' => hl g' (List.mem_cons_of_mem _ hg'')) c0 c0' hl0 hl0') ?_
    have hs := hl g List.mem_cons_self
    intro x x'
    cases g with
    | unitary U t => exact compile_shift_unitary d n U t op op' hg hg' x x'
    | control U cc t => exact compile_shift_control d n U cc t op op' hg hg' x x'
    | measure sq o => exact compile_shift_measure d n sq o op op' hg hg' x x'
    | custom U => exact hs.elim

end circuitShift

/-! ### non-vacuity -/

/-- the model runs a program: `X(0)`, `extend_circuit([cnot(0,1)])`, `shift_qubit_index_(1)` leaves entries reaching qubits 1 and 2 -/
example : (runProg (0 : Int) [.base (.call (.X 0)), .extend [.call (.cnot 0 1)], .base (.shift 1)]).map RawOp.maxIndex = [1, 2] := by decide
/-- `X(0); rx(2, P['never'])` has `num_qubit = 3` (the refused entry counts at its index), `X(0); dephasing(2, …)` has 1; a later shift moves
the placeholder entry -/
example : numQubit (runProg (0 : Int) [.base (.call (.X 0)), .base (.refused (.placeholder [2]))]) = 3 := by decide
example : numQubit (runProg (0 : Int) [.base (.call (.X 0)), .base (.refused .nonCanonical)]) = 1 := by decide
example : numQubit (runProg (0 : Int) [.base (.refused (.placeholder [1])), .base (.shift 2)]) = 4 := by decide

/-- repeated control indices collapse: `crx((1,1), 2, θ)` is stored as `({1}, (2,))` -/
example : (RawOp.control (#[] : Array Int) [1, 1] [2]).canon = .control #[] [1] [2] := by
  show RawOp.control #[] ([1, 1] : List Int).eraseDups [2] = _
  have : ([1, 1] : List Int).eraseDups = [1] := by decide
  rw [this]

end Numqi.C03
