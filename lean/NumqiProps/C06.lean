/-
C06 — boundaries are exact thresholds; the detection hierarchy is nested.

Property theorems only (helper lemmas: `NumqiProofs/BoundaryLemmas.lean`).  The statements are about the constants of
`NumqiModel/Boundary.lean` that `Driver/C06.lean` executes.  External routines enter as hypotheses ("contracts"):
`np.linalg.eigvalsh` (the two extreme eigenvalues are attained Rayleigh bounds), the LP/SDP solvers (their output satisfies the
constraints of the programme).
-/
import NumqiProofs.BoundaryLemmas
import NumqiProofs.BoundaryDicke
import NumqiProofs.BoundaryNesting
import NumqiModel.Gellmann

namespace Numqi.C06
open Numqi Numqi.Boundary Matrix
open scoped ComplexOrder

/-! ## 1. closed-form boundaries are exact thresholds -/

section threshold
variable {n : Type} [Fintype n] [DecidableEq n]

/-- **`dm_boundary_threshold`**: along the ray `1/N + β·(ρ-1/N)/‖ρ‖` the state is positive semidefinite exactly for
`beta_l ≤ β ≤ beta_u`, the two numbers returned by `get_density_matrix_boundary` (just inside: positive; just outside: not).
All dimensions.  `μmin`/`μmax` = `eigvalsh(ρ)[0]`/`[-1]` with the `eigvalsh` contract; `μmin < 1/N < μmax` holds for every
trace-one `ρ ≠ 1/N`. -/
theorem dm_boundary_threshold (N d : ℝ) (hN : 0 < N) (hd : 0 < d) (ρ : Matrix n n ℂ) (μmin μmax : ℝ)
    (hmin : μmin < 1 / N) (hmax : 1 / N < μmax)
    (hlo : (ρ - (μmin : ℂ) • (1 : Matrix n n ℂ)).PosSemidef) (hhi : ((μmax : ℂ) • (1 : Matrix n n ℂ) - ρ).PosSemidef)
    (xlo xhi : n → ℂ) (hxlo : star xlo ⬝ᵥ xlo = 1) (halo : star xlo ⬝ᵥ (ρ *ᵥ xlo) = (μmin : ℂ))
    (hxhi : star xhi ⬝ᵥ xhi = 1) (hahi : star xhi ⬝ᵥ (ρ *ᵥ xhi) = (μmax : ℂ)) (β : ℝ) :
    (rayPoint N d ρ β).PosSemidef ↔ (dmBoundary N μmin μmax d).1 ≤ β ∧ β ≤ (dmBoundary N μmin μmax d).2 :=
  rayPoint_psd_iff N d hN hd ρ μmin μmax hmin hmax hlo hhi xlo xhi hxlo halo hxhi hahi β

/-- the lower boundary is negative and the upper one positive: `β = 0` (the maximally mixed state) is strictly inside -/
theorem dmBoundary_sign (N d : ℝ) (hN : 0 < N) (hd : 0 < d) (μmin μmax : ℝ) (hmin : μmin < 1 / N) (hmax : 1 / N < μmax) :
    (dmBoundary N μmin μmax d).1 < 0 ∧ 0 < (dmBoundary N μmin μmax d).2 := by
  simp only [dmBoundary]
  constructor
  · apply div_neg_of_neg_of_pos (by norm_num)
    exact mul_pos hN (div_pos (by linarith) hd)
  · apply div_pos_of_neg_of_neg (by norm_num)
    exact mul_neg_of_pos_of_neg hN (div_neg_of_neg_of_pos (by linarith) hd)

end threshold

section ppt
variable {dA dB : ℕ}

/-- the partial transpose of the ray point is the ray point of the partial transpose (index map of `get_ppt_boundary`) -/
theorem ptB_rayPoint (N d : ℝ) (ρ : Matrix (Fin dA × Fin dB) (Fin dA × Fin dB) ℂ) (β : ℝ) :
    ptM (rayPoint N d ρ β) = rayPoint N d (ptM ρ) β :=
  Boundary.ptB_rayPoint N d ρ β

/-- the partial transpose is an involution -/
theorem ptB_involutive (M : Matrix (Fin dA × Fin dB) (Fin dA × Fin dB) ℂ) : ptB (ptB M) = M := ptB_ptB M

/-- **`ppt_boundary_threshold`**: with the `eigvalsh` contract for `ρ` and for `ρ^Γ`, the state on the ray is positive
**and** has positive partial transpose exactly for `β` between the two numbers returned by
`get_ppt_boundary(within_dm=True)`; with `within_dm=False` they are the thresholds of `ρ(β)^Γ ⪰ 0` alone. -/
theorem ppt_boundary_threshold (N d : ℝ) (hN : 0 < N) (hd : 0 < d) (ρ : Matrix (Fin dA × Fin dB) (Fin dA × Fin dB) ℂ)
    (μmin μmax νmin νmax : ℝ) (hmin : μmin < 1 / N) (hmax : 1 / N < μmax) (hmin' : νmin < 1 / N) (hmax' : 1 / N < νmax)
    (hlo : (ρ - (μmin : ℂ) • (1 : Matrix _ _ ℂ)).PosSemidef) (hhi : ((μmax : ℂ) • (1 : Matrix _ _ ℂ) - ρ).PosSemidef)
    (xlo xhi : Fin dA × Fin dB → ℂ) (hxlo : star xlo ⬝ᵥ xlo = 1) (halo : star xlo ⬝ᵥ (ρ *ᵥ xlo) = (μmin : ℂ))
    (hxhi : star xhi ⬝ᵥ xhi = 1) (hahi : star xhi ⬝ᵥ (ρ *ᵥ xhi) = (μmax : ℂ))
    (hlo' : (ptM ρ - (νmin : ℂ) • (1 : Matrix _ _ ℂ)).PosSemidef)
    (hhi' : ((νmax : ℂ) • (1 : Matrix _ _ ℂ) - ptM ρ).PosSemidef)
    (ylo yhi : Fin dA × Fin dB → ℂ) (hylo : star ylo ⬝ᵥ ylo = 1)
    (hblo : star ylo ⬝ᵥ (ptM ρ *ᵥ ylo) = (νmin : ℂ))
    (hyhi : star yhi ⬝ᵥ yhi = 1) (hbhi : star yhi ⬝ᵥ (ptM ρ *ᵥ yhi) = (νmax : ℂ)) (β : ℝ) :
    (((rayPoint N d ρ β).PosSemidef ∧ (ptM (rayPoint N d ρ β)).PosSemidef) ↔
      (pptBoundary true (dmBoundary N μmin μmax d) (dmBoundary N νmin νmax d)).1 ≤ β
        ∧ β ≤ (pptBoundary true (dmBoundary N μmin μmax d) (dmBoundary N νmin νmax d)).2)
    ∧ ((ptM (rayPoint N d ρ β)).PosSemidef ↔
      (pptBoundary false (dmBoundary N μmin μmax d) (dmBoundary N νmin νmax d)).1 ≤ β
        ∧ β ≤ (pptBoundary false (dmBoundary N μmin μmax d) (dmBoundary N νmin νmax d)).2) := by
  have h1 := rayPoint_psd_iff N d hN hd ρ μmin μmax hmin hmax hlo hhi xlo xhi hxlo halo hxhi hahi β
  have h2 := rayPoint_psd_iff N d hN hd (ptM ρ) νmin νmax hmin' hmax' hlo' hhi' ylo yhi hylo hblo hyhi hbhi β
  have e : ptM (rayPoint N d ρ β) = rayPoint N d (ptM ρ) β := Boundary.ptB_rayPoint N d ρ β
  rw [e]
  refine ⟨?_, ?_⟩
  · rw [h1, h2]
    simp only [pptBoundary, if_true, max_le_iff, le_min_iff]
    tauto
  · rw [h2]; simp [pptBoundary]

/-- **`β_PPT ≤ β_DM`** for the returned numbers (`within_dm=True`): the PPT interval lies inside the DM interval -/
theorem pptBoundary_within_dm (dm pt : ℝ × ℝ) :
    dm.1 ≤ (pptBoundary true dm pt).1 ∧ (pptBoundary true dm pt).2 ≤ dm.2 := by
  simp [pptBoundary]

end ppt

/-! ## 2. interpolation -/

section interp
variable {K : Type} [Field K] [StarRing K] {n : ℕ}

/-- the interpolated matrix lies on the ray of `ρ`: `ret - 1/N = α (ρ - 1/N)` -/
theorem interp_on_ray (invN α : K) (ρ : Fin n → Fin n → K) (r c : Fin n) :
    interp invN α ρ r c - (if r = c then invN else 0) = α * (ρ r c - (if r = c then invN else 0)) :=
  interp_sub_center invN α ρ r c

/-- **`interpolate_distance`**: `hf_interpolate_dm(ρ, beta=b)` has squared Gell-Mann distance `b²` from `1/N`
(`d` = `dm_to_gellmann_norm(ρ)`, i.e. `d² = gmNorm2 ρ`, `d ≠ 0`; `b`, `d` real).  No trace condition on `ρ` is needed. -/
theorem interpolate_distance (invN half b d : K) (hN : (n : K) * invN = 1) (hb : star b = b) (hd : star d = d)
    (hd0 : d ≠ 0) (ρ : Fin n → Fin n → K) (hnorm : gmNorm2 invN half ρ = d * d) :
    gmNorm2 invN half (interpBeta invN b d ρ) = b * b := by
  unfold interpBeta
  have hα : star (b / d) = b / d := by rw [star_div₀, hb, hd]
  rw [gmNorm2_interp invN half (b / d) hN hα, hnorm]
  field_simp

end interp

/-! ## 3. nesting: inclusions between feasible sets give ordered boundary lengths -/

section nesting
variable {E : Type} [AddCommGroup E] [Module ℝ E]

/-- **`beta_mono`**: for nested sets the boundary length (supremum of the feasible `β`) is monotone -/
theorem beta_mono {A B : Set E} (h : A ⊆ B) (c v : E) (hne : (feasible A c v).Nonempty) (hbd : BddAbove (feasible B c v)) :
    sSup (feasible A c v) ≤ sSup (feasible B c v) :=
  csSup_le_csSup hbd hne (feasible_mono h c v)

/-- for a star-shaped set the feasible values form an interval starting at 0, so the supremum is a threshold -/
theorem feasible_interval {S : Set E} {c : E} (hS : StarShaped S c) (v : E) {β β' : ℝ}
    (hβ : β ∈ feasible S c v) (h0 : 0 ≤ β') (hle : β' ≤ β) : β' ∈ feasible S c v :=
  Boundary.feasible_interval hS v hβ h0 hle

/-- every convex set containing `c` is star-shaped about `c` (DM, PPT, k-extendible, separable states are convex) -/
theorem starShaped_of_convex {S : Set E} {c : E} (hc : c ∈ S)
    (hconv : ∀ x ∈ S, ∀ y ∈ S, ∀ t : ℝ, 0 ≤ t → t ≤ 1 → (1 - t) • x + t • y ∈ S) : StarShaped S c := by
  intro x hx t ht0 ht1
  have := hconv c hc x hx t ht0 ht1
  have e : c + t • (x - c) = (1 - t) • c + t • x := by
    rw [smul_sub, sub_smul, one_smul]; abel
  rwa [e]

end nesting

section sets
variable {dA dB : ℕ}

/-- density matrices (positivity part) -/
def DM (dA dB : ℕ) : Set (Matrix (Fin dA × Fin dB) (Fin dA × Fin dB) ℂ) := {M | M.PosSemidef}
/-- PPT states -/
def PPT (dA dB : ℕ) : Set (Matrix (Fin dA × Fin dB) (Fin dA × Fin dB) ℂ) :=
  {M | M.PosSemidef ∧ (ptM M).PosSemidef}
/-- mixtures of product projectors with non-negative weights (the hypothesis shape of C05; what a CHA point is) -/
def SEP (dA dB : ℕ) : Set (Matrix (Fin dA × Fin dB) (Fin dA × Fin dB) ℂ) :=
  {M | ∃ (K : ℕ) (lam : Fin K → ℂ) (a : Fin K → Fin dA → ℂ) (b : Fin K → Fin dB → ℂ),
        (∀ i, 0 ≤ lam i) ∧ M = Matrix.of (mixture lam a b)}

theorem ppt_subset_dm : PPT dA dB ⊆ DM dA dB := fun _ h => h.1

/-- **`cha_point_separable`**: a convex mixture of product projectors — in particular the state the LP of
`CHABoundaryBagging` stands for — is positive and has positive partial transpose: `SEP ⊆ PPT ⊆ DM`. -/
theorem sep_subset_ppt : SEP dA dB ⊆ PPT dA dB := by
  rintro M ⟨K, lam, a, b, hlam, rfl⟩
  refine ⟨mixture_posSemidef lam hlam a b, ?_⟩
  have : ptM (Matrix.of (mixture lam a b)) = Matrix.of (mixture lam a (fun i j => star (b i j))) :=
    ptB_mixture lam a b
  rw [this]
  exact mixture_posSemidef lam hlam a _

/-- hence the chain `β_CHA ≤ β_PPT ≤ β_DM` of the exact boundary lengths, in every direction -/
theorem beta_sep_le_ppt_le_dm (c v : Matrix (Fin dA × Fin dB) (Fin dA × Fin dB) ℂ)
    (hne : (feasible (SEP dA dB) c v).Nonempty) (hbd : BddAbove (feasible (DM dA dB) c v)) :
    sSup (feasible (SEP dA dB) c v) ≤ sSup (feasible (PPT dA dB) c v)
      ∧ sSup (feasible (PPT dA dB) c v) ≤ sSup (feasible (DM dA dB) c v) := by
  have hne' : (feasible (PPT dA dB) c v).Nonempty := hne.mono (feasible_mono sep_subset_ppt c v)
  have hbd' : BddAbove (feasible (PPT dA dB) c v) := hbd.mono (feasible_mono ppt_subset_dm c v)
  exact ⟨beta_mono sep_subset_ppt c v hne hbd', beta_mono ppt_subset_dm c v hne' hbd⟩

/-- **the LP point is the mixture**: if `(β, λ)` satisfies the constraints of the CHA programme
(`β·v̂ = Σ_i λ_i (P_i - 1/N)`, `Σ λ_i = 1`), the state `1/N + β·v̂` on the ray equals `Σ_i λ_i P_i`. -/
theorem cha_lp_point_eq_mixture {K : ℕ} (invN : ℂ) (β : ℂ) (vhat : Fin dA × Fin dB → Fin dA × Fin dB → ℂ)
    (lam : Fin K → ℂ) (a : Fin K → Fin dA → ℂ) (b : Fin K → Fin dB → ℂ)
    (hsum : ∑ i, lam i = 1)
    (hlp : ∀ p q, β * vhat p q = ∑ i, lam i * chaRow invN (a i) (b i) p q) (p q : Fin dA × Fin dB) :
    (if p = q then invN else 0) + β * vhat p q = mixture lam a b p q := by
  rw [hlp p q]
  simp only [chaRow, mixture, sumFin_eq, mul_sub, Finset.sum_sub_distrib, ← Finset.sum_mul, hsum, one_mul]
  ring

end sets

/-! ## 4. symmetric extensions -/

section extension
variable {dA dB : ℕ}

/-- states with a symmetric extension to `k+1` copies of `B` (`IsSymExt k ρ σ`: `σ ⪰ 0` on `A ⊗ B^{⊗(k+1)}`, invariant under
permutations of the copies, reducing to `ρ`) -/
def KEXT (dA dB k : ℕ) : Set (Matrix (Fin dA × Fin dB) (Fin dA × Fin dB) ℂ) := {ρ | ∃ σ, IsSymExt k ρ σ}

/-- **`kext_succ_subset`**: tracing out one copy of a symmetric extension gives a symmetric extension with one copy less —
the `(k+1)`-extendible states are `k`-extendible, for every `k` and all local dimensions. -/
theorem kext_succ_subset (k : ℕ) : KEXT dA dB (k + 1) ⊆ KEXT dA dB k :=
  fun ρ ⟨σ, hσ⟩ => ⟨traceFirst σ, isSymExt_traceFirst ρ σ hσ⟩

/-- extendible states are positive: `KEXT k ⊆ DM` -/
theorem kext_subset_dm (k : ℕ) : KEXT dA dB k ⊆ DM dA dB :=
  fun ρ ⟨σ, hσ⟩ => isSymExt_posSemidef ρ σ hσ

/-- hence `β_(k+1)ext ≤ β_kext ≤ β_DM` for the exact sets, in every direction -/
theorem beta_kext_chain (k : ℕ) (c v : Matrix (Fin dA × Fin dB) (Fin dA × Fin dB) ℂ)
    (hne : (feasible (KEXT dA dB (k + 1)) c v).Nonempty) (hbd : BddAbove (feasible (DM dA dB) c v)) :
    sSup (feasible (KEXT dA dB (k + 1)) c v) ≤ sSup (feasible (KEXT dA dB k) c v)
      ∧ sSup (feasible (KEXT dA dB k) c v) ≤ sSup (feasible (DM dA dB) c v) := by
  have hne' : (feasible (KEXT dA dB k) c v).Nonempty := hne.mono (feasible_mono (kext_succ_subset k) c v)
  have hbd' : BddAbove (feasible (KEXT dA dB k) c v) := hbd.mono (feasible_mono (kext_subset_dm k) c v)
  exact ⟨beta_mono (kext_succ_subset k) c v hne hbd', beta_mono (kext_subset_dm k) c v hne' hbd⟩

/-- for a pure state `ψ` on `A ⊗ B^{⊗(k+1)}` that is symmetric under permutations of the copies (what a vector in the Dicke
basis is), `|ψ⟩⟨ψ|` is a symmetric extension of its own reduction. -/
theorem pure_symmetric_reduction_extendible (k : ℕ) (ψ : Fin dA × (Fin (k + 1) → Fin dB) → ℂ)
    (hψ : ∀ π : Equiv.Perm (Fin (k + 1)), ∀ p, ψ (p.1, p.2 ∘ π) = ψ p) :
    reduceLast (vecMulVec ψ (star ψ)) ∈ KEXT dA dB k := by
  refine ⟨vecMulVec ψ (star ψ), posSemidef_vecMulVec_self_star ψ, ?_, fun p q => rfl⟩
  intro π p q
  simp only [vecMulVec_apply, Pi.star_apply]
  rw [hψ π p, hψ π q]

/-- fewer copies: `KEXT (k+j) ⊆ KEXT k` -/
theorem kext_add_subset (k j : ℕ) : KEXT dA dB (k + j) ⊆ KEXT dA dB k := by
  induction j with
  | zero => exact fun _ h => h
  | succ j ih => exact fun ρ h => ih (kext_succ_subset (k + j) h)

/-- **`pureb_has_extension`**: the density matrix that the modelled code path of `PureBosonicExt(dimA, dimB, kext = n+1)` returns
for **any** parameter vector — `partial_trace_ABk_to_AB` applied to the Dicke coefficients `ψ`, C17's model `Dicke.assembleAB` on
the index table, which `C17.dicke_reduction_eq` proves equal to embedding with the Dicke basis and tracing out `n` copies — has a
symmetric extension to `n+1` copies of `B`, hence to every smaller number of copies, and is positive.  All `dimA`, `dimB ≥ 2`, `n`. -/
theorem pureb_has_extension (n j : ℕ) (hj : j ≤ n) (hd : 2 ≤ dB) (ψ : ℕ → ℕ → ℂ) :
    (fun p q : Fin dA × Fin dB =>
        @Dicke.assembleAB ℂ _ _ _ ⟨starRingEnd ℂ⟩ dB (C17.tableC (n + 1) dB) ψ (p.1.val * dB + p.2.val) (q.1.val * dB + q.2.val))
      ∈ KEXT dA dB j ∧
    (fun p q : Fin dA × Fin dB =>
        @Dicke.assembleAB ℂ _ _ _ ⟨starRingEnd ℂ⟩ dB (C17.tableC (n + 1) dB) ψ (p.1.val * dB + p.2.val) (q.1.val * dB + q.2.val))
      ∈ DM dA dB := by
  have h : _ ∈ KEXT dA dB n := ⟨_, assembleAB_isSymExt dA n hd ψ⟩
  obtain ⟨i, rfl⟩ : ∃ i, n = j + i := ⟨n - j, by omega⟩
  exact ⟨kext_add_subset j i h, kext_subset_dm _ h⟩

end extension

/-! ## 5. separable ⊆ extendible; the chains with their side conditions discharged -/

section chain
variable {dA dB : ℕ}

/-- mixtures of product projectors with non-negative weights and **unit `B`-kets** — what `CHABoundaryBagging` returns (its kets
are normalised, checked on every run) -/
def SEPU (dA dB : ℕ) : Set (Matrix (Fin dA × Fin dB) (Fin dA × Fin dB) ℂ) :=
  {M | ∃ (K : ℕ) (lam : Fin K → ℂ) (a : Fin K → Fin dA → ℂ) (b : Fin K → Fin dB → ℂ),
        (∀ i, 0 ≤ lam i) ∧ (∀ i, ∑ x, b i x * star (b i x) = 1) ∧ M = Matrix.of (mixture lam a b)}

theorem sepu_subset_sep : SEPU dA dB ⊆ SEP dA dB :=
  fun _ ⟨K, lam, a, b, h1, _, h3⟩ => ⟨K, lam, a, b, h1, h3⟩

/-- **`sep_subset_kext`**: a convex mixture of product projectors (unit kets) has a symmetric extension
`Σ_i λ_i |a_i⟩⟨a_i| ⊗ (|b_i⟩⟨b_i|)^{⊗(k+1)}` to any number of copies — so `β_CHA ≤ β_k-ext` for the exact sets, every `k`. -/
theorem sepu_subset_kext (k : ℕ) : SEPU dA dB ⊆ KEXT dA dB k := by
  rintro M ⟨K, lam, a, b, hlam, hb, rfl⟩
  exact ⟨sepExt k lam a b, isSymExt_sepExt k lam hlam a b hb⟩

/-- the maximally mixed state lies in every set of the hierarchy (it is the mixture of the `N` basis product projectors) -/
theorem center_mem_sepu (dA dB : ℕ) :
    (((1 / ((dA * dB : ℕ) : ℝ) : ℝ) : ℂ) • (1 : Matrix (Fin dA × Fin dB) (Fin dA × Fin dB) ℂ)) ∈ SEPU dA dB := by
  refine ⟨dA * dB, _, _, _, ?_, ?_, center_eq_mixture dA dB⟩
  · intro i
    have : (0 : ℝ) ≤ 1 / ((dA * dB : ℕ) : ℝ) := by positivity
    exact_mod_cast this
  · intro i
    rw [Fintype.sum_eq_single (finProdFinEquiv.symm i).2]
    · simp
    · intro x hx; rw [Pi.single_apply, if_neg hx]; simp

/-- **the whole chain for the exact sets, side conditions discharged**: from the maximally mixed state `c = 1/N` in any direction
`v` that has a negative Rayleigh value (every non-zero traceless Hermitian direction has one),
`β_SEP ≤ β_(k+1)ext ≤ β_kext ≤ β_DM` and `β_SEP ≤ β_PPT ≤ β_DM` (boundary length = supremum of the feasible `β ≥ 0`).
Not covered (named gaps): the bosonic variant of `KEXT`, and `k-ext+PPT ⊆ PPT` for the SDP's constraint (PT of the *extension*). -/
theorem beta_chain (k : ℕ) (v : Matrix (Fin dA × Fin dB) (Fin dA × Fin dB) ℂ) (x : Fin dA × Fin dB → ℂ) (s r : ℝ)
    (hs : star x ⬝ᵥ x = (s : ℂ)) (hr : star x ⬝ᵥ (v *ᵥ x) = (r : ℂ)) (hneg : r < 0) :
    let c : Matrix (Fin dA × Fin dB) (Fin dA × Fin dB) ℂ := ((1 / ((dA * dB : ℕ) : ℝ) : ℝ) : ℂ) • 1
    sSup (feasible (SEPU dA dB) c v) ≤ sSup (feasible (KEXT dA dB (k + 1)) c v)
      ∧ sSup (feasible (KEXT dA dB (k + 1)) c v) ≤ sSup (feasible (KEXT dA dB k) c v)
      ∧ sSup (feasible (KEXT dA dB k) c v) ≤ sSup (feasible (DM dA dB) c v)
      ∧ sSup (feasible (SEPU dA dB) c v) ≤ sSup (feasible (PPT dA dB) c v)
      ∧ sSup (feasible (PPT dA dB) c v) ≤ sSup (feasible (DM dA dB) c v) := by
  intro c
  have hbd : BddAbove (feasible (DM dA dB) c v) := bddAbove_feasible_psd _ v x s r hs hr hneg
  have hne : (feasible (SEPU dA dB) c v).Nonempty :=
    ⟨0, le_rfl, by rw [zero_smul, add_zero]; exact center_mem_sepu dA dB⟩
  have hsk : ∀ j, SEPU dA dB ⊆ KEXT dA dB j := sepu_subset_kext
  have hsp : SEPU dA dB ⊆ PPT dA dB := fun M h => sep_subset_ppt (sepu_subset_sep h)
  refine ⟨?_, ?_, ?_, ?_, ?_⟩
  · exact beta_mono (hsk (k + 1)) c v hne (hbd.mono (feasible_mono (kext_subset_dm (k + 1)) c v))
  · exact beta_mono (kext_succ_subset k) c v (hne.mono (feasible_mono (hsk (k + 1)) c v))
      (hbd.mono (feasible_mono (kext_subset_dm k) c v))
  · exact beta_mono (kext_subset_dm k) c v (hne.mono (feasible_mono (hsk k) c v)) hbd
  · exact beta_mono hsp c v hne (hbd.mono (feasible_mono ppt_subset_dm c v))
  · exact beta_mono ppt_subset_dm c v (hne.mono (feasible_mono hsp c v)) hbd

end chain

/-! ## 6. the spec-level objects are the executed constants -/

/-- the ray point of the threshold theorems **is** `hf_interpolate_dm(ρ, beta=β, dm_norm=d)` as executed (`interpBeta`) -/
theorem rayPoint_eq_interpBeta {n : ℕ} (N d : ℝ) (ρ : Matrix (Fin n) (Fin n) ℂ) (β : ℝ) :
    rayPoint N d ρ β = Matrix.of (interpBeta (((1 / N : ℝ) : ℂ)) (β : ℂ) (d : ℂ) ρ) :=
  Boundary.rayPoint_eq_interpBeta N d ρ β

/-- the executed flat lists are numpy's row-major reshapes: position `flat(p)·N + flat(q)` of `toFlat M` holds `M p q`
(`flat(a,b) = a·dB + b`, `pairAt` its inverse) -/
theorem toFlat_getD {dA dB : ℕ} {α : Type} [Zero α] (M : Fin dA × Fin dB → Fin dA × Fin dB → α) (p q : Fin dA × Fin dB) :
    (toFlat dA dB M).getD (flatOfPair p * (dA * dB) + flatOfPair q) 0 = M p q ∧ pairAt dA dB ⟨flatOfPair p, flatOfPair_lt p⟩ = p :=
  ⟨Boundary.toFlat_getD M p q, pairAt_flatOfPair p⟩

/-- **the executed partial transpose (driver op `pt`) is `reshape(dA,dB,dA,dB).transpose(0,3,2,1).reshape(N,N)`** on flat lists:
output entry `[(a,b),(a',b')]` = input entry `[(a,b'),(a',b)]` -/
theorem toFlat_ptB_ofFlat {dA dB : ℕ} {α : Type} [Zero α] (l : List α) (p q : Fin dA × Fin dB) :
    (toFlat dA dB (ptB (ofFlat dA dB l))).getD (flatOfPair p * (dA * dB) + flatOfPair q) 0
      = l.getD (flatOfPair (p.1, q.2) * (dA * dB) + flatOfPair (q.1, p.2)) 0 :=
  Boundary.toFlat_ptB_ofFlat l p q

/-! ## 7. bookkeeping of the inner models' `get_boundary`, and their Gell-Mann loss -/

section inner

/-- **the bisection of `get_boundary` (`_ree_bisection_solve`) brackets the threshold**: if the predicate `threshold ≤ hf x` is false at
`x0` and true at `x1`, after `m` steps the loop holds `(a, b, xi)` with the predicate false at `a`, true at `b`,
`b - a = (x1 - x0)/2^m`, and the returned `xi` is one of the two end points. -/
theorem bisectLoop_invariant (hf : ℚ → ℚ) (thr : ℚ) :
    ∀ (m : ℕ) (x0 x1 xi : ℚ), ¬ thr ≤ hf x0 → thr ≤ hf x1 → (xi = x0 ∨ xi = x1) →
      let r := bisectLoop hf thr m x0 x1 xi
      ¬ thr ≤ hf r.1 ∧ thr ≤ hf r.2.1 ∧ r.2.1 - r.1 = (x1 - x0) / 2 ^ m ∧ (r.2.2 = r.1 ∨ r.2.2 = r.2.1) := by
  intro m
  induction m with
  | zero => intro x0 x1 xi h0 h1 hx; simp [bisectLoop, h0, h1, hx]
  | succ m ih =>
    intro x0 x1 xi h0 h1 _
    simp only [bisectLoop]
    by_cases hp : thr ≤ hf ((x0 + x1) / 2)
    · rw [if_pos hp]
      obtain ⟨a, b, c, d⟩ := ih x0 ((x0 + x1) / 2) ((x0 + x1) / 2) h0 hp (Or.inr rfl)
      refine ⟨a, b, ?_, d⟩
      rw [c, pow_succ]; field_simp; ring
    · rw [if_neg hp]
      obtain ⟨a, b, c, d⟩ := ih ((x0 + x1) / 2) x1 ((x0 + x1) / 2) hp h1 (Or.inl rfl)
      refine ⟨a, b, ?_, d⟩
      rw [c, pow_succ]; field_simp; ring

/-- hence, for a monotone loss with threshold point `t ∈ (x0, x1]`, the returned boundary length is within `(x1-x0)/2^m` of `t`
(with `m = bisectMaxiter num den` for `(x1-x0)/xtol = num/den` this is `≤ xtol`: `bisectMaxiter_spec` below) -/
theorem bisectLoop_error (hf : ℚ → ℚ) (thr t : ℚ) (ht : ∀ x, thr ≤ hf x ↔ t ≤ x) (m : ℕ) (x0 x1 : ℚ) (h0 : x0 < t) (h1 : t ≤ x1) :
    |(bisectLoop hf thr m x0 x1 x0).2.2 - t| ≤ (x1 - x0) / 2 ^ m := by
  obtain ⟨a, b, c, d⟩ := bisectLoop_invariant hf thr m x0 x1 x0 (by rw [ht]; exact not_le.2 h0) ((ht x1).2 h1) (Or.inl rfl)
  rw [ht] at a b
  have ha := not_le.1 a
  rw [abs_le]
  rcases d with d | d <;> rw [d] <;> constructor <;> linarith

theorem bisectMaxiter_go_spec (num den : ℕ) :
    ∀ (fuel m pw : ℕ), pw = 2 ^ m → num ≤ 2 ^ (m + fuel) * den → num ≤ 2 ^ (bisectMaxiter.go num den fuel m pw) * den := by
  intro fuel
  induction fuel with
  | zero => intro m pw _ h; simpa [bisectMaxiter.go] using h
  | succ f ih =>
    intro m pw hpw h
    simp only [bisectMaxiter.go]
    split_ifs with hc
    · subst hpw; exact hc
    · refine ih (m + 1) (pw * 2) (by rw [hpw, pow_succ]) ?_
      have e : m + 1 + f = m + (f + 1) := by ring
      rw [e]; exact h

/-- the modelled step count is enough: `(x1-x0)/xtol = num/den ≤ 2^maxiter`, i.e. the final bracket `(x1-x0)/2^maxiter` is `≤ xtol` -/
theorem bisectMaxiter_spec (num den : ℕ) (hden : 0 < den) : num ≤ 2 ^ (bisectMaxiter num den) * den ∧ 1 ≤ bisectMaxiter num den := by
  constructor
  · unfold bisectMaxiter
    refine bisectMaxiter_go_spec num den (num + 2) 1 2 (by norm_num) ?_
    have h1 : num < 2 ^ (1 + (num + 2)) := lt_of_lt_of_le (Nat.lt_two_pow_self) (Nat.pow_le_pow_right (by norm_num) (by omega))
    calc num ≤ 2 ^ (1 + (num + 2)) * 1 := by omega
      _ ≤ 2 ^ (1 + (num + 2)) * den := Nat.mul_le_mul_left _ hden
  · unfold bisectMaxiter
    have : ∀ fuel m pw, 1 ≤ m → 1 ≤ bisectMaxiter.go num den fuel m pw := by
      intro fuel
      induction fuel with
      | zero => intro m pw h; simpa [bisectMaxiter.go] using h
      | succ f ih => intro m pw h; simp only [bisectMaxiter.go]; split_ifs; exact h; exact ih _ _ (by omega)
    exact this _ _ _ le_rfl

/-- the Gell-Mann loss of both inner models (`get_density_matrix_distance2`, C16's model `Gellmann.distance2`, executed by op
`dist2`) vanishes at the target and is symmetric -/
theorem distance2_self_symm {R : Type} [CommRing R] [StarRing R] (S : Gellmann.Scalars R) (n : ℕ) (A B : Gellmann.Mat n R) :
    Gellmann.distance2 S n A A = 0 ∧ Gellmann.distance2 S n A B = Gellmann.distance2 S n B A := by
  constructor
  · simp [Gellmann.distance2, Gellmann.sumFin]
  · unfold Gellmann.distance2
    congr 1
    refine congrArg _ (funext fun r => congrArg _ (funext fun c => ?_))
    have : A r c - B r c = -(B r c - A r c) := by ring
    rw [this]
    simp [conj_eq_star]
    ring

end inner

/-! ## non-vacuity -/

section nonvac
open Complex

/-- `ρ = diag(3/4, 1/4)` (one qubit, `N = 2`, Gell-Mann norm `d = 1/4`) -/
noncomputable def ρ0 : Matrix (Fin 2) (Fin 2) ℂ := Matrix.diagonal ![3 / 4, 1 / 4]

/-- **all hypotheses of `dm_boundary_threshold` hold at `ρ = diag(3/4,1/4)`** (`μmin = 1/4` attained at `e₁`, `μmax = 3/4` at `e₀`):
the state on its ray is positive exactly for `-1/2 ≤ β ≤ 1/2` -/
-- bisection on concrete data: `hf = [x ≥ 5/16]`, 4 steps from `[0,1]`
example : (bisectLoop (fun x : ℚ => if (5 : ℚ) / 16 ≤ x then 1 else 0) (1 / 2) 4 0 1 0).2.2 = 5 / 16 := by
  norm_num [bisectLoop]

example (β : ℝ) : (rayPoint 2 (1 / 4) ρ0 β).PosSemidef ↔ -(1 / 2) ≤ β ∧ β ≤ 1 / 2 := by
  have h := dm_boundary_threshold (n := Fin 2) 2 (1 / 4) (by norm_num) (by norm_num) ρ0 (1 / 4) (3 / 4) (by norm_num) (by norm_num)
    (by
      have e : ρ0 - ((1 / 4 : ℝ) : ℂ) • (1 : Matrix (Fin 2) (Fin 2) ℂ) = Matrix.diagonal ![((1 / 2 : ℝ) : ℂ), ((0 : ℝ) : ℂ)] := by
        ext i j; fin_cases i <;> fin_cases j <;> simp [ρ0, Matrix.one_apply] <;> norm_num
      rw [e]
      exact PosSemidef.diagonal (by intro i; fin_cases i <;> simp))
    (by
      have e : ((3 / 4 : ℝ) : ℂ) • (1 : Matrix (Fin 2) (Fin 2) ℂ) - ρ0 = Matrix.diagonal ![((0 : ℝ) : ℂ), ((1 / 2 : ℝ) : ℂ)] := by
        ext i j; fin_cases i <;> fin_cases j <;> simp [ρ0, Matrix.one_apply] <;> norm_num
      rw [e]
      exact PosSemidef.diagonal (by intro i; fin_cases i <;> simp))
    ![0, 1] ![1, 0]
    (by simp [dotProduct, Fin.sum_univ_two])
    (by simp [dotProduct, Fin.sum_univ_two, mulVec, ρ0, Matrix.diagonal_apply])
    (by simp [dotProduct, Fin.sum_univ_two])
    (by simp [dotProduct, Fin.sum_univ_two, mulVec, ρ0, Matrix.diagonal_apply])
    β
  rw [h]
  norm_num [dmBoundary]

/-- `interpolate_distance` at `ρ = diag(3/4,1/4)`: `gmNorm2 ρ = (1/4)²`, so `hf_interpolate_dm(ρ, beta=1/8)` is at squared distance `1/64` -/
example : gmNorm2 ((1 / 2 : ℂ)) (1 / 2) (interpBeta (1 / 2 : ℂ) (1 / 8) (1 / 4) (fun i j => ρ0 i j)) = (1 / 8) * (1 / 8) := by
  refine interpolate_distance (n := 2) (1 / 2 : ℂ) (1 / 2) (1 / 8) (1 / 4) (by norm_num) (by simp) (by simp) (by norm_num) _ ?_
  simp [gmNorm2, sumFin_eq, Fin.sum_univ_two, ρ0, Matrix.diagonal_apply, conj_eq_star, map_ofNat]
  norm_num

/-- `cha_lp_point_eq_mixture` with one product state `|00⟩` (`λ = 1`, `β = 1`, `v̂ = P - 1/N`) -/
example (p q : Fin 2 × Fin 2) :
    (if p = q then (1 / 4 : ℂ) else 0) + 1 * chaRow (1 / 4 : ℂ) (Pi.single (0 : Fin 2) 1) (Pi.single (0 : Fin 2) 1) p q
      = mixture (K := 1) (fun _ => (1 : ℂ)) (fun _ => Pi.single (0 : Fin 2) 1) (fun _ => Pi.single (0 : Fin 2) 1) p q :=
  cha_lp_point_eq_mixture (K := 1) (1 / 4 : ℂ) 1 _ (fun _ => 1) _ _ (by simp) (by intro p q; simp) p q

/-- `IsSymExt` is inhabited: the maximally mixed two-qubit state has a symmetric extension to 3 copies, is PPT and positive -/
example : (((1 / ((2 * 2 : ℕ) : ℝ) : ℝ) : ℂ) • (1 : Matrix (Fin 2 × Fin 2) (Fin 2 × Fin 2) ℂ)) ∈ KEXT 2 2 2 ∩ PPT 2 2 :=
  ⟨sepu_subset_kext 2 (center_mem_sepu 2 2), sep_subset_ppt (sepu_subset_sep (center_mem_sepu 2 2))⟩

end nonvac

/-! ## non-vacuity (closed forms) -/

/-- the closed forms on rational data: `ρ = diag(3/4, 1/4)`, `N = 2`, `d = 1` -/
example : (dmBoundary (2 : ℚ) (1/4) (3/4) 1).1 = -2 ∧ (dmBoundary (2 : ℚ) (1/4) (3/4) 1).2 = 2 := by
  constructor <;> norm_num [dmBoundary]

example : pptBoundary true ((-2 : ℚ), 2) (-1, 3) = (-1, 2) ∧ pptBoundary false ((-2 : ℚ), 2) (-1, 3) = (-1, 3) := by
  constructor <;> simp [pptBoundary] <;> norm_num

end Numqi.C06
