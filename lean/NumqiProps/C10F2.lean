/-
C10 (validity of the F2 random generators, `numqi/random/_spf2.py`) through the theorems of C07, C08, C09.

The generators are deterministic post-processings of raw draws; the models (`SpF2.randSpF2`, `Clifford.randCliffordGroup`,
`Clifford.randPauliPost`) take the raw draws as arguments (the harnesses `c07.py` / `c09.py` feed the *same* raw draws to
the real functions through scripted `random.Random` / `numpy.random.Generator` objects).  The statements hold for
**every** raw draw.
-/
import NumqiProofs.CliffordRand
import NumqiProps.C08

namespace Numqi.C10F2
open Numqi Numqi.Clifford

/-- **`rand_SpF2` (`_spf2.py:32-58`) is symplectic for every draw**: the tuple entries are drawn with
`rng.randint(0, base-1)`, i.e. in range, and the matrix is `from_int_tuple` of that tuple (C09 `fromIntTuple_mem_Sp`);
moreover `to_int_tuple` recovers the drawn tuple (`return_kind='int_tuple-matrix'` is consistent). -/
theorem rand_SpF2_valid (rawTuple : List (Nat × Nat)) (hr : SpF2.inRange rawTuple = true) :
    SpF2.isSp rawTuple.length (SpF2.randSpF2 rawTuple) = true ∧
      SpF2.toIntTuple rawTuple.length (SpF2.randSpF2 rawTuple) = some rawTuple := by
  have h := SpF2.fromRev_all rawTuple.reverse hr
  rw [List.length_reverse, List.reverse_reverse] at h
  exact ⟨(SpF2.isSp_iff _ _).2 ⟨h.1, h.2.1⟩, h.2.2⟩

/-- **`rand_Clifford_group` (`_spf2.py:61-76`) returns `(r, S)` with `S` symplectic for every draw**, for any raw phase
bits `r` … -/
theorem rand_Clifford_group_valid (n rawBits : Nat) (rawTuple : List (Nat × Nat)) (hlen : rawTuple.length = n)
    (hr : SpF2.inRange rawTuple = true) : (randCliffordGroup n rawBits rawTuple).colSp = true :=
  randCliffordGroup_colSp n rawBits rawTuple hlen hr

/-- … hence it acts on the Pauli group as a phase-exact automorphism (C07 `apply_hom`) -/
theorem rand_Clifford_group_automorphism (n rawBits : Nat) (rawTuple : List (Nat × Nat)) (hlen : rawTuple.length = n)
    (hr : SpF2.inRange rawTuple = true) (a b : PauliB) :
    applyOnPauli (mulB n a b) (randCliffordGroup n rawBits rawTuple) =
      mulB n (applyOnPauli a (randCliffordGroup n rawBits rawTuple))
        (applyOnPauli b (randCliffordGroup n rawBits rawTuple)) :=
  apply_mulB (randCliffordGroup n rawBits rawTuple) (randCliffordGroup_colSp n rawBits rawTuple hlen hr) a b

section pauli
variable {n : Nat} {R : Type} [CommRing R] [StarRing R]

/-- flipping the sign bit `s0` negates the matrix -/
theorem mat_flip_s0 {I : R} (hI : I * I = -1) (p : Pauli n) :
    C08.mat I { p with s0 := !p.s0 } = - C08.mat I p := by
  ext b' b
  rw [Matrix.neg_apply, C08.mat_apply hI, C08.mat_apply hI]
  by_cases h : b' = Bits.xor b p.x
  · simp only [h, if_true, Pauli.phaseExp]
    have h2 : I ^ 2 = -1 := by rw [pow_two, hI]
    cases p.s0 <;> simp [pow_add, h2]
  · simp [h]

/-- **`rand_pauli(is_hermitian=True)` returns a Hermitian operator for every raw draw** (C08 `hermitian_iff`) -/
theorem rand_pauli_hermitian {I : R} (hI : I * I = -1) (hs : star I = -I) (h2 : (1 : R) ≠ -1) (raw : Pauli n) :
    (C08.mat I (randPauliPost (some true) raw)).conjTranspose = C08.mat I (randPauliPost (some true) raw) := by
  rw [C08.hermitian_iff hI hs h2]
  simp [randPauliPost, Pauli.hermitianFlag]

/-- **`rand_pauli(is_hermitian=False)` returns an anti-Hermitian operator for every raw draw** -/
theorem rand_pauli_antihermitian {I : R} (hI : I * I = -1) (hs : star I = -I) (raw : Pauli n) :
    (C08.mat I (randPauliPost (some false) raw)).conjTranspose = - C08.mat I (randPauliPost (some false) raw) := by
  rw [C08.mat_conjTranspose hI hs, ← mat_flip_s0 hI]
  congr 1
  simp only [randPauliPost, Pauli.inv]
  congr 1
  generalize Bits.dotN raw.x raw.z = A
  rcases Nat.mod_two_eq_zero_or_one A with h | h <;> cases raw.s0 <;> simp [h] <;> omega

/-- `rand_pauli(is_hermitian=None)` returns the raw draw; only `F2[1]` is ever changed -/
theorem rand_pauli_only_s1 (req : Option Bool) (raw : Pauli n) :
    (randPauliPost req raw).s0 = raw.s0 ∧ (randPauliPost req raw).x = raw.x ∧ (randPauliPost req raw).z = raw.z ∧
      randPauliPost none raw = raw := by
  rcases req with _ | _ | _ <;> simp [randPauliPost]

end pauli

/-! non-vacuity -/
example : SpF2.inRange [(2, 1), (14, 7)] = true := by decide
example : (randCliffordGroup 1 3 [(2, 1)]).colSp = true := by decide
/-- raw draw `+X`, request anti-Hermitian: `F2[1]` is set (`iX`) -/
example : (randPauliPost (some false) (Pauli.ofF2List 1 [false, false, true, false])).toF2List
    = [false, true, true, false] := by decide

end Numqi.C10F2
