/-
C08 (wrapper rows) — `PauliOperator.from_index / from_str / from_F2 / __len__ / __str__`, `get_pauli_group` and the `with_sign=False`
paths are corollaries of the round-trip theorems of `NumqiProps/C08.lean`.

Model: `NumqiModel/PauliWrap.lean` (executed by `Driver/C08Wrap.lean`, ops `pofindex pofstr pofF2 pstr pgroup ofindexns toindexns`).
-/
import NumqiProps.C08
import NumqiModel.PauliWrap

namespace Numqi.C08
open Numqi Numqi.Pauli

variable {n : Nat}

/-! ### F2 lists -/

theorem toF2List_length (p : Pauli n) : p.toF2List.length = 2 * n + 2 := by
  simp [Pauli.toF2List]; omega

theorem toF2List_get0 (p : Pauli n) : p.toF2List.getD 0 false = p.s0 := by simp [Pauli.toF2List]
theorem toF2List_get1 (p : Pauli n) : p.toF2List.getD 1 false = p.s1 := by simp [Pauli.toF2List]

theorem toF2List_getX (p : Pauli n) (i : Nat) (hi : i < n) : p.toF2List.getD (2 + i) false = p.x ⟨i, hi⟩ := by
  unfold Pauli.toF2List
  have e : 2 + i = i + 1 + 1 := by omega
  rw [e]
  simp only [List.getD_eq_getElem?_getD, List.cons_append, List.nil_append, List.getElem?_cons_succ]
  rw [List.getElem?_append_left (by simpa using hi)]
  simp [hi]

theorem toF2List_getZ (p : Pauli n) (i : Nat) (hi : i < n) : p.toF2List.getD (2 + n + i) false = p.z ⟨i, hi⟩ := by
  unfold Pauli.toF2List
  have e : 2 + n + i = (n + i) + 1 + 1 := by omega
  rw [e]
  simp only [List.getD_eq_getElem?_getD, List.cons_append, List.nil_append, List.getElem?_cons_succ]
  rw [List.getElem?_append_right (by simp)]
  simp [hi]

/-- `PauliOperator(F2).F2 = F2`: reading the bit list into the structure and back is the identity on lists of length `2n+2` -/
theorem toF2List_ofF2List (l : List Bool) (hl : l.length = 2 * n + 2) : (ofF2List n l).toF2List = l := by
  have hlen := toF2List_length (ofF2List n l)
  apply List.ext_getElem (by rw [hlen, hl])
  intro k h1 h2
  have key : ∀ (L : List Bool) (j : Nat) (hj : j < L.length), L[j] = L.getD j false := fun L j hj => by
    simp [List.getD_eq_getElem?_getD, List.getElem?_eq_getElem hj]
  rw [key _ k h1, key _ k h2]
  rcases k with _ | _ | k
  · rw [toF2List_get0]; rfl
  · rw [toF2List_get1]; rfl
  · by_cases hk : k < n
    · have e : k + 1 + 1 = 2 + k := by omega
      rw [e, toF2List_getX _ k hk]; rfl
    · obtain ⟨i, rfl⟩ : ∃ i, k = n + i := ⟨k - n, by omega⟩
      have hi : i < n := by omega
      have e : n + i + 1 + 1 = 2 + n + i := by omega
      rw [e, toF2List_getZ _ i hi]; rfl

theorem ofF2List_toF2List (p : Pauli n) : ofF2List n p.toF2List = p := by
  obtain ⟨s0, s1, x, z⟩ := p
  have h0 := toF2List_get0 (⟨s0, s1, x, z⟩ : Pauli n)
  have h1 := toF2List_get1 (⟨s0, s1, x, z⟩ : Pauli n)
  have hx : (fun i : Fin n => (⟨s0, s1, x, z⟩ : Pauli n).toF2List.getD (2 + i.val) false) = x := by
    funext i; exact toF2List_getX _ i.val i.isLt
  have hz : (fun i : Fin n => (⟨s0, s1, x, z⟩ : Pauli n).toF2List.getD (2 + n + i.val) false) = z := by
    funext i; exact toF2List_getZ _ i.val i.isLt
  simp only [ofF2List, h0, h1, hx, hz]

/-! ### `PauliOperator.from_index`, `from_str`, `from_F2`, `__len__` -/

/-- **`from_index` rejects exactly the indices outside `[0, 4^n)`** -/
theorem from_index_rejects (n : Nat) (i : Int) : fromIndex? n i = none ↔ (i < 0 ∨ 4 ^ n ≤ i.toNat) := by
  unfold fromIndex?
  split
  · rename_i h; simp only [reduceCtorEq, false_iff]; omega
  · rename_i h; simp only [true_iff]; omega

/-- **`from_index(i, n)` is the sign-free operator whose index is `i` and whose string is the base-4 digits of `i`** -/
theorem from_index_spec (n i : Nat) (h : i < 4 ^ n) :
    fromIndex? n (i : Int) = some (ofIndex n i) ∧ (ofIndex n i).toIndex = i ∧ (ofIndex n i).toStr = (indexToSyms n i, 0)
    ∧ (ofIndex n i).len = n := by
  refine ⟨?_, toIndex_ofIndex i h, ?_, rfl⟩
  · unfold fromIndex?; rw [if_pos ⟨Int.natCast_nonneg i, by simpa using h⟩]; simp
  · exact toStr_ofStr _ _ (indexToSyms_length n i) (indexToSyms_lt n i) (by norm_num)

/-- distinct indices give distinct operators -/
theorem from_index_injective (n i j : Nat) (hi : i < 4 ^ n) (hj : j < 4 ^ n) (h : ofIndex n i = ofIndex n j) : i = j := by
  rw [← toIndex_ofIndex i hi, ← toIndex_ofIndex j hj, h]

/-- **`from_str(s, i^e)` has string `s` and sign `i^e`** (every sign, every string over `IXYZ`) -/
theorem from_str_spec (n : Nat) (syms : List Nat) (e : Nat) (hlen : syms.length = n) (hs : ∀ s ∈ syms, s < 4) (he : e < 4) :
    (fromStr n syms e).toStr = (syms, e) ∧ (fromStr n syms e).toIndex = symsToIndex syms := by
  have h := toStr_ofStr syms e hlen hs he
  exact ⟨h, by unfold Pauli.toIndex fromStr; rw [h]⟩

/-- **`from_F2(a)`** accepts exactly the even lengths `≥ 2`, has `len = len(a)/2 − 1` qubits and `.F2 = a` -/
theorem from_F2_spec (l : List Bool) :
    (fromF2? l = none ↔ ¬ (l.length % 2 = 0 ∧ 2 ≤ l.length))
    ∧ ∀ m (p : Pauli m), fromF2? l = some ⟨m, p⟩ → l.length = 2 * m + 2 ∧ p.len = m ∧ p.toF2List = l := by
  unfold fromF2?
  constructor
  · split <;> simp_all
  · intro m p h
    split at h
    · rename_i hc
      simp only [Option.some.injEq] at h
      have hm : l.length / 2 - 1 = m := congrArg Sigma.fst h
      subst hm
      have hp : ofF2List (l.length / 2 - 1) l = p := eq_of_heq (Sigma.mk.inj h).2
      have hl : l.length = 2 * (l.length / 2 - 1) + 2 := by omega
      exact ⟨hl, rfl, by rw [← hp]; exact toF2List_ofF2List l hl⟩
    · cases h

/-- … and every operator is `from_F2` of its own bit list -/
theorem from_F2_toF2List (p : Pauli n) : fromF2? p.toF2List = some ⟨n, p⟩ := by
  unfold fromF2?
  have hl := toF2List_length p
  rw [if_pos (by omega)]
  have hn : p.toF2List.length / 2 - 1 = n := by omega
  congr 1
  refine Sigma.ext hn ?_
  have : ∀ (m : Nat) (hm : m = n), HEq (ofF2List m p.toF2List) p := by
    intro m hm; subst hm; exact heq_of_eq (ofF2List_toF2List p)
  exact this _ hn

/-! ### `__str__` -/

/-- the printed prefix determines the sign -/
theorem signPrefix_injective (e e' : Nat) (h : signPrefix e = signPrefix e') : e % 4 = e' % 4 := by
  unfold signPrefix at h
  have h1 : e % 4 < 4 := Nat.mod_lt _ (by norm_num)
  have h2 : e' % 4 < 4 := Nat.mod_lt _ (by norm_num)
  generalize e % 4 = a at *
  generalize e' % 4 = b at *
  interval_cases a <;> interval_cases b <;> first | rfl | (revert h; decide)

/-! ### `get_pauli_group` -/

/-- **`get_pauli_group(n, 'str')` enumerates every index exactly once, in index order**: `4^n` entries, entry `i` is the string of
index `i` (whose index is `i`), there are no repetitions, and every string over `IXYZ` of length `n` occurs -/
theorem group_str_enumerates (n : Nat) :
    (groupStr n).length = 4 ^ n
    ∧ (∀ i, i < 4 ^ n → (groupStr n).getD i [] = indexToSyms n i ∧ symsToIndex ((groupStr n).getD i []) = i)
    ∧ (groupStr n).Nodup
    ∧ ∀ syms : List Nat, syms.length = n → (∀ s ∈ syms, s < 4) → syms ∈ groupStr n := by
  refine ⟨by simp [groupStr], ?_, ?_, ?_⟩
  · intro i hi
    have e : (groupStr n).getD i [] = indexToSyms n i := by
      simp [groupStr, List.getD_eq_getElem?_getD, hi]
    rw [e]; exact ⟨rfl, symsToIndex_indexToSyms n i hi⟩
  · unfold groupStr
    refine (List.nodup_map_iff_inj_on List.nodup_range).2 ?_
    intro i hi j hj h
    rw [← symsToIndex_indexToSyms n i (List.mem_range.1 hi), ← symsToIndex_indexToSyms n j (List.mem_range.1 hj), h]
  · intro syms hlen hs
    refine List.mem_map.2 ⟨symsToIndex syms, List.mem_range.2 ?_, ?_⟩
    · have := symsToIndex_lt syms hs; rwa [hlen] at this
    · have := indexToSyms_symsToIndex syms hs; rwa [hlen] at this

/-- **`get_pauli_group(n, 'str_to_index')`** maps every listed string to its own index (`pauli_str_to_index`), positions `0 … 4^n−1` -/
theorem group_str_to_index (n : Nat) (s : List Nat) (k : Nat) (h : (s, k) ∈ groupStrToIndex n) :
    k < 4 ^ n ∧ s = indexToSyms n k ∧ symsToIndex s = k := by
  unfold groupStrToIndex at h
  rw [List.mem_zipIdx_iff_getElem?] at h
  have hk : k < (groupStr n).length := by
    by_contra hc; rw [List.getElem?_eq_none (by omega)] at h; cases h
  have hk' : k < 4 ^ n := by simpa [groupStr] using hk
  have e := ((group_str_enumerates n).2.1 k hk').1
  rw [List.getD_eq_getElem?_getD, h, Option.getD_some] at e
  have e' : s = indexToSyms n k := e
  exact ⟨hk', e', by rw [e']; exact symsToIndex_indexToSyms n k hk'⟩

/-- **`get_pauli_group(n)[i]`** (the Kronecker product of the factors of string `i`) is the matrix of the operator `from_index(i)` -/
theorem group_numpy (n i : Nat) (b' b : Bits n) : groupMatExp n i b' b = (ofIndex n i).matExp b' b :=
  fullMatrixExp_eq_matExp _ _ _

/-! ### `with_sign=False` -/

/-- **index → F2 (no sign bits) → index is the identity** on `[0, 4^n)`, and the F2 form has `2n` bits -/
theorem index_nosign_roundtrip (n i : Nat) (h : i < 4 ^ n) :
    ∃ l, ofIndexNoSign? n (i : Int) = some l ∧ l.length = 2 * n ∧ toIndexNoSign n l = i := by
  have h1 := (from_index_spec n i h).1
  refine ⟨(ofIndex n i).toF2List.drop 2, by unfold ofIndexNoSign?; rw [h1]; rfl, by rw [List.length_drop, toF2List_length]; omega, ?_⟩
  unfold toIndexNoSign
  have hx : (ofF2List n (false :: false :: (ofIndex n i).toF2List.drop 2)).x = (ofIndex n i).x := by
    funext j
    show (false :: false :: (ofIndex n i).toF2List.drop 2).getD (2 + j.val) false = _
    have e : 2 + j.val = j.val + 1 + 1 := by omega
    rw [e]
    simp only [List.getD_eq_getElem?_getD, List.getElem?_cons_succ, List.getElem?_drop]
    have := toF2List_getX (ofIndex n i) j.val j.isLt
    rw [List.getD_eq_getElem?_getD] at this
    exact this
  have hz : (ofF2List n (false :: false :: (ofIndex n i).toF2List.drop 2)).z = (ofIndex n i).z := by
    funext j
    show (false :: false :: (ofIndex n i).toF2List.drop 2).getD (2 + n + j.val) false = _
    have e : 2 + n + j.val = (n + j.val) + 1 + 1 := by omega
    rw [e]
    simp only [List.getD_eq_getElem?_getD, List.getElem?_cons_succ, List.getElem?_drop]
    have := toF2List_getZ (ofIndex n i) j.val j.isLt
    rw [List.getD_eq_getElem?_getD, show 2 + n + j.val = 2 + (n + j.val) by omega] at this
    exact this
  have : (ofF2List n (false :: false :: (ofIndex n i).toF2List.drop 2)).toIndex = (ofIndex n i).toIndex := by
    unfold Pauli.toIndex Pauli.toStr; rw [hx, hz]
  rw [this]; exact toIndex_ofIndex i h

/-! ### non-vacuity -/
example : (fromIndex? 2 7).map (fun p => p.toF2List) = some [false, false, true, false, false, true] := by decide
example : fromIndex? 2 16 = none ∧ fromIndex? 2 (-1) = none := by decide
example : groupStr 1 = [[0], [1], [2], [3]] ∧ (groupStrToIndex 1).map (·.2) = [0, 1, 2, 3] := by decide
example : reprStr (ofF2List 1 [false, false, true, true]) = "-iY [0,0,1,1]" := by decide

end Numqi.C08
