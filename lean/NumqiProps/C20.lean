/-
C20 — matrix-subspace decomposition is exact and rank certificates are sound.

Property theorems only (helper lemmas: `NumqiProofs/MatrixSpaceLemmas.lean`, `MatrixSpaceMinors.lean`).
All statements are about the constants of `NumqiModel/MatrixSpace.lean` that `Driver/C20.lean` executes and about
the comparison operators regenerated from the source (`NumqiModel/Generated/Thresholds20.lean`) — those theorems live in
`NumqiProps/C20Decision.lean`, so that a change of the generated data cannot take the theorems of this file down.
External routines enter as hypotheses ("contracts"): svd/eigh (orthonormal output), eigvalsh/eigsh (Rayleigh bound),
`minimize_scalar` (returns a value of its objective), `eigvalsh` of the Gram matrix (0 for a singular PSD matrix).
-/
import NumqiProofs.MatrixSpaceLemmas
import NumqiProofs.MatrixSpaceMinors
import NumqiProofs.MatrixSpaceTables5
import NumqiProofs.MatrixSpaceCombos
import NumqiProofs.MatrixSpaceLevel2
import NumqiProofs.MatrixSpaceTripartite
import NumqiProofs.MatrixSpaceTripartite2
import NumqiProofs.MatrixSpaceDense
import NumqiProofs.MatrixSpaceOrth
import NumqiProofs.MatrixSpaceGellmann
import NumqiProofs.MatrixSpaceChain
import Mathlib.Data.List.Sort
import Mathlib.Data.Real.Basic

namespace Numqi.C20
open Numqi Numqi.MatrixSpace Finset

/-! ## 1. index layer: the tables of the hierarchy, for every size -/

/-- `get_antisymmetric_basis_index(dim, r)[2]` has `C(dim, r)` columns. -/
theorem antisymIndex_length (d r : Nat) : (antisymIndex d r).length = d.choose r := by
  simp [antisymIndex, combos_length]

/-- **sorted and complete**: the columns are exactly the strictly increasing `r`-tuples below `dim` … -/
theorem antisymIndex_mem_iff (d r : Nat) (x : List Nat) :
    x ∈ antisymIndex d r ↔ x.Pairwise (· < ·) ∧ (∀ i ∈ x, i < d) ∧ x.length = r := by
  unfold antisymIndex
  rw [mem_combos]
  constructor
  · rintro ⟨hs, hl⟩
    exact ⟨List.pairwise_lt_range.sublist hs, fun i hi => List.mem_range.1 (hs.subset hi), hl⟩
  · rintro ⟨hp, hm, hl⟩
    refine ⟨?_, hl⟩
    have hnd : x.Nodup := hp.imp (fun h => Nat.ne_of_lt h)
    exact List.sublist_of_subperm_of_pairwise (hnd.subperm fun i hi => List.mem_range.2 (hm i hi)) hp List.pairwise_lt_range

/-- … each exactly once. -/
theorem antisymIndex_nodup (d r : Nat) : (antisymIndex d r).Nodup :=
  combos_nodup List.nodup_range r

/-- `get_symmetric_basis_index(dim, r)[2]` has `C(dim+r-1, r)` columns. -/
theorem symIndex_length (d r : Nat) : (symIndex d r).length = Nat.multichoose d r := by
  simp [symIndex, combosRep_length]

/-- the linear system of `has_rank_hierarchical_method(·, rank, k)` on `N` generators has
`multichoose N (rank-1+k)` vectors (`TAlpha.shape[0]`). -/
theorem hierarchyIndices_length (N rank k : Nat) :
    (hierarchyIndices N rank k).length = Nat.multichoose N (rank - 1 + k) := by
  simp [hierarchyIndices, combosRep_length]

/-- **sorted and complete**, symmetric side: the multi-indices of the linear system are exactly the non-decreasing tuples of
generator labels below `N` -/
theorem hierarchyIndices_mem_iff (N rank k : Nat) (x : List Nat) :
    x ∈ hierarchyIndices N rank k ↔ x.length = rank - 1 + k ∧ x.Pairwise (· ≤ ·) ∧ ∀ i ∈ x, i < N :=
  mem_combosRep_range N (rank - 1 + k) x

/-- and the columns of `get_symmetric_basis_index(dim, r)[2]` are the non-decreasing `r`-tuples below `dim` -/
theorem symIndex_mem_iff (d r : Nat) (x : List Nat) :
    x ∈ symIndex d r ↔ x.length = r ∧ x.Pairwise (· ≤ ·) ∧ ∀ i ∈ x, i < d :=
  mem_combosRep_range d r x

/-! ## 2. structure classes: dimension counts and index shuffles, all sizes -/

/-- the coordinate length used in each branch equals the dimension of the structured space:
`n(n+1)/2` (symmetric, over ℝ or ℂ), `mn`, `n²` (Hermitian over ℝ), `n(n+1)` (complex symmetric over ℝ),
`2mn` (complex over ℝ). -/
theorem coordLen_closed_form (m n : Nat) :
    coordLen .R_T n m = n * (n + 1) / 2 ∧ coordLen .C_T n m = n * (n + 1) / 2
    ∧ coordLen .R m n = m * n ∧ coordLen .C m n = m * n ∧ coordLen .C_H n m = n * n
    ∧ coordLen .R_cT n m = n * (n + 1) ∧ coordLen .R_c m n = 2 * m * n := by
  have h := nOff_add_self n
  have h2 := sq_sub_two_nOff n
  have h3 : n * (n + 1) / 2 * 2 = n * (n + 1) := Nat.div_mul_cancel (Nat.even_mul_succ_self n).two_dvd
  refine ⟨?_, ?_, rfl, rfl, rfl, ?_, rfl⟩
  · simp only [coordLen, h2]; exact h
  · simp only [coordLen, h2]; exact h
  · simp only [coordLen, h2]; omega

/-- **dimensions add up**: a rank-`k` basis and the complement returned for it fill the structured space. -/
theorem dims_add_up (coord k : Nat) (hk : k ≤ coord) : k + complementCount coord k = coord := by
  unfold complementCount; split <;> omega

/-- coordinate selection ∘ zero-block embedding = id (the round trip of every symmetric branch) … -/
theorem symSelect_symEmbed {α : Type} [Zero α] (n : Nat) (x : List α) (h : x.length = nOff n + n) :
    symSelect n (symEmbed n x) = x :=
  MatrixSpace.symSelect_symEmbed n x (by omega)

/-- … and embedding ∘ selection = id on coordinate vectors whose antisymmetric block vanishes
(what `assert np.abs(aA).max() < zero_eps` checks). -/
theorem symEmbed_symSelect {α : Type} [Zero α] (n : Nat) (v : List α) (hlen : v.length = n * n)
    (hz : (v.drop (nOff n)).take (nOff n) = List.replicate (nOff n) 0) :
    symEmbed n (symSelect n v) = v := by
  refine MatrixSpace.symEmbed_symSelect n v ?_ hz
  have := two_mul_nOff n
  have : n * (n - 1) ≤ n * n := Nat.mul_le_mul_left _ (Nat.sub_le _ _)
  omega

/-- real/imag stacking of the complex-symmetric-over-ℝ branch is undone by `x[:, :h] + 1j*x[:, h:]`. -/
theorem rcTUnstack_rcTStack {α : Type} [Zero α] (n : Nat) (vre vim : List α)
    (hre : vre.length = n * n) (him : vim.length = n * n)
    (hzr : (vre.drop (nOff n)).take (nOff n) = List.replicate (nOff n) 0)
    (hzi : (vim.drop (nOff n)).take (nOff n) = List.replicate (nOff n) 0) :
    rcTUnstack n (rcTStack n vre vim) = (vre, vim) := by
  have h2 := two_mul_nOff n
  have hle : n * (n - 1) ≤ n * n := Nat.mul_le_mul_left _ (Nat.sub_le _ _)
  have hsq := sq_sub_two_nOff n
  have hh : (n * n + n) / 2 = nOff n + n := by
    have := nOff_add_self n; rw [this]; congr 1
  have hl : (symSelect n vre).length = (n * n + n) / 2 := by
    rw [hh]; simp only [symSelect, List.length_append, List.length_take, List.length_drop, hre]
    omega
  unfold rcTUnstack rcTStack
  simp only
  rw [← hl, List.take_left, List.drop_left]
  rw [symEmbed_symSelect n vre hre hzr, symEmbed_symSelect n vim him hzi]

/-- `concatenate([re, im], axis=2).reshape(2·N1·N2)` is undone by `reshape(N1, 2·N2)` + column split. -/
theorem rcUnflatten_rcFlatten {α : Type} [Zero α] (N1 N2 : Nat) (re im : Nat → Nat → α) (a b : Nat)
    (ha : a < N1) (hb : b < N2) :
    (rcUnflatten N1 N2 (rcFlatten N1 N2 re im)).1 a b = re a b
    ∧ (rcUnflatten N1 N2 (rcFlatten N1 N2 re im)).2 a b = im a b := by
  unfold rcUnflatten rcFlatten
  constructor
  · have := getD_flatMap_range (0 : α) N1 (2 * N2) (fun a b => if b < N2 then re a b else im a (b - N2)) a b ha (by omega)
    simp only at this ⊢
    rw [this, if_pos hb]
  · have := getD_flatMap_range (0 : α) N1 (2 * N2) (fun a b => if b < N2 then re a b else im a (b - N2)) a (N2 + b) ha (by omega)
    simp only at this ⊢
    rw [Nat.add_assoc, this, if_neg (by omega)]
    congr 1; omega

/-- **the block form keeps orthogonality and gives one common norm**: for the real `(2N1)×(2N2)` matrices
`np.block([[r,-i],[i,r]])`, `⟨X, Y⟩_F = 2·Re tr(A†B)`.  So a family that is orthonormal for `Re tr(A†B)` is returned as a
mutually orthogonal family of common squared norm 2. -/
theorem blockRealify_inner {R : Type} [CommRing R] (N1 N2 : Nat) (re im re' im' : Nat → Nat → R) :
    ∑ p ∈ range (2 * N1), ∑ q ∈ range (2 * N2),
        blockRealify N1 N2 re im p q * blockRealify N1 N2 re' im' p q
      = 2 * ∑ a ∈ range N1, ∑ b ∈ range N2, (re a b * re' a b + im a b * im' a b) := by
  rw [two_mul, two_mul]; exact MatrixSpace.blockRealify_inner N1 N2 re im re' im'

/-! ## 3. the real rank-one detector -/

section rankone
variable {R : Type} [CommRing R]

/-- **for real product vectors the partial transpose is invisible**: `⟨u⊗v|M^Γ|u⊗v⟩ = ⟨u⊗v|M|u⊗v⟩`, all dimensions. -/
theorem quadForm_ptB (dA dB : Nat) (f : Nat → Nat → Nat → Nat → R) (u v : Nat → R) :
    quadForm dA dB (ptB f) u v = quadForm dA dB f u v :=
  quad4_ptB_prod dA dB f u v

/-- hence along the whole segment `p·M + (1-p)·M^Γ` the value on a real product vector does not depend on `p`. -/
theorem quadForm_mixPT (dA dB : Nat) (p : R) (f : Nat → Nat → Nat → Nat → R) (u v : Nat → R) :
    quadForm dA dB (mixPT p f) u v = quadForm dA dB f u v := by
  unfold quadForm
  rw [quad4_mixPT, quad4_ptB_prod]; ring

/-- `projector = Bᵀ B`: its quadratic form is the sum of squared overlaps with the basis matrices. -/
theorem quad4_projector (dA dB K : Nat) (B : Nat → Nat → Nat → R) (x : Nat → Nat → R) :
    quad4 dA dB (projector K B) x = ∑ k ∈ range K, (∑ a ∈ range dA, ∑ b ∈ range dB, B k a b * x a b) ^ 2 := by
  rw [quad4_pairs]
  simp only [projector_eq]
  have := quad_gram (range dA ×ˢ range dB) (range K) (fun k (p : Nat × Nat) => B k p.1 p.2) (fun p => x p.1 p.2)
  rw [this]
  exact sum_congr rfl fun k _ => by rw [Finset.sum_product]

/-- **`real_rank_one_bound`**: if the span of the orthonormal real basis `B_0..B_{K-1}` contains the rank-one matrix `u vᵀ`
of Frobenius norm one, then `⟨u⊗v|(p·P + (1-p)·P^Γ)|u⊗v⟩ = 1` for the projector `P` and **every** `p`. -/
theorem rank_one_bound (dA dB K : Nat) (B : Nat → Nat → Nat → R) (u v : Nat → R) (c : Nat → R) (p : R)
    (hspan : ∀ a < dA, ∀ b < dB, u a * v b = ∑ k ∈ range K, c k * B k a b)
    (horth : ∀ k < K, ∀ l < K, ∑ a ∈ range dA, ∑ b ∈ range dB, B k a b * B l a b = if k = l then 1 else 0)
    (hnorm : ∑ a ∈ range dA, ∑ b ∈ range dB, (u a * v b) ^ 2 = 1) :
    quadForm dA dB (mixPT p (projector K B)) u v = 1 := by
  rw [quadForm_mixPT]
  unfold quadForm
  rw [quad4_projector]
  have hP := parseval_span (range dA ×ˢ range dB) (range K) (fun k (q : Nat × Nat) => B k q.1 q.2)
    (fun q => u q.1 * v q.2) c
    (by intro q hq; rw [Finset.mem_product, Finset.mem_range, Finset.mem_range] at hq; exact hspan _ hq.1 _ hq.2)
    (by intro k hk l hl; rw [Finset.sum_product]; exact horth k (Finset.mem_range.1 hk) l (Finset.mem_range.1 hl))
  rw [Finset.sum_product] at hP
  calc ∑ k ∈ range K, (∑ a ∈ range dA, ∑ b ∈ range dB, B k a b * (u a * v b)) ^ 2
      = ∑ k ∈ range K, c k ^ 2 := by
        refine sum_congr rfl fun k hk => ?_
        have := hP.1 k hk
        rw [Finset.sum_product] at this
        rw [this]
    _ = 1 := by rw [← hP.2, hnorm]

end rankone

/-- **the exact value of `upper_bound` is at least 1** whenever the real subspace contains a rank-one element.
Contracts: `lam p` bounds the Rayleigh quotient of `p·P+(1-p)·P^Γ` from above (`eigvalsh(...)[-1]` / `eigsh(which='LA')`),
and `minimize_scalar` returns a value `lam p₀` of its objective. -/
theorem rank_one_upper_bound_ge_one (dA dB K : Nat) (B : Nat → Nat → Nat → ℝ) (u v c : Nat → ℝ)
    (hspan : ∀ a < dA, ∀ b < dB, u a * v b = ∑ k ∈ range K, c k * B k a b)
    (horth : ∀ k < K, ∀ l < K, ∑ a ∈ range dA, ∑ b ∈ range dB, B k a b * B l a b = if k = l then 1 else 0)
    (hnorm : ∑ a ∈ range dA, ∑ b ∈ range dB, (u a * v b) ^ 2 = 1)
    (lam : ℝ → ℝ) (upper_bound : ℝ)
    (heig : ∀ p : ℝ, ∀ x : Nat → Nat → ℝ, ∑ a ∈ range dA, ∑ b ∈ range dB, x a b ^ 2 = 1 →
      quad4 dA dB (mixPT p (projector K B)) x ≤ lam p)
    (hmin : ∃ p₀, upper_bound = lam p₀) : 1 ≤ upper_bound := by
  obtain ⟨p₀, rfl⟩ := hmin
  have h1 := rank_one_bound dA dB K B u v c p₀ hspan horth hnorm
  have h2 := heig p₀ (fun a b => u a * v b) hnorm
  unfold quadForm at h1
  linarith

/-! ## 4. decision layer: `NumqiProps/C20Decision.lean` (the only file that imports the generated comparisons) -/

/-! ## 5. numerical range -/

/-- `y†(wA + w̄A†)y = w·y†Ay + conj(w·y†Ay)`, any size, any commutative star ring. -/
theorem rayleigh_hermPart {R : Type} [CommRing R] [StarRing R] (n : Nat) (w : R) (A : Nat → Nat → R) (y : Nat → R) :
    rayleigh n (hermPart w A) y = w * rayleigh n A y + star (w * rayleigh n A y) :=
  MatrixSpace.rayleigh_hermPart n w A y

/-- **`numerical_range_support`**: let `x` be the vector returned by the eigen-solver for
`H = (e^{iθ}A + e^{-iθ}A†)/2` (`w = e^{iθ}/2`), with the `eigh`/`eigsh` contract that `x` maximises the Rayleigh quotient of `H`
over unit vectors.  Then the returned point `z = x†Ax` attains the support function of the numerical range in direction θ:
`Re(2w·y†Ay) ≤ Re(2w·z)` for every unit `y`. -/
theorem numerical_range_support (n : Nat) (w : ℂ) (A : Nat → Nat → ℂ) (x : Nat → ℂ)
    (heig : ∀ y : Nat → ℂ, ∑ i ∈ range n, Complex.normSq (y i) = 1 →
      (rayleigh n (hermPart w A) y).re ≤ (rayleigh n (hermPart w A) x).re)
    (y : Nat → ℂ) (hy : ∑ i ∈ range n, Complex.normSq (y i) = 1) :
    (2 * w * rayleigh n A y).re ≤ (2 * w * rayleigh n A x).re := by
  have h := heig y hy
  rw [rayleigh_hermPart, rayleigh_hermPart] at h
  have e : ∀ z : ℂ, (z + star z).re = (2 * z).re := by
    intro z; simp [Complex.add_re, Complex.mul_re]; ring
  rw [e, e] at h
  simpa [mul_assoc] using h

/-! ## 6. the hierarchy at level `k = 1`: polarised minors -/

section hierarchy
variable {R : Type} [CommRing R]

/-- the table checks hold for every minor size the property's range (matrices up to 5×5) can reach -/
theorem tablesOK_le_five (q : ℕ) (h1 : 1 ≤ q) (h5 : q ≤ 5) : TablesOK q := by
  interval_cases q
  exacts [tablesOK_one, tablesOK_two, tablesOK_three, tablesOK_four, tablesOK_five]

/-- **the model of `tensor2d_project_to_antisym_basis` is the polarised minor map**: for a sorted multi-index `INDEX` of
length `q ≤ 5`, every entry of the (`q!`-scaled) output — the coset-reduced sum over the rows of
`permutation_with_antisymmetric_factor(INDEX)` — equals the full signed double sum over `S_q × S_q`. All matrix sizes. -/
theorem antisymProject_eq_polMinor {q : ℕ} (h1 : 1 ≤ q) (h5 : q ≤ 5) (mats : ℕ → ℕ → ℕ → R)
    (INDEX rows cols : List ℕ) (hlen : INDEX.length = q) (hs : INDEX.Pairwise (· ≤ ·)) :
    polMinorScaled mats INDEX (antisymFactorTable INDEX) (antisymFactorTableInt q) rows cols
      = polMinor (fun m : Fin q => mats (INDEX.getD m.val 0)) (fun i => rows.getD i.val 0) (fun i => cols.getD i.val 0) :=
  polMinorScaled_sorted (tablesOK_le_five q h1 h5) mats INDEX rows cols hlen h1 hs

/-- with all arguments equal it is `q!` times the `q × q` minor -/
theorem polMinor_diag (q : ℕ) (M : ℕ → ℕ → R) (I J : Fin q → ℕ) :
    polMinor (fun _ => M) I J = (q.factorial : R) * (subMat M I J).det :=
  MatrixSpace.polMinor_diag M I J

/-- **linear relation among the vectors of the `k = 1` system**, any `q` whose tables pass the check: if the `q × q` minor of
`M = Σ_i c_i S_i` on rows `rows`, columns `cols` vanishes, the corresponding entries of the model's vectors
`v_α = q!·tensor2d_project_to_antisym_basis(S, α)` (α the sorted multi-index of `t`) satisfy `Σ_t (∏_m c_{t m}) · v_{α(t)} = 0`.
Grouping equal multi-indices, the coefficient of `v_{(i,…,i)}` is `c_i^q`, so the relation is non-trivial when `c ≠ 0`. -/
theorem hierarchy_k1_relation_of_tables {q N : ℕ} (hT : TablesOK q) (hq : 0 < q) (c : Fin N → R)
    (mats : ℕ → ℕ → ℕ → R) (rows cols : List ℕ)
    (hminor : (subMat (fun r s => ∑ i : Fin N, c i * mats i.val r s)
        (fun i : Fin q => rows.getD i.val 0) (fun i => cols.getD i.val 0)).det = 0) :
    ∑ t : Fin q → Fin N, (∏ m, c (t m)) *
        polMinorScaled mats (sortedIndex t) (antisymFactorTable (sortedIndex t)) (antisymFactorTableInt q) rows cols = 0 := by
  rw [← polMinor_dependence c (fun i => mats i.val) _ _ hminor]
  refine Finset.sum_congr rfl fun t _ => ?_
  rw [polMinorScaled_sorted hT mats _ rows cols (sortedIndex_length t) hq (sortedIndex_sorted t)]
  congr 1
  have : (fun m : Fin q => mats ((sortedIndex t).getD m.val 0))
      = fun m => (fun m' : Fin q => mats (t m').val) (Tuple.sort t m) := by
    funext m; rw [sortedIndex_getD]
  rw [this]
  exact polMinor_perm (fun m' : Fin q => mats (t m').val) _ _ (Tuple.sort t)

/-- the multi-indices occurring in the relation are sorted tuples of generator labels of length `q` -/
theorem sortedIndex_spec {q N : ℕ} (t : Fin q → Fin N) :
    (sortedIndex t).length = q ∧ (sortedIndex t).Pairwise (· ≤ ·) ∧ ∀ i ∈ sortedIndex t, i < N :=
  ⟨sortedIndex_length t, sortedIndex_sorted t, sortedIndex_lt t⟩

/-- so every multi-index occurring in the relation labels a vector of the model's `k = 1` family -/
theorem sortedIndex_mem_hierarchyIndices {q N : ℕ} (hq : 0 < q) (t : Fin q → Fin N) :
    sortedIndex t ∈ hierarchyIndices N q 1 := by
  rw [hierarchyIndices_mem_iff]
  exact ⟨by rw [sortedIndex_length]; omega, sortedIndex_sorted t, sortedIndex_lt t⟩

/-- **`hierarchy_sound`, level `k = 1`, minors up to `5 × 5`** (everything reachable with matrices up to 5×5): if a
combination `M = Σ_i c_i S_i` has rank `≤ r` — it factors as `X·Y` through `r` columns — and `q = r+1 ≤ 5`, then on every
choice of `q` rows and `q` columns the vectors of the linear system of `has_rank_hierarchical_method(S, rank = q, k = 1)` satisfy
the linear relation above.  Hence the Gram matrix `matAAT` is singular whenever the subspace contains a non-zero element of
rank `< rank`; with the `eigvalsh` contract and `hierarchyCert_sound` the positive answer is not issued. -/
theorem hierarchy_sound_k1_le_five {K : Type} [Field K] {q r N dA dB : ℕ} (hr : r < q) (h5 : q ≤ 5)
    (c : Fin N → K) (mats : ℕ → ℕ → ℕ → K)
    (X : ℕ → Fin r → K) (Y : Fin r → ℕ → K)
    (hrank : ∀ a < dA, ∀ b < dB, ∑ i : Fin N, c i * mats i.val a b = ∑ s : Fin r, X a s * Y s b)
    (rows cols : List ℕ) (hrows : rows ∈ antisymIndex dA q) (hcols : cols ∈ antisymIndex dB q) :
    ∑ t : Fin q → Fin N, (∏ m, c (t m)) *
        polMinorScaled mats (sortedIndex t) (antisymFactorTable (sortedIndex t)) (antisymFactorTableInt q) rows cols = 0 := by
  have hq : 0 < q := by omega
  refine hierarchy_k1_relation_of_tables (tablesOK_le_five q hq h5) hq c mats rows cols ?_
  obtain ⟨-, hrlt, hrlen⟩ := (antisymIndex_mem_iff dA q rows).1 hrows
  obtain ⟨-, hclt, hclen⟩ := (antisymIndex_mem_iff dB q cols).1 hcols
  have hsub : subMat (fun r' s => ∑ i : Fin N, c i * mats i.val r' s)
      (fun i : Fin q => rows.getD i.val 0) (fun i => cols.getD i.val 0)
      = (Matrix.of fun (i : Fin q) (s : Fin r) => X (rows.getD i.val 0) s)
        * (Matrix.of fun (s : Fin r) (j : Fin q) => Y s (cols.getD j.val 0)) := by
    ext i j
    simp only [subMat, Matrix.of_apply, Matrix.mul_apply]
    refine hrank _ (hrlt _ ?_) _ (hclt _ ?_)
    · rw [List.getD_eq_getElem?_getD, List.getElem?_eq_getElem (by rw [hrlen]; exact i.isLt)]; simp
    · rw [List.getD_eq_getElem?_getD, List.getElem?_eq_getElem (by rw [hclen]; exact j.isLt)]; simp
  rw [hsub]
  exact det_eq_zero_of_factor hr _ _

/-- the statement for every minor size: it holds as soon as the (decidable) table check `TablesOK q` does, which the kernel
has evaluated for `q ≤ 5` only — **named gap**: `TablesOK q` for `q ≥ 6` (matrices larger than the property's range). -/
def HierarchySoundK1.Statement : Prop :=
  ∀ (K : Type) [Field K] (q r N dA dB : ℕ), r < q →
    ∀ (c : Fin N → K) (mats : ℕ → ℕ → ℕ → K) (X : ℕ → Fin r → K) (Y : Fin r → ℕ → K),
      (∀ a < dA, ∀ b < dB, ∑ i : Fin N, c i * mats i.val a b = ∑ s : Fin r, X a s * Y s b) →
      ∀ rows ∈ antisymIndex dA q, ∀ cols ∈ antisymIndex dB q,
        ∑ t : Fin q → Fin N, (∏ m, c (t m)) *
          polMinorScaled mats (sortedIndex t) (antisymFactorTable (sortedIndex t)) (antisymFactorTableInt q) rows cols = 0

/-- the statement reduces to the table check -/
theorem hierarchySoundK1_of_tables (h : ∀ q, 0 < q → TablesOK q) : HierarchySoundK1.Statement := by
  intro K _ q r N dA dB hr c mats X Y hrank rows hrows cols hcols
  have hq : 0 < q := by omega
  refine hierarchy_k1_relation_of_tables (h q hq) hq c mats rows cols ?_
  obtain ⟨-, hrlt, hrlen⟩ := (antisymIndex_mem_iff dA q rows).1 hrows
  obtain ⟨-, hclt, hclen⟩ := (antisymIndex_mem_iff dB q cols).1 hcols
  have hsub : subMat (fun r' s => ∑ i : Fin N, c i * mats i.val r' s)
      (fun i : Fin q => rows.getD i.val 0) (fun i => cols.getD i.val 0)
      = (Matrix.of fun (i : Fin q) (s : Fin r) => X (rows.getD i.val 0) s)
        * (Matrix.of fun (s : Fin r) (j : Fin q) => Y s (cols.getD j.val 0)) := by
    ext i j
    simp only [subMat, Matrix.of_apply, Matrix.mul_apply]
    refine hrank _ (hrlt _ ?_) _ (hclt _ ?_)
    · rw [List.getD_eq_getElem?_getD, List.getElem?_eq_getElem (by rw [hrlen]; exact i.isLt)]; simp
    · rw [List.getD_eq_getElem?_getD, List.getElem?_eq_getElem (by rw [hclen]; exact j.isLt)]; simp
  rw [hsub]
  exact det_eq_zero_of_factor hr _ _

end hierarchy

/-! ## 7. the hierarchy at level `k = 2`, and the statement for every level -/

section level2
variable {R : Type} [CommRing R]

/-- the sub-tuple enumeration `combinations(range(q+1), q)` leaves out every position exactly once, `q ≤ 5` (kernel-evaluated) -/
theorem subsetsOK_le_five (q : ℕ) (h1 : 1 ≤ q) (h5 : q ≤ 5) : SubsetsOK q := MatrixSpace.subsetsOK_le_five q h1 h5

/-- **the model's level-2 vector entry is the full symmetrised form** `Σ_m polMinor(generators without slot m)[rows, cols] ·
S_m[K]`, for every sorted multi-index of length `q+1`, `q ≤ 5`, all matrix sizes and any number of generators (including the
`len(np_list) == 1` shortcut of `project_to_symmetric_basis`). -/
theorem hierVecEntry_level2_eq {q N : ℕ} (h1 : 1 ≤ q) (h5 : q ≤ 5) (mats : ℕ → ℕ → ℕ → R) (dB : ℕ)
    (INDEX rows cols : List ℕ) (K : ℕ) (hlen : INDEX.length = q + 1) (hs : INDEX.Pairwise (· ≤ ·)) (hlt : ∀ i ∈ INDEX, i < N) :
    hierVecEntry mats dB N q INDEX rows cols [K]
      = polW (fun m : Fin (q + 1) => mats (INDEX.getD m.val 0)) (fun i => rows.getD i.val 0) (fun i => cols.getD i.val 0)
          (K / dB) (K % dB) :=
  hierVecEntry_level2 (tablesOK_le_five q h1 h5) (subsetsOK_le_five q h1 h5) h1 mats dB INDEX rows cols K hlen hs hlt

/-- **level-2 relation among the vectors of `has_rank_hierarchical_method(·, rank = q, hierarchy_k = 2)`**: if the `q × q`
minor of `M = Σ_i c_i S_i` on `rows`, `cols` vanishes then, for every symmetric index `K`,
`Σ_t (∏_m c_{t m}) · v_{α(t)}[rows, cols, K] = 0` (`t` over all `(q+1)`-tuples of generator labels, `α(t)` its sorted multi-index);
the coefficient of `v_{(i,…,i)}` is `c_i^{q+1}`. Holds for every `q` whose tables pass the checks. -/
theorem hierarchy_k2_relation_of_tables {q N : ℕ} (hT : TablesOK q) (hS : SubsetsOK q) (hq : 0 < q) (c : Fin N → R)
    (mats : ℕ → ℕ → ℕ → R) (dB : ℕ) (rows cols : List ℕ) (K : ℕ)
    (hminor : (subMat (fun r s => ∑ i : Fin N, c i * mats i.val r s)
        (fun i : Fin q => rows.getD i.val 0) (fun i => cols.getD i.val 0)).det = 0) :
    ∑ t : Fin (q + 1) → Fin N, (∏ m, c (t m)) * hierVecEntry mats dB N q (sortedIndex t) rows cols [K] = 0 := by
  rw [← polW_dependence c (fun i => mats i.val) _ _ (K / dB) (K % dB) hminor]
  refine Finset.sum_congr rfl fun t _ => ?_
  rw [hierVecEntry_level2 hT hS hq mats dB _ rows cols K (sortedIndex_length t) (sortedIndex_sorted t) (sortedIndex_lt t)]
  congr 1
  have : (fun m : Fin (q + 1) => mats ((sortedIndex t).getD m.val 0))
      = fun m => (fun m' : Fin (q + 1) => mats (t m').val) (Tuple.sort t m) := by
    funext m; rw [sortedIndex_getD]
  rw [this]
  exact polW_perm (fun m' : Fin (q + 1) => mats (t m').val) _ _ _ _ (Tuple.sort t)

/-- **`hierarchy_sound`, level `k = 2`, minors up to `5 × 5`**: a combination of rank `≤ r` (`q = r+1 ≤ 5`) forces the level-2
relation on every choice of rows, columns and symmetric index. -/
theorem hierarchy_sound_k2_le_five {K' : Type} [Field K'] {q r N dA dB : ℕ} (hr : r < q) (h5 : q ≤ 5)
    (c : Fin N → K') (mats : ℕ → ℕ → ℕ → K') (X : ℕ → Fin r → K') (Y : Fin r → ℕ → K')
    (hrank : ∀ a < dA, ∀ b < dB, ∑ i : Fin N, c i * mats i.val a b = ∑ s : Fin r, X a s * Y s b)
    (rows cols : List ℕ) (hrows : rows ∈ antisymIndex dA q) (hcols : cols ∈ antisymIndex dB q) (K : ℕ) :
    ∑ t : Fin (q + 1) → Fin N, (∏ m, c (t m)) * hierVecEntry mats dB N q (sortedIndex t) rows cols [K] = 0 := by
  have hq : 0 < q := by omega
  refine hierarchy_k2_relation_of_tables (tablesOK_le_five q hq h5) (subsetsOK_le_five q hq h5) hq c mats dB rows cols K ?_
  obtain ⟨-, hrlt, hrlen⟩ := (antisymIndex_mem_iff dA q rows).1 hrows
  obtain ⟨-, hclt, hclen⟩ := (antisymIndex_mem_iff dB q cols).1 hcols
  have hsub : subMat (fun r' s => ∑ i : Fin N, c i * mats i.val r' s)
      (fun i : Fin q => rows.getD i.val 0) (fun i => cols.getD i.val 0)
      = (Matrix.of fun (i : Fin q) (s : Fin r) => X (rows.getD i.val 0) s)
        * (Matrix.of fun (s : Fin r) (j : Fin q) => Y s (cols.getD j.val 0)) := by
    ext i j
    simp only [subMat, Matrix.of_apply, Matrix.mul_apply]
    refine hrank _ (hrlt _ ?_) _ (hclt _ ?_)
    · rw [List.getD_eq_getElem?_getD, List.getElem?_eq_getElem (by rw [hrlen]; exact i.isLt)]; simp
    · rw [List.getD_eq_getElem?_getD, List.getElem?_eq_getElem (by rw [hclen]; exact j.isLt)]; simp
  rw [hsub]
  exact det_eq_zero_of_factor hr _ _

/-- the relation for **every level `k ≥ 1` and every minor size** (`n = q + k - 1` slots, symmetric index `K` of length `k-1`):
the model of the whole vector family is `hierVecEntry` (tied exactly to the implementation for `k ≤ 4`); proved above for
`k = 1` (`hierarchy_sound_k1_le_five`, `K = []`) and `k = 2` (`hierarchy_sound_k2_le_five`), `q ≤ 5`.
**Named gap**: `k ≥ 3` (needs the transversal property of the symmetric table for tuples of length `k-1 ≥ 2` and the
partition of the slots into a `q`-subset and its complement as an equivalence), and `q ≥ 6`. -/
def HierarchySoundLevelK.Statement : Prop :=
  ∀ (F : Type) [Field F] (q r k N dA dB : ℕ), r < q → 1 ≤ k →
    ∀ (c : Fin N → F) (mats : ℕ → ℕ → ℕ → F) (X : ℕ → Fin r → F) (Y : Fin r → ℕ → F),
      (∀ a < dA, ∀ b < dB, ∑ i : Fin N, c i * mats i.val a b = ∑ s : Fin r, X a s * Y s b) →
      ∀ rows ∈ antisymIndex dA q, ∀ cols ∈ antisymIndex dB q, ∀ K ∈ symPartKeys N (dA * dB) (k - 1),
        ∑ t : Fin (q + (k - 1)) → Fin N, (∏ m, c (t m)) * hierVecEntry mats dB N q (sortedIndex t) rows cols K = 0

end level2

/-! ## 7b. the dense (anti)symmetric bases (`get_antisymmetric_basis`, `get_symmetric_basis`; ops `asbasis`, `symbasis`) -/

section dense

/-- the dense bases have `C(d,r)` resp. multichoose`(d,r)` rows, every `d`, `r` -/
theorem denseBases_row_counts (d r : ℕ) :
    (antisymBasisDense d r).length = d.choose r ∧ (symBasisDense d r).length = Nat.multichoose d r :=
  ⟨(antisymBasisDense_length d r).trans (antisymIndex_length d r), (symBasisDense_length d r).trans (symIndex_length d r)⟩

/-- **the dense bases are orthonormal**: in the signed-square encoding every antisymmetric row has entries `0, ±1` with `r!` non-zero
ones (the implementation's entries are `±1/√r!`: unit norm), every symmetric row sums to `r!` (`Σ entry² = Σ ∏count!/r! = 1`), and
distinct rows have disjoint supports.  Full statement for all `d`, `r`; proved below for the sizes the kernel evaluates. -/
def DenseBasesOrthonormal.Statement : Prop :=
  (∀ d r : ℕ, 0 < r → r ≤ d → AntisymDenseOK d r) ∧ (∀ d r : ℕ, 0 < r → 0 < d → SymDenseOK d r)

/-- `DenseBasesOrthonormal.Statement` for `d ≤ 5, r ≤ 3` (antisymmetric; `r = 2` is what `is_ABC_completely_entangled_subspace` uses
for its four projectors, up to local dimension 5) and `d ≤ 4, r ≤ 3` (symmetric) -/
theorem denseBasesOrthonormal_partial :
    (∀ d ∈ List.range 6, ∀ r ∈ List.range 4, 0 < r → r ≤ d → AntisymDenseOK d r) ∧
    (∀ d ∈ List.range 5, ∀ r ∈ List.range 4, 0 < r → 0 < d → SymDenseOK d r) :=
  ⟨antisymDense_small, symDense_small⟩

end dense

/-! ## 8. the tripartite test at level 1 -/

section tripartite
variable {R : Type} [CommRing R]

/-- the two matricisations are the plain row-major reshapes `(a, b·dC + c)` and `(a·dB + b, c)` of the `(dA,dB,dC)` tensor -/
theorem matricisations_apply (dB dC : ℕ) (T : ℕ → ℕ → ℕ → R) (a b c : ℕ) (hb : b < dB) (hc : c < dC) :
    matA_BC dC T a (b * dC + c) = T a b c ∧ matAB_C dB T (a * dB + b) c = T a b c :=
  ⟨matA_BC_apply dC T a b c hc, matAB_C_apply dB T a b c hb⟩

/-- both cuts vanish on a product tensor -/
theorem abcEntry_product (dB dC : ℕ) (x y z : ℕ → R) (a b c a' b' c' : ℕ) :
    abcEntry dB dC (fun a b c => x a * y b * z c) (fun a b c => x a * y b * z c) a b c a' b' c' = 0 :=
  MatrixSpace.abcEntry_product dB dC x y z a b c a' b' c'

/-- **soundness of `is_ABC_completely_entangled_subspace` at level 1**: if the span of the generators `S_i` contains a product
vector `Σ_i c_i S_i = x ⊗ y ⊗ z`, the vectors `v_{(i,j)}` (`i ≤ j`) of its linear system satisfy, entry by entry,
`Σ_{i,j} c_i c_j v_{(min(i,j), max(i,j))} = 0` — a non-trivial relation (coefficient `c_i²` on `v_{(i,i)}`), so the Gram matrix
`TAlphaBeta` has a kernel vector (`gram_has_kernel`) and, with the `eigvalsh` contract and `hierarchyCert_sound`, the positive
answer is not issued. All local dimensions. -/
theorem abc_sound_k1 {N : ℕ} (dB dC : ℕ) (c : Fin N → R) (S : Fin N → ℕ → ℕ → ℕ → R) (x y z : ℕ → R)
    (hprod : ∀ a b e, ∑ i, c i * S i a b e = x a * y b * z e) (a b e a' b' e' : ℕ) :
    ∑ i, ∑ j, c i * c j * abcEntry dB dC (S (min i j)) (S (max i j)) a b e a' b' e' = 0 := by
  have h0 := MatrixSpace.abcEntry_product dB dC x y z a b e a' b' e'
  have hfun : (fun a b e => ∑ i, c i * S i a b e) = fun a b e => x a * y b * z e := by
    funext a b e; exact hprod a b e
  rw [← hfun, abcEntry_bilinear] at h0
  rw [← h0]
  refine Finset.sum_congr rfl fun i _ => Finset.sum_congr rfl fun j _ => ?_
  rcases le_total i j with h | h
  · rw [min_eq_left h, max_eq_right h]
  · rw [min_eq_right h, max_eq_left h, abcEntry_symm]

/-- **the model's level-2 vector entry of the tripartite test is the symmetrised form** `Σ_m (A|BC + AB|C)(generators without slot m) ·
T_m[K]` (`abcW`), for every multi-index of length 3, all local dimensions, any number of generators (including the `len(np_list) == 1`
shortcut of `project_to_symmetric_basis`).  `abcLevelEntry` is what op `abcveck` executes. -/
theorem abcLevelEntry_level2_eq {N : ℕ} (dB dC : ℕ) (T : ℕ → ℕ → ℕ → ℕ → R) (INDEX : List ℕ) (a b c a' b' c' K : ℕ)
    (hlen : INDEX.length = 3) (hlt : ∀ i ∈ INDEX, i < N) :
    abcLevelEntry dB dC N T INDEX a b c a' b' c' [K]
      = abcW dB dC (fun m : Fin 3 => T (INDEX.getD m.val 0)) a b c a' b' c' K :=
  abcLevelEntry_level2 dB dC T INDEX a b c a' b' c' K hlen hlt

/-- **soundness of `is_ABC_completely_entangled_subspace` at level 2** (`hierarchy_k = 2`): if the span of the generators contains a
product vector `Σ_i c_i S_i = x ⊗ y ⊗ z`, the vectors `v_α` (`α` a sorted triple of generator labels) of its linear system satisfy, entry
by entry, `Σ_t (∏_m c_{t m}) · v_{α(t)} = 0` (`t` over all triples of labels, `α(t)` the sorted triple); the coefficient of `v_{(i,i,i)}` is
`c_i³`, so the relation is non-trivial and the Gram matrix `TAlphaBeta` is singular (`gram_has_kernel`, `certificate_not_issued`).
All local dimensions, any number of generators. -/
theorem abc_sound_k2 {N : ℕ} (dB dC : ℕ) (c : Fin N → R) (S : ℕ → ℕ → ℕ → ℕ → R) (x y z : ℕ → R)
    (hprod : ∀ a b e, ∑ i : Fin N, c i * S i.val a b e = x a * y b * z e) (a b e a' b' e' K : ℕ) :
    ∑ t : Fin 3 → Fin N, (∏ m, c (t m)) * abcLevelEntry dB dC N S (sortedIndex t) a b e a' b' e' [K] = 0 := by
  rw [← abcW_dependence dB dC c (fun i => S i.val) x y z hprod a b e a' b' e' K]
  refine Finset.sum_congr rfl fun t _ => ?_
  rw [abcLevelEntry_level2 dB dC S _ a b e a' b' e' K (sortedIndex_length t) (sortedIndex_lt t)]
  congr 1
  have : (fun m : Fin 3 => S ((sortedIndex t).getD m.val 0)) = fun m => (fun m' : Fin 3 => S (t m').val) (Tuple.sort t m) := by
    funext m; rw [sortedIndex_getD]
  rw [this]
  exact abcW_perm dB dC (fun m' : Fin 3 => S (t m').val) a b e a' b' e' K (Tuple.sort t)

/-- the relation for **every level `k ≥ 1`** of the tripartite test (`n = 1 + k` slots, symmetric index `K` of length `k - 1`): the model
of the vector family is `abcLevelEntry` (tied exactly to the implementation for `k ≤ 3`, thorough tier `k ≤ 4`); proved above for `k = 1`
(`abc_sound_k1`) and `k = 2` (`abc_sound_k2`).  **Named gap**: `k ≥ 3` (same obstacle as `HierarchySoundLevelK.Statement`: the
transversal property of the symmetric table for tuples of length `k - 1 ≥ 2`). -/
def AbcSoundLevelK.Statement : Prop :=
  ∀ (F : Type) [Field F] (k N dA dB dC : ℕ), 1 ≤ k →
    ∀ (c : Fin N → F) (S : ℕ → ℕ → ℕ → ℕ → F) (x y z : ℕ → F),
      (∀ a b e, ∑ i : Fin N, c i * S i.val a b e = x a * y b * z e) →
      ∀ a b e a' b' e', ∀ K ∈ symPartKeys N (dA * dB * dC) (k - 1),
        ∑ t : Fin (1 + k) → Fin N, (∏ m, c (t m)) * abcLevelEntry dB dC N S (sortedIndex t) a b e a' b' e' K = 0

/-- **a linear relation among the vectors gives a kernel vector of the Gram matrix** on which both certificates decide
(`matAAT = T Tᴴ`, `TAlphaBeta`): `Σ_α d_α G[α,β] = 0` for every `β`. -/
theorem gram_has_kernel {F : Type} [CommRing F] [StarRing F] {ι κ : Type} [Fintype ι] [Fintype κ]
    (v : ι → κ → F) (d : ι → F) (hrel : ∀ x, ∑ α, d α * v α x = 0) (β : ι) :
    ∑ α, d α * ∑ x, v α x * star (v β x) = 0 :=
  gram_kernel_of_relation v d hrel β

end tripartite

/-! ## 9. `get_matrix_orthogonal_basis`: the three claims of the property from the `svd` / `eigh` contracts -/

section orth

/-- **`eigh` contract ⇒ complement ⟂ basis**: for orthonormal rows `V`, an eigenvector of `1 - VᵀV̄` for the eigenvalue 1
(a column of `EVC[:, N0:]`) is orthogonal to every row of `V` (`get_vector_orthogonal_basis`, `_misc.py:72-73`). -/
theorem complement_orth_of_eigen {F : Type} [Field F] [StarRing F] {L k : ℕ} (V : Fin k → Fin L → F)
    (hV : ∀ i j, dotS (V i) (V j) = if i = j then 1 else 0) (w : Fin L → F)
    (heig : ∀ p, w p - ∑ j, V j p * dotS (V j) w = w p) (l : Fin k) : dotS (V l) w = 0 :=
  MatrixSpace.complement_orth_of_eigen V hV w heig l

/-- **every branch**: if the map `Φ` from coordinate rows back to matrices is linear over the base field and multiplies inner
products by `κ`, then from the `svd` contract (rows `V` orthonormal, same span as the coordinate rows `X` of the input) and the
`eigh` contract (`W ⟂ V`): (1) the returned basis is mutually orthogonal with common squared norm `κ`; (2) it spans exactly the
span of the input; (3) the returned complement is orthogonal to the basis and to the input.  (`dims_add_up` is the count.)
For the Gell-Mann branches (`R_T`, `C_T`, `C_H`, `R_cT`) `Φ` is `gellmann_basis_to_matrix` after the zero-block embedding
(`symSelect_symEmbed`, `symEmbed_symSelect`: mutually inverse, the embedding only inserts zeros) with `κ = 2`
(`gellmann_synthesis_isometry`; instantiated for `C_H` in `orth_basis_C_H`), `κ = 4` after the block form. -/
theorem orth_basis_claims {F : Type} [Field F] [StarRing F] {E : Type} [AddCommGroup E] [Module F E] {L N0 k c : ℕ}
    (ip : E → E → F) (Φ : (Fin L → F) →ₗ[F] E) (κ : F) (hiso : ∀ x y, ip (Φ x) (Φ y) = κ * dotS x y)
    (X : Fin N0 → Fin L → F) (V : Fin k → Fin L → F) (W : Fin c → Fin L → F)
    (hV : ∀ i j, dotS (V i) (V j) = if i = j then 1 else 0)
    (hspan : Submodule.span F (Set.range V) = Submodule.span F (Set.range X))
    (hWV : ∀ i j, dotS (W i) (V j) = 0) :
    (∀ i j, ip (Φ (V i)) (Φ (V j)) = if i = j then κ else 0)
    ∧ Submodule.span F (Set.range fun i => Φ (V i)) = Submodule.span F (Set.range fun i => Φ (X i))
    ∧ (∀ i j, ip (Φ (W i)) (Φ (V j)) = 0) ∧ (∀ i j, ip (Φ (W i)) (Φ (X j)) = 0) :=
  MatrixSpace.orth_basis_claims ip Φ κ hiso X V W hV hspan hWV

/-- **branches `R` and `C`** (`x.reshape(N1,N2)`, any field: ℝ or ℂ): orthonormal basis (`κ = 1`), same span, orthogonal complement -/
theorem orth_basis_R_C {F : Type} [Field F] [StarRing F] {m n N0 k c : ℕ}
    (X : Fin N0 → Fin (m * n) → F) (V : Fin k → Fin (m * n) → F) (W : Fin c → Fin (m * n) → F)
    (hV : ∀ i j, dotS (V i) (V j) = if i = j then 1 else 0)
    (hspan : Submodule.span F (Set.range V) = Submodule.span F (Set.range X))
    (hWV : ∀ i j, dotS (W i) (V j) = 0) :
    (∀ i j, frob (reshapeL m n (V i)) (reshapeL m n (V j)) = if i = j then 1 else 0)
    ∧ Submodule.span F (Set.range fun i => reshapeL m n (V i)) = Submodule.span F (Set.range fun i => reshapeL m n (X i))
    ∧ (∀ i j, frob (reshapeL m n (W i)) (reshapeL m n (V j)) = 0)
    ∧ (∀ i j, frob (reshapeL m n (W i)) (reshapeL m n (X j)) = 0) :=
  MatrixSpace.orth_basis_claims (E := Fin m → Fin n → F) (frob (m := m) (n := n)) (reshapeL m n) 1
    (fun x y => reshapeL_iso x y) X V W hV hspan hWV

/-- **branch `R_c`** (complex matrices over ℝ, returned in the `np.block([[r,-i],[i,r]])` form built by the model's
`rcUnflatten` / `blockRealify`): mutually orthogonal with the common squared norm 2, same span, orthogonal complement -/
theorem orth_basis_R_c {N1 N2 N0 k c : ℕ}
    (X : Fin N0 → Fin (N1 * (N2 + N2)) → ℝ) (V : Fin k → Fin (N1 * (N2 + N2)) → ℝ) (W : Fin c → Fin (N1 * (N2 + N2)) → ℝ)
    (hV : ∀ i j, dotS (V i) (V j) = if i = j then 1 else 0)
    (hspan : Submodule.span ℝ (Set.range V) = Submodule.span ℝ (Set.range X))
    (hWV : ∀ i j, dotS (W i) (V j) = 0) :
    (∀ i j, frob (realifyL N1 N2 (V i)) (realifyL N1 N2 (V j)) = if i = j then 2 else 0)
    ∧ Submodule.span ℝ (Set.range fun i => realifyL N1 N2 (V i)) = Submodule.span ℝ (Set.range fun i => realifyL N1 N2 (X i))
    ∧ (∀ i j, frob (realifyL N1 N2 (W i)) (realifyL N1 N2 (V j)) = 0)
    ∧ (∀ i j, frob (realifyL N1 N2 (W i)) (realifyL N1 N2 (X j)) = 0) :=
  MatrixSpace.orth_basis_claims (E := Fin (N1 + N1) → Fin (N2 + N2) → ℝ) (frob (m := N1 + N1) (n := N2 + N2)) (realifyL N1 N2) 2
    (fun x y => realifyL_iso x y) X V W hV hspan hWV

/-- `realifyL` is the model's code path: its entries are `blockRealify ∘ rcUnflatten` of the coordinate row -/
theorem realifyL_apply {N1 N2 : ℕ} (x : Fin (N1 * (N2 + N2)) → ℝ) (p : Fin (N1 + N1)) (q : Fin (N2 + N2)) :
    realifyL N1 N2 x p q
      = blockRealify N1 N2 (rcUnflatten N1 N2 (List.ofFn x)).1 (rcUnflatten N1 N2 (List.ofFn x)).2 p.val q.val := rfl

/-- **`gellmann_basis_to_matrix` doubles inner products** (`κ = 2`): `tr(AᴴB) = 2·Σ_p conj(a_p) b_p` for the matrices synthesised
from the coordinate vectors `a`, `b` — from C16 (`parseval_half`, `analysis_synthesis`), any commutative `*`-ring with valid
scalars, every `d ≥ 1`.  This is the `hiso` of `orth_basis_claims` for the four Gell-Mann branches (the zero-block embedding of
`R_T`/`C_T`/`R_cT` only inserts zeros into the coordinate vector, §2). -/
theorem gellmann_synthesis_isometry {R : Type} [CommRing R] [StarRing R] {d : ℕ} (S : Gellmann.Scalars R) (hS : S.Valid d)
    (hd : 1 ≤ d) (a b : ℕ → R) :
    Matrix.trace ((Matrix.of (Gellmann.synthesis S d a)).conjTranspose * Matrix.of (Gellmann.synthesis S d b))
      = 2 * ∑ p ∈ range (d * d), star (a p) * b p :=
  synthesis_isometry S hS hd a b

/-- **branch `C_H`** (Hermitian matrices over ℝ, `gellmann_basis_to_matrix` of real coordinate rows, form `Re tr(AᴴB)`):
mutually orthogonal with common squared norm 2, same span over ℝ, orthogonal complement -/
theorem orth_basis_C_H {d N0 k c : ℕ} (hd : 1 ≤ d)
    (X : Fin N0 → Fin (d * d) → ℝ) (V : Fin k → Fin (d * d) → ℝ) (W : Fin c → Fin (d * d) → ℝ)
    (hV : ∀ i j, dotS (V i) (V j) = if i = j then 1 else 0)
    (hspan : Submodule.span ℝ (Set.range V) = Submodule.span ℝ (Set.range X))
    (hWV : ∀ i j, dotS (W i) (V j) = 0) :
    (∀ i j, (Matrix.trace ((synthL d hd (V i)).conjTranspose * synthL d hd (V j))).re = if i = j then 2 else 0)
    ∧ Submodule.span ℝ (Set.range fun i => synthL d hd (V i)) = Submodule.span ℝ (Set.range fun i => synthL d hd (X i))
    ∧ (∀ i j, (Matrix.trace ((synthL d hd (W i)).conjTranspose * synthL d hd (V j))).re = 0)
    ∧ (∀ i j, (Matrix.trace ((synthL d hd (W i)).conjTranspose * synthL d hd (X j))).re = 0) :=
  MatrixSpace.orth_basis_claims (E := Matrix (Fin d) (Fin d) ℂ)
    (fun A B => (Matrix.trace (A.conjTranspose * B)).re) (synthL d hd) 2 (fun x y => synthL_iso d hd x y) X V W hV hspan hWV

end orth

/-! ## 10. the soundness chain, link by link -/

section chain
open Matrix
open scoped ComplexOrder

/-- **(i) the relation is non-trivial**: grouping the tuples by their sorted multi-index, the relation reads
`Σ_α groupedCoef(α)·v_α = 0` … -/
theorem relation_grouped {R : Type} [CommRing R] {n N : ℕ} (c : Fin N → R) (g : List ℕ → R) :
    ∑ t : Fin n → Fin N, (∏ m, c (t m)) * g (sortedIndex t)
      = ∑ α ∈ (univ : Finset (Fin n → Fin N)).image sortedIndex, groupedCoef (n := n) c α * g α :=
  MatrixSpace.relation_grouped c g

/-- … and the coefficient of `v_{(i,…,i)}` is `c_i^n` — non-zero in a field as soon as `c_i ≠ 0`; `(i,…,i)` is one of the multi-indices. -/
theorem groupedCoef_const {R : Type} [CommRing R] {n N : ℕ} (c : Fin N → R) (i : Fin N) :
    groupedCoef (n := n) c (List.replicate n i.val) = c i ^ n
      ∧ List.replicate n i.val ∈ (univ : Finset (Fin n → Fin N)).image sortedIndex :=
  ⟨MatrixSpace.groupedCoef_const c i, replicate_mem_image i⟩

/-- the Gram matrix `G[α,β] = Σ_x v_α[x]·conj v_β[x]` of a family is positive semidefinite -/
theorem gramOf_posSemidef {ι κ : Type} [Fintype ι] [Fintype κ] [DecidableEq ι] (v : ι → κ → ℂ) : (gramOf v).PosSemidef :=
  MatrixSpace.gramOf_posSemidef v

/-- **(ii) singular ⇒ the exact decision quantity is 0**: if the family satisfies a linear relation with a non-zero coefficient
vector `d`, the smallest eigenvalue of its Gram matrix — `eigvalsh` contract: `lam` is an attained lower bound of the Rayleigh
quotient — is 0. -/
theorem gram_lambda_min_zero {ι κ : Type} [Fintype ι] [Fintype κ] [DecidableEq ι] (v : ι → κ → ℂ) (d : ι → ℂ)
    (hrel : ∀ x, ∑ α, d α * v α x = 0) (hd : d ≠ 0) (lam : ℝ)
    (hmin : ∀ y : ι → ℂ, lam * (star y ⬝ᵥ y).re ≤ (star y ⬝ᵥ (gramOf v *ᵥ y)).re)
    (hatt : ∃ y : ι → ℂ, star y ⬝ᵥ (gramOf v *ᵥ y) = (lam : ℂ)) : lam = 0 :=
  MatrixSpace.gram_lambda_min_zero v d hrel hd lam hmin hatt

end chain

/-! ## non-vacuity -/

/-- the hypotheses of `rank_one_bound` are satisfiable: the span of `E₀₀` (2×2) contains `e₀e₀ᵀ` -/
example : quadForm 2 2 (mixPT (3 : ℚ) (projector 1 fun _ a b => if a = 0 ∧ b = 0 then 1 else 0))
    (fun a => if a = 0 then 1 else 0) (fun b => if b = 0 then 1 else 0) = 1 := by
  refine rank_one_bound 2 2 1 _ _ _ (fun _ => 1) 3 ?_ ?_ ?_
  · intro a ha b hb; interval_cases a <;> interval_cases b <;> simp
  · intro k hk l hl; interval_cases k; interval_cases l; simp [Finset.sum_range_succ]
  · simp [Finset.sum_range_succ]

/-- level-2 entry on concrete data: generators `E₀₀+E₁₁`, `E₀₁`; multi-index (0,0,1), rows/cols (0,1), K = 1 -/
example : hierVecEntry (fun k i j => if k = 0 then (if i = j then (1 : ℤ) else 0) else (if i = 0 ∧ j = 1 then 1 else 0)) 2 2 2
    [0, 0, 1] [0, 1] [0, 1] [1] = 2 := by decide

example : antisymIndex 4 2 = [[0, 1], [0, 2], [0, 3], [1, 2], [1, 3], [2, 3]] := by decide

example : symSelect 2 [1, 0, 3, 4] = [1, 3, 4] ∧ symEmbed 2 [1, 3, 4] = ([1, 0, 3, 4] : List Int) := by decide

end Numqi.C20
