/-
C07 — Clifford tableau simulation equals unitary conjugation, for any gate history.

Property theorems only (helper lemmas: `NumqiProofs/CliffordLemmas.lean`).  Everything is stated about the
executable model `NumqiModel/Clifford.lean` (the constants run by `Driver/C07.lean`).

Finite tables are evaluated by the kernel (`decide +kernel`).  Kernel evaluation is call-by-name, so a table is
split into (1) "the model computes this literal tableau" and (2) "the literal tableau has the property";
the combined statements (`basic_gate_table`, …) are derived from the two.
-/
import NumqiProofs.CliffordLemmas
import NumqiProofs.CliffordAlgebra
import NumqiProofs.CliffordEmbed
import NumqiProofs.CliffordCircuit
import NumqiProofs.CliffordQecBridge
import NumqiProofs.CliffordOrbit
import NumqiProofs.CliffordSuccess
import NumqiProofs.CliffordExtract
import NumqiProofs.CliffordAuto
import NumqiProofs.CliffordRand
import NumqiProofs.CliffordExport
import Mathlib.Analysis.Real.Sqrt
import Mathlib.Data.Complex.Basic

namespace Numqi.C07
open Numqi Numqi.Clifford

/-! ### the object with its cache: every answer reflects all gates appended so far -/

/-- **History independence.**  For every sequence of method calls on a fresh `CliffordCircuit` (appends with valid or
rejected arguments, the `I` no-op, `to_symplectic_form`, `apply_pauli_F2`, `to_universal_circuit`, in any order), the
outputs of the object with its `_R/_S` cache equal the outputs of the cache-free specification, in which every query is
computed from *all* gates recorded before it. -/
theorem history_independent (ops : List Clifford.Op) : run St.init ops = specRun [] ops :=
  run_spec ops St.init inv_init

/-- the same from any reachable state: the invariant `cache = none ∨ cache = tableau of the recorded gates` is kept by
every operation -/
theorem cache_invariant (st : St) (h : Inv st) (op : Clifford.Op) : Inv (step st op).1 := (step_spec st h op).2.2

/-- a query answers with the tableau of exactly the recorded gates (specification unfolded once) -/
theorem query_reflects_all_gates (ops : List Clifford.Op) (gates : List Gate) :
    specRun gates (ops ++ [Clifford.Op.query]) = specRun gates ops ++
      [match symplecticOf (ops.foldl (fun g op => (specStep g op).1) gates) with
        | .ok t => Out.tab t
        | .error e => Out.err e] := by
  induction ops generalizing gates with
  | nil =>
    simp only [List.nil_append, specRun, specStep, List.foldl_nil]
    cases symplecticOf gates <;> rfl
  | cons op ops ih =>
    simp only [List.cons_append, specRun, List.foldl_cons]
    rw [ih]

/-- **Why the invalidation matters**: the object *without* the reset of `_R/_S` in the gate-recording methods (the code
before the fix) answers the second query of `H 0; query; S 0; query` with the stale `H`-only tableau. -/
theorem stale_without_invalidation :
    let ops := [Clifford.Op.append .H [0], Clifford.Op.query, Clifford.Op.append .S [0], Clifford.Op.query]
    runStale St.init ops ≠ specRun [] ops ∧
    (runStale St.init ops).getD 3 .unit = (runStale St.init ops).getD 1 .unit ∧
    (run St.init ops).getD 3 .unit ≠ (run St.init ops).getD 1 .unit := by
  decide +kernel

/-! ### the eight basic gates: tableau action = conjugation -/

/-- `_basic_clifford_dagger_f2(key)` — i.e. `clifford_array_to_F2` run on the adjoint gate matrix — returns these -/
theorem basicDaggerF2_eq (key : GateKey) : basicDaggerF2 key = some (dagTable key) :=
  basicDaggerF2_dagTable key

/-- the gate matrices are unitary up to the recorded scale: `G† G = c·1` (`c = 2` for the integer form `√2·H`) -/
theorem gate_unitary (key : GateKey) :
    Clifford.Mat.mul (2 ^ key.arity) (Clifford.Mat.dagger (2 ^ key.arity) key.mat) key.mat =
      Clifford.Mat.scale key.scale (pauliMat key.arity ⟨false, false, 0⟩) := by
  cases key <;> decide +kernel

/-- the bit-mask form of the Pauli matrix entries used below is the matrix semantics of C08 (`Pauli.matExp`, for which
C08 proves `mat (p*q) = mat p * mat q` and faithfulness), on 1, 2 and 3 qubits -/
theorem pauliEnt_is_C08 : ([1, 2, 3] : List Nat).all (fun k => (allPaulis k).all fun p =>
    (List.range (2 ^ k)).all fun r => (List.range (2 ^ k)).all fun c => pauliEnt k p r c == pauliEntC08 k p r c) = true := by
  decide +kernel

/-- … in particular a Pauli matrix has a single non-zero entry per column, in row `c xor xIndex` -/
theorem pauli_support : ([1, 2] : List Nat).all (fun k => (allPaulis k).all (pauliSupportOK k)) = true := by
  decide +kernel

private theorem table_lit : GateKey.all.all (fun key =>
    (allPaulis key.arity).all (intertwines key.arity key.mat (List.range key.arity) (dagTable key))) = true := by
  decide +kernel

/-- **Basic gate table.**  For each of X, Y, Z, H, S, CX, CY, CZ and each of the `4·4^k` phased Paulis `P` on its `k`
qubits: `P · G = G · Q` with `Q = apply_clifford_on_pauli(P, tableau(G†))`, entry by entry over ℤ[i]
(`√2·H` for `H`).  With `G† G = c·1` (`gate_unitary`) this is `Q = G† P G`, phase included. -/
theorem basic_gate_table (key : GateKey) (t : Tab) (ht : basicDaggerF2 key = some t) (p : PauliB)
    (hp : p ∈ allPaulis key.arity) : intertwines key.arity key.mat (List.range key.arity) t p = true := by
  rw [basicDaggerF2_eq] at ht
  cases ht
  have h := table_lit
  rw [List.all_eq_true] at h
  have h2 := h key (by cases key <;> decide)
  rw [List.all_eq_true] at h2
  exact h2 p hp

private theorem embed_lit : GateKey.all.all (fun key => (placements 2 key.arity).all fun qs =>
    (allPaulis 2).all (intertwines 2 key.mat qs (Clifford.embed 2 (dagTable key) qs))) = true := by
  decide +kernel

/-- **Placement on two qubits.**  For every gate, every placement on a 2-qubit register (both orders of control and
target for the two-qubit gates) and all 64 phased Paulis: the embedded tableau used by `to_symplectic_form`
intertwines `P` with the dense operator of the placed gate. -/
theorem embedded_gate_table (key : GateKey) (t : Tab) (ht : basicDaggerF2 key = some t) (qs : List Nat)
    (hqs : qs ∈ placements 2 key.arity) (p : PauliB) (hp : p ∈ allPaulis 2) :
    intertwines 2 key.mat qs (Clifford.embed 2 t qs) p = true := by
  rw [basicDaggerF2_eq] at ht
  cases ht
  have h := embed_lit
  rw [List.all_eq_true] at h
  have h2 := h key (by cases key <;> decide)
  rw [List.all_eq_true] at h2
  have h3 := h2 qs hqs
  rw [List.all_eq_true] at h3
  exact h3 p hp

private theorem embed_local_lit : ([1, 2, 3] : List Nat).all (fun n => GateKey.all.all fun key =>
    (placements n key.arity).all fun qs => (allPaulis n).all fun p =>
      applyOnPauli p (Clifford.embed n (dagTable key) qs) == liftP n qs p (applyOnPauli (restrictP n qs p) (dagTable key))) = true := by
  decide +kernel

/-- **Embedding acts locally, phase included** (registers of 1–3 qubits, every gate, every placement, all Paulis):
the embedded tableau of `to_symplectic_form` changes only the factor of `P` on the gate's qubits, exactly as the
gate's own tableau does (so `basic_gate_table` transfers to placed gates). -/
theorem embed_local_table (n : Nat) (hn : n ∈ ([1, 2, 3] : List Nat)) (key : GateKey) (loc : Tab)
    (hl : basicDaggerF2 key = some loc) (qs : List Nat) (hqs : qs ∈ placements n key.arity)
    (p : PauliB) (hp : p ∈ allPaulis n) :
    applyOnPauli p (Clifford.embed n loc qs) = liftP n qs p (applyOnPauli (restrictP n qs p) loc) := by
  rw [basicDaggerF2_eq] at hl
  cases hl
  have h := embed_local_lit
  rw [List.all_eq_true] at h
  have h2 := h n hn
  rw [List.all_eq_true] at h2
  have h3 := h2 key (by cases key <;> decide)
  rw [List.all_eq_true] at h3
  have h4 := h3 qs hqs
  rw [List.all_eq_true] at h4
  exact of_decide_eq_true (by simpa using h4 p hp)

/-! ### phase-exact automorphism, composition rule, circuits — for every number of qubits -/

/-- **Every `(r, S)` with `S` symplectic acts as a phase-exact homomorphism of the Pauli group**:
`apply(P·Q) = apply(P)·apply(Q)` on the binary forms, for every `n`, every phase vector `r`, all phased Paulis.
(`mulB` is the product of C08, see `mulB_is_C08_mul`; `colSp` is `Sᵀ Λ S = Λ`.) -/
theorem apply_hom (t : Tab) (h : t.colSp = true) (a b : PauliB) :
    applyOnPauli (mulB t.n a b) t = mulB t.n (applyOnPauli a t) (applyOnPauli b t) :=
  apply_mulB t h a b

/-- the product on binary forms used in `apply_hom` is `PauliOperator.__matmul__` as modelled (and proved to be the
matrix product, phase included) in C08 -/
theorem mulB_is_C08_mul (n : Nat) (a b : PauliB) : toPauli n (mulB n a b) = (toPauli n a).mul (toPauli n b) :=
  toPauli_mulB n a b

/-- **Composition rule = sequential application**, every `n`: whenever `clifford_multiply(x, y)` returns `z` for
tableaux of equal size with `S_y` symplectic, `apply(P, z) = apply(apply(P, x), y)` for every phased Pauli, phase included. -/
theorem multiply_apply (x y z : Tab) (h : multiply x y = some z) (hn : x.n = y.n) (hy : y.colSp = true) (p : PauliB) :
    applyOnPauli p z = applyOnPauli (applyOnPauli p x) y :=
  multiply_apply_all h hn hy p

/-- the identity tableau (start value of `to_symplectic_form`) fixes every Pauli of the right length -/
theorem apply_identity (n : Nat) (p : PauliB) (hp : p.v < 4 ^ n) : applyOnPauli p (Tab.id n) = p := apply_id n p hp

/-- **An embedded symplectic tableau is symplectic**, for every register size `n` and every placement on pairwise
distinct qubits below `n` (what `to_symplectic_form` multiplies with) -/
theorem embed_colSp_all (n : Nat) (qs : List Nat) (hnd : qs.Nodup) (hlt : ∀ q ∈ qs, q < n) (loc : Tab)
    (hk : loc.n = qs.length) (hloc : loc.colSp = true) : (Clifford.embed n loc qs).colSp = true :=
  embed_colSp ⟨hnd, hlt⟩ loc hk hloc

/-- the eight adjoint-gate tableaux have the right size and are symplectic -/
theorem dagger_tableaux_symplectic (k : GateKey) :
    ∃ t, basicDaggerF2 k = some t ∧ t.n = k.arity ∧ t.colSp = true :=
  ⟨dagTable k, basicDaggerF2_eq k, by cases k <;> rfl, by cases k <;> decide⟩

/-- every gate record produced by method calls is well formed (index count = arity, indices pairwise distinct) -/
theorem recorded_gates_wf (ops : List Clifford.Op) : GatesWF (ops.foldl (fun g op => (specStep g op).1) []) := by
  have key : ∀ (ops : List Clifford.Op) (gates : List Gate), GatesWF gates →
      GatesWF (ops.foldl (fun g op => (specStep g op).1) gates) := by
    intro ops
    induction ops with
    | nil => intro gates h; exact h
    | cons op ops ih => intro gates h; exact ih _ (specStep_wf gates h op)
  exact key ops [] (fun g hg => by cases hg)

/-- **The tableau of a circuit acts as its gates one after the other** (last gate first: `U† P U`, `U = g_L ⋯ g_1`),
for every well-formed gate record on any number of qubits: whenever `to_symplectic_form` returns `t`,
`apply(P, t)` is the identity tableau followed by the embedded adjoint-gate tableaux in reverse order. -/
theorem circuit_sequential (gates : List Gate) (hwf : GatesWF gates) (t : Tab) (h : symplecticOf gates = .ok t) :
    ∃ n, Clifford.numQubit gates = .ok n ∧ t.n = n ∧
      ∀ p, applyOnPauli p t = gates.reverse.foldl (gateAct n) (applyOnPauli p (Tab.id n)) :=
  symplecticOf_sequential' gates hwf dagger_tableaux_symplectic t h

/-! ### end to end: the tableau answer is conjugation by the unitary of the exported circuit (C03), every `n` -/

section conj
open Matrix
variable {R : Type} [CommRing R]

/-- **One placed gate, every register size.**  For each of X, Y, Z, H, S (any qubit) and CX, CY, CZ (any ordered pair of
distinct qubits) of an `n`-qubit register and every phased Pauli `P`: `P · G = G · Q`, where `G` is the operator C03
assigns to the exported gate (`embed` of the one-qubit matrix, `ctrlEmbed` of X/Y/Z controlled by the first index; `h` is
the normalisation of `H`) and `Q` the answer of the gate's embedded adjoint tableau; `Q` is again an `n`-qubit Pauli. -/
theorem gate_conjugation_placed {I : R} (hI : I * I = -1) (h : R) (n : Nat) (g : Gate)
    (hlen : g.idx.length = g.key.arity) (hnd : g.idx.Nodup) (hlt : ∀ q ∈ g.idx, q < n)
    (p : PauliB) (hp : p.v < 4 ^ n) :
    PM n I p * gateMatrixN I h n g = gateMatrixN I h n g * PM n I (gateAct n p g) ∧ (gateAct n p g).v < 4 ^ n :=
  gate_conjugation hI h n g hlen hnd hlt p hp

/-- **End to end, any commutative ring with `I² = −1`** (no division, no star): for every well-formed recorded gate list and
every phased Pauli `P` on its `n` qubits, `P · U = U · answer`, `answer = apply_clifford_on_pauli(P, to_symplectic_form())`,
`U = circuitUnitary` = ordered product of the exported gates' operators. -/
theorem circuit_conjugation_intertwine {I : R} (hI : I * I = -1) (h : R) (gates : List Gate) (hwf : GatesWF gates)
    (t : Tab) (ht : symplecticOf gates = .ok t) :
    ∃ n, Clifford.numQubit gates = .ok n ∧ t.n = n ∧ ∀ p : PauliB, p.v < 4 ^ n →
      PM n I p * circuitUnitary I h n gates = circuitUnitary I h n gates * PM n I (applyOnPauli p t) :=
  circuit_conjugation_all hI h gates hwf t ht

/-- the exported universal circuit (`to_universal_circuit`) is accepted by C03's index resolution … -/
theorem export_compiles (I h : R) (gates : List Gate) (hwf : GatesWF gates) (n : Nat) (hn : Clifford.numQubit gates = .ok n) :
    ∃ ops : List (Numqi.Op n R), compileCircuit n (gates.map (exportRaw I h)) = some ops :=
  compileCircuit_export_isSome I h n gates hwf (fun g hg q hq => numQubit_spec hn g hg q hq)

/-- … and `U` is literally C03's `Circuit.to_unitary` of it: `P · toUnitary = toUnitary · answer`. -/
theorem circuit_conjugation_toUnitary {I : R} (hI : I * I = -1) (h : R) (gates : List Gate) (hwf : GatesWF gates)
    (t : Tab) (ht : symplecticOf gates = .ok t) :
    ∃ n, Clifford.numQubit gates = .ok n ∧ t.n = n ∧
      ∀ ops : List (Numqi.Op n R), compileCircuit n (gates.map (exportRaw I h)) = some ops →
        ∀ p : PauliB, p.v < 4 ^ n →
          PM n I p * Matrix.of (toUnitary ops) = Matrix.of (toUnitary ops) * PM n I (applyOnPauli p t) :=
  Clifford.circuit_conjugation_toUnitary hI h gates hwf t ht

/-- **the export the driver executes** (`exportRawG`, over ℤ[i] with the unnormalised `H` array, op `exportraw`) **is the
ring-generic `exportRaw` at `R = ℤ[i]`, `I = i`, `h = 1`** — so the two theorems above, read at that ring, are statements about
the executed constant: -/
theorem export_executed_eq (g : Gate) : exportRaw GInt.I (1 : GInt) g = exportRawG g := exportRaw_GInt g

/-- **the executed export is accepted by C03's index resolution** on `numQubit` qubits (the `true` the driver prints) -/
theorem export_compiles_executed (gates : List Gate) (hwf : GatesWF gates) (n : Nat) (hn : Clifford.numQubit gates = .ok n) :
    (compileCircuit n (gates.map exportRawG)).isSome = true := by
  obtain ⟨ops, h⟩ := export_compiles GInt.I (1 : GInt) gates hwf n hn
  have e : gates.map (exportRaw GInt.I (1 : GInt)) = gates.map exportRawG := List.map_congr_left (fun g _ => exportRaw_GInt g)
  rw [e] at h
  rw [h]; rfl

/-- **… and C03's `toUnitary` of the executed export conjugates every Pauli to the simulator's answer** (over ℤ[i]; the
unnormalised `H` only scales `U`, which cancels in `P·U = U·P'`) -/
theorem circuit_conjugation_executed_export (gates : List Gate) (hwf : GatesWF gates) (t : Tab) (ht : symplecticOf gates = .ok t) :
    ∃ n, Clifford.numQubit gates = .ok n ∧ t.n = n ∧
      ∀ ops : List (Numqi.Op n GInt), compileCircuit n (gates.map exportRawG) = some ops →
        ∀ p : PauliB, p.v < 4 ^ n →
          PM n GInt.I p * Matrix.of (toUnitary ops) = Matrix.of (toUnitary ops) * PM n GInt.I (applyOnPauli p t) := by
  obtain ⟨n, h1, h2, h3⟩ := Clifford.circuit_conjugation_toUnitary GInt.I_mul_I (1 : GInt) gates hwf t ht
  refine ⟨n, h1, h2, fun ops hc => h3 ops ?_⟩
  have e : gates.map (exportRaw GInt.I (1 : GInt)) = gates.map exportRawG := List.map_congr_left (fun g _ => exportRaw_GInt g)
  rw [e]; exact hc

/-! ### `random_one_qubit_gate` / `random_two_qubit_gate`: a scripted raw draw selects an ordinary method call -/

/-- the op a random call performs is the no-op `I` or an ordinary one-qubit append … -/
theorem random_one_is_method_call (k : Nat) (q : Int) :
    randomOneOp k q = .gateI ∨ ∃ key : GateKey, key.arity = 1 ∧ randomOneOp k q = .append key [q] := randomOneOp_cases k q

/-- … a successful draw `1 ≤ k < 6` records `_single_gate_list[k]` on the qubit **and drops the cache** -/
theorem random_one_records (st : St) (k : Nat) (hk1 : 1 ≤ k) (hk : k < 6) (q : Nat) :
    ∃ key, singleGateList.getD k none = some key ∧
      step st (randomOneOp k (q : Int)) = ({ gates := st.gates ++ [⟨key, [q]⟩], cache := none }, .unit) :=
  randomOneOp_records st k hk1 hk q

/-- the two-qubit version is an ordinary two-qubit append; its early `assert index0 != index1` has the recorder's outcome -/
theorem random_two_is_method_call (k : Nat) (a b : Int) :
    (∃ key : GateKey, key.arity = 2 ∧ randomTwoOp k a b = .append key [a, b])
    ∧ ∀ st : St, step st (randomTwoOp k a a) = (st, .err .assert) :=
  ⟨randomTwoOp_is_append k a b, fun st => randomTwoOp_equal_indices st k a⟩

/-- a successful two-qubit draw `k < 3` on distinct qubits records `_two_qubit_gate_list[k]` on `(a, b)` **in this order** and drops the cache -/
theorem random_two_records (st : St) (k : Nat) (hk : k < 3) (a b : Nat) (hab : a ≠ b) :
    ∃ key, twoGateList[k]? = some key ∧
      step st (randomTwoOp k (a : Int) (b : Int)) = ({ gates := st.gates ++ [⟨key, [a, b]⟩], cache := none }, .unit) :=
  randomTwoOp_records st k hk a b hab

/-- draws consumed by `random_two_qubit_gate` (op `r2draws`): none when the early `assert index0 != index1` fires, one otherwise -/
theorem random_two_draws (a b : Int) : randomTwoDraws a a = 0 ∧ (a ≠ b → randomTwoDraws a b = 1) := randomTwoDraws_spec a b

/-- **`history_independent` covers the random-gate methods**: histories whose calls are ordinary ops, `random_one_qubit_gate`
(draw, index) or `random_two_qubit_gate` (draw, indices), in any order -/
theorem history_independent_random (calls : List (Clifford.Op ⊕ (Nat × Int) ⊕ (Nat × Int × Int))) :
    let ops := calls.map (Sum.elim id (Sum.elim (fun x => randomOneOp x.1 x.2) (fun x => randomTwoOp x.1 x.2.1 x.2.2)))
    run St.init ops = specRun [] ops := history_independent _

/-- the unitary of the exported circuit is unitary (star ring, `star I = −I`, `h` real with `2h² = 1`) -/
theorem circuit_unitary_is_unitary [StarRing R] {I h : R} (hI : I * I = -1) (hs : star I = -I) (hh : star h = h)
    (h2 : 2 * (h * h) = 1) (n : Nat) (gates : List Gate) (hwf : GatesWF gates) :
    circuitUnitary I h n gates ∈ Matrix.unitaryGroup (Bits n) R :=
  circuitUnitary_unitary hI hs hh h2 n gates hwf

/-- **`circuit_conjugation`.**  Over a commutative star ring with `I² = −1`, `star I = −I` and a real `h` with `2h² = 1`
(`ℂ`, `Complex.I`, `1/√2`): for every well-formed recorded `CliffordCircuit` gate list on `n` qubits and every phased
Pauli `P`, the tableau simulator's answer is the F2 form of `U† P U`, `U` the unitary of the exported universal circuit —
phase included, for all `n`. -/
theorem circuit_conjugation [StarRing R] {I h : R} (hI : I * I = -1) (hs : star I = -I) (hh : star h = h)
    (h2 : 2 * (h * h) = 1) (gates : List Gate) (hwf : GatesWF gates) (t : Tab) (ht : symplecticOf gates = .ok t) :
    ∃ n, Clifford.numQubit gates = .ok n ∧ t.n = n ∧ ∀ p : PauliB, p.v < 4 ^ n →
      (circuitUnitary I h n gates)ᴴ * PM n I p * circuitUnitary I h n gates = PM n I (applyOnPauli p t) :=
  circuit_conjugation_star hI hs hh h2 gates hwf t ht

/-! ### tableau extraction (`clifford_array_to_F2`) -/

/-- `clifford_array_to_F2` returns the tableau stored (`tabOfImages`) from the images `U X_q U†`, `U Z_q U†` that
`from_full_matrix` recognises -/
theorem arrayToF2_returns_tabOfImages {k : Nat} {U : Clifford.Mat} {T : Tab} (h : arrayToF2 k U = some T) :
    ∃ imgs : List PauliB, imgs.length = 2 * k ∧ T = tabOfImages k imgs ∧
      ∀ j, j < 2 * k → ofFullMatrix k ((Clifford.Mat.mul (2 ^ k) U (Clifford.Mat.dagger (2 ^ k) U)).get 0 0)
        (Clifford.Mat.mul (2 ^ k) (Clifford.Mat.mul (2 ^ k) U (pauliMat k (genPauli k (j % k) (decide (k ≤ j))))) (Clifford.Mat.dagger (2 ^ k) U))
          = some (imgs.getD j ⟨false, false, 0⟩) :=
  arrayToF2_spec h

/-- **Tableau extraction is sound.**  If the stored images `W_j` are Hermitian, the stored tableau is symplectic, and
`U g_j = W_j U` for the `2n` generators (`W_j = U g_j U†`), then for every phased Pauli `U P = apply(P, T) U`:
`apply_clifford_on_pauli(P, clifford_array_to_F2(U))` is the F2 form of `U P U†`. -/
theorem array_to_F2_sound {n : Nat} {I : R} (hI : I * I = -1) (imgs : List PauliB)
    (hherm : ∀ j, j < 2 * n → (imgs.getD j ⟨false, false, 0⟩).s1 =
      (cnt n (imgs.getD j ⟨false, false, 0⟩).v ((imgs.getD j ⟨false, false, 0⟩).v >>> n) % 2 == 1))
    (hsp : (tabOfImages n imgs).colSp = true) (U : Matrix (Bits n) (Bits n) R)
    (himg : ∀ j, j < 2 * n → U * PM n I (gen j) = PM n I (imgs.getD j ⟨false, false, 0⟩) * U)
    (p : PauliB) (hp : p.v < 4 ^ n) :
    U * PM n I p = PM n I (applyOnPauli p (tabOfImages n imgs)) * U :=
  tableau_of_images hI imgs hherm hsp U himg p hp

/-- the same with a unitary `U`: `U P U† = apply(P, T)` -/
theorem array_to_F2_sound_unitary [StarRing R] {n : Nat} {I : R} (hI : I * I = -1) (imgs : List PauliB)
    (hherm : ∀ j, j < 2 * n → (imgs.getD j ⟨false, false, 0⟩).s1 =
      (cnt n (imgs.getD j ⟨false, false, 0⟩).v ((imgs.getD j ⟨false, false, 0⟩).v >>> n) % 2 == 1))
    (hsp : (tabOfImages n imgs).colSp = true) (U : Matrix (Bits n) (Bits n) R) (hU : U * Uᴴ = 1)
    (himg : ∀ j, j < 2 * n → U * PM n I (gen j) * Uᴴ = PM n I (imgs.getD j ⟨false, false, 0⟩))
    (p : PauliB) (hp : p.v < 4 ^ n) :
    U * PM n I p * Uᴴ = PM n I (applyOnPauli p (tabOfImages n imgs)) :=
  tableau_of_images_unitary hI imgs hherm hsp U hU himg p hp

end conj

/-- the hypotheses of `circuit_conjugation` hold in `ℂ` with `I = Complex.I`, `h = 1/√2` -/
example : Complex.I * Complex.I = -1 ∧ star Complex.I = -Complex.I ∧
    star ((Real.sqrt 2)⁻¹ : ℂ) = ((Real.sqrt 2)⁻¹ : ℂ) ∧
    2 * (((Real.sqrt 2)⁻¹ : ℂ) * ((Real.sqrt 2)⁻¹ : ℂ)) = 1 := by
  refine ⟨Complex.I_mul_I, Complex.conj_I, ?_, ?_⟩
  · rw [← Complex.ofReal_inv]; exact Complex.conj_ofReal _
  · rw [← Complex.ofReal_inv, ← Complex.ofReal_mul, ← mul_inv, Real.mul_self_sqrt (by norm_num)]
    norm_num

/-! ### success: the end-to-end theorems are not conditional -/

/-- **`clifford_multiply` returns** (the `assert` of `clifford.py:66` holds) whenever the sizes agree and `S_y` is symplectic -/
theorem multiply_returns (x y : Tab) (hn : x.n = y.n) (hy : y.colSp = true) : (multiply x y).isSome = true :=
  multiply_isSome x y hn hy

/-- **`to_symplectic_form` returns for every well-formed non-empty gate record** (in particular for every record produced by
method calls, `recorded_gates_wf`) -/
theorem to_symplectic_form_returns (gates : List Gate) (hne : gates ≠ []) (hwf : GatesWF gates) :
    ∃ t, symplecticOf gates = .ok t := symplecticOf_ok gates hne hwf

/-- **`circuit_conjugation`, unconditional**: every non-empty well-formed record has a tableau `t` on `n` qubits, and `U† P U = apply(P, t)` -/
theorem circuit_conjugation_total {R : Type} [CommRing R] [StarRing R] {I h : R} (hI : I * I = -1) (hs : star I = -I)
    (hh : star h = h) (h2 : 2 * (h * h) = 1) (gates : List Gate) (hne : gates ≠ []) (hwf : GatesWF gates) :
    ∃ t n, symplecticOf gates = .ok t ∧ Clifford.numQubit gates = .ok n ∧ t.n = n ∧ ∀ p : PauliB, p.v < 4 ^ n →
      (circuitUnitary I h n gates).conjTranspose * PM n I p * circuitUnitary I h n gates = PM n I (applyOnPauli p t) := by
  obtain ⟨t, ht⟩ := symplecticOf_ok gates hne hwf
  obtain ⟨n, h1, h3, h4⟩ := circuit_conjugation_star hI hs hh h2 gates hwf t ht
  exact ⟨t, n, ht, h1, h3, h4⟩

/-! ### automorphism; the two symplectic conditions -/

/-- a symplectic tableau preserves the symplectic form … -/
theorem apply_preserves_form (t : Tab) (h : t.colSp = true) (v w : Nat) :
    (om t.n (matVec t.cols v (2 * t.n)) (matVec t.cols w (2 * t.n)) +
      om t.n (matVec t.cols w (2 * t.n)) (matVec t.cols v (2 * t.n))) % 2 = (om t.n v w + om t.n w v) % 2 :=
  form_preserved t h v w

/-- … and acts **bijectively** on the `n`-qubit phased Paulis: with `apply_hom` a phase-exact *automorphism* -/
theorem apply_automorphism (t : Tab) (h : t.colSp = true) (hc : ∀ j, j < 2 * t.n → t.cols.getD j 0 < 4 ^ t.n) :
    Set.BijOn (fun p => applyOnPauli p t) {p : PauliB | p.v < 4 ^ t.n} {p : PauliB | p.v < 4 ^ t.n} :=
  apply_bijOn t h hc

/-- **C09's `isSp` (`S Λ Sᵀ = Λ`, rows) implies C07's `colSp` (`Sᵀ Λ S = Λ`, columns)** for the tableau with that `cli_mat` -/
theorem colSp_of_isSp (n r : Nat) (M : List Nat) (h : SpF2.isSp n M = true) :
    (Tab.mk n r (colsOfRows (2 * n) M)).colSp = true := by
  obtain ⟨hwf, hsp⟩ := (SpF2.isSp_iff n M).1 h
  exact colSp_of_rowsSp n r M hwf hsp

/-! ### the executed dense constants are the matrices of the theorems -/

section dense
variable {R : Type} [CommRing R]

/-- the operator executed by the driver op `opmat` (C03's `embed`/`ctrlEmbed` of the exported gate over ℤ[i], tied to
`Circuit.to_unitary`) is `gateMatrixN` (with `H` unnormalised) entry by entry under `ℤ[i] → R` -/
theorem executed_gate_operator (I : R) (n : Nat) (g : Gate) :
    gateMatrixN I 1 n g = Matrix.of (fun x y => gintTo I (gateOpG n g x y)) := gateMatrixN_eq_gateOpG I n g

/-- the Pauli matrix executed by the driver op `paulimat` (C08's `matExp` over ℤ[i], tied to `full_matrix`) is `PM` -/
theorem executed_pauli_matrix {I : R} (hI : I * I = -1) (n : Nat) (p : PauliB) :
    PM n I p = Matrix.of (fun x y => gintTo I (pauliEntG n p x y)) := PM_eq_pauliEntG hI n p

/-- the list-of-lists `pauliMat k p` used by `arrayToF2` / the kernel tables is C08's matrix **for every `k`** -/
theorem pauliMat_is_C08 {I : R} (hI : I * I = -1) (k : Nat) (p : PauliB) : toMatrix k I (pauliMat k p) = PM k I p :=
  toMatrix_pauliMat hI k p

/-- **`clifford_array_to_F2` as executed (driver op `a2f`) is sound**: whenever it returns `T` for the integer matrix `U`
(`U U† = γ·1`, `γ` a unit of `R`), `T` is symplectic and `U · P = apply(P, T) · U` for every phased Pauli on `k` qubits -/
theorem array_to_F2_executed_sound [StarRing R] {I : R} (hI : I * I = -1) (hs : star I = -I) (hne : (1 : R) ≠ -1)
    {k : Nat} {U : Clifford.Mat} {T : Tab} (h : arrayToF2 k U = some T)
    (hγ : IsUnit (gintTo I ((Clifford.Mat.mul (2 ^ k) U (Clifford.Mat.dagger (2 ^ k) U)).get 0 0)))
    (p : PauliB) (hp : p.v < 4 ^ k) :
    T.colSp = true ∧ toMatrix k I U * PM k I p = PM k I (applyOnPauli p T) * toMatrix k I U :=
  arrayToF2_sound_executed hI hs hne h hγ p hp

end dense

/-- non-vacuity: the executed extraction on `√2·H` over `ℂ` (`γ = 2`) -/
example (p : PauliB) (hp : p.v < 4 ^ 1) :
    toMatrix 1 Complex.I GateKey.H.mat * PM 1 Complex.I p =
      PM 1 Complex.I (applyOnPauli p ⟨1, 0, [2, 1]⟩) * toMatrix 1 Complex.I GateKey.H.mat := by
  have h : arrayToF2 1 GateKey.H.mat = some ⟨1, 0, [2, 1]⟩ := by decide +kernel
  have hc : (Clifford.Mat.mul (2 ^ 1) GateKey.H.mat (Clifford.Mat.dagger (2 ^ 1) GateKey.H.mat)).get 0 0 = ⟨2, 0⟩ := by
    decide +kernel
  refine (array_to_F2_executed_sound Complex.I_mul_I Complex.conj_I ?_ h ?_ p hp).2
  · intro e; have := congrArg Complex.re e; norm_num at this
  · rw [hc]; simp [gintTo]

/-! ### C19 (QEC model) ↔ C07 / C08 / C03: one set of objects -/

/-- C19's mask operator `i^k X^x Z^z` and its image `ofMP` in C07 denote the same element of C08's `Pauli n` -/
theorem qec_pauli_agree {n : Nat} (p : Qec.MP) (hx : p.x < 2 ^ n) :
    toPauli n (ofMP n p) = Qec.toPauli n p := toPauli_ofMP p hx

/-- C19's product on masks is `mulB` (= C08's `Pauli.mul`), phase included -/
theorem qec_mul_is_mulB {n : Nat} (hn : n ≤ 32) (a b : Qec.MP) (hax : a.x < 2 ^ n) (hbx : b.x < 2 ^ n) :
    ofMP n (Qec.MP.mul a b) = mulB n (ofMP n a) (ofMP n b) := ofMP_mul hn a b hax hbx

/-- C19's anticommutation test is the negation of C08's commutation test -/
theorem qec_acomm_is_not_commutes {n : Nat} (hn : n ≤ 32) (a b : Qec.MP) (hax : a.x < 2 ^ n) (hbx : b.x < 2 ^ n) :
    Qec.MP.acomm a b = !(Pauli.commutes (Qec.toPauli n a) (Qec.toPauli n b)) :=
  acomm_iff_not_commutes hn a b hax hbx

/-- **C19's gate step on state vectors is multiplication by C03's operator of the same gate** (`embed` / `ctrlEmbed`,
`H` unnormalised as in C19), under `basis state b ↦ position Σ b_i 2^i` -/
theorem qec_gate_is_C03_operator {R : Type} [CommRing R] {n : Nat} (I : R) (g : Qec.Gate)
    (hg : Qec.gateOk n g = true) (g' : Gate) (hg' : toGate g = some g') (v : Nat → R) (x : Bits n) :
    Qec.applyGate I g v (Qec.posOf x) = (gateMatrixN I 1 n g').mulVec (fun b => v (Qec.posOf b)) x :=
  qec_applyGate_eq I g hg g' hg' v x

/-- C19's per-gate soundness as an identity of C03/C08 matrices: `G · P = (conj1 P g) · G` -/
theorem qec_conj1_matrix {R : Type} [CommRing R] {n : Nat} {I : R} (hI : I * I = -1) (hn : n ≤ 32) (g : Qec.Gate)
    (hg : Qec.gateOk n g = true) (g' : Gate) (hg' : toGate g = some g') (p p' : Qec.MP)
    (h : Qec.conj1 p g = some p') (hx : p.x < 2 ^ n) (hz : p.z < 2 ^ n) :
    gateMatrixN I 1 n g' * PM n I (ofMP n p) = PM n I (ofMP n p') * gateMatrixN I 1 n g' :=
  conj1_matrix hI hn g hg g' hg' p p' h hx hz

/-- **tableau steps agree**: C19's `conj1` (`P ↦ G P G†`) is undone by C07's adjoint-gate tableau of the same gate
(`gateAct`: `P' ↦ G† P' G`), bit for bit, for every register size `n ≤ 32` -/
theorem qec_tableau_step_inverse {n : Nat} (hn : n ≤ 32) (g : Qec.Gate) (hg : Qec.gateOk n g = true) (g' : Gate)
    (hg' : toGate g = some g') (p p' : Qec.MP) (h : Qec.conj1 p g = some p') (hx : p.x < 2 ^ n) (hz : p.z < 2 ^ n) :
    gateAct n (ofMP n p') g' = ofMP n p := conj1_gateAct hn g hg g' hg' p p' h hx hz

/-- **C19's `tableau_is_conjugation` and C07's `circuit_conjugation` are about the same objects**: if C19 propagates `P`
through a gate list to `P'` (`= U P U†`), C07's tableau of the same recorded circuit maps `P'` back to `P` (`= U† P' U`) -/
theorem qec_tableau_inverse {n : Nat} (hn : n ≤ 32) (gs : List Qec.Gate) (hg : gs.all (Qec.gateOk n) = true)
    (gates : List Gate) (hgs : gs.mapM toGate = some gates) (hnq : Clifford.numQubit gates = .ok n)
    (t : Tab) (ht : symplecticOf gates = .ok t) (hwf : GatesWF gates)
    (p p' : Qec.MP) (h : Qec.conjCirc p gs = some p') (hx : p.x < 2 ^ n) (hz : p.z < 2 ^ n) :
    applyOnPauli (ofMP n p') t = ofMP n p :=
  conjCirc_tableau hn gs hg gates hgs hnq t ht hwf p p' h hx hz

/-! ### orbits of Pauli index sets under Sp(2n,F2) (`get_pauli_subset_equivalent`, `get_pauli_subset_stabilizer`) -/

/-- **the enumerated orbit is the full Sp(2n,F2)-orbit**: the image of the index set under *every* symplectic matrix is
among the images produced by the loop over `from_int_tuple` (C09 `from_to`) … -/
theorem pauli_subset_orbit_complete (n : Nat) (subset : List Nat) (S : List Nat) (hS : SpF2.isSp n S = true) :
    subsetImage n S (firstElement subset) ∈ orbitImages n subset := orbit_complete n subset S hS

/-- … and every image produced comes from a symplectic matrix -/
theorem pauli_subset_orbit_sound (n : Nat) (subset : List Nat) (img : List Nat) (h : img ∈ orbitImages n subset) :
    ∃ S, SpF2.isSp n S = true ∧ img = subsetImage n S (firstElement subset) := orbit_sound n subset img h

/-- the set returned by `get_pauli_subset_equivalent` is `{first_element} ∪ images` -/
theorem pauli_subset_equivalent_mem (n : Nat) (subset : List Nat) (x : List Nat) :
    x ∈ subsetEquivalent n subset ↔ x = firstElement subset ∨ x ∈ orbitImages n subset :=
  mem_subsetEquivalent n subset x

/-- `get_pauli_subset_stabilizer` returns exactly the in-range tuples whose matrix fixes the set … -/
theorem pauli_subset_stabilizer_mem (n : Nat) (subset : List Nat) (t : List (Nat × Nat)) :
    t ∈ subsetStabilizer n subset ↔ (t.length = n ∧ SpF2.inRange t = true) ∧
      subsetImage n (SpF2.fromIntTuple t) (firstElement subset) = firstElement subset :=
  mem_subsetStabilizer n subset t

/-- … and every symplectic matrix fixing the set is the matrix of one of them (the full stabiliser) -/
theorem pauli_subset_stabilizer_complete (n : Nat) (subset : List Nat) (S : List Nat) (hS : SpF2.isSp n S = true)
    (hfix : subsetImage n S (firstElement subset) = firstElement subset) :
    ∃ t ∈ subsetStabilizer n subset, SpF2.fromIntTuple t = S := stabilizer_complete n subset S hS hfix

example : subsetEquivalent 1 [1] = [[1], [3], [2]] ∧ subsetStabilizer 1 [1] = [[(0, 0)], [(0, 1)]] := by decide +kernel

/-- all 24 one-qubit tableaux: Sp(2,F2) (enumerated by `from_int_tuple`) × all 4 phase vectors -/
def tabs1 : List Tab :=
  ((SpF2.allTuples 1).map SpF2.fromIntTuple).flatMap fun S => (List.range 4).map fun r => ⟨1, r, S⟩

/-! ### the hypotheses are satisfiable, the statements are not vacuous -/

example : run St.init [.append .H [0], .query, .append .S [0], .query] =
    [.unit, .tab ⟨1, 0, [2, 1]⟩, .unit, .tab ⟨1, 0, [3, 1]⟩] := by decide +kernel
/-- rejected arguments leave the object unchanged; a query on the empty object raises -/
example : run St.init [.query, .append .CX [0, 0], .append .X [-1], .exportCirc] =
    [.err .value, .err .assert, .err .assert, .gates []] := by decide +kernel
/-- `H`: X ↦ Z, and `-Y`: the phase is tracked -/
example : applyOnPauli ⟨false, false, 1⟩ (dagTable .H) = ⟨false, false, 2⟩ ∧
    applyOnPauli ⟨false, true, 3⟩ (dagTable .H) = ⟨true, true, 3⟩ := by decide
example : tabs1.length = 24 ∧ (allPaulis 2).length = 64 ∧ (placements 2 2).length = 2 := by decide +kernel
/-- the hypotheses of `apply_hom` / `multiply_apply` hold for all 24 one-qubit tableaux, and `clifford_multiply` returns on them -/
example : tabs1.all (fun x => x.colSp && tabs1.all fun y => (multiply x y).isSome) = true := by decide +kernel
/-- a non-symplectic matrix is rejected by `colSp` -/
example : Tab.colSp ⟨1, 0, [1, 1]⟩ = false := by decide
/-- `X·Z = -iY` on the binary form -/
example : mulB 1 ⟨false, false, 1⟩ ⟨false, false, 2⟩ = ⟨false, false, 3⟩ ∧
    mulB 1 ⟨false, false, 2⟩ ⟨false, false, 1⟩ = ⟨true, false, 3⟩ := by decide

end Numqi.C07
