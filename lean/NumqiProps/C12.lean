/-
C12 — channel representations are equivalent and channels are contractive.

Property theorems only.  Index theorems hold over every commutative star-ring `R` (hence ℂ and ℝ), for all
`dim_in`, `dim_out` and numbers of Kraus terms.  Conjugation of the model (`conj`) is `star` here.
-/
import NumqiProofs.Channel
import NumqiProofs.ChannelBloch
import NumqiProofs.ChannelSpectral
import NumqiProofs.ChannelContract
import NumqiProps.C16
import Mathlib.Analysis.Real.Sqrt
import Mathlib.Data.Complex.Basic

namespace Numqi.C12
open Numqi Numqi.Channel Finset

variable {R : Type} [CommRing R] [StarRing R]

/-! ## conversions -/

/-- **Choi operator of a Kraus set**: `C[(i,a),(j,b)] = Σ_s K[s,a,i]·conj K[s,b,j]`. -/
theorem choi_of_kraus (N dout : ℕ) (K : ℕ → ℕ → ℕ → R) (i a j b : ℕ) (ha : a < dout) (hb : b < dout) :
    krausToChoi N dout K (i * dout + a) (j * dout + b) = ∑ s ∈ range N, K s a i * star (K s b j) := by
  simp only [krausToChoi, sumRange_eq_sum, div_of_lt ha, mod_of_lt ha, div_of_lt hb, mod_of_lt hb, conj_eq_star]

/-- **Super-operator of a Kraus set**: `S[(a,b),(i,j)] = Σ_s K[s,a,i]·conj K[s,b,j]` (`= Σ_s K_s ⊗ conj K_s`). -/
theorem super_of_kraus (N din dout : ℕ) (K : ℕ → ℕ → ℕ → R) (a b i j : ℕ) (hb : b < dout) (hj : j < din) :
    krausToSuper N din dout K (a * dout + b) (i * din + j) = ∑ s ∈ range N, K s a i * star (K s b j) := by
  simp only [krausToSuper, sumRange_eq_sum, div_of_lt hb, mod_of_lt hb, div_of_lt hj, mod_of_lt hj, conj_eq_star]

/-- Kraus → Choi → super-operator equals Kraus → super-operator. -/
theorem choiToSuper_krausToChoi (N din dout : ℕ) (K : ℕ → ℕ → ℕ → R) (r c : ℕ) (hr : r < dout * dout) :
    choiToSuper din dout (krausToChoi N dout K) r c = krausToSuper N din dout K r c := by
  have h1 := div_lt_of_lt_mul hr
  have h2 := mod_lt_of_lt_mul hr
  simp only [choiToSuper, krausToChoi, krausToSuper, div_of_lt h1, mod_of_lt h1, div_of_lt h2, mod_of_lt h2]

/-- **`super_op_to_choi_op ∘ choi_op_to_super_op = id`** (the permutations `(1,3,0,2)` and `(2,0,3,1)` are inverse). -/
theorem superToChoi_choiToSuper (din dout : ℕ) (C : ℕ → ℕ → R) (x y : ℕ) (hy : y < din * dout) :
    superToChoi din dout (choiToSuper din dout C) x y = C x y := by
  have hpos : 0 < dout := Nat.pos_of_ne_zero (by rintro rfl; simp at hy)
  have h1 : y % dout < dout := Nat.mod_lt _ hpos
  have h2 : y / dout < din := (Nat.div_lt_iff_lt_mul hpos).2 hy
  simp only [superToChoi, choiToSuper, div_of_lt h1, mod_of_lt h1, div_of_lt h2, mod_of_lt h2, Nat.div_add_mod']

/-- **`choi_op_to_super_op ∘ super_op_to_choi_op = id`**. -/
theorem choiToSuper_superToChoi (din dout : ℕ) (S : ℕ → ℕ → R) (r c : ℕ) (hr : r < dout * dout) (hc : c < din * din) :
    choiToSuper din dout (superToChoi din dout S) r c = S r c := by
  have h1 := div_lt_of_lt_mul hr
  have h2 := mod_lt_of_lt_mul hr
  have h4 := mod_lt_of_lt_mul hc
  simp only [superToChoi, choiToSuper, div_of_lt h1, mod_of_lt h1, div_of_lt h2, mod_of_lt h2, Nat.div_add_mod']

/-- Choi → super → Choi and then applying is the same channel: `apply_super (choi_to_super C) = apply_choi C`, for every operator `C`. -/
theorem applySuper_choiToSuper (din dout : ℕ) (C ρ : ℕ → ℕ → R) (a b : ℕ) (hb : b < dout) :
    applySuper din dout (choiToSuper din dout C) ρ a b = applyChoi din dout C ρ a b := by
  simp only [applySuper, applyChoi, sumRange_eq_sum, sum_range_mul]
  refine sum_congr rfl fun i _ => sum_congr rfl fun j hj => ?_
  have hj' := mem_range.1 hj
  simp only [choiToSuper, div_of_lt hb, mod_of_lt hb, div_of_lt hj', mod_of_lt hj']

/-- `apply_choi (super_to_choi S) = apply_super S`, for every operator `S`. -/
theorem applyChoi_superToChoi (din dout : ℕ) (S ρ : ℕ → ℕ → R) (a b : ℕ) (ha : a < dout) (hb : b < dout) :
    applyChoi din dout (superToChoi din dout S) ρ a b = applySuper din dout S ρ a b := by
  simp only [applySuper, applyChoi, sumRange_eq_sum, sum_range_mul]
  refine sum_congr rfl fun i _ => sum_congr rfl fun j hj => ?_
  have hj' := mem_range.1 hj
  simp only [superToChoi, div_of_lt ha, mod_of_lt ha, div_of_lt hb, mod_of_lt hb, div_of_lt hj', mod_of_lt hj']

/-! ## the three `apply_*` routines agree on every state -/

/-- **`apply_choi_op (kraus_op_to_choi_op K) ρ = apply_kraus_op K ρ`** for every `ρ`. -/
theorem applyChoi_eq_applyKraus (N din dout : ℕ) (K : ℕ → ℕ → ℕ → R) (ρ : ℕ → ℕ → R) (a b : ℕ) (ha : a < dout) (hb : b < dout) :
    applyChoi din dout (krausToChoi N dout K) ρ a b = applyKraus N din K ρ a b := by
  simp only [applyChoi, applyKraus, sumRange_eq_sum, choi_of_kraus N dout K _ a _ b ha hb, conj_eq_star]
  simp only [sum_mul]
  symm
  rw [sum_comm (s := range N)]
  refine sum_congr rfl fun i _ => ?_
  rw [sum_comm (s := range N)]
  exact sum_congr rfl fun j _ => sum_congr rfl fun s _ => by ring

/-- **`apply_super_op (kraus_op_to_super_op K) ρ = apply_kraus_op K ρ`** for every `ρ`. -/
theorem applySuper_eq_applyKraus (N din dout : ℕ) (K : ℕ → ℕ → ℕ → R) (ρ : ℕ → ℕ → R) (a b : ℕ) (hb : b < dout) :
    applySuper din dout (krausToSuper N din dout K) ρ a b = applyKraus N din K ρ a b := by
  simp only [applySuper, applyKraus, sumRange_eq_sum, sum_range_mul]
  have : ∀ i ∈ range din, ∀ j ∈ range din,
      krausToSuper N din dout K (a * dout + b) (i * din + j) * ρ ((i * din + j) / din) ((i * din + j) % din)
        = ∑ s ∈ range N, K s a i * ρ i j * star (K s b j) := by
    intro i _ j hj
    have hj' := mem_range.1 hj
    rw [super_of_kraus N din dout K a b i j hb hj', div_of_lt hj', mod_of_lt hj', sum_mul]
    exact sum_congr rfl fun s _ => by ring
  rw [sum_congr rfl fun i hi => sum_congr rfl fun j hj => this i hi j hj]
  symm
  rw [sum_comm (s := range N)]
  refine sum_congr rfl fun i _ => ?_
  rw [sum_comm (s := range N)]
  rfl

/-- **Kraus operators recovered from a Choi operator reproduce it**, given the `eigh` contract
`C = Σ_s (V w)_s (V w)_s†` on the columns kept after the `zero_eps` cut (`w` real: `star w = w`, `w_s² = λ_s`). -/
theorem kraus_of_choi (dout N0 N : ℕ) (V : ℕ → ℕ → R) (w : ℕ → R) (C : ℕ → ℕ → R)
    (hC : ∀ x y, C x y = ∑ s ∈ range N, (V x (N0 + s) * w (N0 + s)) * star (V y (N0 + s) * w (N0 + s)))
    (x y : ℕ) : krausToChoi N dout (choiToKraus dout N0 V w) x y = C x y := by
  simp only [krausToChoi, choiToKraus, sumRange_eq_sum, Nat.div_add_mod', conj_eq_star, hC]

omit [StarRing R] in
/-- `hf_channel_to_choi_op` recovers the Choi operator from the channel map. -/
theorem choiOfMap_applyChoi (din dout : ℕ) (C : ℕ → ℕ → R) (x y : ℕ) (hx : x < din * dout) (hy : y < din * dout) :
    choiOfMap dout (applyChoi din dout C) x y = C x y := by
  have hpos : 0 < dout := Nat.pos_of_ne_zero (by rintro rfl; simp at hy)
  have hxi : x / dout < din := (Nat.div_lt_iff_lt_mul hpos).2 hx
  have hyi : y / dout < din := (Nat.div_lt_iff_lt_mul hpos).2 hy
  simp only [choiOfMap, applyChoi, sumRange_eq_sum]
  rw [sum_eq_single (x / dout)]
  · rw [sum_eq_single (y / dout)]
    · simp [Nat.div_add_mod']
    · intro j _ hj; simp [hj]
    · intro h; exact absurd (mem_range.2 hyi) h
  · intro i _ hi
    exact sum_eq_zero fun j _ => by simp [hi]
  · intro h; exact absurd (mem_range.2 hxi) h

omit [StarRing R] in
/-- `hf_channel_to_kraus_op` first tabulates the super-operator of the map: for `Φ = apply_choi_op(C, ·)` that is `choi_op_to_super_op(C)`. -/
theorem superOfMap_applyChoi (din dout : ℕ) (C : ℕ → ℕ → R) (r c : ℕ) (hc : c < din * din) :
    superOfMap din dout (applyChoi din dout C) r c = choiToSuper din dout C r c := by
  have hpos : 0 < din := Nat.pos_of_ne_zero (by rintro rfl; simp at hc)
  have h1 : c / din < din := (Nat.div_lt_iff_lt_mul hpos).2 hc
  have h2 : c % din < din := Nat.mod_lt _ hpos
  simp only [superOfMap, applyChoi, choiToSuper, sumRange_eq_sum]
  rw [sum_eq_single (c / din)]
  · rw [sum_eq_single (c % din)]
    · simp
    · intro j _ hj; simp [hj]
    · intro h; exact absurd (mem_range.2 h2) h
  · intro i _ hi
    exact sum_eq_zero fun j _ => by simp [hi]
  · intro h; exact absurd (mem_range.2 h1) h

/-! ## complete positivity and trace preservation -/

/-- the Choi operator of a Kraus set is Hermitian … -/
theorem choi_hermitian (N dout : ℕ) (K : ℕ → ℕ → ℕ → R) (x y : ℕ) :
    star (krausToChoi N dout K x y) = krausToChoi N dout K y x := by
  simp only [krausToChoi, sumRange_eq_sum, conj_eq_star, star_sum, star_mul', star_star]
  exact sum_congr rfl fun s _ => mul_comm _ _

/-- … and positive semidefinite: its quadratic form is a sum of `star z · z` (complete positivity in Kraus form). -/
theorem choi_psd_form (N dout n : ℕ) (K : ℕ → ℕ → ℕ → R) (v : ℕ → R) :
    ∑ x ∈ range n, ∑ y ∈ range n, star (v x) * krausToChoi N dout K x y * v y
      = ∑ s ∈ range N, star (∑ x ∈ range n, star (K s (x % dout) (x / dout)) * v x)
          * (∑ y ∈ range n, star (K s (y % dout) (y / dout)) * v y) := by
  simp only [krausToChoi, sumRange_eq_sum, conj_eq_star, star_sum, star_mul', star_star]
  simp only [Finset.sum_mul_sum]
  simp only [mul_sum, sum_mul]
  symm
  rw [sum_comm (s := range N)]
  refine sum_congr rfl fun x _ => ?_
  rw [sum_comm (s := range N)]
  exact sum_congr rfl fun y _ => sum_congr rfl fun s _ => by ring

/-- **Trace preservation**: if `Σ_s K_s† K_s = 1` then `tr Φ(ρ) = tr ρ` for every `ρ`. -/
theorem trace_preserving (N din dout : ℕ) (K : ℕ → ℕ → ℕ → R) (ρ : ℕ → ℕ → R)
    (hTP : ∀ i j, i < din → j < din → krausGram N dout K i j = if i = j then 1 else 0) :
    ∑ a ∈ range dout, applyKraus N din K ρ a a = ∑ i ∈ range din, ρ i i := by
  have key : ∑ a ∈ range dout, applyKraus N din K ρ a a
      = ∑ i ∈ range din, ∑ j ∈ range din, ρ i j * krausGram N dout K j i := by
    simp only [applyKraus, krausGram, sumRange_eq_sum, conj_eq_star, mul_sum]
    rw [sum_comm]
    conv_lhs => enter [2, s]; rw [sum_comm]; enter [2, i]; rw [sum_comm]
    rw [sum_comm]
    refine sum_congr rfl fun i _ => ?_
    rw [sum_comm]
    refine sum_congr rfl fun j _ => ?_
    refine sum_congr rfl fun s _ => sum_congr rfl fun a _ => by ring
  rw [key]
  refine sum_congr rfl fun i hi => ?_
  rw [sum_eq_single i]
  · rw [hTP i i (mem_range.1 hi) (mem_range.1 hi)]; simp
  · intro j hj hne
    rw [hTP j i (mem_range.1 hj) (mem_range.1 hi), if_neg hne, mul_zero]
  · intro h; exact absurd hi h

/-! ## built-in noise channels are trace preserving for every rate -/

/-- dephasing: `Σ K†K = 1` whenever the two (real) coefficients satisfy `c0² + c1² = 1` … -/
theorem dephasing_tp (c0 c1 : R) (h0 : star c0 = c0) (h1 : star c1 = c1) (h : c0 * c0 + c1 * c1 = 1) (i j : ℕ)
    (hi : i < 2) (hj : j < 2) : krausGram 2 2 (dephasingKraus c0 c1) i j = if i = j then 1 else 0 := by
  interval_cases i <;> interval_cases j <;>
    simp [krausGram, sumRange, dephasingKraus, mat2, conj_eq_star, h0, h1] <;> linear_combination h

/-- … which holds for `c0 = √(1-p)`, `c1 = √p` and every rate `p ∈ [0,1]`. -/
theorem dephasing_tp_real (p : ℝ) (hp0 : 0 ≤ p) (hp1 : p ≤ 1) (i j : ℕ) (hi : i < 2) (hj : j < 2) :
    krausGram 2 2 (dephasingKraus (√(1 - p)) (√p)) i j = if i = j then 1 else 0 :=
  dephasing_tp _ _ (star_trivial _) (star_trivial _)
    (by rw [Real.mul_self_sqrt (by linarith), Real.mul_self_sqrt hp0]; ring) i j hi hj

/-- depolarising: `Σ K†K = 1` whenever `c0² + 3 c1² = 1` (`im` the imaginary unit) … -/
theorem depolarizing_tp (im c0 c1 : R) (him : im * im = -1) (hims : star im = -im) (h0 : star c0 = c0) (h1 : star c1 = c1)
    (h : c0 * c0 + 3 * (c1 * c1) = 1) (i j : ℕ) (hi : i < 2) (hj : j < 2) :
    krausGram 4 2 (depolarizingKraus im c0 c1) i j = if i = j then 1 else 0 := by
  interval_cases i <;> interval_cases j <;>
    simp [krausGram, sumRange, depolarizingKraus, mat2, conj_eq_star, h0, h1, hims] <;>
    linear_combination h - (c1 * c1) * him

/-- … which holds over ℂ for `c0 = √(1-3p/4)`, `c1 = √(p/4)` and every rate `p ∈ [0,1]` (indeed `p ≤ 4/3`). -/
theorem depolarizing_tp_complex (p : ℝ) (hp0 : 0 ≤ p) (hp1 : p ≤ 1) (i j : ℕ) (hi : i < 2) (hj : j < 2) :
    krausGram 4 2 (depolarizingKraus Complex.I ((√(1 - 3 * p / 4) : ℝ) : ℂ) ((√(p / 4) : ℝ) : ℂ)) i j
      = if i = j then 1 else 0 := by
  refine depolarizing_tp _ _ _ Complex.I_mul_I (Complex.conj_I) (Complex.conj_ofReal _) (Complex.conj_ofReal _) ?_ i j hi hj
  rw [← Complex.ofReal_mul, ← Complex.ofReal_mul, Real.mul_self_sqrt (by linarith), Real.mul_self_sqrt (by linarith)]
  push_cast; ring

/-- amplitude damping: `Σ K†K = 1` whenever `c0² + c1² = 1` … -/
theorem amplitude_damping_tp (c0 c1 : R) (h0 : star c0 = c0) (h1 : star c1 = c1) (h : c0 * c0 + c1 * c1 = 1) (i j : ℕ)
    (hi : i < 2) (hj : j < 2) : krausGram 2 2 (amplitudeDampingKraus c0 c1) i j = if i = j then 1 else 0 := by
  interval_cases i <;> interval_cases j <;>
    simp [krausGram, sumRange, amplitudeDampingKraus, mat2, conj_eq_star, h0, h1] <;> linear_combination h

/-- … which holds for `c0 = √(1-p)`, `c1 = √p` and every rate `p ∈ [0,1]`. -/
theorem amplitude_damping_tp_real (p : ℝ) (hp0 : 0 ≤ p) (hp1 : p ≤ 1) (i j : ℕ) (hi : i < 2) (hj : j < 2) :
    krausGram 2 2 (amplitudeDampingKraus (√(1 - p)) (√p)) i j = if i = j then 1 else 0 :=
  amplitude_damping_tp _ _ (star_trivial _) (star_trivial _)
    (by rw [Real.mul_self_sqrt (by linarith), Real.mul_self_sqrt hp0]; ring) i j hi hj

/-! ## the Bloch map (`choi_op_to_bloch_map`), on top of the Gell-Mann theorems of C16 -/

section bloch
open Numqi.Gellmann Matrix

/-- **`choi_op_to_bloch_map` returns the affine map of Bloch vectors**: for every `dim_in, dim_out ≥ 1`, every Hermitian
Choi operator `C` (Hermiticity-preserving map, in particular every channel), every Hermitian input `ρ` of trace one and every
component `ν`: `r(Φρ)_ν = Σ_μ A[ν,μ]·r(ρ)_μ + b_ν`, where `r = dm_to_gellmann_basis`, `Φρ = apply_choi_op(C, ρ)` and
`(A, b) = choi_op_to_bloch_map(C)`.  Scalars: any `Sin`, `Sout` satisfying the relations of the exact square roots for
`din`, `dout` (ℂ with the real roots: `C16.exists_valid_complex`). -/
theorem bloch_map_affine {din dout : ℕ} (Sin Sout : Scalars R) (hSin : Sin.Valid din) (hSout : Sout.Valid dout)
    (hdin : 1 ≤ din) (hdout : 1 ≤ dout) (C ρ : ℕ → ℕ → R) (hC : ∀ x y, star (C x y) = C y x)
    (hρH : (Matrix.of (fun i j : Fin din => ρ i.val j.val))ᴴ = Matrix.of (fun i j : Fin din => ρ i.val j.val))
    (hρtr : ∑ l : Fin din, ρ l.val l.val = 1) {ν : ℕ} (hν : ν < dout * dout - 1) :
    (dmToVec Sout dout (fun a b : Fin dout => applyChoi din dout C ρ a.val b.val) false).getD ν 0
      = (∑ μ ∈ range (din * din - 1),
          blochA Sin Sout din dout C ν μ * (dmToVec Sin din (fun i j : Fin din => ρ i.val j.val) false).getD μ 0)
        + blochB Sin Sout din dout C ν :=
  bloch_affine Sin Sout hSin hSout hdin hdout C ρ hρH hρtr
    (fun μ ν' hμ hν' => blochX_real Sin Sout hSin hSout hdin hdout C hC μ ν' hμ hν') hν

/-- the complex-linear core without any Hermiticity assumption: every Gell-Mann coefficient of the output is the stated
combination of the coefficients of the input (before `.real`) -/
theorem bloch_map_coefficients {din dout : ℕ} (Sin Sout : Scalars R) (hSin : Sin.Valid din) (hSout : Sout.Valid dout)
    (hdin : 1 ≤ din) (hdout : 1 ≤ dout) (C ρ : ℕ → ℕ → R) {ν : ℕ} (hν : ν < dout * dout) :
    (analysis Sout dout (fun a b : Fin dout => applyChoi din dout C ρ a.val b.val)).getD ν 0
      = ∑ μ ∈ range (din * din), ((analysis Sin din (fun i j : Fin din => ρ i.val j.val)).getD μ 0 * 2)
          * blochX Sout dout (blochTmp1 Sin din dout C) μ ν :=
  coef_applyChoi Sin Sout hSin hSout hdin hdout C ρ hν

/-- the Choi operator of any Kraus set satisfies the Hermiticity hypothesis of `bloch_map_affine` -/
theorem bloch_hypothesis_of_kraus (N dout : ℕ) (K : ℕ → ℕ → ℕ → R) (x y : ℕ) :
    star (krausToChoi N dout K x y) = krausToChoi N dout K y x := choi_hermitian N dout K x y

/-- non-vacuity: valid scalars exist over ℂ for every pair of dimensions -/
example : ∃ Sin Sout : Scalars ℂ, Sin.Valid 3 ∧ Sout.Valid 5 :=
  ⟨complexScalars 3, complexScalars 5, C16.exists_valid_complex (by norm_num), C16.exists_valid_complex (by norm_num)⟩

end bloch

/-! ## ranges at the eigenvalue level (the `eigvalsh` / `eigh` contract: the spectrum is a probability vector)

`entropySpec`, `fidelitySpec`, `relEntropySpec` are what `get_von_neumann_entropy`, `get_fidelity`, `get_relative_entropy` compute
after the eigen-decomposition; for commuting (simultaneously diagonal) states that is the whole function.  The statements are
for the exact clipping level `eps = 0`; the code clips at machine epsilon (`entropy_clipped_nonneg` covers the lower bound
with clipping).  **The data-processing inequalities for non-commuting states remain probe-only.** -/

section spectral
open Real

/-- **`0 ≤ S(ρ) ≤ log d`** for every probability vector of eigenvalues. -/
theorem entropy_range {d : ℕ} (hd : 0 < d) (p : Fin d → ℝ) (hp : ∀ i, 0 ≤ p i) (hsum : ∑ i, p i = 1) :
    0 ≤ entropySpec 0 (List.ofFn p) ∧ entropySpec 0 (List.ofFn p) ≤ Real.log d := by
  rw [entropySpec_zero p hp]
  exact ⟨entropy_nonneg' p hp hsum, entropy_le_log' hd p hp hsum⟩

/-- the lower bound survives the clipping `maximum(EVL, eps)` of the code (any `0 ≤ eps ≤ 1`, eigenvalues `≤ 1`) -/
theorem entropy_clipped_nonneg (eps : ℝ) (heps0 : 0 ≤ eps) (heps1 : eps ≤ 1) (evl : List ℝ) (h1 : ∀ x ∈ evl, x ≤ 1) :
    0 ≤ entropySpec eps evl := entropySpec_clipped_nonneg eps heps0 heps1 evl h1

/-- **fidelity of commuting states** is `(Σ √(p_i q_i))²`, hence **symmetric** … -/
theorem fidelity_commuting_symm {d : ℕ} (p q : Fin d → ℝ) (hp : ∀ i, 0 ≤ p i) (hq : ∀ i, 0 ≤ q i) :
    fidelitySpec (List.ofFn p) (List.ofFn q) = (∑ i, √(p i) * √(q i)) ^ 2 ∧
    fidelitySpec (List.ofFn p) (List.ofFn q) = fidelitySpec (List.ofFn q) (List.ofFn p) := by
  refine ⟨fidelitySpec_eq p q hp hq, ?_⟩
  rw [fidelitySpec_eq p q hp hq, fidelitySpec_eq q p hq hp]
  congr 1
  exact sum_congr rfl fun i _ => mul_comm _ _

/-- … and **in `[0,1]`** for probability vectors (Cauchy–Schwarz). -/
theorem fidelity_commuting_range {d : ℕ} (p q : Fin d → ℝ) (hp : ∀ i, 0 ≤ p i) (hq : ∀ i, 0 ≤ q i)
    (hsp : ∑ i, p i = 1) (hsq : ∑ i, q i = 1) :
    0 ≤ fidelitySpec (List.ofFn p) (List.ofFn q) ∧ fidelitySpec (List.ofFn p) (List.ofFn q) ≤ 1 := by
  rw [fidelitySpec_eq p q hp hq]
  have h0 : 0 ≤ ∑ i, √(p i) * √(q i) := sum_nonneg fun i _ => mul_nonneg (Real.sqrt_nonneg _) (Real.sqrt_nonneg _)
  have h1 := bc_le_one p q hp hq hsp hsq
  exact ⟨sq_nonneg _, by nlinarith⟩

/-- **relative entropy of commuting states is non-negative** (Gibbs' inequality), full-rank second argument. -/
theorem relative_entropy_commuting_nonneg {d : ℕ} (p q : Fin d → ℝ) (hp : ∀ i, 0 ≤ p i) (hq : ∀ i, 0 < q i)
    (hsp : ∑ i, p i = 1) (hsq : ∑ i, q i = 1) : 0 ≤ relEntropySpec 0 (List.ofFn p) (List.ofFn q) := by
  unfold relEntropySpec
  rw [listSum_zip_ofFn p q (fun pq => pq.1 * Analytic.log (Analytic.max 0 pq.2)),
    listSum_ofFn p (fun x => Analytic.max 0 x * Analytic.log (Analytic.max 0 x)), ← sum_neg_distrib, ← sum_add_distrib]
  have hterm : ∀ i, p i - q i ≤ -(p i * Analytic.log (Analytic.max 0 (q i)))
      + Analytic.max 0 (p i) * Analytic.log (Analytic.max 0 (p i)) := by
    intro i
    show p i - q i ≤ -(p i * Real.log (max 0 (q i))) + max 0 (p i) * Real.log (max 0 (p i))
    rw [max_eq_right (hq i).le, max_eq_right (hp i)]
    have := gibbs_term (p i) (q i) (hp i) (hq i)
    linarith
  calc (0 : ℝ) = ∑ i, (p i - q i) := by rw [sum_sub_distrib, hsp, hsq, sub_self]
    _ ≤ _ := sum_le_sum fun i _ => hterm i

/-! ### trace distance and Rényi entropy (spectral level), classical data processing

`get_trace_distance` / `get_Renyi_entropy` after their `eigvalsh` call are `traceDistSpec` / `renyiSpec`.  **Contractivity**, the
second half of the property, is proved here for commuting states under classical channels: a channel that maps the common
eigenbasis of `ρ`, `σ` onto a common eigenbasis acts on the spectra as a column-stochastic matrix `M` (`pushforward M`), and then
trace distance does not increase, fidelity does not decrease, relative entropy does not increase.  **For non-commuting states the
data-processing inequalities remain probe-only.** -/

/-- **trace distance of commuting states**: `Σ|p_i − q_i|/2`, symmetric, zero on equal arguments, in `[0, 1]`. -/
theorem trace_distance_commuting_range {d : ℕ} (p q : Fin d → ℝ) (hp : ∀ i, 0 ≤ p i) (hq : ∀ i, 0 ≤ q i)
    (hsp : ∑ i, p i = 1) (hsq : ∑ i, q i = 1) :
    traceDistComm (List.ofFn p) (List.ofFn q) = (∑ i, |p i - q i|) / 2 ∧
    traceDistComm (List.ofFn p) (List.ofFn q) = traceDistComm (List.ofFn q) (List.ofFn p) ∧
    traceDistComm (List.ofFn p) (List.ofFn p) = 0 ∧
    0 ≤ traceDistComm (List.ofFn p) (List.ofFn q) ∧ traceDistComm (List.ofFn p) (List.ofFn q) ≤ 1 := by
  rw [traceDistComm_eq p q, traceDistComm_eq q p, traceDistComm_eq p p]
  refine ⟨rfl, ?_, by simp, td_nonneg p q, td_le_one p q hp hq hsp hsq⟩
  congr 1
  exact sum_congr rfl fun i _ => abs_sub_comm _ _

/-- **trace distance does not increase** under a classical channel (column-stochastic `M`), for all real vectors. -/
theorem trace_distance_classical_contractive {d e : ℕ} (M : Fin e → Fin d → ℝ) (hM : ColStochastic M) (p q : Fin d → ℝ) :
    traceDistComm (List.ofFn (pushforward M p)) (List.ofFn (pushforward M q)) ≤ traceDistComm (List.ofFn p) (List.ofFn q) := by
  rw [traceDistComm_eq, traceDistComm_eq]
  exact div_le_div_of_nonneg_right (td_mono M hM p q) (by norm_num)

/-- **fidelity does not decrease** under a classical channel (Cauchy–Schwarz row by row). -/
theorem fidelity_classical_monotone {d e : ℕ} (M : Fin e → Fin d → ℝ) (hM : ColStochastic M) (p q : Fin d → ℝ)
    (hp : ∀ i, 0 ≤ p i) (hq : ∀ i, 0 ≤ q i) :
    fidelitySpec (List.ofFn p) (List.ofFn q) ≤ fidelitySpec (List.ofFn (pushforward M p)) (List.ofFn (pushforward M q)) := by
  rw [fidelitySpec_eq p q hp hq, fidelitySpec_eq _ _ (pushforward_nonneg hM hp) (pushforward_nonneg hM hq)]
  have h0 : 0 ≤ ∑ i, √(p i) * √(q i) := sum_nonneg fun i _ => mul_nonneg (Real.sqrt_nonneg _) (Real.sqrt_nonneg _)
  exact pow_le_pow_left₀ h0 (bc_mono M hM p q hp hq) 2

/-- **relative entropy does not increase** under a classical channel (log-sum inequality), full-rank second argument. -/
theorem relative_entropy_classical_monotone {d e : ℕ} (M : Fin e → Fin d → ℝ) (hM : ColStochastic M) (p q : Fin d → ℝ)
    (hp : ∀ i, 0 ≤ p i) (hq : ∀ i, 0 < q i) :
    relEntropySpec 0 (List.ofFn (pushforward M p)) (List.ofFn (pushforward M q)) ≤ relEntropySpec 0 (List.ofFn p) (List.ofFn q) := by
  rw [relEntropySpec_eq p q hp (fun i => (hq i).le),
    relEntropySpec_eq _ _ (pushforward_nonneg hM hp) (pushforward_nonneg hM fun i => (hq i).le)]
  exact kl_mono M hM p q hp hq

/-- a classical channel maps probability vectors to probability vectors -/
theorem classical_channel_preserves_simplex {d e : ℕ} (M : Fin e → Fin d → ℝ) (hM : ColStochastic M) (p : Fin d → ℝ)
    (hp : ∀ i, 0 ≤ p i) (hsum : ∑ i, p i = 1) : (∀ i, 0 ≤ pushforward M p i) ∧ ∑ i, pushforward M p i = 1 :=
  ⟨pushforward_nonneg hM hp, by rw [pushforward_sum hM, hsum]⟩

/-- extension of a `Fin`-indexed matrix / vector to `ℕ` indices (zero outside), the indexing of the channel model -/
noncomputable def natM {d e : ℕ} (M : Fin e → Fin d → ℝ) (i j : ℕ) : ℝ := if h : i < e ∧ j < d then M ⟨i, h.1⟩ ⟨j, h.2⟩ else 0
noncomputable def natV {d : ℕ} (p : Fin d → ℝ) (j : ℕ) : ℝ := if h : j < d then p ⟨j, h⟩ else 0

/-- **the classical channels of the monotonicity theorems are channels of the Kraus model**: `apply_kraus_op` with the
measure-and-prepare Kraus set `K_(i,j) = √M_ij |i⟩⟨j|` maps the diagonal state `diag(p)` to the diagonal state `diag(pushforward M p)`
(`applyKraus` is the model of `numqi.channel.apply_kraus_op`, tied by op `apk`; the harness executes this instance, counter `classical-channel`). -/
theorem applyKraus_classical_channel {d e : ℕ} (M : Fin e → Fin d → ℝ) (hM : ColStochastic M) (p : Fin d → ℝ) (a b : Fin e) :
    applyKraus (e * d) d (classicalKraus d (natM M)) (fun i j => if i = j then natV p i else 0) a b
      = if a = b then pushforward M p a else 0 := by
  have hnn : ∀ i j, 0 ≤ natM M i j := fun i j => by
    unfold natM; split
    · exact hM.1 _ _
    · exact le_refl _
  rw [applyKraus_classical d e (natM M) hnn (natV p) a b a.2 b.2]
  by_cases hab : a = b
  · subst hab
    rw [if_pos rfl, if_pos rfl]
    unfold pushforward
    rw [← Fin.sum_univ_eq_sum_range (fun j => natM M a j * natV p j) d]
    refine sum_congr rfl fun j _ => ?_
    simp [natM, natV, a.2, j.2]
  · rw [if_neg (fun h => hab (Fin.ext h)), if_neg hab]

/-- … and that Kraus set is **trace preserving** exactly because the columns of `M` sum to one: `Σ_s K_s† K_s = 1` -/
theorem classical_channel_trace_preserving {d e : ℕ} (M : Fin e → Fin d → ℝ) (hM : ColStochastic M) (i j : Fin d) :
    krausGram (e * d) e (classicalKraus d (natM M)) i j = if i = j then 1 else 0 := by
  have hnn : ∀ i j, 0 ≤ natM M i j := fun i j => by
    unfold natM; split
    · exact hM.1 _ _
    · exact le_refl _
  rw [krausGram_classical d e (natM M) hnn i j i.2 j.2]
  by_cases hij : i = j
  · subst hij
    rw [if_pos rfl, if_pos rfl, ← hM.2 i, ← Fin.sum_univ_eq_sum_range (fun a => natM M a i) e]
    refine sum_congr rfl fun a _ => ?_
    simp [natM, a.2, i.2]
  · rw [if_neg (fun h => hij (Fin.ext h)), if_neg hij]

/-- **`0 ≤ S_α(ρ) ≤ log d`** for every order `α > 0`, `α ≠ 1` and every probability vector of eigenvalues. -/
theorem renyi_range {d : ℕ} (hd : 0 < d) (α : ℝ) (h0 : 0 < α) (hne : α ≠ 1) (p : Fin d → ℝ) (hp : ∀ i, 0 ≤ p i)
    (hsum : ∑ i, p i = 1) :
    0 ≤ renyiSpec α (List.ofFn p) ∧ renyiSpec α (List.ofFn p) ≤ Real.log d := by
  rw [renyiSpec_eq α p hp]
  exact renyi_range' hd α h0 hne p hp hsum

/-- the eigenvalue clip `maximum(EVL, 0)` of the code: round-off negative eigenvalues of a low-rank state count as zero (without it a
negative eigenvalue raised to a fractional power is NaN — repaired defect `renyi-entropy-nan`, numqi c3f38eb) -/
theorem renyi_clip (α : ℝ) (evl : List ℝ) : renyiSpec α evl = renyiSpec α (evl.map fun x => max x 0) := renyiSpec_clip α evl

/-- non-vacuity: a column-stochastic matrix that is not a permutation -/
example : ColStochastic (fun (_ : Fin 2) (_ : Fin 3) => (1 / 2 : ℝ)) := ⟨fun _ _ => by norm_num, fun _ => by simp⟩

/-- non-vacuity of the spectral hypotheses -/
example : ∃ p : Fin 2 → ℝ, (∀ i, 0 ≤ p i) ∧ ∑ i, p i = 1 := ⟨fun _ => 1 / 2, fun _ => by norm_num, by simp⟩

end spectral

/-! ## `super_op_to_kraus_op`, the `zero_eps` cut, purity -/

/-- **Kraus operators recovered from a super-operator implement it**: `super_op_to_kraus_op(S)` hands `superToChoi S` to `eigh`; given
the `eigh` contract for that matrix on the columns kept after the cut, the returned Kraus set acts as `apply_super_op(S, ·)`. -/
theorem kraus_of_super (din dout N0 N : ℕ) (V : ℕ → ℕ → R) (w : ℕ → R) (S ρ : ℕ → ℕ → R)
    (hC : ∀ x y, superToChoi din dout S x y = ∑ s ∈ range N, (V x (N0 + s) * w (N0 + s)) * star (V y (N0 + s) * w (N0 + s)))
    (a b : ℕ) (ha : a < dout) (hb : b < dout) :
    applyKraus N din (choiToKraus dout N0 V w) ρ a b = applySuper din dout S ρ a b := by
  rw [← applyChoi_eq_applyKraus N din dout _ ρ a b ha hb, ← applyChoi_superToChoi din dout S ρ a b ha hb]
  simp only [applyChoi, sumRange_eq_sum]
  exact sum_congr rfl fun i _ => sum_congr rfl fun j _ => by
    rw [kraus_of_choi dout N0 N V w (superToChoi din dout S) hC]

/-- the integer cut `x ≤ 0` the exact tie uses is the code's `EVL < zero_eps` for every threshold in `(0, 1]` -/
theorem cutCount_eq_below (eps : ℚ) (h0 : 0 < eps) (h1 : eps ≤ 1) (evl : List ℤ) :
    cutCount evl = cutCountBelow (fun x e => decide (x < e)) eps (evl.map (Int.cast : ℤ → ℚ)) := by
  have key : ∀ x : ℤ, decide (x ≤ 0) = decide ((x : ℚ) < eps) := by
    intro x
    rw [decide_eq_decide]
    constructor
    · intro h; have : (x : ℚ) ≤ 0 := by exact_mod_cast h
      linarith
    · intro h
      by_contra hx
      have h2 : (1 : ℤ) ≤ x := by omega
      have : (1 : ℚ) ≤ x := by exact_mod_cast h2
      linarith
  unfold cutCount cutCountBelow
  induction evl with
  | nil => rfl
  | cons x l ih =>
    simp only [List.map_cons, List.filter_cons, key x]
    split <;> simp [ih]

/-- the cut keeps exactly the last `n − N0` entries of an ascending eigenvalue list: every kept eigenvalue is `≥ eps` -/
theorem cutCountBelow_sorted (eps : ℚ) (evl : List ℚ) (hs : evl.Pairwise (· ≤ ·)) (k : ℕ) (hk : k < evl.length)
    (hcut : cutCountBelow (fun x e => decide (x < e)) eps evl ≤ k) : eps ≤ evl[k] := by
  unfold cutCountBelow at hcut
  simp only at hcut
  by_contra hlt
  rw [not_le] at hlt
  -- every entry up to position k is below eps, so at least k+1 entries are counted
  have hall : ∀ i (hi : i < evl.length), i ≤ k → evl[i] < eps := fun i hi hik => by
    rcases Nat.lt_or_eq_of_le hik with h | h
    · exact lt_of_le_of_lt (List.pairwise_iff_getElem.1 hs i k hi hk h) hlt
    · subst h; exact hlt
  have hsub : (evl.take (k + 1)).filter (fun x => decide (x < eps)) = evl.take (k + 1) := by
    rw [List.filter_eq_self]
    intro x hx
    obtain ⟨i, hi, rfl⟩ := List.getElem_of_mem hx
    rw [List.length_take] at hi
    rw [List.getElem_take]
    simpa using hall i (by omega) (by omega)
  have hlen : k + 1 ≤ (evl.filter fun x => decide (x < eps)).length := by
    have h1 : ((evl.take (k + 1)).filter fun x => decide (x < eps)).length ≤ (evl.filter fun x => decide (x < eps)).length :=
      (List.Sublist.filter _ (List.take_sublist _ _)).length_le
    rw [hsub, List.length_take] at h1
    omega
  omega

/-- on a Hermitian matrix (the documented domain of `get_purity`) `vdot(ρ,ρ)` is `tr(ρ·ρ)` — the alternative kept as a comment in the source -/
theorem purity_hermitian (n : ℕ) (ρ : ℕ → ℕ → R) (hH : ∀ i j, star (ρ j i) = ρ i j) :
    purity n ρ = ∑ i ∈ range n, ∑ j ∈ range n, ρ i j * ρ j i := by
  simp only [purity, sumRange_eq_sum, conj_eq_star]
  exact sum_congr rfl fun i _ => sum_congr rfl fun j _ => by rw [hH j i, mul_comm]

/-- bookkeeping: **purity** is `tr(ρ† ρ)` (order of summation) -/
theorem purity_eq_trace (n : ℕ) (ρ : ℕ → ℕ → R) :
    purity n ρ = ∑ j ∈ range n, ∑ i ∈ range n, star (ρ i j) * ρ i j := by
  simp only [purity, sumRange_eq_sum, conj_eq_star]
  exact sum_comm

/-- non-vacuity: the index hypotheses are satisfiable and the maps are not constant (ℤ with trivial star) -/
example : krausToChoi 1 2 (fun _ a i => ((10 * a + i + 1 : ℕ) : ℤ)) (1 * 2 + 1) (0 * 2 + 1) = 12 * 11 := by
  simp [krausToChoi, sumRange, conj_eq_star]

end Numqi.C12
