/-
C04 (angles) — the gradient with respect to the *angles*: `θ ↦ U(θ)` composed with the reverse sweep.

`NumqiProps/C04.lean` proves that the reverse sweep returns the exact dual-number derivative of the circuit map with
respect to the gate *matrices*.  What the optimiser receives is the derivative with respect to the angles, obtained by
torch autograd through the gate constructors `hf0(θ)` (`numqi/gate/_internal.py`, torch branch — the same formulas as
the numpy branch modelled in `NumqiModel/Gates.lean`).  Here:

* the derivative of a parametrised gate is *defined* as the ε-coefficient of the **same constructor** evaluated over the
  dual numbers `R[ε]/(ε²)` at the dual angle pair `(c − ε κ s, s + ε κ c)` (`κ` = chain factor, ½ for half angles);
  it equals the arrays `Gates.drx …` the driver evaluates (`rx_dual` …) and the closed forms `−iκ·G·gate(θ)`
  (`drx_closed` …);
* `angle_gradient`: for a circuit whose parametrised slots are vocabulary constructors of angles `θ_j` (shared angles
  allowed, inside one slot and across slots; placeholder parameters are just angles supplied from outside), pairing the
  operator gradients delivered by the reverse sweep with `dGate_slot/dθ_j` gives the ε-coefficient of
  `⟪g, F(θ + ε e_j)⟫` — the true partial derivative.

`R` is any commutative star ring; `I` any element (the closed forms need `I*I = -1`).
-/
import NumqiProps.C04
import NumqiProps.C03Gates

namespace Numqi.C04
open Numqi Numqi.Backward Numqi.C03 Function Matrix Finset TrivSqZeroExt

set_option linter.unnecessarySeqFocus false
variable {R : Type} [CommRing R]

/-! ### dual angle pairs -/

/-- the pair of the angle moved by `ε·dir`: `(c, s) ↦ (c − ε κ dir s, s + ε κ dir c)` -/
def CS.dual (κ dir : R) (p : CS R) : CS (DualNumber R) :=
  ⟨inl p.c + inr (-(κ * dir * p.s)), inl p.s + inr (κ * dir * p.c)⟩

/-- the dual pair stays on the circle: it is the pair of a (dual) angle -/
theorem CS.dual_norm (κ dir : R) (p : CS R) (hp : p.c * p.c + p.s * p.s = 1) :
    (CS.dual κ dir p).c * (CS.dual κ dir p).c + (CS.dual κ dir p).s * (CS.dual κ dir p).s = 1 := by
  apply TrivSqZeroExt.ext
  · simp [CS.dual, hp]
  · simp [CS.dual]; ring

/-! ### the ε-coefficient of each constructor is the derivative array the driver evaluates -/

theorem rx_dual (I κ : R) (h : CS R) :
    (Gates.rx (inl I) (CS.dual κ 1 h)).map fst = Gates.rx I h ∧
    (Gates.rx (inl I) (CS.dual κ 1 h)).map snd = Gates.drx I κ h := by
  constructor <;> simp [Gates.rx, Gates.drx, CS.dual]

theorem ry_dual (κ : R) (h : CS R) :
    (Gates.ry (CS.dual κ 1 h)).map fst = Gates.ry h ∧
    (Gates.ry (CS.dual κ 1 h)).map snd = Gates.dry κ h := by
  constructor <;> simp [Gates.ry, Gates.dry, CS.dual]

theorem rz_dual (I κ : R) (h : CS R) :
    (Gates.rz (inl I) (CS.dual κ 1 h)).map fst = Gates.rz I h ∧
    (Gates.rz (inl I) (CS.dual κ 1 h)).map snd = Gates.drz I κ h := by
  constructor <;> simp [Gates.rz, Gates.drz, CS.dual]

theorem rzz_dual (I κ : R) (h : CS R) :
    (Gates.rzz (inl I) (CS.dual κ 1 h)).map fst = Gates.rzz I h ∧
    (Gates.rzz (inl I) (CS.dual κ 1 h)).map snd = Gates.drzz I κ h := by
  constructor <;> simp [Gates.rzz, Gates.drzz, CS.dual]


/-- a pair that does not move -/
def CS.const (p : CS R) : CS (DualNumber R) := ⟨inl p.c, inl p.s⟩

/-- the three partial derivatives of `u3(θ, φ, λ)`: perturb one pair, keep the other two -/
theorem u3_dual_theta (I κ : R) (h ph la : CS R) :
    (Gates.u3 (inl I) (CS.dual κ 1 h) (CS.const ph) (CS.const la)).map fst = Gates.u3 I h ph la ∧
    (Gates.u3 (inl I) (CS.dual κ 1 h) (CS.const ph) (CS.const la)).map snd = Gates.du3Theta I κ h ph la := by
  constructor <;> simp [Gates.u3, Gates.du3Theta, CS.dual, CS.const]

theorem u3_dual_phi (I : R) (hI : I * I = -1) (h ph la : CS R) :
    (Gates.u3 (inl I) (CS.const h) (CS.dual 1 1 ph) (CS.const la)).map fst = Gates.u3 I h ph la ∧
    (Gates.u3 (inl I) (CS.const h) (CS.dual 1 1 ph) (CS.const la)).map snd = Gates.du3Phi I h ph la := by
  constructor
  · simp [Gates.u3, CS.dual, CS.const]
  · simp [Gates.u3, Gates.du3Phi, CS.dual, CS.const]
    constructor
    · linear_combination (-(h.s * ph.s) : R) * hI
    · linear_combination (-(h.c * (la.c + I * la.s) * ph.s) : R) * hI

theorem u3_dual_lambda (I : R) (hI : I * I = -1) (h ph la : CS R) :
    (Gates.u3 (inl I) (CS.const h) (CS.const ph) (CS.dual 1 1 la)).map fst = Gates.u3 I h ph la ∧
    (Gates.u3 (inl I) (CS.const h) (CS.const ph) (CS.dual 1 1 la)).map snd = Gates.du3Lambda I h ph la := by
  constructor
  · simp [Gates.u3, CS.dual, CS.const]
  · simp [Gates.u3, Gates.du3Lambda, CS.dual, CS.const]
    constructor
    · linear_combination (-(h.s * la.s) : R) * hI
    · linear_combination (-(h.c * (ph.c + I * ph.s) * la.s) : R) * hI

/-! ### closed forms: `d/dθ gate(θ) = −iκ · G · gate(θ)` with `G` the generator (`κ = ½`: `−(i/2)·G·gate`) -/

theorem drx_closed {I : R} (hI : I * I = -1) (κ : R) (h : CS R) :
    flatMat 2 (Gates.drx I κ h) = (-(I * κ)) • (flatMat 2 (Gates.X : Array R) * flatMat 2 (Gates.rx I h)) := by
  ext i j
  fin_cases i <;> fin_cases j <;>
    simp [flatMat, Gates.drx, Gates.X, Gates.rx, Matrix.mul_apply, Fin.sum_univ_two, Array.getD] <;>
    first | ring1 | linear_combination (-(κ * h.s) : R) * hI

theorem dry_closed {I : R} (hI : I * I = -1) (κ : R) (h : CS R) :
    flatMat 2 (Gates.dry κ h) = (-(I * κ)) • (flatMat 2 (Gates.Y I) * flatMat 2 (Gates.ry h)) := by
  ext i j
  fin_cases i <;> fin_cases j <;>
    simp [flatMat, Gates.dry, Gates.Y, Gates.ry, Matrix.mul_apply, Fin.sum_univ_two, Array.getD] <;>
    first
    | linear_combination (-(κ * h.s) : R) * hI
    | linear_combination (-(κ * h.c) : R) * hI
    | linear_combination (κ * h.c : R) * hI

theorem drz_closed {I : R} (hI : I * I = -1) (κ : R) (h : CS R) :
    flatMat 2 (Gates.drz I κ h) = (-(I * κ)) • (flatMat 2 (Gates.Z : Array R) * flatMat 2 (Gates.rz I h)) := by
  ext i j
  fin_cases i <;> fin_cases j <;>
    simp [flatMat, Gates.drz, Gates.Z, Gates.rz, Matrix.mul_apply, Fin.sum_univ_two, Array.getD] <;>
    first | ring1 | linear_combination (-(κ * h.s) : R) * hI

theorem drzz_closed {I : R} (hI : I * I = -1) (κ : R) (h : CS R) :
    flatMat 4 (Gates.drzz I κ h) = (-(I * κ)) • (flatMat 4 (Gates.ZZ : Array R) * flatMat 4 (Gates.rzz I h)) := by
  ext i j
  fin_cases i <;> fin_cases j <;>
    simp [flatMat, Gates.drzz, Gates.ZZ, Gates.rzz, Matrix.mul_apply, Fin.sum_univ_four, Array.getD] <;>
    first | ring1 | linear_combination (-(κ * h.s) : R) * hI


/-! ### circuits whose parametrised slots are constructors of angles -/

section families
variable {α : Type} [Zero α] [One α] [Add α] [Sub α] [Mul α] [Neg α]

/-- double-angle pair (generic in the scalar type): the full-angle pair of a half-angle pair -/
def CS.dbl (p : CS α) : CS α := ⟨p.c * p.c - p.s * p.s, p.c * p.s + p.s * p.c⟩

/-- the parametrised constructors of the vocabulary (`crx…cu3` use the same arrays inside a control entry) -/
inductive Fam where
  | rx | ry | rz | rzz | u3
deriving DecidableEq

/-- the constructor applied to the **half-angle pairs** of its angles (`u3(θ,φ,λ)`: the phases use the doubled pairs) —
one definition, instantiated at `R` (the value) and at `R[ε]` (value + derivative) -/
def Fam.array (I : α) : Fam → List (CS α) → Array α
  | .rx, [h] => Gates.rx I h
  | .ry, [h] => Gates.ry h
  | .rz, [h] => Gates.rz I h
  | .rzz, [h] => Gates.rzz I h
  | .u3, [h, hp, hl] => Gates.u3 I h (CS.dbl hp) (CS.dbl hl)
  | _, _ => #[]

/-- which constructor of which angles fills slot `(k, s)` of the stacked gate tensors; the same angle index may occur in
several slots and several times in one slot (shared parameters) -/
abbrev SlotSpec := (k : ℕ) → ℕ → Option (Fam × List ℕ)

/-- the gate tensors `Θ(θ)` handed to the circuit function -/
def paramsOf (I : α) (spec : SlotSpec) (θ : ℕ → CS α) : Params α :=
  fun k s => match spec k s with
    | some (f, js) => lookupMat (f.array I (js.map θ))
    | none => fun _ _ => 0

end families

/-- the angles `θ + ε·e_j0` as dual half-angle pairs (`κ` = chain factor of the half angle, ½) -/
def dualAngles (κ : R) (j0 : ℕ) (θ : ℕ → CS R) : ℕ → CS (DualNumber R) :=
  fun j => CS.dual κ (if j = j0 then 1 else 0) (θ j)

private theorem getD_map_fst (a : Array (DualNumber R)) (i : ℕ) : (a.getD i 0).fst = (a.map fst).getD i 0 := by
  simp only [Array.getD_eq_getD_getElem?, Array.getElem?_map]
  cases a[i]? <;> simp

private theorem dual_fst_c (κ d : R) (p : CS R) : (CS.dual κ d p).c.fst = p.c := by simp [CS.dual]
private theorem dual_fst_s (κ d : R) (p : CS R) : (CS.dual κ d p).s.fst = p.s := by simp [CS.dual]

/-- the value part of every constructor at dual angles is the constructor at the angles -/
theorem famArray_fst (I κ : R) (j0 : ℕ) (θ : ℕ → CS R) (f : Fam) (js : List ℕ) :
    (f.array (inl I) (js.map (dualAngles κ j0 θ))).map fst = f.array I (js.map θ) := by
  cases f <;> rcases js with _ | ⟨j1, _ | ⟨j2, _ | ⟨j3, _ | _⟩⟩⟩ <;>
    simp [Fam.array, Gates.rx, Gates.ry, Gates.rz, Gates.rzz, Gates.u3, CS.dbl, dualAngles, dual_fst_c, dual_fst_s]

/-- `Θ(θ + ε e_j0) = Θ(θ) + ε · ∂Θ/∂θ_j0`: the dual gate tensors are the dual-number pair (value, ε-coefficient) -/
theorem paramsOf_dual (I κ : R) (j0 : ℕ) (spec : SlotSpec) (θ : ℕ → CS R) :
    dualParams (paramsOf I spec θ) (fun k s a b => (paramsOf (inl I) spec (dualAngles κ j0 θ) k s a b).snd)
      = paramsOf (inl I) spec (dualAngles κ j0 θ) := by
  funext k s a b
  have hfst : (paramsOf (inl I) spec (dualAngles κ j0 θ) k s a b).fst = paramsOf I spec θ k s a b := by
    unfold paramsOf
    cases h : spec k s with
    | none => simp
    | some fj =>
      obtain ⟨f, js⟩ := fj
      simp only [lookupMat]
      rw [getD_map_fst, famArray_fst]
  simp only [dualParams, dualOf, ← hfst]
  exact TrivSqZeroExt.inl_fst_add_inr_snd_eq _

variable [StarRing R] {n : ℕ}

/-- **`angle_gradient`** — the derivative with respect to an angle.  Let the parametrised slots of the gate list be vocabulary
constructors of the angles `θ` (`spec`; shared angles allowed; a placeholder parameter is an angle supplied from outside),
`Θ = Θ(θ)` the gate tensors, `grad` the operator gradients returned by the reverse sweep for the cotangent `g_out`, and
`∂Θ/∂θ_j0` the ε-coefficient of the constructors at `θ + ε e_j0`.  Then
`Σ_slots ⟪grad[slot], ∂Θ[slot]/∂θ_j0⟫ = ⟪g_out, ε-coefficient of F(θ + ε e_j0)⟫`,
the right-hand side being the **same forward pass** run over `R[ε]/(ε²)` with the constructors evaluated at the dual
angles — the true partial derivative (its real part is what torch hands to the optimiser). -/
theorem angle_gradient (I κ : R) (K S : ℕ) (spec : SlotSpec) (θ : ℕ → CS R) (j0 : ℕ) (gates : List (PGate n R))
    (hwf : ∀ g ∈ gates, g.WF) (hun : ∀ g ∈ gates, g.IsUnitary (paramsOf I spec θ)) (hr : ∀ g ∈ gates, g.InRange K S)
    (ψ0 gout : Vec n R) :
    let Θ := paramsOf I spec θ
    let Θε := paramsOf (inl I) spec (dualAngles κ j0 θ)
    let out := backward Θ gates (conjVec (forward Θ gates ψ0), gout, fun _ _ _ _ => 0)
    pairing K S out.2.2 (fun k s a b => (Θε k s a b).snd)
      = vdot gout (fun x => (forward Θε (gates.map PGate.lift) (fun y => inl (ψ0 y)) x).snd) := by
  intro Θ Θε out
  have h := reverseSweep_gradient K S Θ (fun k s a b => (Θε k s a b).snd) gates hwf hun hr ψ0 (fun _ => 0) gout
    (fun _ _ _ _ => 0)
  have hd : dualParams Θ (fun k s a b => (Θε k s a b).snd) = Θε := paramsOf_dual I κ j0 spec θ
  have h0 : vdot out.2.1 (fun _ : Bits n => (0 : R)) = 0 := by
    simp [vdot, sumBits_eq_sum]
  have hp0 : pairing K S (fun _ _ _ _ => (0 : R)) (fun k s a b => (Θε k s a b).snd) = 0 := by
    simp [pairing]
  have hin : (fun y => dualOf (ψ0 y) ((fun _ => (0 : R)) y)) = fun y => (inl (ψ0 y) : DualNumber R) := by
    funext y; simp [dualOf]
  have h' : pairing K S out.2.2 (fun k s a b => (Θε k s a b).snd) + vdot out.2.1 (fun _ : Bits n => (0 : R))
      = pairing K S (fun _ _ _ _ => (0 : R)) (fun k s a b => (Θε k s a b).snd)
        + vdot gout (fun x => (forward (dualParams Θ (fun k s a b => (Θε k s a b).snd)) (gates.map PGate.lift)
            (fun y => dualOf (ψ0 y) ((fun _ => (0 : R)) y)) x).snd) := h
  rw [hd, hin, h0, hp0, add_zero, zero_add] at h'
  exact h'


/-! ### what `∂Θ[slot]/∂θ_j0` is, slot by slot -/

omit [StarRing R] in
/-- the ε-coefficient of a slot is the ε-coefficient of its constructor's array -/
theorem slot_derivative (I κ : R) (j0 : ℕ) (spec : SlotSpec) (θ : ℕ → CS R) (k s : ℕ) (f : Fam) (js : List ℕ)
    (hs : spec k s = some (f, js)) (a b : Bits k) :
    (paramsOf (inl I) spec (dualAngles κ j0 θ) k s a b).snd
      = lookupMat ((f.array (inl I) (js.map (dualAngles κ j0 θ))).map snd) a b := by
  unfold paramsOf
  rw [hs]
  simp only [lookupMat, Array.getD_eq_getD_getElem?, Array.getElem?_map]
  cases (Fam.array (inl I) f (js.map (dualAngles κ j0 θ)))[a.toNat * 2 ^ k + b.toNat]? <;> simp

omit [StarRing R] in
/-- an `rx(θ_j0)` slot: `∂Θ/∂θ_j0` is the array `Gates.drx` the driver evaluates (`= −iκ·X·rx(θ_j0)`) -/
theorem slot_derivative_rx (I κ : R) (j0 : ℕ) (spec : SlotSpec) (θ : ℕ → CS R) (k s : ℕ)
    (hs : spec k s = some (Fam.rx, [j0])) (a b : Bits k) :
    (paramsOf (inl I) spec (dualAngles κ j0 θ) k s a b).snd = lookupMat (Gates.drx I κ (θ j0)) a b := by
  rw [slot_derivative I κ j0 spec θ k s _ _ hs]
  have : (Fam.array (inl I) Fam.rx ([j0].map (dualAngles κ j0 θ))).map snd = Gates.drx I κ (θ j0) := by
    simp only [Fam.array, List.map_cons, List.map_nil, dualAngles, if_true]
    exact (rx_dual I κ (θ j0)).2
  rw [this]

omit [StarRing R] in
/-- a slot that does not use `θ_j0` has derivative zero (nothing leaks between parameters) -/
theorem slot_derivative_unused (I κ : R) (j0 : ℕ) (spec : SlotSpec) (θ : ℕ → CS R) (k s : ℕ) (f : Fam) (js : List ℕ)
    (hs : spec k s = some (f, js)) (hj : j0 ∉ js) (a b : Bits k) :
    (paramsOf (inl I) spec (dualAngles κ j0 θ) k s a b).snd = 0 := by
  rw [slot_derivative I κ j0 spec θ k s f js hs]
  have hconst : js.map (dualAngles κ j0 θ) = js.map (fun j => CS.const (θ j)) := by
    apply List.map_congr_left
    intro j hjm
    have : j ≠ j0 := fun e => hj (e ▸ hjm)
    simp [dualAngles, this, CS.dual, CS.const]
  rw [hconst]
  have hz : (Fam.array (inl I) f (js.map fun j => CS.const (θ j))).map snd
      = (Fam.array (inl I) f (js.map fun j => CS.const (θ j))).map (fun _ => (0 : R)) := by
    cases f <;> rcases js with _ | ⟨j1, _ | ⟨j2, _ | ⟨j3, _ | _⟩⟩⟩ <;>
      simp [Fam.array, Gates.rx, Gates.ry, Gates.rz, Gates.rzz, Gates.u3, CS.dbl, CS.const]
  rw [hz]
  simp only [lookupMat, Array.getD_eq_getD_getElem?, Array.getElem?_map]
  cases (Fam.array (inl I) f (js.map fun j => CS.const (θ j)))[a.toNat * 2 ^ k + b.toNat]? <;> simp

/-! ### the unitarity hypothesis of `angle_gradient` holds for constructor slots -/

theorem CS.dbl_valid {p : CS R} (hp : p.Valid) : (CS.dbl p).Valid := by
  refine ⟨?_, ?_, ?_⟩
  · simp [CS.dbl, hp.real_c, hp.real_s]
  · simp [CS.dbl, hp.real_c, hp.real_s]
  · simp only [CS.dbl]
    have h := hp.norm
    have : (p.c * p.c - p.s * p.s) * (p.c * p.c - p.s * p.s) + (p.c * p.s + p.s * p.c) * (p.c * p.s + p.s * p.c)
        = (p.c * p.c + p.s * p.s) * (p.c * p.c + p.s * p.s) := by ring
    rw [this, h, mul_one]

def Fam.qubits : Fam → ℕ
  | .rzz => 2
  | _ => 1
def Fam.arity : Fam → ℕ
  | .u3 => 3
  | _ => 1

/-- a slot filled by a constructor of valid angle pairs holds a unitary matrix (so `hun` of `angle_gradient` is automatic
for parametrised gates) -/
theorem paramsOf_unitary {I : R} (hI : ImagUnit I) (spec : SlotSpec) (θ : ℕ → CS R) (hθ : ∀ j, (θ j).Valid)
    (s : ℕ) (f : Fam) (js : List ℕ) (hs : spec f.qubits s = some (f, js)) (hlen : js.length = f.arity) :
    IsUnitaryMat (Matrix.of (paramsOf I spec θ f.qubits s)) := by
  unfold IsUnitaryMat
  rw [← Matrix.star_eq_conjTranspose, ← Matrix.mem_unitaryGroup_iff']
  unfold paramsOf
  rw [hs]
  cases f <;> rcases js with _ | ⟨j1, _ | ⟨j2, _ | ⟨j3, _ | _⟩⟩⟩ <;> simp [Fam.arity] at hlen <;>
    simp only [Fam.array, List.map_cons, List.map_nil, Fam.qubits]
  · exact lookupMat_unitary (d := 2) (k := 1) rfl _ (rx_unitary hI (hθ j1))
  · exact lookupMat_unitary (d := 2) (k := 1) rfl _ (ry_unitary (hθ j1))
  · exact lookupMat_unitary (d := 2) (k := 1) rfl _ (rz_unitary hI (hθ j1))
  · exact lookupMat_unitary (d := 4) (k := 2) rfl _ (rzz_unitary hI (hθ j1))
  · exact lookupMat_unitary (d := 2) (k := 1) rfl _
      (u3_unitary hI (hθ j1) (CS.dbl_valid (hθ j2)) (CS.dbl_valid (hθ j3)))

/-! ### non-vacuity -/

/-- the dual pair of the half angle with `κ = ½` over `ℚ`: angle pair (3/5, 4/5) moves by ε·(−2/5, 3/10) -/
example : (CS.dual (1/2 : ℚ) 1 ⟨3/5, 4/5⟩).c = inl (3/5) + inr (-(2/5)) ∧
    (CS.dual (1/2 : ℚ) 1 ⟨3/5, 4/5⟩).s = inl (4/5) + inr (3/10) := by
  constructor <;> simp [CS.dual] <;> norm_num

/-- a slot specification with a shared angle: slot 0 is `rx(θ_0)`, slot 1 is `u3(θ_0, θ_1, θ_0)` -/
example : ∃ spec : SlotSpec, spec 1 0 = some (Fam.rx, [0]) ∧ spec 1 1 = some (Fam.u3, [0, 1, 0]) :=
  ⟨fun k s => if k = 1 ∧ s = 0 then some (Fam.rx, [0]) else if k = 1 ∧ s = 1 then some (Fam.u3, [0, 1, 0]) else none,
    by simp, by simp⟩

end Numqi.C04
