/-
C10 — generated obligations: every seed-flow program extracted from the **nine anchored files** of the current numqi
source tree (`random/_internal.py`, `random/_spf2.py`, `random/_public.py`, `sim/state.py`, `sim/circuit.py`, `sim/clifford.py`,
`entangle/cha.py`, `entangle/pureb.py`, `optimize/_internal.py`; 40 functions / methods / classes on the pinned tree, listed by name in
`harness/c10.py:EXPECTED_PROGRAMS`) is seed-closed, hence reproducible from an integer seed by `Numqi.C10.noninterference`.
`NumqiModel/Generated/SeedPrograms.lean` is rewritten by `harness/c10.py:translate` before every build.
NOT covered by this obligation: the eight seeded functions outside those files (`numqi.utils.get_purification`,
`entangle.pureb_quantum.get_mps_dicke_transform_matrix`, `matrix_space.get_completed_entangled_subspace` — translated and closed;
`unique_determine.check_UD`, `_check_UD_one`, `check_UD_is_UD`, `_find_optimal_UD_one`, `find_optimal_UD` — translated and NOT closed,
reported as findings); their verdicts are in the evidence only.
-/
import NumqiProps.C10
import NumqiModel.Generated.SeedPrograms

namespace Numqi.C10
open Numqi Numqi.SeedFlow

/-- **Every function of the nine anchored files that takes a seed (or a generator, or touches one) is seed-closed**
(generated obligation: the list is rewritten by the translator before every build). -/
theorem seedClosed_all :
    ∀ p ∈ Generated.programs, seedClosed Generated.programs.length p = true := by decide +kernel

/-- the two together: every translated function is reproducible from an integer seed -/
theorem generated_reproducible (G : GenModel) (oracle : Nat → List Nat → Bool) (fuel i k : Nat)
    (hi : i < Generated.programs.length) (st st' : St) (h : st.obs = st'.obs) :
    (run G Generated.programs oracle fuel i k st).obs = (run G Generated.programs oracle fuel i k st').obs :=
  noninterference G Generated.programs oracle seedClosed_all fuel i k hi st st' h


/-- the generated list is not empty (40 functions / methods / classes on the pinned tree) and contains e.g. the
program of `rand_bipartite_state`, whose `k=None` branch hands the generator to `rand_haar_state` as its seed -/
example : 30 ≤ Generated.programs.length ∧ Generated.names.length = Generated.programs.length ∧
    "numqi.random._internal.rand_bipartite_state" ∈ Generated.names := by decide

end Numqi.C10
