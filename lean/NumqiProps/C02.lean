/-
C02 — trivializations are locally onto (full-rank differential).  **Claimed partial.**

What these theorems carry is the *counting* and the *linear layer*:
* the parameter count of every module constructor (`Numqi.Manifold.Count.*Param`, the formulas of the `__init__`s) equals the
  dimension of the manifold named by the property plus an explicit number of gauge directions — all `d`, `r`;
* the claimed rank of each Stiefel chart never exceeds its parameter count;
* the linear placements `θ ↦ generator` (SO: antisymmetric block; SU: `i·`traceless Hermitian) and `θ ↦` traceless Hermitian matrix are injective —
  in particular the repaired real Cayley/exp chart is **not** constant;
* the differentials of `exp` and of the Cayley transform at the base point are `id` and `-2·id`, and the model's order-1 Cayley chart is that map.

* for the vector charts the differential is computed and its rank proved at **every** admissible point: quotient sphere (kernel = radial line,
  rank `n-1` at every `θ ≠ 0`), softmax (kernel = constants, rank `n-1` everywhere), `to_ball` (injective differential everywhere, the origin included).

* round 6: the scalar charts (`softplus`, `exp`, open interval) have a strictly positive derivative at every point (rank 1 everywhere);
  `to_discrete_probability_sphere` has kernel = radial line and rank `n-1` at every point with no zero coordinate; the entry placements
  `θ ↦` pre-factor of `to_stiefel_polar/qr`, of `to_stiefel_choleskyL` and (up to the one scale direction) of `to_trace1_psd_cholesky` are injective
  on exactly the first `stiefelParam` / `psdParam` parameters; all four placements of `to_symmetric_matrix` (real/complex × full/traceless) are
  injective on `symParam` parameters.

**Not proved (named gap):** that the rank of the differential at a *generic* θ equals the rank at one point (real-analyticity) for the matrix
charts, and the differentials of the matrix-valued normalising maps (Cholesky, polar, qr, Euler, cayley/exp away from 0).  Stated as `generic_rank.Statement` for the exp chart; the
generic-point rank of every map is *searched* numerically by the probe of `harness/c02.py` (autograd Jacobian) and reported as such.
-/
import NumqiProofs.ManifoldCount
import NumqiProofs.ManifoldPlacement
import NumqiProofs.ManifoldDiff
import NumqiProofs.ManifoldVecDiff
import NumqiProofs.ManifoldSoftmaxDiff
import NumqiProofs.ManifoldPairDiff
import NumqiProofs.ManifoldCayleyRank
import NumqiProofs.ManifoldScalarDiff
import NumqiProofs.ManifoldPlacement2
import NumqiProofs.ManifoldPlacement3
import NumqiProofs.ManifoldProbSphereDiff
import Mathlib.LinearAlgebra.Complex.FiniteDimensional

namespace Numqi.C02
open Numqi Numqi.Manifold Numqi.Manifold.Count Matrix
open Numqi.Gellmann (Scalars)

variable {dim : Nat}

/-! ### counting (all `d`, `r`) -/

/-- Trace1PSD / cholesky / real: `N0 = (dr - r(r-1)/2 - 1) + 1` (gauge: global scale) -/
theorem count_psd_cholesky_real (dim rank : Nat) (h : rank ≤ dim) (hr : 1 ≤ rank) :
    psdParam dim rank true true = psdDim dim rank true + 1 := psdParam_cholesky_real dim rank h hr
/-- complex: `2N0 - r = (2dr - r² - 1) + 1` -/
theorem count_psd_cholesky_complex (dim rank : Nat) (h : rank ≤ dim) (hr : 1 ≤ rank) :
    psdParam dim rank false true = psdDim dim rank false + 1 := psdParam_cholesky_complex dim rank h hr
theorem count_psd_ensemble_real (dim rank : Nat) (h : rank ≤ dim) (hr : 1 ≤ rank) :
    psdParam dim rank true false = psdDim dim rank true + (rank + rank * (rank - 1) / 2 + 1) := psdParam_ensemble_real dim rank h hr
theorem count_psd_ensemble_complex (dim rank : Nat) (h : rank ≤ dim) (hr : 1 ≤ rank) :
    psdParam dim rank false false = psdDim dim rank false + (rank + rank * rank + 1) := psdParam_ensemble_complex dim rank h hr
/-- sphere: quotient = dimension + 1 (radius), coordinate = dimension -/
theorem count_sphere_quotient (dim : Nat) (hd : 1 ≤ dim) (isReal : Bool) :
    sphereParam dim isReal true = sphereDim dim isReal + 1 := sphereParam_quotient dim hd isReal
theorem count_sphere_coordinate (dim : Nat) (isReal : Bool) : sphereParam dim isReal false = sphereDim dim isReal :=
  sphereParam_coordinate dim isReal
/-- simplex: `d = (d-1) + 1` -/
theorem count_simplex (dim : Nat) (hd : 1 ≤ dim) : probParam dim = simplexDim dim + 1 := probParam_eq dim hd
/-- SO(d)/SU(d) charts are minimal: the parameter count `d(d-1)/2` resp. `d²-1` of `SpecialOrthogonal.__init__` equals the number of Gell-Mann
generators of `so(d)` (antisymmetric block) resp. `su(d)` (symmetric + antisymmetric + traceless diagonal) -/
theorem count_so (dim : Nat) (hd : 1 ≤ dim) (isReal : Bool) : soParam dim isReal = soDim dim isReal := soParam_eq dim hd isReal
/-- SymmetricMatrix: `d(d+1)/2` resp. `d²` (minus one if traceless) is the number of independent real entries (`#{i ≤ j}` resp. `d²`) -/
theorem count_symmetric (dim : Nat) (isReal isTrace0 : Bool) : symParam dim isReal isTrace0 = symEntries dim isReal isTrace0 :=
  symParam_eq dim isReal isTrace0
/-- Ball: `d` resp. `2d` parameters = real dimension of `ℝ^d` resp. `ℂ^d` -/
theorem count_ball (dim : Nat) :
    ballParam dim true = Module.finrank ℝ (EuclideanSpace ℝ (Fin dim)) ∧ ballParam dim false = Module.finrank ℝ (EuclideanSpace ℂ (Fin dim)) := by
  constructor
  · simp [ballParam]
  · simp only [ballParam, Bool.false_eq_true, if_false]
    rw [← Module.finrank_mul_finrank ℝ ℂ (EuclideanSpace ℂ (Fin dim)), Complex.finrank_real_complex, finrank_euclideanSpace_fin]
/-- Stiefel polar / qr: `dr = (dr - r(r+1)/2) + r(r+1)/2`, `2dr = (2dr - r²) + r²` -/
theorem count_stiefel_polar_qr (dim rank : Nat) (h : rank ≤ dim) (isReal : Bool) :
    stiefelParam dim rank isReal .polar false = stiefelDim dim rank isReal + (if isReal then rank * (rank + 1) / 2 else rank * rank)
    ∧ stiefelParam dim rank isReal .qr false = stiefelDim dim rank isReal + (if isReal then rank * (rank + 1) / 2 else rank * rank) :=
  stiefelParam_polar dim rank h isReal
/-- choleskyL: minimal (real); `r` short of the manifold dimension (complex: the column phases are fixed) -/
theorem count_stiefel_choleskyL (dim rank : Nat) (h : rank ≤ dim) :
    stiefelParam dim rank true .choleskyL false = stiefelDim dim rank true
    ∧ stiefelParam dim rank false .choleskyL false + rank = stiefelDim dim rank false := stiefelParam_choleskyL dim rank h
/-- euler: minimal (real, complex with phase); `r` short without the phase column -/
theorem count_stiefel_euler (dim rank : Nat) (h : rank ≤ dim) :
    stiefelParam dim rank true .euler false = stiefelDim dim rank true
    ∧ stiefelParam dim rank false .euler true = stiefelDim dim rank false
    ∧ stiefelParam dim rank false .euler false + rank = stiefelDim dim rank false := stiefelParam_euler dim rank h
/-- the rank claimed for a Stiefel chart never exceeds its number of parameters -/
theorem claimed_rank_le_param (dim rank : Nat) (h : rank ≤ dim) (hr : 1 ≤ rank) (isReal : Bool) (m : StMethod) (ph : Bool) :
    stiefelRank dim rank isReal m ph ≤ stiefelParam dim rank isReal m ph := stiefelRank_le_param dim rank h hr isReal m ph

/-! ### the linear placements are injective -/

/-- SU chart: `θ ↦ i Σ θ_a G_a` is injective -/
theorem placement_su_injective (S : Scalars ℂ) (hS : S.Valid dim) (hd : 1 ≤ dim) (θ θ' : Nat → ℝ)
    (h : toM dim dim (soGenerator S dim false θ) = toM dim dim (soGenerator S dim false θ')) :
    ∀ p, p < dim * dim - 1 → θ p = θ' p := soGenerator_complex_injective S hS hd θ θ' h
/-- SO chart (as repaired: antisymmetric block): injective, hence not constant -/
theorem placement_so_injective (S : Scalars ℂ) (hS : S.Valid dim) (hd : 1 ≤ dim) (θ θ' : Nat → ℝ)
    (h : toM dim dim (soGenerator S dim true θ) = toM dim dim (soGenerator S dim true θ')) :
    ∀ p, p < dim * (dim - 1) / 2 → θ p = θ' p := soGenerator_real_injective S hS hd θ θ' h
/-- traceless Hermitian matrices -/
theorem placement_hermitian_traceless_injective (S : Scalars ℂ) (hS : S.Valid dim) (hd : 1 ≤ dim) (θ θ' : Nat → ℝ)
    (h : toM dim dim (symmetricRaw S dim false true θ) = toM dim dim (symmetricRaw S dim false true θ')) :
    ∀ p, p < dim * dim - 1 → θ p = θ' p := symmetric_traceless_complex_injective S hS hd θ θ' h

/-- **`to_symmetric_matrix`, every option: the placement `θ ↦` matrix (before the optional normalisation) is injective on exactly `symParam`
parameters** (real/complex × full/traceless) — linear maps, hence full rank `symParam` at every θ for `is_norm1 = False` -/
theorem placement_symmetric_injective (S : Scalars ℂ) (hS : S.Valid dim) (hd : 1 ≤ dim) (isReal isTrace0 : Bool) (θ θ' : Nat → ℝ)
    (h : toM dim dim (symmetricRaw S dim isReal isTrace0 θ) = toM dim dim (symmetricRaw S dim isReal isTrace0 θ')) :
    ∀ p, p < symParam dim isReal isTrace0 → θ p = θ' p := by
  have htri : 2 * (triuPairs dim).length = dim * (dim + 1) := length_triuPairs dim
  intro p hp
  cases isReal <;> cases isTrace0 <;> simp only [symParam, if_true, if_false, Bool.false_eq_true] at hp
  · exact symmetric_full_complex_injective S θ θ' h p (by omega)
  · exact symmetric_traceless_complex_injective S hS hd θ θ' h p (by omega)
  · exact symmetric_full_real_injective S θ θ' h p (by omega)
  · refine symmetric_traceless_real_injective S hS hd θ θ' h p ?_
    obtain ⟨n, rfl⟩ : ∃ n, dim = n + 1 := ⟨dim - 1, by omega⟩
    simp only [Nat.add_sub_cancel] at hp ⊢
    have e1 : (n + 1) * (n + 1 + 1) = (n + 1) * n + 2 * (n + 1) := by ring
    have e2 : Even ((n + 1) * n) := by rw [Nat.mul_comm]; exact Nat.even_mul_succ_self n
    obtain ⟨m, hm⟩ := e2
    rw [e1, hm] at hp
    rw [hm]
    omega

/-! ### base-point differentials -/

/-- `D exp(0) = id` in every real Banach algebra (Mathlib) -/
theorem hasFDerivAt_exp_zero {𝔸 : Type*} [NormedRing 𝔸] [NormedAlgebra ℝ 𝔸] [CompleteSpace 𝔸] :
    HasFDerivAt (NormedSpace.exp : 𝔸 → 𝔸) (1 : 𝔸 →L[ℝ] 𝔸) 0 := hasFDerivAt_exp_zero'
/-- `D cayley(0) = -2·id` -/
theorem hasFDerivAt_cayley_zero {𝔸 : Type*} [NormedRing 𝔸] [NormedAlgebra ℝ 𝔸] [CompleteSpace 𝔸] :
    HasFDerivAt (cayleyMap : 𝔸 → 𝔸) ((-2 : ℝ) • ContinuousLinearMap.id ℝ 𝔸) 0 := Manifold.hasFDerivAt_cayley_zero

/-- the model's Cayley chart of order 1 *is* `cayleyMap ∘ generator` (contract of `inv` as in C01) -/
theorem soCayley_eq_cayleyMap (inv : NMat ℂ → NMat ℂ)
    (hinv : ∀ P, IsUnit (toM dim dim P).det → toM dim dim (inv P) * toM dim dim P = 1)
    (S : Scalars ℂ) (hS : S.Valid dim) (hd : 1 ≤ dim) (isReal : Bool) (θ : Nat → ℝ) :
    toM dim dim (soCayley inv S dim 1 isReal θ) = cayleyMap (toM dim dim (soGenerator S dim isReal θ)) := by
  unfold soCayley cayleyMap
  simp only [Nat.sub_self, matPow]
  rw [toM_matMul, toM_one_sub]
  have hsk := soGenerator_skew S hS hd isReal θ
  have hu := isUnit_one_add_of_skew _ hsk
  have := hinv _ (by rw [toM_one_add]; exact hu)
  rw [toM_one_add] at this
  rw [← Matrix.nonsing_inv_eq_ringInverse, ← Matrix.inv_eq_left_inv this]

/-! ### vector charts: the differential and its rank at **every** admissible point -/

/-- the model's `to_sphere_quotient` / `to_ball` (real) are `quotMap` / `ballMap` on `EuclideanSpace ℝ (Fin n)`, its softmax is `smax` -/
theorem vector_maps_eq (n : Nat) (θ : Nat → ℝ) (i : Fin n) :
    sphereQuotientVec n θ i.val = quotMap (toE n θ) i ∧ ballVec n θ i.val = ballMap (toE n θ) i :=
  ⟨sphereQuotientVec_eq n θ i, ballVec_eq n θ i⟩
theorem softmax_eq (n : Nat) [NeZero n] (θ : Nat → ℝ) (i : Fin n) :
    softmaxVec n θ i.val = smax (fun j : Fin n => θ j.val) i := softmaxVec_eq_smax θ i

/-- quotient sphere: differentiable at every `x ≠ 0` with differential `v ↦ v/‖x‖ - ⟨x,v⟩x/‖x‖³` … -/
theorem sphere_quotient_hasFDerivAt (n : Nat) {x : EuclideanSpace ℝ (Fin n)} (hx : x ≠ 0) :
    HasFDerivAt (quotMap : EuclideanSpace ℝ (Fin n) → EuclideanSpace ℝ (Fin n)) (quotD x) x := hasFDerivAt_quotMap hx
/-- … whose kernel is the radial line `span {x}` … -/
theorem sphere_quotient_ker (n : Nat) {x : EuclideanSpace ℝ (Fin n)} (hx : x ≠ 0) :
    LinearMap.ker (quotD x : EuclideanSpace ℝ (Fin n) →ₗ[ℝ] EuclideanSpace ℝ (Fin n)) = Submodule.span ℝ {x} := ker_quotD hx
/-- … so that **the rank is `n - 1`, the dimension of the sphere, at every `θ ≠ 0`** (a theorem, not a probe) -/
theorem sphere_quotient_rank (n : Nat) {x : EuclideanSpace ℝ (Fin n)} (hx : x ≠ 0) :
    Module.finrank ℝ (LinearMap.range (quotD x : EuclideanSpace ℝ (Fin n) →ₗ[ℝ] EuclideanSpace ℝ (Fin n))) + 1 = n := by
  have := finrank_range_quotD hx
  simpa using this

/-- softmax: differential `v ↦ (s_i (v_i - Σ s_j v_j))_i` at every point … -/
theorem softmax_hasFDerivAt (n : Nat) [NeZero n] (x : Fin n → ℝ) :
    HasFDerivAt (smax : (Fin n → ℝ) → Fin n → ℝ) (smaxD x) x := hasFDerivAt_smax x
/-- … kernel = constant vectors … -/
theorem softmax_ker (n : Nat) [NeZero n] (x : Fin n → ℝ) :
    LinearMap.ker (smaxD x : (Fin n → ℝ) →ₗ[ℝ] (Fin n → ℝ)) = Submodule.span ℝ {fun _ => (1 : ℝ)} := ker_smaxD x
/-- … **rank `n - 1`, the dimension of the simplex, at every θ** -/
theorem softmax_rank (n : Nat) [NeZero n] (x : Fin n → ℝ) :
    Module.finrank ℝ (LinearMap.range (smaxD x : (Fin n → ℝ) →ₗ[ℝ] (Fin n → ℝ))) + 1 = n := finrank_range_smaxD x

/-- `to_ball`: differentiable everywhere (the origin included), … -/
theorem ball_hasFDerivAt (n : Nat) (x : EuclideanSpace ℝ (Fin n)) :
    HasFDerivAt (ballMap : EuclideanSpace ℝ (Fin n) → EuclideanSpace ℝ (Fin n)) (if x = 0 then ContinuousLinearMap.id ℝ _ else ballD x) x := by
  split_ifs with h
  · subst h; exact hasFDerivAt_ballMap_zero
  · exact hasFDerivAt_ballMap h
/-- … **with injective differential, i.e. full rank `n`, at every θ** -/
theorem ball_full_rank (n : Nat) (x : EuclideanSpace ℝ (Fin n)) :
    Function.Injective (if x = 0 then ContinuousLinearMap.id ℝ (EuclideanSpace ℝ (Fin n)) else ballD x) := by
  split_ifs with h
  · exact fun a b hab => hab
  · exact ballD_injective h

/-! ### complex branches of the vector charts (`ℂ^h ≅ ℝ^{2h}`) -/

/-- the model's complex pairing `pairCx` is the injective `ℝ`-linear map `pairLin : ℝ^{2h} → ℂ^h` -/
theorem pairCx_is_linear (h : Nat) (y : Nat → ℝ) (j : Fin h) : pairCx (K := ℂ) h y j.val = pairLin h (toE (h + h) y) j ∧ Function.Injective (pairLin h) :=
  ⟨pairCx_eq_pairLin h y j, pairLin_injective h⟩
/-- complex `to_ball`: injective differential (rank `2h`) at every `x ≠ 0` … -/
theorem ball_complex_full_rank (h : Nat) {x : EuclideanSpace ℝ (Fin (h + h))} (hx : x ≠ 0) :
    HasFDerivAt (fun y => pairCLM h (ballMap y)) ((pairCLM h).comp (ballD x)) x ∧ Function.Injective ((pairCLM h).comp (ballD x)) :=
  ballComplex_hasFDerivAt h hx
/-- … and at the origin -/
theorem ball_complex_full_rank_zero (h : Nat) :
    HasFDerivAt (fun y : EuclideanSpace ℝ (Fin (h + h)) => pairCLM h (ballMap y)) ((pairCLM h).comp (ContinuousLinearMap.id ℝ _)) 0 ∧
      Function.Injective ((pairCLM h).comp (ContinuousLinearMap.id ℝ (EuclideanSpace ℝ (Fin (h + h))))) := ballComplex_hasFDerivAt_zero h
/-- complex `to_sphere_quotient`: rank `2h - 1` at every `x ≠ 0` -/
theorem sphere_complex_rank (h : Nat) {x : EuclideanSpace ℝ (Fin (h + h))} (hx : x ≠ 0) :
    HasFDerivAt (fun y => pairCLM h (quotMap y)) ((pairCLM h).comp (quotD x)) x ∧
      Module.finrank ℝ (LinearMap.range ((pairLin h) ∘ₗ (quotD x : EuclideanSpace ℝ (Fin (h + h)) →ₗ[ℝ] EuclideanSpace ℝ (Fin (h + h))))) + 1 = h + h :=
  sphereComplex_rank h hx

/-! ### one matrix chart completely: the real Cayley chart of SO(d) -/

/-- the Cayley transform is differentiable wherever `1 + A` is invertible, `D cayley(A) δ = -2 (1+A)⁻¹ δ (1+A)⁻¹`, and this differential is injective -/
theorem hasFDerivAt_cayley_everywhere {𝔸 : Type*} [NormedRing 𝔸] [NormedAlgebra ℝ 𝔸] [CompleteSpace 𝔸] (A : 𝔸) (u : 𝔸ˣ) (hu : (↑u : 𝔸) = 1 + A) :
    HasFDerivAt (cayleyMap : 𝔸 → 𝔸) (cayleyD u) A ∧ Function.Injective (cayleyD u : 𝔸 → 𝔸) ∧ ∀ δ, cayleyD u δ = (-2 : ℝ) • ((↑u⁻¹ : 𝔸) * δ * ↑u⁻¹) :=
  ⟨hasFDerivAt_cayley A u hu, cayleyD_injective u, cayleyD_apply u⟩

/-- the placement `θ ↦ generator` of the real chart is `ℝ`-linear (`genLin`) and the model's order-1 chart is `cayleyMap ∘ genLin` -/
theorem soCayley_real_eq (inv : NMat ℂ → NMat ℂ) (hinv : ∀ P, IsUnit (toM dim dim P).det → toM dim dim (inv P) * toM dim dim P = 1)
    (S : Scalars ℂ) (hS : S.Valid dim) (hd : 1 ≤ dim) (θ : Fin (dim * (dim - 1) / 2) → ℝ) :
    toM dim dim (soCayley inv S dim 1 true (extZero θ)) = cayleyMap (genLin S hd θ) :=
  soCayley_eq_cayleyMap inv hinv S hS hd true (extZero θ)

/-- **the real Cayley chart of SO(d), order 1, has rank `d(d-1)/2` at EVERY θ** (differentiable on all of `ℝ^{d(d-1)/2}` with injective differential):
this row of the rank table is a theorem, not a probe -/
theorem soCayley_real_full_rank (S : Scalars ℂ) (hS : S.Valid dim) (hd : 1 ≤ dim) (θ : Fin (dim * (dim - 1) / 2) → ℝ) :
    open scoped Matrix.Norms.Operator in
    ∃ D : (Fin (dim * (dim - 1) / 2) → ℝ) →L[ℝ] Matrix (Fin dim) (Fin dim) ℂ,
      HasFDerivAt (fun t => cayleyMap (LinearMap.toContinuousLinearMap (genLin S hd) t)) D θ ∧ Function.Injective D :=
  soCayley_real_full_rank' S hS hd θ

/-- order 2 (`C²`, the default `cayley_order`): differential `δC·C + C·δC`; injective — full rank — wherever the Sylvester operator
`X ↦ X C + C X` is injective, i.e. `C = cayley(A)` has no pair of eigenvalues `λ, -λ` (an open dense condition; at θ = 0, `C = 1`, it holds) -/
theorem soCayley_order2_full_rank {𝔸 : Type*} [NormedRing 𝔸] [NormedAlgebra ℝ 𝔸] [CompleteSpace 𝔸]
    {E : Type*} [NormedAddCommGroup E] [NormedSpace ℝ E] (P : E →L[ℝ] 𝔸) (hP : Function.Injective P)
    (θ : E) (u : 𝔸ˣ) (hu : (↑u : 𝔸) = 1 + P θ) (hSyl : ∀ X : 𝔸, X * cayleyMap (P θ) + cayleyMap (P θ) * X = 0 → X = 0) :
    ∃ D : E →L[ℝ] 𝔸, HasFDerivAt (fun t => cayleyMap (P t) * cayleyMap (P t)) D θ ∧ Function.Injective D
      ∧ ∀ δ, D δ = cayleyD u (P δ) * cayleyMap (P θ) + cayleyMap (P θ) * cayleyD u (P δ) :=
  cayley_sq_chart P hP θ u hu hSyl

/-! ### round 6: scalar charts, probability sphere, entry placements -/

/-- `PositiveReal` / `OpenInterval`: `batch_size` independent scalars (`0` encodes `None` → one scalar), never fewer than one (a restatement of the
definition of `scalarParam`; the per-entry rank 1 is `softplus_deriv_pos` …, the batched map is the product of `bs` such charts) -/
theorem count_scalar (bs : Nat) : scalarParam bs = max 1 bs ∧ 1 ≤ scalarParam bs := by
  unfold scalarParam; split_ifs with h <;> omega

/-- `to_positive_real_softplus`: derivative `eˣ/(1+eˣ) > 0` at every point (rank 1 everywhere) -/
theorem softplus_deriv_pos (x : ℝ) :
    HasDerivAt (softplus : ℝ → ℝ) (Real.exp x / (1 + Real.exp x)) x ∧ 0 < Real.exp x / (1 + Real.exp x) := softplus_hasDerivAt_pos x
/-- `to_positive_real_exp`: derivative `eˣ > 0` -/
theorem expMap_deriv_pos (x : ℝ) : HasDerivAt (expMap : ℝ → ℝ) (Real.exp x) x ∧ 0 < Real.exp x := expMap_hasDerivAt_pos x
/-- `to_open_interval`: derivative `(u-l)·σ(x)(1-σ(x)) > 0` whenever `l < u` -/
theorem openInterval_deriv_pos (x l u : ℝ) (h : l < u) :
    ∃ D, HasDerivAt (fun y => openInterval y l u) D x ∧ 0 < D ∧ D = (u - l) * (sigmoid x * (1 - sigmoid x)) :=
  openInterval_hasDerivAt_pos x l u h

/-- the model's `to_discrete_probability_sphere` is (entrywise square) ∘ (quotient map) on `EuclideanSpace ℝ (Fin n)` -/
theorem probSphere_eq (n : Nat) (θ : Nat → ℝ) (i : Fin n) : probSphereVec n θ i.val = probSphereMap (toE n θ) i := probSphereVec_eq n θ i
/-- … differentiable at every `x ≠ 0`, and **at every point with no zero coordinate (the interior of the simplex) the kernel of the differential is the
radial line and the rank is `n - 1 = simplexDim`**.  (At a point with a zero coordinate the image lies on the boundary of the simplex and the rank drops:
the hypothesis is necessary.) -/
theorem probSphere_rank (n : Nat) (hn : 0 < n) {x : EuclideanSpace ℝ (Fin n)} (hx : ∀ i, x i ≠ 0) :
    HasFDerivAt (probSphereMap : EuclideanSpace ℝ (Fin n) → Fin n → ℝ) (probSphereD x) x ∧
    LinearMap.ker (probSphereD x : EuclideanSpace ℝ (Fin n) →ₗ[ℝ] (Fin n → ℝ)) = Submodule.span ℝ {x} ∧
    Module.finrank ℝ (LinearMap.range (probSphereD x : EuclideanSpace ℝ (Fin n) →ₗ[ℝ] (Fin n → ℝ))) = simplexDim n := by
  have hx0 : x ≠ 0 := fun h => hx ⟨0, hn⟩ (by rw [h]; rfl)
  refine ⟨hasFDerivAt_probSphereMap hx0, ker_probSphereD hx hn, ?_⟩
  have := finrank_range_probSphereD hx hn
  unfold simplexDim; omega

/-- the `dim × rank` pre-factor of `to_stiefel_polar` / `to_stiefel_qr` determines all `stiefelParam` parameters (pure reshape) -/
theorem placement_stiefel_injective (rank : Nat) (isReal : Bool) (θ θ' : Nat → ℝ)
    (h : toM dim rank (stiefelMat (K := ℂ) dim rank isReal θ) = toM dim rank (stiefelMat (K := ℂ) dim rank isReal θ')) :
    ∀ p, p < stiefelParam dim rank isReal .polar false → θ p = θ' p := by
  intro p hp; exact stiefelMat_injective isReal θ θ' h p (by simpa [stiefelParam] using hp)
/-- the unit-lower-trapezoidal pre-factor of `to_stiefel_choleskyL` determines all `stiefelParam` parameters -/
theorem placement_cholL_injective (rank : Nat) (isReal : Bool) (θ θ' : Nat → ℝ) (hrk : rank ≤ dim)
    (h : toM dim rank (cholLMat (K := ℂ) dim rank isReal θ) = toM dim rank (cholLMat (K := ℂ) dim rank isReal θ')) :
    ∀ p, p < stiefelParam dim rank isReal .choleskyL false → θ p = θ' p := by
  intro p hp; exact cholLMat_placement_injective isReal θ θ' hrk h p (by simpa [stiefelParam] using hp)
/-- the normalised Cholesky factor of `to_trace1_psd_cholesky` loses exactly the scale direction: same factor **and** same normaliser ⇒ same
`psdParam` parameters (`softplus` on the diagonal is strictly increasing).  This is the gauge `+1` of `count_psd_cholesky_*`. -/
theorem placement_psd_factor_injective (rank : Nat) (isReal : Bool) (θ θ' : Nat → ℝ) (hr : 1 ≤ rank) (hrk : rank ≤ dim)
    (h : toM dim rank (psdCholFactor (K := ℂ) dim rank isReal θ) = toM dim rank (psdCholFactor (K := ℂ) dim rank isReal θ'))
    (hn : psdNormaliser dim rank isReal θ = psdNormaliser dim rank isReal θ') :
    ∀ p, p < psdParam dim rank isReal true → θ p = θ' p := by
  intro p hp; exact psdCholFactor_injective_mod_scale isReal θ θ' hr hrk h hn p (by simpa [psdParam] using hp)

/-- `psdNormaliser` (used in the statement above) is not a re-typed twin: it is the normaliser inside the executed `psdCholFactor` — the diagonal entries of
the model's factor are `softplus θ_c / psdNormaliser θ` -/
theorem placement_psd_normaliser_is_models (rank : Nat) (isReal : Bool) (θ : Nat → ℝ) (c : Nat) (hc : c < rank) (hrk : rank ≤ dim) :
    (psdCholFactor (K := ℂ) dim rank isReal θ).get c c = ((softplus (θ c) / psdNormaliser dim rank isReal θ : ℝ) : ℂ) :=
  psdCholFactor_diag isReal θ c hc hrk

example : ∃ x : EuclideanSpace ℝ (Fin 3), ∀ i, x i ≠ 0 := ⟨WithLp.toLp 2 fun _ => 1, fun i => by simp⟩

/-! ### the gap, stated -/

/-- **not proved** (full statement for the minimal exp chart): the chart is locally injective around some point, i.e. its differential has
rank `soParam = soDim` there.  (For the other maps the analogous statement with the manifold dimension is only searched numerically.) -/
def generic_rank.Statement : Prop :=
  ∀ (dim : Nat) (expm : NMat ℂ → NMat ℂ), (∀ A, toM dim dim (expm A) = NormedSpace.exp (toM dim dim A)) →
    ∀ (S : Scalars ℂ), S.Valid dim → 2 ≤ dim → ∀ isReal : Bool,
      ∃ (θ₀ : Nat → ℝ) (δ : ℝ), 0 < δ ∧ ∀ θ θ' : Nat → ℝ, (∀ p, |θ p - θ₀ p| < δ) → (∀ p, |θ' p - θ₀ p| < δ) →
        toM dim dim (soExp expm S dim isReal θ) = toM dim dim (soExp expm S dim isReal θ') →
        ∀ p, p < soParam dim isReal → θ p = θ' p

/-- proved fragment: the first (linear) layer of the chart separates directions — together with `hasFDerivAt_exp_zero` this is the rank
statement at the base point `θ₀ = 0` -/
theorem generic_rank_partial (S : Scalars ℂ) (hS : S.Valid dim) (hd : 1 ≤ dim) (isReal : Bool) (θ₀ v : Nat → ℝ)
    (hv : ∀ p, soParam dim isReal ≤ p → v p = 0)
    (h : toM dim dim (soGenerator S dim isReal fun p => θ₀ p + 1 * v p) = toM dim dim (soGenerator S dim isReal θ₀)) :
    ∀ p, v p = 0 := by
  intro p
  by_cases hp : p < soParam dim isReal
  · cases isReal with
    | true =>
      have := soGenerator_real_injective S hS hd _ _ h p hp
      linarith
    | false =>
      have := soGenerator_complex_injective S hS hd _ _ h p hp
      linarith
  · exact hv p (not_lt.1 hp)

example : ∃ S : Scalars ℂ, S.Valid 3 := ⟨Gellmann.complexScalars 3, Gellmann.complexScalars_valid (by norm_num)⟩

end Numqi.C02
