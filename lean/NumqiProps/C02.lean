import NumqiModel.Manifold
namespace Numqi.C02
theorem placeholder : True := trivial
end Numqi.C02
