/-
C06 — the index layer of the two SDP routines of the hierarchy (`entangle/symext.py`: `is_ABk_symmetric_ext`,
`get_ABk_symmetric_extension_boundary`, `_ABk_symmetric_extension_setup`, `get_cvxpy_transpose0213_indexing`).

Theorems about the shared model constants of `NumqiModel/SymExt.lean` (`idx0213`, `sxRealign`, `extRaySigma`, `irrepGather`,
`irrepBlockRdm`), which `Driver/C06.lean` executes through `Driver/SymExtOps.lean` (ops `idx0213`, `sxrealign`, `extray`, `irreprdm`).
-/
import NumqiProps.C06
import NumqiModel.SymExt
import NumqiProofs.EntangleIndex

namespace Numqi.C06
open Numqi Numqi.Boundary Matrix Finset Numqi.Dicke
open scoped ComplexOrder MatrixOrder

/-! ## realignment, the affine expression of the boundary SDP, the gather of the irrep blocks -/

section sdpindex

/-- (bookkeeping; definitional, proved by `rfl` — both sides are the same pointwise expression, and the identification of `1/N + β·H` with
`rayPoint` is prose) **the affine expression handed to the boundary SDP is the (realigned) ray point**: `get_ABk_symmetric_extension_boundary` constrains the
reduced state to `eye_realigned/(dA dB) + β·R` with `R` the realigned direction (op `extray` executes `extRaySigma`); this is the
realignment of `1/N + β·H`, the point `rayPoint` of the threshold theorems of `NumqiProps/C06.lean` -/
theorem extRaySigma_realign {R : Type} [Semiring R] (dA dB : ℕ) (invN β : R) (H : ℕ → ℕ → R) :
    Ent.extRaySigma dA dB invN β (Ent.sxRealign dA dB H)
      = Ent.sxRealign dA dB (fun r c => (if r = c then (1 : R) else 0) * invN + β * H r c) := rfl

/-- the realignment of both SDP routines (`rho.reshape(dA,dB,dA,dB).transpose(0,2,1,3).reshape(dA²,dB²)`, op `sxrealign`) puts entry
`ρ[(a,b),(a',b')]` at row `(a,a')`, column `(b,b')` -/
theorem sxRealign_entry {α : Type} (dA dB : ℕ) (ρ : ℕ → ℕ → α) (a a' b b' : ℕ) (ha : a < dA) (ha' : a' < dA) (hb : b < dB) (hb' : b' < dB) :
    Ent.sxRealign dA dB ρ (a * dA + a') (b * dB + b') = ρ (a * dB + b) (a' * dB + b') := by
  have hsh : Ent.permShape [dA, dB, dA, dB] [0, 2, 1, 3] = [dA, dA, dB, dB] := by simp [Ent.permShape]
  have ho : Ent.InShape [a, a', b, b'] (Ent.permShape [dA, dB, dA, dB] [0, 2, 1, 3]) := by
    rw [hsh]; exact List.Forall₂.cons ha (List.Forall₂.cons ha' (List.Forall₂.cons hb (List.Forall₂.cons hb' List.Forall₂.nil)))
  have h := Ent.npTranspose_flat [dA, dB, dA, dB] [0, 2, 1, 3] (Ent.toFlat (dA * dB) ρ) [a, a', b, b'] ho
  have hti : Ent.transposeIn [0, 2, 1, 3] [a, a', b, b'] = [a, b, a', b'] := by
    simp [Ent.transposeIn, List.idxOf, List.range_succ, List.findIdx_cons]
  rw [hsh, hti] at h
  have e1 : (a * dA + a') * (dB * dB) + (b * dB + b') = Ent.flat [dA, dA, dB, dB] [a, a', b, b'] := by
    simp [Ent.flat, Ent.prodL]; ring
  have e2 : Ent.flat [dA, dB, dA, dB] [a, b, a', b'] = (a * dB + b) * (dA * dB) + (a' * dB + b') := by
    simp [Ent.flat, Ent.prodL]; ring
  have hlt : a' * dB + b' < dA * dB := by nlinarith
  have hpos : 0 < dA * dB := by nlinarith
  unfold Ent.sxRealign Ent.ofFlat
  rw [e1, h, e2]
  simp only [Ent.toFlat]
  rw [Nat.add_comm, Nat.add_mul_div_right _ _ hpos, Nat.div_eq_of_lt hlt, Nat.add_mul_mod_self_right, Nat.mod_eq_of_lt hlt, Nat.zero_add]

/-- the gather of `_ABk_symmetric_extension_setup` (F-order reshape ∘ `get_cvxpy_transpose0213_indexing(dA,x)` ∘ F-order reshape, ops
`idx0213`, `irreprdm`) puts entry `P[(a,i),(a',j)]` of an irrep block at row `(a,a')`, column `(i,j)`: `cvx_rdm` contracts the irrep
indices `(i,j)` with the coefficient tensor and leaves the `A` indices in the realigned position of `sxRealign_entry` -/
theorem irrepGather_entry {α : Type} (dA x : ℕ) (P : ℕ → ℕ → α) (a a' i j : ℕ) (ha : a < dA) (ha' : a' < dA) (hi : i < x) (hj : j < x) :
    Ent.irrepGather dA x P (a * dA + a') (i * x + j) = P (a * x + i) (a' * x + j) := by
  have hsh : Ent.permShape [dA, x, dA, x] [3, 1, 2, 0] = [x, x, dA, dA] := by simp [Ent.permShape]
  have ho : Ent.InShape [i, j, a, a'] (Ent.permShape [dA, x, dA, x] [3, 1, 2, 0]) := by
    rw [hsh]; exact List.Forall₂.cons hi (List.Forall₂.cons hj (List.Forall₂.cons ha (List.Forall₂.cons ha' List.Forall₂.nil)))
  have h := Ent.npTranspose_flat [dA, x, dA, x] [3, 1, 2, 0] (id : ℕ → ℕ) [i, j, a, a'] ho
  have hti : Ent.transposeIn [3, 1, 2, 0] [i, j, a, a'] = [a', j, a, i] := by
    simp [Ent.transposeIn, List.idxOf, List.range_succ, List.findIdx_cons]
  rw [hsh, hti] at h
  have e1 : a * dA + a' + (i * x + j) * (dA * dA) = Ent.flat [x, x, dA, dA] [i, j, a, a'] := by
    simp [Ent.flat, Ent.prodL]; ring
  have e2 : Ent.flat [dA, x, dA, x] [a', j, a, i] = (a' * x + j) * (x * dA) + (a * x + i) := by
    simp [Ent.flat, Ent.prodL]; ring
  have hlt : a * x + i < x * dA := by nlinarith
  have hpos : 0 < x * dA := by nlinarith
  unfold Ent.irrepGather Ent.idx0213 Ent.flatF
  rw [e1, h, e2]
  simp only [id]
  rw [Nat.add_comm, Nat.add_mul_mod_self_right, Nat.mod_eq_of_lt hlt, Nat.add_mul_div_right _ _ hpos, Nat.div_eq_of_lt hlt, Nat.zero_add]

end sdpindex

/-! ## the bosonic block: feasible points are extendible -/

section boson
variable {dA dB : ℕ}

/-- `Σ_{t<a·P} F (t/P) (t%P) = Σ_{i<a} Σ_{j<P} F i j` -/
theorem sum_range_divmod {M : Type} [AddCommMonoid M] (a P : ℕ) (F : ℕ → ℕ → M) :
    ∑ r ∈ Finset.range (a * P), F (r / P) (r % P) = ∑ i ∈ Finset.range a, ∑ j ∈ Finset.range P, F i j := by
  rcases Nat.eq_zero_or_pos P with rfl | hP
  · simp
  induction a with
  | zero => simp
  | succ a ih =>
    rw [Nat.succ_mul, Finset.sum_range_add, ih, Finset.sum_range_succ]
    congr 1
    refine Finset.sum_congr rfl fun j hj => ?_
    have hj' := Finset.mem_range.1 hj
    have h1 : (a * P + j) / P = a := by
      rw [Nat.add_comm, Nat.add_mul_div_right _ _ hP, Nat.div_eq_of_lt hj', Nat.zero_add]
    have h2 : (a * P + j) % P = j := by
      rw [Nat.add_comm, Nat.add_mul_mod_self_right, Nat.mod_eq_of_lt hj']
    rw [h1, h2]

theorem isSymExt_zero (k : ℕ) : IsSymExt (dA := dA) (dB := dB) k 0 0 :=
  ⟨Matrix.PosSemidef.zero, fun _ _ _ => rfl, fun _ _ => by simp⟩

theorem isSymExt_add (k : ℕ) {ρ₁ ρ₂ : Matrix (Fin dA × Fin dB) (Fin dA × Fin dB) ℂ} {σ₁ σ₂}
    (h₁ : IsSymExt k ρ₁ σ₁) (h₂ : IsSymExt k ρ₂ σ₂) : IsSymExt k (ρ₁ + ρ₂) (σ₁ + σ₂) := by
  refine ⟨h₁.1.add h₂.1, fun π p q => ?_, fun p q => ?_⟩
  · simp only [Matrix.add_apply, h₁.2.1 π p q, h₂.2.1 π p q]
  · simp only [Matrix.add_apply, h₁.2.2 p q, h₂.2.2 p q, Finset.sum_add_distrib]

theorem kext_sum (k : ℕ) {M : ℕ} (ρ : Fin M → Matrix (Fin dA × Fin dB) (Fin dA × Fin dB) ℂ) (h : ∀ m, ρ m ∈ KEXT dA dB k) :
    (∑ m, ρ m) ∈ KEXT dA dB k := by
  induction M with
  | zero => exact ⟨0, by simpa using isSymExt_zero k⟩
  | succ M ih =>
    rw [Fin.sum_univ_castSucc]
    obtain ⟨σ₁, h₁⟩ := ih (fun m => ρ m.castSucc) (fun m => h _)
    obtain ⟨σ₂, h₂⟩ := h (Fin.last M)
    exact ⟨_, isSymExt_add k h₁ h₂⟩

/-- the coefficient tensor of the bosonic block as `_ABk_symmetric_extension_setup` reads it (`coeffB.reshape(L², d²)` of
`coeffB = get_partial_trace_ABk_to_AB_index(N, d, return_tensor=True).transpose(2,3,0,1)`, C17's `tensorOfTable` of the index table;
a Lean-side constant, not executed by the driver: its link to the implementation is the tie `bij` — for `d = 2` it is entry by entry the
tensor `group/symext.py:222` hands to the SDP; for `d = 3` (`kext = 2, 3`; thorough also `kext = 4` and `d = 4`) the library's tensor is this
one in the numerically derived irrep basis, `c' = (V ⊗ V̄)·c` with `V` unitary, checked by transforming back; other `(d, kext)` are not tied) -/
noncomputable def bosonCoeff (d N : ℕ) : ℕ → ℂ := fun u =>
  @Dicke.tensorOfTable ℂ _ d (C17.tableC N d) ((u % (d * d)) / d) ((u % (d * d)) % d)
    ((u / (d * d)) / (klist d N).length) ((u / (d * d)) % (klist d N).length)

/-- the block's contribution to `cvx_rdm` (model `irrepBlockRdm`, op `irreprdm`) at a Gram-form block `P = Σ_m ψ_m ψ_mᴴ` is, entry by
entry in the realigned position, the sum of the Dicke reductions `partial_trace_ABk_to_AB(ψ_m)` -/
theorem irrepBlockRdm_boson_entry (N : ℕ) (M : ℕ) (ψ : Fin M → ℕ → ℕ → ℂ) (a a' b b' : ℕ)
    (ha : a < dA) (ha' : a' < dA) (hb : b < dB) (hb' : b' < dB) :
    Ent.irrepBlockRdm dA (klist dB N).length dB
        (fun r c => ∑ m, ψ m (r / (klist dB N).length) (r % (klist dB N).length)
          * star (ψ m (c / (klist dB N).length) (c % (klist dB N).length)))
        (bosonCoeff dB N) (a * dA + a') (b * dB + b')
      = ∑ m, @Dicke.assembleAB ℂ _ _ _ ⟨starRingEnd ℂ⟩ dB (C17.tableC N dB) (ψ m) (a * dB + b) (a' * dB + b') := by
  set L := (klist dB N).length with hL
  have hdd : 0 < dB * dB := by nlinarith
  have hdpos : 0 < dB := by omega
  simp only [C17.reduction_list_eq_tensor, ← hL]
  unfold Ent.irrepBlockRdm
  rw [Ent.sumRange_eq_sum]
  have hstep : ∀ t ∈ range (L * L),
      Ent.irrepGather dA L (fun r c => ∑ m, ψ m (r / L) (r % L) * star (ψ m (c / L) (c % L))) (a * dA + a') t
          * bosonCoeff dB N (t * (dB * dB) + (b * dB + b'))
        = (fun i j => ∑ m, ψ m a i * @Dicke.tensorOfTable ℂ _ dB (C17.tableC N dB) b b' i j * star (ψ m a' j)) (t / L) (t % L) := by
    intro t ht
    have hLpos : 0 < L := by
      rcases Nat.eq_zero_or_pos L with h | h
      · rw [h] at ht; simp at ht
      · exact h
    have hi : t / L < L := Nat.div_lt_of_lt_mul (Finset.mem_range.1 ht)
    have hj : t % L < L := Nat.mod_lt _ hLpos
    have ht' : t = (t / L) * L + t % L := by rw [Nat.mul_comm]; exact (Nat.div_add_mod t L).symm
    have hlt : b * dB + b' < dB * dB := by nlinarith
    conv_lhs => rw [ht', irrepGather_entry dA L _ a a' (t / L) (t % L) ha ha' hi hj]
    rw [← ht']
    have e1 : (t * (dB * dB) + (b * dB + b')) % (dB * dB) = b * dB + b' := by
      rw [Nat.add_comm, Nat.add_mul_mod_self_right, Nat.mod_eq_of_lt hlt]
    have e2 : (t * (dB * dB) + (b * dB + b')) / (dB * dB) = t := by
      rw [Nat.add_comm, Nat.add_mul_div_right _ _ hdd, Nat.div_eq_of_lt hlt, Nat.zero_add]
    have e3 : (b * dB + b') / dB = b := by
      rw [Nat.add_comm, Nat.add_mul_div_right _ _ hdpos, Nat.div_eq_of_lt hb', Nat.zero_add]
    have e4 : (b * dB + b') % dB = b' := by
      rw [Nat.add_comm, Nat.add_mul_mod_self_right, Nat.mod_eq_of_lt hb']
    have e5 : (a * L + t / L) / L = a := by
      rw [Nat.add_comm, Nat.add_mul_div_right _ _ hLpos, Nat.div_eq_of_lt hi, Nat.zero_add]
    have e6 : (a * L + t / L) % L = t / L := by
      rw [Nat.add_comm, Nat.add_mul_mod_self_right, Nat.mod_eq_of_lt hi]
    have e7 : (a' * L + t % L) / L = a' := by
      rw [Nat.add_comm, Nat.add_mul_div_right _ _ hLpos, Nat.div_eq_of_lt hj, Nat.zero_add]
    have e8 : (a' * L + t % L) % L = t % L := by
      rw [Nat.add_comm, Nat.add_mul_mod_self_right, Nat.mod_eq_of_lt hj]
    simp only [bosonCoeff, ← hL, e1, e2, e3, e4, e5, e6, e7, e8, Finset.sum_mul]
    refine Finset.sum_congr rfl fun m _ => ?_
    ring
  rw [Finset.sum_congr rfl hstep,
    sum_range_divmod L L (fun i j => ∑ m, ψ m a i * @Dicke.tensorOfTable ℂ _ dB (C17.tableC N dB) b b' i j * star (ψ m a' j))]
  have e3 : (a * dB + b) / dB = a := by
    rw [Nat.add_comm, Nat.add_mul_div_right _ _ hdpos, Nat.div_eq_of_lt hb, Nat.zero_add]
  have e4 : (a * dB + b) % dB = b := by
    rw [Nat.add_comm, Nat.add_mul_mod_self_right, Nat.mod_eq_of_lt hb]
  have e5 : (a' * dB + b') / dB = a' := by
    rw [Nat.add_comm, Nat.add_mul_div_right _ _ hdpos, Nat.div_eq_of_lt hb', Nat.zero_add]
  have e6 : (a' * dB + b') % dB = b' := by
    rw [Nat.add_comm, Nat.add_mul_mod_self_right, Nat.mod_eq_of_lt hb']
  simp only [Dicke.assembleTensor, Numqi.sumRange_eq_sum, e3, e4, e5, e6]
  refine (Finset.sum_congr rfl fun i _ => Finset.sum_comm).trans (Finset.sum_comm.trans ?_)
  rfl

/-- hence for a Gram-form block the state fixed by the constraint `cvx_rdm == realign(ρ)` is `n`-extendible -/
theorem sdp_boson_block_in_kext (n : ℕ) (hd : 2 ≤ dB) (M : ℕ) (ψ : Fin M → ℕ → ℕ → ℂ) :
    (Matrix.of fun p q : Fin dA × Fin dB =>
      Ent.irrepBlockRdm dA (klist dB (n + 1)).length dB
        (fun r c => ∑ m, ψ m (r / (klist dB (n + 1)).length) (r % (klist dB (n + 1)).length)
          * star (ψ m (c / (klist dB (n + 1)).length) (c % (klist dB (n + 1)).length)))
        (bosonCoeff dB (n + 1)) (p.1.val * dA + q.1.val) (p.2.val * dB + q.2.val)) ∈ KEXT dA dB n := by
  have e : (Matrix.of fun p q : Fin dA × Fin dB =>
      Ent.irrepBlockRdm dA (klist dB (n + 1)).length dB
        (fun r c => ∑ m, ψ m (r / (klist dB (n + 1)).length) (r % (klist dB (n + 1)).length)
          * star (ψ m (c / (klist dB (n + 1)).length) (c % (klist dB (n + 1)).length)))
        (bosonCoeff dB (n + 1)) (p.1.val * dA + q.1.val) (p.2.val * dB + q.2.val))
      = ∑ m, (fun p q : Fin dA × Fin dB =>
          @Dicke.assembleAB ℂ _ _ _ ⟨starRingEnd ℂ⟩ dB (C17.tableC (n + 1) dB) (ψ m) (p.1.val * dB + p.2.val) (q.1.val * dB + q.2.val)) := by
    ext p q
    rw [Matrix.of_apply, irrepBlockRdm_boson_entry (n + 1) M ψ p.1.val q.1.val p.2.val q.2.val p.1.isLt q.1.isLt p.2.isLt q.2.isLt,
      Finset.sum_apply, Finset.sum_apply]
  rw [e]
  exact kext_sum n _ fun m => ⟨_, assembleAB_isSymExt dA n hd (ψ m)⟩

/-- (with the block size as a variable) -/
theorem sdp_boson_block_psd_aux (n : ℕ) (hd : 2 ≤ dB) (L : ℕ) (hL : L = (klist dB (n + 1)).length)
    (P : Matrix (Fin (dA * L)) (Fin (dA * L)) ℂ) (hP : P.PosSemidef) :
    (Matrix.of fun p q : Fin dA × Fin dB =>
      Ent.irrepBlockRdm dA L dB (fun r c => if h : r < dA * L ∧ c < dA * L then P ⟨r, h.1⟩ ⟨c, h.2⟩ else 0)
        (bosonCoeff dB (n + 1)) (p.1.val * dA + q.1.val) (p.2.val * dB + q.2.val)) ∈ KEXT dA dB n := by
  have h0 : (0 : Matrix (Fin (dA * L)) (Fin (dA * L)) ℂ) ≤ P := Matrix.nonneg_iff_posSemidef.2 hP
  have hS : CFC.sqrt P * CFC.sqrt P = P := CFC.sqrt_mul_sqrt_self P h0
  have hh : (CFC.sqrt P)ᴴ = CFC.sqrt P := (Matrix.nonneg_iff_posSemidef.1 (CFC.sqrt_nonneg P)).1
  let ψ : Fin (dA * L) → ℕ → ℕ → ℂ := fun m a i => if h : a * L + i < dA * L then CFC.sqrt P ⟨_, h⟩ m else 0
  have key := sdp_boson_block_in_kext (dA := dA) n hd (dA * L) ψ
  rw [← hL] at key
  have e : (fun r c : ℕ => ∑ m, ψ m (r / L) (r % L) * star (ψ m (c / L) (c % L)))
      = fun r c => if h : r < dA * L ∧ c < dA * L then P ⟨r, h.1⟩ ⟨c, h.2⟩ else 0 := by
    funext r c
    have hr : r / L * L + r % L = r := by rw [Nat.mul_comm]; exact Nat.div_add_mod r L
    have hc : c / L * L + c % L = c := by rw [Nat.mul_comm]; exact Nat.div_add_mod c L
    by_cases h : r < dA * L ∧ c < dA * L
    · rw [dif_pos h]
      have h1 : r / L * L + r % L < dA * L := by rw [hr]; exact h.1
      have h2 : c / L * L + c % L < dA * L := by rw [hc]; exact h.2
      simp only [ψ, dif_pos h1, dif_pos h2]
      have e1 : (⟨r / L * L + r % L, h1⟩ : Fin (dA * L)) = ⟨r, h.1⟩ := Fin.ext hr
      have e2 : (⟨c / L * L + c % L, h2⟩ : Fin (dA * L)) = ⟨c, h.2⟩ := Fin.ext hc
      rw [e1, e2]
      conv_rhs => rw [← hS, Matrix.mul_apply]
      refine Finset.sum_congr rfl fun m _ => ?_
      have := congrFun (congrFun hh m) ⟨c, h.2⟩
      rw [Matrix.conjTranspose_apply] at this
      rw [this]
    · rw [dif_neg h]
      refine Finset.sum_eq_zero fun m _ => ?_
      simp only [ψ, hr, hc]
      rcases not_and_or.1 h with h | h
      · rw [dif_neg h, zero_mul]
      · rw [dif_neg h, star_zero, mul_zero]
  rw [e] at key
  exact key

/-- **soundness of the bosonic block of the SDP: every feasible point certifies an extension** — for the coefficient tensor `bosonCoeff`
(tied to the implementation for `dimB = 2` entry by entry, for `dimB = 3` up to the unitary change of irrep basis, which maps positive blocks
to positive blocks and leaves `cvx_rdm` unchanged; see `bosonCoeff`).  For a
positive semidefinite block `P` (the constraint `P >> 0`), the state `ρ` determined by `cvx_rdm == realign(ρ)` has a symmetric extension
to `n+1` copies of `B` (`kext = n+1`), for all `dimA`, `dimB ≥ 2`, `n` — so `is_ABk_symmetric_ext(…) = True` and every
`β ≤ get_ABk_symmetric_extension_boundary(…)` are, up to the solver contract, statements about `KEXT n`.  (The converse inclusion
`KEXT n ⊆` feasible set — needed for "infeasible ⇒ not extendible" — uses Schur–Weyl duality and stays a named gap.) -/
theorem sdp_boson_block_psd_in_kext (n : ℕ) (hd : 2 ≤ dB)
    (P : Matrix (Fin (dA * (klist dB (n + 1)).length)) (Fin (dA * (klist dB (n + 1)).length)) ℂ) (hP : P.PosSemidef) :
    (Matrix.of fun p q : Fin dA × Fin dB =>
      Ent.irrepBlockRdm dA (klist dB (n + 1)).length dB
        (fun r c => if h : r < dA * (klist dB (n + 1)).length ∧ c < dA * (klist dB (n + 1)).length then P ⟨r, h.1⟩ ⟨c, h.2⟩ else 0)
        (bosonCoeff dB (n + 1)) (p.1.val * dA + q.1.val) (p.2.val * dB + q.2.val)) ∈ KEXT dA dB n :=
  sdp_boson_block_psd_aux n hd _ rfl P hP

end boson

end Numqi.C06
