/-
C17 — partial traces and the Dicke-basis reduction equal the explicit contraction.

Property theorems only.  Part 1 (`utils.partial_trace`) holds for every additive commutative monoid of
scalars, every dimension list and every keep mask.  Part 2 (Dicke) is combinatorics over ℕ/ℚ plus the
reduction identity over ℝ.
-/
import NumqiProofs.PartialTrace
import NumqiProofs.Dicke
import NumqiProofs.DickeReduction
import NumqiProofs.DickeUsers
import Mathlib.Analysis.Real.Sqrt
import Mathlib.Data.Complex.Basic
import Mathlib.Data.Complex.BigOperators

namespace Numqi.C17
open Numqi Numqi.PT Finset

variable {M : Type} [AddCommMonoid M]

/-! ## Part 1: `partial_trace` -/

/-- **`partial_trace` is the explicit index contraction.**
`(Tr_T ρ)[a,b] = Σ_{x,y} ρ[x,y]` over the pairs of flat indices whose kept digits are those of `a` resp. `b`
and whose traced digits coincide (`part_digits` says that `part` reads off exactly those digits). -/
theorem partialTrace_eq_contraction (dims : List ℕ) (keep : List Bool) (hlen : dims.length = keep.length)
    (ρ : ℕ → ℕ → M) (a b : ℕ) (ha : a < prodSel true dims keep) (hb : b < prodSel true dims keep) :
    partialTrace dims keep ρ a b =
      ∑ x ∈ range (prodDims dims), ∑ y ∈ range (prodDims dims),
        if part true dims keep x = a ∧ part true dims keep y = b ∧ part false dims keep x = part false dims keep y
        then ρ x y else 0 := by
  rw [partialTrace, sumRange_eq_sum]
  symm
  rw [← sum_ptIndex dims keep hlen (fun x => ∑ y ∈ range (prodDims dims),
    if part true dims keep x = a ∧ part true dims keep y = b ∧ part false dims keep x = part false dims keep y
    then ρ x y else 0)]
  rw [sum_eq_single a]
  · refine sum_congr rfl fun t ht => ?_
    rw [← sum_ptIndex dims keep hlen (fun y =>
      if part true dims keep (ptIndex dims keep a t) = a ∧ part true dims keep y = b
        ∧ part false dims keep (ptIndex dims keep a t) = part false dims keep y
      then ρ (ptIndex dims keep a t) y else 0), sum_eq_single b]
    · rw [sum_eq_single t]
      · have h1 := part_ptIndex dims keep hlen a t ha (mem_range.1 ht)
        have h2 := part_ptIndex dims keep hlen b t hb (mem_range.1 ht)
        simp [h1.1, h1.2, h2.1, h2.2]
      · intro t' ht' hne
        have h1 := part_ptIndex dims keep hlen a t ha (mem_range.1 ht)
        have h2 := part_ptIndex dims keep hlen b t' hb (mem_range.1 ht')
        rw [if_neg]
        rw [h1.2, h2.2]; tauto
      · intro h; exact absurd ht h
    · intro b' hb' hne
      refine sum_eq_zero fun t' ht' => ?_
      have h2 := part_ptIndex dims keep hlen b' t' (mem_range.1 hb') (mem_range.1 ht')
      rw [if_neg]; rw [h2.1]; tauto
    · intro h; exact absurd (mem_range.2 hb) h
  · intro a' ha' hne
    refine sum_eq_zero fun t ht => sum_eq_zero fun y _ => ?_
    have h1 := part_ptIndex dims keep hlen a' t (mem_range.1 ha') (mem_range.1 ht)
    rw [if_neg]; rw [h1.1]; tauto
  · intro h; exact absurd (mem_range.2 ha) h

/-- `part b` reads off the digits of `x` on the axes with mask bit `b` (row-major, like `np.unravel_index`). -/
theorem part_digits (b : Bool) (dims : List ℕ) (keep : List Bool) (hlen : dims.length = keep.length) (x : ℕ)
    (hx : x < prodDims dims) :
    unravel (sel b dims keep) (part b dims keep x) = sel b (unravel dims x) keep :=
  unravel_part b dims keep hlen x hx

/-- the output has `∏ dim[keep]` rows, the kept dimensions in ascending axis order -/
theorem output_size (b : Bool) (dims : List ℕ) (keep : List Bool) :
    prodSel b dims keep = prodDims (sel b dims keep) := prodSel_eq_prodDims_sel b dims keep

/-- the index function is a bijection `[0,∏kept) × [0,∏traced) → [0,∏dims)` (both inverse laws + ranges) -/
theorem ptIndex_bijective (dims : List ℕ) (keep : List Bool) (hlen : dims.length = keep.length) :
    (∀ a t, a < prodSel true dims keep → t < prodSel false dims keep →
      ptIndex dims keep a t < prodDims dims ∧
      part true dims keep (ptIndex dims keep a t) = a ∧ part false dims keep (ptIndex dims keep a t) = t) ∧
    (∀ x, x < prodDims dims →
      part true dims keep x < prodSel true dims keep ∧ part false dims keep x < prodSel false dims keep ∧
      ptIndex dims keep (part true dims keep x) (part false dims keep x) = x) :=
  ⟨fun a t ha ht => ⟨ptIndex_lt dims keep hlen a t ha ht, part_ptIndex dims keep hlen a t ha ht⟩,
   fun x hx => ⟨part_lt true dims keep hlen x hx, part_lt false dims keep hlen x hx, ptIndex_part dims keep hlen x hx⟩⟩

/-- **The partial trace preserves the trace** (unit trace for states). -/
theorem trace_partialTrace (dims : List ℕ) (keep : List Bool) (hlen : dims.length = keep.length) (ρ : ℕ → ℕ → M) :
    ∑ a ∈ range (prodSel true dims keep), partialTrace dims keep ρ a a = ∑ x ∈ range (prodDims dims), ρ x x := by
  simp only [partialTrace, sumRange_eq_sum]
  exact sum_ptIndex dims keep hlen (fun x => ρ x x)

/-- **Tracing in two steps equals tracing in one step**: first keep `keep1`, then (among the kept axes) `keep2`. -/
theorem partialTrace_twice (dims : List ℕ) (keep1 keep2 : List Bool) (h1 : dims.length = keep1.length)
    (h2 : (sel true dims keep1).length = keep2.length) (ρ : ℕ → ℕ → M) (a b : ℕ)
    (ha : a < prodSel true (sel true dims keep1) keep2) (hb : b < prodSel true (sel true dims keep1) keep2) :
    partialTrace (sel true dims keep1) keep2 (partialTrace dims keep1 ρ) a b
      = partialTrace dims (composeMask keep1 keep2) ρ a b := by
  simp only [partialTrace, sumRange_eq_sum]
  exact (sum_compose dims keep1 keep2 h1 h2 (fun x y => ρ x y) a b ha hb).symm

/-- the sparse evaluation used by the driver for large dimension lists is the same map -/
theorem partialTraceSparse_eq (dims : List ℕ) (keep : List Bool) (hlen : dims.length = keep.length)
    (es : List (ℕ × ℕ × M)) (hes : ∀ e ∈ es, e.1 < prodDims dims ∧ e.2.1 < prodDims dims) (a b : ℕ)
    (ha : a < prodSel true dims keep) (hb : b < prodSel true dims keep) :
    partialTraceSparse dims keep es a b = partialTrace dims keep (denseOf es) a b :=
  sparse_eq dims keep hlen es hes a b ha hb

/-- `maskOf` implements `sorted(set(keep_index))`: only membership matters -/
theorem maskOf_spec (n : ℕ) (keepIdx : List ℕ) (i : ℕ) (hi : i < n) :
    (maskOf n keepIdx)[i]? = some (decide (i ∈ keepIdx)) := by
  simp [maskOf, hi]

theorem maskOf_length (n : ℕ) (keepIdx : List ℕ) : (maskOf n keepIdx).length = n := by simp [maskOf]

/-- non-vacuity: the hypotheses are satisfiable and the map is not constant (keep axes {0,2} of 2×3×2) -/
example : prodSel true [2, 3, 2] [true, false, true] = 4 ∧ ptIndex [2, 3, 2] [true, false, true] 3 2 = 11
    ∧ partialTrace [2, 3, 2] [true, false, true] (fun x y => (x * 100 + y : ℕ)) 1 2 = 106 + 308 + 510 := by
  decide

/-! ## Part 2: Dicke basis -/
open Numqi.Dicke

/-- **`n · M(a − e_r) = a_r · M(a)`** for the multinomial `M(a) = (Σa)!/∏aᵢ!` (number of strings of occupation `a`). -/
theorem multinomial_shift (a : List ℕ) (r : ℕ) (hr : r < a.length) (hpos : 0 < a.getD r 0) :
    a.sum * multinomial (a.set r (a.getD r 0 - 1)) = a.getD r 0 * multinomial a :=
  multinomial_shift' a r hr hpos

/-- `get_dicke_klist(n, d)` lists exactly the occupation vectors of length `d` summing to `n` … -/
theorem klist_complete (d n : ℕ) (hd : 1 ≤ d) (a : List ℕ) : a ∈ klist d n ↔ a.length = d ∧ a.sum = n := by
  obtain ⟨e, rfl⟩ : ∃ e, d = e + 1 := ⟨d - 1, by omega⟩
  exact mem_klist_iff e n a

/-- … each exactly once … -/
theorem klist_nodup (d n : ℕ) (hd : 1 ≤ d) : (klist d n).Nodup := by
  obtain ⟨e, rfl⟩ : ∃ e, d = e + 1 := ⟨d - 1, by omega⟩
  exact Dicke.klist_nodup e n

/-- … hence **there are `C(n+d-1, d-1)` Dicke vectors**, which is also what `get_dicke_number` returns. -/
theorem dicke_count (d n : ℕ) (hd : 1 ≤ d) :
    (klist d n).length = (n + d - 1).choose (d - 1) ∧ dickeNumber n d = (klist d n).length := by
  obtain ⟨e, rfl⟩ : ∃ e, d = e + 1 := ⟨d - 1, by omega⟩
  have h := klist_length e n
  refine ⟨by simpa using h, ?_⟩
  rw [dickeNumber, choose_eq, h]; simp

/-- **The number of basis strings of occupation `a` is `M(a)`** (so `1/M(a)` are the squared amplitudes of a unit vector). -/
theorem dicke_support_count (d n : ℕ) (a : List ℕ) (hl : a.length = d) (hs : a.sum = n) :
    cnt d n a = multinomial a := cnt_eq_multinomial d n a hl hs

/-- **Dicke vectors are normalised**: the squared amplitudes sum to one. -/
theorem dicke_norm (d n : ℕ) (a : List ℕ) (hl : a.length = d) (hs : a.sum = n) :
    ∑ x ∈ range (d ^ n), dickeSq d n a x = 1 := by
  have hM : (multinomial a : ℚ) ≠ 0 := by exact_mod_cast (multinomial_pos a).ne'
  have h := cnt_eq_multinomial d n a hl hs
  have : ∀ x ∈ range (d ^ n), dickeSq d n a x
      = ((if occ d (digits d n x) = a then 1 else 0 : ℕ) : ℚ) * (1 / (multinomial a : ℚ)) := by
    intro x _; unfold dickeSq; split <;> simp
  rw [sum_congr rfl this, ← sum_mul, ← Nat.cast_sum]
  have hc : (∑ x ∈ range (d ^ n), if occ d (digits d n x) = a then 1 else 0) = cnt d n a := rfl
  rw [hc, h]; field_simp

/-- **Distinct Dicke vectors are orthogonal**: their supports are disjoint. -/
theorem dicke_orthogonal (d n : ℕ) (a b : List ℕ) (hab : a ≠ b) (x : ℕ) :
    dickeSq d n a x * dickeSq d n b x = 0 := by
  unfold dickeSq
  by_cases h1 : occ d (digits d n x) = a
  · have h2 : ¬ occ d (digits d n x) = b := fun h => hab (h1.symm.trans h)
    simp [h2]
  · simp [h1]

/-- **Permutation invariance**: the amplitude depends on the digit string only through its occupation numbers,
which are invariant under every permutation of the `n` qudits. -/
theorem dicke_perm_invariant (d n : ℕ) (a : List ℕ) (x y : ℕ) (h : (digits d n x).Perm (digits d n y)) :
    dickeSq d n a x = dickeSq d n a y := by
  unfold dickeSq; rw [occ_perm d h]

/-- **Overlap, squared (rational form compared exactly with the code's table):**
`(Σ_y ⟨r,y|D_a⟩⟨D_b|s,y⟩)² = a_r b_s/(n+1)²` if `a − e_r = b − e_s`, else `0`;
here `Σ_y ⟨r,y|D_a⟩⟨D_b|s,y⟩ = common/√(M(a)M(b))`. -/
theorem dicke_overlap_sq (d n r s : ℕ) (a b : List ℕ) (hr : r < d) (hs : s < d) (hla : a.length = d) (hlb : b.length = d)
    (hsa : a.sum = n + 1) (hsb : b.sum = n + 1) :
    ((common d n r s a b : ℚ)) ^ 2 / ((multinomial a : ℚ) * (multinomial b : ℚ)) =
      if 0 < a.getD r 0 ∧ 0 < b.getD s 0 ∧ a.set r (a.getD r 0 - 1) = b.set s (b.getD s 0 - 1)
      then ((a.getD r 0 * b.getD s 0 : ℕ) : ℚ) / (((n + 1) * (n + 1) : ℕ) : ℚ) else 0 := by
  rw [common_eq d n r s a b hr hs hla hlb hsa]
  by_cases hC : 0 < a.getD r 0 ∧ 0 < b.getD s 0 ∧ a.set r (a.getD r 0 - 1) = b.set s (b.getD s 0 - 1)
  · rw [if_pos hC, if_pos hC]
    obtain ⟨h1, h2, h3⟩ := hC
    have e1 := multinomial_shift' a r (by omega) h1
    have e2 := multinomial_shift' b s (by omega) h2
    rw [← h3, hsb] at e2; rw [hsa] at e1
    have hMa : (multinomial a : ℚ) ≠ 0 := by exact_mod_cast (multinomial_pos a).ne'
    have hMb : (multinomial b : ℚ) ≠ 0 := by exact_mod_cast (multinomial_pos b).ne'
    have q1 : ((n : ℚ) + 1) * (multinomial (a.set r (a.getD r 0 - 1)) : ℚ) = (a.getD r 0 : ℚ) * multinomial a := by
      exact_mod_cast e1
    have q2 : ((n : ℚ) + 1) * (multinomial (a.set r (a.getD r 0 - 1)) : ℚ) = (b.getD s 0 : ℚ) * multinomial b := by
      exact_mod_cast e2
    have hn : ((n : ℚ) + 1) ≠ 0 := by positivity
    push_cast
    rw [div_eq_div_iff (mul_ne_zero hMa hMb) (mul_ne_zero hn hn)]
    linear_combination (((n : ℚ) + 1) * (multinomial (a.set r (a.getD r 0 - 1)) : ℚ)) * q1
      + ((a.getD r 0 : ℚ) * multinomial a) * q2
  · rw [if_neg hC, if_neg hC]; simp

/-- **Overlap over ℝ** — the number the code stores: `Σ_y ⟨r,y|D_a⟩⟨D_b|s,y⟩ = √(a_r b_s)/(n+1)·[a − e_r = b − e_s]`. -/
theorem dicke_overlap (d n r s : ℕ) (a b : List ℕ) (hr : r < d) (hs : s < d) (hla : a.length = d) (hlb : b.length = d)
    (hsa : a.sum = n + 1) (hsb : b.sum = n + 1) :
    (common d n r s a b : ℝ) / (√(multinomial a : ℝ) * √(multinomial b : ℝ)) =
      if 0 < a.getD r 0 ∧ 0 < b.getD s 0 ∧ a.set r (a.getD r 0 - 1) = b.set s (b.getD s 0 - 1)
      then √((a.getD r 0 : ℝ) * (b.getD s 0 : ℝ)) / ((n : ℝ) + 1) else 0 := by
  rw [common_eq d n r s a b hr hs hla hlb hsa]
  by_cases hC : 0 < a.getD r 0 ∧ 0 < b.getD s 0 ∧ a.set r (a.getD r 0 - 1) = b.set s (b.getD s 0 - 1)
  · rw [if_pos hC, if_pos hC]
    obtain ⟨h1, h2, h3⟩ := hC
    have e1 := multinomial_shift' a r (by omega) h1
    have e2 := multinomial_shift' b s (by omega) h2
    rw [← h3, hsb] at e2; rw [hsa] at e1
    set c := multinomial (a.set r (a.getD r 0 - 1)) with hc
    have hMa : (0 : ℝ) < multinomial a := by exact_mod_cast multinomial_pos a
    have hMb : (0 : ℝ) < multinomial b := by exact_mod_cast multinomial_pos b
    have q1 : ((n : ℝ) + 1) * (c : ℝ) = (a.getD r 0 : ℝ) * multinomial a := by exact_mod_cast e1
    have q2 : ((n : ℝ) + 1) * (c : ℝ) = (b.getD s 0 : ℝ) * multinomial b := by exact_mod_cast e2
    have hsq : ((c : ℝ) * ((n : ℝ) + 1)) ^ 2
        = ((a.getD r 0 : ℝ) * (b.getD s 0 : ℝ)) * ((multinomial a : ℝ) * (multinomial b : ℝ)) := by
      linear_combination (((n : ℝ) + 1) * (c : ℝ)) * q1 + ((a.getD r 0 : ℝ) * multinomial a) * q2
    have hroot : √(((a.getD r 0 : ℝ) * (b.getD s 0 : ℝ)) * ((multinomial a : ℝ) * (multinomial b : ℝ)))
        = (c : ℝ) * ((n : ℝ) + 1) := by
      rw [← hsq]; exact Real.sqrt_sq (by positivity)
    rw [Real.sqrt_mul (by positivity), Real.sqrt_mul hMa.le] at hroot
    have hd : √(multinomial a : ℝ) * √(multinomial b : ℝ) ≠ 0 :=
      mul_ne_zero (Real.sqrt_ne_zero'.2 hMa) (Real.sqrt_ne_zero'.2 hMb)
    have hn : ((n : ℝ) + 1) ≠ 0 := by positivity
    rw [div_eq_div_iff hd hn]
    linarith
  · rw [if_neg hC, if_neg hC]; simp

/-! ## Part 3: the reduction `A ⊗ Sym^k(B) → AB` -/

/-- amplitude of `D_a` at flat index `x` (over ℝ); its square is the executed model constant `dickeSq` -/
noncomputable def amp (d n : ℕ) (a : List ℕ) (x : ℕ) : ℝ :=
  if occ d (digits d n x) = a then 1 / √(multinomial a : ℝ) else 0

theorem amp_sq (d n : ℕ) (a : List ℕ) (x : ℕ) : (amp d n a x) ^ 2 = ((dickeSq d n a x : ℚ) : ℝ) := by
  unfold amp dickeSq
  split
  · have : (0 : ℝ) ≤ multinomial a := by positivity
    rw [div_pow, Real.sq_sqrt this]; push_cast; ring
  · simp

theorem amp_nonneg (d n : ℕ) (a : List ℕ) (x : ℕ) : 0 ≤ amp d n a x := by
  unfold amp; split <;> positivity

/-- the vector of `A ⊗ B^{⊗ n}` with Dicke coordinates `ψ[α, i]`: `Ψ = (1 ⊗ Dickeᵀ) ψ` -/
noncomputable def embed (d n : ℕ) (ψ : ℕ → ℕ → ℂ) (α x : ℕ) : ℂ :=
  ∑ i ∈ range (klist d n).length, ψ α i * ((amp d n ((klist d n).getD i []) x : ℝ) : ℂ)

/-- `Tr_{B^{n}} |Ψ⟩⟨Ψ|` for `Ψ ∈ A ⊗ B^{⊗ (n+1)}`, entry `((α,r),(β,s))` -/
noncomputable def explicitAB (d n : ℕ) (ψ : ℕ → ℕ → ℂ) (α r β s : ℕ) : ℂ :=
  ∑ y ∈ range (d ^ n), embed d (n + 1) ψ α (r * d ^ n + y) * (starRingEnd ℂ) (embed d (n + 1) ψ β (s * d ^ n + y))

/-- the coefficient the fast reduction must use for the pair of occupation vectors `(a, b)` -/
noncomputable def coef (n r s : ℕ) (a b : List ℕ) : ℝ :=
  if 0 < a.getD r 0 ∧ 0 < b.getD s 0 ∧ a.set r (a.getD r 0 - 1) = b.set s (b.getD s 0 - 1)
  then √((a.getD r 0 : ℝ) * (b.getD s 0 : ℝ)) / ((n : ℝ) + 1) else 0

/-- the table entries over ℂ: `value = √(value²)` -/
noncomputable def tableC (n d : ℕ) (q : ℕ) : List (ℕ × ℕ × ℂ) :=
  (bijTable n d (q / d) (q % d)).map fun e => (e.1, e.2.1, ((√((e.2.2 : ℚ) : ℝ) : ℝ) : ℂ))

/-- **Target statement (full strength, proved below as `dicke_reduction_eq`)**: for every `ψ ∈ A ⊗ Sym^{n+1}(B)` the fast
reduction assembled from the index table equals embedding with the Dicke basis and tracing out `n` copies explicitly. -/
def DickeReduction.Statement : Prop :=
  ∀ (d n : ℕ) (_ : 2 ≤ d) (ψ : ℕ → ℕ → ℂ) (α β r s : ℕ) (_ : r < d) (_ : s < d),
    @Dicke.assembleAB ℂ _ _ _ ⟨starRingEnd ℂ⟩ d (tableC (n + 1) d) ψ (α * d + r) (β * d + s) = explicitAB d n ψ α r β s

/-- **Analytic half of the reduction identity**: the explicit reduction is the double sum over pairs of Dicke vectors with the
closed-form coefficient `√(a_r b_s)/(n+1)·[a − e_r = b − e_s]`.  (The combinatorial half — the index table lists exactly the
pairs with non-zero coefficient, with `value = coefficient` — is `Dicke.row_sum`; together they give `dicke_reduction_eq`.) -/
theorem dicke_reduction_partial (d n : ℕ) (hd : 1 ≤ d) (ψ : ℕ → ℕ → ℂ) (α β r s : ℕ) (hr : r < d) (hs : s < d) :
    explicitAB d n ψ α r β s =
      ∑ i ∈ range (klist d (n + 1)).length, ∑ j ∈ range (klist d (n + 1)).length,
        ψ α i * (starRingEnd ℂ) (ψ β j) *
          ((coef n r s ((klist d (n + 1)).getD i []) ((klist d (n + 1)).getD j []) : ℝ) : ℂ) := by
  set kl := klist d (n + 1) with hkl
  have hmem : ∀ i ∈ range kl.length, (kl.getD i []).length = d ∧ (kl.getD i []).sum = n + 1 := by
    intro i hi
    have hi' := mem_range.1 hi
    rw [List.getD_eq_getElem _ _ hi']
    exact (klist_complete d (n + 1) hd _).1 (List.getElem_mem hi')
  -- overlap of two amplitudes summed over the traced copies
  have hov : ∀ i ∈ range kl.length, ∀ j ∈ range kl.length,
      ∑ y ∈ range (d ^ n), (amp d (n + 1) (kl.getD i []) (r * d ^ n + y)) * (amp d (n + 1) (kl.getD j []) (s * d ^ n + y))
        = coef n r s (kl.getD i []) (kl.getD j []) := by
    intro i hi j hj
    obtain ⟨la, sa⟩ := hmem i hi
    obtain ⟨lb, sb⟩ := hmem j hj
    rw [coef, ← dicke_overlap d n r s _ _ hr hs la lb sa sb, common, Nat.cast_sum, sum_div]
    refine sum_congr rfl fun y _ => ?_
    generalize kl.getD i [] = a
    generalize kl.getD j [] = b
    unfold amp
    by_cases h1 : occ d (digits d (n + 1) (r * d ^ n + y)) = a <;>
      by_cases h2 : occ d (digits d (n + 1) (s * d ^ n + y)) = b <;> simp [h1, h2]
    try ring
  unfold explicitAB embed
  rw [← hkl]
  simp only [map_sum, map_mul, Complex.conj_ofReal, Finset.sum_mul_sum]
  rw [sum_comm]
  refine sum_congr rfl fun i hi => ?_
  rw [sum_comm]
  refine sum_congr rfl fun j hj => ?_
  rw [← hov i hi j hj]
  push_cast
  rw [mul_sum]
  refine sum_congr rfl fun y _ => ?_
  ring

theorem coef_eq_coefN (n r s : ℕ) (a b : List ℕ) : coef n r s a b = coefN (n + 1) r s a b := by
  unfold coef coefN
  by_cases h : Cond r s a b
  · have h' : 0 < a.getD r 0 ∧ 0 < b.getD s 0 ∧ a.set r (a.getD r 0 - 1) = b.set s (b.getD s 0 - 1) := h
    rw [if_pos h, if_pos h', Nat.cast_add, Nat.cast_one]
  · have h' : ¬ (0 < a.getD r 0 ∧ 0 < b.getD s 0 ∧ a.set r (a.getD r 0 - 1) = b.set s (b.getD s 0 - 1)) := h
    rw [if_neg h, if_neg h']

/-- **The fast reduction equals embedding with the Dicke basis and tracing out the copies explicitly** — the target statement,
for every `(copies, dimension)`, every vector of `A ⊗ Sym^{n+1}(B)` and every entry of the reduced matrix. -/
theorem dicke_reduction_eq : DickeReduction.Statement := by
  intro d n hd ψ α β r s hr hs
  have hd1 : 1 ≤ d := by omega
  rw [dicke_reduction_partial d n hd1 ψ α β r s hr hs]
  unfold Dicke.assembleAB tableC
  simp only [div_of_lt hr, mod_of_lt hr, div_of_lt hs, mod_of_lt hs]
  rw [foldr_eq_sum_map, List.map_map, bijTable_eq]
  have hfun : ((fun e : ℕ × ℕ × ℂ => ψ α e.1 * e.2.2 * (starRingEnd ℂ) (ψ β e.2.1)) ∘
      fun e : ℕ × ℕ × ℚ => (e.1, e.2.1, ((√((e.2.2 : ℚ) : ℝ) : ℝ) : ℂ)))
      = fun e : ℕ × ℕ × ℚ => ψ α e.1 * (starRingEnd ℂ) (ψ β e.2.1) * wRoot e.2.2 := by
    funext e; simp only [Function.comp, wRoot]; ring
  rw [hfun, sum_filterMap_range]
  refine sum_congr rfl fun i hi => ?_
  refine Eq.trans (row_sum (n + 1) d r s hd1 hr hs i (mem_range.1 hi) (fun i j => ψ α i * (starRingEnd ℂ) (ψ β j))) ?_
  refine sum_congr rfl fun j _ => ?_
  rw [coef_eq_coefN]

/-! ## Part 4: the users of the reduction (`entangle/pureb.py`, `maximum_entropy/_internal.py`) -/

/-- the embedded vector on the flat index of the register `[A, B, B^{⊗n}]` -/
noncomputable def embedFlat (d n : ℕ) (ψ : ℕ → ℕ → ℂ) (x : ℕ) : ℂ := embed d (n + 1) ψ (x / d ^ (n + 1)) (x % d ^ (n + 1))

/-- **the explicit reduction of Part 3 is the model's `partialTrace`** of `|Ψ⟩⟨Ψ|` over the register `[dimA, d, d^n]` with the
last block traced out -/
theorem explicitAB_eq_partialTrace (dimA d n : ℕ) (ψ : ℕ → ℕ → ℂ) (α r β s : ℕ) (hr : r < d) (hs : s < d) :
    explicitAB d n ψ α r β s
      = partialTrace [dimA, d, d ^ n] [true, true, false]
          (fun x y => embedFlat d n ψ x * (starRingEnd ℂ) (embedFlat d n ψ y)) (α * d + r) (β * d + s) := by
  simp only [explicitAB, partialTrace, sumRange_eq_sum, ptIndex, prodSel, prodDims, Bool.false_eq_true, Bool.true_eq_false, if_false, if_true,
    one_mul, mul_one, Nat.div_one, Nat.mod_one, Nat.add_zero, div_of_lt hr, mod_of_lt hr, div_of_lt hs, mod_of_lt hs]
  refine sum_congr rfl fun y hy => ?_
  have hy' := mem_range.1 hy
  have hpow : d ^ (n + 1) = d * d ^ n := by rw [pow_succ, Nat.mul_comm]
  have h1 : r * d ^ n + y < d ^ (n + 1) := by rw [hpow]; exact mul_add_lt hr hy'
  have h2 : s * d ^ n + y < d ^ (n + 1) := by rw [hpow]; exact mul_add_lt hs hy'
  have e1 : α * (d * d ^ n) + (r * d ^ n + y) = α * d ^ (n + 1) + (r * d ^ n + y) := by rw [hpow]
  have e2 : β * (d * d ^ n) + (s * d ^ n + y) = β * d ^ (n + 1) + (s * d ^ n + y) := by rw [hpow]
  simp only [embedFlat, Nat.add_assoc, e1, e2, div_of_lt h1, mod_of_lt h1, div_of_lt h2, mod_of_lt h2]

/-- **`PureBosonicExt.forward`**: the density matrix it hands to the loss — parameter vector reshaped to `(dimA, L)` and reduced
with the index table — is the `partialTrace` of the explicitly embedded state, for every parameter vector `v`. -/
theorem pureb_forward_eq (dimA d n : ℕ) (hd : 2 ≤ d) (v : ℕ → ℂ) (α β r s : ℕ) (hr : r < d) (hs : s < d) :
    @Dicke.purebReduce ℂ _ _ _ ⟨starRingEnd ℂ⟩ d (klist d (n + 1)).length (tableC (n + 1) d) v (α * d + r) (β * d + s)
      = partialTrace [dimA, d, d ^ n] [true, true, false]
          (fun x y => embedFlat d n (purebCoeff (klist d (n + 1)).length v) x
            * (starRingEnd ℂ) (embedFlat d n (purebCoeff (klist d (n + 1)).length v) y)) (α * d + r) (β * d + s) := by
  rw [← explicitAB_eq_partialTrace dimA d n _ α r β s hr hs]
  exact dicke_reduction_eq d n hd (purebCoeff (klist d (n + 1)).length v) α β r s hr hs

/-- **`sdp_2local_rdm_solve`**: the two nested `partial_trace` calls give the reduced state of the block `(ind0, ind0+1)`:
one `partialTrace` over the register `[L, 4, R]` (`L = 2^ind0`, `R = 2^(n-2-ind0)`) keeping the middle block. -/
theorem rdm2local_eq {M : Type} [AddCommMonoid M] (L R : ℕ) (hL : L ≠ 1) (hR : R ≠ 1) (X : ℕ → ℕ → M) (a b : ℕ) :
    rdmTwoStep L R X a b = partialTrace [L, 4, R] [false, true, false] X a b := rdmTwoStep_eq L R hL hR X a b

/-- boundary blocks of the chain (`ind0 = 0`, `ind0 = n-2`) -/
theorem rdm2local_boundary {M : Type} [AddCommMonoid M] (B : ℕ) (hB : B ≠ 1) (X : ℕ → ℕ → M) (a b : ℕ) :
    rdmTwoStep 1 B X a b = partialTrace [4, B] [true, false] X a b ∧
    rdmTwoStep B 1 X a b = partialTrace [B, 4] [false, true] X a b :=
  ⟨rdmTwoStep_left B hB X a b, rdmTwoStep_right B hB X a b⟩

/-- splitting an axis into two axes with the same mask bit does not change the partial trace (so `[L,4,R]` may be read as the
qubit register `[2,…,2]` one factor at a time) -/
theorem partialTrace_regroup {M : Type} [AddCommMonoid M] (d1 d2 : ℕ) (ds : List ℕ) (k : Bool) (ks : List Bool)
    (ρ : ℕ → ℕ → M) (a b : ℕ) :
    partialTrace (d1 :: d2 :: ds) (k :: k :: ks) ρ a b = partialTrace (d1 * d2 :: ds) (k :: ks) ρ a b :=
  partialTrace_split d1 d2 ds k ks ρ a b

section users
variable {R : Type} [CommRing R] [StarRing R]

/-- **expectation of an operator embedded on the kept axes = expectation in the partial trace** (the identity behind both
`get_ABk_gellmann_preimage_op` kinds and the 2-local constraints) -/
theorem embedded_expectation (dims : List ℕ) (keep : List Bool) (hlen : dims.length = keep.length) (G : ℕ → ℕ → R) (ψ : ℕ → R) :
    ∑ x ∈ range (prodDims dims), ∑ y ∈ range (prodDims dims), star (ψ x) * embedKeep dims keep G x y * ψ y
      = ∑ u ∈ range (prodSel true dims keep), ∑ v ∈ range (prodSel true dims keep),
          G u v * partialTrace dims keep (fun y x => ψ y * star (ψ x)) v u :=
  embedKeep_expectation dims keep hlen G ψ

/-- **`get_ABk_gellmann_preimage_op(kind='symmetric')`** (numerator; the code divides by `kext`) -/
theorem preimage_symmetric_expectation (dimA dimB k : ℕ) (G : ℕ → ℕ → R) (ψ : ℕ → R) :
    ∑ x ∈ range (prodDims (dimA :: List.replicate k dimB)), ∑ y ∈ range (prodDims (dimA :: List.replicate k dimB)),
        star (ψ x) * preimageSymSum dimA dimB k G x y * ψ y
      = ∑ c ∈ range k, ∑ u ∈ range (prodSel true (dimA :: List.replicate k dimB) (maskAB k (c + 1))),
          ∑ v ∈ range (prodSel true (dimA :: List.replicate k dimB) (maskAB k (c + 1))),
          G u v * partialTrace (dimA :: List.replicate k dimB) (maskAB k (c + 1)) (fun y x => ψ y * star (ψ x)) v u :=
  preimageSym_expectation dimA dimB k G ψ

/-- **`get_ABk_gellmann_preimage_op(kind='boson')`**: `⟨ψ|preimage(G)|ψ⟩ = Tr(G·ρ_AB)` with `ρ_AB` the fast reduction written with
the same tensor (`assembleTensor`), for every tensor with the overlap symmetry `B[r,s,i,j] = B[s,r,j,i]` on the index ranges
(discharged for the executed table, all sizes, by `tensor_overlap_symmetric`; composed in `preimage_boson_end_to_end`). -/
theorem preimage_boson_expectation (dimA dimB L : ℕ) (G : ℕ → ℕ → R) (B : ℕ → ℕ → ℕ → ℕ → R)
    (hsym : ∀ r s i j, r < dimB → s < dimB → i < L → j < L → B r s i j = B s r j i) (ψ : ℕ → ℕ → R) :
    ∑ x ∈ range (dimA * L), ∑ y ∈ range (dimA * L),
        star (ψ (x / L) (x % L)) * preimageBoson dimB L G B x y * ψ (y / L) (y % L)
      = ∑ u ∈ range (dimA * dimB), ∑ v ∈ range (dimA * dimB), G u v * assembleTensor dimB L B ψ v u :=
  preimageBoson_expectation dimA dimB L G B hsym ψ

end users

/-- **list form = tensor form** of the fast reduction, for the real index table: `partial_trace_ABk_to_AB(ψ, Bij)` equals the
contraction of `ψ ⊗ conj ψ` with `get_partial_trace_ABk_to_AB_index(…, return_tensor=True)` (what `get_ABk_gellmann_preimage_op`
uses), for every `(n, d)`. -/
theorem reduction_list_eq_tensor (N d : ℕ) (ψ : ℕ → ℕ → ℂ) (x y : ℕ) :
    @Dicke.assembleAB ℂ _ _ _ ⟨starRingEnd ℂ⟩ d (tableC N d) ψ x y
      = @Dicke.assembleTensor ℂ _ _ _ ⟨starRingEnd ℂ⟩ d (klist d N).length
          (@Dicke.tensorOfTable ℂ _ d (tableC N d)) ψ x y := by
  refine @assembleAB_eq_assembleTensor ℂ _ _ d (klist d N).length (tableC N d) ψ ?_ ?_ x y
  · intro q e he
    simp only [tableC, List.mem_map] at he
    obtain ⟨e0, he0, rfl⟩ := he
    exact (bijTable_wf N d (q / d) (q % d)).1 e0 he0
  · intro q
    simp only [tableC]
    rw [List.pairwise_map]
    exact (bijTable_wf N d (q / d) (q % d)).2

/-- **the Dicke vectors span the permutation-invariant vectors** (the missing half of "basis of the symmetric subspace"): a vector
of `(ℂ^d)^{⊗n}` (here real amplitudes on the flat index range) that is invariant under every permutation of the `n` qudits is
constant on occupation classes, hence a linear combination of the `C(n+d−1, d−1)` Dicke vectors of `get_dicke_klist`. -/
theorem dicke_span (d n : ℕ) (hd : 1 ≤ d) (v : ℕ → ℝ)
    (hsym : ∀ x y, x < d ^ n → y < d ^ n → (digits d n x).Perm (digits d n y) → v x = v y) :
    ∃ c : List ℕ → ℝ, ∀ x, x < d ^ n → v x = ((klist d n).map fun a => c a * amp d n a x).sum := by
  classical
  let w : List ℕ → ℝ := fun a => if h : ∃ x, x < d ^ n ∧ occ d (digits d n x) = a then v (Classical.choose h) else 0
  refine ⟨fun a => w a * √(multinomial a : ℝ), fun x hx => ?_⟩
  set a0 := occ d (digits d n x) with ha0
  have hmem : a0 ∈ klist d n := occ_digits_mem_klist d n x hd hx
  have hterm : ∀ a, w a * √(multinomial a : ℝ) * amp d n a x = if a0 = a then w a else 0 := by
    intro a
    unfold amp
    by_cases h : a0 = a
    · have hM : (0 : ℝ) < multinomial a := by exact_mod_cast multinomial_pos a
      have hs : √(multinomial a : ℝ) ≠ 0 := Real.sqrt_ne_zero'.2 hM
      rw [if_pos h, if_pos h]
      field_simp
    · rw [if_neg h, if_neg h, mul_zero]
  simp only [hterm]
  rw [sum_map_single (klist d n) (C17.klist_nodup d n hd) a0 hmem w]
  have hex : ∃ y, y < d ^ n ∧ occ d (digits d n y) = a0 := ⟨x, hx, rfl⟩
  show v x = w a0
  simp only [w, dif_pos hex]
  obtain ⟨hy1, hy2⟩ := Classical.choose_spec hex
  exact symmetric_const_on_occ d n v hsym x _ hx hy1 hy2.symm

/-- **overlap symmetry of the executed tensor, every `(N, d)`**: `B[r,s,i,j] = B[s,r,j,i]` for `return_tensor=True`
(each entry is the closed-form coefficient `√(a_r b_s)/N·[a−e_r = b−e_s]`, `Dicke.valOf_tableCq`) — the hypothesis of
`preimage_boson_expectation`. -/
theorem tensor_overlap_symmetric (N d : ℕ) (hd : 1 ≤ d) (r s i j : ℕ) (hr : r < d) (hs : s < d)
    (hi : i < (klist d N).length) (hj : j < (klist d N).length) :
    @Dicke.tensorOfTable ℂ _ d (tableC N d) r s i j = @Dicke.tensorOfTable ℂ _ d (tableC N d) s r j i := by
  have e1 : @Dicke.tensorOfTable ℂ _ d (tableC N d) r s i j = valOf (tableCq N d r s) i j := by
    show valOf (tableC N d (r * d + s)) i j = _
    simp only [tableC, div_of_lt hs, mod_of_lt hs]; rfl
  have e2 : @Dicke.tensorOfTable ℂ _ d (tableC N d) s r j i = valOf (tableCq N d s r) j i := by
    show valOf (tableC N d (s * d + r)) j i = _
    simp only [tableC, div_of_lt hr, mod_of_lt hr]; rfl
  rw [e1, e2]
  exact tensor_symm N d r s i j hd hr hs hi hj

/-- **`get_ABk_gellmann_preimage_op(kind='boson')`, end to end**: for the executed tensor, every `d ≥ 2`, number of copies `n+1`,
observable `G` and coefficient matrix `ψ`:
`⟨ψ| preimage(G) |ψ⟩ = Σ_{u,v} G_{uv}·(Tr_{B^n} |Ψ⟩⟨Ψ|)_{vu}` with the model's `partialTrace` of the explicitly embedded state. -/
theorem preimage_boson_end_to_end (dimA d n : ℕ) (hd : 2 ≤ d) (G : ℕ → ℕ → ℂ) (ψ : ℕ → ℕ → ℂ) :
    let L := (klist d (n + 1)).length
    ∑ x ∈ range (dimA * L), ∑ y ∈ range (dimA * L),
        star (ψ (x / L) (x % L)) * @Dicke.preimageBoson ℂ _ _ _ d L G (@Dicke.tensorOfTable ℂ _ d (tableC (n + 1) d)) x y
          * ψ (y / L) (y % L)
      = ∑ u ∈ range (dimA * d), ∑ v ∈ range (dimA * d), G u v *
          partialTrace [dimA, d, d ^ n] [true, true, false]
            (fun x y => embedFlat d n ψ x * (starRingEnd ℂ) (embedFlat d n ψ y)) v u := by
  intro L
  have hd1 : 1 ≤ d := by omega
  have hpos : 0 < d := by omega
  rw [preimageBoson_expectation dimA d L G _
    (fun r s i j hr hs hi hj => tensor_overlap_symmetric (n + 1) d hd1 r s i j hr hs hi hj) ψ]
  refine sum_congr rfl fun u _ => sum_congr rfl fun v _ => ?_
  congr 1
  have hv : v % d < d := Nat.mod_lt _ hpos
  have hu : u % d < d := Nat.mod_lt _ hpos
  have e1 : assembleTensor d L (@Dicke.tensorOfTable ℂ _ d (tableC (n + 1) d)) ψ v u
      = @Dicke.assembleAB ℂ _ _ _ ⟨starRingEnd ℂ⟩ d (tableC (n + 1) d) ψ v u :=
    (reduction_list_eq_tensor (n + 1) d ψ v u).symm
  rw [e1]
  have e2 := dicke_reduction_eq d n hd ψ (v / d) (u / d) (v % d) (u % d) hv hu
  rw [Nat.div_add_mod' v d, Nat.div_add_mod' u d] at e2
  rw [e2, explicitAB_eq_partialTrace dimA d n ψ (v / d) (v % d) (u / d) (u % d) hv hu,
    Nat.div_add_mod' v d, Nat.div_add_mod' u d]

/-- Boolean check of the overlap symmetry `B[r,s,i,j] = B[s,r,j,i]` (on `value²`) -/
def tensorSymmetric (n d : ℕ) : Bool :=
  let L := (klist d n).length
  let T := @Dicke.tensorOfTable ℚ _ d (fun q => bijTable n d (q / d) (q % d))
  (List.range d).all fun r => (List.range d).all fun s => (List.range L).all fun i => (List.range L).all fun j =>
    decide (T r s i j = T s r j i)

/-- the symmetry hypothesis of `preimage_boson_expectation` holds for the executed table (kernel evaluation, small sizes; the
tensor itself is compared with the implementation exactly on every run) -/
theorem tensor_symmetric_small :
    tensorSymmetric 1 2 = true ∧ tensorSymmetric 2 2 = true ∧ tensorSymmetric 3 2 = true ∧ tensorSymmetric 4 2 = true ∧
    tensorSymmetric 2 3 = true ∧ tensorSymmetric 3 3 = true ∧ tensorSymmetric 2 4 = true := by
  decide +kernel

/-- rational square of `coef` for total copy number `n` -/
def coefSq (n r s : ℕ) (a b : List ℕ) : ℚ :=
  if 0 < a.getD r 0 ∧ 0 < b.getD s 0 ∧ a.set r (a.getD r 0 - 1) = b.set s (b.getD s 0 - 1)
  then ((a.getD r 0 * b.getD s 0 : ℕ) : ℚ) / ((n * n : ℕ) : ℚ) else 0

theorem coef_sq (n r s : ℕ) (a b : List ℕ) : (coef n r s a b) ^ 2 = ((coefSq (n + 1) r s a b : ℚ) : ℝ) := by
  unfold coef coefSq
  split
  · rw [div_pow, Real.sq_sqrt (by positivity)]; push_cast; ring
  · simp

/-- Boolean check: for every `(r,s)` and every pair `(i,j)` of Dicke indices the table of `(n,d)` holds at most one triple
`(i,j,·)`, all its indices are in range, and its `value²` (0 if there is no triple) is `coefSq` — i.e. the table lists exactly
the support of `coef`, with the right values. -/
def tableMatches (n d : ℕ) : Bool :=
  let kl := klist d n
  (List.range (d * d)).all fun q =>
    let t := bijTable n d (q / d) (q % d)
    t.all (fun e => decide (e.1 < kl.length ∧ e.2.1 < kl.length)) &&
    (List.range kl.length).all fun i => (List.range kl.length).all fun j =>
      let hits := t.filter fun e => decide (e.1 = i ∧ e.2.1 = j)
      decide (hits.length ≤ 1) && decide ((hits.map (·.2.2)).sum = coefSq n (q / d) (q % d) (kl.getD i []) (kl.getD j []))

/-- independent finite cross-check by kernel evaluation: for `(n, d)` with `n ≤ 4, d ≤ 3` and `n ≤ 3, d = 4` the executed table
holds, for every `(r,s)` and `(i,j)`, at most one triple, indices in range, and `value² = coefSq` (all sizes: `dicke_reduction_eq`) -/
theorem bijTable_lists_coef_support :
    tableMatches 1 2 = true ∧ tableMatches 2 2 = true ∧ tableMatches 3 2 = true ∧ tableMatches 4 2 = true ∧
    tableMatches 1 3 = true ∧ tableMatches 2 3 = true ∧ tableMatches 3 3 = true ∧ tableMatches 4 3 = true ∧
    tableMatches 1 4 = true ∧ tableMatches 2 4 = true ∧ tableMatches 3 4 = true := by
  decide +kernel

/-! ### `PureBosonicExt`: the stored table and the expectation branch -/

/-- the table `PureBosonicExt.__init__` stores is the model's table: substituting the table's own values position by position gives
the table back (the exact tie substitutes *integer* values into the index lists of `bijTable`, which the object must therefore share) -/
theorem tableWith_self {β : Type} (tab : List (ℕ × ℕ × β)) : tableWith tab (tab.map (·.2.2)) = tab := by
  unfold tableWith
  induction tab with
  | nil => rfl
  | cons e t ih => simp only [List.map_cons, List.zip_cons_cons, ih]

/-- … and the substitution never changes an index pair -/
theorem tableWith_indices {α β : Type} (tab : List (ℕ × ℕ × β)) (w : List α) (h : w.length = tab.length) :
    (tableWith tab w).map (fun e => (e.1, e.2.1)) = tab.map (fun e => (e.1, e.2.1)) := by
  unfold tableWith
  induction tab generalizing w with
  | nil => simp
  | cons e t ih =>
    cases w with
    | nil => simp at h
    | cons x w => simp only [List.zip_cons_cons, List.map_cons, ih w (by simpa using h)]

/-- **the expectation branch of `PureBosonicExt.forward`**: `dot(dm.view(-1), op.T.reshape(-1))` is `tr(op·ρ_AB)` -/
theorem expectLoss_eq_trace {R : Type} [CommRing R] (N : ℕ) (op ρ : ℕ → ℕ → R) :
    expectLoss N op ρ = ∑ y ∈ Finset.range N, ∑ x ∈ Finset.range N, op y x * ρ x y := by
  simp only [expectLoss, sumRange_eq_sum]
  rw [Finset.sum_comm]
  exact Finset.sum_congr rfl fun y _ => Finset.sum_congr rfl fun x _ => mul_comm _ _

/-- non-vacuity of the Dicke hypotheses: `(2,0,1)` is an occupation vector of `(n,d) = (3,3)` with `M = 3` -/
example : [2, 0, 1] ∈ klist 3 3 ∧ multinomial [2, 0, 1] = 3 ∧ (klist 3 3).length = 10 ∧ cnt 3 3 [2, 0, 1] = 3 := by
  decide +kernel

end Numqi.C17
