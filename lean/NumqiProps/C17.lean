/-
C17 — partial traces and the Dicke-basis reduction equal the explicit contraction.

Property theorems only.  Part 1 (`utils.partial_trace`) holds for every additive commutative monoid of
scalars, every dimension list and every keep mask.  Part 2 (Dicke) is combinatorics over ℕ/ℚ plus the
reduction identity over ℝ.
-/
import NumqiProofs.PartialTrace
import NumqiProofs.Dicke

namespace Numqi.C17
open Numqi Numqi.PT Finset

variable {M : Type} [AddCommMonoid M]

/-! ## Part 1: `partial_trace` -/

/-- **`partial_trace` is the explicit index contraction.**
`(Tr_T ρ)[a,b] = Σ_{x,y} ρ[x,y]` over the pairs of flat indices whose kept digits are those of `a` resp. `b`
and whose traced digits coincide (`part_digits` says that `part` reads off exactly those digits). -/
theorem partialTrace_eq_contraction (dims : List ℕ) (keep : List Bool) (hlen : dims.length = keep.length)
    (ρ : ℕ → ℕ → M) (a b : ℕ) (ha : a < prodSel true dims keep) (hb : b < prodSel true dims keep) :
    partialTrace dims keep ρ a b =
      ∑ x ∈ range (prodDims dims), ∑ y ∈ range (prodDims dims),
        if part true dims keep x = a ∧ part true dims keep y = b ∧ part false dims keep x = part false dims keep y
        then ρ x y else 0 := by
  rw [partialTrace, sumRange_eq_sum]
  rw [← sum_ptIndex dims keep hlen]
  rw [sum_eq_single a]
  · refine sum_congr rfl fun t ht => ?_
    rw [← sum_ptIndex dims keep hlen, sum_eq_single b]
    · rw [sum_eq_single t]
      · have h1 := part_ptIndex dims keep hlen a t ha (mem_range.1 ht)
        have h2 := part_ptIndex dims keep hlen b t hb (mem_range.1 ht)
        simp [h1.1, h1.2, h2.1, h2.2]
      · intro t' ht' hne
        have h1 := part_ptIndex dims keep hlen a t ha (mem_range.1 ht)
        have h2 := part_ptIndex dims keep hlen b t' hb (mem_range.1 ht')
        rw [if_neg]
        rw [h1.2, h2.2]; tauto
      · intro h; exact absurd ht h
    · intro b' hb' hne
      refine sum_eq_zero fun t' ht' => ?_
      have h2 := part_ptIndex dims keep hlen b' t' (mem_range.1 hb') (mem_range.1 ht')
      rw [if_neg]; rw [h2.1]; tauto
    · intro h; exact absurd (mem_range.2 hb) h
  · intro a' ha' hne
    refine sum_eq_zero fun t ht => sum_eq_zero fun y _ => ?_
    have h1 := part_ptIndex dims keep hlen a' t (mem_range.1 ha') (mem_range.1 ht)
    rw [if_neg]; rw [h1.1]; tauto
  · intro h; exact absurd (mem_range.2 ha) h

/-- `part b` reads off the digits of `x` on the axes with mask bit `b` (row-major, like `np.unravel_index`). -/
theorem part_digits (b : Bool) (dims : List ℕ) (keep : List Bool) (hlen : dims.length = keep.length) (x : ℕ)
    (hx : x < prodDims dims) :
    unravel (sel b dims keep) (part b dims keep x) = sel b (unravel dims x) keep :=
  unravel_part b dims keep hlen x hx

/-- the output has `∏ dim[keep]` rows, the kept dimensions in ascending axis order -/
theorem output_size (b : Bool) (dims : List ℕ) (keep : List Bool) :
    prodSel b dims keep = prodDims (sel b dims keep) := prodSel_eq_prodDims_sel b dims keep

/-- the index function is a bijection `[0,∏kept) × [0,∏traced) → [0,∏dims)` (both inverse laws + ranges) -/
theorem ptIndex_bijective (dims : List ℕ) (keep : List Bool) (hlen : dims.length = keep.length) :
    (∀ a t, a < prodSel true dims keep → t < prodSel false dims keep →
      ptIndex dims keep a t < prodDims dims ∧
      part true dims keep (ptIndex dims keep a t) = a ∧ part false dims keep (ptIndex dims keep a t) = t) ∧
    (∀ x, x < prodDims dims →
      part true dims keep x < prodSel true dims keep ∧ part false dims keep x < prodSel false dims keep ∧
      ptIndex dims keep (part true dims keep x) (part false dims keep x) = x) :=
  ⟨fun a t ha ht => ⟨ptIndex_lt dims keep hlen a t ha ht, part_ptIndex dims keep hlen a t ha ht⟩,
   fun x hx => ⟨part_lt true dims keep hlen x hx, part_lt false dims keep hlen x hx, ptIndex_part dims keep hlen x hx⟩⟩

/-- **The partial trace preserves the trace** (unit trace for states). -/
theorem trace_partialTrace (dims : List ℕ) (keep : List Bool) (hlen : dims.length = keep.length) (ρ : ℕ → ℕ → M) :
    ∑ a ∈ range (prodSel true dims keep), partialTrace dims keep ρ a a = ∑ x ∈ range (prodDims dims), ρ x x := by
  simp only [partialTrace, sumRange_eq_sum]
  exact sum_ptIndex dims keep hlen (fun x => ρ x x)

/-- **Tracing in two steps equals tracing in one step**: first keep `keep1`, then (among the kept axes) `keep2`. -/
theorem partialTrace_twice (dims : List ℕ) (keep1 keep2 : List Bool) (h1 : dims.length = keep1.length)
    (h2 : (sel true dims keep1).length = keep2.length) (ρ : ℕ → ℕ → M) (a b : ℕ)
    (ha : a < prodSel true (sel true dims keep1) keep2) (hb : b < prodSel true (sel true dims keep1) keep2) :
    partialTrace (sel true dims keep1) keep2 (partialTrace dims keep1 ρ) a b
      = partialTrace dims (composeMask keep1 keep2) ρ a b := by
  simp only [partialTrace, sumRange_eq_sum]
  exact (sum_compose dims keep1 keep2 h1 h2 (fun x y => ρ x y) a b ha hb).symm

/-- the sparse evaluation used by the driver for large dimension lists is the same map -/
theorem partialTraceSparse_eq (dims : List ℕ) (keep : List Bool) (hlen : dims.length = keep.length)
    (es : List (ℕ × ℕ × M)) (hes : ∀ e ∈ es, e.1 < prodDims dims ∧ e.2.1 < prodDims dims) (a b : ℕ)
    (ha : a < prodSel true dims keep) (hb : b < prodSel true dims keep) :
    partialTraceSparse dims keep es a b = partialTrace dims keep (denseOf es) a b :=
  sparse_eq dims keep hlen es hes a b ha hb

/-- `maskOf` implements `sorted(set(keep_index))`: only membership matters -/
theorem maskOf_spec (n : ℕ) (keepIdx : List ℕ) (i : ℕ) (hi : i < n) :
    (maskOf n keepIdx)[i]? = some (decide (i ∈ keepIdx)) := by
  simp [maskOf, hi, List.contains_iff_mem]

theorem maskOf_length (n : ℕ) (keepIdx : List ℕ) : (maskOf n keepIdx).length = n := by simp [maskOf]

/-- non-vacuity: the hypotheses are satisfiable and the map is not constant (keep axes {0,2} of 2×3×2) -/
example : prodSel true [2, 3, 2] [true, false, true] = 4 ∧ ptIndex [2, 3, 2] [true, false, true] 3 2 = 11
    ∧ partialTrace [2, 3, 2] [true, false, true] (fun x y => (x * 100 + y : ℕ)) 1 2 = 1 * 100 + 2 + (3 * 100 + 4) + (5 * 100 + 6) := by
  decide

end Numqi.C17
