/-
C14 — thorough-tier finite tables: tableaux for all partitions of N = 9, 10 (built only by `--tier thorough`).
One kernel evaluation per shape (they are independent, so they can be checked in parallel and with bounded memory).
-/
import NumqiProps.C14

namespace Numqi.C14
open Numqi Numqi.FinGroup Numqi.Young

private theorem tabOK_9 : tableauxOK [9] = true := by decide +kernel
private theorem tabOK_8_1 : tableauxOK [8, 1] = true := by decide +kernel
private theorem tabOK_7_2 : tableauxOK [7, 2] = true := by decide +kernel
private theorem tabOK_6_3 : tableauxOK [6, 3] = true := by decide +kernel
private theorem tabOK_5_4 : tableauxOK [5, 4] = true := by decide +kernel
private theorem tabOK_7_1_1 : tableauxOK [7, 1, 1] = true := by decide +kernel
private theorem tabOK_6_2_1 : tableauxOK [6, 2, 1] = true := by decide +kernel
private theorem tabOK_5_3_1 : tableauxOK [5, 3, 1] = true := by decide +kernel
private theorem tabOK_4_4_1 : tableauxOK [4, 4, 1] = true := by decide +kernel
private theorem tabOK_5_2_2 : tableauxOK [5, 2, 2] = true := by decide +kernel
private theorem tabOK_4_3_2 : tableauxOK [4, 3, 2] = true := by decide +kernel
private theorem tabOK_3_3_3 : tableauxOK [3, 3, 3] = true := by decide +kernel
private theorem tabOK_6_1_1_1 : tableauxOK [6, 1, 1, 1] = true := by decide +kernel
private theorem tabOK_5_2_1_1 : tableauxOK [5, 2, 1, 1] = true := by decide +kernel
private theorem tabOK_4_3_1_1 : tableauxOK [4, 3, 1, 1] = true := by decide +kernel
private theorem tabOK_4_2_2_1 : tableauxOK [4, 2, 2, 1] = true := by decide +kernel
private theorem tabOK_3_3_2_1 : tableauxOK [3, 3, 2, 1] = true := by decide +kernel
private theorem tabOK_3_2_2_2 : tableauxOK [3, 2, 2, 2] = true := by decide +kernel
private theorem tabOK_5_1_1_1_1 : tableauxOK [5, 1, 1, 1, 1] = true := by decide +kernel
private theorem tabOK_4_2_1_1_1 : tableauxOK [4, 2, 1, 1, 1] = true := by decide +kernel
private theorem tabOK_3_3_1_1_1 : tableauxOK [3, 3, 1, 1, 1] = true := by decide +kernel
private theorem tabOK_3_2_2_1_1 : tableauxOK [3, 2, 2, 1, 1] = true := by decide +kernel
private theorem tabOK_2_2_2_2_1 : tableauxOK [2, 2, 2, 2, 1] = true := by decide +kernel
private theorem tabOK_4_1_1_1_1_1 : tableauxOK [4, 1, 1, 1, 1, 1] = true := by decide +kernel
private theorem tabOK_3_2_1_1_1_1 : tableauxOK [3, 2, 1, 1, 1, 1] = true := by decide +kernel
private theorem tabOK_2_2_2_1_1_1 : tableauxOK [2, 2, 2, 1, 1, 1] = true := by decide +kernel
private theorem tabOK_3_1_1_1_1_1_1 : tableauxOK [3, 1, 1, 1, 1, 1, 1] = true := by decide +kernel
private theorem tabOK_2_2_1_1_1_1_1 : tableauxOK [2, 2, 1, 1, 1, 1, 1] = true := by decide +kernel
private theorem tabOK_2_1_1_1_1_1_1_1 : tableauxOK [2, 1, 1, 1, 1, 1, 1, 1] = true := by decide +kernel
private theorem tabOK_1_1_1_1_1_1_1_1_1 : tableauxOK [1, 1, 1, 1, 1, 1, 1, 1, 1] = true := by decide +kernel

private theorem shapes_9 : shapes 9 = [[9], [8, 1], [7, 2], [6, 3], [5, 4], [7, 1, 1], [6, 2, 1], [5, 3, 1], [4, 4, 1], [5, 2, 2], [4, 3, 2], [3, 3, 3], [6, 1, 1, 1], [5, 2, 1, 1], [4, 3, 1, 1], [4, 2, 2, 1], [3, 3, 2, 1], [3, 2, 2, 2], [5, 1, 1, 1, 1], [4, 2, 1, 1, 1], [3, 3, 1, 1, 1], [3, 2, 2, 1, 1], [2, 2, 2, 2, 1], [4, 1, 1, 1, 1, 1], [3, 2, 1, 1, 1, 1], [2, 2, 2, 1, 1, 1], [3, 1, 1, 1, 1, 1, 1], [2, 2, 1, 1, 1, 1, 1], [2, 1, 1, 1, 1, 1, 1, 1], [1, 1, 1, 1, 1, 1, 1, 1, 1]] := by decide +kernel

private theorem tabOK_all_9 : ∀ shape ∈ shapes 9, tableauxOK shape = true := by
  rw [shapes_9]
  intro shape hs
  simp only [List.mem_cons, List.not_mem_nil, or_false] at hs
  rcases hs with rfl | rfl | rfl | rfl | rfl | rfl | rfl | rfl | rfl | rfl | rfl | rfl | rfl | rfl | rfl | rfl | rfl | rfl | rfl | rfl | rfl | rfl | rfl | rfl | rfl | rfl | rfl | rfl | rfl | rfl
  · exact tabOK_9
  · exact tabOK_8_1
  · exact tabOK_7_2
  · exact tabOK_6_3
  · exact tabOK_5_4
  · exact tabOK_7_1_1
  · exact tabOK_6_2_1
  · exact tabOK_5_3_1
  · exact tabOK_4_4_1
  · exact tabOK_5_2_2
  · exact tabOK_4_3_2
  · exact tabOK_3_3_3
  · exact tabOK_6_1_1_1
  · exact tabOK_5_2_1_1
  · exact tabOK_4_3_1_1
  · exact tabOK_4_2_2_1
  · exact tabOK_3_3_2_1
  · exact tabOK_3_2_2_2
  · exact tabOK_5_1_1_1_1
  · exact tabOK_4_2_1_1_1
  · exact tabOK_3_3_1_1_1
  · exact tabOK_3_2_2_1_1
  · exact tabOK_2_2_2_2_1
  · exact tabOK_4_1_1_1_1_1
  · exact tabOK_3_2_1_1_1_1
  · exact tabOK_2_2_2_1_1_1
  · exact tabOK_3_1_1_1_1_1_1
  · exact tabOK_2_2_1_1_1_1_1
  · exact tabOK_2_1_1_1_1_1_1_1
  · exact tabOK_1_1_1_1_1_1_1_1_1

private theorem tabOK_10 : tableauxOK [10] = true := by decide +kernel
private theorem tabOK_9_1 : tableauxOK [9, 1] = true := by decide +kernel
private theorem tabOK_8_2 : tableauxOK [8, 2] = true := by decide +kernel
private theorem tabOK_7_3 : tableauxOK [7, 3] = true := by decide +kernel
private theorem tabOK_6_4 : tableauxOK [6, 4] = true := by decide +kernel
private theorem tabOK_5_5 : tableauxOK [5, 5] = true := by decide +kernel
private theorem tabOK_8_1_1 : tableauxOK [8, 1, 1] = true := by decide +kernel
private theorem tabOK_7_2_1 : tableauxOK [7, 2, 1] = true := by decide +kernel
private theorem tabOK_6_3_1 : tableauxOK [6, 3, 1] = true := by decide +kernel
private theorem tabOK_5_4_1 : tableauxOK [5, 4, 1] = true := by decide +kernel
private theorem tabOK_6_2_2 : tableauxOK [6, 2, 2] = true := by decide +kernel
private theorem tabOK_5_3_2 : tableauxOK [5, 3, 2] = true := by decide +kernel
private theorem tabOK_4_4_2 : tableauxOK [4, 4, 2] = true := by decide +kernel
private theorem tabOK_4_3_3 : tableauxOK [4, 3, 3] = true := by decide +kernel
private theorem tabOK_7_1_1_1 : tableauxOK [7, 1, 1, 1] = true := by decide +kernel
private theorem tabOK_6_2_1_1 : tableauxOK [6, 2, 1, 1] = true := by decide +kernel
private theorem tabOK_5_3_1_1 : tableauxOK [5, 3, 1, 1] = true := by decide +kernel
private theorem tabOK_4_4_1_1 : tableauxOK [4, 4, 1, 1] = true := by decide +kernel
private theorem tabOK_5_2_2_1 : tableauxOK [5, 2, 2, 1] = true := by decide +kernel
private theorem tabOK_4_3_2_1 : tableauxOK [4, 3, 2, 1] = true := by decide +kernel
private theorem tabOK_3_3_3_1 : tableauxOK [3, 3, 3, 1] = true := by decide +kernel
private theorem tabOK_4_2_2_2 : tableauxOK [4, 2, 2, 2] = true := by decide +kernel
private theorem tabOK_3_3_2_2 : tableauxOK [3, 3, 2, 2] = true := by decide +kernel
private theorem tabOK_6_1_1_1_1 : tableauxOK [6, 1, 1, 1, 1] = true := by decide +kernel
private theorem tabOK_5_2_1_1_1 : tableauxOK [5, 2, 1, 1, 1] = true := by decide +kernel
private theorem tabOK_4_3_1_1_1 : tableauxOK [4, 3, 1, 1, 1] = true := by decide +kernel
private theorem tabOK_4_2_2_1_1 : tableauxOK [4, 2, 2, 1, 1] = true := by decide +kernel
private theorem tabOK_3_3_2_1_1 : tableauxOK [3, 3, 2, 1, 1] = true := by decide +kernel
private theorem tabOK_3_2_2_2_1 : tableauxOK [3, 2, 2, 2, 1] = true := by decide +kernel
private theorem tabOK_2_2_2_2_2 : tableauxOK [2, 2, 2, 2, 2] = true := by decide +kernel
private theorem tabOK_5_1_1_1_1_1 : tableauxOK [5, 1, 1, 1, 1, 1] = true := by decide +kernel
private theorem tabOK_4_2_1_1_1_1 : tableauxOK [4, 2, 1, 1, 1, 1] = true := by decide +kernel
private theorem tabOK_3_3_1_1_1_1 : tableauxOK [3, 3, 1, 1, 1, 1] = true := by decide +kernel
private theorem tabOK_3_2_2_1_1_1 : tableauxOK [3, 2, 2, 1, 1, 1] = true := by decide +kernel
private theorem tabOK_2_2_2_2_1_1 : tableauxOK [2, 2, 2, 2, 1, 1] = true := by decide +kernel
private theorem tabOK_4_1_1_1_1_1_1 : tableauxOK [4, 1, 1, 1, 1, 1, 1] = true := by decide +kernel
private theorem tabOK_3_2_1_1_1_1_1 : tableauxOK [3, 2, 1, 1, 1, 1, 1] = true := by decide +kernel
private theorem tabOK_2_2_2_1_1_1_1 : tableauxOK [2, 2, 2, 1, 1, 1, 1] = true := by decide +kernel
private theorem tabOK_3_1_1_1_1_1_1_1 : tableauxOK [3, 1, 1, 1, 1, 1, 1, 1] = true := by decide +kernel
private theorem tabOK_2_2_1_1_1_1_1_1 : tableauxOK [2, 2, 1, 1, 1, 1, 1, 1] = true := by decide +kernel
private theorem tabOK_2_1_1_1_1_1_1_1_1 : tableauxOK [2, 1, 1, 1, 1, 1, 1, 1, 1] = true := by decide +kernel
private theorem tabOK_1_1_1_1_1_1_1_1_1_1 : tableauxOK [1, 1, 1, 1, 1, 1, 1, 1, 1, 1] = true := by decide +kernel

private theorem shapes_10 : shapes 10 = [[10], [9, 1], [8, 2], [7, 3], [6, 4], [5, 5], [8, 1, 1], [7, 2, 1], [6, 3, 1], [5, 4, 1], [6, 2, 2], [5, 3, 2], [4, 4, 2], [4, 3, 3], [7, 1, 1, 1], [6, 2, 1, 1], [5, 3, 1, 1], [4, 4, 1, 1], [5, 2, 2, 1], [4, 3, 2, 1], [3, 3, 3, 1], [4, 2, 2, 2], [3, 3, 2, 2], [6, 1, 1, 1, 1], [5, 2, 1, 1, 1], [4, 3, 1, 1, 1], [4, 2, 2, 1, 1], [3, 3, 2, 1, 1], [3, 2, 2, 2, 1], [2, 2, 2, 2, 2], [5, 1, 1, 1, 1, 1], [4, 2, 1, 1, 1, 1], [3, 3, 1, 1, 1, 1], [3, 2, 2, 1, 1, 1], [2, 2, 2, 2, 1, 1], [4, 1, 1, 1, 1, 1, 1], [3, 2, 1, 1, 1, 1, 1], [2, 2, 2, 1, 1, 1, 1], [3, 1, 1, 1, 1, 1, 1, 1], [2, 2, 1, 1, 1, 1, 1, 1], [2, 1, 1, 1, 1, 1, 1, 1, 1], [1, 1, 1, 1, 1, 1, 1, 1, 1, 1]] := by decide +kernel

private theorem tabOK_all_10 : ∀ shape ∈ shapes 10, tableauxOK shape = true := by
  rw [shapes_10]
  intro shape hs
  simp only [List.mem_cons, List.not_mem_nil, or_false] at hs
  rcases hs with rfl | rfl | rfl | rfl | rfl | rfl | rfl | rfl | rfl | rfl | rfl | rfl | rfl | rfl | rfl | rfl | rfl | rfl | rfl | rfl | rfl | rfl | rfl | rfl | rfl | rfl | rfl | rfl | rfl | rfl | rfl | rfl | rfl | rfl | rfl | rfl | rfl | rfl | rfl | rfl | rfl | rfl
  · exact tabOK_10
  · exact tabOK_9_1
  · exact tabOK_8_2
  · exact tabOK_7_3
  · exact tabOK_6_4
  · exact tabOK_5_5
  · exact tabOK_8_1_1
  · exact tabOK_7_2_1
  · exact tabOK_6_3_1
  · exact tabOK_5_4_1
  · exact tabOK_6_2_2
  · exact tabOK_5_3_2
  · exact tabOK_4_4_2
  · exact tabOK_4_3_3
  · exact tabOK_7_1_1_1
  · exact tabOK_6_2_1_1
  · exact tabOK_5_3_1_1
  · exact tabOK_4_4_1_1
  · exact tabOK_5_2_2_1
  · exact tabOK_4_3_2_1
  · exact tabOK_3_3_3_1
  · exact tabOK_4_2_2_2
  · exact tabOK_3_3_2_2
  · exact tabOK_6_1_1_1_1
  · exact tabOK_5_2_1_1_1
  · exact tabOK_4_3_1_1_1
  · exact tabOK_4_2_2_1_1
  · exact tabOK_3_3_2_1_1
  · exact tabOK_3_2_2_2_1
  · exact tabOK_2_2_2_2_2
  · exact tabOK_5_1_1_1_1_1
  · exact tabOK_4_2_1_1_1_1
  · exact tabOK_3_3_1_1_1_1
  · exact tabOK_3_2_2_1_1_1
  · exact tabOK_2_2_2_2_1_1
  · exact tabOK_4_1_1_1_1_1_1
  · exact tabOK_3_2_1_1_1_1_1
  · exact tabOK_2_2_2_1_1_1_1
  · exact tabOK_3_1_1_1_1_1_1_1
  · exact tabOK_2_2_1_1_1_1_1_1
  · exact tabOK_2_1_1_1_1_1_1_1_1
  · exact tabOK_1_1_1_1_1_1_1_1_1_1

/-- **for every partition `λ` of `N ≤ 10`**: `get_all_young_tableaux(λ)` returns exactly `get_hook_length(λ)` arrays
(also the corner-recurrence count), all standard fillings of `λ`, pairwise distinct. -/
theorem tableaux_exact_le10 (N : Nat) (h1 : 1 ≤ N) (h10 : N ≤ 10) (shape : List Nat) (hs : shape ∈ shapes N) :
    (allTableaux shape).length = hookLength shape ∧
    (allTableaux shape).length = sytCount shape.sum shape ∧
    (∀ t ∈ allTableaux shape, isStandard shape t = true) ∧
    (allTableaux shape).Nodup := by
  by_cases h8 : N ≤ 8
  · exact tableaux_exact_le8 N h1 h8 shape hs
  · apply tableauxOK_spec
    have : N = 9 ∨ N = 10 := by omega
    rcases this with rfl | rfl
    · exact tabOK_all_9 shape hs
    · exact tabOK_all_10 shape hs

/-- the hook-length value is the number of standard tableaux for every partition of `N ≤ 10` -/
theorem hookLength_formula_le10 (N : Nat) (h1 : 1 ≤ N) (h10 : N ≤ 10) (shape : List Nat) (hs : shape ∈ shapes N) :
    hookLength shape = Set.ncard {t | IsSYT shape t} := by
  rw [← tableaux_count shape (checkShape_of_mem_shapes N h1 shape hs)]
  exact (tableaux_exact_le10 N h1 h10 shape hs).1.symm

/-- 42 partitions of 10; the largest family has 768 tableaux -/
example : (shapes 10).length = 42 ∧ (allTableaux [4, 3, 2, 1]).length = 768 := by decide +kernel

end Numqi.C14
