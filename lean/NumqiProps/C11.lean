/-
C11 — measurement is a valid projective measurement on any ascending qubit subset.

Property theorems only.  They are about the constants of `NumqiModel/Sim.lean` / `NumqiModel/Measure.lean` that the
driver executes: `reduceToProbability s ψ` (the vector `prob`), `project s o ψ` (the slice assignment), `post c s o ψ`
(the returned state, `c = 1/√prob[o]`), `keptIndexGrouped` (the run-length grouping of the axes) and `measureRecords`
(what the `MeasureGate`s of a circuit record).  All statements are for every number of qubits `n`, every tuple `s`
of measured qubits and every state; `R` is any commutative star ring (`ℂ`), ordered where a sign is claimed.
-/
import NumqiProps.C03
import NumqiProofs.MeasureGrouping
import Mathlib.Algebra.Order.Star.Basic
import Mathlib.Data.Complex.Basic
import Mathlib.Data.Rat.Star

namespace Numqi.C11
open Numqi Function Matrix
attribute [local instance] starConj

variable {R : Type} {n m : Nat}

/-! ### outcome probabilities are the Born marginals -/

/-- **`prob[o] = Σ_{x : x|_s = o} |ψ x|²`** -/
theorem prob_eq_born [Semiring R] [StarRing R] (s : Fin m → Fin n) (ψ : Vec n R) (o : Bits m) :
    reduceToProbability s ψ o = ∑ x ∈ Finset.univ.filter (fun x : Bits n => x.sel s = o), star (ψ x) * ψ x :=
  C03.reduceToProbability_eq s ψ o

/-- probabilities are non-negative -/
theorem prob_nonneg [Semiring R] [PartialOrder R] [StarRing R] [StarOrderedRing R] (s : Fin m → Fin n)
    (ψ : Vec n R) (o : Bits m) : 0 ≤ reduceToProbability s ψ o := by
  rw [prob_eq_born]
  exact Finset.sum_nonneg (fun x _ => star_mul_self_nonneg (ψ x))

/-- they sum to `‖ψ‖²` — to one for a normalised state -/
theorem prob_sum [Semiring R] [StarRing R] (s : Fin m → Fin n) (ψ : Vec n R) :
    ∑ o, reduceToProbability s ψ o = ∑ x, star (ψ x) * ψ x :=
  C03.reduceToProbability_sum s ψ

/-- the probability of an outcome is the squared norm of the projected state -/
theorem prob_eq_norm_project [Semiring R] [StarRing R] (s : Fin m → Fin n) (ψ : Vec n R) (o : Bits m) :
    reduceToProbability s ψ o = ∑ x, star (project s o ψ x) * project s o ψ x := by
  simp only [reduceToProbability, sumBits_eq_sum, project, normSq, conj]
  refine Finset.sum_congr rfl (fun x _ => ?_)
  split <;> simp

/-! ### the sampled outcome -/

/-- **the returned outcome is in the support of the state**, under the contract of the sampler ("`choice` returns an
index whose probability is not zero"): some basis state compatible with the outcome has a non-zero amplitude, so the
projection that becomes the post-measurement state is not the zero vector (and the normalisation `1/√prob` is defined). -/
theorem outcome_has_nonzero_probability [Semiring R] [StarRing R] (s : Fin m → Fin n) (ψ : Vec n R) (o : Bits m)
    (hcontract : reduceToProbability s ψ o ≠ 0) :
    (∃ x : Bits n, x.sel s = o ∧ ψ x ≠ 0) ∧ project s o ψ ≠ fun _ => 0 := by
  have h1 : ∃ x : Bits n, x.sel s = o ∧ ψ x ≠ 0 := by
    by_contra hno
    apply hcontract
    rw [prob_eq_born]
    refine Finset.sum_eq_zero (fun x hx => ?_)
    have hx' : x.sel s = o := (Finset.mem_filter.1 hx).2
    have : ψ x = 0 := by
      by_contra h0; exact hno ⟨x, hx', h0⟩
    rw [this, mul_zero]
  refine ⟨h1, fun hz => ?_⟩
  obtain ⟨x, hx, hψ⟩ := h1
  have := congrFun hz x
  simp only [project, Bits.beq_iff, hx, if_true] at this
  exact hψ this

/-- conversely, over `ℂ`-like ordered star rings an outcome compatible with a non-zero amplitude has positive
probability, so the contract is satisfiable exactly on the support -/
theorem prob_pos_of_support [Semiring R] [PartialOrder R] [StarRing R] [StarOrderedRing R]
    (hstar : ∀ z : R, star z * z = 0 → z = 0)
    (s : Fin m → Fin n) (ψ : Vec n R) (x : Bits n) (hψ : ψ x ≠ 0) : 0 < reduceToProbability s ψ (x.sel s) := by
  rw [prob_eq_born]
  have hx : x ∈ Finset.univ.filter (fun y : Bits n => y.sel s = x.sel s) := by simp
  have hpos : 0 < star (ψ x) * ψ x :=
    lt_of_le_of_ne (star_mul_self_nonneg _) (fun h => hψ (hstar _ h.symm))
  exact lt_of_lt_of_le hpos (Finset.single_le_sum (f := fun y => star (ψ y) * ψ y) (fun y _ => star_mul_self_nonneg _) hx)

/-! ### the post-measurement state is the (normalised) projection -/

/-- `project` is multiplication by the projector `P_o` -/
theorem project_eq_mulVec [Semiring R] (s : Fin m → Fin n) (o : Bits m) (ψ : Vec n R) :
    project s o ψ = (Matrix.of (projEmbed s o)).mulVec ψ :=
  C03.op_apply_eq (.measure s o) trivial ψ

/-- `P_o` is idempotent … -/
theorem project_idem [Zero R] (s : Fin m → Fin n) (o : Bits m) (ψ : Vec n R) :
    project s o (project s o ψ) = project s o ψ := by
  funext x; simp only [project]; split <;> rfl

/-- … different outcomes are orthogonal … -/
theorem project_orthogonal [Zero R] (s : Fin m → Fin n) {o o' : Bits m} (h : o ≠ o') (ψ : Vec n R) :
    project s o' (project s o ψ) = fun _ => 0 := by
  funext x
  simp only [project, Bits.beq_iff]
  by_cases h1 : x.sel s = o'
  · have : ¬ x.sel s = o := fun e => h (e.symm.trans h1)
    rw [if_pos h1, if_neg this]
  · rw [if_neg h1]

/-- … and the projectors of all outcomes resolve the identity -/
theorem project_complete [Semiring R] (s : Fin m → Fin n) (ψ : Vec n R) :
    (fun x => ∑ o, project s o ψ x) = ψ := by
  funext x
  simp only [project, Bits.beq_iff]
  rw [Finset.sum_ite_eq]
  simp

/-- **the returned state is `c · P_o ψ`, and it is normalised** when `c² · prob[o] = 1` (`c = 1/√prob[o]` real):
`Σ_x |post x|² = 1`. -/
theorem post_is_projection [CommSemiring R] [StarRing R] (c : R) (hc : star c = c) (s : Fin m → Fin n)
    (o : Bits m) (ψ : Vec n R) (hnorm : c * c * reduceToProbability s ψ o = 1) :
    post c s o ψ = (fun x => c * (Matrix.of (projEmbed s o)).mulVec ψ x) ∧
      ∑ x, star (post c s o ψ x) * post c s o ψ x = 1 := by
  constructor
  · funext x; rw [← project_eq_mulVec]; rfl
  · rw [← hnorm, prob_eq_norm_project, Finset.mul_sum]
    refine Finset.sum_congr rfl (fun x _ => ?_)
    simp only [post, star_mul', hc]
    ring

/-! ### measuring again gives the same outcome with certainty and leaves the state unchanged -/

/-- **second measurement**: on the post-measurement state the outcome `o` has probability 1 and every other
outcome probability 0 … -/
theorem repeat_certain [CommSemiring R] [StarRing R] (c : R) (hc : star c = c) (s : Fin m → Fin n)
    (o : Bits m) (ψ : Vec n R) (hnorm : c * c * reduceToProbability s ψ o = 1) (o' : Bits m) :
    reduceToProbability s (post c s o ψ) o' = if o' = o then 1 else 0 := by
  by_cases h : o' = o
  · subst h
    rw [if_pos rfl, ← hnorm, prob_eq_norm_project, prob_eq_norm_project, Finset.mul_sum]
    refine Finset.sum_congr rfl (fun x _ => ?_)
    simp only [post, project]
    split
    · rw [star_mul', hc]; ring
    · simp
  · rw [if_neg h, prob_eq_norm_project]
    refine Finset.sum_eq_zero (fun x _ => ?_)
    simp only [post, project, Bits.beq_iff]
    by_cases h1 : x.sel s = o'
    · have h2 : ¬ x.sel s = o := fun e => h (h1.symm.trans e)
      rw [if_pos h1, if_neg h2]; simp
    · rw [if_neg h1]; simp

/-- … and the state returned by the second measurement (projection on `o`, normalisation factor 1) is the state
itself -/
theorem repeat_state_unchanged [Semiring R] (c : R) (s : Fin m → Fin n) (o : Bits m) (ψ : Vec n R) :
    post 1 s o (post c s o ψ) = post c s o ψ := by
  funext x
  simp only [post, project, one_mul]
  split <;> simp

/-! ### the run-length grouping of the axes addresses the same entries as the bitwise description -/

/-- **`grouping_spec`, every `n`, every ascending subset, any number of kept / reduced groups**: un-ravelling a flat
position of `q0` against the merged shape of `_measure_quantum_vector_hf0` and ravelling the digits of the kept axes
gives the number read off the measured bits (qubit 0 most significant). -/
theorem grouping_spec (n : Nat) (index : List Nat) (h : index ∈ (List.range n).sublists) : GroupingSpec n index :=
  groupingSpec_all n index h

/-- the literal (grouped) `prob` is the Born marginal, given the grouping specification -/
theorem probGrouped_eq [Semiring R] [StarRing R] (s : Fin m → Fin n)
    (hspec : GroupingSpec n (List.ofFn fun j => (s j).val)) (a : Array R) :
    probGrouped n (List.ofFn fun j => (s j).val) a = tabulate (reduceToProbability s (lookup (n := n) a)) := by
  unfold probGrouped tabulate
  have hm : (List.ofFn fun j => (s j).val).length = m := by simp
  apply Array.ext
  · simp
  · intro i h1 h2
    simp only [Array.getElem_ofFn]
    have hi : i < 2 ^ m := by simpa using h2
    rw [sum_range_eq_finRange]
    simp only [reduceToProbability, sumBits]
    congr 1
    apply List.map_congr_left
    intro p _
    have hp := hspec p.val p.isLt
    rw [hp, keptIndexBitwise_eq]
    simp only [lookup, Bits.toNat_ofNat p.isLt, beq_iff_eq, toNat_eq_iff _ hi, Bits.beq_iff]

theorem projectGrouped_eq [Zero R] (s : Fin m → Fin n)
    (hspec : GroupingSpec n (List.ofFn fun j => (s j).val)) (o : Bits m) (a : Array R) :
    projectGrouped n (List.ofFn fun j => (s j).val) o.toNat a = tabulate (project s o (lookup (n := n) a)) := by
  unfold projectGrouped tabulate
  apply Array.ext
  · simp
  · intro i h1 h2
    simp only [Array.getElem_ofFn]
    have hi : i < 2 ^ n := by simpa using h2
    have hp := hspec i hi
    rw [hp, keptIndexBitwise_eq]
    simp only [project, lookup, Bits.toNat_ofNat hi, beq_iff_eq, Bits.beq_iff]
    have : ((Bits.ofNat n i).sel s).toNat = o.toNat ↔ (Bits.ofNat n i).sel s = o :=
      ⟨fun h => Bits.toNat_injective h, fun h => by rw [h]⟩
    simp only [this]

/-- **the literal computation of `measure_quantum_vector` is the bitwise one** for every register size and every
ascending tuple of measured qubits: `prob` is the vector of Born marginals and the slice assignment is the
projection on the outcome with flat index `ind1`. -/
theorem measure_grouped_eq_bitwise [Semiring R] [StarRing R] (s : Fin m → Fin n) (hs : StrictMono s)
    (o : Bits m) (a : Array R) :
    probGrouped n (List.ofFn fun j => (s j).val) a = tabulate (reduceToProbability s (lookup (n := n) a)) ∧
    projectGrouped n (List.ofFn fun j => (s j).val) o.toNat a = tabulate (project s o (lookup (n := n) a)) :=
  have h := grouping_spec n _ (ofFn_mem_sublists s hs)
  ⟨probGrouped_eq s h a, projectGrouped_eq s h o a⟩

/-- the bit string returned for the sampled index `ind1` is the outcome `o` with `o.toNat = ind1`, most significant
(= lowest-numbered measured qubit) first -/
theorem bitstr_eq (o : Bits m) : bitstrOf m o.toNat = List.ofFn o := by
  rw [bitstrOf, Bits.ofNat_toNat]

/-! ### `MeasureGate` inside a circuit -/

/-- **What a `MeasureGate` records refers to the state at that point of the circuit**: the probabilities recorded by
the measure entry that follows the gates `pre` are the Born marginals of `(∏ pre) ψ`, and the state handed to the
gates after it is the projection of that state. -/
theorem measureGate_in_circuit [Semiring R] [StarRing R] (pre rest : List (Op n R)) (hpre : ∀ g ∈ pre, g.WF)
    (s : Fin m → Fin n) (o : Bits m) (a : Array R) :
    measureRecords (pre ++ Op.measure s o :: rest) a
      = measureRecords pre a
        ++ tabulate (reduceToProbability s ((circuitMatrix pre).mulVec (lookup a)))
        :: measureRecords rest (tabulate (project s o ((circuitMatrix pre).mulVec (lookup a)))) := by
  rw [measureRecords_append]
  simp only [measureRecords, List.singleton_append, Op.applyA, Op.apply]
  rw [C03.applyStateA_eq pre hpre]

/-- **`extend_circuit` / re-use of a block holding `MeasureGate`s**: the records of the extended circuit are the records of the
first part followed by the records the appended block produces on the state the first part leaves — so a `MeasureGate` object
placed twice records twice, each time about the state at that point, and keeps the later record. -/
theorem measureRecords_extend [Semiring R] [StarRing R] (c1 c2 : List (Op n R)) (a : Array R) :
    measureRecords (c1 ++ c2) a = measureRecords c1 a ++ measureRecords c2 (applyStateA c1 a) :=
  measureRecords_append c1 c2 a

/-! ### the executed carrier -/

/-- **what the driver computes**: the vector `prob` evaluated with the model's own `ℚ[i]` operations and conjugation
(`QI.instAdd … QI.instConj`) is the Born marginal.  `QI` is a commutative star ring on those very operations
(`NumqiProofs/ScalarInstances.lean`), so this is `prob_eq_born` at `R = QI`. -/
theorem prob_eq_born_QI (s : Fin m → Fin n) (ψ : Vec n QI) (o : Bits m) :
    @reduceToProbability QI n m QI.instAdd QI.instMul QI.instZero QI.instConj s ψ o
      = ∑ x ∈ Finset.univ.filter (fun x : Bits n => x.sel s = o), star (ψ x) * ψ x :=
  prob_eq_born s ψ o

/-- … and it is non-negative in the order of `ℚ[i]` restricted to its real part: the real part is a sum of squares -/
theorem prob_re_nonneg_QI (s : Fin m → Fin n) (ψ : Vec n QI) (o : Bits m) :
    0 ≤ (@reduceToProbability QI n m QI.instAdd QI.instMul QI.instZero QI.instConj s ψ o).re := by
  rw [prob_eq_born_QI]
  have hre : ∀ (S : Finset (Bits n)) (f : Bits n → QI), (∑ x ∈ S, f x).re = ∑ x ∈ S, (f x).re := by
    intro S f
    induction S using Finset.induction_on with
    | empty => simp
    | insert a S ha ih => rw [Finset.sum_insert ha, Finset.sum_insert ha, QI.add_re, ih]
  rw [hre]
  refine Finset.sum_nonneg (fun x _ => ?_)
  simp only [QI.mul_re, star, QI.conj_re, QI.conj_im]
  nlinarith [mul_self_nonneg (ψ x).re, mul_self_nonneg (ψ x).im]

/-! ### the hypotheses are satisfiable, the statements are not vacuous -/

/-- the model computes: marginal of qubit 1 of the (un-normalised) state (1,2,0,3): outcome 0 ↦ 1²+0², outcome 1 ↦ 2²+3² -/
example : tabulate (reduceToProbability (![1] : Fin 1 → Fin 2) (lookup (n := 2) #[(1 : Int), 2, 0, 3])) = #[1, 13] := by
  decide
example : tabulate (project (![1] : Fin 1 → Fin 2) (fun _ => true) (lookup (n := 2) #[(1 : Int), 2, 0, 3]))
    = #[0, 2, 0, 3] := by decide

/-- the subset (1,3) of five qubits — the unmeasured qubits form three groups, the case the tests never reach — is
strictly ascending, and the literal grouped computation agrees with the Born marginal on a concrete state -/
example : StrictMono (![1, 3] : Fin 2 → Fin 5) := by decide
example : probGrouped 5 [1, 3] ((Array.range 32).map Int.ofNat)
    = tabulate (reduceToProbability (![1, 3] : Fin 2 → Fin 5) (lookup (n := 5) ((Array.range 32).map Int.ofNat))) := by
  decide +kernel

/-- the normalisation hypothesis of `post_is_projection` / `repeat_certain` is satisfiable with a non-trivial state:
`ψ = (3,4)/5` over `ℚ`, outcome 0, `c = 5/3` -/
example : star (5/3 : ℚ) = 5/3 ∧
    (5/3 : ℚ) * (5/3) * reduceToProbability (![0] : Fin 1 → Fin 1) (lookup (n := 1) #[(3/5 : ℚ), 4/5]) (fun _ => false) = 1 := by
  refine ⟨rfl, ?_⟩
  decide +kernel

/-- `ℚ` (and `ℝ`, `ℂ` with its star order) satisfy the order hypotheses of `prob_nonneg` -/
example (s : Fin 1 → Fin 2) (ψ : Vec 2 ℚ) (o : Bits 1) : 0 ≤ reduceToProbability s ψ o := prob_nonneg s ψ o

/-- the definiteness hypothesis of `prob_pos_of_support` holds in `ℚ` (and `ℝ`, `ℂ`) -/
example : ∀ z : ℚ, star z * z = 0 → z = 0 := by
  intro z h; simpa using h

/-- the contract of `outcome_has_nonzero_probability` is satisfiable: outcome 1 of qubit 1 of (1,2,0,3) -/
example : reduceToProbability (![1] : Fin 1 → Fin 2) (lookup (n := 2) #[(1 : Int), 2, 0, 3]) (fun _ => true) ≠ 0 := by
  decide

end Numqi.C11
