/-
C19, thorough tier — the ((11,2,5)) code (31 713 errors below the distance; ≈ 2–4 min of kernel time).
-/
import NumqiProps.C19

namespace Numqi.C19
open Numqi Numqi.Qec Numqi.Qec.Generated

set_option maxRecDepth 100000

theorem code11_2_5_klCheck : klCheck code11_2_5 = true := by decide +kernel
theorem code11_2_5_listed : listedCheck code11_2_5 = true := by decide +kernel
theorem code11_2_5_listedIndep : listedIndepCheck code11_2_5 = true := by decide +kernel
theorem code11_2_5_stabCirc : stabCircImplCheck code11_2_5 = true := by decide +kernel

/-- **((11,2,5))**: orthonormal code words, Knill–Laflamme for every error of weight < 5, the ten listed
stabilizers fix the code words, the ten shipped circuits are those operators. -/
theorem code11_2_5_holds : Holds code11_2_5 :=
  holds_of_checks _ code11_2_5_klCheck code11_2_5_listed code11_2_5_stabCirc

end Numqi.C19
