/-
C19, thorough tier — the ((11,2,5)) code (31 713 errors below the distance).
-/
import NumqiModel.Generated.QecCircuits

namespace Numqi.C19
open Numqi Numqi.Qec Numqi.Qec.Generated

set_option maxRecDepth 100000

theorem code11_2_5_klCheck : klCheck code11_2_5 = true := by decide +kernel
theorem code11_2_5_listed : listedCheck code11_2_5 = true := by decide +kernel
theorem code11_2_5_stabCirc : stabCircImplCheck code11_2_5 = true := by decide +kernel

end Numqi.C19
