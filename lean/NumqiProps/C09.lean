/-
C09 — Sp(2n,F2) indexing is a bijection onto the symplectic group.

Property theorems only (helper lemmas: `NumqiProofs/SpF2Lemmas.lean`, `SpF2Index.lean`,
`SpF2Inverse.lean`).  All statements are about the executable model `NumqiModel/SpF2.lean`
(the constants run by `Driver/C09.lean`) and hold for every `n`.

Vectors are bit arrays packed little-endian in a `Nat` (array entry `j` = `testBit j`), matrices are
lists of rows; `isSp n M` says: `2n` rows, every row below `4^n`, and `S Λ Sᵀ = Λ`.
-/
import NumqiProofs.SpF2Inverse
import NumqiProofs.SpF2Enum
import NumqiProofs.SpF2Batch
import NumqiProofs.SpF2Bits

namespace Numqi.C09
open Numqi Numqi.SpF2

/-- a transvection is an involution -/
theorem transvection_involutive (n x h : Nat) : tv n (tv n x h) h = x := tv_involutive n x h

/-- a transvection preserves the symplectic form -/
theorem transvection_preserves_form (n x y h : Nat) : ip n (tv n x h) (tv n y h) = ip n x y :=
  ip_tv_tv n x y h

/-- any list of transvections preserves the form -/
theorem transvections_preserve_form (n x y : Nat) (hs : List Nat) :
    ip n (tvs n x hs) (tvs n y hs) = ip n x y := ip_tvs n x y hs

/-- `find_transvection` raises exactly on a zero vector -/
theorem findTransvection_guard (n v0 v1 : Nat) : findTransvection n v0 v1 = none ↔ (v0 = 0 ∨ v1 = 0) := by
  unfold findTransvection
  by_cases h0 : v0 = 0 <;> by_cases h1 : v1 = 0 <;> simp [h0, h1]

/-- **Lemma 2** (all five branches): for non-zero `v0, v1` of length `2n` the two transvections returned
map `v0` to `v1` — in the documented order and also in the reverse order, which is the one
`from_int_tuple` / `to_int_tuple` use. -/
theorem findTransvection_spec (n v0 v1 : Nat) (h0 : v0 ≠ 0) (h1 : v1 ≠ 0) (hv0 : v0 < 4 ^ n) (hv1 : v1 < 4 ^ n) :
    ∃ a b, findTransvection n v0 v1 = some (a, b) ∧ tvs n v0 [a, b] = v1 ∧ tvs n v0 [b, a] = v1 ∧
      a < 4 ^ n ∧ b < 4 ^ n := by
  refine ⟨(findTv n v0 v1).1, (findTv n v0 v1).2, by simp [findTransvection, h0, h1], ?_, ?_, ?_⟩
  · exact findTv_spec n v0 v1 h0 h1 hv0 hv1
  · exact findTv_spec_rev n v0 v1 h0 h1 hv0 hv1
  · exact findTv_lt n v0 v1 h0 h1 hv0 hv1

/-- **the closed-form inverse is two-sided** on the symplectic group -/
theorem inverse_two_sided (n : Nat) (M : List Nat) (h : isSp n M = true) :
    matMul (2 * n) M (inverse n M) = idMat (2 * n) ∧ matMul (2 * n) (inverse n M) M = idMat (2 * n) := by
  obtain ⟨hwf, hsp⟩ := (isSp_iff n M).1 h
  exact ⟨matMul_inverse M hsp, inverse_matMul M hwf hsp⟩

/-- **every image is symplectic** -/
theorem fromIntTuple_mem_Sp (t : List (Nat × Nat)) (h : inRange t = true) :
    isSp t.length (fromIntTuple t) = true := by
  have := fromRev_all t.reverse h
  rw [List.length_reverse] at this
  exact (isSp_iff _ _).2 ⟨this.1, this.2.1⟩

/-- **`to_int_tuple ∘ from_int_tuple = id`** on in-range tuples -/
theorem to_from (t : List (Nat × Nat)) (h : inRange t = true) :
    toIntTuple t.length (fromIntTuple t) = some t := by
  have := (fromRev_all t.reverse h).2.2
  rwa [List.length_reverse, List.reverse_reverse] at this

/-- **`from_int_tuple ∘ to_int_tuple = id`** on the symplectic group, and the tuple is in range -/
theorem from_to (n : Nat) (M : List Nat) (h : isSp n M = true) :
    ∃ t, toIntTuple n M = some t ∧ t.length = n ∧ inRange t = true ∧ fromIntTuple t = M := by
  obtain ⟨hwf, hsp⟩ := (isSp_iff n M).1 h
  exact toIntTuple_all n M hwf hsp

/-- distinct tuples give distinct matrices -/
theorem fromIntTuple_injective (t t' : List (Nat × Nat)) (h : inRange t = true) (h' : inRange t' = true)
    (hl : t.length = t'.length) (he : fromIntTuple t = fromIntTuple t') : t = t' := by
  have h1 := to_from t h
  have h2 := to_from t' h'
  rw [he, hl, h2] at h1
  exact (Option.some.inj h1).symm

/-- every symplectic matrix is hit -/
theorem fromIntTuple_surjective (n : Nat) (M : List Nat) (h : isSp n M = true) :
    ∃ t, t.length = n ∧ inRange t = true ∧ fromIntTuple t = M := by
  obtain ⟨t, _, h2, h3, h4⟩ := from_to n M h
  exact ⟨t, h2, h3, h4⟩

/-- `get_number(n,'order')` is `Π (4^i − 1)·2^(2i−1)`, the product of the coset numbers, and the number of
in-range tuples -/
theorem getNumber_order (n : Nat) :
    order n = ∏ i ∈ Finset.range n, ((4 ^ (i + 1) - 1) * 2 ^ (2 * (i + 1) - 1)) ∧
    (cosetNumbers n).prod = order n ∧ (allTuples n).length = order n :=
  ⟨order_eq_prod n, cosetNumbers_prod n, allTuples_length n⟩

/-- the loop `itertools.product(*[range(b) for b in base])` lists exactly the in-range tuples of length `n` … -/
theorem allTuples_mem (n : Nat) (t : List (Nat × Nat)) : t ∈ allTuples n ↔ t.length = n ∧ inRange t = true :=
  mem_allTuples_iff n t

/-- … so the `order n` matrices `from_int_tuple(t)` enumerated by it are exactly the symplectic group
(with `fromIntTuple_injective`: each exactly once) -/
theorem images_exactly_Sp (n : Nat) (M : List Nat) :
    M ∈ (allTuples n).map fromIntTuple ↔ isSp n M = true := by
  constructor
  · intro h
    obtain ⟨t, ht, rfl⟩ := List.mem_map.1 h
    obtain ⟨h1, h2⟩ := (mem_allTuples_iff n t).1 ht
    rw [← h1]; exact fromIntTuple_mem_Sp t h2
  · intro h
    obtain ⟨t, h1, h2, h3⟩ := fromIntTuple_surjective n M h
    exact List.mem_map.2 ⟨t, (mem_allTuples_iff n t).2 ⟨h1, h2⟩, h3⟩

/-! ### the bit-packing helpers `int_to_bitarray` / `bitarray_to_int` (`spf2.py:82-112`)

In the rest of the model a bit array *is* the little-endian `Nat`; these theorems justify that identification for the executed
packing functions (ops `i2b`, `b2i`). -/

/-- **`bitarray_to_int ∘ int_to_bitarray`**: whenever the integer fits into the `⌈n/8⌉` bytes (no `OverflowError`) the array has length
`n`, entry `j` is bit `j` of `i`, and packing it again gives `i mod 2^n` — so the round trip is the identity exactly for `i < 2^n`,
and the bits above `n` are silently dropped for `2^n ≤ i < 256^⌈n/8⌉` -/
theorem bitarray_of_int (i n : Nat) (b : List Bool) (h : intToBitarray i n = some b) :
    b.length = n ∧ (∀ j, j < n → b.getD j false = i.testBit j) ∧ bitarrayToInt b = i % 2 ^ n :=
  bitarrayToInt_intToBitarray h

/-- the `OverflowError` is raised exactly when `i ≥ 256^⌈n/8⌉` -/
theorem int_to_bitarray_overflow (i n : Nat) : intToBitarray i n = none ↔ 256 ^ ((n + 7) / 8) ≤ i := intToBitarray_none_iff i n

/-- **round trip on the arguments `from_int_tuple` / `to_int_tuple` use** (`i < 2^n`): no overflow, and `bitarray_to_int` returns `i` -/
theorem int_bitarray_roundtrip (i n : Nat) (hi : i < 2 ^ n) : ∃ b, intToBitarray i n = some b ∧ bitarrayToInt b = i :=
  intToBitarray_of_lt hi

/-- **`int_to_bitarray ∘ bitarray_to_int = id`** on every bit array, and `bitarray_to_int b < 2^len` with bit `j` = entry `j` -/
theorem bitarray_int_roundtrip (b : List Bool) :
    intToBitarray (bitarrayToInt b) b.length = some b ∧ bitarrayToInt b < 2 ^ b.length
    ∧ ∀ j, (bitarrayToInt b).testBit j = b.getD j false :=
  ⟨intToBitarray_bitarrayToInt b, bitarrayToInt_lt b, testBit_bitarrayToInt b⟩

/-! ### batched calls (`x.ndim ≥ 2`): `transvection` / `get_inner_product` act on the last axis, elementwise over the leading ones -/

/-- **`transvection` on a batch is the single-vector map on every row** (any leading shape `(k,2n)`, `(k,2n,2n)`, `(k,l,2n)`:
the model sees the array flattened to its rows), and a stack of arrays is handled block by block -/
theorem transvection_batch_elementwise (n : Nat) (rows hs : List Nat) :
    (tvsBatch n rows hs).length = rows.length
    ∧ (∀ i, i < rows.length → (tvsBatch n rows hs).getD i 0 = tvs n (rows.getD i 0) hs)
    ∧ ∀ Ms : List (List Nat), tvsBatch n Ms.flatten hs = (Ms.map fun M => tvsBatch n M hs).flatten :=
  ⟨tvsBatch_length n rows hs, tvsBatch_getD n rows hs, fun Ms => tvsBatch_flatten n Ms hs⟩

/-- `get_inner_product` on a batch: one bit per row -/
theorem innerProduct_batch_elementwise (n : Nat) (rows : List Nat) (w i : Nat) (hi : i < rows.length) :
    (ipBatch n rows w).getD i false = ip n (rows.getD i 0) w := ipBatch_getD n rows w i hi

/-- **a group element pushed through transvections (as a `(2n,2n)` block of a stack) stays in the group** -/
theorem transvection_batch_mem_Sp (n : Nat) (M hs : List Nat) (h : isSp n M = true) (hh : ∀ g ∈ hs, g < 4 ^ n) :
    isSp n (tvsBatch n M hs) = true := tvsBatch_isSp n M hs h hh

/-- **the image set of `from_int_tuple` is closed under every transvection** (the closure probed on the whole stack) -/
theorem image_closed_under_transvections (t : List (Nat × Nat)) (hr : inRange t = true) (hs : List Nat)
    (hh : ∀ g ∈ hs, g < 4 ^ t.length) :
    ∃ t', t'.length = t.length ∧ inRange t' = true ∧ fromIntTuple t' = tvsBatch t.length (fromIntTuple t) hs :=
  fromIntTuple_surjective t.length _ (tvsBatch_isSp _ _ hs (fromIntTuple_mem_Sp t hr) hh)

/-- **`rand_SpF2` (`random/_spf2.py:32-58`) is valid for every draw**: it returns `from_int_tuple` of a tuple whose entries are
drawn with `rng.randint(0, base-1)` (in range), hence a symplectic matrix from which `to_int_tuple` recovers the tuple -/
theorem rand_SpF2_valid (rawTuple : List (Nat × Nat)) (hr : inRange rawTuple = true) :
    isSp rawTuple.length (randSpF2 rawTuple) = true ∧ toIntTuple rawTuple.length (randSpF2 rawTuple) = some rawTuple :=
  ⟨fromIntTuple_mem_Sp rawTuple hr, to_from rawTuple hr⟩

/-! ### finite cross-checks of the specification itself (`decide`, evaluated by the kernel) -/

/-- the predicate `isSp` singles out exactly `|Sp(2,F2)| = 6` of the 16 bit matrices of size 2 -/
theorem sp2_count : ((List.range 16).filter fun c => isSp 1 (matOfCode 2 c)).length = order 1 := by
  decide +kernel

/-- complete evaluation for `n = 1` (6 tuples) and `n = 2` (720 tuples): in range, image symplectic, round trip —
independent of the general induction (the kernel evaluates the model on every tuple) -/
theorem exhaustive_n1 : (allTuples 1).all (fun t =>
    inRange t && isSp 1 (fromIntTuple t) && (toIntTuple 1 (fromIntTuple t) == some t)) = true := by
  decide +kernel

theorem exhaustive_n2 : (allTuples 2).all (fun t =>
    inRange t && isSp 2 (fromIntTuple t) && (toIntTuple 2 (fromIntTuple t) == some t)) = true := by
  decide +kernel

/-! ### the hypotheses are satisfiable, the statements are not vacuous -/

example : inRange [(2, 1)] = true ∧ fromIntTuple [(2, 1)] = [3, 1] ∧ isSp 1 [3, 1] = true := by decide
example : inRange [(2, 1), (14, 7)] = true := by decide
example : isSp 2 (fromIntTuple [(2, 1), (14, 7)]) = true ∧
    toIntTuple 2 (fromIntTuple [(2, 1), (14, 7)]) = some [(2, 1), (14, 7)] := by decide +kernel
/-- a pair of vectors handled by the last branch (no common non-zero pair): `v0 = e_0`, `v1 = e_1` (n = 2) -/
example : findTransvection 2 1 2 = some (14, 13) ∧ tvs 2 1 [14, 13] = 2 := by decide
/-- out-of-range tuples are rejected by `inRange` -/
example : inRange [(3, 0)] = false ∧ inRange [(0, 2)] = false := by decide
/-- `isSp` is not trivially true -/
example : isSp 1 [1, 1] = false := by decide

end Numqi.C09
