/-
C19 — the error-set generators: `make_error_list` (general theorem, all `n`, `d`) and
`make_asymmetric_error_set` (specification + finite table).  Independent of the generated code data.
-/
import NumqiProofs.QecErrorList

namespace Numqi.C19
open Numqi Numqi.Qec

set_option maxRecDepth 100000

/-- **`make_error_list(n, d)` enumerates every Pauli string on `n` qubits of weight `1..d-1` exactly
once** (strings of symbols I=0 X=1 Y=2 Z=3 obtained from the generated (qubit, gate) lists):
every generated entry is such a string, every such string is generated, none twice.  All `n`, `d`. -/
theorem errorList_complete_nodup (n d : Nat) :
    (∀ s ∈ (errorList n d).map (sparseToSyms n), s.length = n ∧ (∀ x ∈ s, x < 4) ∧ 1 ≤ symWeight s ∧ symWeight s < d)
    ∧ (∀ s : List Nat, s.length = n → (∀ x ∈ s, x < 4) → 1 ≤ symWeight s → symWeight s < d →
        s ∈ (errorList n d).map (sparseToSyms n))
    ∧ ((errorList n d).map (sparseToSyms n)).Nodup :=
  ⟨fun s hs => errorList_sound n d s hs, fun s hl h4 h1 h2 => errorList_complete n d s hl h4 h1 h2, errorList_nodup n d⟩

/-- the generated (qubit, gate) list and its canonical string denote the same operator (masks and phase) -/
theorem errorList_operator (n d : Nat) (e : List (Nat × Nat)) (he : e ∈ errorList n d) :
    MP.ofSparse e = MP.ofSyms (sparseToSyms n e) :=
  ofSparse_eq_ofSyms n d e he

/-- the count that `make_error_list` must produce, e.g. 3675 for `(10, 4)` and 31713 for `(11, 5)` -/
example : (errorList 10 4).length = 3675 ∧ (errorList 5 3).length = 105 := by decide +kernel

/-- **Specification of `make_asymmetric_error_set(n, d, weight_z = p/q)`** (target, all `n d p q`):
exactly the non-identity strings with `n_x + n_y + (p/q) n_z < d`, each once. -/
def AsymmetricSetSpec.Statement : Prop :=
  ∀ n d p q : Nat, 0 < p → 0 < q →
    (∀ s ∈ (asymErrorSet n d p q).map (sparseToSyms n), s.length = n ∧ (∀ x ∈ s, x < 4) ∧ asymCond d p q s = true)
    ∧ (∀ s : List Nat, s.length = n → (∀ x ∈ s, x < 4) → asymCond d p q s = true →
        s ∈ (asymErrorSet n d p q).map (sparseToSyms n))
    ∧ ((asymErrorSet n d p q).map (sparseToSyms n)).Nodup

/-- the instances of the specification checked by the kernel (`asymCheck`: the bit set of the generated
strings, built while rejecting duplicates, equals the bit set of the strings satisfying the bound) -/
def asymTable : List (Nat × Nat × Nat × Nat) :=
  (List.range 5).flatMap (fun n => (List.range 5).flatMap fun d =>
    [(1, 2), (1, 1), (3, 2), (2, 1), (3, 1), (3, 4), (5, 2), (1, 4)].map fun pq => (n, d, pq.1, pq.2))
  ++ (List.range 5).flatMap (fun d => [(1, 2), (1, 1), (3, 2), (2, 1)].map fun pq => (5, d, pq.1, pq.2))

/-- **finite part of the specification**: all `n ≤ 4`, `d ≤ 4`, eight values of `weight_z`
(1/4 … 3), and `n = 5` with four of them — including the cases `n < d`. -/
theorem asymmetric_set_spec_partial :
    asymTable.all (fun t => asymCheck t.1 t.2.1 t.2.2.1 t.2.2.2) = true := by decide +kernel

example : asymTable.length = 220 := by decide

end Numqi.C19
