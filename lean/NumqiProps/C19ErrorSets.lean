/-
C19 — the error-set generators: `make_error_list` (general theorem, all `n`, `d`) and
`make_asymmetric_error_set` (general theorems, all `n`, `d`, `weight_z`).  Independent of the generated code data.
-/
import NumqiProofs.QecAsym
import NumqiProofs.QecFloatCeil
import NumqiProofs.QecParse
import NumqiProofs.QecDense

namespace Numqi.C19
open Numqi Numqi.Qec

set_option maxRecDepth 100000

/-- **`make_error_list(n, d)` enumerates every Pauli string on `n` qubits of weight `1..d-1` exactly
once** (strings of symbols I=0 X=1 Y=2 Z=3 obtained from the generated (qubit, gate) lists):
every generated entry is such a string, every such string is generated, none twice.  All `n`, `d`. -/
theorem errorList_complete_nodup (n d : Nat) :
    (∀ s ∈ (errorList n d).map (sparseToSyms n), s.length = n ∧ (∀ x ∈ s, x < 4) ∧ 1 ≤ symWeight s ∧ symWeight s < d)
    ∧ (∀ s : List Nat, s.length = n → (∀ x ∈ s, x < 4) → 1 ≤ symWeight s → symWeight s < d →
        s ∈ (errorList n d).map (sparseToSyms n))
    ∧ ((errorList n d).map (sparseToSyms n)).Nodup :=
  ⟨fun s hs => errorList_sound n d s hs, fun s hl h4 h1 h2 => errorList_complete n d s hl h4 h1 h2, errorList_nodup n d⟩

/-- the generated (qubit, gate) list and its canonical string denote the same operator (masks and phase) -/
theorem errorList_operator (n d : Nat) (e : List (Nat × Nat)) (he : e ∈ errorList n d) :
    MP.ofSparse e = MP.ofSyms (sparseToSyms n e) :=
  ofSparse_eq_ofSyms n d e he

/-- the count that `make_error_list` must produce, e.g. 3675 for `(10, 4)` and 31713 for `(11, 5)` -/
example : (errorList 10 4).length = 3675 ∧ (errorList 5 3).length = 105 := by decide +kernel

/-- **`make_asymmetric_error_set(n, d, weight_z = p/q)` lists exactly the non-identity Pauli strings with
`n_x + n_y + (p/q) n_z < d`, each once** — all `n`, `d`, every rational `weight_z = p/q > 0`
(model of `hf_split_element` + the three nested ranges, after fix b728c8a). -/
theorem asymmetric_set_spec (n d p q : Nat) (hp : 0 < p) :
    (∀ s ∈ (asymErrorSet n d p q).map (sparseToSyms n), s.length = n ∧ (∀ x ∈ s, x < 4) ∧ asymCond d p q s = true)
    ∧ (∀ s : List Nat, s.length = n → (∀ x ∈ s, x < 4) → asymCond d p q s = true →
        s ∈ (asymErrorSet n d p q).map (sparseToSyms n))
    ∧ ((asymErrorSet n d p q).map (sparseToSyms n)).Nodup :=
  ⟨fun s hs => asym_sound n d p q hp s hs, fun s hl h4 hc => asym_complete n d p q hp s hl h4 hc, asym_nodup n d p q⟩

/-- with `weight_z = 1` the asymmetric set is the symmetric one: same strings as `make_error_list` -/
theorem asymmetric_one_eq_errorList (n d : Nat) (s : List Nat) :
    s ∈ (asymErrorSet n d 1 1).map (sparseToSyms n) ↔ s ∈ (errorList n d).map (sparseToSyms n) := by
  have hcond : ∀ t : List Nat, (∀ x ∈ t, x < 4) → (asymCond d 1 1 t = true ↔ 1 ≤ symWeight t ∧ symWeight t < d) := by
    intro t ht
    have hw : symWeight t = cnt 1 t + cnt 2 t + cnt 3 t := by
      unfold symWeight cnt
      induction t with
      | nil => rfl
      | cons a t ih =>
        have ha := ht a (List.mem_cons_self ..)
        have ih' := ih (fun x hx => ht x (List.mem_cons_of_mem _ hx))
        simp only [List.filter_cons, List.countP_cons]
        interval_cases a <;> simp [ih'] <;> omega
    rw [asymCond_eq, hw]
    simp only [Bool.and_eq_true, bne_iff_ne, ne_eq, decide_eq_true_eq, Nat.mul_one]
    omega
  constructor
  · intro h
    obtain ⟨a, b, c⟩ := asym_sound n d 1 1 (by norm_num) s h
    exact errorList_complete n d s a b ((hcond s b).1 c).1 ((hcond s b).1 c).2
  · intro h
    obtain ⟨a, b, c1, c2⟩ := errorList_sound n d s h
    exact asym_complete n d 1 1 (by norm_num) s a b ((hcond s b).2 ⟨c1, c2⟩)

/-- **`int(np.ceil(a / weight_z))` as computed in binary64** (`fceilDiv`: exact rational quotient, IEEE
round-to-nearest-even to 53 bits, exact `ceil`) **is the exact ceiling or one less, never more**, for every
positive double `weight_z` and `a/weight_z < 2^53`. -/
theorem float_ceil_bounds (a wBits : Nat) (hw : 0 < ratOfFloatBits wBits) (ha : 0 < a)
    (ht : 0 ≤ f64Shift (((a : ℤ) : ℚ) / ratOfFloatBits wBits)) :
    (fceilDiv a wBits : ℤ) ≤ ⌈((a : ℤ) : ℚ) / ratOfFloatBits wBits⌉
    ∧ ⌈((a : ℤ) : ℚ) / ratOfFloatBits wBits⌉ - 1 ≤ (fceilDiv a wBits : ℤ) :=
  fceilDiv_bounds a wBits hw ha ht

/-- **`make_asymmetric_error_set` with any binary64 `weight_z = w`** (the bound computed as the implementation
does, in floating point): never an operator too many (`n_x+n_y+w n_z < d` with `w` at its exact value), none
twice, and every non-identity string with `n_x+n_y+w(n_z+1) < d` is present — rounding can only drop strings
within one `Z` of the bound. -/
theorem asymmetric_set_float_spec (n d wBits : Nat) (hw : 0 < ratOfFloatBits wBits)
    (ht : ∀ a : Nat, 0 < a → a ≤ d → 0 ≤ f64Shift (((a : ℤ) : ℚ) / ratOfFloatBits wBits)) :
    (∀ s ∈ (asymErrorSetF n d wBits).map (sparseToSyms n), s.length = n ∧ (∀ x ∈ s, x < 4)
        ∧ cnt 1 s + cnt 2 s + cnt 3 s ≠ 0
        ∧ ((cnt 1 s + cnt 2 s : ℕ) : ℚ) + ratOfFloatBits wBits * (cnt 3 s : ℕ) < d)
    ∧ (∀ s : List Nat, s.length = n → (∀ x ∈ s, x < 4) → cnt 1 s + cnt 2 s + cnt 3 s ≠ 0 →
        ((cnt 1 s + cnt 2 s : ℕ) : ℚ) + ratOfFloatBits wBits * ((cnt 3 s : ℕ) + 1) < d →
        s ∈ (asymErrorSetF n d wBits).map (sparseToSyms n))
    ∧ ((asymErrorSetF n d wBits).map (sparseToSyms n)).Nodup :=
  asym_float_spec n d wBits hw ht

/-- the rounding case is real: `weight_z = 0.3` (bits 4599075939470750515), `d - nxy = 3`: binary64 gives
`ceil(3/0.3) = 10`, the exact value of `3/0.3` is `10.000000000000000370…`, ceiling 11 -/
example : fceilDiv 3 4599075939470750515 = 10
    ∧ ratCeil (3 / ratOfFloatBits 4599075939470750515) = 11 := by decide +kernel

/-- **`make_error_list(n, d, tag_full=True)`** (model `errorListFull` + `denseEntry`, C08's Kronecker-factor matrix of the
string): the dense matrices are exactly the matrices `C08.mat` of the Pauli operators of weight `1..d-1`, each once
(any ring with `I² = -1`, `1 ≠ -1`; all `n`, `d`). -/
theorem errorListFull_every_matrix_once {R : Type} [CommRing R] {I : R} (hI : I * I = -1) (h2 : (1 : R) ≠ -1) (n d : Nat) :
    (∀ M ∈ (errorListFull n d).map (denseMat I n), ∃ s : List Nat, s.length = n ∧ (∀ x ∈ s, x < 4) ∧ 1 ≤ symWeight s
        ∧ symWeight s < d ∧ M = C08.mat I (Pauli.ofStr n s 0))
    ∧ (∀ s : List Nat, s.length = n → (∀ x ∈ s, x < 4) → 1 ≤ symWeight s → symWeight s < d →
        C08.mat I (Pauli.ofStr n s 0) ∈ (errorListFull n d).map (denseMat I n))
    ∧ ((errorListFull n d).map (denseMat I n)).Nodup :=
  errorListFull_spec hI h2 n d

/-- **`parse_simple_pauli`, full-word form**: a word over I/X/Y/Z never trips the assertion; the parsed tokens are its
non-identity letters with their positions; they denote the operator of the word (`tag_circuit=True` circuit = `MP.ofSyms`),
and the `tag_circuit=False` table lookup succeeds. -/
theorem parse_simple_pauli_full_form (l : List Nat) (h4 : ∀ x ∈ l, x < 4) :
    ∃ toks, parseSimplePauli (l.map symLetter) = some toks
      ∧ toks = (((List.range l.length).zip l).filter fun qs => qs.2 != 0)
      ∧ MP.ofSparse (pauliTokensCircuit toks) = MP.ofSyms l
      ∧ pauliTokensTable toks = some toks :=
  parse_full_word l h4

/-- **`parse_simple_pauli`, indexed form round trip**: any non-empty sequence of tokens letter+digits (multi-digit,
leading zeros allowed) written out as `X0Y12…` parses to exactly those (index, symbol) pairs. -/
theorem parse_simple_pauli_indexed_roundtrip (toks : List (Nat × List Char)) (hne : toks ≠ [])
    (hs : ∀ t ∈ toks, t.1 < 4) (hd : ∀ t ∈ toks, t.2 ≠ [] ∧ ∀ c ∈ t.2, isDigitC c = true) :
    parseSimplePauli (renderTokens toks) = some (toks.map fun t => (natOfDigits t.2, t.1)) :=
  parse_indexed_roundtrip toks hne hs hd

/-- the two forms of the same operator: `XIY` and `X0Y2` -/
example : parseSimplePauli "XIY".toList = some [(0, 1), (2, 2)] ∧ parseSimplePauli "X0Y2".toList = some [(0, 1), (2, 2)]
    ∧ parseSimplePauli "X0I1Y02".toList = some [(0, 1), (1, 0), (2, 2)]
    ∧ pauliTokensTable [(0, 1), (1, 0), (2, 2)] = none ∧ parseSimplePauli "X0Y".toList = none := by decide

/-- the case that was wrong before b728c8a: one qubit, distance 2 — X and Y are generated -/
example : (asymErrorSet 1 2 1 1).map (sparseToSyms 1) = [[3], [2], [1]] := by decide

end Numqi.C19
