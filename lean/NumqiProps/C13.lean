/-
C13 — two-qubit measures agree with each other; the convex-roof ansatz bounds from above.

Property theorems (algebra, all sizes). The scalar layer over ℝ (ranges, monotonicity, zero sets, guard totality of the
closed forms as functions of the concurrence) depends on the regenerated guard flags and lives in
`NumqiProofs/DecisionC13.lean`.
-/
import NumqiProofs.EntangleConj
import NumqiProofs.EntangleNuc
import Mathlib.Analysis.SpecialFunctions.Log.NegMulLog
import Mathlib.Analysis.Convex.Jensen
import Mathlib.Algebra.Order.Chebyshev
import Mathlib.Tactic
import Mathlib.LinearAlgebra.Matrix.Determinant.Basic
import Mathlib.LinearAlgebra.Matrix.Adjugate
import Mathlib.LinearAlgebra.Matrix.Trace
import Mathlib.LinearAlgebra.Matrix.Kronecker
import Mathlib.LinearAlgebra.UnitaryGroup
import Mathlib.Data.Complex.Basic
import Mathlib.LinearAlgebra.Matrix.Notation

namespace Numqi.C13
open Numqi Numqi.Ent Matrix
open scoped Kronecker

variable {R : Type} [CommRing R] [StarRing R]

/-! ## every parameter value is a pure-state decomposition -/

/-- **upper-bound theorem, matrix form.** With `ρ = S Sᴴ` (columns of `S`: `√λ_j v_j`) and any `X` (`k × r`) with
`XᴴX = 1`, the vectors `ψ_α = Σ_j X_{αj} S_{·j}` (columns of `S Xᵀ`) satisfy `Σ_α ψ_α ψ_αᴴ = ρ`, for all sizes. -/
theorem ensemble_decomposition {d r k : Type} [Fintype d] [Fintype r] [Fintype k] [DecidableEq r]
    (S : Matrix d r R) (X : Matrix k r R) (hX : Xᴴ * X = 1) :
    (S * Xᵀ) * (S * Xᵀ)ᴴ = S * Sᴴ := by
  have h : Xᵀ * Xᵀᴴ = 1 := by
    have : Xᵀ * Xᵀᴴ = (Xᴴ * X)ᵀ := by
      rw [transpose_mul]; rfl
    rw [this, hX, transpose_one]
  rw [conjTranspose_mul, Matrix.mul_assoc, ← Matrix.mul_assoc Xᵀ, h, Matrix.one_mul]

/-- the same on the model's flat arrays: `Σ_α ψ_α[k] conj ψ_α[k'] = Σ_j S[k,j] conj S[k',j]` for the ensemble
`ψ_α = ensembleVec …` that the models contract, whenever the Stiefel matrix is an isometry. -/
theorem ensembleVec_decomposition (num rank : Nat) (S X : Nat → R)
    (hX : ∀ j < rank, ∀ l < rank, sumRange num (fun al => X (al * rank + j) * conj (X (al * rank + l))) = if j = l then 1 else 0)
    (k k' : Nat) :
    sumRange num (fun al => ensembleVec rank S X al k * conj (ensembleVec rank S X al k'))
      = sumRange rank fun j => S (k * rank + j) * conj (S (k' * rank + j)) := by
  simp only [ensembleVec, conj_eq_star, sumRange_eq_sum, star_sum, star_mul'] at hX ⊢
  simp only [Finset.sum_mul_sum]
  rw [Finset.sum_comm]
  refine Finset.sum_congr rfl fun j hj => ?_
  rw [Finset.sum_comm]
  have : ∀ l ∈ Finset.range rank, (∑ al ∈ Finset.range num, S (k * rank + j) * X (al * rank + j) * (star (S (k' * rank + l)) * star (X (al * rank + l))))
      = S (k * rank + j) * star (S (k' * rank + l)) * (if j = l then 1 else 0) := by
    intro l hl
    rw [← hX j (Finset.mem_range.1 hj) l (Finset.mem_range.1 hl), Finset.mul_sum]
    refine Finset.sum_congr rfl fun al _ => by ring
  rw [Finset.sum_congr rfl this]
  simp [Finset.sum_ite_eq, hj]

/-- **the contraction the EOF / concurrence / linear-entropy models evaluate is the reduced state of each ensemble
member**: for `dimA ≤ dimB`, `contract_expr(X, conj X)[α,a,a'] = Σ_b ψ_α[a,b] conj ψ_α[a',b]`; otherwise the reduced state on B. -/
theorem ensembleRdm_eq (dimA dimB rank : Nat) (S X : Nat → R) (al p q : Nat) :
    ensembleRdm dimA dimB rank S X al p q =
      if dimA ≤ dimB then
        sumRange dimB fun b => ensembleVec rank S X al (flat [dimA, dimB] [p, b]) * conj (ensembleVec rank S X al (flat [dimA, dimB] [q, b]))
      else
        sumRange dimA fun a => ensembleVec rank S X al (flat [dimA, dimB] [a, p]) * conj (ensembleVec rank S X al (flat [dimA, dimB] [a, q])) := by
  have hf : ∀ a b j, flat [dimA, dimB, rank] [a, b, j] = flat [dimA, dimB] [a, b] * rank + j := by
    intro a b j; simp [flat, prodL]; ring
  unfold ensembleRdm
  split_ifs with h
  · simp only [ensembleVec, conj_eq_star, sumRange_eq_sum, star_sum, star_mul', hf, Finset.sum_mul_sum]
    refine Finset.sum_congr rfl fun b _ => Finset.sum_congr rfl fun j _ => Finset.sum_congr rfl fun l _ => by ring
  · simp only [ensembleVec, conj_eq_star, sumRange_eq_sum, star_sum, star_mul', hf, Finset.sum_mul_sum]
    refine Finset.sum_congr rfl fun b _ => Finset.sum_congr rfl fun j _ => Finset.sum_congr rfl fun l _ => by ring

omit [StarRing R] in
/-- **the GME model's contraction is the overlap of each ensemble member with a product vector** -/
theorem gmeOverlap_eq (dims : List Nat) (rank : Nat) (S X : Nat → R) (psi : Nat → Nat → R) (al : Nat) :
    gmeOverlap dims rank S X psi al = sumRange (prodL dims) fun k => ensembleVec rank S X al k *
      ((List.range dims.length).foldl (fun acc x => acc * psi x (al * dims.getD x 1 + (unflat dims k).getD x 0)) 1) := by
  simp only [gmeOverlap, ensembleVec, sumRange_eq_sum, Finset.sum_mul]

/-! ## pure states -/

/-- **pure-state concurrence of two qubits is `2|det ψ|`**: for a normalised `2×2` amplitude matrix the radicand of
`get_concurrence_pure` equals `(2|det ψ|)² = 4 · det ψ · conj(det ψ)`. -/
theorem concPureRadicand_two_qubit (ψ : Nat → Nat → R)
    (hn : ψ 0 0 * star (ψ 0 0) + ψ 0 1 * star (ψ 0 1) + ψ 1 0 * star (ψ 1 0) + ψ 1 1 * star (ψ 1 1) = 1) :
    concPureRadicand 2 2 ψ = 4 * ((ψ 0 0 * ψ 1 1 - ψ 0 1 * ψ 1 0) * star (ψ 0 0 * ψ 1 1 - ψ 0 1 * ψ 1 0)) := by
  simp only [concPureRadicand, sumRange, conj_eq_star, lt_irrefl, if_false, List.range_succ, List.range_zero, List.nil_append,
    List.map_cons, List.map_nil, List.sum_cons, List.sum_nil, List.cons_append, add_zero, star_add, star_mul', star_star, star_sub]
  linear_combination (-2 * (1 + (ψ 0 0 * star (ψ 0 0) + ψ 0 1 * star (ψ 0 1) + ψ 1 0 * star (ψ 1 0) + ψ 1 1 * star (ψ 1 1)))) * hn

/-! ## the spin flip and local unitaries -/

def sigmaY : Matrix (Fin 2) (Fin 2) ℂ := !![0, -Complex.I; Complex.I, 0]

/-- `σ_y ⊗ σ_y` in the computational basis -/
def sigmaYY : Matrix (Fin 4) (Fin 4) ℂ := !![0, 0, 0, -1; 0, 0, 1, 0; 0, 1, 0, 0; -1, 0, 0, 0]

/-- **`z0 = (tmp0[:,None]*tmp0) * rho[::-1,::-1].conj()` is `(σy⊗σy) ρ* (σy⊗σy)`** -/
theorem spinFlip_eq (ρ : Matrix (Fin 4) (Fin 4) ℂ) :
    (Matrix.of fun i j : Fin 4 => spinFlip (fun r c => if h : r < 4 ∧ c < 4 then ρ ⟨r, h.1⟩ ⟨c, h.2⟩ else 0) i j)
      = sigmaYY * ρ.map star * sigmaYY := by
  ext i j
  fin_cases i <;> fin_cases j <;>
    simp [spinFlip, flipSign, conj_eq_star, sigmaYY, Matrix.mul_apply, Fin.sum_univ_four, Matrix.vecMul, dotProduct]


/-- `sigmaYY` is the Kronecker product of two `σ_y` (row index `2a+b`) -/
theorem sigmaYY_eq_kron (i j : Fin 2 × Fin 2) :
    sigmaYY (finProdFinEquiv i) (finProdFinEquiv j) = sigmaY i.1 j.1 * sigmaY i.2 j.2 := by
  obtain ⟨a, b⟩ := i
  obtain ⟨c, d⟩ := j
  fin_cases a <;> fin_cases b <;> fin_cases c <;> fin_cases d <;>
    simp [sigmaYY, sigmaY, finProdFinEquiv]

/-- for every `2×2` matrix `σy Mᵀ σy` is the adjugate -/
theorem sigmaY_transpose_sigmaY (M : Matrix (Fin 2) (Fin 2) ℂ) : sigmaY * Mᵀ * sigmaY = M.adjugate := by
  rw [Matrix.adjugate_fin_two]
  ext i j
  fin_cases i <;> fin_cases j <;>
    simp [sigmaY, Matrix.mul_apply, Fin.sum_univ_two, Matrix.vecMul, dotProduct] <;>
    ring_nf <;> simp [Complex.I_sq]

/-- **`σy conj(U) σy = conj(det U) · U = U / det U`** for every `2×2` unitary `U` -/
theorem sigmaY_conj_unitary (U : Matrix (Fin 2) (Fin 2) ℂ) (hU : U * Uᴴ = 1) :
    sigmaY * U.map star * sigmaY = star U.det • U := by
  have h1 : U.map star = Uᴴᵀ := by ext i j; simp [conjTranspose_apply]
  rw [h1, sigmaY_transpose_sigmaY]
  have h2 : Uᴴ * Uᴴ.adjugate = Uᴴ.det • (1 : Matrix (Fin 2) (Fin 2) ℂ) := Matrix.mul_adjugate Uᴴ
  have h3 : U * (Uᴴ * Uᴴ.adjugate) = Uᴴ.adjugate := by rw [← Matrix.mul_assoc, hU, Matrix.one_mul]
  rw [← h3, h2, Matrix.mul_smul, Matrix.mul_one, Matrix.det_conjTranspose]

theorem sigmaY_mul_self : sigmaY * sigmaY = 1 := by
  ext i j
  fin_cases i <;> fin_cases j <;> simp [sigmaY, Matrix.mul_apply, Fin.sum_univ_two]

theorem sigmaY_conjTranspose : sigmaYᴴ = sigmaY := by
  ext i j
  fin_cases i <;> fin_cases j <;> simp [sigmaY, conjTranspose_apply]

private theorem det_norm_one (U : Matrix (Fin 2) (Fin 2) ℂ) (hU : U * Uᴴ = 1) : star U.det * U.det = 1 := by
  have := congrArg Matrix.det hU
  rw [Matrix.det_mul, Matrix.det_conjTranspose, Matrix.det_one] at this
  rw [mul_comm]; exact this

/-- **local-unitary covariance of the spin flip.** With `W = U ⊗ V` (`U, V ∈ U(2)`) and `Y = σy ⊗ σy`:
`Y (W ρ Wᴴ)* Y = W (Y ρ* Y) Wᴴ`; hence `ρ ρ̃ ↦ W (ρ ρ̃) Wᴴ` is a similarity and the spectrum read by `eigvalsh`
(and with it concurrence, EOF, GME) is unchanged. -/
theorem spinFlip_local_unitary (U V : Matrix (Fin 2) (Fin 2) ℂ) (hU : U * Uᴴ = 1) (hV : V * Vᴴ = 1)
    (ρ : Matrix (Fin 2 × Fin 2) (Fin 2 × Fin 2) ℂ) :
    (sigmaY ⊗ₖ sigmaY) * ((U ⊗ₖ V) * ρ * (U ⊗ₖ V)ᴴ).map star * (sigmaY ⊗ₖ sigmaY)
      = (U ⊗ₖ V) * ((sigmaY ⊗ₖ sigmaY) * ρ.map star * (sigmaY ⊗ₖ sigmaY)) * (U ⊗ₖ V)ᴴ := by
  set Y := sigmaY ⊗ₖ sigmaY with hY
  set W := U ⊗ₖ V with hW
  have hYY : Y * Y = 1 := by
    rw [hY, ← Matrix.mul_kronecker_mul, sigmaY_mul_self, Matrix.one_kronecker_one]
  have hYh : Yᴴ = Y := by rw [hY, Matrix.conjTranspose_kronecker, sigmaY_conjTranspose]
  have hmap : ∀ A B : Matrix (Fin 2 × Fin 2) (Fin 2 × Fin 2) ℂ, (A * B).map star = A.map star * B.map star := by
    intro A B; exact Matrix.map_mul (f := starRingEnd ℂ)
  have hWs : W.map star = U.map star ⊗ₖ V.map star := by
    ext ⟨a, b⟩ ⟨c, d⟩; simp [hW, Matrix.kroneckerMap_apply]
  have key : Y * W.map star * Y = (star U.det * star V.det) • W := by
    rw [hWs, hY, ← Matrix.mul_kronecker_mul, ← Matrix.mul_kronecker_mul, sigmaY_conj_unitary U hU, sigmaY_conj_unitary V hV,
      Matrix.smul_kronecker, Matrix.kronecker_smul, smul_smul]
  have key2 : Y * Wᴴ.map star * Y = (U.det * V.det) • Wᴴ := by
    have h1 : Wᴴ.map star = (W.map star)ᴴ := by ext i j; simp [conjTranspose_apply]
    have h2 : Y * (W.map star)ᴴ * Y = (Y * W.map star * Y)ᴴ := by
      rw [conjTranspose_mul, conjTranspose_mul, hYh, Matrix.mul_assoc]
    rw [h1, h2, key, conjTranspose_smul]
    simp [star_mul']
  calc Y * (W * ρ * Wᴴ).map star * Y
      = Y * (W.map star * ρ.map star * Wᴴ.map star) * Y := by rw [hmap, hmap]
    _ = (Y * W.map star * Y) * (Y * ρ.map star * Y) * (Y * Wᴴ.map star * Y) := by
        have e : ∀ A B C : Matrix (Fin 2 × Fin 2) (Fin 2 × Fin 2) ℂ, Y * (A * B * C) * Y = (Y * A * Y) * (Y * B * Y) * (Y * C * Y) := by
          intro A B C
          calc Y * (A * B * C) * Y = Y * A * (1 : Matrix _ _ ℂ) * B * (1 : Matrix _ _ ℂ) * C * Y := by
                simp [Matrix.mul_assoc]
            _ = Y * A * (Y * Y) * B * (Y * Y) * C * Y := by rw [hYY]
            _ = (Y * A * Y) * (Y * B * Y) * (Y * C * Y) := by simp only [Matrix.mul_assoc]
        exact e _ _ _
    _ = W * (Y * ρ.map star * Y) * Wᴴ := by
        rw [key, key2, Matrix.smul_mul, Matrix.mul_smul, Matrix.smul_mul, smul_smul]
        have : U.det * V.det * (star U.det * star V.det) = 1 := by
          have a := det_norm_one U hU
          have b := det_norm_one V hV
          calc U.det * V.det * (star U.det * star V.det) = (star U.det * U.det) * (star V.det * V.det) := by ring
            _ = 1 := by rw [a, b, one_mul]
        rw [this, one_smul]


/-! ## pure states: the mixed-state formulas reduce to the pure-state ones -/

/-- `ρ = ψψᴴ` on flat indices -/
def pureRho (ψ : Nat → R) : Nat → Nat → R := fun r c => ψ r * conj (ψ c)

/-- the spin-flipped vector `ψ̃ = (σy⊗σy) ψ*` -/
def flipVec (ψ : Nat → R) : Nat → R := fun i => flipSign i * conj (ψ (3 - i))

/-- `det ψ` of the 2×2 amplitude matrix `ψ[2a+b]` -/
def det2 (ψ : Nat → R) : R := ψ 0 * ψ 3 - ψ 1 * ψ 2

/-- **spin flip of a pure state is the pure state of the flipped vector** -/
theorem spinFlip_pure (ψ : Nat → R) (i j : Fin 4) : spinFlip (pureRho ψ) i j = pureRho (flipVec ψ) i j := by
  fin_cases i <;> fin_cases j <;> simp [spinFlip, pureRho, flipVec, flipSign, conj_eq_star, star_mul']

/-- `⟨ψ|ψ̃⟩ = -2·conj(det ψ)` -/
theorem overlap_flipVec (ψ : Nat → R) : sumRange 4 (fun k => conj (ψ k) * flipVec ψ k) = -2 * star (det2 ψ) := by
  simp [sumRange, List.range_succ, flipVec, flipSign, det2, conj_eq_star, star_mul']
  ring

private theorem matMul_rankOne (u v x y : Nat → R) (i j : Nat) :
    matMul 4 (fun r c => u r * conj (v c)) (fun r c => x r * conj (y c)) i j
      = sumRange 4 (fun k => conj (v k) * x k) * (u i * conj (y j)) := by
  simp [matMul, sumRange, List.range_succ]; ring

omit [StarRing R] in
private theorem matMul4_congr {A A' B B' : Nat → Nat → R} (hA : ∀ i k : Fin 4, A i k = A' i k) (hB : ∀ k j : Fin 4, B k j = B' k j)
    (i j : Fin 4) : matMul 4 A B i j = matMul 4 A' B' i j := by
  simp only [matMul, sumRange, List.range_succ, List.range_zero, List.nil_append, List.cons_append, List.map_cons, List.map_nil,
    List.sum_cons, List.sum_nil]
  have a0 := hA i 0; have a1 := hA i 1; have a2 := hA i 2; have a3 := hA i 3
  have b0 := hB 0 j; have b1 := hB 1 j; have b2 := hB 2 j; have b3 := hB 3 j
  simp only [Fin.val_zero, Fin.val_one, Fin.val_two, show ((3 : Fin 4) : Nat) = 3 from rfl] at a0 a1 a2 a3 b0 b1 b2 b3
  rw [a0, a1, a2, a3, b0, b1, b2, b3]

/-- **`R = ρ ρ̃` of a pure state is rank one**: `R = ⟨ψ|ψ̃⟩ · ψ ψ̃ᴴ` -/
theorem pure_R_rankOne (ψ : Nat → R) (i j : Fin 4) :
    matMul 4 (pureRho ψ) (spinFlip (pureRho ψ)) i j = (-2 * star (det2 ψ)) * (ψ i * conj (flipVec ψ j)) := by
  rw [matMul4_congr (A' := pureRho ψ) (B' := pureRho (flipVec ψ)) (fun _ _ => rfl) (spinFlip_pure ψ)]
  unfold pureRho
  rw [matMul_rankOne, overlap_flipVec]

/-- its trace is `4·det ψ·conj(det ψ) = (2|det ψ|)²` … -/
theorem pure_R_trace (ψ : Nat → R) :
    sumRange 4 (fun i => (-2 * star (det2 ψ)) * (ψ i * conj (flipVec ψ i))) = 4 * (det2 ψ * star (det2 ψ)) := by
  simp [sumRange, List.range_succ, flipVec, flipSign, det2, conj_eq_star, star_mul']
  ring

/-- … and `R² = (tr R)·R`: the only possibly non-zero eigenvalue of `R` is `(2|det ψ|)²` -/
theorem pure_R_sq (ψ : Nat → R) (i j : Nat) :
    matMul 4 (fun r c => (-2 * star (det2 ψ)) * (ψ r * conj (flipVec ψ c))) (fun r c => (-2 * star (det2 ψ)) * (ψ r * conj (flipVec ψ c))) i j
      = (4 * (det2 ψ * star (det2 ψ))) * ((-2 * star (det2 ψ)) * (ψ i * conj (flipVec ψ j))) := by
  simp [matMul, sumRange, List.range_succ, flipVec, flipSign, det2, conj_eq_star, star_mul']
  ring

/-- **the matrix handed to `eigvalsh` for a pure state** (`sqrt_rho = ρ` because `ρ² = ρ` for a unit vector; the identity
holds for every `ψ`): `ρ ρ̃ ρ = (2|det ψ|)² · ρ`. -/
theorem concurrenceArg_pure (ψ : Nat → R) (i j : Fin 4) :
    concurrenceArg (pureRho ψ) (pureRho ψ) i j = (4 * (det2 ψ * star (det2 ψ))) * pureRho ψ i j := by
  unfold concurrenceArg
  have h1 : ∀ i k : Fin 4, matMul 4 (pureRho ψ) (spinFlip (pureRho ψ)) i k
      = (fun r c => (-2 * star (det2 ψ) * ψ r) * conj (flipVec ψ c)) i k := by
    intro i k; rw [pure_R_rankOne]; ring
  rw [matMul4_congr (A' := fun r c => (-2 * star (det2 ψ) * ψ r) * conj (flipVec ψ c)) (B' := pureRho ψ) h1 (fun _ _ => rfl)]
  unfold pureRho
  rw [matMul_rankOne]
  have : sumRange 4 (fun k => conj (flipVec ψ k) * ψ k) = -2 * det2 ψ := by
    simp [sumRange, List.range_succ, flipVec, flipSign, det2, conj_eq_star]
    ring
  rw [this]; ring

/-- a unit vector's projector is idempotent, so it is its own positive square root (the `eigh` contract for pure states) -/
theorem pureRho_idem (ψ : Nat → R) (hn : sumRange 4 (fun k => conj (ψ k) * ψ k) = 1) (i j : Nat) :
    matMul 4 (pureRho ψ) (pureRho ψ) i j = pureRho ψ i j := by
  unfold pureRho
  rw [matMul_rankOne, hn, one_mul]

/-- eigen-structure of `t·ψψᴴ`: `ψ` is an eigenvector with eigenvalue `t‖ψ‖²`, everything orthogonal to `ψ` is in the kernel -/
theorem rankOne_eigen (t : R) (ψ v : Nat → R) (r : Nat) :
    sumRange 4 (fun c => (t * pureRho ψ r c) * v c) = (t * sumRange 4 (fun c => conj (ψ c) * v c)) * ψ r := by
  simp [sumRange, List.range_succ, pureRho]; ring

/-- the reduced state `T = ψᴴψ` of a two-qubit pure state (as in `get_concurrence_pure` / `get_eof_pure`) has trace `‖ψ‖²` and
determinant `det ψ·conj(det ψ)`: its eigenvalues (Schmidt weights) are the roots of `x² − ‖ψ‖² x + |det ψ|²` -/
theorem schmidt_trace_det (ψ : Nat → R) :
    let T : Nat → Nat → R := fun i j => sumRange 2 fun a => conj (ψ (2 * a + i)) * ψ (2 * a + j)
    T 0 0 + T 1 1 = sumRange 4 (fun k => conj (ψ k) * ψ k) ∧ T 0 0 * T 1 1 - T 0 1 * T 1 0 = det2 ψ * star (det2 ψ) := by
  constructor
  · simp [sumRange, List.range_succ]; ring
  · simp [sumRange, List.range_succ, det2, conj_eq_star, star_mul']; ring


omit [StarRing R] in
/-- **product states**: for `ψ = a ⊗ b` (`ψ[2i+j] = a_i b_j`) the amplitude determinant vanishes … -/
theorem det2_product (a b : Nat → R) : det2 (fun k => a (k / 2) * b (k % 2)) = 0 := by
  simp [det2]; ring

/-- … hence the matrix handed to `eigvalsh` by `get_concurrence_2qubit` for the pure product state `aaᴴ ⊗ bbᴴ` is the zero matrix
(`R = ρρ̃` has `tr R = 0`, `R² = 0`): its spectrum is `(0,0,0,0)`, the read-out (`woottersReadout_zero`) is concurrence 0, and
`eof_zero`, `gme_eq_zero_iff` give EOF = GME = 0 — "finite and zero" on pure product states, modulo the `eigvalsh` contract. -/
theorem concurrenceArg_product (a b : Nat → R) (i j : Fin 4) :
    concurrenceArg (pureRho fun k => a (k / 2) * b (k % 2)) (pureRho fun k => a (k / 2) * b (k % 2)) i j = 0 := by
  rw [concurrenceArg_pure, det2_product]; simp

/-! ## Bell-diagonal states -/

/-- a Bell-diagonal state with self-conjugate (real) weights is its own spin flip -/
theorem bellDiag_spinFlip (p : Nat → R) (hp : ∀ i, star (p i) = p i) (i j : Fin 4) :
    spinFlip (bellDiag2 p) i j = bellDiag2 p i j := by
  fin_cases i <;> fin_cases j <;> simp [spinFlip, flipSign, bellDiag2, conj_eq_star, hp]

omit [StarRing R] in
/-- Bell-diagonal matrices multiply weight-wise: `B(a)·B(b) = 2·B(ab)` -/
theorem bellDiag2_matMul (a b : Nat → R) (i j : Fin 4) :
    matMul 4 (bellDiag2 a) (bellDiag2 b) i j = 2 * bellDiag2 (fun k => a k * b k) i j := by
  fin_cases i <;> fin_cases j <;> simp [matMul, sumRange, List.range_succ, bellDiag2] <;> ring

/-- **the argument of `eigvalsh` for a Bell-diagonal state**: with `sqrt_rho = ½·B(s)`, `ρ = ½·B(p)` (`B = bellDiag2`)
one gets `½·B(s·p·s)`; division-free: `B(s)·spinFlip(B(p))·B(s) = 4·B(s p s)`. For `s_i = √p_i` this is `B(p²)`. -/
theorem concurrenceArg_bellDiag (s p : Nat → R) (hp : ∀ i, star (p i) = p i) (i j : Fin 4) :
    concurrenceArg (bellDiag2 s) (bellDiag2 p) i j = 4 * bellDiag2 (fun k => s k * p k * s k) i j := by
  unfold concurrenceArg
  have h1 : ∀ i k : Fin 4, matMul 4 (bellDiag2 s) (spinFlip (bellDiag2 p)) i k = 2 * bellDiag2 (fun k => s k * p k) i k := by
    intro i k
    rw [matMul4_congr (A' := bellDiag2 s) (B' := bellDiag2 p) (fun _ _ => rfl) (bellDiag_spinFlip p hp), bellDiag2_matMul]
  rw [matMul4_congr (A' := fun i k => 2 * bellDiag2 (fun k => s k * p k) i k) (B' := bellDiag2 s) h1 (fun _ _ => rfl)]
  have h2 := bellDiag2_matMul (fun k => s k * p k) s i j
  simp only [matMul, sumRange, List.range_succ, List.range_zero, List.nil_append, List.cons_append, List.map_cons, List.map_nil,
    List.sum_cons, List.sum_nil] at h2 ⊢
  linear_combination 2 * h2

omit [StarRing R] in
/-- `B(q)` is diagonal in the Bell basis: `B(q)·bellVec_i = 2 q_{σ(i)}·bellVec_i` with `σ = (0,1,2,3)` for the state itself -/
theorem bellDiag2_mulVec_bellVec (q : Nat → R) (i r : Fin 4) :
    sumRange 4 (fun c => bellDiag2 q r c * bellVec i c) = 2 * q i * bellVec i r := by
  fin_cases i <;> fin_cases r <;> simp [sumRange, List.range_succ, bellDiag2, bellVec] <;> ring


/-! ## every loss is a convex combination of member values in range -/

/-- **purity of an (unnormalised) reduced state is at most the square of its trace**: for `G = A Aᴴ` (the reduced state of
the ensemble member with amplitude matrix `A`, theorem `ensembleRdm_eq`), `Σ_ij |G_ij|² ≤ (Σ_ib |A_ib|²)²` -/
theorem gram_purity_le {m n : Type} [Fintype m] [Fintype n] (A : Matrix m n ℂ) :
    ∑ i, ∑ j, ‖(A * Aᴴ) i j‖ ^ 2 ≤ (∑ i, ∑ b, ‖A i b‖ ^ 2) ^ 2 := by
  have h : ∀ i j, ‖(A * Aᴴ) i j‖ ^ 2 ≤ (∑ b, ‖A i b‖ ^ 2) * (∑ b, ‖A j b‖ ^ 2) := by
    intro i j
    have e : (A * Aᴴ) i j = star (fun b => A j b) ⬝ᵥ (fun b => A i b) := by
      simp [Matrix.mul_apply, conjTranspose_apply, dotProduct, mul_comm]
    rw [e, mul_comm]
    exact norm_dotProduct_sq_le _ _
  calc ∑ i, ∑ j, ‖(A * Aᴴ) i j‖ ^ 2 ≤ ∑ i, ∑ j, (∑ b, ‖A i b‖ ^ 2) * (∑ b, ‖A j b‖ ^ 2) :=
        Finset.sum_le_sum fun i _ => Finset.sum_le_sum fun j _ => h i j
    _ = (∑ i, ∑ b, ‖A i b‖ ^ 2) ^ 2 := by rw [sq, Finset.sum_mul_sum]

/-- … and at least `trace²/dim`: the purity of the normalised reduced state lies in `[1/d, 1]` -/
theorem gram_purity_ge {m n : Type} [Fintype m] [Fintype n] (A : Matrix m n ℂ) :
    (∑ i, ∑ b, ‖A i b‖ ^ 2) ^ 2 ≤ (Fintype.card m : ℝ) * ∑ i, ∑ j, ‖(A * Aᴴ) i j‖ ^ 2 := by
  have hd : ∀ i, ‖(A * Aᴴ) i i‖ = ∑ b, ‖A i b‖ ^ 2 := by
    intro i
    have e : (A * Aᴴ) i i = ((∑ b, ‖A i b‖ ^ 2 : ℝ) : ℂ) := by
      simp only [Matrix.mul_apply, conjTranspose_apply]
      push_cast
      refine Finset.sum_congr rfl fun b _ => ?_
      rw [Complex.star_def, Complex.mul_conj']
    rw [e, Complex.norm_real, Real.norm_of_nonneg (Finset.sum_nonneg fun _ _ => by positivity)]
  calc (∑ i, ∑ b, ‖A i b‖ ^ 2) ^ 2 ≤ (Fintype.card m : ℝ) * ∑ i, (∑ b, ‖A i b‖ ^ 2) ^ 2 := by
        have := sq_sum_le_card_mul_sum_sq (s := (Finset.univ : Finset m)) (f := fun i => ∑ b, ‖A i b‖ ^ 2)
        simpa using this
    _ ≤ (Fintype.card m : ℝ) * ∑ i, ∑ j, ‖(A * Aᴴ) i j‖ ^ 2 := by
        gcongr with i _
        rw [← hd i]
        exact Finset.single_le_sum (f := fun j => ‖(A * Aᴴ) i j‖ ^ 2) (fun _ _ => by positivity) (Finset.mem_univ i)

/-- overlap of a member with a unit vector is at most the member's weight (GME loss members lie in `[0, p_α]`) -/
theorem overlap_sq_le {n : Type} [Fintype n] (φ ψ : n → ℂ) (hφ : ∑ k, ‖φ k‖ ^ 2 = 1) :
    ‖∑ k, ψ k * φ k‖ ^ 2 ≤ ∑ k, ‖ψ k‖ ^ 2 := by
  have := norm_dotProduct_sq_le (fun k => star (φ k)) ψ
  simp only [dotProduct, Pi.star_apply, star_star, norm_star, hφ, one_mul] at this
  simpa [mul_comm] using this

/-- entropy of a member: for a spectrum `λ ≥ 0` with `Σλ = p`, `0 ≤ p log p − Σ λ log λ ≤ p log d` -/
theorem member_entropy_range {d : Nat} (lam : Fin d → ℝ) (h0 : ∀ i, 0 ≤ lam i) (p : ℝ) (hp : ∑ i, lam i = p) (hd : 0 < d) :
    0 ≤ p * Real.log p - ∑ i, lam i * Real.log (lam i) ∧ p * Real.log p - ∑ i, lam i * Real.log (lam i) ≤ p * Real.log d := by
  have hp0 : 0 ≤ p := hp ▸ Finset.sum_nonneg fun i _ => h0 i
  constructor
  · have : ∑ i, lam i * Real.log (lam i) ≤ ∑ i, lam i * Real.log p := by
      refine Finset.sum_le_sum fun i _ => ?_
      rcases (h0 i).eq_or_lt with h | h
      · simp [← h]
      · have hle : lam i ≤ p := hp ▸ Finset.single_le_sum (fun j _ => h0 j) (Finset.mem_univ i)
        exact mul_le_mul_of_nonneg_left (Real.log_le_log h hle) (h0 i)
    rw [← Finset.sum_mul, hp] at this
    linarith
  · -- Jensen for the concave x ↦ -x log x with uniform weights
    have hd' : (0 : ℝ) < d := by exact_mod_cast hd
    have hJ := Real.concaveOn_negMulLog.le_map_sum (t := Finset.univ) (w := fun _ : Fin d => (1 / d : ℝ)) (p := lam)
      (fun _ _ => by positivity) (by simp [hd'.ne']) (fun i _ => h0 i)
    simp only [smul_eq_mul, ← Finset.mul_sum, hp, Real.negMulLog] at hJ
    have e : ∑ i, -(lam i) * Real.log (lam i) = -∑ i, lam i * Real.log (lam i) := by
      rw [← Finset.sum_neg_distrib]; exact Finset.sum_congr rfl fun i _ => by ring
    rw [e] at hJ
    rcases hp0.eq_or_lt with h | h
    · rw [← h] at hJ ⊢
      have hz : ∀ i, lam i = 0 := fun i =>
        (Finset.sum_eq_zero_iff_of_nonneg fun j _ => h0 j).1 (hp.trans h.symm) i (Finset.mem_univ i)
      simp [hz]
    · have hl : Real.log (1 / d * p) = Real.log p - Real.log d := by
        rw [Real.log_mul (by positivity) h.ne', one_div, Real.log_inv]; ring
      rw [hl] at hJ
      have : 1 / (d : ℝ) * (-∑ i, lam i * Real.log (lam i)) ≤ 1 / (d : ℝ) * (-(p * (Real.log p - Real.log d))) := by
        calc _ ≤ -(1 / d * p) * (Real.log p - Real.log d) := hJ
          _ = _ := by ring
      have := le_of_mul_le_mul_left this (by positivity)
      linarith


/-! ## the hypotheses are satisfiable, the statements are not vacuous -/

/-- an isometry exists for every size (the identity) -/
example : (1 : Matrix (Fin 3) (Fin 3) ℂ)ᴴ * 1 = 1 := by simp

/-- … and the decomposition theorem then applies to any `S` -/
example (S : Matrix (Fin 4) (Fin 3) ℂ) : (S * (1 : Matrix (Fin 3) (Fin 3) ℂ)ᵀ) * (S * (1 : Matrix (Fin 3) (Fin 3) ℂ)ᵀ)ᴴ = S * Sᴴ :=
  ensemble_decomposition S 1 (by simp)

/-- a product state is normalised and has concurrence 0, the Bell-type amplitude `diag(3/5, 4/5)` has radicand `(24/25)²` -/
example : concPureRadicand 2 2 (fun a b => if a = 0 ∧ b = 0 then (1 : ℂ) else 0) = 0 := by
  rw [concPureRadicand_two_qubit _ (by simp)]; simp

example : concPureRadicand 2 2 (fun a b => if a = b then (if a = 0 then (3 / 5 : ℂ) else 4 / 5) else 0) = (24 / 25) ^ 2 := by
  rw [concPureRadicand_two_qubit _ (by simp; norm_num)]; simp; norm_num

/-- `σ_y` itself is unitary, so the invariance identity applies to it -/
example : sigmaY * sigmaY.map star * sigmaY = star sigmaY.det • sigmaY :=
  sigmaY_conj_unitary sigmaY (by rw [sigmaY_conjTranspose, sigmaY_mul_self])

/-- the spin flip of the model on a concrete matrix: only the anti-diagonal reflection with signs -/
example : (List.range 4).map (fun i => (List.range 4).map fun j => spinFlip (fun r c => (⟨4 * r + c, r⟩ : GInt)) i j)
    = [[⟨15, -3⟩, ⟨-14, 3⟩, ⟨-13, 3⟩, ⟨12, -3⟩], [⟨-11, 2⟩, ⟨10, -2⟩, ⟨9, -2⟩, ⟨-8, 2⟩], [⟨-7, 1⟩, ⟨6, -1⟩, ⟨5, -1⟩, ⟨-4, 1⟩],
       [⟨3, 0⟩, ⟨-2, 0⟩, ⟨-1, 0⟩, ⟨0, 0⟩]] := by decide

end Numqi.C13
